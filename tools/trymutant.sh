#!/bin/bash
# tools/trymutant.sh <patch.diff> <ID> [<ID>...]  — applies a seeded change to /repo under the
# exclusive repository lock, runs the quick checks of the given properties, and undoes it.
# Prints each check's summary and VIOLATION lines.  Never commits anything to /repo.
set -u
patch=$(realpath "$1"); shift
cd /verif
exec 9>/verif/.repo.lock
flock -x 9
if ! git -C /repo diff --quiet; then echo "trymutant: /repo has local changes; refusing"; exit 2; fi
if ! git -C /repo apply "$patch"; then echo "trymutant: patch does not apply"; exit 2; fi
ids="$*"
restore() {
  git -C /repo checkout -- . ; git -C /repo clean -fdq
  # put the regenerated facts and the evidence of the unchanged tree back (cheap: no full check run while the lock is held)
  export GOFLAGS=-mod=mod GOPROXY=off GOSUMDB=off GOTOOLCHAIN=local CGO_ENABLED=0
  for id in $ids; do
    [ -f tmp/pre_mut_evidence_$id.json ] && cp tmp/pre_mut_evidence_$id.json evidence/$id.json
    for g in $(python3 -c "import json;c=json.load(open('props.json'))['$id'];print(' '.join(c.get('gen',[])))"); do
      (cd harness && go build -o bin/ ./cmd/$g && ./bin/$g factgen -repo /repo -out ../lean/GIV/Gen >/dev/null) || echo "trymutant: WARNING factgen $g failed after undo"
    done
  done
}
trap restore EXIT
for id in "$@"; do
  cp evidence/$id.json tmp/pre_mut_evidence_$id.json 2>/dev/null
  echo "== $id with $(basename "$patch")"
  VERIF_HOLDING_REPO_LOCK=1 timeout 1500 ./check "$id" "${TIER:-quick}" 2>&1 | tail -4
  echo "exit=${PIPESTATUS[0]}"
  cp evidence/$id.json tmp/mut_evidence_$id.json 2>/dev/null
done
