#!/usr/bin/env python3
"""Regenerates MANIFEST.json from props.json (one entry per claimed property) and
not_applicable.json (properties not claimed, with reasons); validates against the schema."""
import json, os, sys
ROOT = os.path.dirname(os.path.dirname(os.path.abspath(__file__)))
props = json.load(open(os.path.join(ROOT, "props.json")))
na_path = os.path.join(ROOT, "not_applicable.json")
na = json.load(open(na_path)) if os.path.exists(na_path) else {}
allids = [json.loads(l)["id"] for l in open(os.path.join(ROOT, "properties.jsonl"))]
checks = []
for pid in allids:
    if pid not in props or props[pid].get("disabled") or not props[pid].get("ready"):
        continue  # only checks the coordinator has verified green on the unchanged tree are registered
    c = props[pid]
    checks.append({
        "property_id": pid,
        "quick_cmd": f"./check {pid} quick",
        "thorough_cmd": f"./check {pid} thorough",
        "evidence_file": f"/verif/evidence/{pid}.json",
        "replay_cmd_template": f"./check {pid} quick --replay {{path}}",
        "engine": "lean-giv",
        "level_claimed": {"category": c.get("level", "proof"), "text": c.get("claim_text", ""), "design_ref": c.get("design_ref", "DESIGN.md §6")},
        "level_note": c.get("level_note", "; ".join(c.get("trusted_base", []))),
        "technique": c.get("technique", "Lean 4 machine-checked proof over an executable model + model/implementation correspondence check"),
    })
claimed = {c["property_id"] for c in checks}
man = {
    "version": 1,
    "setup_cmd": "./setup.sh",
    "hooks": {"guard": "verif", "enable": "none needed: no instrumentation lives in /repo; instrumented variants are produced on a scratch copy outside /repo by source rewriting",
              "baseline_off_cmd": "cd /repo && GOFLAGS=-mod=mod GOPROXY=off go test -json -vet=off -count=1 -timeout 25m ./...",
              "source_commits": [], "add_only": True},
    "engines": [
        {"name": "lean-giv", "path": "lean", "serves_properties": sorted(claimed),
         "kind_free_text": "Lean 4 library GIV: hand-written executable models, facts regenerated from /repo (Gen), property theorems (Props), native model drivers"},
        {"name": "corr", "path": "harness", "serves_properties": sorted(claimed),
         "kind_free_text": "Go correspondence harness (implementation vs Lean model driver, property oracles) and factgen (go/ast fact extractor)"}],
    "checks": checks,
    "not_applicable": [{"property_id": p, "reason": na.get(p, "check not built yet in this round; see DESIGN.md §6 for the plan")} for p in allids if p not in claimed],
    "notes": "All checks: ./check <ID> <quick|thorough>. See DESIGN.md.",
}
json.dump(man, open(os.path.join(ROOT, "MANIFEST.json"), "w"), indent=1)
try:
    import jsonschema
    jsonschema.validate(man, json.load(open("/root/.vp/MANIFEST.schema.json")))
    print("MANIFEST valid;", len(checks), "checks,", len(man["not_applicable"]), "not applicable")
except ImportError:
    print("jsonschema not available; not validated")
