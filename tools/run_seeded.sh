#!/bin/bash
# tools/run_seeded.sh [ids...] — runs every seeded change (seeded/<id>/patch.diff) against the quick check of the
# property it breaks (via tools/trymutant.sh: apply to /repo under the exclusive lock, check, undo) and records
# the outcome in seeded/<id>/result.json.  Prints a summary table.
cd /verif
ids="$@"; [ -z "$ids" ] && ids=$(ls seeded)
for sid in $ids; do
  [ -f seeded/$sid/patch.diff ] || continue
  prop=$(python3 -c "import json;print(json.load(open('seeded/$sid/meta.json'))['property'])")
  out=$(./tools/trymutant.sh seeded/$sid/patch.diff $prop 2>&1)
  line=$(echo "$out" | grep -E "^VIOLATION" | head -1)
  summ=$(echo "$out" | grep -E "^$prop (quick|thorough):" | head -1)
  if echo "$line" | grep -q "no-failing-input-found"; then verdict="flagged-no-input"
  elif [ -n "$line" ]; then verdict="caught-with-replay"
  else verdict="MISSED"; fi
  python3 - "$sid" "$verdict" "$line" "$summ" <<'PY'
import json,sys,time
sid,verdict,line,summ=sys.argv[1:5]
json.dump({"seeded":sid,"verdict":verdict,"violation_line":line,"check_summary":summ,"at":time.strftime("%Y-%m-%dT%H:%M:%S")},open(f"/verif/seeded/{sid}/result.json","w"),indent=1)
PY
  printf "%-10s %-20s %s\n" "$sid" "$verdict" "$summ"
done
