#!/bin/bash
# tools/sweep_snapshot.sh <outdir> [seeded ids...]
# For `vp run --with-repo -- tools/sweep_snapshot.sh /verif/tmp/sweep [ids]`: runs every seeded change against
# the quick check of its property inside the SNAPSHOT of /verif (cwd) and the snapshot of /repo
# ($VP_RUN_REPO), so that /repo and /verif themselves are never touched.  Results (one JSON per
# seeded id, with the commit of the snapshot) are written to <outdir> by absolute path; they are
# bookkeeping for DESIGN §10.5, not evidence.
set -u
out=$1; shift
mkdir -p "$out"
R=${VP_RUN_REPO:?needs vp run --with-repo}
export VERIF_REPO=$R VERIF_HOLDING_REPO_LOCK=1
export GOFLAGS=-mod=mod GOPROXY=off GOSUMDB=off GOTOOLCHAIN=local CGO_ENABLED=0
here=$(pwd)
commit=$(git rev-parse --short HEAD 2>/dev/null || echo unknown)
(cd harness && go mod edit -replace github.com/rogpeppe/go-internal=$R)
./setup.sh > "$out/setup.log" 2>&1
ids="$@"; [ -z "$ids" ] && ids=$(ls seeded)
undo() {
  if git -C "$R" rev-parse --git-dir >/dev/null 2>&1; then git -C "$R" checkout -- . ; git -C "$R" clean -fdq; else (cd "$R" && patch -R -p1 -s < "$1"); fi
}
for sid in $ids; do
  [ -f seeded/$sid/patch.diff ] || continue
  prop=$(python3 -c "import json;print(json.load(open('seeded/$sid/meta.json'))['property'])")
  if git -C "$R" rev-parse --git-dir >/dev/null 2>&1; then git -C "$R" apply "$here/seeded/$sid/patch.diff"; else (cd "$R" && patch -p1 -s < "$here/seeded/$sid/patch.diff"); fi
  if [ $? -ne 0 ]; then echo "$sid: patch does not apply"; continue; fi
  o=$(timeout 1500 ./check "$prop" quick 2>&1 | tail -6)
  undo "$here/seeded/$sid/patch.diff"
  line=$(echo "$o" | grep -E "^VIOLATION" | head -1)
  summ=$(echo "$o" | grep -E "^$prop (quick|thorough):" | head -1)
  if echo "$line" | grep -q "no-failing-input-found"; then verdict="flagged-no-input"
  elif [ -n "$line" ]; then verdict="caught-with-replay"
  else verdict="MISSED"; fi
  cls=""
  rp=$(echo "$line" | sed -n 's/.*replay=\([^ ]*\).*/\1/p')
  [ -n "$rp" ] && [ -f "$rp" ] && cp "$rp" "$out/$sid.replay.json"
  python3 - "$sid" "$verdict" "$line" "$summ" "$commit" "$out" <<'PY'
import json,sys,time
sid,verdict,line,summ,commit,out=sys.argv[1:7]
json.dump({"seeded":sid,"verdict":verdict,"violation_line":line,"check_summary":summ,"verif_commit":commit,"at":time.strftime("%Y-%m-%dT%H:%M:%S")},open(f"{out}/{sid}.json","w"),indent=1)
PY
  printf "%-10s %-20s %s\n" "$sid" "$verdict" "$summ"
done
# the unchanged snapshot must be green again
for p in $(python3 -c "import json;print(' '.join(sorted(json.load(open('props.json')))))"); do
  ./check $p quick 2>&1 | tail -1
done > "$out/unchanged_after.txt"
echo sweep done
