#!/usr/bin/env python3
"""tools/harmless_table.py <dir>...  — writes harmless/RESULTS.md from the results.txt files of harmless sweeps
(tools/harmless_sweep.sh); later directories override earlier ones (first column of the table = first outcome seen)."""
import os, re, sys
ROOT = os.path.dirname(os.path.dirname(os.path.abspath(__file__)))
first, last = {}, {}
for d in sys.argv[1:]:
    p = os.path.join(d, "results.txt")
    if not os.path.exists(p):
        continue
    for l in open(p):
        m = re.match(r"(C\d\d-h\d)\s+(quiet|ALARM)\s+(.*)", l)
        if not m:
            continue
        hid, v, rest = m.groups()
        summ = rest.split(" VIOLATION")[0].strip()
        first.setdefault(hid, (v, summ))
        last[hid] = (v, summ)
out = ["# Behaviour-preserving refactorings: outcome of the quick checks (bookkeeping, not evidence)\n",
       "`first` = against the check as it was when the refactoring arrived, `now` = last sweep. A quiet check printed no VIOLATION line.\n",
       "| id | first | now | summary of the last run |", "|---|---|---|---|"]
for hid in sorted(last):
    out.append(f"| {hid} | {first[hid][0]} | {last[hid][0]} | {last[hid][1]} |")
out.append("")
out.append(f"{sum(1 for v in last.values() if v[0]=='quiet')} of {len(last)} quiet in the last sweep; first outcomes: {sum(1 for v in first.values() if v[0]=='ALARM')} alarms.")
open(os.path.join(ROOT, "harmless", "RESULTS.md"), "w").write("\n".join(out) + "\n")
print(out[-1])
