#!/bin/bash
# tools/pin_gen.sh — records the regenerated fact modules of the CURRENT tree (lean/GIV/Gen/*.lean, as the groups'
# factgen wrote them for /repo's HEAD) as the pinned facts (harness/pinned/Gen): the facts the theorems were last
# proved for.  Run it (on the unchanged tree, after ./setup.sh or a green ./check) whenever a fix: commit or a
# change to a fact extractor legitimately changes the facts.  The translated modules (*Go.lean) are pinned in
# harness/pinned/ by hand together with their equivalence lemmas.
cd /verif
if ! git -C /repo diff --quiet; then echo "pin_gen: /repo has local changes; refusing"; exit 2; fi
mkdir -p harness/pinned/Gen
for f in lean/GIV/Gen/*.lean; do
  case "$f" in *Go.lean) continue;; esac
  cp "$f" harness/pinned/Gen/
done
ls harness/pinned/Gen | wc -l
