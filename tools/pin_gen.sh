#!/bin/bash
# tools/pin_gen.sh — records the fact modules regenerated from the UNCHANGED tree (/repo's HEAD, no local changes) as the
# pinned facts (harness/pinned/Gen): the facts the theorems were last proved for.  Run it whenever a fix: commit or a
# change to a fact extractor legitimately changes the facts.  It takes the exclusive repository lock (no seeded change
# can be applied meanwhile), rebuilds the groups' harness binaries, runs every factgen into a scratch directory and
# copies the non-translated modules.  The translated modules (*Go.lean) are pinned in harness/pinned/ together with
# their equivalence lemmas.  STAMP records which extractors wrote the pinned facts (./check ignores stale pins).
cd /verif
export GOFLAGS=-mod=mod GOPROXY=off GOSUMDB=off GOTOOLCHAIN=local CGO_ENABLED=0
exec 9>/verif/.repo.lock
flock -x 9
if ! git -C /repo diff --quiet; then echo "pin_gen: /repo has local changes; refusing"; exit 2; fi
tmp=$(mktemp -d /tmp/pin_gen.XXXXXX)
trap 'rm -rf $tmp' EXIT
(cd harness && go build -o $tmp/bin/ ./cmd/...) || { echo "pin_gen: harness does not build"; exit 2; }
mkdir -p $tmp/gen harness/pinned/Gen
cp lean/GIV/Gen/*.lean $tmp/gen/          # factgen only rewrites what changed
for g in harness/cmd/*/; do g=$(basename $g); [ "$g" = go2lean ] && continue; $tmp/bin/$g factgen -repo /repo -out $tmp/gen >/dev/null || echo "pin_gen: factgen $g failed"; done
for f in $tmp/gen/*.lean; do
  case "$f" in *Go.lean) continue;; esac
  cp "$f" harness/pinned/Gen/
done
python3 - <<'PY'
import hashlib, glob
h = hashlib.sha256()
for f in sorted(glob.glob("harness/cmd/*/fact.go") + glob.glob("harness/internal/fact/*.go")):
    h.update(open(f, "rb").read())
open("harness/pinned/Gen/STAMP", "w").write(h.hexdigest()[:16] + "\n")
PY
ls harness/pinned/Gen | wc -l
