#!/bin/bash
# tools/confirm_mutant.sh <outdir> <k> <pkgdir> <seeded-id> <property>
# Confirms a seeded change in a scratch worktree (outside /repo and /verif): patch applies, repo builds,
# the existing suite passes as at HEAD (except the two known offline failures), the demonstration
# fails with the change and passes without it.  On success stores it as /verif/seeded/<seeded-id>/.
set -u
out=$1; k=$2; pkg=$3; sid=$4; prop=$5
export GOFLAGS=-mod=mod GOPROXY=off GOSUMDB=off GOTOOLCHAIN=local
wt=/tmp/mut/confirm-$$
git -C /repo worktree add -q --detach $wt HEAD || exit 2
trap 'git -C /repo worktree remove --force $wt' EXIT
cd $wt
demo=$(ls $out/m${k}_demo*_test.go 2>/dev/null | head -1)
[ -z "$demo" ] && { echo "no demo for m$k"; exit 2; }
run=$(grep -oE 'func (Test[A-Za-z0-9_]+)' $demo | sed 's/func //' | paste -sd'|')
cp $demo $pkg/zz_seeded_demo_test.go
go test -count=1 -run "^($run)\$" ./$pkg > /tmp/mut/confirm-clean.txt 2>&1; rc_clean=$?
git apply $out/m$k.diff || { echo "patch does not apply"; exit 2; }
go build ./... > /tmp/mut/confirm-build.txt 2>&1; rc_build=$?
go test -count=1 -run "^($run)\$" ./$pkg > /tmp/mut/confirm-mut.txt 2>&1; rc_mut=$?
rm $pkg/zz_seeded_demo_test.go
suite_bad=$(python3 - <<'PY'
import json,subprocess,os
stable=set(json.load(open('/root/.vp/BASELINE.json'))['stable_pass'])
def run(pkgs):
    p=subprocess.run(['go','test','-json','-vet=off','-count=1','-timeout','20m']+pkgs,stdout=subprocess.PIPE,stderr=subprocess.DEVNULL,text=True)
    res={}
    for l in p.stdout.splitlines():
        try: e=json.loads(l)
        except Exception: continue
        if e.get('Test') and e.get('Action') in ('pass','fail','skip'):
            res[e['Package']+'::'+e['Test']]=e['Action']
    return res
res=run(['./...'])
bad=[t for t in stable if res.get(t)!='pass']
for attempt in range(2):          # load-induced flakes: re-run the affected packages alone
    if not bad: break
    pkgs=sorted(set(t.split('::')[0] for t in bad))
    r2=run(pkgs)
    bad=[t for t in bad if r2.get(t)!='pass']
open('/tmp/mut/confirm-suite.txt','w').write("\n".join(bad))
print(len(bad))
PY
)
echo "m$k: demo-clean rc=$rc_clean  build rc=$rc_build  demo-mutant rc=$rc_mut  unexpected suite failures=$suite_bad"
if [ $rc_clean -eq 0 ] && [ $rc_build -eq 0 ] && [ $rc_mut -ne 0 ] && [ $suite_bad -eq 0 ]; then
  d=/verif/seeded/$sid; mkdir -p $d
  cp $out/m$k.diff $d/patch.diff; cp $demo $d/$(basename $demo)
  tail -25 /tmp/mut/confirm-mut.txt > $d/demo_output_with_change.txt
  python3 - "$d" "$prop" "$pkg" "$run" "$(basename $demo)" <<'PY'
import json,sys,os
d,prop,pkg,run,demo=sys.argv[1:6]
meta={"property":prop,"patch":"patch.diff","demo":demo,"demo_package_dir":pkg,
 "demo_cmd":f"cp {demo} <worktree>/{pkg}/ && go test -count=1 -run '^({run})$' ./{pkg}",
 "confirmed":{"patch_applies":True,"go_build_all":True,"suite_passes_as_at_HEAD":True,"demo_passes_without_change":True,"demo_fails_with_change":True,
              "how":"tools/confirm_mutant.sh in a scratch git worktree of /repo under /tmp (removed afterwards)"},
 "needs_to_manifest":"", "what_it_does":"", "detected_by":""}
p=os.path.join(d,"meta.json")
if os.path.exists(p):
    old=json.load(open(p)); 
    for k in ("needs_to_manifest","what_it_does","detected_by","origin"): 
        if old.get(k): meta[k]=old[k]
json.dump(meta,open(p,"w"),indent=1)
PY
  echo "stored $d"
else
  echo "NOT confirmed; see /tmp/mut/confirm-*.txt"; tail -5 /tmp/mut/confirm-mut.txt
fi
