#!/bin/bash
# tools/harmless_sweep.sh <outdir> [ids...] — for `vp run --with-repo`: applies every behaviour-preserving
# refactoring under harmless/<Cxx-hN>/patch.diff to the snapshot of /repo and runs the quick check of its
# property in the snapshot of /verif.  A VIOLATION line here is an alarm on code where the property holds.
set -u
out=$1; shift; mkdir -p "$out"
R=${VP_RUN_REPO:?needs vp run --with-repo}
export VERIF_REPO=$R VERIF_HOLDING_REPO_LOCK=1
export GOFLAGS=-mod=mod GOPROXY=off GOSUMDB=off GOTOOLCHAIN=local CGO_ENABLED=0
here=$(pwd)
(cd harness && go mod edit -replace github.com/rogpeppe/go-internal=$R)
./setup.sh > "$out/setup.log" 2>&1
ids="$@"; [ -z "$ids" ] && ids=$(ls harmless)
for hid in $ids; do
  [ -f harmless/$hid/patch.diff ] || continue
  prop=${hid%%-*}
  git -C "$R" apply "$here/harmless/$hid/patch.diff" || { echo "$hid: patch does not apply"; continue; }
  o=$(timeout 1500 ./check "$prop" quick 2>&1 | tail -6)
  git -C "$R" checkout -- . ; git -C "$R" clean -fdq
  line=$(echo "$o" | grep -E "^VIOLATION" | head -1)
  summ=$(echo "$o" | grep -E "^$prop (quick|thorough):" | head -1)
  v=quiet; [ -n "$line" ] && v=ALARM
  rp=$(echo "$line" | sed -n 's/.*replay=\([^ ]*\).*/\1/p')
  [ -n "$rp" ] && [ -f "$rp" ] && cp "$rp" "$out/$hid.replay.json"
  printf "%-10s %-6s %s %s\n" "$hid" "$v" "$summ" "$line" | tee -a "$out/results.txt"
done
echo harmless sweep done
