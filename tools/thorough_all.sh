#!/bin/bash
# tools/thorough_all.sh <outdir> [ids…] — for `vp run --with-repo`: builds the snapshot and runs every check's
# thorough tier on the unchanged snapshot of /repo; summary lines go to <outdir>/thorough.txt.
out=$1; shift; mkdir -p "$out"
R=${VP_RUN_REPO:-/repo}
export VERIF_REPO=$R
export GOFLAGS=-mod=mod GOPROXY=off GOSUMDB=off GOTOOLCHAIN=local CGO_ENABLED=0
[ "$R" != /repo ] && (cd harness && go mod edit -replace github.com/rogpeppe/go-internal=$R)
./setup.sh > "$out/setup.log" 2>&1
: > "$out/thorough.txt"
ids="$*"; [ -z "$ids" ] && ids=$(python3 -c "import json;print(' '.join(sorted(json.load(open('props.json')))))")
for p in $ids; do
  s=$(date +%s)
  ./check $p thorough 2>&1 | tail -3 >> "$out/thorough.txt"
  echo "  ($p took $(( $(date +%s) - s )) s)" >> "$out/thorough.txt"
done
echo thorough done
