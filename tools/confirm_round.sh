#!/bin/bash
# tools/confirm_round.sh <Cxx> <pkgdir> [<first-id-number>]  — confirms /tmp/mut/out-<Cxx>/m{1,2,3}.diff one after
# the other (serialised across invocations by a lock: confirm_mutant.sh shares scratch files) and stores the
# confirmed ones as seeded/<Cxx>-m<first+k-1>.
prop=$1; pkg=$2; first=${3:-7}
exec 8>/tmp/mut/confirm.lock
flock -x 8
for k in 1 2 3; do
  [ -f /tmp/mut/out-$prop/m$k.diff ] || continue
  /verif/tools/confirm_mutant.sh /tmp/mut/out-$prop $k $pkg $prop-m$((first+k-1)) $prop
done > /verif/tmp/confirm_$prop.log 2>&1
