#!/usr/bin/env python3
"""tools/import_sweep.py <dir>...  — copies the per-change results of snapshot sweeps (tools/sweep_snapshot.sh writes
<dir>/<seeded-id>.json) to seeded/<id>/result.json (the `now` column of DESIGN §10.5) and records the first result
ever seen for a change as meta.json: first_trial."""
import json, os, sys, glob
ROOT = os.path.dirname(os.path.dirname(os.path.abspath(__file__)))
n = 0
for d in sys.argv[1:]:
    for f in sorted(glob.glob(os.path.join(d, "C??-m*.json"))):
        if f.endswith(".replay.json"):
            continue
        r = json.load(open(f))
        sid = r["seeded"]
        sd = os.path.join(ROOT, "seeded", sid)
        if not os.path.isdir(sd):
            continue
        old = {}
        try: old = json.load(open(os.path.join(sd, "result.json")))
        except Exception: pass
        if old.get("at", "") > r.get("at", ""):
            continue
        json.dump(r, open(os.path.join(sd, "result.json"), "w"), indent=1)
        mp = os.path.join(sd, "meta.json")
        m = json.load(open(mp))
        if not m.get("first_trial") and not m.get("detected_by"):
            m["first_trial"] = r["verdict"]
            json.dump(m, open(mp, "w"), indent=1)
        n += 1
print("imported", n)
