#!/usr/bin/env python3
"""prints the prompt for an independent mutation sub-agent for property <ID> using worktree <dir>"""
import json, sys
pid, wt = sys.argv[1], sys.argv[2]
for l in open('/verif/properties.jsonl'):
    p = json.loads(l)
    if p['id'] == pid:
        break
print(f"""You are testing how robust a Go library is against subtle regressions. You have your own scratch git worktree of the repository rogpeppe/go-internal at {wt} (a checkout of the current HEAD). Work ONLY inside {wt} (and {wt}/../out-{pid} for your deliverables). Do not read or write /repo, /verif or any other directory outside {wt} and the out directory; there is no network. Go environment for every shell command: `export GOFLAGS=-mod=mod GOPROXY=off GOSUMDB=off GOTOOLCHAIN=local`.

Here is a semantic property that the library is supposed to satisfy:

  Title: {p['title']}
  Statement: {p['statement']}
  Quantified over: {p['quantifier']['text']}
  Anchored in files: {', '.join(p['anchors']['files'])}

Your task: produce up to THREE different, realistic changes to the library's non-test source (each a separate small patch against the current HEAD, each using a different mechanism / touching a different part of the anchored code) such that, for each change:
  1. the repository still compiles (`go build ./...` and `go vet ./...` for the touched packages),
  2. the existing test suite still passes exactly as before the change (`go test ./...` — note: at HEAD, `cmd/testscript` TestScripts/env_var_with_go and `gotooltest` TestSimple/cover already fail offline; those two do not count; everything else that passed must still pass),
  3. the property above is BROKEN by the change, and
  4. the breakage needs something specific to manifest — a particular unusual input, a multi-step sequence of operations, a particular interleaving, a crash or fault at a particular point, or two cooperating sites that each look fine alone — NOT something ordinary use or a casual smoke test would expose at once. Think of the kind of plausible bug a maintainer could introduce in a refactoring or "optimisation" and that code review could miss. Do not merely revert the most recent commits wholesale; subtle variants are welcome.
For each change also write a demonstration: a Go test file (or a small Go program) that FAILS with the change applied and PASSES on the unchanged HEAD, showing concretely that the property is violated (print the failing input / schedule / history).

Deliverables, in the directory {wt}/../out-{pid}/ (create it): for k = 1..3: `m<k>.diff` (output of `git diff` for that change alone, applicable with `git apply` to a clean HEAD), `m<k>_demo_test.go` (or `m<k>_demo/main.go`) plus a line in `README.md` saying into which package directory the demo file must be copied and the exact command to run it, what the change does, what it needs in order to manifest, and the observed failing output. Verify each one yourself from a clean state: `git checkout -- .` (never use `git stash`: it is shared between worktrees) → demo passes; `git apply m<k>.diff` → build ok, `go test` of the affected packages ok, demo fails. Leave the worktree clean (`git checkout -- . && git clean -fd`) when done. Final answer: a short summary of the three changes (one paragraph each).""")
