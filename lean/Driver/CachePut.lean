import Driver.Common
open Driver

/-- stub: replaced by the group's model driver. -/
def main : IO Unit := run (fun _ => "bad-op")
