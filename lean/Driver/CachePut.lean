import Driver.Common
import GIV.Model.CachePut
/-!
Line protocol of `gim_cacheput` (H := SHA-256, Id := Hsh := byte strings, concrete index codec):

* `replay <now> <init> <tasks> <events> <end>` → `ok <files>` / `reject <event index> <what the model does instead>`
  - init   : `-` or `;`-separated `d:<hash hex>:<content>` / `a:<id hex>:<content>`
  - content: `-` | hex | `R<byte hex>x<count>`
  - tasks  : `;`-separated `<proc>:<op>/<op>/…`; op = `p,<id>,<ok1>,<data1>,<seek2>,<data2>` (data2: `=` | `t<o>` | `c<o>` | content)
             | `g,<id>` | `f,<id>` | `b,<id>`
  - events : `|`-separated `<tid>,<n>,<op>,<args…>,<res>`; op prefixed by `!` = the process died right after the call;
             `<tid>,0,ret,…` = a result reported by the implementation
  - end    : `done` | `deadlock` | `aborted`
* `sha <content>` → hex digest
* `entry <id hex> <out hex> <size> <now>` → hex of the index entry
-/
open GIV GIV.CachePut Driver

/-! ## SHA-256 (FIPS 180-4); tied to crypto/sha256 by the correspondence run (file names, `sha` cases). -/
namespace CPSha

def K : Array UInt32 := #[
  0x428a2f98, 0x71374491, 0xb5c0fbcf, 0xe9b5dba5, 0x3956c25b, 0x59f111f1, 0x923f82a4, 0xab1c5ed5,
  0xd807aa98, 0x12835b01, 0x243185be, 0x550c7dc3, 0x72be5d74, 0x80deb1fe, 0x9bdc06a7, 0xc19bf174,
  0xe49b69c1, 0xefbe4786, 0x0fc19dc6, 0x240ca1cc, 0x2de92c6f, 0x4a7484aa, 0x5cb0a9dc, 0x76f988da,
  0x983e5152, 0xa831c66d, 0xb00327c8, 0xbf597fc7, 0xc6e00bf3, 0xd5a79147, 0x06ca6351, 0x14292967,
  0x27b70a85, 0x2e1b2138, 0x4d2c6dfc, 0x53380d13, 0x650a7354, 0x766a0abb, 0x81c2c92e, 0x92722c85,
  0xa2bfe8a1, 0xa81a664b, 0xc24b8b70, 0xc76c51a3, 0xd192e819, 0xd6990624, 0xf40e3585, 0x106aa070,
  0x19a4c116, 0x1e376c08, 0x2748774c, 0x34b0bcb5, 0x391c0cb3, 0x4ed8aa4a, 0x5b9cca4f, 0x682e6ff3,
  0x748f82ee, 0x78a5636f, 0x84c87814, 0x8cc70208, 0x90befffa, 0xa4506ceb, 0xbef9a3f7, 0xc67178f2]

@[inline] def rotr (x : UInt32) (n : UInt32) : UInt32 := (x >>> n) ||| (x <<< (32 - n))

structure St where
  a : UInt32
  b : UInt32
  c : UInt32
  d : UInt32
  e : UInt32
  f : UInt32
  g : UInt32
  h : UInt32

def init : St := ⟨0x6a09e667, 0xbb67ae85, 0x3c6ef372, 0xa54ff53a, 0x510e527f, 0x9b05688c, 0x1f83d9ab, 0x5be0cd19⟩

def padding (len : Nat) : Bytes :=
  let zeros := (119 - len % 64) % 64
  let bits := len * 8
  ((0x80 : UInt8) :: List.replicate zeros (0 : UInt8)) ++
    (List.range 8).map (fun i => (bits >>> (8 * (7 - i))).toUInt8)

def byteAt (m : ByteArray) (i : Nat) : UInt32 := (m.get! i).toUInt32

def schedule (m : ByteArray) (off : Nat) : Array UInt32 :=
  let w0 : Array UInt32 := (List.range 16).foldl (fun w i =>
    w.push ((byteAt m (off + 4*i) <<< 24) ||| (byteAt m (off + 4*i + 1) <<< 16) |||
            (byteAt m (off + 4*i + 2) <<< 8) ||| byteAt m (off + 4*i + 3))) (Array.mkEmpty 64)
  (List.range 48).foldl (fun w j =>
    let i := j + 16
    let w15 := w[i - 15]!
    let w2 := w[i - 2]!
    let s0 := rotr w15 7 ^^^ rotr w15 18 ^^^ (w15 >>> 3)
    let s1 := rotr w2 17 ^^^ rotr w2 19 ^^^ (w2 >>> 10)
    w.push (w[i - 16]! + s0 + w[i - 7]! + s1)) w0

def round (s : St) (k w : UInt32) : St :=
  let s1 := rotr s.e 6 ^^^ rotr s.e 11 ^^^ rotr s.e 25
  let ch := (s.e &&& s.f) ^^^ ((~~~ s.e) &&& s.g)
  let t1 := s.h + s1 + ch + k + w
  let s0 := rotr s.a 2 ^^^ rotr s.a 13 ^^^ rotr s.a 22
  let maj := (s.a &&& s.b) ^^^ (s.a &&& s.c) ^^^ (s.b &&& s.c)
  let t2 := s0 + maj
  ⟨t1 + t2, s.a, s.b, s.c, s.d + t1, s.e, s.f, s.g⟩

def compress (s : St) (m : ByteArray) (off : Nat) : St :=
  let w := schedule m off
  let r := (List.range 64).foldl (fun s i => round s K[i]! w[i]!) s
  ⟨s.a + r.a, s.b + r.b, s.c + r.c, s.d + r.d, s.e + r.e, s.f + r.f, s.g + r.g, s.h + r.h⟩

def word (x : UInt32) : Bytes := [(x >>> 24).toUInt8, (x >>> 16).toUInt8, (x >>> 8).toUInt8, x.toUInt8]

def digest (data : Bytes) : Bytes :=
  let m := (data ++ padding data.length).toByteArray
  let s := (List.range (m.size / 64)).foldl (fun s i => compress s m (64 * i)) init
  word s.a ++ word s.b ++ word s.c ++ word s.d ++ word s.e ++ word s.f ++ word s.g ++ word s.h

end CPSha

/-! ## the concrete index-entry codec (`putIndexEntry`'s Sprintf and the checks of `get`) -/
namespace CPCodec

def hexOf (b : Bytes) : Bytes := (if b.isEmpty then "" else toHex b).toUTF8.toList

def pad20 (s : String) : Bytes :=
  (List.replicate (20 - s.length) (32 : UInt8)) ++ s.toUTF8.toList

def enc (id out : Bytes) (size : Nat) (now : Int) : Bytes :=
  lit "v1 " ++ hexOf id ++ lit " " ++ hexOf out ++ lit " " ++ pad20 (toString size) ++ lit " " ++ pad20 (toString now) ++ lit "\n"

def hexNib (c : UInt8) : Option UInt8 :=
  if 48 ≤ c ∧ c ≤ 57 then some (c - 48)
  else if 97 ≤ c ∧ c ≤ 102 then some (c - 87)
  else if 65 ≤ c ∧ c ≤ 70 then some (c - 55)
  else none

def hexDecode : Bytes → Option Bytes
  | [] => some []
  | [_] => none
  | a :: b :: rest => do
    let x ← hexNib a
    let y ← hexNib b
    let r ← hexDecode rest
    pure ((x * 16 + y) :: r)

def digits : Bytes → Option Nat
  | [] => none
  | ds => ds.foldl (fun (acc : Option Nat) (d : UInt8) => match acc with
      | none => none
      | some v => if 48 ≤ d ∧ d ≤ 57 then some (v * 10 + (UInt8.toNat d - 48)) else none) (some 0)

/-- `strconv.ParseInt(s, 10, 64)` after the leading spaces were skipped. -/
def parseInt (s : Bytes) : Option Int :=
  let s := s.dropWhile (· == 32)
  let (neg, ds) := match s with
    | 45 :: r => (true, r)
    | 43 :: r => (false, r)
    | r => (false, r)
  match digits ds with
  | none => none
  | some v =>
    if neg then (if v ≤ 2^63 then some (-(v : Int)) else none)
    else (if v < 2^63 then some (v : Int) else none)

def parse (id : Bytes) (bs : Bytes) : Option (Entry Bytes) :=
  if bs.length ≠ 175 then none else
  let ix (i : Nat) : UInt8 := bs.getD i 0
  if ix 0 ≠ 118 ∨ ix 1 ≠ 49 ∨ ix 2 ≠ 32 ∨ ix 67 ≠ 32 ∨ ix 132 ≠ 32 ∨ ix 153 ≠ 32 ∨ ix 174 ≠ 10 then none else
  match hexDecode ((bs.drop 3).take 64) with
  | none => none
  | some eid =>
    if eid ≠ id then none else
    match hexDecode ((bs.drop 68).take 64) with
    | none => none
    | some out =>
      match parseInt ((bs.drop 133).take 20) with
      | none => none
      | some size =>
        if size < 0 then none else
        match parseInt ((bs.drop 154).take 20) with
        | none => none
        | some tm => if tm < 0 then none else some ⟨out, size.toNat⟩

end CPCodec

def P : Params Bytes Bytes := ⟨CPSha.digest, CPCodec.enc, CPCodec.parse⟩

abbrev W := World Bytes Bytes
abbrev Nm := Name Bytes Bytes

/-! ## decoding the request -/

def chars (s : String) : List Char := s.toList
def dropS (s : String) (n : Nat) : String := String.ofList (s.toList.drop n)
def headC (s : String) : Char := s.toList.headD ' '

def parseContent (s : String) : Option Bytes :=
  if headC s == 'R' then
    match (dropS s 1).splitOn "x" with
    | [b, n] => do
      let bb ← fromHex b
      let k ← n.toNat?
      match bb with
      | [x] => some (List.replicate k x)
      | _ => none
    | _ => none
  else fromHex s

def parseName (s : String) : Option Nm :=
  match headC s with
  | 'd' => (fromHex (dropS s 1)).map Name.data
  | 'a' => (fromHex (dropS s 1)).map Name.index
  | _ => none

def showName : Nm → String
  | .data h => "d" ++ toHex h
  | .index id => "a" ++ toHex id

def parseData2 (d1 : Bytes) (s : String) : Option Bytes :=
  if s == "=" then some d1
  else match headC s with
    | 't' => (dropS s 1).toNat?.map fun o => d1.take o
    | 'c' => (dropS s 1).toNat?.map fun o => d1.take o ++ ((d1.drop o).take 1).map (· ^^^ 0xff) ++ d1.drop (o + 1)
    | _ => parseContent s

def parseOp (s : String) : Option (Op Bytes) :=
  match s.splitOn "," with
  | ["p", id, ok1, d1, sk2, d2] => do
    let id ← fromHex id
    let d1 ← parseContent d1
    let d2 ← parseData2 d1 d2
    pure (.put id ⟨ok1 == "1", d1, sk2 == "1", d2⟩)
  | ["g", id] => (fromHex id).map Op.get
  | ["f", id] => (fromHex id).map Op.getFile
  | ["b", id] => (fromHex id).map Op.getBytes
  | _ => none

def parseTask (s : String) : Option (Nat × List (Op Bytes)) :=
  match s.splitOn ":" with
  | [p, ops] => do
    let p ← p.toNat?
    let ops ← (if ops == "" then some [] else (ops.splitOn "/").mapM parseOp)
    pure (p, ops)
  | _ => none

def parseInitItem (s : String) : Option (Nm × Bytes) :=
  match s.splitOn ":" with
  | ["d", h, c] => do pure (.data (← fromHex h), ← parseContent c)
  | ["a", h, c] => do pure (.index (← fromHex h), ← parseContent c)
  | _ => none

def emptyWorld (now : Int) : W :=
  { fs := { names := fun _ => none, inodes := fun _ => none, nextIno := 0, fds := fun _ => none, nextFd := 0 },
    tasks := fun _ => none, now := now, hist := [] }

def addFile (w : W) (p : Nm) (c : Bytes) : W :=
  let i := w.fs.nextIno
  { w with fs := { w.fs with names := fun q => if q = p then some i else w.fs.names q,
                             inodes := fun j => if j = i then some ⟨p, c⟩ else w.fs.inodes j, nextIno := i + 1 } }

/-! ## rendering what the model does -/

def short (h : Bytes) : String := toHex h

def showMode : Mode → String
  | .rdonly => "RDONLY" | .wronly => "WRONLY" | .rdwr => "RDWR"

def showSys : Sys Bytes Bytes → String
  | .stat p => "stat," ++ showName p
  | .open p m c t => "open," ++ showName p ++ "," ++ showMode m ++ (if c then "+CREATE" else "") ++ (if t then "+TRUNC" else "")
  | .read fd n => "read,fd" ++ toString fd ++ "," ++ toString n
  | .write fd bs => "write,fd" ++ toString fd ++ "," ++ toHex bs
  | .ftruncate fd n => "ftruncate,fd" ++ toString fd ++ "," ++ toString n
  | .close fd => "close,fd" ++ toString fd
  | .unlink p => "unlink," ++ showName p
  | .chtimes p => "chtimes," ++ showName p

def showRes : Res → String
  | .ok => "ok"
  | .okFd fd => "ok:fd" ++ toString fd
  | .okSize n => "ok:size=" ++ toString n
  | .okData bs => "ok:" ++ toHex bs
  | .okN n => "ok:" ++ toString n
  | .eof => "eof"
  | .enoent => "enoent"
  | .eclosed => "eclosed"
  | .fail => "fail"
  | .short k => "short:" ++ toString k
  | .crashBefore => "crash-before"

def showRet (op : Op Bytes) (r : Result Bytes) : String :=
  let nm := match op with
    | .put _ _ => "put" | .get _ => "get" | .getFile _ => "getfile" | .getBytes _ => "getbytes"
  match r with
  | .err => "ret," ++ nm ++ ",err"
  | .putOk out size => "ret," ++ nm ++ ",ok," ++ short out ++ "," ++ toString size
  | .miss => "ret," ++ nm ++ ",miss"
  | .entry e => "ret," ++ nm ++ ",ok," ++ short e.out ++ "," ++ toString e.size
  | .file e c =>
    let d := c.getD []
    "ret," ++ nm ++ ",ok," ++ short e.out ++ "," ++ toString e.size ++ "," ++ short (P.H d) ++ "," ++ toString d.length
  | .bytes d e => "ret," ++ nm ++ ",ok," ++ short e.out ++ "," ++ toString e.size ++ "," ++ short (P.H d) ++ "," ++ toString d.length

def retsOf (w : W) (tid : Nat) : List String :=
  w.hist.filterMap fun
    | .ret t op r => if t = tid then some (showRet op r) else none
    | .indexed _ _ _ => none

/-! ## replay -/

structure RState where
  w : W
  consumed : List (Nat × Nat)   -- task ↦ number of `ret` events already matched
  names : List Nm

def consumedOf (s : RState) (tid : Nat) : Nat := ((s.consumed.find? (·.1 == tid)).map (·.2)).getD 0

def joinC (l : List String) : String := ",".intercalate l

/-- one event; `Except` carries what the model would have shown instead. -/
def replayEvent (s : RState) (ev : String) : Except String RState :=
  match ev.splitOn "," with
  | tidS :: nS :: op :: rest =>
    match tidS.toNat?, nS.toNat? with
    | some tid, some n =>
      if op == "ret" then
        let k := consumedOf s tid
        match (retsOf s.w tid)[k]? with
        | none => .error ("model: task " ++ toString tid ++ " has no result number " ++ toString k)
        | some r =>
          if r == joinC (op :: rest) then
            .ok { s with consumed := (tid, k + 1) :: s.consumed.filter (·.1 != tid) }
          else .error ("model: " ++ r)
      else
        let after := headC op == '!'
        let opn := if after then dropS op 1 else op
        let res := rest.getLast?.getD ""
        let fault : Fault :=
          if res == "fail" then .fail
          else if res == "crash-before" then .crashBefore
          else if (chars res).take 6 == chars "short:" then
            match (dropS res 6).toNat? with
            | some k => .short k
            | none => .none
          else if after then .crashAfter else .none
        match step P s.w ⟨tid, fault, n⟩ with
        | none => .error "model: step not enabled"
        | some (w1, obs) =>
          let shown := showSys obs.sys ++ "," ++ showRes obs.res
          if shown == joinC (opn :: rest) then
            let nm := match obs.sys with
              | .stat p => [p] | .open p _ _ _ => [p] | .unlink p => [p] | .chtimes p => [p]
              | _ => []
            .ok { s with w := w1, names := nm.filter (fun p => !(s.names.contains p)) ++ s.names }
          else .error ("model: " ++ shown)
    | _, _ => .error "bad event"
  | _ => .error "bad event"

def replayAll : RState → Nat → List String → Except (Nat × String) RState
  | s, _, [] => .ok s
  | s, i, ev :: rest =>
    match replayEvent s ev with
    | .error e => .error (i, e)
    | .ok s1 => replayAll s1 (i + 1) rest

/-- insertion sort on strings (small lists). -/
def sortStrings (l : List String) : List String :=
  l.foldl (fun acc s =>
    let (a, b) := acc.span (fun t => t < s)
    a ++ s :: b) []

def summary (s : RState) : String :=
  let items := s.names.filterMap fun p =>
    match s.w.fs.content p with
    | none => none
    | some c => some (showName p ++ "=" ++ toString c.length ++ ":" ++ short (P.H c))
  let items := sortStrings items
  if items.isEmpty then "-" else ";".intercalate items

def doReplay (nowS initS tasksS evS endS : String) : String :=
  match nowS.toInt? with
  | none => "bad-op now"
  | some now =>
    match (if initS == "-" then some [] else (initS.splitOn ";").mapM parseInitItem) with
    | none => "bad-op init"
    | some files =>
      match (if tasksS == "-" then some [] else (tasksS.splitOn ";").mapM parseTask) with
      | none => "bad-op tasks"
      | some tasks =>
        let w0 := files.foldl (fun w (p, c) => addFile w p c) (emptyWorld now)
        let (tk, h) := mkTasks P 0 tasks []
        let w0 : W := { w0 with tasks := tk, hist := h }
        let evs := if evS == "-" then [] else evS.splitOn "|"
        match replayAll ⟨w0, [], files.map (·.1)⟩ 0 evs with
        | .error (i, e) => "reject " ++ toString i ++ " " ++ e
        | .ok s =>
          let ntasks := tasks.length
          let unfinished := (List.range ntasks).filter fun t => !(s.w.finished t)
          let unreported := (List.range ntasks).filter fun t => (retsOf s.w t).length != consumedOf s t
          if endS == "done" && !unfinished.isEmpty then
            "reject " ++ toString evs.length ++ " model: tasks still running: " ++ toString unfinished
          else if !unreported.isEmpty then
            "reject " ++ toString evs.length ++ " model: results not reported by the implementation for tasks " ++ toString unreported
          else "ok " ++ summary s

def stepLine (line : String) : String :=
  match line.splitOn " " with
  | ["replay", now, init, tasks, evs, en] => doReplay now init tasks evs en
  | ["sha", c] =>
    match parseContent c with
    | some d => toHex (P.H d)
    | none => "bad-op"
  | ["entry", id, out, size, now] =>
    match fromHex id, fromHex out, size.toNat?, now.toInt? with
    | some id, some out, some size, some now => toHex (P.enc id out size now)
    | _, _, _, _ => "bad-op"
  | ["parse", id, bs] =>
    match fromHex id, fromHex bs with
    | some id, some bs =>
      match P.parse id bs with
      | some e => "ok:" ++ toHex e.out ++ ":" ++ toString e.size
      | none => "miss"
    | _, _ => "bad-op"
  | _ => "bad-op"

/-- like `Driver.run`, but flushing after every answer: the harness talks to this driver interactively. -/
partial def serve (i o : IO.FS.Stream) : IO Unit := do
  let line ← i.getLine
  if line.isEmpty then return ()
  let l := (line.dropEndWhile (fun c => c == '\n' || c == '\r')).toString
  o.putStrLn (stepLine l)
  o.flush
  serve i o

def main : IO Unit := do
  serve (← IO.getStdin) (← IO.getStdout)
