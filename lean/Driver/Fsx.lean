import Driver.Common
import GIV.Model.Fsx
open GIV GIV.Txtar GIV.Fsx Driver

/-! Line protocol of the fsx group (property C15).

  clean <hex path>                              -> <hex of cleanPath> <hex of cleanBytes>
  write <hex dir> <fs> <archive>                -> err=<e> fs=<fs>
  x     <hex dir> <fs> <hex archive text>       -> panic | err=<e> fs=<fs>          (txtar-x)
  save  <a><q> <tree>                           -> panic | A=<archive> F=<hex text>  (txtar-c; a,q ∈ {0,1})

  <fs>      = `-` | entries joined by `,`:  d.<hex abs path> | f.<hex abs path>.<hex data>
  <archive> = c:<hex>;f:<hex name>:<hex data>;…            (as in the txtar driver)
  <tree>    = `-` | tokens joined by `,`:  D.<hex name> … E | F.<hex name>.<hex data> | O.<hex name>
-/

def showErr : Option Err → String
  | none => "nil"
  | some .outside => "outside"
  | some .notDir => "notdir"
  | some .exists => "exists"
  | some .noEnt => "noent"
  | some .isDir => "isdir"

/-- absolute path string -> normalised component list. -/
def keyOf (s : Bytes) : Path := (cleanComps true [] (splitSep s)).reverse

def pathStr (p : Path) : Bytes := SEP :: joinSep p

def dedupKeys : List Path → List Path → List Path
  | [], acc => acc.reverse
  | k :: rest, acc => if acc.contains k then dedupKeys rest acc else dedupKeys rest (k :: acc)

def showFS (fs : FS) : String :=
  let keys := dedupKeys (fs.map (·.1)) []
  let items := keys.filterMap fun k =>
    if k = [] then none else
    match fs.get k with
    | some .dir => some ("d." ++ toHex (pathStr k))
    | some (.file d) => some ("f." ++ toHex (pathStr k) ++ "." ++ toHex d)
    | none => none
  if items.isEmpty then "-" else ",".intercalate items

def parseFSEntry (s : String) : Option (Path × Node) :=
  match s.splitOn "." with
  | ["d", p] => do
    let p ← fromHex p
    pure (keyOf p, .dir)
  | ["f", p, d] => do
    let p ← fromHex p
    let d ← fromHex d
    pure (keyOf p, .file d)
  | _ => none

def parseFS (s : String) : Option FS :=
  if s == "-" then some [] else (s.splitOn ",").mapM parseFSEntry

def showArchive (a : Archive) : String :=
  "c:" ++ toHex a.comment ++ String.join (a.files.map fun f => ";f:" ++ toHex f.name ++ ":" ++ toHex f.data)

def parseFileEnc (s : String) : Option File :=
  match s.splitOn ":" with
  | ["f", n, d] => do
    let n ← fromHex n
    let d ← fromHex d
    pure ⟨n, d⟩
  | _ => none

def parseArchiveEnc (s : String) : Option Archive :=
  match s.splitOn ";" with
  | c :: fs =>
    match c.splitOn ":" with
    | ["c", ch] => do
      let cb ← fromHex ch
      let files ← fs.mapM parseFileEnc
      pure ⟨cb, files⟩
    | _ => none
  | [] => none

/-! tree tokens -> Forest, with an explicit stack of open directories -/

def mkForest (revChildren : List (Bytes × Tree)) : Forest :=
  revChildren.foldl (fun acc nt => Forest.cons nt.1 nt.2 acc) Forest.nil

abbrev Frame := Bytes × List (Bytes × Tree)

def addChild (n : Bytes) (t : Tree) : List Frame → Option (List Frame)
  | (dn, ch) :: rest => some ((dn, (n, t) :: ch) :: rest)
  | [] => none

def treeTok (st : Option (List Frame)) (tok : String) : Option (List Frame) := do
  let st ← st
  match tok.splitOn "." with
  | ["D", n] => do
    let n ← fromHex n
    pure ((n, []) :: st)
  | ["E"] =>
    match st with
    | (dn, ch) :: rest => addChild dn (Tree.dir (mkForest ch)) rest
    | [] => none
  | ["F", n, d] => do
    let n ← fromHex n
    let d ← fromHex d
    addChild n (Tree.file d) st
  | ["O", n] => do
    let n ← fromHex n
    addChild n Tree.other st
  | _ => none

def parseTree (s : String) : Option Forest :=
  if s == "-" then some Forest.nil else
  match (s.splitOn ",").foldl treeTok (some [([], [])]) with
  | some [(_, ch)] => some (mkForest ch)
  | _ => none

def parseOpts (s : String) : Option SaveOpts :=
  match s.toList with
  | [a, q] =>
    if (a == '0' || a == '1') && (q == '0' || q == '1') then some ⟨a == '1', q == '1'⟩ else none
  | _ => none

def showW (r : Option Err × FS) : String := "err=" ++ showErr r.1 ++ " fs=" ++ showFS r.2

def step (line : String) : String :=
  match line.splitOn " " with
  | ["clean", h] =>
    match fromHex h with
    | some p => toHex (cleanPath p) ++ " " ++ toHex (cleanBytes p)
    | none => "bad-op"
  | ["write", dh, fsE, aE] =>
    match fromHex dh, parseFS fsE, parseArchiveEnc aE with
    | some d, some fs, some a => showW (writeArchive a (keyOf d) fs)
    | _, _, _ => "bad-op"
  | ["x", dh, fsE, th] =>
    match fromHex dh, parseFS fsE, fromHex th with
    | some d, some fs, some t =>
      match extract t (keyOf d) fs with
      | none => "panic"
      | some r => showW r
    | _, _, _ => "bad-op"
  | ["save", o, tE] =>
    match parseOpts o, parseTree tE with
    | some o, some t =>
      match saveDir o t with
      | none => "panic"
      | some a => "A=" ++ showArchive a ++ " F=" ++ toHex (format a)
    | _, _ => "bad-op"
  | _ => "bad-op"

def main : IO Unit := run step
