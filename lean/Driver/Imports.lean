import Driver.Common
import GIV.Model.Build
import GIV.Model.ReadImports
import GIV.Model.Scan
open GIV Driver

/-- `unicode.IsLetter(r) || unicode.IsDigit(r)` for r ≥ 0x80 — exact on U+0080–U+00FF,
U+0660–U+0669 and U+4E00–U+9FFF (checked against Go's tables by the harness on every run),
which are the ranges the correspondence generator draws non-ASCII runes from; false elsewhere. -/
def driverU (r : Nat) : Bool :=
  r = 0xAA || r = 0xB5 || r = 0xBA || (0xC0 ≤ r && r ≤ 0xFF && r ≠ 0xD7 && r ≠ 0xF7) ||
  (0x660 ≤ r && r ≤ 0x669) || (0x4E00 ≤ r && r ≤ 0x9FFF)

/-- tag set: `_` = empty, otherwise hex strings joined by `,`. -/
def parseTags (s : String) : Option (List Bytes) :=
  if s == "_" then some [] else (s.splitOn ",").mapM fromHex

def tagsOf (l : List Bytes) : Build.Tags := fun n => l.contains n

def showB (b : Bool) : String := if b then "true" else "false"

def showErr : Option ReadImports.Err → String
  | none => "none" | some .syntax => "syntax" | some .nul => "nul"

def showOutcome : ReadImports.Outcome → String
  | .panic => "panic"
  | .stuck => "stuck"
  | .ok imps buf err =>
    "I=" ++ (if imps.isEmpty then "_" else ",".intercalate (imps.map toHex)) ++ " B=" ++ toHex buf ++ " E=" ++ showErr err

/-- `name:data` pairs joined by `;` (`_` = no file), all hex. -/
def parseFiles (s : String) : Option (List Scan.File) :=
  if s == "_" then some [] else
  (s.splitOn ";").mapM fun item =>
    match item.splitOn ":" with
    | [n, d] => do let n ← fromHex n; let d ← fromHex d; pure (n, d)
    | _ => none

/-- `name:r:data` triples joined by `;` (`_` = empty directory); `r` = 1 for a regular file. -/
def parseEntries (s : String) : Option (List Scan.Entry) :=
  if s == "_" then some [] else
  (s.splitOn ";").mapM fun item =>
    match item.splitOn ":" with
    | [n, r, d] => do let n ← fromHex n; let d ← fromHex d; pure ⟨n, r == "1", d⟩
    | _ => none

def showList (l : List Bytes) : String := if l.isEmpty then "_" else ",".intercalate (l.map toHex)

def showScan : Except Scan.ScanErr (List Bytes × List Bytes) → String
  | .ok (i, t) => "ok I=" ++ showList i ++ " T=" ++ showList t
  | .error .noGo => "err nogo"
  | .error (.read n e) => "err read " ++ toHex n ++ " " ++ showErr (some e)
  | .error (.panic n) => "err panic " ++ toHex n

def step (line : String) : String :=
  match line.splitOn " " with
  | ["match", n, t] =>
    match fromHex n, parseTags t with
    | some n, some t => showB (Build.matchFile driverU n (tagsOf t))
    | _, _ => "bad-op"
  | ["should", c, t] =>
    match fromHex c, parseTags t with
    | some c, some t => showB (Build.shouldBuild driverU c (tagsOf t))
    | _, _ => "bad-op"
  | ["matchm", n, ts] =>
    -- batched: one verdict character per `;`-separated tag set
    match fromHex n, (ts.splitOn ";").mapM parseTags with
    | some n, some tss => String.ofList (tss.map fun t => if Build.matchFile driverU n (tagsOf t) then 't' else 'f')
    | _, _ => "bad-op"
  | ["shouldm", c, ts] =>
    match fromHex c, (ts.splitOn ";").mapM parseTags with
    | some c, some tss => String.ofList (tss.map fun t => if Build.shouldBuild driverU c (tagsOf t) then 't' else 'f')
    | _, _ => "bad-op"
  | ["mtags", n, t] =>
    match fromHex n, parseTags t with
    | some n, some t => showB (Build.matchTags driverU n (tagsOf t))
    | _, _ => "bad-op"
  | ["uni", lo, hi] =>
    -- the code points in [lo, hi) that driverU accepts, as a decimal list (table self-check)
    match lo.toNat?, hi.toNat? with
    | some lo, some hi => ",".intercalate (((List.range (hi - lo)).map (· + lo)).filter driverU |>.map toString)
    | _, _ => "bad-op"
  | ["read", d, r] =>
    match fromHex d with
    | some d => showOutcome (ReadImports.readImports d (r == "1"))
    | none => "bad-op"
  | ["scanfiles", t, ex, fs] =>
    match parseTags t, parseFiles fs with
    | some t, some fs => showScan (Scan.scanFiles driverU (tagsOf t) (ex == "1") fs)
    | _, _ => "bad-op"
  | ["scandir", t, d, es] =>
    match parseTags t, fromHex d, parseEntries es with
    | some t, some d, some es => showScan (Scan.scanDir driverU (tagsOf t) d es)
    | _, _, _ => "bad-op"
  | ["unquote", s] =>
    match fromHex s with
    | some s => (match Scan.unquote s with | none => "none" | some q => "some " ++ toHex q)
    | none => "bad-op"
  | _ => "bad-op"

def main : IO Unit := run step
