import Driver.Common
import GIV.Model.Proxy
import GIV.Model.Txtar
open GIV GIV.Proxy Driver

/-!
Line protocol of `gim_proxy` (hex = lower-case hex, `-` = empty string, `_` = empty list):

* `str <hex>`            → every one-argument function of the model on that string
* `pair <hex> <hex>`     → `module.Check(a, b)` and `semver.Compare(a, b)`
* `scn <store> <shorts> <urls>` → `ML=<modlist|err> R=<response>;...`: `readModList` and a sequential run
  of the requests against one server (zip cache: first caller wins)
    store  = entry,entry,...   entry = `F:<name>:<data>` | `D:<name>:<file>+<file>...` (`D:<name>:_` = empty directory)
    file   = `<comp>/<comp>/...=<data>`
    shorts = `<info data>=<Short>,...`   (encoding/json is outside the model: the harness supplies the table)
    urls   = `<url path>,<url path>,...`
-/

def showOpt : Option Bytes → String
  | none => "err"
  | some b => toHex b

def showBool (b : Bool) : String := if b then "1" else "0"

def showInt (i : Int) : String := if i < 0 then "-1" else if i > 0 then "1" else "0"

def strLine (s : Bytes) : String :=
  "EP=" ++ showOpt (escapePath s) ++ " UP=" ++ showOpt (unescapePath s) ++
  " EV=" ++ showOpt (escapeVersion s) ++ " UV=" ++ showOpt (unescapeVersion s) ++
  " CP=" ++ showBool (checkPath s) ++
  " SPV=" ++ (let r := splitPathVersion s; toHex r.1 ++ "," ++ toHex r.2.1 ++ "," ++ showBool r.2.2) ++
  " SV=" ++ showBool (semverIsValid s) ++ " MJ=" ++ toHex (semverMajor s) ++ " BD=" ++ toHex (semverBuild s) ++
  " PS=" ++ showBool (isPseudo s) ++ " PR=" ++ showBool (isPseudoRef s) ++ " AH=" ++ showBool (allHex s) ++
  " DB=" ++ (match decodeBase s with
             | none => "skip"
             | some none => "err"
             | some (some m) => toHex m.path ++ "@" ++ toHex m.version)

def parseFileEnc (s : String) : Option (List Bytes × Bytes) :=
  match s.splitOn "=" with
  | [p, d] => do
    let comps ← (p.splitOn "/").mapM fromHex
    let d ← fromHex d
    pure (comps, d)
  | _ => none

def parseEntry (s : String) : Option (Bytes × Node) :=
  match s.splitOn ":" with
  | ["F", n, d] => do
    let n ← fromHex n
    let d ← fromHex d
    pure (n, .file d)
  | ["D", n, fs] => do
    let n ← fromHex n
    let files ← if fs == "_" then pure [] else (fs.splitOn "+").mapM parseFileEnc
    pure (n, .dir files)
  | _ => none

def parseList {α} (f : String → Option α) (sep : String) (s : String) : Option (List α) :=
  if s == "_" then some [] else (s.splitOn sep).mapM f

def parseShort (s : String) : Option (Bytes × Bytes) :=
  match s.splitOn "=" with
  | [a, b] => do
    let a ← fromHex a
    let b ← fromHex b
    pure (a, b)
  | _ => none

def showResponse : Response → String
  | .notFound => "404"
  | .err500 => "500"
  | .bytes b => "b:" ++ toHex b
  | .zip ms => "z:" ++ (if ms.isEmpty then "_" else "+".intercalate (ms.map fun f => toHex f.name ++ "=" ++ toHex f.data))

def mkExt (shorts : List (Bytes × Bytes)) : Ext where
  parseTxtar d := (GIV.Txtar.refParse d).files.map fun f => ⟨f.name, f.data⟩
  shortOf d := match shorts.lookup d with
    | some s => s
    | none => []

def scnLine (st : Store) (shorts : List (Bytes × Bytes)) (urls : List Bytes) : String :=
  match readModList st with
  | none => "ML=err"
  | some ml =>
    let x := mkExt shorts
    "ML=" ++ (if ml.isEmpty then "_" else ",".intercalate (ml.map fun m => toHex m.path ++ "@" ++ toHex m.version)) ++
    " R=" ++ ";".intercalate ((runSeq x ml st [] urls).map showResponse)

def step (line : String) : String :=
  match line.splitOn " " with
  | ["str", h] =>
    match fromHex h with
    | some s => strLine s
    | none => "bad-op"
  | ["pair", a, b] =>
    match fromHex a, fromHex b with
    | some a, some b => "CK=" ++ showBool (check a b) ++ " CMP=" ++ showInt (semverCompare a b)
    | _, _ => "bad-op"
  | ["scn", st, sh, us] =>
    match parseList parseEntry "," st, parseList parseShort "," sh, parseList fromHex "," us with
    | some st, some sh, some us => scnLine st sh us
    | _, _, _ => "bad-op"
  | _ => "bad-op"

def main : IO Unit := run step
