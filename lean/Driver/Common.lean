import GIV.Basic
namespace Driver
open GIV

/-- Read stdin line by line, write `f line` per line. -/
partial def loop (h : IO.FS.Stream) (out : IO.FS.Stream) (f : String → String) : IO Unit := do
  let line ← h.getLine
  if line.isEmpty then return ()
  let l := (line.dropEndWhile (fun c => c == '\n' || c == '\r')).toString
  out.putStrLn (f l)
  loop h out f

def run (f : String → String) : IO Unit := do
  let i ← IO.getStdin
  let o ← IO.getStdout
  loop i o f
  o.flush

def hexArg (s : String) : Option Bytes := fromHex s

end Driver
