import Driver.Common
import GIV.Model.ScriptCmds
open GIV GIV.TsRun GIV.TsRun.Cmds Driver

def showVerdict : Verdict → String
  | .pass => "pass" | .fail => "fail" | .skip => "skip" | .crash => "crash"

def parseVerdict : String → Option Verdict
  | "pass" => some .pass | "fail" => some .fail | "skip" => some .skip | "crash" => some .crash
  | _ => none

def showPath (p : Path) : String := toHex (join [47] p)

def showTree (fs : FS) : String :=
  String.intercalate ";" (
    (fs.dirs.filter (fun d => d ≠ [lit ".tmp"])).map (fun d => "d:" ++ showPath d) ++
    fs.files.map (fun e => "f:" ++ showPath e.1 ++ ":" ++ toHex e.2))

def paramsOf (flags goos goarch : String) : P :=
  let has (c : Char) := flags.toList.contains c
  { continueOnError := has 'c', requireExplicitExec := has 'e', requireUniqueNames := has 'n',
    updateScripts := has 'U', customCmds := has 'k', customCond := has 'q',
    goos := goos.toUTF8.toList, goarch := goarch.toUTF8.toList }

/-- `run <flags> <goos> <goarch> <script-file-hex>` — one script file through setup, the loop and the
deferred update; `cli <verdict>,<verdict>,…` — exit status of cmd/testscript for these verdicts. -/
def step (line : String) : String :=
  match line.splitOn " " with
  | ["run", flags, goos, goarch, h] =>
    match fromHex h with
    | none => "bad-op"
    | some file =>
      match runFile (paramsOf flags goos goarch) file with
      | none => "parse-panic"
      | some f =>
        if f.unmodelled then "unsupported" else
        "v=" ++ showVerdict f.verdict ++
        " line=" ++ (match f.reported with | none => "-" | some n => toString n) ++
        " probes=" ++ (if f.probes.isEmpty then "-" else String.intercalate "," (f.probes.map toHex)) ++
        " tree=" ++ (let t := showTree f.fs; if t.isEmpty then "-" else t) ++
        " exit=" ++ toString (cli [f.verdict]) ++
        " file=" ++ (if f.file = file then "same" else toHex f.file)
  | ["cli", vs] =>
    match (vs.splitOn ",").mapM parseVerdict with
    | none => "bad-op"
    | some l => "exit=" ++ toString (cli l)
  | _ => "bad-op"

def main : IO Unit := run step
