import Driver.Common
import GIV.Model.Lockedfile
open GIV GIV.Lockedfile Driver

/-!
  Model driver of the lockedfile group.

  `replay<TAB><init: none|hex><TAB><trace: events separated by '|'><TAB><end: done|deadlock><TAB><final: none|hex>`
      replays a trace of the instrumented package in the model: every `call` event starts the
      named operation, every system-call event must be the next system call of that client's
      running operation (same call, same arguments), must be enabled in the model's world (flock
      table!), and must give the same result; every `ret` event must find the operation finished
      with the same result.  Answer: `ok steps=<n> commits=<hex,hex,…>` or `reject <index> <reason>`.

  `solo<TAB><init><TAB><ops separated by ';'>`
      runs one client alone, without faults, and prints the system calls of its operations.
-/

def pathOfName (s : String) : Option Path :=
  if s == "f" then some 0 else if s == "m" then some 1 else if s == "g" then some 2 else none

def nameOfPath (p : Path) : String :=
  if p == 0 then "f" else if p == 1 then "m" else if p == 2 then "g" else "?"

def flagStr (flags : Nat) : String :=
  let acc := match accMode flags with
    | 0 => "RDONLY" | 1 => "WRONLY" | 2 => "RDWR" | _ => ""
  acc ++ (if fCreat flags then "+CREATE" else "") ++ (if fTrunc flags then "+TRUNC" else "") ++
    (if fExcl flags then "+EXCL" else "") ++ (if fAppend flags then "+APPEND" else "")

def errName : Err → String
  | .injected => "fail" | .enoent => "enoent" | .eexist => "eexist" | .ebadf => "ebadf"
  | .einval => "einval" | .eintr => "eintr" | .eappend => "eappend" | .eclosed => "eclosed"

def showRes : Res → String
  | .ok => ""
  | .fd n => s!"ok:fd{n}"
  | .bytes b => "ok:" ++ toHex b
  | .eof => "eof"
  | .n k => s!"ok:{k}"
  | .short k => s!"short:{k}"
  | .size k => s!"ok:size={k}"
  | .err e => errName e

def showSys : Sys → String
  | .open p flags => s!"open {nameOfPath p} {flagStr flags}"
  | .flock fd .ex => s!"flock fd{fd} EX"
  | .flock fd .sh => s!"flock fd{fd} SH"
  | .funlock fd => s!"flock fd{fd} UN"
  | .ftruncate fd n => s!"ftruncate fd{fd} {n}"
  | .read fd n => s!"read fd{fd} {n}"
  | .write fd bs => s!"write fd{fd} {toHex bs}"
  | .pwrite fd bs off => s!"pwrite fd{fd} {toHex bs} {off}"
  | .fstat fd => s!"fstat fd{fd}"
  | .close fd => s!"close fd{fd}"
  | .mlock m => s!"lock M{m}"
  | .munlock m => s!"unlock M{m}"

def parseNat (s : String) : Option Nat := s.toNat?

def dropPrefix (s : String) (n : Nat) : String := (s.drop n).toString

structure RState where
  s : State
  mmap : List (String × Nat)
  clients : List Cid
  steps : Nat

def addClient (cs : List Cid) (c : Cid) : List Cid := if cs.contains c then cs else c :: cs

/-- The transform function named by `t<hex>` / `a<hex>` / `x`. -/
def transformFn (spec : String) : Option (Bytes → Option Bytes) :=
  let arg := dropPrefix spec 1
  if spec.startsWith "t" then (fromHex arg).map fun b => fun _ => some b
  else if spec.startsWith "a" then (fromHex arg).map fun b => fun old => some (old ++ b)
  else if spec.startsWith "x" then some fun _ => none
  else none

def userIO (act : String) : Option UserIO :=
  let arg := dropPrefix act 1
  if act.startsWith "r" then (parseNat arg).map .read
  else if act.startsWith "w" then (fromHex arg).map .write
  else if act.startsWith "p" then
    match arg.splitOn "@" with
    | [h, o] => do
      let b ← fromHex h
      let off ← parseNat o
      pure (.pwrite b off)
    | _ => none
  else if act.startsWith "z" then (parseNat arg).map .truncate
  else if act == "s" then some .stat
  else none

/-- The operation started by a `call …` event. -/
def opOfCall (held : List Handle) (args : List String) : Option Op :=
  match args with
  | ["read", p] => (pathOfName p).map .read
  | ["write", p, h] => do
    let p ← pathOfName p
    let b ← fromHex h
    pure (.write p b)
  | ["transform", p, spec] => do
    let p ← pathOfName p
    let t ← transformFn spec
    pure (.transform p t)
  | ["mlock", k] => (parseNat k).map fun k => .mutexLock 1 k
  | ["munlock"] => (held.find? fun h => h.mu.isSome).map .unlockM
  | ["openfile", p, fl] => do
    let p ← pathOfName p
    let fl ← parseNat fl
    pure (.openFile p fl)
  | ["create", p] => (pathOfName p).map Op.create
  | ["edit", p] => (pathOfName p).map Op.edit
  | ["open", p] => (pathOfName p).map Op.open
  | ["user", act] => do
    let h ← held.find? fun h => h.mu.isNone
    let io ← userIO act
    pure (.user h io)
  | ["close"] => (held.find? fun h => h.mu.isNone).map .closeH
  | _ => none

/-- Does the finished operation's result agree with a `ret …` event? -/
def retMatches (r : Ret) (args : List String) : Bool :=
  match args with
  | ["read", "ok", h] => (match r with | .bytes b => toHex b == h | _ => false)
  | ["read", "err", _] => r == .err
  | ["write", st] => (st == "ok" && r == .ok) || (st == "err" && r == .err)
  | ["transform", st, _] => (st == "ok" && r == .ok) || (st == "err" && r == .err)
  | ["mlock", "ok"] => (match r with | .handle _ => true | _ => false)
  | ["mlock", "err"] => r == .err
  | ["munlock"] => true
  | ["openfile", "ok"] => (match r with | .handle _ => true | _ => false)
  | ["openfile", "err"] => r == .err
  | ["user"] => (match r with | .res _ => true | _ => false)
  | ["close", st] => (st == "ok" && r == .ok) || (st == "err" && r == .err)
  | _ => false

def fdOfName (s : String) : Option Fd := if s.startsWith "fd" then parseNat (dropPrefix s 2) else none

/-- The chunk size an event implies (read: requested size; write: number of bytes). -/
def chunkOf (op : String) (args : List String) : Nat :=
  match op, args with
  | "read", [_, n] => (parseNat n).getD 0
  | "write", [_, h] => ((fromHex h).map List.length).getD 0
  | _, _ => 0

def faultOf (op res : String) : Fault :=
  if res == "fail" then .fail
  else if res == "eintr" then .eintr
  else if res.startsWith "short:" && (op == "write" || op == "pwrite") then
    .short ((parseNat (dropPrefix res 6)).getD 0)
  else .none

/-- Observed event text of a model system call; mutex names are mapped through `mmap`. -/
def sysMatches (mmap : List (String × Nat)) (sc : Sys) (op : String) (args : List String) :
    Option (List (String × Nat)) :=
  match sc with
  | .mlock m | .munlock m =>
    let want := match sc with | .mlock _ => "lock" | _ => "unlock"
    match args with
    | [name] =>
      if op != want then none else
      match mmap.find? (fun x => x.1 == name) with
      | some (_, m') => if m' == m then some mmap else none
      | none => if mmap.any (fun x => x.2 == m) then none else some ((name, m) :: mmap)
    | _ => none
  | _ => if showSys sc == String.intercalate " " (op :: args) then some mmap else none

def splitEvent (ev : String) : Option (Cid × String × List String × String) :=
  let (lhs, res) := match ev.splitOn " -> " with
    | [a, b] => (a, b)
    | _ => (ev, "")
  match lhs.splitOn " " with
  | p :: _t :: op :: args =>
    if p.startsWith "p" then (parseNat (dropPrefix p 1)).map fun c => (c, op, args, res) else none
  | _ => none

def replayEvent (st : RState) (ev : String) : Except String RState := do
  let some (c, op, args, res) := splitEvent ev | throw "unparsable event"
  let st := { st with clients := addClient st.clients c, steps := st.steps + 1 }
  let cl := st.s.cl c
  if op == "critical" || op == "panic" || op == "go" then
    if op == "panic" then throw "implementation panicked" else pure st
  else if op == "call" then
    let some o := opOfCall cl.held args | throw "unknown call"
    match step st.s ⟨c, .call o⟩ with
    | some s' => pure { st with s := s' }
    | none => throw "call not enabled in the model"
  else if op == "ret" then
    match cl.cur with
    | none => throw "ret without running operation"
    | some fr =>
      match fr.pc with
      | .done r =>
        if retMatches r args then
          match step st.s ⟨c, .ret⟩ with
          | some s' => pure { st with s := s' }
          | none => throw "ret not enabled"
        else throw "operation result differs from the model's"
      | _ => throw ("operation returned but the model's program has not finished; model next: " ++
          (match sysOf fr 1 with | some (sc, _) => showSys sc | none => "?"))
  else
    match cl.cur with
    | none => throw "system call outside an operation"
    | some fr =>
      let n := chunkOf op args
      match sysOf fr n with
      | none => throw "model program has no further system call"
      | some (sc, _) =>
        match sysMatches st.mmap sc op args with
        | none => throw ("system call differs; model expects: " ++ showSys sc)
        | some mmap =>
          match stepRes st.s ⟨c, .sys (faultOf op res) n⟩ with
          | none => throw ("not enabled in the model (blocked): " ++ showSys sc)
          | some (s', r) =>
            let got := match r with | some r => showRes r | none => ""
            if got == res then pure { st with s := s', mmap := mmap }
            else throw ("result differs; model: " ++ showSys sc ++ " -> " ++ got)

def replayAll (st : RState) (evs : List String) (i : Nat) : Except (Nat × String) RState :=
  match evs with
  | [] => .ok st
  | e :: rest =>
    match replayEvent st e with
    | .error m => .error (i, m)
    | .ok st' => replayAll st' rest (i + 1)

def files0Of (initS : String) : Option (Path → Option Bytes) :=
  if initS == "none" then some (fun _ => none)
  else (fromHex initS).map fun b => fun p => if p = 0 then some b else none

def showOptBytes : Option Bytes → String
  | none => "none"
  | some b => toHex b

def replay (initS trace endS finalS : String) : String :=
  match files0Of initS with
  | none => "bad-op"
  | some files0 =>
    let evs := if trace == "" then [] else trace.splitOn "|"
    match replayAll ⟨init files0, [], [], 0⟩ evs 0 with
    | .error (i, m) => s!"reject {i} {m}"
    | .ok st =>
      let running := st.clients.filter fun c => (st.s.cl c).cur.isSome
      let blocked := running.all fun c => (stepRes st.s ⟨c, .sys .none 1⟩).isNone
      let fin := showOptBytes (st.s.w.files 0)
      if endS == "done" && !running.isEmpty then s!"reject {evs.length} end: done but a model client is still running"
      else if endS == "deadlock" && (running.isEmpty || !blocked) then
        s!"reject {evs.length} end: deadlock but a model client can move"
      else if fin != finalS then s!"reject {evs.length} final contents differ; model: {fin}"
      else
        let commits := String.intercalate "," ((st.s.w.hist 0).reverse.map toHex)
        s!"ok steps={st.steps} commits={commits}"

/-- Run the operations of one client alone (no faults, whole-buffer reads and writes). -/
def soloOps (s : State) (ops : List String) (fuel : Nat) (acc : List String) : List String :=
  match fuel with
  | 0 => acc ++ ["out-of-fuel"]
  | fuel + 1 =>
    let cl := s.cl 0
    match cl.cur with
    | none =>
      match ops with
      | [] => acc
      | o :: rest =>
        match opOfCall cl.held (o.splitOn " ") with
        | none =>
          -- Close / unlock of a file that OpenFile did not hand out: the caller has nothing to close
          if o == "close" || o == "munlock" then soloOps s rest fuel acc else acc ++ ["bad-call:" ++ o]
        | some op =>
          match step s ⟨0, .call op⟩ with
          | none => acc ++ ["call-not-enabled:" ++ o]
          | some s' => soloOps s' rest fuel (acc ++ ["call " ++ o])
    | some fr =>
      match fr.pc with
      | .done _ =>
        match step s ⟨0, .ret⟩ with
        | none => acc ++ ["ret-not-enabled"]
        | some s' => soloOps s' ops fuel acc
      | _ =>
        let n := 1048576
        match sysOf fr n, stepRes s ⟨0, .sys .none n⟩ with
        | some (sc, _), some (s', r) =>
          soloOps s' ops fuel (acc ++ [showSys sc ++ (match r with
            | some r => if showRes r == "" then "" else " -> " ++ showRes r
            | none => "")])
        | _, _ => acc ++ ["blocked"]

def handle (line : String) : String :=
  match line.splitOn "\t" with
  | ["replay", initS, trace, endS, finalS] => replay initS trace endS finalS
  | ["solo", initS, ops] =>
    match files0Of initS with
    | none => "bad-op"
    | some files0 => String.intercalate "|" (soloOps (init files0) (ops.splitOn ";") 10000 [])
  | _ => "bad-op"

def main : IO Unit := run handle
