import Driver.Common
import GIV.Model.TsLife
import GIV.Model.TsLifeDl
open GIV GIV.TsLife Driver

/-! line protocol of the tslife model driver (`gim_tslife`)

  grace <timeout_ns>                                   → g=<grace> i=<interruptAt> k=<killAt>   (offsets in ns)
  env <host> <rootHex> <nameHex> <setup>               → the initial environment list, in order
  refcount <n> <retain 0|1> <schedule>                 → replay of a finisher schedule
  waitorstop <killDelay> <deadline|none> <mayExit> <onInt> <ctxDone> <delivered> <killed> <res>
                                                       → member | notmember …  (coarse outcome ∈ executions of the class?)
  execout <neg> <err> <ctxErr>                         → ok | fatal:<hex msg>
  script <flags> <root> <name> <host> <setup> <sdefers> <keys> <files> <ops>  → solo prediction of one script

  strings are hex (`-` = empty); lists are comma separated (`-` = empty list). -/

def hexS (s : String) : String := toHex s.toUTF8.toList

def unhexS (h : String) : Option String := do
  let b ← fromHex h
  String.fromUTF8? (ByteArray.mk b.toArray)

def splitList (s : String) (sep : String) : List String :=
  if s == "-" || s == "" then [] else s.splitOn sep

def showEnv (e : EnvList) : String :=
  if e.isEmpty then "-" else ",".intercalate (e.map fun kv => hexS kv.1 ++ ":" ++ hexS kv.2)

def parseEnv (s : String) : Option EnvList :=
  (splitList s ",").mapM fun item =>
    match item.splitOn ":" with
    | [k, v] => do
      let k ← unhexS k
      let v ← unhexS v
      pure (k, v)
    | _ => none

def showPath (p : Path) : String :=
  if p.isEmpty then "." else "/".intercalate (p.map hexS)

def parsePath (s : String) : Option (List String) :=
  if s == "." then some [] else (s.splitOn "/").mapM unhexS

def parseNat (s : String) : Option Nat := s.toNat?

def parseInt (s : String) : Option Int :=
  if s.startsWith "-" then (s.drop 1).toNat?.map fun n => -(n : Int) else s.toNat?.map fun n => (n : Int)

def parseBool (s : String) : Option Bool :=
  if s == "1" then some true else if s == "0" then some false else none

def sortStrings (l : List String) : List String := l.mergeSort (fun a b => decide (a ≤ b))

def showNode : Node → String
  | .dir => "d"
  | .file d => "f" ++ toHex d

def showTree (t : List (Path × Node)) : String :=
  if t.isEmpty then "-" else ",".intercalate (sortStrings (t.map fun e => showPath e.1 ++ "=" ++ showNode e.2))

/-- effective environment (last entry wins), sorted by name. -/
def showEffEnv (e : EnvList) : String :=
  let names := e.foldl (fun acc kv => if acc.contains kv.1 then acc else acc ++ [kv.1]) ([] : List String)
  let items := names.map fun k => hexS k ++ ":" ++ hexS (getenv e k)
  if items.isEmpty then "-" else ",".intercalate (sortStrings items)

def parseKind (s : String) : Option BgKind :=
  if s == "s" then some .sig else if s == "o" then some .ok else if s == "b" then some .bad else none

def parseOp (s : String) : Option Op :=
  match s.splitOn ":" with
  | ["P"] => some .probe
  | ["C", p] => (parsePath p).map .cd
  | ["K"] => some .cdWork
  | ["E", k, v] => do
    let k ← unhexS k
    let v ← unhexS v
    pure (.env k v)
  | ["M", p] => (parsePath p).map .mkdir
  | ["Y", a, b] => do
    let a ← parsePath a
    let b ← parsePath b
    pure (.cp a b)
  | ["R", p] => (parsePath p).map .rm
  | ["H", p] => (parsePath p).map .chmod
  | ["D", n] => (parseNat n).map fun i => .regDefer i .none
  | ["D", n, k] => do
    let i ← parseNat n
    let ab ← (if k == "f" then some Abort.failNow else if k == "s" then some Abort.skip
              else if k == "p" then some Abort.panic else if k == "n" then some Abort.none else none)
    pure (.regDefer i ab)
  | ["B", n, k, g] => do
    let n ← unhexS n
    let k ← parseKind k
    let g ← parseBool g
    pure (.bg n k g)
  | ["F"] => some .fg
  | ["W"] => some .waitAll
  | ["w", n] => (unhexS n).map .waitOne
  | ["X"] => some .failLine
  | ["S"] => some .skip
  | ["T"] => some .stop
  | _ => none

def parseEntry (s : String) : Option Entry :=
  match s.splitOn ":" with
  | [p, d] => do
    let p ← parsePath p
    let d ← fromHex d
    pure (p, d)
  | _ => none

def showVerdict : Verdict → String
  | .pass => "pass" | .fail => "fail" | .skip => "skip" | .hang => "hang" | .escape => "escape"

def showIds (l : List Nat) : String :=
  if l.isEmpty then "-" else ".".intercalate (l.map toString)

/-- walk the trace: for every deferred call, the `sig` helpers that are certainly still running
(started, not interrupted, not waited for) and those that were interrupted but not yet waited for
(they exit by themselves at some moment: the harness accepts either). -/
def deferredView (tr : List Ev) : List String :=
  let step := fun (acc : (List Nat × List Nat) × List String) (e : Ev) =>
    match e with
    | .started id .sig => ((acc.1.1 ++ [id], acc.1.2), acc.2)
    | .interrupted id =>
      if acc.1.1.contains id then ((acc.1.1.filter (· != id), acc.1.2 ++ [id]), acc.2) else acc
    | .waited id => ((acc.1.1.filter (· != id), acc.1.2.filter (· != id)), acc.2)
    | .deferred d => (acc.1, acc.2 ++ [toString d ++ "@" ++ showIds acc.1.1 ++ "/" ++ showIds acc.1.2])
    | _ => acc
  (tr.foldl step (([], []), [])).2

def showOutcome (o : Outcome) : String :=
  let probes := o.trace.filterMap fun e => match e with
    | .probe cwd vals tree => some (showPath cwd ++ "|" ++ (if vals.isEmpty then "-" else ",".intercalate (vals.map hexS)) ++ "|" ++ showTree tree)
    | _ => none
  let reports := o.trace.filterMap fun e => match e with
    | .report cwd env => some (showPath cwd ++ "|" ++ showEffEnv env)
    | _ => none
  let dv := deferredView o.trace
  let started := o.trace.filterMap fun e => match e with | .started id _ => some id | _ => none
  let waited := o.trace.foldl (fun acc e => match e with | .waited id => if acc.contains id then acc else acc ++ [id] | _ => acc) ([] : List Nat)
  let flushLast := o.trace.getLast? == some .logFlush
  let undrained := started.filter fun id => !waited.contains id
  "V=" ++ showVerdict o.verdict ++
  " D=" ++ (if dv.isEmpty then "-" else ",".intercalate dv) ++
  " G=" ++ showIds o.registered ++
  " N=" ++ toString started.length ++
  " U=" ++ showIds undrained ++
  " L=" ++ (if flushLast then "1" else "0") ++
  " P=" ++ (if probes.isEmpty then "-" else ";".intercalate probes) ++
  " R=" ++ (if reports.isEmpty then "-" else ";".intercalate reports) ++
  " F=" ++ showTree o.finalFs.entries

def showRes : Res → String
  | .interruptErr .ctxErr => "ctx"
  | .interruptErr .other => "other"
  | .waitStatus .own => "own"
  | .waitStatus .bySig => "sig"
  | .waitStatus .byKill => "kill"

def parseRes (s : String) : Option Res :=
  if s == "ctx" then some (.interruptErr .ctxErr)
  else if s == "other" then some (.interruptErr .other)
  else if s == "own" then some (.waitStatus .own)
  else if s == "sig" then some (.waitStatus .bySig)
  else if s == "kill" then some (.waitStatus .byKill)
  else none

def b01 (b : Bool) : String := if b then "1" else "0"

def showCoarse (c : Coarse) : String :=
  b01 c.ctxDone ++ b01 c.delivered ++ b01 c.killed ++ ":" ++ showRes c.res

def replayCleanup (s : RC) (k : Nat) : List (Nat × String × Int) → String
  | [] =>
    "ok root=" ++ b01 s.root ++ " attempts=" ++ toString s.rootAttempts ++ " failed=" ++ toString s.rootFailed ++
    " cancels=" ++ toString s.cancels ++ " complete=" ++ b01 s.complete
  | (i, kind, v) :: rest =>
    let want : Option PC := if kind == "A" then some .rmAll else if kind == "D" then some .dec
      else if kind == "R" then some .rmRoot else if kind == "C" then some .cancel else none
    if s.pcs[i]? != want || want == none then "mismatch@" ++ toString k ++ ":finisher-" ++ toString i ++ "-is-not-at-" ++ kind
    else match s.step i with
      | none => "disabled@" ++ toString k
      | some s' =>
        if kind == "D" && s'.count != v then "mismatch@" ++ toString k ++ ":count-" ++ toString s'.count
        else if kind == "R" && (s'.rootFailed == s.rootFailed) != (v == 1) then "mismatch@" ++ toString k ++ ":remove-result"
        else replayCleanup s' (k + 1) rest

def stepLine (line : String) : String :=
  match line.splitOn " " with
  | ["grace", t] =>
    match parseInt t with
    | some t =>
      let p := plan t
      s!"g={p.grace} i={p.interruptAt} k={p.killAt}"
    | none => "bad-op"
  | ["ctxdl", call, start, t] =>
    match parseInt call, parseInt start, parseInt t with
    | some call, some start, some t => s!"x={scriptCtxExpiry call start t}"
    | _, _, _ => "bad-op"
  | ["env", host, root, name, setup] =>
    match parseEnv host, unhexS root, unhexS name, parseEnv setup with
    | some host, some root, some name, some setup => showEnv (initialEnv host (workdirOf root name) setup)
    | _, _, _, _ => "bad-op"
  | ["names", files] =>
    -- file base names (with extension) of one RunT call, in order → the subtest names
    match (splitList files ",").mapM unhexS with
    | some fs =>
      match assignNames (fs.map scriptBase) with
      | some ns => if ns.isEmpty then "-" else ",".intercalate (ns.map hexS)
      | none => "no-free-name"
    | none => "bad-op"
  | ["refcount", n, retain, sched] =>
    match parseNat n, parseBool retain, (splitList sched ",").mapM parseNat with
    | some n, some retain, some sched =>
      -- replay step by step to report where a schedule names a finished finisher
      let rec go (s : RC) (k : Nat) : List Nat → String
        | [] =>
          "ok root=" ++ b01 s.root ++ " attempts=" ++ toString s.rootAttempts ++ " failed=" ++ toString s.rootFailed ++
          " cancels=" ++ toString s.cancels ++ " count=" ++ toString s.count ++
          " wd=" ++ (if s.wd.isEmpty then "-" else String.join (s.wd.map b01)) ++ " complete=" ++ b01 s.complete
        | i :: rest => match s.step i with
          | none => "disabled@" ++ toString k
          | some s' => go s' (k + 1) rest
      go (RC.init n retain) 0 sched
    | _, _, _ => "bad-op"
  | ["cleanuptrace", n, retain, evs] =>
    -- replay of the logged operations of the real cleanup closures: `i:K:v`, K ∈ A (removeAll done),
    -- D (AddInt32, v = result), R (os.Remove(root), v = 1 iff it succeeded), C (cancel)
    let parseEv (e : String) : Option (Nat × String × Int) :=
      match e.splitOn ":" with
      | [i, k, v] => do
        let i ← parseNat i
        let v ← parseInt v
        pure (i, k, v)
      | _ => none
    match parseNat n, parseBool retain, (splitList evs ",").mapM parseEv with
    | some n, some retain, some evs =>
      replayCleanup (RC.init n retain) 0 evs
    | _, _, _ => "bad-op"
  | ["waitorstop", kd, dl, me, oi, cd, dv, kl, res] =>
    let dl? : Option (Option Nat) := if dl == "none" then some none else (parseNat dl).map some
    match parseInt kd, dl?, parseBool me, parseBool oi, parseBool cd, parseBool dv, parseBool kl, parseRes res with
    | some kd, some dl, some me, some oi, some cd, some dv, some kl, some res =>
      let c : Scn := ⟨kd, dl, me, oi⟩
      let (outs, stuck) := explore c 16 St.init
      let obs : Coarse := ⟨cd, dv, kl, res⟩
      if outs.contains obs then "member stuck=" ++ toString stuck
      else "notmember stuck=" ++ toString stuck ++ " set=" ++ ",".intercalate (outs.map showCoarse)
    | _, _, _, _, _, _, _, _ => "bad-op"
  | ["execout", neg, err, ce] =>
    match parseBool neg, parseBool err, parseBool ce with
    | some neg, some err, some ce =>
      match cmdExecOutcome neg err ce with
      | .ok => "ok"
      | .fatal m => "fatal:" ++ hexS m
    | _, _, _ => "bad-op"
  | ["script", flags, root, name, host, setup, sdef, keys, files, ops] =>
    match flags.toList.map (fun c => c == '1'), unhexS root, unhexS name, parseEnv host, parseEnv setup,
          (splitList sdef ",").mapM parseNat, (splitList keys ",").mapM unhexS,
          (splitList files ",").mapM parseEntry, (splitList ops ",").mapM parseOp with
    | [coe, uniq, verbose], some root, some name, some host, some setup, some sdef, some keys, some files, some ops =>
      let cfg : Cfg := ⟨coe, uniq, verbose, host, root, name, setup, sdef, keys⟩
      showOutcome (runScript cfg files ops)
    | _, _, _, _, _, _, _, _, _ => "bad-op"
  | _ => "bad-op"

def main : IO Unit := run stepLine
