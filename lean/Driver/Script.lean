import Driver.Common
import GIV.Model.ScriptParse
open GIV GIV.Script Driver

/-! Model driver for the `script` group (C02).

Lists are `,`-separated hex strings, `.` is the empty list, `-` the empty byte string.

* `run <cd> <names> <vars> <lines>` — a whole script: `vars` are the `Env.Vars` strings at the end of
  Setup, `lines` the script lines.  One result per line, `;`-separated:
  `E` tokenizer error, `N` no arguments, `V` an `env` line (applied with cmdEnv) or a `setvar k v` line
  (the harness's custom command calling TestScript.Setenv),
  `P:<args>|<Getenv of every name>` a `probe` line, `X:<child environment strings>` / `X:nul` an `exec` line,
  `O:<args>` anything else.
* `parse <vars> <line>` — `E` or `A:<args>`.
The tokenizer used here is the index form `parseIdx` (Go's `i`, `start`, `line[start:i]`); it is proved equal
to the structural `parseLine` of the theorems in GIV.Lemmas.ScriptIdx.
* `ox <vars> <text>` — `ts.expand(text)`, computed with the index form `osExpandIdx` of os.Expand.
* `qm <text>` — `regexp.QuoteMeta(text)`.
* `dedup <strings>` — os/exec dedupEnv: `nul` or the list.
-/

def showList (l : List Bytes) : String :=
  if l.isEmpty then "." else String.intercalate "," (l.map toHex)

def readList (s : String) : Option (List Bytes) :=
  if s == "." then some [] else (s.splitOn ",").mapM fromHex

def showChild : Except ExecErr (List Bytes) → String
  | .ok l => showList l
  | .error .nul => "nul"

/-- One script line: new state and the observation. -/
def stepLine (cd : Bytes) (names : List Bytes) (ts : TS) (line : Bytes) : TS × String :=
  -- the run loop: `if strings.HasPrefix(line, "#")` is a phase comment, not parsed
  if line.head? = some 35 then (ts, "N") else
  match parseIdx ts.envMap line with
  | .error .unterminated => (ts, "E")
  | .error .panic => (ts, "PANIC")
  | .ok [] => (ts, "N")
  | .ok (cmd :: args) =>
    if cmd = lit "env" then
      (if args.isEmpty then ts else cmdEnv ts args, "V")
    else if cmd = lit "setvar" then
      -- the harness's custom command: `ts.Setenv(args[0], args[1])` when given exactly two arguments
      (match args with
       | [k, v] => (ts.setenv k v, "V")
       | _ => (ts, "V"))
    else if cmd = lit "probe" then
      (ts, "P:" ++ showList (cmd :: args) ++ "|" ++ showList (names.map ts.getenv))
    else if cmd = lit "exec" then
      (ts, "X:" ++ showChild (ts.childEnv cd))
    else (ts, "O:" ++ showList (cmd :: args))

def runLines (cd : Bytes) (names : List Bytes) : TS → List Bytes → List String
  | _, [] => []
  | ts, l :: rest =>
    let r := stepLine cd names ts l
    r.2 :: runLines cd names r.1 rest

def step (line : String) : String :=
  match line.splitOn " " with
  | ["run", cd, names, vars, lines] =>
    match fromHex cd, readList names, readList vars, readList lines with
    | some cd, some names, some vars, some lines =>
      String.intercalate ";" (runLines cd names (TS.setup vars) lines)
    | _, _, _, _ => "bad-op"
  | ["parse", vars, l] =>
    match readList vars, fromHex l with
    | some vars, some l =>
      match parseIdx (TS.setup vars).envMap l with
      | .ok args => "A:" ++ showList args
      | .error .unterminated => "E"
      | .error .panic => "PANIC"
    | _, _ => "bad-op"
  | ["ox", vars, t] =>
    match readList vars, fromHex t with
    | some vars, some t =>
      -- the index form of os.Expand (proved equal to the structural one) with expand's mapping
      match osExpandIdx t (expandMapping (TS.setup vars).envMap) with
      | some r => toHex r
      | none => "PANIC"
    | _, _ => "bad-op"
  | ["qm", t] =>
    match fromHex t with
    | some t => toHex (quoteMeta t)
    | none => "bad-op"
  | ["dedup", l] =>
    match readList l with
    | some l => showChild (dedupEnv l)
    | none => "bad-op"
  | _ => "bad-op"

def main : IO Unit := run step
