import Driver.Common
import GIV.Model.ParWork
import GIV.Model.ParCache
open GIV Driver

/-!
  gim_par — replays traces of the instrumented par package in the Lean models.

    work  <n> <init> <graph> <events>      (items are numbers; `-` = empty; `a..b` in an item list is the
                                            range a, a+1, …, b; a graph part `a..b>cs` gives every item of
                                            the range the children cs)
    cache <programs> <events>              (ops `d<k>` = Do, `g<k>` = Get, `n<k>` = Do on a NIL KEY: every
                                            key that occurs in an `n` op has an f that returns nil)

  answer: `ok <summary of the final model state>` or `reject <index of the refused event> <reason>`.
  A pseudo event `t:B:<ids>` (emitted by the harness at scheduling points) asserts that exactly the
  listed tasks are alive but have no enabled step.
-/

/-- one element of an item list: a number, or a range `a..b` (both ends included) -/
def natRange (s : String) : Option (List Nat) :=
  match s.splitOn ".." with
  | [a] => a.toNat?.map fun a => [a]
  | [a, b] => do
    let a ← a.toNat?
    let b ← b.toNat?
    pure ((List.range (b + 1 - a)).map (· + a))
  | _ => none

def natList (sep : String) (s : String) : Option (List Nat) :=
  if s == "-" || s == "" then some [] else ((s.splitOn sep).mapM natRange).map List.flatten

def showNats (l : List Nat) : String := if l.isEmpty then "-" else ",".intercalate (l.map toString)

def lookupChildren (g : List (Nat × List Nat)) (x : Nat) : List Nat :=
  match g.find? (fun p => p.1 == x) with
  | some p => p.2
  | none => []

def parseGraph (s : String) : Option (List (Nat × List Nat)) :=
  if s == "-" then some [] else
  ((s.splitOn ";").mapM fun (part : String) =>
    match part.splitOn ">" with
    | [x, cs] => do
      let xs ← natRange x
      let cs ← natList "," cs
      pure (xs.map fun x => (x, cs))
    | _ => none).map List.flatten

namespace W
open GIV.ParWork

inductive Item' | ev (t : Nat) (e : Event) | blocked (ids : List Nat)

def parseEvent (s : String) : Option Item' :=
  match s.splitOn ":" with
  | [_, "B", ids] => (natList "." ids).map .blocked
  | t :: rest => do
    let t ← t.toNat?
    let e ← match rest with
      | ["start"] => some Event.start
      | ["exit"] => some .exit
      | ["panic"] => some .panic
      | ["lock"] => some .lock
      | ["unlock"] => some .unlock
      | ["wait"] => some .wait
      | ["wake"] => some .wake
      | ["sig", "-"] => some (.signal none)
      | ["sig", w] => w.toNat?.map (fun w => .signal (some w))
      | ["bc", k] => k.toNat?.map .broadcast
      | ["rand", l, k] => do pure (.rand (← l.toNat?) (← k.toNat?))
      | ["fe", x] => x.toNat?.map .fEnter
      | ["fx", x] => x.toNat?.map .fExit
      | ["dc", n] => n.toNat?.map .doCall
      | ["dr"] => some .doReturn
      | ["go", c] => c.toNat?.map .go
      | _ => none
    pure (.ev t e)
  | [] => none

def showPc (p : Pc) : String := (toString (repr p)).replace "GIV.ParWork." "" |>.replace " " "_"

def tasksBound (c : Cfg) : Nat := max c.n 1

def blockedSet (c : Cfg) (s : State) : List Nat :=
  (List.range (tasksBound c)).filter fun t =>
    s.pc t != .absent && s.pc t != .exited && !enabledTask c s t

/-- the same state with `pc` tabulated (the model represents `pc` as a function that every step wraps
once more; long traces with many tasks are replayed much faster when it is flattened now and then) -/
def compact (c : Cfg) (s : State) : State :=
  let arr := ((List.range (tasksBound c)).map s.pc).toArray
  { s with pc := fun i => match arr[i]? with | some p => p | none => s.pc i }

def run (c : Cfg) : State → Nat → List Item' → Except (Nat × String) State
  | s, _, [] => .ok s
  | s, i, .ev t e :: rest =>
    match step c s t e with
    | some s' => run c (if i % 64 == 63 then compact c s' else s') (i + 1) rest
    | none => .error (i, s!"task {t} at {showPc (s.pc t)} cannot do {(toString (repr e)).replace " " "_"}")
  | s, i, .blocked ids :: rest =>
    if blockedSet c s == ids then run c s (i + 1) rest
    else .error (i, s!"blocked set differs: model {showNats (blockedSet c s)} implementation {showNats ids}")

def isFinal (c : Cfg) (s : State) : Bool :=
  (List.range (tasksBound c)).all fun t => s.pc t == .exited

def summary (c : Cfg) (s : State) : String :=
  let en := (List.range (tasksBound c)).filter (enabledTask c s)
  let inF := (List.range (tasksBound c)).filter (fun t => (s.pc t).insideF)
  s!"final={isFinal c s} enabled={showNats en} calls={showNats s.calls} added={showNats s.added.reverse} todo={showNats s.todo} waiting={s.waiting} running={s.running} owner={match s.owner with | some t => toString t | none => "-"} insideF={showNats inF} pcs={",".intercalate ((List.range (tasksBound c)).map fun t => showPc (s.pc t))}"

def handle (n init graph events : String) : String :=
  match n.toNat?, natList "," init, parseGraph graph, (if events == "-" then some [] else (events.splitOn "|").mapM parseEvent) with
  | some n, some init, some g, some evs =>
    let c : Cfg := { n := n, init := init, children := lookupChildren g }
    match run c init0 0 evs with
    | .ok s => "ok " ++ summary c s
    | .error (i, why) => s!"reject {i} {why}"
  | _, _, _, _ => "bad-op"

end W

namespace C
open GIV.ParCache

inductive Item' | ev (t : Nat) (e : Event) | blocked (ids : List Nat)

def parseOp (s : String) : Option Op :=
  match s.toList with
  | 'd' :: r => (String.ofList r).toNat?.map .doK
  | 'n' :: r => (String.ofList r).toNat?.map .doK
  | 'g' :: r => (String.ofList r).toNat?.map .getK
  | _ => none

/-- the nil keys of a program text: every key that occurs in an `n<k>` op -/
def nilKeys (s : String) : List Nat :=
  ((s.splitOn "|").map fun g => (g.splitOn ";").filterMap fun op =>
    match op.toList with
    | 'n' :: r => (String.ofList r).toNat?
    | _ => none).flatten

def parseProg (s : String) : Option (List (List Op)) :=
  (s.splitOn "|").mapM fun g => if g == "-" || g == "" then some [] else (g.splitOn ";").mapM parseOp

def parseVal (s : String) : Option (Option Val) :=
  if s == "nil" then some none else
  match s.splitOn "." with
  | [k, i] => do pure (some ⟨← k.toNat?, ← i.toNat?⟩)
  | _ => none

def parseEvent (s : String) : Option Item' :=
  match s.splitOn ":" with
  | [_, "B", ids] => (natList "." ids).map .blocked
  | t :: rest => do
    let t ← t.toNat?
    let e ← match rest with
      | ["start"] => some Event.start
      | ["exit"] => some .exit
      | ["dc", k] => k.toNat?.map .doCall
      | ["dr", k, v] => do pure (.doReturn (← k.toNat?) (← parseVal v))
      | ["gc", k] => k.toNat?.map .getCall
      | ["gr", k, v] => do pure (.getReturn (← k.toNat?) (← parseVal v))
      | ["ml", k, "hit"] => k.toNat?.map (.mapLoad · true)
      | ["ml", k, "miss"] => k.toNat?.map (.mapLoad · false)
      | ["mls", k, "loaded"] => k.toNat?.map (.mapLoadOrStore · true)
      | ["mls", k, "stored"] => k.toNat?.map (.mapLoadOrStore · false)
      | ["al", k, v] => do pure (.atomicLoad (← k.toNat?) (← v.toNat?))
      | ["as", k, v] => do pure (.atomicStore (← k.toNat?) (← v.toNat?))
      | ["lock", k] => k.toNat?.map .lock
      | ["unlock", k] => k.toNat?.map .unlock
      | ["fe", k] => k.toNat?.map .fEnter
      | ["fx", k, v] => do pure (.fExit (← k.toNat?) (← parseVal v))
      | _ => none
    pure (.ev t e)
  | [] => none

def showPc (p : Pc) : String :=
  ((toString (repr p)).replace "GIV.ParCache." "" |>.replace " " "_").replace "\n" ""

def blockedSet (c : Cfg) (nt : Nat) (s : State) : List Nat :=
  (List.range nt).filter fun t => s.pc t != .exited && !enabledTask c s t

def run (c : Cfg) (nt : Nat) : State → Nat → List Item' → Except (Nat × String) State
  | s, _, [] => .ok s
  | s, i, .ev t e :: rest =>
    match step c s t e with
    | some s' => run c nt (autoWrite c s' t) (i + 1) rest
    | none => .error (i, s!"task {t} at {showPc (s.pc t)} cannot do {((toString (repr e)).replace " " "_").replace "\n" ""}")
  | s, i, .blocked ids :: rest =>
    if blockedSet c nt s == ids then run c nt s (i + 1) rest
    else .error (i, s!"blocked set differs: model {showNats (blockedSet c nt s)} implementation {showNats ids}")

def showVal : Option Val → String
  | none => "nil"
  | some v => s!"{v.key}.{v.call}"

/-- what the completed invocation of f returned; `-` while none has completed -/
def showFret : Option (Option Val) → String
  | none => "-"
  | some v => showVal v

def keysOf (p : List (List Op)) : List Nat :=
  (p.flatten.map fun | .doK k => k | .getK k => k).eraseDups

def summary (c : Cfg) (nt : Nat) (keys : List Nat) (s : State) : String :=
  let en := (List.range nt).filter (enabledTask c s)
  let fin := (List.range nt).all fun t => s.pc t == .exited
  let ks := keys.map fun k =>
    let e := s.key k
    s!"{k}:alloc={e.alloc},done={e.done},owner={match e.owner with | some t => toString t | none => "-"},result={showVal e.result},fcalls={e.fcalls},fret={showFret e.fret}"
  s!"final={fin} enabled={showNats en} keys={";".intercalate ks} pcs={",".intercalate ((List.range nt).map fun t => showPc (s.pc t))}"

def handle (prog events : String) : String :=
  match parseProg prog, (if events == "-" then some [] else (events.splitOn "|").mapM parseEvent) with
  | some p, some evs =>
    let nk := nilKeys prog
    let c : Cfg := { prog := fun t => match p[t]? with | some l => l | none => [], nilKey := fun k => nk.contains k }
    match run c p.length (init0 c) 0 evs with
    | .ok s => "ok " ++ summary c p.length (keysOf p).mergeSort s
    | .error (i, why) => s!"reject {i} {why}"
  | _, _ => "bad-op"

end C

def step (line : String) : String :=
  match line.splitOn " " with
  | ["work", n, init, graph, events] => W.handle n init graph events
  | ["cache", prog, events] => C.handle prog events
  | _ => "bad-op"

def main : IO Unit := run step
