import Driver.Common
import GIV.Model.Txtar
open GIV GIV.Txtar Driver

def showArchive (a : Archive) : String :=
  "c:" ++ toHex a.comment ++ String.join (a.files.map fun f => ";f:" ++ toHex f.name ++ ":" ++ toHex f.data)

def showOptArchive : Option Archive → String
  | none => "panic"
  | some a => showArchive a

def showQ : Except QErr Bytes → String
  | .ok b => "ok:" ++ toHex b
  | .error .noFinalNewline => "err:nonl"
  | .error .notUTF8 => "err:utf8"
  | .error .notQuoted => "err:notquoted"

def showOB : Option Bool → String
  | none => "panic" | some true => "true" | some false => "false"

def parseFileEnc (s : String) : Option File :=
  match s.splitOn ":" with
  | ["f", n, d] => do
    let n ← fromHex n
    let d ← fromHex d
    pure ⟨n, d⟩
  | _ => none

def parseArchiveEnc (s : String) : Option Archive :=
  match s.splitOn ";" with
  | c :: fs =>
    match c.splitOn ":" with
    | ["c", ch] => do
      let cb ← fromHex ch
      let files ← fs.mapM parseFileEnc
      pure ⟨cb, files⟩
    | _ => none
  | [] => none

/-- `all <hex>`: every txtar function on one input. -/
def step (line : String) : String :=
  match line.splitOn " " with
  | ["all", h] =>
    match fromHex h with
    | none => "bad-op"
    | some d =>
      let p := parse d
      let pfp := match p with
        | none => "panic"
        | some a => showOptArchive (parse (format a))
      let fmt := match p with
        | none => "panic"
        | some a => toHex (format a)
      "P=" ++ showOptArchive p ++ " F=" ++ fmt ++ " PFP=" ++ pfp ++ " NQ=" ++ showOB (needsQuote d) ++
        " Q=" ++ showQ (quote d) ++ " U=" ++ showQ (unquote d) ++ " R=" ++ showArchive (refParse d) ++
        " T=" ++ toHex (trimSpace d)
  | ["wf", enc] =>
    match parseArchiveEnc enc with
    | none => "bad-op"
    | some a => "F=" ++ toHex (format a) ++ " P=" ++ showOptArchive (parse (format a))
  | _ => "bad-op"

def main : IO Unit := run step
