import Driver.Common
import GIV.Model.TxtarIdx
open GIV GIV.Txtar Driver

def showArchive (a : Archive) : String :=
  "c:" ++ toHex a.comment ++ String.join (a.files.map fun f => ";f:" ++ toHex f.name ++ ":" ++ toHex f.data)

def showOptArchive : Option Archive → String
  | none => "panic"
  | some a => showArchive a

def showQ : Except QErr Bytes → String
  | .ok b => "ok:" ++ toHex b
  | .error .noFinalNewline => "err:nonl"
  | .error .notUTF8 => "err:utf8"
  | .error .notQuoted => "err:notquoted"

def showOB : Option Bool → String
  | none => "panic" | some true => "true" | some false => "false"

def parseFileEnc (s : String) : Option File :=
  match s.splitOn ":" with
  | ["f", n, d] => do
    let n ← fromHex n
    let d ← fromHex d
    pure ⟨n, d⟩
  | _ => none

def parseArchiveEnc (s : String) : Option Archive :=
  match s.splitOn ";" with
  | c :: fs =>
    match c.splitOn ":" with
    | ["c", ch] => do
      let cb ← fromHex ch
      let files ← fs.mapM parseFileEnc
      pure ⟨cb, files⟩
    | _ => none
  | [] => none

/-- `all <hex>`: every txtar function on one input.

The driver executes the *index forms* of `GIV.Model.TxtarIdx` (near-literal transcriptions of the
Go code: offsets, `bytes.Index`, checked slices), so the correspondence run compares Go with those;
`GIV.Lemmas.TxtarIdx*` prove them equal to the line-structured forms of `GIV.Model.Txtar` that the
property theorems are about (`GIV.C03.index_form_agrees`, `GIV.C14.needsQuote_index_form_agrees`, …). -/
def step (line : String) : String :=
  match line.splitOn " " with
  | ["all", h] =>
    match fromHex h with
    | none => "bad-op"
    | some d =>
      let p := parseIdx d
      let pfp := match p with
        | none => "panic"
        | some a => showOptArchive (parseIdx (format a))
      let fmt := match p with
        | none => "panic"
        | some a => toHex (format a)
      "P=" ++ showOptArchive p ++ " F=" ++ fmt ++ " PFP=" ++ pfp ++ " NQ=" ++ showOB (needsQuoteIdx d) ++
        " Q=" ++ showQ (quoteIdx d) ++ " U=" ++ showQ (unquoteIdx d) ++ " R=" ++ showOptArchive (refParseIdx d) ++
        " T=" ++ toHex (trimSpace d)
  | ["wf", enc] =>
    match parseArchiveEnc enc with
    | none => "bad-op"
    | some a => "F=" ++ toHex (format a) ++ " P=" ++ showOptArchive (parseIdx (format a))
  | _ => "bad-op"

def main : IO Unit := run step
