import Driver.Common
import GIV.Model.Diff
open GIV GIV.Diff Driver

def showOB : Option Bytes → String
  | none => "panic"
  | some b => toHex b

def b01 (b : Bool) : String := if b then "1" else "0"

/-- `diff <hexOldName> <hexNewName> <hexOld> <hexNew>` -> output bytes in hex, or `panic`.
`chk <hexOld> <hexNew>` -> the model's own applier on the model's hunks: `A=<apply ok> U=<unapply ok> H=<#hunks>`. -/
def step (line : String) : String :=
  match line.splitOn " " with
  | ["diff", n1, n2, a, b] =>
    match fromHex n1, fromHex n2, fromHex a, fromHex b with
    | some n1, some n2, some a, some b => showOB (diff n1 a n2 b)
    | _, _, _, _ => "bad-op"
  | ["chk", a, b] =>
    match fromHex a, fromHex b with
    | some a, some b =>
      match diffHunks (lines a) (lines b) with
      | none => "panic"
      | some hs =>
        "A=" ++ b01 (apply (lines a) hs == some (lines b)) ++ " U=" ++ b01 (unapply (lines b) hs == some (lines a)) ++
          " H=" ++ toString hs.length
    | _, _ => "bad-op"
  | _ => "bad-op"

def main : IO Unit := run step
