/-
  GIV.GoLibNil — run-time library of the Go→Lean translator (`harness/internal/go2lean`), part 2:
  slice variables whose nil-ness the Go code observes.

  Everywhere else the translator identifies `nil` with the empty slice (and rejects `x == nil`).  A local
  variable declared `var x []T` that the function compares with `nil` is translated as `Option (List T)`:
  `none` is the nil slice, `some d` a non-nil slice with contents `d` (so `some []` is the non-nil empty
  slice `make([]T, 0)` gives).  `x == nil` is `Option.isNone x`; every other use reads the contents
  (`nilData`); `append(x, …)` is `nilAppend`.  Like GIV.GoLib this file is *modelled, not verified*: it is
  the trusted meaning of the Go built-ins.  Core Lean only.
-/
import GIV.GoLib

namespace GIV.GoLib

/-- the contents of a slice whose nil-ness is tracked: `string(x)`, `len(x)`, `x[i]`, `x[a:b]`, `range x`, …
(a nil slice behaves like an empty one in all of them). -/
def nilData : Option (List α) → List α
  | none => []
  | some d => d

/-- `append(x, ys...)` / `append(x, y1, …, yn)`: a non-nil slice stays non-nil; appending nothing to the
nil slice returns it (nil), appending something allocates (non-nil). -/
def nilAppend (x : Option (List α)) (ys : List α) : Option (List α) :=
  match x with
  | some d => some (d ++ ys)
  | none => if ys.isEmpty then none else some ys

end GIV.GoLib
