/-
  Property C15 — txtar extraction stays inside its directory and round-trips with txtar-c.

  Model: GIV/Model/Fsx.lean (cleanPath, abstract file system, writeArchive, saveDir, extract).
  The facts regenerated from /repo (GIV/Gen/Fsx.lean) are turned into the hypotheses of the lemma files
  *here* (`rejects_*`, `open_flags`, `savedir_facts`), so a changed rejection test, a dropped O_EXCL, a
  changed dot rule … breaks a named theorem of this file.
-/
import GIV.Lemmas.FsxFS

namespace GIV.C15
open GIV GIV.Txtar GIV.Fsx

/-! ### regenerated facts -/

/-- Write's test rejects every cleaned name that starts with '/'. -/
theorem rejects_rooted (rest : Bytes) : Gen.Fsx.writeRejects (SEP :: rest) = true := by
  simp [Gen.Fsx.writeRejects, Gen.Fsx.isAbs, SEP]

/-- Write's test rejects ".". -/
theorem rejects_dot : Gen.Fsx.writeRejects dotB = true := by decide

/-- Write's test rejects "..". -/
theorem rejects_dotdot : Gen.Fsx.writeRejects dotdotB = true := by decide

/-- Write's test rejects everything that starts with "../". -/
theorem rejects_dotdotSlash (rest : Bytes) : Gen.Fsx.writeRejects (dotdotSlash ++ rest) = true := by
  simp [Gen.Fsx.writeRejects, Gen.Fsx.isAbs, dotdotSlash, DOT, SEP]

/-- `isAbs` is "starts with '/'" (Unix). -/
theorem isAbs_iff (p : Bytes) : Gen.Fsx.isAbs p = true ↔ p.head? = some SEP := by
  cases p with
  | nil => simp [Gen.Fsx.isAbs]
  | cons b rest =>
    by_cases hb : (47 : UInt8) = b
    · subst hb; simp [Gen.Fsx.isAbs, SEP]
    · have hb' : ¬ b = SEP := fun e => hb e.symm
      simp [Gen.Fsx.isAbs, hb, hb']

/-- Write's test rejects nothing else. -/
theorem rejects_only (c : Bytes) (h1 : c.head? ≠ some SEP) (h2 : c ≠ dotB) (h3 : c ≠ dotdotB)
    (h4 : ¬ dotdotSlash <+: c) : Gen.Fsx.writeRejects c = false := by
  have a1 : ([47] : Bytes).isPrefixOf c = false := by
    rw [← Bool.not_eq_true, List.isPrefixOf_iff_prefix]
    rintro ⟨t, ht⟩
    apply h1
    rw [← ht]; rfl
  have a2 : (c == ([46] : Bytes)) = false := by
    rw [beq_eq_false_iff_ne]; exact h2
  have a3 : (c == ([46, 46] : Bytes)) = false := by
    rw [beq_eq_false_iff_ne]; exact h3
  have a4 : ([46, 46, 47] : Bytes).isPrefixOf c = false := by
    rw [← Bool.not_eq_true, List.isPrefixOf_iff_prefix]; exact h4
  simp [Gen.Fsx.writeRejects, Gen.Fsx.isAbs, a1, a2, a3, a4]

instance rejFacts : FRej where
  sound := by
    intro c h
    refine ⟨?_, ?_, ?_, ?_⟩
    · intro hh
      cases c with
      | nil => simp at hh
      | cons b rest =>
        simp only [List.head?_cons, Option.some.injEq] at hh
        subst hh
        rw [rejects_rooted] at h; cases h
    · intro e; subst e; rw [rejects_dot] at h; cases h
    · intro e; subst e; rw [rejects_dotdot] at h; cases h
    · rintro ⟨t, rfl⟩; rw [rejects_dotdotSlash] at h; cases h
  complete := by
    intro c h
    rcases h with h | h | h
    · cases c with
      | nil => simp at h
      | cons b rest =>
        simp only [List.head?_cons, Option.some.injEq] at h
        subst h
        exact rejects_rooted rest
    · subst h; exact rejects_dotdot
    · obtain ⟨t, rfl⟩ := h; exact rejects_dotdotSlash t
  abs := isAbs_iff
  accepts := rejects_only

/-- OpenFile gets O_CREATE|O_EXCL, and MkdirAll(filepath.Dir(fp)) precedes it; the name is cleaned
before the test and joined with `dir` after it. -/
theorem open_flags : Gen.Fsx.openCreate = true ∧ Gen.Fsx.openExcl = true ∧ Gen.Fsx.mkdirAllBeforeOpen = true ∧
    Gen.Fsx.writeCleansName = true ∧ Gen.Fsx.writeJoinsAfterTest = true := by decide

instance openFacts : FOpen := ⟨open_flags.1, open_flags.2.1, open_flags.2.2.1⟩

/-! ### Clean -/

/-- **clean_normal.** For a path that is not absolute, `c = Clean(p)` is "..", or starts with "../",
or has no ".." element at all; it is never empty, has no empty element (no leading, doubled or
trailing '/'), and has no "." element unless it is "." itself. -/
theorem clean_normal (p : Bytes) (h : Gen.Fsx.isAbs p = false) :
    (cleanPath p = dotdotB ∨ dotdotSlash <+: cleanPath p ∨ dotdotB ∉ splitSep (cleanPath p)) ∧
    cleanPath p ≠ [] ∧ [] ∉ splitSep (cleanPath p) ∧
    (cleanPath p = dotB ∨ dotB ∉ splitSep (cleanPath p)) := by
  have hrel : p.head? ≠ some SEP := by
    intro hh; rw [(isAbs_iff p).mpr hh] at h; cases h
  obtain ⟨k, ns, hns, hsh⟩ := clean_rel_shape p hrel
  rcases hsh with ⟨_, _, hdot⟩ | ⟨hne, hj, hs⟩
  · rw [hdot]
    exact ⟨Or.inr (Or.inr (by decide)), by decide, by decide, Or.inl rfl⟩
  · have hmem : ∀ c ∈ List.replicate k dotdotB ++ ns, c = dotdotB ∨ Normal c := by
      intro c hc
      simp only [List.mem_append, List.mem_replicate] at hc
      rcases hc with ⟨_, rfl⟩ | hc
      · exact Or.inl rfl
      · exact Or.inr (hns c hc)
    refine ⟨?_, ?_, ?_, ?_⟩
    · cases k with
      | zero =>
        right; right
        rw [hs]
        simp only [List.replicate_zero, List.nil_append]
        intro hc
        exact (hns _ hc).2.2.1 rfl
      | succ k =>
        rw [List.replicate_succ, List.cons_append] at hj
        cases hrest : List.replicate k dotdotB ++ ns with
        | nil => rw [hrest] at hj; exact Or.inl hj
        | cons d ds =>
          rw [hrest, joinSep_cons_cons] at hj
          right; left
          rw [hj]
          exact ⟨joinSep (d :: ds), rfl⟩
    · intro he
      rw [he] at hs
      have : splitSep [] = [[]] := rfl
      rw [this] at hs
      have := hmem [] (by rw [← hs]; simp)
      rcases this with h | h
      · cases h
      · exact h.1 rfl
    · rw [hs]
      intro hc
      rcases hmem [] hc with h | h
      · cases h
      · exact h.1 rfl
    · right
      rw [hs]
      intro hc
      rcases hmem dotB hc with h | h
      · cases h
      · exact h.2.1 rfl

example : cleanPath [97, 47, 46, 46, 47, 46, 46, 47, 98] = [46, 46, 47, 98] := by decide   -- "a/../../b" ↦ "../b"
example : cleanPath [97, 47, 46, 46] = dotB ∧ cleanPath [97, 47, 47, 98, 47] = [97, 47, 98] := by decide
example : Gen.Fsx.isAbs [97, 47, 46, 46, 47, 46, 46] = false ∧ cleanPath [97, 47, 46, 46, 47, 46, 46] = dotdotB := by decide

/-! ### Write -/

/-- **write_contained.** Whatever `Write` adds to the file system — in runs that succeed and in runs
that end in an error alike — lies strictly beneath `dir`, except that `dir` itself and its ancestors may
be created *as directories* (by MkdirAll, when they did not exist). No hypothesis on the file system:
`dir` need not exist. -/
theorem write_contained (a : Archive) (dir : Path) (fs : FS) (q : Path) (n : Node)
    (hnew : fs.get q = none) (hafter : (writeArchive a dir fs).2.get q = some n) :
    (dir <+: q ∧ q ≠ dir) ∨ (n = .dir ∧ q <+: dir) :=
  (writeFiles_inside dir fs a.files).2 q n hnew hafter

/-- every regular file that `Write` creates is strictly beneath `dir`. -/
theorem write_contained_files (a : Archive) (dir : Path) (fs : FS) (q : Path) (d : Bytes)
    (hnew : fs.get q = none) (hafter : (writeArchive a dir fs).2.get q = some (.file d)) :
    dir <+: q ∧ q ≠ dir := by
  rcases write_contained a dir fs q _ hnew hafter with h | ⟨h, _⟩
  · exact h
  · cases h

-- an archive whose second entry is rejected: the first file stays, nothing else appears
example :
    writeArchive ⟨[], [⟨[97], [120]⟩, ⟨[46, 46, 47, 97], [121]⟩]⟩ [[112], [100]] [([[112]], .dir)] =
      (some .outside, [([[112], [100], [97]], .file [120]), ([[112], [100], [97]], .file []),
        ([[112], [100]], .dir), ([[112]], .dir)]) := by decide

/-- **write_rejects_escape** (the offending entry). An entry whose name is absolute, or whose clean form
is ".." or starts with "../", makes `Write` return its "outside parent directory" error at that entry
and the entry creates nothing. -/
theorem write_rejects_entry (dir : Path) (fs : FS) (f : File) (h : Escapes f.name) :
    writeOne dir fs f = (some .outside, fs) :=
  writeOne_rejected (escapes_rejected h)

/-- **write_rejects_escape.** If any entry of the archive has such a name, `Write` reports an error
(that entry's, or an earlier one). -/
theorem write_rejects_escape (a : Archive) (dir : Path) (fs : FS)
    (h : ∃ f ∈ a.files, Escapes f.name) : (writeArchive a dir fs).1 ≠ none :=
  writeFiles_escape_error dir fs a.files h

example : Escapes [46, 46] ∧ Escapes [97, 47, 46, 46, 47, 46, 46] ∧ Escapes [47, 97] ∧ Escapes [46, 46, 47] ∧
    ¬ Escapes [46, 46, 97] ∧ ¬ Escapes [97, 47, 46, 46] := by
  unfold Escapes; decide
-- dir and its parent missing: the pre-fix escape ("c/../.." into /a/b/c created the file /a/b) is now an error
example : writeArchive ⟨[], [⟨[99, 47, 46, 46, 47, 46, 46], [104]⟩]⟩ [[97], [98], [99]] [] = (some .outside, []) := by
  decide

/-- **write_no_overwrite.** Everything that existed before `Write` — files with their content, and
directories — is still there unchanged afterwards, whether or not `Write` succeeded. -/
theorem write_no_overwrite (a : Archive) (dir : Path) (fs : FS) (q : Path) (n : Node)
    (h : fs.get q = some n) : (writeArchive a dir fs).2.get q = some n :=
  (writeFiles_inside dir fs a.files).1 q n h

example : (writeArchive ⟨[], [⟨[97], [120]⟩]⟩ [[100]] [([[100]], .dir), ([[100], [97]], .file [111])]) =
    (some .exists, [([[100]], .dir), ([[100], [97]], .file [111])]) := by decide

/-- **write_contents.** When `Write` returns nil, every entry's file — at `Join(dir, Clean(name))` —
holds exactly the entry's data. -/
theorem write_contents (a : Archive) (dir : Path) (fs : FS) (hok : (writeArchive a dir fs).1 = none) :
    ∀ f ∈ a.files, (writeArchive a dir fs).2.get (joinPath dir (cleanPath f.name)) = some (.file f.data) :=
  writeFiles_contents dir fs a.files hok

example : (writeArchive ⟨[], [⟨[97, 47, 46, 46, 47, 98], [120]⟩, ⟨[99, 47, 47, 100], [121]⟩]⟩ [[100]] []).1 = none ∧
    joinPath [[100]] (cleanPath [99, 47, 47, 100]) = [[100], [99], [100]] := by decide

end GIV.C15
