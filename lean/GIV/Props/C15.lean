import GIV.Model.Fsx
namespace GIV.C15
open GIV GIV.Txtar GIV.Fsx

/-- placeholder while the lemma files are being written -/
theorem cleanPath_empty : cleanPath [] = dotB := by rfl

end GIV.C15
