/-
  Property C15 — txtar extraction stays inside its directory and round-trips with txtar-c.

  Model: GIV/Model/Fsx.lean (cleanPath, abstract file system, writeArchive, saveDir, extract).
  The facts regenerated from /repo (GIV/Gen/Fsx.lean) are turned into the hypotheses of the lemma files
  *here* (`rejects_*`, `open_flags`, `savedir_facts`), so a changed rejection test, a dropped O_EXCL, a
  changed dot rule … breaks a named theorem of this file.
-/
import GIV.Lemmas.FsxFS
import GIV.Lemmas.FsxSave
import GIV.Lemmas.FsxCleanBytes
import GIV.Lemmas.FsxMore
import GIV.Lemmas.FilepathGoClean
import GIV.Lemmas.FilepathGoJoin
import GIV.Lemmas.FilepathGoDir

namespace GIV.C15
open GIV GIV.Txtar GIV.Fsx

/-! ### regenerated facts -/

/-- Write's test rejects every cleaned name that starts with '/'. -/
theorem rejects_rooted (rest : Bytes) : Gen.Fsx.writeRejects (SEP :: rest) = true := by
  simp [Gen.Fsx.writeRejects, Gen.Fsx.isAbs, SEP]

/-- Write's test rejects ".". -/
theorem rejects_dot : Gen.Fsx.writeRejects dotB = true := by decide

/-- Write's test rejects "..". -/
theorem rejects_dotdot : Gen.Fsx.writeRejects dotdotB = true := by decide

/-- Write's test rejects everything that starts with "../". -/
theorem rejects_dotdotSlash (rest : Bytes) : Gen.Fsx.writeRejects (dotdotSlash ++ rest) = true := by
  simp [Gen.Fsx.writeRejects, Gen.Fsx.isAbs, dotdotSlash, DOT, SEP]

/-- `isAbs` is "starts with '/'" (Unix). -/
theorem isAbs_iff (p : Bytes) : Gen.Fsx.isAbs p = true ↔ p.head? = some SEP := by
  cases p with
  | nil => simp [Gen.Fsx.isAbs]
  | cons b rest =>
    by_cases hb : (47 : UInt8) = b
    · subst hb; simp [Gen.Fsx.isAbs, SEP]
    · have hb' : ¬ b = SEP := fun e => hb e.symm
      simp [Gen.Fsx.isAbs, hb, hb']

/-- Write's test rejects nothing else. -/
theorem rejects_only (c : Bytes) (h1 : c.head? ≠ some SEP) (h2 : c ≠ dotB) (h3 : c ≠ dotdotB)
    (h4 : ¬ dotdotSlash <+: c) : Gen.Fsx.writeRejects c = false := by
  have a1 : ([47] : Bytes).isPrefixOf c = false := by
    rw [← Bool.not_eq_true, List.isPrefixOf_iff_prefix]
    rintro ⟨t, ht⟩
    apply h1
    rw [← ht]; rfl
  have a2 : (c == ([46] : Bytes)) = false := by
    rw [beq_eq_false_iff_ne]; exact h2
  have a3 : (c == ([46, 46] : Bytes)) = false := by
    rw [beq_eq_false_iff_ne]; exact h3
  have a4 : ([46, 46, 47] : Bytes).isPrefixOf c = false := by
    rw [← Bool.not_eq_true, List.isPrefixOf_iff_prefix]; exact h4
  simp [Gen.Fsx.writeRejects, Gen.Fsx.isAbs, a1, a2, a3, a4]

instance rejFacts : FRej where
  sound := by
    intro c h
    refine ⟨?_, ?_, ?_, ?_⟩
    · intro hh
      cases c with
      | nil => simp at hh
      | cons b rest =>
        simp only [List.head?_cons, Option.some.injEq] at hh
        subst hh
        rw [rejects_rooted] at h; cases h
    · intro e; subst e; rw [rejects_dot] at h; cases h
    · intro e; subst e; rw [rejects_dotdot] at h; cases h
    · rintro ⟨t, rfl⟩; rw [rejects_dotdotSlash] at h; cases h
  complete := by
    intro c h
    rcases h with h | h | h
    · cases c with
      | nil => simp at h
      | cons b rest =>
        simp only [List.head?_cons, Option.some.injEq] at h
        subst h
        exact rejects_rooted rest
    · subst h; exact rejects_dotdot
    · obtain ⟨t, rfl⟩ := h; exact rejects_dotdotSlash t
  abs := isAbs_iff
  accepts := rejects_only

/-- OpenFile gets O_CREATE|O_EXCL, and MkdirAll(filepath.Dir(fp)) precedes it; the name is cleaned
before the test and joined with `dir` after it. -/
theorem open_flags : Gen.Fsx.openCreate = true ∧ Gen.Fsx.openExcl = true ∧ Gen.Fsx.mkdirAllBeforeOpen = true ∧
    Gen.Fsx.writeCleansName = true ∧ Gen.Fsx.writeJoinsAfterTest = true := by decide

instance openFacts : FOpen := ⟨open_flags.1, open_flags.2.1, open_flags.2.2.1⟩

/-! ### Clean -/

/-- **clean_normal.** For a path that is not absolute, `c = Clean(p)` is "..", or starts with "../",
or has no ".." element at all; it is never empty, has no empty element (no leading, doubled or
trailing '/'), and has no "." element unless it is "." itself. -/
theorem clean_normal (p : Bytes) (h : Gen.Fsx.isAbs p = false) :
    (cleanPath p = dotdotB ∨ dotdotSlash <+: cleanPath p ∨ dotdotB ∉ splitSep (cleanPath p)) ∧
    cleanPath p ≠ [] ∧ [] ∉ splitSep (cleanPath p) ∧
    (cleanPath p = dotB ∨ dotB ∉ splitSep (cleanPath p)) := by
  have hrel : p.head? ≠ some SEP := by
    intro hh; rw [(isAbs_iff p).mpr hh] at h; cases h
  obtain ⟨k, ns, hns, hsh⟩ := clean_rel_shape p hrel
  rcases hsh with ⟨_, _, hdot⟩ | ⟨hne, hj, hs⟩
  · rw [hdot]
    exact ⟨Or.inr (Or.inr (by decide)), by decide, by decide, Or.inl rfl⟩
  · have hmem : ∀ c ∈ List.replicate k dotdotB ++ ns, c = dotdotB ∨ Normal c := by
      intro c hc
      simp only [List.mem_append, List.mem_replicate] at hc
      rcases hc with ⟨_, rfl⟩ | hc
      · exact Or.inl rfl
      · exact Or.inr (hns c hc)
    refine ⟨?_, ?_, ?_, ?_⟩
    · cases k with
      | zero =>
        right; right
        rw [hs]
        simp only [List.replicate_zero, List.nil_append]
        intro hc
        exact (hns _ hc).2.2.1 rfl
      | succ k =>
        rw [List.replicate_succ, List.cons_append] at hj
        cases hrest : List.replicate k dotdotB ++ ns with
        | nil => rw [hrest] at hj; exact Or.inl hj
        | cons d ds =>
          rw [hrest, joinSep_cons_cons] at hj
          right; left
          rw [hj]
          exact ⟨joinSep (d :: ds), rfl⟩
    · intro he
      rw [he] at hs
      have : splitSep [] = [[]] := rfl
      rw [this] at hs
      have := hmem [] (by rw [← hs]; simp)
      rcases this with h | h
      · cases h
      · exact h.1 rfl
    · rw [hs]
      intro hc
      rcases hmem [] hc with h | h
      · cases h
      · exact h.1 rfl
    · right
      rw [hs]
      intro hc
      rcases hmem dotB hc with h | h
      · cases h
      · exact h.2.1 rfl

example : cleanPath [97, 47, 46, 46, 47, 46, 46, 47, 98] = [46, 46, 47, 98] := by decide   -- "a/../../b" ↦ "../b"
example : cleanPath [97, 47, 46, 46] = dotB ∧ cleanPath [97, 47, 47, 98, 47] = [97, 47, 98] := by decide
example : Gen.Fsx.isAbs [97, 47, 46, 46, 47, 46, 46] = false ∧ cleanPath [97, 47, 46, 46, 47, 46, 46] = dotdotB := by decide

/-- **clean_byteloop.** The component-stack `cleanPath`, about which the theorems here are stated, is the
same function as `cleanBytes`, the transcription of Go's byte loop (internal/filepathlite.Clean: read
index, output buffer, `dotdot` mark, backtracking to the previous separator) — for every input. -/
theorem clean_byteloop (p : Bytes) : cleanBytes p = cleanPath p := cleanBytes_eq p

example : cleanBytes [47, 97, 47, 46, 46, 47, 46, 46, 47, 98, 47] = [47, 98] ∧
    cleanBytes [46, 46, 47, 46, 46, 47, 97, 47, 46, 46] = [46, 46, 47, 46, 46] := by decide

/-! ### Write -/

/-- **write_contained.** Whatever `Write` adds to the file system — in runs that succeed and in runs
that end in an error alike — lies strictly beneath `dir`, except that `dir` itself and its ancestors may
be created *as directories* (by MkdirAll, when they did not exist). No hypothesis on the file system:
`dir` need not exist. -/
theorem write_contained (a : Archive) (dir : Path) (fs : FS) (q : Path) (n : Node)
    (hnew : fs.get q = none) (hafter : (writeArchive a dir fs).2.get q = some n) :
    (dir <+: q ∧ q ≠ dir) ∨ (n = .dir ∧ q <+: dir) :=
  (writeFiles_inside dir fs a.files).2 q n hnew hafter

/-- every regular file that `Write` creates is strictly beneath `dir`. -/
theorem write_contained_files (a : Archive) (dir : Path) (fs : FS) (q : Path) (d : Bytes)
    (hnew : fs.get q = none) (hafter : (writeArchive a dir fs).2.get q = some (.file d)) :
    dir <+: q ∧ q ≠ dir := by
  rcases write_contained a dir fs q _ hnew hafter with h | ⟨h, _⟩
  · exact h
  · cases h

/-- the same on path strings: a created regular file's absolute path starts with `dir + "/"`. -/
theorem write_contained_str (a : Archive) (dir : Path) (fs : FS) (q : Path) (d : Bytes) (hd : dir ≠ [])
    (hnew : fs.get q = none) (hafter : (writeArchive a dir fs).2.get q = some (.file d)) :
    pathStr dir ++ [SEP] <+: pathStr q := by
  obtain ⟨h1, h2⟩ := write_contained_files a dir fs q d hnew hafter
  exact pathStr_prefix_of_beneath h1 h2 hd

/-- the model's `joinPath` is `filepath.Join(dir, fp)`, i.e. `Clean(dir + "/" + fp)`, for a normalised
absolute `dir`. -/
theorem join_is_clean (dir : Path) (hd : ∀ c ∈ dir, Normal c) (fp : Bytes) :
    cleanPath (pathStr dir ++ SEP :: fp) = pathStr (joinPath dir fp) :=
  joinPath_eq_clean hd fp

example : pathStr [[112], [100]] = [47, 112, 47, 100] ∧ joinPath [[112], [100]] [46, 46, 47, 120] = [[112], [120]] := by
  decide

-- an archive whose second entry is rejected: the first file stays, nothing else appears
example :
    writeArchive ⟨[], [⟨[97], [120]⟩, ⟨[46, 46, 47, 97], [121]⟩]⟩ [[112], [100]] [([[112]], .dir)] =
      (some .outside, [([[112], [100], [97]], .file [120]), ([[112], [100], [97]], .file []),
        ([[112], [100]], .dir), ([[112]], .dir)]) := by decide

/-- **write_rejects_escape** (the offending entry). An entry whose name is absolute, or whose clean form
is ".." or starts with "../", makes `Write` return its "outside parent directory" error at that entry
and the entry creates nothing. -/
theorem write_rejects_entry (dir : Path) (fs : FS) (f : File) (h : Escapes f.name) :
    writeOne dir fs f = (some .outside, fs) :=
  writeOne_rejected (escapes_rejected h)

/-- **write_rejects_escape.** If any entry of the archive has such a name, `Write` reports an error
(that entry's, or an earlier one). -/
theorem write_rejects_escape (a : Archive) (dir : Path) (fs : FS)
    (h : ∃ f ∈ a.files, Escapes f.name) : (writeArchive a dir fs).1 ≠ none :=
  writeFiles_escape_error dir fs a.files h

/-- "climbs out", stated without Clean: the name is absolute, or following its '/'-separated elements one
by one (empty and "." stay, ".." goes up, anything else goes down) steps above the starting directory
at some point. This is exactly when `Write`'s test fires. -/
theorem escapes_iff_climbs (name : Bytes) :
    Escapes name ↔ (Gen.Fsx.isAbs name = true ∨ climbsOut name = true) := by
  unfold Escapes
  by_cases ha : Gen.Fsx.isAbs name = true
  · simp [ha]
  · have hrel : name.head? ≠ some SEP := fun hh => ha ((isAbs_iff name).mpr hh)
    rw [← clean_climbs_iff name hrel]

/-- **write_rejects_escape**, in terms of the name itself: an archive with an entry whose name is
absolute or climbs out through ".." makes `Write` return an error; the offending entry creates nothing. -/
theorem write_rejects_climbing (a : Archive) (dir : Path) (fs : FS)
    (h : ∃ f ∈ a.files, Gen.Fsx.isAbs f.name = true ∨ climbsOut f.name = true) :
    (writeArchive a dir fs).1 ≠ none ∧
    ∀ f, (Gen.Fsx.isAbs f.name = true ∨ climbsOut f.name = true) → ∀ fs0, writeOne dir fs0 f = (some .outside, fs0) := by
  refine ⟨?_, ?_⟩
  · obtain ⟨f, hf, hc⟩ := h
    exact write_rejects_escape a dir fs ⟨f, hf, (escapes_iff_climbs f.name).mpr hc⟩
  · intro f hc fs0
    exact write_rejects_entry dir fs0 f ((escapes_iff_climbs f.name).mpr hc)

-- "a/../../a" returns to a sibling named like the start but has been outside; "a/b/../.." has not
example : climbsOut [97, 47, 46, 46, 47, 46, 46, 47, 97] = true ∧ climbsOut [97, 47, 98, 47, 46, 46, 47, 46, 46] = false ∧
    climbsOut [46, 46] = true ∧ climbsOut [] = false ∧ climbsOut [46, 46, 97] = false := by decide

example : Escapes [46, 46] ∧ Escapes [97, 47, 46, 46, 47, 46, 46] ∧ Escapes [47, 97] ∧ Escapes [46, 46, 47] ∧
    ¬ Escapes [46, 46, 97] ∧ ¬ Escapes [97, 47, 46, 46] := by
  unfold Escapes; decide
-- dir and its parent missing: the pre-fix escape ("c/../.." into /a/b/c created the file /a/b) is now an error
example : writeArchive ⟨[], [⟨[99, 47, 46, 46, 47, 46, 46], [104]⟩]⟩ [[97], [98], [99]] [] = (some .outside, []) := by
  decide

/-- **write_no_overwrite.** Everything that existed before `Write` — files with their content, and
directories — is still there unchanged afterwards, whether or not `Write` succeeded. -/
theorem write_no_overwrite (a : Archive) (dir : Path) (fs : FS) (q : Path) (n : Node)
    (h : fs.get q = some n) : (writeArchive a dir fs).2.get q = some n :=
  (writeFiles_inside dir fs a.files).1 q n h

example : (writeArchive ⟨[], [⟨[97], [120]⟩]⟩ [[100]] [([[100]], .dir), ([[100], [97]], .file [111])]) =
    (some .exists, [([[100]], .dir), ([[100], [97]], .file [111])]) := by decide

/-- **write_contents.** When `Write` returns nil, every entry's file — at `Join(dir, Clean(name))` —
holds exactly the entry's data. -/
theorem write_contents (a : Archive) (dir : Path) (fs : FS) (hok : (writeArchive a dir fs).1 = none) :
    ∀ f ∈ a.files, (writeArchive a dir fs).2.get (joinPath dir (cleanPath f.name)) = some (.file f.data) :=
  writeFiles_contents dir fs a.files hok

example : (writeArchive ⟨[], [⟨[97, 47, 46, 46, 47, 98], [120]⟩, ⟨[99, 47, 47, 100], [121]⟩]⟩ [[100]] []).1 = none ∧
    joinPath [[100]] (cleanPath [99, 47, 47, 100]) = [[100], [99], [100]] := by decide

/-- the abstract file system stays a tree under `Write` (every entry's parent is a directory, so a
regular file never has anything beneath it) — a sanity property of the model the theorems above speak about. -/
theorem write_keeps_tree (a : Archive) (dir : Path) (fs : FS) (h : TreeFS fs) :
    TreeFS (writeArchive a dir fs).2 :=
  treeFS_writeFiles h dir a.files

example : TreeFS [] := by
  intro q n hq h
  simp [FS.get, hq, lookupP] at h

/-- the same for the txtar-x command (Parse, then Write), on any input text: what it creates lies beneath
`dir` (directories on the way to `dir` excepted), nothing that existed changes, and a parsed entry that is
absolute or climbs out makes it fail. -/
theorem extract_contained (data : Bytes) (dir : Path) (fs : FS) (r : Option Err × FS)
    (h : extract data dir fs = some r) :
    (∀ q n, fs.get q = none → r.2.get q = some n → (dir <+: q ∧ q ≠ dir) ∨ (n = .dir ∧ q <+: dir)) ∧
    (∀ q n, fs.get q = some n → r.2.get q = some n) ∧
    (∀ a, parse data = some a → (∃ f ∈ a.files, Gen.Fsx.isAbs f.name = true ∨ climbsOut f.name = true) → r.1 ≠ none) := by
  unfold extract at h
  cases hp : parse data with
  | none => rw [hp] at h; cases h
  | some a =>
    rw [hp] at h
    simp only [Option.map_some, Option.some.injEq] at h
    subst h
    refine ⟨fun q n h1 h2 => write_contained a dir fs q n h1 h2, fun q n h1 => write_no_overwrite a dir fs q n h1, ?_⟩
    intro a' ha' hesc
    injection ha' with ha'
    subst ha'
    exact (write_rejects_climbing a dir fs hesc).1

-- "-- ../x --\nhi\n" extracted into the missing directory /a/b: error, nothing created
example : extract [45, 45, 32, 46, 46, 47, 120, 32, 45, 45, 10, 104, 105, 10] [[97], [98]] [] = some (some .outside, []) := by
  decide +kernel

/-! ### txtar-c, then txtar-x -/

/-- the shape of txtar-c's Walk callback and of txtar-x, as regenerated from the source: the dot rule
(`strings.HasPrefix(name, ".") && !*allFlag`, SkipDir for directories), non-regular files and invalid UTF-8
skipped, the final newline added, the NeedsQuote/Quote branch with its `unquote ` comment line, all in
this order; txtar-x writes the parsed archive and never unquotes. -/
theorem savedir_facts :
    (∀ (name : Bytes) (all : Bool), Gen.Fsx.dotSkip name all = (([DOT] : Bytes).isPrefixOf name && !all)) ∧
    Gen.Fsx.dotSkipsDir = true ∧ Gen.Fsx.skipsNonRegular = true ∧ Gen.Fsx.skipsInvalidUTF8 = true ∧
    Gen.Fsx.addsFinalNewline = true ∧ Gen.Fsx.quoteBranch = true ∧
    Gen.Fsx.unquotePrefix = [117, 110, 113, 117, 111, 116, 101, 32] ∧
    Gen.Fsx.callbackOrder = true ∧ Gen.Fsx.extractUnquotes = false :=
  ⟨fun _ _ => rfl, rfl, rfl, rfl, rfl, rfl, rfl, rfl, rfl⟩

instance saveFacts : FSave :=
  ⟨savedir_facts.1, savedir_facts.2.1, savedir_facts.2.2.1, savedir_facts.2.2.2.1, savedir_facts.2.2.2.2.1,
   savedir_facts.2.2.2.2.2.1, savedir_facts.2.2.2.2.2.2.1⟩

/-- the txtar facts the round trip relies on (marker literals, isMarker's length guard and CR handling,
NeedsQuote's return expression), regenerated by the txtar group's factgen. -/
theorem txtar_facts :
    Gen.Txtar.lenGuard = true ∧ Gen.Txtar.crAtEOF = true ∧ Gen.Txtar.marker = [45, 45, 32] ∧
    Gen.Txtar.markerEnd = [32, 45, 45] ∧ Gen.Txtar.needsQuoteTestsName = true := ⟨rfl, rfl, rfl, rfl, rfl⟩

instance : FLen := ⟨txtar_facts.1⟩
instance : FCR := ⟨txtar_facts.2.1⟩
instance : FLit := ⟨txtar_facts.2.2.1, txtar_facts.2.2.2.1⟩
instance : FNQ := ⟨txtar_facts.2.2.2.2⟩

/-- **TreeOK** (decidable, `Forest.okb`): every entry name is an ordinary path element (non-empty, not "."
or "..", no '/'), names within a directory are distinct, and the relative path of every regular file that
txtar-c archives under the given flags (not below a skipped dot entry, `stored o d ≠ none`) is a name txtar
can carry (non-empty, equal to its TrimSpace, no newline). -/
def TreeOK (o : SaveOpts) (t : Forest) : Prop := t.okb o [] = true

instance (o : SaveOpts) (t : Forest) : Decidable (TreeOK o t) := by unfold TreeOK; exact inferInstance

/-- an empty file system is a clear target for any `dir` (which txtar-x then creates). -/
theorem clear_nil (dir : Path) : Clear dir [] := by
  refine ⟨?_, ?_⟩
  · intro q _ d h
    by_cases hq : q = []
    · subst hq; simp [FS.get] at h
    · simp [FS.get, hq, lookupP] at h
  · intro q _ _
    by_cases hq : q = []
    · subst hq
      rename_i h1 h2
      exact absurd (List.prefix_nil.mp h1).symm h2
    · simp [FS.get, hq, lookupP]

/-- **savedir_extract_roundtrip.**  For every tree satisfying `TreeOK`, every flag setting of txtar-c, and
every target `dir` with nothing in the way (`Clear`: no ancestor of `dir` is a regular file, nothing exists
beneath `dir`; `dir` itself may be missing): txtar-c's output `format a` is a well-formed archive that parses
back to `a`; txtar-x extracts it without error; every regular file of the tree that is archivable
(no dot-prefixed element on its path unless `-a`; `stored o d = some (x, q)`: valid UTF-8, and no marker line
in it unless `-quote`) is afterwards at the same relative path beneath `dir` with content `x`
(`write` side: exactly the stored bytes; `stored_restores`: `x` is the content with its final newline, or
`Unquote x` is) and, when it was quoted, the comment carries the line `unquote <path>`; and every regular
file that appeared anywhere is one of these.  txtar-x itself never unquotes (`savedir_facts`). -/
theorem savedir_extract_roundtrip (o : SaveOpts) (t : Forest) (dir : Path) (fs : FS)
    (hok : TreeOK o t) (hclear : Clear dir fs) :
    ∃ (a : Archive) (fs' : FS),
      saveDir o t = some a ∧ WF a ∧ parse (format a) = some a ∧
      extract (format a) dir fs = some (none, fs') ∧
      (∀ c cs d x q, t.find c cs = some (.file d) → NoDot o (c :: cs) → stored o d = some (x, q) →
        fs'.get (dir ++ c :: cs) = some (.file x) ∧
        (q = true → Gen.Fsx.unquotePrefix ++ joinSep (c :: cs) ++ [NL] <:+: a.comment)) ∧
      (∀ p x, fs.get p = none → fs'.get p = some (.file x) →
        ∃ c cs d q, p = dir ++ c :: cs ∧ t.find c cs = some (.file d) ∧ NoDot o (c :: cs) ∧
          stored o d = some (x, q)) :=
  roundtrip o t dir fs hok hclear

/-- what comes back is the original content with the final newline txtar requires, or — for a file
that went through Quote — something `Unquote` maps to exactly that. -/
theorem stored_restores (o : SaveOpts) (d x : Bytes) (q : Bool) (h : stored o d = some (x, q)) :
    (q = false ∧ x = fixNL d) ∨ (q = true ∧ unquote x = .ok (fixNL d)) :=
  Fsx.stored_restores h

/-- **which files are archived and in what form** (`stored`), in the statement's terms: invalid UTF-8 is
dropped; content without a marker line is stored with its final newline; content with a marker line is
dropped without `-quote` and, with `-quote`, stored as `Quote(content + final newline)` — which cannot
fail at that point — and `Unquote` restores it. -/
theorem stored_spec (o : SaveOpts) (d : Bytes) :
    (utf8Valid d = false → stored o d = none) ∧
    (utf8Valid d = true → ¬ HasMarkerLine (fixNL d) → stored o d = some (fixNL d, false)) ∧
    (utf8Valid d = true → HasMarkerLine (fixNL d) → o.quote = false → stored o d = none) ∧
    (utf8Valid d = true → HasMarkerLine (fixNL d) → o.quote = true →
      ∃ x, stored o d = some (x, true) ∧ quote (fixNL d) = .ok x ∧ unquote x = .ok (fixNL d)) := by
  refine ⟨fun h => (stored_none_iff o d).mpr (Or.inl h), fun hu hm => stored_plain hu hm,
    fun _ hm hq => (stored_none_iff o d).mpr (Or.inr ⟨hm, hq⟩), ?_⟩
  intro hu hm hq
  obtain ⟨x, h1, h2⟩ := stored_quoted hu hm hq
  exact ⟨x, h1, h2, unquote_quote h2⟩

/-- the example tree:  a = "-- x --\n" (needs quoting),  sub/"b c" = "hi" (no final newline),  .h = "h\n". -/
def exTree : Forest :=
  .cons [46, 104] (.file [104, 10]) <|
  .cons [97] (.file [45, 45, 32, 120, 32, 45, 45, 10]) <|
  .cons [115, 117, 98] (.dir (.cons [98, 32, 99] (.file [104, 105]) .nil)) .nil

example : TreeOK ⟨false, true⟩ exTree ∧ TreeOK ⟨true, false⟩ exTree := by decide +kernel
-- a file whose name ends in a blank is not representable … unless txtar-c skips it anyway (here: dot directory without -a)
example : ¬ TreeOK ⟨true, true⟩ (.cons [46, 100] (.dir (.cons [120, 32] (.file [104, 10]) .nil)) .nil) ∧
    TreeOK ⟨false, true⟩ (.cons [46, 100] (.dir (.cons [120, 32] (.file [104, 10]) .nil)) .nil) := by decide +kernel
example : stored ⟨false, true⟩ [45, 45, 32, 120, 32, 45, 45, 10] = some ([62, 45, 45, 32, 120, 32, 45, 45, 10], true) ∧
    stored ⟨false, false⟩ [45, 45, 32, 120, 32, 45, 45, 10] = none ∧
    stored ⟨false, false⟩ [104, 105] = some ([104, 105, 10], false) ∧ stored ⟨true, true⟩ [255] = none := by
  decide +kernel
example : exTree.find [115, 117, 98] [[98, 32, 99]] = some (.file [104, 105]) := by
  simp [exTree, Forest.find, Tree.find]
example : NoDot ⟨false, true⟩ [[115, 117, 98], [98, 32, 99]] ∧ ¬ NoDot ⟨false, true⟩ [[46, 104]] := by
  unfold NoDot; decide +kernel
-- the whole pipeline on the example, with -quote, into the missing directory /o
example : (saveDirBytes ⟨false, true⟩ exTree).bind (fun b => extract b [[111]] []) =
    some (none, [([[111], [115, 117, 98], [98, 32, 99]], .file [104, 105, 10]),
                 ([[111], [115, 117, 98], [98, 32, 99]], .file []),
                 ([[111], [115, 117, 98]], .dir),
                 ([[111], [97]], .file [62, 45, 45, 32, 120, 32, 45, 45, 10]),
                 ([[111], [97]], .file []),
                 ([[111]], .dir)]) := by decide +kernel

/-! ### failing runs, duplicates, skipped files -/

/-- **write_changes_beneath.** Every path at which the file system differs after `Write` — successful or not,
for every archive (names with "..", empty elements, ".", absolute names included) and every pre-existing tree —
did not exist before and lies strictly beneath `dir`, or is `dir` / an ancestor of `dir` created as a directory. -/
theorem write_changes_beneath (a : Archive) (dir : Path) (fs : FS) (q : Path)
    (hdiff : (writeArchive a dir fs).2.get q ≠ fs.get q) :
    fs.get q = none ∧ ∃ n, (writeArchive a dir fs).2.get q = some n ∧
      ((dir <+: q ∧ q ≠ dir) ∨ (n = .dir ∧ q <+: dir)) := by
  cases hq : fs.get q with
  | some n => exact absurd ((write_no_overwrite a dir fs q n hq).trans hq.symm) hdiff
  | none =>
    refine ⟨rfl, ?_⟩
    cases ha : (writeArchive a dir fs).2.get q with
    | none => rw [ha, hq] at hdiff; exact absurd rfl hdiff
    | some n => exact ⟨n, rfl, write_contained a dir fs q n hq ha⟩

example : (writeArchive ⟨[], [⟨[97, 47, 46, 47, 47, 98], [120]⟩]⟩ [[100]] []).2.get [[100], [97], [98]] ≠
    FS.get [] [[100], [97], [98]] := by decide

/-- **write_fail_prefix.** When `Write` returns an error `e`, the archive's entries split as `pre ++ f :: post`:
all of `pre` were written without error, `f`'s own step returned `e`, and the state `Write` leaves is the state
that step leaves.  In that state every entry of `pre` is in place with exactly its data; every regular file that was
not there before is the file of an entry of `pre` (so neither the failing entry nor any entry after it created a
file; the failing entry can only have added directories on the way to its target); and everything that existed
before is unchanged. -/
theorem write_fail_prefix (a : Archive) (dir : Path) (fs : FS) (e : Err) (h : (writeArchive a dir fs).1 = some e) :
    ∃ pre f post, a.files = pre ++ f :: post ∧ (writeFiles dir fs pre).1 = none ∧
      writeOne dir (writeFiles dir fs pre).2 f = (some e, (writeArchive a dir fs).2) ∧
      (∀ g ∈ pre, (writeArchive a dir fs).2.get (joinPath dir (cleanPath g.name)) = some (.file g.data)) ∧
      (∀ q d, fs.get q = none → (writeArchive a dir fs).2.get q = some (.file d) →
        ∃ g ∈ pre, q = joinPath dir (cleanPath g.name) ∧ d = g.data) ∧
      (∀ q n, fs.get q = some n → (writeArchive a dir fs).2.get q = some n) := by
  obtain ⟨pre, f, post, hsplit, hpre, hone⟩ := writeFiles_fail_split dir fs a.files e h
  have hfail : (writeOne dir (writeFiles dir fs pre).2 f).1 = some e := by rw [hone]
  have hstep := writeOne_fail_dirs dir (writeFiles dir fs pre).2 f e hfail
  have hsnd : (writeOne dir (writeFiles dir fs pre).2 f).2 = (writeArchive a dir fs).2 := by rw [hone]; rfl
  rw [hsnd] at hstep
  refine ⟨pre, f, post, hsplit, hpre, hone, ?_, ?_, fun q n hq => write_no_overwrite a dir fs q n hq⟩
  · intro g hg
    exact hstep.1 _ _ (writeFiles_contents dir fs pre hpre g hg)
  · intro q d hq hafter
    have hnew := writeFiles_new dir fs pre
    cases hp : (writeFiles dir fs pre).2.get q with
    | none =>
      have := (hstep.2 q _ hp hafter).1
      cases this
    | some m =>
      have hm := hstep.1 q m hp
      rw [hafter] at hm
      cases hm
      rcases hnew.2 q _ hq hp with hd | ⟨g, hg, hqe, hde⟩
      · cases hd
      · exact ⟨g, hg, hqe, by cases hde; rfl⟩

-- "a" written, "b" collides with an existing file: error EEXIST, "a" is in place, "c" was never tried
example : writeArchive ⟨[], [⟨[97], [120]⟩, ⟨[98], [121]⟩, ⟨[99], [122]⟩]⟩ [[100]] [([[100]], .dir), ([[100], [98]], .file [111])] =
    (some .exists, [([[100], [97]], .file [120]), ([[100], [97]], .file []), ([[100]], .dir), ([[100], [98]], .file [111])]) := by
  decide

/-- **write_escape_stops.** The error for an escaping name is reported before anything of that entry is created:
if the entries before it were written without error, `Write` returns "outside parent directory" and the file
system is exactly the one the preceding entries left — for every name that is absolute or climbs out through "..". -/
theorem write_escape_stops (comment : Bytes) (pre post : List File) (f : File) (dir : Path) (fs : FS)
    (hesc : Gen.Fsx.isAbs f.name = true ∨ climbsOut f.name = true) (hpre : (writeFiles dir fs pre).1 = none) :
    writeArchive ⟨comment, pre ++ f :: post⟩ dir fs = (some .outside, (writeFiles dir fs pre).2) := by
  show writeFiles dir fs (pre ++ f :: post) = _
  rw [writeFiles_append_ok _ hpre]
  exact writeFiles_cons_fail post (write_rejects_entry dir _ f ((escapes_iff_climbs f.name).mpr hesc))

example : writeArchive ⟨[], [⟨[97], [120]⟩, ⟨[98, 47, 46, 46, 47, 46, 46, 47, 99], [121]⟩, ⟨[99], [122]⟩]⟩ [[100]] [] =
    (some .outside, (writeFiles [[100]] [] [⟨[97], [120]⟩]).2) :=
  write_escape_stops [] [⟨[97], [120]⟩] [⟨[99], [122]⟩] ⟨[98, 47, 46, 46, 47, 46, 46, 47, 99], [121]⟩ [[100]] []
    (Or.inr (by decide)) (by decide)

/-- **write_duplicate.** Two entries whose names clean to the same path (`a/b`, `a//b`, `./a/x/../b`, …): if `Write`
gets past the first one and everything between them, the second occurrence fails with EEXIST ("file exists"),
`Write` returns that error leaving the file system as it was at that point, and the file holds the FIRST entry's
data. -/
theorem write_duplicate (comment : Bytes) (pre mid post : List File) (f1 f2 : File) (dir : Path) (fs : FS)
    (hsame : cleanPath f1.name = cleanPath f2.name)
    (hok : (writeFiles dir fs (pre ++ f1 :: mid)).1 = none) :
    writeArchive ⟨comment, (pre ++ f1 :: mid) ++ f2 :: post⟩ dir fs =
      (some .exists, (writeFiles dir fs (pre ++ f1 :: mid)).2) ∧
    (writeFiles dir fs (pre ++ f1 :: mid)).2.get (joinPath dir (cleanPath f1.name)) = some (.file f1.data) :=
  writeFiles_duplicate dir fs pre mid post f1 f2 hsame hok

-- "a/b" = [1], then "c", then "a//./b" = [2]
example : (writeArchive ⟨[], [⟨[97, 47, 98], [49]⟩, ⟨[99], [51]⟩, ⟨[97, 47, 47, 46, 47, 98], [50]⟩]⟩ [[100]] []).1 = some .exists ∧
    (writeArchive ⟨[], [⟨[97, 47, 98], [49]⟩, ⟨[99], [51]⟩, ⟨[97, 47, 47, 46, 47, 98], [50]⟩]⟩ [[100]] []).2.get [[100], [97], [98]] =
      some (.file [49]) := by
  have h := write_duplicate [] [] [⟨[99], [51]⟩] [] ⟨[97, 47, 98], [49]⟩ ⟨[97, 47, 47, 46, 47, 98], [50]⟩ [[100]] []
    (by decide) (by decide)
  refine ⟨by rw [show ([⟨[97, 47, 98], [49]⟩, ⟨[99], [51]⟩, ⟨[97, 47, 47, 46, 47, 98], [50]⟩] : List File) =
      (([] : List File) ++ ⟨[97, 47, 98], [49]⟩ :: [⟨[99], [51]⟩]) ++ ⟨[97, 47, 47, 46, 47, 98], [50]⟩ :: [] from rfl, h.1], ?_⟩
  rw [show ([⟨[97, 47, 98], [49]⟩, ⟨[99], [51]⟩, ⟨[97, 47, 47, 46, 47, 98], [50]⟩] : List File) =
      (([] : List File) ++ ⟨[97, 47, 98], [49]⟩ :: [⟨[99], [51]⟩]) ++ ⟨[97, 47, 47, 46, 47, 98], [50]⟩ :: [] from rfl, h.1]
  exact h.2

/-- the dot rule in the statement's terms: a path is archived iff `-a` is given or none of its elements starts with '.'. -/
theorem noDot_iff (o : SaveOpts) (p : List Bytes) :
    NoDot o p ↔ (o.all = true ∨ ∀ c ∈ p, ¬ ([DOT] : Bytes) <+: c) := by
  unfold NoDot
  simp only [savedir_facts.1, Bool.and_eq_false_iff, Bool.not_eq_false']
  constructor
  · intro h
    by_cases ha : o.all = true
    · exact Or.inl ha
    · right
      intro c hc hpre
      rcases h c hc with h1 | h1
      · rw [← Bool.not_eq_true, List.isPrefixOf_iff_prefix] at h1; exact h1 hpre
      · exact ha h1
  · rintro (ha | h) c hc
    · exact Or.inr ha
    · left
      rw [← Bool.not_eq_true, List.isPrefixOf_iff_prefix]
      exact h c hc

/-- **roundtrip_cases.**  The txtar-c → txtar-x round trip, case by case, for every `TreeOK` tree, both flags
and every clear target: (1) a file that txtar-c does not archive — dot-prefixed element on its path without `-a`,
invalid UTF-8, or a marker look-alike line without `-quote` — is not created by txtar-x, and this does not disturb
the others; (2) every other valid-UTF-8 file without a marker line comes back at its path with exactly its content
plus the final newline; (3) a marker look-alike file under `-quote` comes back as a file that `Unquote` maps to its
content plus the final newline, and the archive comment names it in an `unquote <path>` line. -/
theorem roundtrip_cases (o : SaveOpts) (t : Forest) (dir : Path) (fs : FS)
    (hok : TreeOK o t) (hclear : Clear dir fs) :
    ∃ (a : Archive) (fs' : FS),
      saveDir o t = some a ∧ extract (format a) dir fs = some (none, fs') ∧
      (∀ c cs d, t.find c cs = some (.file d) →
        (¬ NoDot o (c :: cs) ∨ utf8Valid d = false ∨ (HasMarkerLine (fixNL d) ∧ o.quote = false)) →
        ∀ x, fs'.get (dir ++ c :: cs) ≠ some (.file x)) ∧
      (∀ c cs d, t.find c cs = some (.file d) → NoDot o (c :: cs) → utf8Valid d = true → ¬ HasMarkerLine (fixNL d) →
        fs'.get (dir ++ c :: cs) = some (.file (fixNL d))) ∧
      (∀ c cs d, t.find c cs = some (.file d) → NoDot o (c :: cs) → utf8Valid d = true → HasMarkerLine (fixNL d) →
        o.quote = true →
        ∃ x, fs'.get (dir ++ c :: cs) = some (.file x) ∧ unquote x = .ok (fixNL d) ∧
          Gen.Fsx.unquotePrefix ++ joinSep (c :: cs) ++ [NL] <:+: a.comment) := by
  obtain ⟨a, fs', hs, _, _, hx, hfwd, hback⟩ := savedir_extract_roundtrip o t dir fs hok hclear
  refine ⟨a, fs', hs, hx, ?_, ?_, ?_⟩
  · intro c cs d hfind hskip x hget
    have hnone : fs.get (dir ++ c :: cs) = none :=
      hclear.2 _ (List.prefix_append _ _) (by
        intro he
        have := congrArg List.length he
        simp at this)
    obtain ⟨c', cs', d', q, hp, hfind', hnd, hst⟩ := hback _ x hnone hget
    have hp' := List.append_cancel_left hp
    simp only [List.cons.injEq] at hp'
    obtain ⟨hc, hcs⟩ := hp'
    subst hc hcs
    rw [hfind] at hfind'
    simp only [Option.some.injEq, Tree.file.injEq] at hfind'
    subst hfind'
    rcases hskip with h | h | ⟨h1, h2⟩
    · exact h hnd
    · rw [(stored_spec o d).1 h] at hst; cases hst
    · by_cases hu : utf8Valid d = true
      · rw [(stored_spec o d).2.2.1 hu h1 h2] at hst; cases hst
      · rw [(stored_spec o d).1 (by simpa using hu)] at hst; cases hst
  · intro c cs d hfind hnd hu hm
    exact (hfwd c cs d _ _ hfind hnd ((stored_spec o d).2.1 hu hm)).1
  · intro c cs d hfind hnd hu hm hq
    obtain ⟨x, hst, _, hun⟩ := (stored_spec o d).2.2.2 hu hm hq
    obtain ⟨h1, h2⟩ := hfwd c cs d x true hfind hnd hst
    exact ⟨x, h1, hun, h2 rfl⟩

-- the example tree: without -a and without -quote the dot file and the marker look-alike are both skipped
example : exTree.find [46, 104] [] = some (.file [104, 10]) ∧ ¬ NoDot ⟨false, false⟩ [[46, 104]] ∧
    exTree.find [97] [] = some (.file [45, 45, 32, 120, 32, 45, 45, 10]) ∧
    HasMarkerLine (fixNL [45, 45, 32, 120, 32, 45, 45, 10]) ∧ TreeOK ⟨false, false⟩ exTree := by
  refine ⟨by simp [exTree, Forest.find, Tree.find], by unfold NoDot; decide +kernel,
    by simp [exTree, Forest.find, Tree.find], by decide +kernel, by decide +kernel⟩

/-! ### filepath.Clean and isAbs, translated from source

`GIV.Go.Filepath.*` (GIV/Gen/FilepathGo.lean) is the translation of the toolchain's internal/filepathlite
(path.go, path_unix.go, path_nonwindows.go: `Clean`, the `lazybuf` methods, `IsPathSeparator`, `IsAbs`,
`volumeNameLen`, `FromSlash`), `GIV.Go.TxtarWrite.isAbs` (GIV/Gen/TxtarAbsGo.lean) that of /repo's txtar/archive.go
`isAbs`; both are regenerated on every run. `none` = a Go panic or an exhausted loop budget. -/

/-- **go_Clean_agrees.** The translated filepath.Clean computes `cleanPath` — the function every theorem above
is about — for every string. -/
theorem go_Clean_agrees (p : Bytes) : GIV.Go.Filepath.Clean p = some (cleanPath p) :=
  GIV.FilepathGo.Clean_eq_path p

/-- the same against the model's transcription of the byte loop (`cleanBytes`), which the translated loop follows
step by step (lazy buffer against plain buffer). -/
theorem go_Clean_byteloop (p : Bytes) : GIV.Go.Filepath.Clean p = some (cleanBytes p) :=
  GIV.FilepathGo.Clean_eq p

/-- **go_Clean_total.** The translated Clean never panics and every translated loop ends within its budget:
`path[r+1]`, `path[r+2]`, `b.path[b.w]`, `b.path[:b.w]`, `b.buf[b.w] = c`, `b.buf[i]`, `make`, and the slices of
`lazybuf.string` are all in range, for every input. -/
theorem go_Clean_total (p : Bytes) : (GIV.Go.Filepath.Clean p).isSome = true := by
  rw [go_Clean_agrees]; rfl

example : GIV.Go.Filepath.Clean [97, 47, 46, 46, 47, 46, 46, 47, 98] = some [46, 46, 47, 98] := by decide +kernel  -- "a/../../b"
example : GIV.Go.Filepath.Clean [97, 47, 47, 98, 47, 46, 47, 99, 47, 46, 46] = some [97, 47, 98] := by decide +kernel  -- "a//b/./c/.."
example : GIV.Go.Filepath.Clean [] = some [46] ∧ GIV.Go.Filepath.Clean [47] = some [47] := by decide +kernel  -- "", "/"
example : GIV.Go.Filepath.Clean [46, 46, 47, 120] = some [46, 46, 47, 120] := by decide +kernel  -- "../x"
example : GIV.Go.Filepath.Clean [97, 47, 98, 47, 46, 46, 47, 46, 46, 47, 46, 46] = some [46, 46] := by decide +kernel  -- "a/b/../../.."
example : GIV.Go.Filepath.Clean [47, 46, 46, 47, 97, 47, 47] = some [47, 97] := by decide +kernel  -- "/../a//"
example : (GIV.Go.Filepath.Clean [46, 46, 47, 46, 46, 47, 97, 47, 46, 46]).isSome = true := go_Clean_total _

/-- **go_isAbs_agrees.** The translated `isAbs` of txtar/archive.go, and the library's filepath.IsAbs it calls, are
the regenerated `Gen.Fsx.isAbs` (the test the model's `writeOne` uses through `writeRejects`): "starts with '/'". -/
theorem go_isAbs_agrees (p : Bytes) :
    GIV.Go.TxtarWrite.isAbs p = some (Gen.Fsx.isAbs p) ∧ GIV.Go.Filepath.IsAbs p = some (Gen.Fsx.isAbs p) := by
  have h : decide (p.head? = some SEP) = Gen.Fsx.isAbs p := by
    by_cases hh : p.head? = some SEP
    · rw [decide_eq_true hh, (isAbs_iff p).mpr hh]
    · rw [decide_eq_false hh]
      cases hb : Gen.Fsx.isAbs p with
      | false => rfl
      | true => exact absurd ((isAbs_iff p).mp hb) hh
  rw [GIV.FilepathGo.isAbs_eq, GIV.FilepathGo.IsAbs_eq, h]
  exact ⟨rfl, rfl⟩

example : GIV.Go.TxtarWrite.isAbs [47, 97] = some true ∧ GIV.Go.TxtarWrite.isAbs [97, 47] = some false ∧
    GIV.Go.TxtarWrite.isAbs [] = some false := by decide +kernel

/-- Write's decision for an entry name, computed by the TRANSLATED Clean and isAbs and the three literal disjuncts
of the source line (`fp == "."`, `fp == ".."`, `strings.HasPrefix(fp, "../")`). -/
def goRejects (name : Bytes) : Option Bool := do
  let fp ← GIV.Go.Filepath.Clean name
  let a ← GIV.Go.TxtarWrite.isAbs fp
  pure (a || fp == [46] || fp == [46, 46] || GoLib.hasPrefix fp [46, 46, 47])

/-- **go_rejects_agrees.** That decision never panics and is the one the model's `writeOne` takes:
the regenerated `writeRejects` on `cleanPath name`. -/
theorem go_rejects_agrees (name : Bytes) : goRejects name = some (Gen.Fsx.writeRejects (cleanPath name)) := by
  unfold goRejects
  rw [go_Clean_agrees]
  simp only [Option.pure_def, Option.bind_eq_bind, Option.bind_some, (go_isAbs_agrees _).1]
  have hp : GoLib.hasPrefix (cleanPath name) [46, 46, 47] = ([46, 46, 47] : Bytes).isPrefixOf (cleanPath name) := by
    unfold GoLib.hasPrefix
    generalize cleanPath name = c
    rcases c with _ | ⟨a, _ | ⟨b, _ | ⟨d, r⟩⟩⟩ <;> simp [List.isPrefixOf]
    rw [BEq.comm (a := a), BEq.comm (a := b), BEq.comm (a := d)]
  rw [hp]
  rfl

example : goRejects [97, 47, 46, 46, 47, 46, 46, 47, 98] = some true ∧ goRejects [97, 47, 46, 46] = some true ∧
    goRejects [47, 97] = some true ∧ goRejects [97, 47, 47, 98, 47, 46, 47, 99, 47, 46, 46] = some false ∧
    goRejects [] = some true ∧ goRejects [46, 46, 97] = some false := by decide +kernel

/-- **go_accepted_beneath.** Containment, stated over the translated source: whenever the translated Clean returns
`fp` for an entry name and the translated isAbs and the three literal tests let it pass, the path Write joins
(`joinPath dir fp`, which is `Clean(dir + "/" + fp)` by `join_is_clean`) lies STRICTLY beneath `dir`: `dir` is a
proper prefix of it, element by element. -/
theorem go_accepted_beneath (dir : Path) (name fp : Bytes) (hc : GIV.Go.Filepath.Clean name = some fp)
    (ha : GIV.Go.TxtarWrite.isAbs fp = some false) (h1 : fp ≠ dotB) (h2 : fp ≠ dotdotB) (h3 : ¬ dotdotSlash <+: fp) :
    dir <+: joinPath dir fp ∧ joinPath dir fp ≠ dir ∧
      ∃ ns : List Bytes, ns ≠ [] ∧ (∀ c ∈ ns, Normal c) ∧ joinPath dir fp = dir ++ ns := by
  rw [go_Clean_agrees] at hc
  have hfp : fp = cleanPath name := (Option.some.inj hc).symm
  rw [(go_isAbs_agrees fp).1] at ha
  have hab : Gen.Fsx.isAbs fp = false := Option.some.inj ha
  have hhead : fp.head? ≠ some SEP := by
    intro hh; rw [(isAbs_iff fp).mpr hh] at hab; cases hab
  have hrej : Gen.Fsx.writeRejects (cleanPath name) = false := by
    rw [← hfp]; exact rejects_only fp hhead h1 h2 h3
  obtain ⟨ns, hne, hns, hs, _⟩ := accepted_shape hrej
  have hj : joinPath dir fp = dir ++ ns := by rw [hfp]; exact joinPath_normal dir hs hns
  refine ⟨?_, ?_, ns, hne, hns, hj⟩
  · rw [hj]; exact ⟨ns, rfl⟩
  · rw [hj]; intro e
    have := congrArg List.length e
    simp at this
    exact hne this

/-- … and on path strings: the joined path starts with `dir + "/"`. -/
theorem go_accepted_beneath_str (dir : Path) (hd : dir ≠ []) (name fp : Bytes) (hc : GIV.Go.Filepath.Clean name = some fp)
    (ha : GIV.Go.TxtarWrite.isAbs fp = some false) (h1 : fp ≠ dotB) (h2 : fp ≠ dotdotB) (h3 : ¬ dotdotSlash <+: fp) :
    pathStr dir ++ [SEP] <+: pathStr (joinPath dir fp) := by
  obtain ⟨hp, hne, _⟩ := go_accepted_beneath dir name fp hc ha h1 h2 h3
  exact pathStr_prefix_of_beneath hp hne hd

/-- **go_rejected_writes_nothing.** When the decision computed by the translated code is "reject", the model's
`writeOne` returns the "outside parent directory" error and leaves the file system as it was; when it is "accept",
everything the entry adds is inside `dir` (`writeOne_inside`, the step `write_contained` is built from). -/
theorem go_rejected_writes_nothing (dir : Path) (fs : FS) (f : File) (h : goRejects f.name = some true) :
    writeOne dir fs f = (some .outside, fs) := by
  rw [go_rejects_agrees] at h
  exact writeOne_rejected (Option.some.inj h)

example : (GIV.Go.Filepath.Clean [97, 47, 46, 47, 47, 98]).bind (fun fp => some (joinPath [[100]] fp)) = some [[100], [97], [98]] := by
  decide +kernel
example : goRejects [99, 47, 46, 46, 47, 46, 46] = some true ∧
    writeOne [[97], [98], [99]] [] ⟨[99, 47, 46, 46, 47, 46, 46], [104]⟩ = (some .outside, []) := by decide +kernel

/-! ### filepath.Join, translated from source (`func join` of GOROOT/src/path/filepath/path_unix.go) -/

/-- **go_Join_agrees.** For an absolute normalised `dir` the translated `filepath.Join(dir, fp)` never panics and
is the path string of the model's `joinPath dir fp` — for every `fp`. In general (`go_Join_spec`) Join skips leading
empty elements and returns the translated Clean of the rest joined with "/". -/
theorem go_Join_agrees (dir : Path) (hd : ∀ c ∈ dir, Normal c) (fp : Bytes) :
    GIV.Go.FilepathJoin.join [pathStr dir, fp] = some (pathStr (joinPath dir fp)) := by
  rw [GIV.FilepathGo.join2_eq _ _ (by unfold pathStr; simp), join_is_clean dir hd fp]

theorem go_Join_spec (elem : List Bytes) : GIV.Go.FilepathJoin.join elem = some (GIV.FilepathGo.joinSpec elem) :=
  GIV.FilepathGo.join_eq elem

example : GIV.Go.FilepathJoin.join [[47, 112, 47, 100], [97, 47, 46, 46, 47, 120]] = some [47, 112, 47, 100, 47, 120] := by
  decide +kernel  -- Join("/p/d", "a/../x") = "/p/d/x"
example : GIV.Go.FilepathJoin.join [[], [], [97, 47, 47, 98], []] = some [97, 47, 98] ∧ GIV.Go.FilepathJoin.join [[], []] = some [] ∧
    GIV.Go.FilepathJoin.join [[47, 112], [46, 46, 47, 46, 46, 47, 120]] = some [47, 120] := by decide +kernel

/-- **go_write_path_beneath.** Containment over the translated source, end to end: for an absolute normalised,
non-root `dir`, whenever the translated Clean returns `fp` for an entry name and the translated isAbs and the three
literal tests of Write let it pass, the translated `filepath.Join(dir, fp)` — the path Write hands to MkdirAll /
OpenFile — returns a string that starts with `dir + "/"`. -/
theorem go_write_path_beneath (dir : Path) (hd : ∀ c ∈ dir, Normal c) (hne : dir ≠ []) (name fp : Bytes)
    (hc : GIV.Go.Filepath.Clean name = some fp) (ha : GIV.Go.TxtarWrite.isAbs fp = some false)
    (h1 : fp ≠ dotB) (h2 : fp ≠ dotdotB) (h3 : ¬ dotdotSlash <+: fp) :
    ∃ full, GIV.Go.FilepathJoin.join [pathStr dir, fp] = some full ∧ pathStr dir ++ [SEP] <+: full ∧
      full = pathStr (joinPath dir fp) :=
  ⟨_, go_Join_agrees dir hd fp, go_accepted_beneath_str dir hne name fp hc ha h1 h2 h3, rfl⟩

example : (GIV.Go.Filepath.Clean [97, 47, 46, 47, 47, 98]).bind (fun fp => GIV.Go.FilepathJoin.join [[47, 100], fp]) =
    some [47, 100, 47, 97, 47, 98] := by decide +kernel

/-! ### filepath.Dir, translated from source (`Dir`, `VolumeName` of internal/filepathlite/path.go) -/

/-- **go_Dir_agrees.** For an absolute normalised non-root path the translated `filepath.Dir` never panics and is
the path string of `dropLast` — the directory the model's `writeOne` hands to `mkdirAll`. In general
(`go_Dir_spec`) Dir is the translated Clean of everything up to and including the last separator. -/
theorem go_Dir_agrees (q : Path) (hq : ∀ c ∈ q, Normal c) (hne : q ≠ []) :
    GIV.Go.Filepath.Dir (pathStr q) = some (pathStr q.dropLast) :=
  GIV.FilepathGo.Dir_pathStr q hq hne

theorem go_Dir_spec (front c : Bytes) (hf : front = [] ∨ front.getLast? = some SEP) (hc : SEP ∉ c) :
    GIV.Go.Filepath.Dir (front ++ c) = some (cleanPath front) :=
  GIV.FilepathGo.Dir_eq front c hf hc

example : GIV.Go.Filepath.Dir [47, 112, 47, 100, 47, 120] = some [47, 112, 47, 100] ∧ GIV.Go.Filepath.Dir [47, 120] = some [47] ∧
    GIV.Go.Filepath.Dir [97, 47, 47, 98, 47, 46, 46, 47, 99] = some [97] ∧ GIV.Go.Filepath.Dir [120] = some [46] ∧
    GIV.Go.Filepath.Dir [] = some [46] := by decide +kernel

/-- **go_write_paths.** The two paths Write computes for an accepted entry, over the translated Clean, isAbs, Join
and Dir: `fp = Join(dir, Clean(name))` is `dir` followed by a non-empty list of ordinary elements, and
`Dir(fp)` — the argument of MkdirAll — is `dir` followed by all but the last of them; neither call panics. -/
theorem go_write_paths (dir : Path) (hd : ∀ c ∈ dir, Normal c) (name fp : Bytes)
    (hc : GIV.Go.Filepath.Clean name = some fp) (ha : GIV.Go.TxtarWrite.isAbs fp = some false)
    (h1 : fp ≠ dotB) (h2 : fp ≠ dotdotB) (h3 : ¬ dotdotSlash <+: fp) :
    ∃ ns : List Bytes, ns ≠ [] ∧ (∀ c ∈ ns, Normal c) ∧
      GIV.Go.FilepathJoin.join [pathStr dir, fp] = some (pathStr (dir ++ ns)) ∧
      GIV.Go.Filepath.Dir (pathStr (dir ++ ns)) = some (pathStr (dir ++ ns.dropLast)) := by
  obtain ⟨_, _, ns, hne, hns, hj⟩ := go_accepted_beneath dir name fp hc ha h1 h2 h3
  refine ⟨ns, hne, hns, ?_, ?_⟩
  · rw [go_Join_agrees dir hd fp, hj]
  · have hall : ∀ c ∈ dir ++ ns, Normal c := by
      intro c hc
      rcases List.mem_append.mp hc with h | h
      · exact hd c h
      · exact hns c h
    rw [go_Dir_agrees (dir ++ ns) hall (by simp [hne]), List.dropLast_append_of_ne_nil hne]

example : (GIV.Go.FilepathJoin.join [[47, 100], [97, 47, 98]]).bind GIV.Go.Filepath.Dir = some [47, 100, 47, 97] := by
  decide +kernel

end GIV.C15
