import GIV.Model.Cache
namespace GIV.C05
open GIV GIV.Cache

theorem entrySize_eq : Gen.Cache.entrySize = 175 := by decide

end GIV.C05
