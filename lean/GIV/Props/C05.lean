/-
  C05 — the cache returns exactly what was stored, or not-found, never other bytes.

  Model: GIV.Model.Cache (fault-free, single process; every constant and deciding expression is
  regenerated from cache/cache.go into GIV.Gen.Cache).  `H : Bytes → Hash` is an arbitrary hash
  function; `fs : FS` an arbitrary cache directory (any bytes in any file, files missing).
-/
import GIV.Lemmas.CacheRefine
import GIV.Lemmas.CacheWitness
import GIV.Lemmas.CacheHist
import GIV.Lemmas.CacheParseGo

namespace GIV.C05
open GIV GIV.Cache

/-! ### the index-entry codec -/

/-- The numbers of the property statement: a 175-byte record, 32-byte hashes. -/
theorem sizes : Gen.Cache.HashSize = 32 ∧ Gen.Cache.hexSize = 64 ∧ Gen.Cache.entrySize = 175 := by decide

/-- A formatted entry has exactly `entrySize` bytes as long as size and time fit their 20-digit fields
(beyond 20 digits `%20d` overflows the field and the record gets longer). -/
theorem fmtEntry_length (id out : Hash) (size t : Int)
    (hs0 : 0 ≤ size) (hs1 : size < 10 ^ 20) (ht0 : 0 ≤ t) (ht1 : t < 10 ^ 20) :
    (fmtEntry id out size t).length = Gen.Cache.entrySize := by
  rw [fmtEntry_length' id out size t hs0 hs1 ht0 ht1]; decide

example : (fmtEntry id1 id2 70000 1700000000000000000).length = Gen.Cache.entrySize :=
  fmtEntry_length _ _ _ _ (by decide) (by decide) (by decide) (by decide)

/-- `get` reads back what `putIndexEntry` wrote: for every id, output id, and size and time in `[0, 2^63)`
(the int64 range; larger values are rejected by `ParseInt`, negative ones by the explicit tests). -/
theorem parse_fmt (id out : Hash) (size t : Int) (hs0 : 0 ≤ size) (hs1 : size < 2 ^ 63) (ht0 : 0 ≤ t) (ht1 : t < 2 ^ 63) :
    parseEntry id (fmtEntry id out size t) = .ok ⟨out, size, t⟩ :=
  Cache.parse_fmt id out size t hs0 hs1 ht0 ht1

/-- the instance C13's examples refer to. -/
example : exEntryParses := parse_fmt _ _ _ _ (by decide) (by decide) (by decide) (by decide)

example : parseEntry id1 (fmtEntry id1 id2 0 (2 ^ 63 - 1)) = .ok ⟨id2, 0, 2 ^ 63 - 1⟩ :=
  parse_fmt _ _ _ _ (by decide) (by decide) (by decide) (by decide)

/-- An index file is only ever accepted for the id it was looked up under: the id field of the bytes (positions
3..67, hex, either case) decodes to `id`; the record is exactly `entrySize` bytes; size and time are non-negative. -/
theorem parseEntry_id (id : Hash) (data : Bytes) (e : Entry) (h : parseEntry id data = .ok e) :
    data.length = Gen.Cache.entrySize ∧ 0 ≤ e.size ∧ 0 ≤ e.time ∧
    ∃ eid, slice data 3 67 = some eid ∧ hexDecode eid = some id.val := by
  obtain ⟨hlen, eid, eout, esize, etime, h1, _, _, _, hd, _, _, hs, _, ht⟩ := parseEntry_ok h
  refine ⟨hlen, hs, ht, eid, ?_, decodeHash_some hd⟩
  have hl : data.length = 175 := by rw [hlen]; decide
  rw [readFull_fst, show Gen.Cache.eidLo = 3 by decide, show Gen.Cache.eidHi = 67 by decide] at h1
  rw [← h1]
  simp only [slice, List.length_append, List.length_take, List.length_replicate]
  have hb : Gen.Cache.bufLen = 176 := by decide
  simp only [hb, hl]
  simp [List.take_append, List.take_take, hl]

example : ∃ eid, slice (fmtEntry id1 id2 5 7) 3 67 = some eid ∧ hexDecode eid = some id1.val :=
  (parseEntry_id id1 _ _ (parse_fmt id1 id2 5 7 (by decide) (by decide) (by decide) (by decide))).2.2.2

/-- `get` only succeeds on the index file of that id, through `parseEntry`. -/
theorem get_ok (fs : FS) (now : Int) (id : Hash) (e : Entry) (fs' : FS) (h : get fs now id = (.ok e, fs')) :
    ∃ f, fs.get (fileName id keyA) = some f ∧ parseEntry id f.data = .ok e := by
  unfold Cache.get at h
  split at h
  · cases h
  · rename_i f hf
    split at h
    · cases h
    · rename_i e' he
      cases h
      exact ⟨f, hf, he⟩

example : ∃ f, (FS.empty.set (fileName id1 keyA) ⟨fmtEntry id1 id2 5 7, 0⟩).get (fileName id1 keyA) = some f ∧
    parseEntry id1 f.data = .ok ⟨id2, 5, 7⟩ :=
  ⟨_, FS.get_set_self _ _ _, parse_fmt id1 id2 5 7 (by decide) (by decide) (by decide) (by decide)⟩

/-! ### the gates: whatever state the files are in -/

/-- GetBytes returns not-found or bytes whose hash is the reported OutputID — for every cache directory. -/
theorem getBytes_gate (H : Bytes → Hash) (fs : FS) (now : Int) (id : Hash) (d : Bytes) (e : Entry) (fs' : FS)
    (h : getBytes H fs now id = (.ok (d, e), fs')) : H d = e.out := by
  unfold getBytes at h
  split at h
  · cases h
  · simp only [] at h
    obtain ⟨hr, hv, _⟩ := ite_error_ok h
    simp only [Prod.mk.injEq] at hv
    obtain ⟨hd, he⟩ := hv
    subst hd he
    simpa [Gen.Cache.getBytesReject] using hr

/-- GetFile returns not-found or the name of a file whose length is the reported size — for every cache directory. -/
theorem getFile_gate (fs : FS) (now : Int) (id : Hash) (f : Bytes) (e : Entry) (fs' : FS)
    (h : getFile fs now id = (.ok (f, e), fs')) :
    ∃ file, fs'.get f = some file ∧ (file.data.length : Int) = e.size ∧ f = fileName e.out keyD := by
  unfold getFile at h
  split at h
  · cases h
  · simp only [] at h
    split at h
    · cases h
    · rename_i file hfile
      split at h
      · cases h
      · rename_i hr
        simp only [Prod.mk.injEq, Except.ok.injEq] at h
        obtain ⟨⟨hf, he⟩, hfs⟩ := h
        subst hf he hfs
        refine ⟨file, hfile, ?_, rfl⟩
        simpa [Gen.Cache.getFileReject] using hr

example : ∃ d e fs', getBytes toyH exFS 100 id1 = (.ok (d, e), fs') := by
  obtain ⟨t, ht⟩ := exFS_stored.getBytes 100
  cases h : getBytes toyH exFS 100 id1 with
  | mk r fs' => rw [h] at ht; simp only at ht; subst ht; exact ⟨_, _, _, rfl⟩

example : ∃ f e fs', getFile exFS 100 id1 = (.ok (f, e), fs') := by
  obtain ⟨t, ht⟩ := exFS_stored.getFile 100
  cases h : getFile exFS 100 id1 with
  | mk r fs' => rw [h] at ht; simp only at ht; subst ht; exact ⟨_, _, _, rfl⟩

/-- No lookup panics: no index or slice expression of `get` can be out of range whatever the index file holds,
so every lookup returns an entry or a not-found reason. -/
theorem lookup_total (H : Bytes → Hash) (fs : FS) (now : Int) (id : Hash) :
    (get fs now id).1 ≠ .error .panic ∧ (getFile fs now id).1 ≠ .error .panic ∧
    (getBytes H fs now id).1 ≠ .error .panic ∧ ∀ data, parseEntry id data ≠ .error .panic := by
  have hp := parseEntry_ne_panic id
  have hr : ∀ r fs1, get fs now id = (.error r, fs1) → r ≠ .panic := by
    intro r fs1 h
    unfold Cache.get at h
    split at h
    · cases h; simp
    · split at h
      · rename_i r' hr'; cases h; intro hh; subst hh; exact hp _ hr'
      · cases h
  have hg : (get fs now id).1 ≠ .error .panic := by
    cases h : get fs now id with
    | mk r fs1 =>
      cases r with
      | ok e => simp
      | error r => simp only [ne_eq, Except.error.injEq]; exact hr r fs1 h
  refine ⟨hg, ?_, ?_, hp⟩
  · unfold getFile
    split
    · rename_i r fs1 h; simp only [ne_eq, Except.error.injEq]; exact hr r fs1 h
    · simp only []
      repeat' split
      all_goals simp
  · unfold getBytes
    split
    · rename_i r fs1 h; simp only [ne_eq, Except.error.injEq]; exact hr r fs1 h
    · simp only []
      repeat' split
      all_goals simp

example : (get (FS.empty.set (fileName id1 keyA) ⟨[1, 2, 3], 0⟩) 0 id1).1 ≠ .error .panic :=
  (lookup_total toyH _ 0 id1).1

/-! ### Put then Get -/

/-- After a fault-free `Put(id, data)` the entry is stored intact (`Stored`): `GetBytes(id)` returns exactly `data`,
`GetFile(id)` names a file holding exactly `data`, both with OutputID `H data` and size `len data` — and this stays
so in every later state `fs''` that has the same file contents (`SameData`: all lookups only touch mtimes), i.e.
until the entry is overwritten, trimmed or damaged.
`hcoll`: a file already present under the output name with the same length and the same hash is `data` (no collision). -/
theorem put_get (H : Bytes → Hash) (fs : FS) (now : Int) (id : Hash) (data : Bytes)
    (hn0 : 0 ≤ now) (hn1 : now < 2 ^ 63) (hlen : (data.length : Int) < 2 ^ 63)
    (hcoll : ∀ f, fs.get (fileName (H data) keyD) = some f → f.data.length = data.length → H f.data = H data → f.data = data) :
    ∃ fs', put H fs now id data = (.ok (H data, (data.length : Int)), fs') ∧
      ∀ fs'', SameData fs' fs'' → ∀ now',
        (∃ t, (getBytes H fs'' now' id).1 = .ok (data, ⟨H data, data.length, t⟩)) ∧
        (∃ t, (getFile fs'' now' id).1 = .ok (fileName (H data) keyD, ⟨H data, data.length, t⟩)) ∧
        dataOf (getFile fs'' now' id).2 (fileName (H data) keyD) = some data := by
  obtain ⟨fs', hp, hidx, hdat, _⟩ := put_spec H fs now id data hcoll
  refine ⟨fs', hp, fun fs'' hs now' => ?_⟩
  have hst : Stored H fs'' id data :=
    Stored.of_sameData (show Stored H fs' id data from ⟨⟨now, hn0, hn1, hidx⟩, hdat, hlen⟩) hs
  refine ⟨hst.getBytes now', hst.getFile now', ?_⟩
  rw [getFile_sameData]; exact hst.2.1

/-- every lookup leaves all file contents as they are (only mtimes move): the states reachable by lookups
from the state after a Put are among the `fs''` of `put_get`. -/
theorem lookups_sameData (H : Bytes → Hash) (fs : FS) (now : Int) (id out : Hash) :
    SameData fs (get fs now id).2 ∧ SameData fs (getFile fs now id).2 ∧
    SameData fs (getBytes H fs now id).2 ∧ SameData fs (outputFile fs now out).2 :=
  ⟨get_sameData _ _ _, getFile_sameData _ _ _, getBytes_sameData _ _ _ _, outputFile_sameData _ _ _⟩

example : ∃ fs', put toyH FS.empty 5 id1 [65, 66] = (.ok (toyH [65, 66], 2), fs') ∧
    ∃ t, (getBytes toyH fs' 6 id1).1 = .ok ([65, 66], ⟨toyH [65, 66], 2, t⟩) := by
  obtain ⟨fs', h1, h2⟩ := put_get toyH FS.empty 5 id1 [65, 66] (by decide) (by decide) (by decide) (by intro f h; cases h)
  exact ⟨fs', h1, (h2 fs' (SameData.refl _) 6).1⟩

/-- A later Put of the same content repairs a damaged stored output: whatever `junk` sits under the output name —
shorter, longer, or of the same length with wrong bytes — after `Put(id, data)` the data file holds `data`.
(`hne`: junk of the same length *and* the same hash as `data` is `data`; that is the only case Put trusts the file.) -/
theorem put_repairs (H : Bytes → Hash) (fs : FS) (now : Int) (id : Hash) (data junk : Bytes) (mt : Int)
    (hjunk : fs.get (fileName (H data) keyD) = some ⟨junk, mt⟩)
    (hne : junk.length = data.length → H junk = H data → junk = data) :
    ∃ fs', put H fs now id data = (.ok (H data, (data.length : Int)), fs') ∧
      dataOf fs' (fileName (H data) keyD) = some data := by
  obtain ⟨fs', hp, _, hdat, _⟩ := put_spec H fs now id data (by
    intro f hf hl hh
    rw [hjunk] at hf; cases hf
    exact hne hl hh)
  exact ⟨fs', hp, hdat⟩

/-- the three shapes of damage. -/
example (fs : FS) (h : fs.get (fileName (toyH [65, 66]) keyD) = some ⟨[65], 0⟩) :       -- shorter
    ∃ fs', (put toyH fs 9 id1 [65, 66]).2 = fs' ∧ dataOf fs' (fileName (toyH [65, 66]) keyD) = some [65, 66] := by
  obtain ⟨fs', hp, hd⟩ := put_repairs toyH fs 9 id1 [65, 66] [65] 0 h (by intro h; cases h)
  exact ⟨fs', by rw [hp], hd⟩
example (fs : FS) (h : fs.get (fileName (toyH [65, 66]) keyD) = some ⟨[65, 67], 0⟩) :   -- same length, wrong bytes
    ∃ fs', (put toyH fs 9 id1 [65, 66]).2 = fs' ∧ dataOf fs' (fileName (toyH [65, 66]) keyD) = some [65, 66] := by
  obtain ⟨fs', hp, hd⟩ := put_repairs toyH fs 9 id1 [65, 66] [65, 67] 0 h (by intro _ h; exact absurd h (by decide))
  exact ⟨fs', by rw [hp], hd⟩
example (fs : FS) (h : fs.get (fileName (toyH [65, 66]) keyD) = some ⟨[65, 66, 67], 0⟩) : -- longer
    ∃ fs', (put toyH fs 9 id1 [65, 66]).2 = fs' ∧ dataOf fs' (fileName (toyH [65, 66]) keyD) = some [65, 66] := by
  obtain ⟨fs', hp, hd⟩ := put_repairs toyH fs 9 id1 [65, 66] [65, 66, 67] 0 h (by intro h; cases h)
  exact ⟨fs', by rw [hp], hd⟩

/-- Any fault-free sequence of Put / Get / GetBytes / GetFile / OutputFile operations, started from a cache that
represents the abstract map `m` (`Inv`; in particular the empty directory and the empty map), returns exactly what
the abstract map  id ↦ data  (last Put wins) returns: same OutputIDs, sizes, bytes, file names and file contents.
`hinj`: `H` has no collision among the contents `C` that occur. -/
theorem put_get_refines_map (H : Bytes → Hash) (C : Bytes → Prop)
    (hinj : ∀ a b, C a → C b → H a = H b → a = b)
    (ops : List (Int × Op)) (fs : FS) (m : AMap) (hI : Inv H C fs m) (hok : ∀ p ∈ ops, OpOK C p) :
    runC H fs ops = runA H m (ops.map (·.2)) :=
  run_refines H C hinj ops fs m hI hok

/-- … in particular from the empty cache directory. -/
theorem put_get_refines_map_empty (H : Bytes → Hash) (C : Bytes → Prop)
    (hinj : ∀ a b, C a → C b → H a = H b → a = b) (ops : List (Int × Op)) (hok : ∀ p ∈ ops, OpOK C p) :
    runC H FS.empty ops = runA H (fun _ => none) (ops.map (·.2)) :=
  run_refines H C hinj ops _ _ (Inv.empty H C) hok

example : runC toyH FS.empty [(1, .put id1 [65]), (2, .put id1 [65, 66]), (3, .getBytes id1), (4, .getBytes id2), (5, .getFile id1)] =
    [.put (toyH [65]) 1, .put (toyH [65, 66]) 2, .bytes (some ([65, 66], toyH [65, 66], 2)), .bytes none,
     .file (some (fileName (toyH [65, 66]) keyD, some [65, 66], toyH [65, 66], 2))] := by
  rw [put_get_refines_map_empty toyH exC toyH_inj_exC _ (by
    intro p hp
    simp only [List.mem_cons, List.not_mem_nil, or_false] at hp
    rcases hp with rfl | rfl | rfl | rfl | rfl <;> simp [OpOK, exC])]
  have h12 : ¬ id2 = id1 := by decide
  simp [runA, stepA, h12]

/-- the same history with real SHA-256 as `H` (digests evaluated by the kernel): the cache behaves like the map. -/
example : runC sha256 FS.empty [(1, .put id1 [65]), (2, .put id2 [65, 66]), (3, .getBytes id1), (4, .put id1 []), (5, .getBytes id1)] =
    runA sha256 (fun _ => none) [.put id1 [65], .put id2 [65, 66], .getBytes id1, .put id1 [], .getBytes id1] :=
  put_get_refines_map_empty sha256 exC sha256_inj_exC _ (by
    intro p hp
    simp only [List.mem_cons, List.not_mem_nil, or_false] at hp
    rcases hp with rfl | rfl | rfl | rfl | rfl <;> simp [OpOK, exC])

/-! ### histories: the operations interleaved with on-disk damage

`Ev` = Put/PutBytes, Get, GetBytes, GetFile, OutputFile, `write name bytes mtime` (any file gets any bytes:
truncate, extend, flip, replace, create) and `delete name` (what Trim or a user does); `runE H fs evs` = the
observations of the history `evs` started in directory `fs`, `endE H fs evs` = the directory it leaves
(GIV.Lemmas.CacheHist). -/

/-- one event, in any directory: its observation satisfies the gates (`Sound`). -/
theorem event_sound (H : Bytes → Hash) (fs : FS) (now : Int) (ev : Ev) : Sound H (stepE H fs now ev).1 := by
  cases ev with
  | put _ _ => trivial
  | outputFile _ => trivial
  | write _ _ _ => trivial
  | delete _ => trivial
  | get id => exact (lookup_total H fs now id).1
  | getBytes id =>
    show Sound H (.bytes (getBytes H fs now id).1)
    cases hr : (getBytes H fs now id).1 with
    | error r =>
      show r ≠ .panic
      intro hp; subst hp
      exact (lookup_total H fs now id).2.2.1 hr
    | ok v =>
      obtain ⟨d, e⟩ := v
      exact getBytes_gate H fs now id d e _ (Prod.ext hr rfl)
  | getFile id =>
    simp only [stepE]
    cases hr : (getFile fs now id).1 with
    | error r =>
      show r ≠ .panic
      intro hp; subst hp
      exact (lookup_total H fs now id).2.1 hr
    | ok v =>
      obtain ⟨f, e⟩ := v
      obtain ⟨file, hfile, hlen, hname⟩ := getFile_gate fs now id f e _ (Prod.ext hr rfl)
      exact ⟨hname, file.data, by simp [dataOf, hfile], hlen⟩

/-- **The gates over histories.** For every hash function, every initial cache directory and EVERY sequence of
Put / Get / GetBytes / GetFile / OutputFile interleaved with arbitrary on-disk damage (any bytes under any name,
any deletion), every observation made along the way is sound: no lookup panics; GetBytes returns not-found or
bytes whose hash is the reported OutputID; GetFile returns not-found or the output file name of the reported
OutputID, and that file then holds exactly as many bytes as the reported size. -/
theorem history_gates (H : Bytes → Hash) (fs : FS) (evs : List (Int × Ev)) : ∀ o ∈ runE H fs evs, Sound H o := by
  induction evs generalizing fs with
  | nil => intro o ho; cases ho
  | cons p rest ih =>
    obtain ⟨now, ev⟩ := p
    intro o ho
    simp only [runE, List.mem_cons] at ho
    rcases ho with rfl | ho
    · exact event_sound H fs now ev
    · exact ih _ o ho

/-- a history in which the data file is replaced by bytes of the right length but the wrong hash (GetBytes: bad
checksum) and then truncated (GetFile: file incomplete) — both lookups answer not-found, and the theorem says so
without evaluating them. -/
example : ∀ o ∈ runE toyH exFS
    [(1, .write (fileName (toyH [65]) keyD) [66] 0), (2, .getBytes id1),
     (3, .write (fileName (toyH [65]) keyD) [] 0), (4, .getFile id1), (5, .delete (fileName id1 keyA)), (6, .get id1)],
    Sound toyH o := history_gates _ _ _

example : (stepE toyH (exFS.set (fileName (toyH [65]) keyD) ⟨[66], 0⟩) 2 (.getBytes id1)).1 = .bytes (.error .badChecksum) := by
  obtain ⟨t, ht⟩ := exFS_stored.get 2
  have hs : Stored toyH exFS id1 [65] := exFS_stored
  have hidx : dataOf (exFS.set (fileName (toyH [65]) keyD) ⟨[66], 0⟩) (fileName id1 keyA) =
      some (fmtEntry id1 (toyH [65]) 1 7) := by
    simp [exFS, dataOf, FS.get_set, fileName_a_ne_d]
  have hg := get_of_data _ 2 id1 _ hidx
  rw [parse_fmt id1 (toyH [65]) 1 7 (by decide) (by decide) (by decide) (by decide)] at hg
  simp only [stepE, getBytes]
  cases hgr : Cache.get (exFS.set (fileName (toyH [65]) keyD) ⟨[66], 0⟩) 2 id1 with
  | mk r fs1 =>
    rw [hgr] at hg
    simp only at hg
    subst hg
    have hsd := get_sameData (exFS.set (fileName (toyH [65]) keyD) ⟨[66], 0⟩) 2 id1
    rw [hgr] at hsd
    have hd : dataOf (used fs1 2 (fileName (toyH [65]) keyD)) (fileName (toyH [65]) keyD) = some [66] := by
      rw [dataOf_used, hsd]; simp [dataOf, FS.get_set]
    simp only [outputFile]
    unfold dataOf at hd
    have ⟨f, hf, hfd⟩ : ∃ f, (used fs1 2 (fileName (toyH [65]) keyD)).get (fileName (toyH [65]) keyD) = some f ∧ f.data = [66] := by
      cases hf : (used fs1 2 (fileName (toyH [65]) keyD)).get (fileName (toyH [65]) keyD) with
      | none => rw [hf] at hd; simp at hd
      | some f => rw [hf] at hd; simp at hd; exact ⟨f, rfl, hd⟩
    have : Gen.Cache.getBytesReject (toyH [66]) (toyH [65]) = true := by decide
    simp [hf, hfd, this]

/-- **After Put, exactly the data, until the entry is overwritten, trimmed or damaged — over histories.**
Let ANY history `pre` (operations and damage of any kind) run from ANY directory `fs`; then `Put(id, data)` at
time `now`; then any history `later` none of whose events overwrites, deletes or damages the entry's two files
(`Quiet`: Puts are for other ids and do not store different content under the same OutputID; writes and deletions
hit other names; lookups of anything are allowed).  Then the Put succeeds with OutputID `H data` and size
`len data`; every `Get(id)`, `GetBytes(id)`, `GetFile(id)` inside `later` answers with exactly `data`
(`Answers`); and at the end, at any time `now'`, `GetBytes(id)` returns exactly `data` and `GetFile(id)` names a
file holding exactly `data`.
`hH` (`NoTwin`): no other byte string of the same length has the same hash as `data` — the only case in which
`copyFile` trusts what it finds on disk. -/
theorem history_put_get (H : Bytes → Hash) (fs : FS) (pre later : List (Int × Ev)) (now : Int) (id : Hash) (data : Bytes)
    (hn0 : 0 ≤ now) (hn1 : now < 2 ^ 63) (hlen : (data.length : Int) < 2 ^ 63) (hH : NoTwin H data)
    (hq : ∀ p ∈ later, Quiet H id data p.2) :
    runE H fs (pre ++ (now, .put id data) :: later) =
      runE H fs pre ++ .put (.ok (H data, data.length)) :: runE H (put H (endE H fs pre) now id data).2 later ∧
    (∀ x ∈ List.zip later (runE H (put H (endE H fs pre) now id data).2 later), Answers H id data x.1.2 x.2) ∧
    ∀ now',
      (∃ t, (getBytes H (endE H fs (pre ++ (now, .put id data) :: later)) now' id).1 =
        .ok (data, ⟨H data, data.length, t⟩)) ∧
      (∃ t, (getFile (endE H fs (pre ++ (now, .put id data) :: later)) now' id).1 =
        .ok (fileName (H data) keyD, ⟨H data, data.length, t⟩)) ∧
      dataOf (getFile (endE H fs (pre ++ (now, .put id data) :: later)) now' id).2 (fileName (H data) keyD) = some data := by
  obtain ⟨hok, hst⟩ := stored_after_put H (endE H fs pre) now id data hn0 hn1 hlen hH
  have hend : Stored H (endE H fs (pre ++ (now, .put id data) :: later)) id data := by
    rw [endE_append]
    exact Stored.end_quiet later hq hst
  refine ⟨?_, Stored.run_answers later hq hst, fun now' => ⟨hend.getBytes now', hend.getFile now', ?_⟩⟩
  · rw [runE_append]
    simp only [runE, stepE, hok]
  · rw [getFile_sameData]; exact hend.2.1

/-- a history with damage before the Put (the output file holds junk of the right length, the index entry is gone)
and traffic after it (another id stored, a foreign file written, another entry deleted, lookups). -/
example : ∃ t, (getBytes toyH (endE toyH exFS
    ([(1, .write (fileName (toyH [65]) keyD) [66] 0), (2, .delete (fileName id1 keyA))] ++ (3, .put id1 [65]) ::
     [(4, .put id2 [65, 66]), (5, .write [1, 2] [3] 0), (6, .getBytes id2), (7, .delete (fileName id2 keyA)),
      (8, .put id2 [65]), (9, .outputFile (toyH [65]))])) 10 id1).1 = .ok ([65], ⟨toyH [65], 1, t⟩) := by
  have hne : ¬ id2 = id1 := by decide
  have hkey : ¬ toyH [65, 66] = toyH [65] := by decide
  refine ((history_put_get toyH exFS _ _ 3 id1 [65] (by decide) (by decide) (by decide) toyH_noTwin_65 ?_).2.2 10).1
  intro p hp
  simp only [List.mem_cons, List.not_mem_nil, or_false] at hp
  rcases hp with rfl | rfl | rfl | rfl | rfl | rfl
  · exact ⟨hne, fun h => absurd h hkey⟩
  · exact ⟨fun h => absurd (congrArg List.length h) (by rw [fileName_length]; simp only [List.length_cons, List.length_nil]; omega),
      fun h => absurd (congrArg List.length h) (by rw [fileName_length]; simp only [List.length_cons, List.length_nil]; omega)⟩
  · trivial
  · exact ⟨fun h => hne (fileName_inj h), fun h => fileName_a_ne_d _ _ h⟩
  · exact ⟨hne, fun _ => rfl⟩
  · trivial

/-- **A later Put of the same content repairs the entry after ANY damage**: whatever history `dmg` — any number of
truncations, extensions, flips, replacements, deletions of the data file, of the index entry, of anything else,
mixed with any operations — has run from whatever directory, `Put(id, data)` succeeds, the output file then holds
exactly `data` and `GetBytes(id)` / `GetFile(id)` return it.  (`put_repairs` above is the single-step form for the
data file; this form also covers a deleted data file and a damaged index entry.) -/
theorem put_repairs_any_damage (H : Bytes → Hash) (fs : FS) (dmg : List (Int × Ev)) (now now' : Int) (id : Hash) (data : Bytes)
    (hn0 : 0 ≤ now) (hn1 : now < 2 ^ 63) (hlen : (data.length : Int) < 2 ^ 63) (hH : NoTwin H data) :
    (put H (endE H fs dmg) now id data).1 = .ok (H data, (data.length : Int)) ∧
    dataOf (put H (endE H fs dmg) now id data).2 (fileName (H data) keyD) = some data ∧
    (∃ t, (getBytes H (put H (endE H fs dmg) now id data).2 now' id).1 = .ok (data, ⟨H data, data.length, t⟩)) ∧
    (∃ t, (getFile (put H (endE H fs dmg) now id data).2 now' id).1 =
      .ok (fileName (H data) keyD, ⟨H data, data.length, t⟩)) := by
  obtain ⟨hok, hst⟩ := stored_after_put H (endE H fs dmg) now id data hn0 hn1 hlen hH
  exact ⟨hok, hst.2.1, hst.getBytes now', hst.getFile now'⟩

/-- the stored entry of `exFS`, then: data file extended, index entry overwritten with junk, data file deleted. -/
example : dataOf (put toyH (endE toyH exFS
    [(1, .write (fileName (toyH [65]) keyD) [65, 0] 0), (2, .write (fileName id1 keyA) [1, 2, 3] 0),
     (3, .delete (fileName (toyH [65]) keyD))]) 4 id1 [65]).2 (fileName (toyH [65]) keyD) = some [65] :=
  (put_repairs_any_damage toyH exFS _ 4 5 id1 [65] (by decide) (by decide) (by decide) toyH_noTwin_65).2.1

/-- **OutputFile.** The name it returns is a function of the OutputID alone (no directory state, no clock), distinct
OutputIDs have distinct names, it changes no file content and no other file, and it refreshes the mtime of the named
file (which `Trim` reads): kept if less than `mtimeInterval` old, otherwise set to the time of the call. -/
theorem outputFile_name (fs fs' : FS) (now now' : Int) (out out' : Hash) :
    (outputFile fs now out).1 = fileName out keyD ∧
    ((outputFile fs now out).1 = (outputFile fs' now' out').1 ↔ out = out') ∧
    SameData fs (outputFile fs now out).2 ∧
    (∀ m, m ≠ fileName out keyD → (outputFile fs now out).2.get m = fs.get m) ∧
    (outputFile fs now out).2.get (fileName out keyD) =
      (fs.get (fileName out keyD)).map
        (fun f => if Gen.Cache.usedFresh true (durSub now f.mtime) then f else { f with mtime := now }) :=
  ⟨rfl, ⟨fun h => fileName_inj h, fun h => by rw [h]; rfl⟩, outputFile_sameData _ _ _,
   fun m hm => get_used_ne _ _ _ _ hm, get_used_self _ _ _⟩

example : (outputFile exFS 5 (toyH [65])).1 = (outputFile FS.empty 99 (toyH [65])).1 :=
  (outputFile_name exFS FS.empty 5 99 (toyH [65]) (toyH [65])).2.1.mpr rfl

/-! ### the no-collision hypothesis cannot be dropped -/

/-- **Sharpness of `NoTwin` / `hcoll`.** A Put trusts a file already sitting under the output name when it has the
length and the hash of `data` (`copyFile`'s re-use test): if those bytes are `junk`, then after `Put(id, data)`
returns without error `GetBytes(id)` returns `junk` — bytes whose hash IS the reported OutputID (the gate holds),
but not the bytes that were stored. -/
theorem put_trusts_twin (H : Bytes → Hash) (fs : FS) (now now' : Int) (id : Hash) (data junk : Bytes) (mt : Int)
    (hn0 : 0 ≤ now) (hn1 : now < 2 ^ 63) (hlen : (data.length : Int) < 2 ^ 63)
    (hjunk : fs.get (fileName (H data) keyD) = some ⟨junk, mt⟩) (hl : junk.length = data.length) (hh : H junk = H data) :
    ∃ t, (getBytes H (put H fs now id data).2 now' id).1 = .ok (junk, ⟨H data, data.length, t⟩) := by
  obtain ⟨t, ht⟩ := (stored_twin_after_put H fs now id data junk mt hn0 hn1 hlen hjunk hl hh).getBytes now'
  rw [hh, hl] at ht
  exact ⟨t, ht⟩

example : ∃ t, (getBytes (fun _ => id1) (put (fun _ => id1) (FS.empty.set (fileName id1 keyD) ⟨[66], 0⟩) 1 id1 [65]).2 2 id1).1 =
    .ok ([66], ⟨id1, 1, t⟩) :=
  put_trusts_twin (fun _ => id1) _ 1 2 id1 [65] [66] 0 (by decide) (by decide) (by decide) (FS.get_set_self _ _ _) rfl rfl

/-- "after Put, GetBytes returns exactly data" for EVERY hash function and every directory — false: -/
def put_get_any_hash_statement : Prop :=
  ∀ (H : Bytes → Hash) (fs : FS) (now now' : Int) (id : Hash) (data : Bytes),
    0 ≤ now → now < 2 ^ 63 → (data.length : Int) < 2 ^ 63 →
    ∃ t, (getBytes H (put H fs now id data).2 now' id).1 = .ok (data, ⟨H data, data.length, t⟩)

/-- counterexample: a constant hash function, the output file already holding `[66]`, `Put(id1, [65])`. -/
theorem put_get_any_hash_false : ¬ put_get_any_hash_statement := by
  intro h
  obtain ⟨t, ht⟩ := h (fun _ => id1) (FS.empty.set (fileName id1 keyD) ⟨[66], 0⟩) 1 2 id1 [65] (by decide) (by decide) (by decide)
  obtain ⟨t', ht'⟩ := put_trusts_twin (fun _ => id1) (FS.empty.set (fileName id1 keyD) ⟨[66], 0⟩) 1 2 id1 [65] [66] 0
    (by decide) (by decide) (by decide) (FS.get_set_self _ _ _) rfl rfl
  rw [ht] at ht'
  simp at ht'

/-! ### the index-entry parser of cache.go itself

`GIV.Go.CacheParse.parseEntrySlice` is the Go→Lean translation (regenerated on every run, `GIV/Gen/CacheParseGo.lean`) of the
statements of `(*Cache).get` from the header test to the `tm < 0` test, wrapped mechanically into a function of `entry`
and `id` (harness/cmd/cache/fact.go); it returns (output id, size, time, reason, ok).  `hex.Decode` and
`strconv.ParseInt` are library meanings (`GIV/GoLibCache.lean`). -/

open GIV.Go.CacheParse GIV.CacheParseGo

/-- For the buffer `get` allocates (`entrySize + 1` bytes, the first `entrySize` read from the file) the translated block
returns exactly what the model's `parseEntry` returns on those `entrySize` bytes: output id, size and time of an accepted
entry, or the zero results with the reason of the rejection (`goResult`). -/
theorem go_parseEntry_agrees (id : Hash) (entry : Bytes) (h : entry.length = Gen.Cache.entrySize + 1) :
    parseEntrySlice entry id.val = some (goResult (parseEntry id (entry.take Gen.Cache.entrySize))) :=
  go_parseEntrySlice_eq id entry h

/-- No index or slice expression of the block is out of range, `hex.Decode` never runs past the 32-byte array, and both
skip-spaces loops end: the translation never yields `none`. -/
theorem go_parseEntry_total (id : Hash) (entry : Bytes) (h : entry.length = Gen.Cache.entrySize + 1) :
    parseEntrySlice entry id.val ≠ none := by
  rw [go_parseEntry_agrees id entry h]; simp

/-- The block accepts (`ok = true`) with output id `out`, size and time exactly when the model accepts with these. -/
theorem go_parseEntry_ok_iff (id : Hash) (entry : Bytes) (h : entry.length = Gen.Cache.entrySize + 1)
    (out : Bytes) (size tm : Int) (why : Bytes) :
    parseEntrySlice entry id.val = some (out, size, tm, why, true) ↔
      ∃ e, parseEntry id (entry.take Gen.Cache.entrySize) = .ok e ∧ e.out.val = out ∧ e.size = size ∧ e.time = tm ∧ why = [] := by
  rw [go_parseEntry_agrees id entry h]
  cases hp : parseEntry id (entry.take Gen.Cache.entrySize) with
  | error r => simp [goResult]
  | ok e =>
    simp only [goResult, Option.some.injEq, Prod.mk.injEq, and_true, Except.ok.injEq, exists_eq_left']
    constructor
    · rintro ⟨a, b, c, d⟩; exact ⟨a, b, c, d.symm⟩
    · rintro ⟨a, b, c, d⟩; exact ⟨a, b, c, d.symm⟩

/-- The block rejects exactly when the model rejects, with the reason string of the model's reason
(`errors.New` literal / `fmt.Errorf` prefix) and zero results. -/
theorem go_parseEntry_error_iff (id : Hash) (entry : Bytes) (h : entry.length = Gen.Cache.entrySize + 1) (r : Reason) :
    parseEntry id (entry.take Gen.Cache.entrySize) = .error r →
      parseEntrySlice entry id.val = some (List.replicate 32 0, 0, 0, reasonText r, false) := by
  intro hr
  rw [go_parseEntry_agrees id entry h, hr]; rfl

/-- and the model's rejection reasons that reach the block are the eight the block can give (never `panic`). -/
theorem go_parseEntry_reject (id : Hash) (entry : Bytes) (h : entry.length = Gen.Cache.entrySize + 1)
    (res : Bytes × Int × Int × Bytes) (hgo : parseEntrySlice entry id.val = some (res.1, res.2.1, res.2.2.1, res.2.2.2, false)) :
    ∃ r, parseEntry id (entry.take Gen.Cache.entrySize) = .error r ∧ r ≠ .panic ∧ res.2.2.2 = reasonText r := by
  rw [go_parseEntry_agrees id entry h] at hgo
  cases hp : parseEntry id (entry.take Gen.Cache.entrySize) with
  | ok e => rw [hp] at hgo; simp [goResult] at hgo
  | error r =>
    rw [hp] at hgo
    simp only [goResult, Option.some.injEq, Prod.mk.injEq, and_true] at hgo
    exact ⟨r, rfl, fun hpanic => parseEntry_ne_panic id _ (hpanic ▸ hp), hgo.2.2.2.symm⟩

/-- **Round trip over the translated parser**: what `putIndexEntry` writes (`fmtEntry`, the regenerated format string) the
translated block of `get` reads back — same output id, size and time — whatever the spare last byte of the buffer holds. -/
theorem go_parse_fmt (id out : Hash) (size t : Int) (hs0 : 0 ≤ size) (hs1 : size < 2 ^ 63) (ht0 : 0 ≤ t) (ht1 : t < 2 ^ 63)
    (x : UInt8) :
    parseEntrySlice (fmtEntry id out size t ++ [x]) id.val = some (out.val, size, t, [], true) := by
  have hl : (fmtEntry id out size t).length = Gen.Cache.entrySize :=
    fmtEntry_length id out size t hs0 (by omega) ht0 (by omega)
  rw [go_parseEntry_agrees id _ (by simp [hl]), List.take_left' hl, parse_fmt id out size t hs0 hs1 ht0 ht1]
  rfl

/-- a valid entry with a 19-digit time stamp, evaluated by the kernel on the generated definition -/
example : parseEntrySlice (fmtEntry id1 id2 70000 1700000000000000000 ++ [0]) id1.val =
    some (id2.val, 70000, 1700000000000000000, [], true) := by decide +kernel
example : parseEntrySlice (fmtEntry id1 id2 70000 1700000000000000000 ++ [0]) id1.val =
    some (id2.val, 70000, 1700000000000000000, [], true) :=
  go_parse_fmt _ _ _ _ (by decide) (by decide) (by decide) (by decide) 0
/-- wrong header byte ('w1 …') -/
example : parseEntrySlice ((fmtEntry id1 id2 70000 1700000000000000000 ++ [0]).set 0 119) id1.val =
    some (List.replicate 32 0, 0, 0, reasonText .header, false) := by decide +kernel
/-- looked up under another id -/
example : parseEntrySlice (fmtEntry id1 id2 70000 1700000000000000000 ++ [0]) id2.val =
    some (List.replicate 32 0, 0, 0, reasonText .mismatchedID, false) := by decide +kernel
/-- a non-hex digit ('g') in the id field / in the output-id field -/
example : parseEntrySlice ((fmtEntry id1 id2 70000 1700000000000000000 ++ [0]).set 5 103) id1.val =
    some (List.replicate 32 0, 0, 0, reasonText .decodeID, false) := by decide +kernel
example : parseEntrySlice ((fmtEntry id1 id2 70000 1700000000000000000 ++ [0]).set 70 103) id1.val =
    some (List.replicate 32 0, 0, 0, reasonText .decodeOut, false) := by decide +kernel
/-- a negative size "-1", right-aligned in its 20-byte field -/
example : parseEntrySlice (layout 118 49 32 (hexEncode id1.val) 32 (hexEncode id2.val) 32 (List.replicate 18 32 ++ [45, 49]) 32
      (padLeft 20 (decimal 1700000000000000000)) [10, 0]) id1.val =
    some (List.replicate 32 0, 0, 0, reasonText .negSize, false) := by decide +kernel
/-- a size field of twenty spaces -/
example : parseEntrySlice (layout 118 49 32 (hexEncode id1.val) 32 (hexEncode id2.val) 32 (List.replicate 20 32) 32
      (padLeft 20 (decimal 1700000000000000000)) [10, 0]) id1.val =
    some (List.replicate 32 0, 0, 0, reasonText .parseSize, false) := by decide +kernel
/-- the hypothesis of the theorems is satisfiable and the totality statement has content -/
example : parseEntrySlice (List.replicate 176 0) id1.val ≠ none :=
  go_parseEntry_total id1 _ (by decide +kernel)

end GIV.C05
