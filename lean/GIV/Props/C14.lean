/-
  C14 — txtar quoting: NeedsQuote is exact and Quote/Unquote are inverse.

  Property theorems about the model `GIV.Model.Txtar`; proofs in `GIV/Lemmas/TxtarQuote.lean`,
  where the regenerated facts are hypotheses (`FNQ`: NeedsQuote returns `name != ""`, not
  `after != nil`; `FLen`, `FCR`, `FLit` as in C03).  Each theorem discharges the facts it needs
  from `Gen.Txtar.*` by `⟨rfl⟩`, so a changed fact breaks exactly the theorems depending on it.
-/
import GIV.Lemmas.TxtarQuote
import GIV.Lemmas.TxtarIdxLoop
import GIV.Lemmas.TxtarIdxQuote
import GIV.Lemmas.TxtarGoLoop
import GIV.Lemmas.XTxtarGo

namespace GIV.C14
open GIV GIV.Txtar

/-! ### vocabulary of the statement -/

/-- The body contains a file marker line: some line of it (terminated or not) is recognised by
`isMarker` with a non-empty name. -/
def HasMarkerLine (d : Bytes) : Prop :=
  ∃ l ∈ splitLines d, ∃ n, markerName l = some n ∧ n ≠ []

instance (d : Bytes) : Decidable (HasMarkerLine d) :=
  inferInstanceAs (Decidable (Txtar.HasMarkerLine d))

/-- File name as `Format` expects it: non-empty, trimmed, no newline. -/
def NameOK (n : Bytes) : Prop := n ≠ [] ∧ trimSpace n = n ∧ NL ∉ n

instance (n : Bytes) : Decidable (NameOK n) := inferInstanceAs (Decidable (Txtar.NameOK n))

/-- only for evaluating the concrete `example`s below -/
local instance : DecidableEq (Except QErr Bytes)
  | .ok a, .ok b => decidable_of_iff (a = b) (by simp)
  | .error a, .error b => decidable_of_iff (a = b) (by simp)
  | .ok _, .error _ => isFalse (by simp)
  | .error _, .ok _ => isFalse (by simp)

/-! ### NeedsQuote -/

/-- `NeedsQuote d` is true exactly when `d` contains a marker line, whether or not the body (or
that line) ends in a newline. -/
theorem needsQuote_exact : ∀ d, needsQuote d = some (decide (HasMarkerLine d)) :=
  have : FLen := ⟨rfl⟩; have : FNQ := ⟨rfl⟩
  needsQuote_eq

example : HasMarkerLine (lit "a\n-- x --") := by decide +kernel
example : needsQuote (lit "a\n-- x --") = some true := by decide +kernel
example : needsQuote (lit "a\n --x --\n") = some false := by decide +kernel

/-- Operational reading: `NeedsQuote d` is false exactly when storing `d` as a file body parses
back to exactly that one file, with `fixNL d` as its data. -/
theorem needsQuote_false_iff_body_safe : ∀ d, needsQuote d = some false ↔
    parse (format ⟨[], [⟨lit "f", d⟩]⟩) = some ⟨[], [⟨lit "f", fixNL d⟩]⟩ := by
  have : FLen := ⟨rfl⟩; have : FCR := ⟨rfl⟩; have : FLit := ⟨rfl, rfl⟩; have : FNQ := ⟨rfl⟩
  intro d
  rw [needsQuote_false_iff, parse_format_single (by decide +kernel)]

/-- The same for any admissible file name. -/
theorem needsQuote_false_iff_body_safe_name : ∀ d n, NameOK n → (needsQuote d = some false ↔
    parse (format ⟨[], [⟨n, d⟩]⟩) = some ⟨[], [⟨n, fixNL d⟩]⟩) := by
  have : FLen := ⟨rfl⟩; have : FCR := ⟨rfl⟩; have : FLit := ⟨rfl, rfl⟩; have : FNQ := ⟨rfl⟩
  intro d n hn
  rw [needsQuote_false_iff, parse_format_single hn]

example : needsQuote (lit "-- x --\r") = some true := by decide +kernel
example : parse (format ⟨[], [⟨lit "f", lit "a\n-- x --"⟩]⟩)
    = some ⟨[], [⟨lit "f", lit "a\n"⟩, ⟨lit "x", []⟩]⟩ := by decide +kernel

/-! ### Quote / Unquote -/

theorem quote_nil : quote [] = .ok [] := by rfl

/-- `Unquote (Quote d) = d` whenever `Quote` accepts `d`. -/
theorem unquote_quote : ∀ d q, quote d = .ok q → unquote q = .ok d :=
  fun _ _ h => Txtar.unquote_quote h

example : quote (lit "a\n-- x --\n\n>b\n") = .ok (lit ">a\n>-- x --\n>\n>>b\n") := by decide +kernel

/-- The quoted form never needs quoting. -/
theorem quote_not_needsQuote : ∀ d q, quote d = .ok q → needsQuote q = some false :=
  have : FLen := ⟨rfl⟩; have : FLit := ⟨rfl, rfl⟩; have : FNQ := ⟨rfl⟩
  fun _ _ h => quote_needsQuote h

/-- The quoted form survives Format/Parse unchanged (as the body of a file with an admissible
name, after any admissible comment). -/
theorem quote_survives : ∀ d q n, quote d = .ok q → NameOK n →
    parse (format ⟨[], [⟨n, q⟩]⟩) = some ⟨[], [⟨n, q⟩]⟩ :=
  have : FLen := ⟨rfl⟩; have : FLit := ⟨rfl, rfl⟩
  fun _ _ _ h hn => quote_survives_gen h bodyOK_nil hn

theorem quote_survives_comment : ∀ d q n c, quote d = .ok q → NameOK n → BodyOK c →
    parse (format ⟨c, [⟨n, q⟩]⟩) = some ⟨c, [⟨n, q⟩]⟩ :=
  have : FLen := ⟨rfl⟩; have : FLit := ⟨rfl, rfl⟩
  fun _ _ _ _ h hn hc => quote_survives_gen h hc hn

example : NameOK (lit "a b") := by decide +kernel

/-- `Quote` refuses (with an error, never a wrong result: see `unquote_quote`) exactly the data
it cannot represent: data without final newline, or not valid UTF-8. -/
theorem quote_refuses : ∀ d, (∃ e, quote d = .error e) ↔
    ((d ≠ [] ∧ d.getLast? ≠ some NL) ∨ utf8Valid d = false) :=
  quote_error_iff

example : quote (lit "a") = .error .noFinalNewline := by decide +kernel
example : quote [0xC0, 0x80, NL] = .error .notUTF8 := by decide +kernel

/-! ### tie to the Go code: the index forms (`GIV.Model.TxtarIdx`, executed by the model driver) -/

/-- The index-form `NeedsQuote` (via the offset-scanning `findFileMarker`) is `needsQuote`. -/
theorem needsQuote_index_form_agrees : ∀ d, needsQuoteIdx d = needsQuote d :=
  have : FLit := ⟨rfl, rfl⟩; have : FNLM := ⟨rfl⟩
  needsQuoteIdx_eq

example : needsQuoteIdx (lit "a\n-- x --") = some true := by decide +kernel
example : needsQuoteIdx (lit "a\n --x --\n-- \n") = some false := by decide +kernel

/-- The index-form `Quote` (the `range` loop as a fold over `(nd, prev)`) is `quote`. -/
theorem quote_index_form_agrees : ∀ d, quoteIdx d = quote d := quoteIdx_eq

example : quoteIdx (lit "a\n\nb\n") = .ok (lit ">a\n>\n>b\n") := by decide +kernel

/-- The index-form `Unquote` (`bytes.Replace`, `bytes.TrimPrefix`) is `unquote`. -/
theorem unquote_index_form_agrees : ∀ d, unquoteIdx d = unquote d := unquoteIdx_eq

example : unquoteIdx (lit ">a\n>>b\n>\n") = .ok (lit "a\n>b\n\n") := by decide +kernel

/-! ### tie to the Go code: the regenerated translation (see Props/C03, last section) -/

open GIV.TxtarGo in
/-- The translated `NeedsQuote` is the model's `needsQuote`. -/
theorem go_NeedsQuote_agrees : ∀ d, GIV.Go.Txtar.NeedsQuote d = needsQuote d :=
  have : FLit := ⟨rfl, rfl⟩; have : FNLM := ⟨rfl⟩
  fun d => by rw [NeedsQuote_eq, needsQuoteIdx_eq]

example : GIV.Go.Txtar.NeedsQuote (lit "a\n-- x --") = some true := by decide +kernel

open GIV.TxtarGo in
/-- The translated `Quote` / `Unquote` never panic and return what the model returns: on success
the model's bytes and a nil error, otherwise no data and a non-nil error. -/
theorem go_Quote_Unquote_agree : ∀ d,
    (∃ g, GIV.Go.Txtar.Quote d = some g ∧ QOk (quote d) g) ∧
    (∃ g, GIV.Go.Txtar.Unquote d = some g ∧ QOk (unquote d) g) :=
  fun d => ⟨quoteIdx_eq d ▸ Quote_eq d, unquoteIdx_eq d ▸ Unquote_eq d⟩

open GIV.TxtarGo in
/-- `Unquote (Quote d) = d` for the translated functions, whenever `Quote` returns a nil error. -/
theorem go_Unquote_Quote : ∀ d q, GIV.Go.Txtar.Quote d = some (q, none) →
    GIV.Go.Txtar.Unquote q = some (d, none) := by
  intro d q h
  obtain ⟨g, hg, hq⟩ := (go_Quote_Unquote_agree d).1
  rw [h] at hg
  cases hg
  have hq' := QOk_ok hq
  obtain ⟨g2, hg2, hu⟩ := (go_Quote_Unquote_agree q).2
  rw [unquote_quote d q hq'] at hu
  simp only [QOk] at hu
  rw [hg2, hu]

example : GIV.Go.Txtar.Quote (lit "a\n-- x --\n") = some (lit ">a\n>-- x --\n", none) := by decide +kernel

/-! ### … with x/tools' `Format` translated from the library source

The theorems above that mention `format` are about the model's transcription of golang.org/x/tools/txtar
`Format`.  `GIV.Go.XTxtar.Format` is the translation of the library source the harness is built against
(GIV/Gen/XTxtarGo.lean, regenerated on every run), proved equal to `format` for every archive in
GIV/Lemmas/XTxtarGo.lean; so the operational readings hold with every function translated from source. -/

/-- the translated `Parse` of /repo as the model's `parse` (C03's `go_Parse_agrees`) -/
theorem go_Parse_model : ∀ d, GIV.Go.Txtar.Parse d = (parse d).map TxtarGo.toGoArchive :=
  have : FLit := ⟨rfl, rfl⟩; have : FNLM := ⟨rfl⟩
  fun d => by rw [TxtarGo.Parse_eq, parseIdx_eq]

theorem parse_of_go {b : Bytes} {a : Archive}
    (h : GIV.Go.Txtar.Parse b = some (TxtarGo.toGoArchive a)) : parse b = some a := by
  rw [go_Parse_model] at h
  cases hp : parse b with
  | none => rw [hp] at h; cases h
  | some a' =>
    rw [hp] at h
    simp only [Option.map_some, Option.some.injEq] at h
    have := congrArg TxtarGo.ofGoArchive h
    rw [TxtarGo.ofGo_toGo, TxtarGo.ofGo_toGo] at this
    rw [this]

/-- Operational reading of `NeedsQuote` over the translated functions: it is false exactly when storing
`d` as a file body with x/tools' `Format` and parsing the result with /repo's `Parse` gives back exactly
that one file, with `fixNL d` as its data. -/
theorem go_NeedsQuote_false_iff_body_safe : ∀ d, GIV.Go.Txtar.NeedsQuote d = some false ↔
    ∃ b, GIV.Go.XTxtar.Format ⟨[], [⟨lit "f", d⟩]⟩ = some b ∧
         GIV.Go.Txtar.Parse b = some ⟨[], [⟨lit "f", fixNL d⟩]⟩ := by
  intro d
  rw [go_NeedsQuote_agrees, needsQuote_false_iff_body_safe, XTxtarGo.Format_eq]
  constructor
  · intro h
    refine ⟨_, rfl, ?_⟩
    rw [go_Parse_model]
    show Option.map TxtarGo.toGoArchive (parse (format ⟨[], [⟨lit "f", d⟩]⟩)) = _
    rw [h]; rfl
  · rintro ⟨b, hb, hp⟩
    simp only [Option.some.injEq] at hb
    subst hb
    exact parse_of_go (a := ⟨[], [⟨lit "f", fixNL d⟩]⟩) hp

example : (GIV.Go.XTxtar.Format ⟨[], [⟨lit "f", lit "a\n-- x --"⟩]⟩).bind GIV.Go.Txtar.Parse =
    some ⟨[], [⟨lit "f", lit "a\n"⟩, ⟨lit "x", []⟩]⟩ := by decide +kernel
example : (GIV.Go.XTxtar.Format ⟨[], [⟨lit "f", lit "a\n --x --"⟩]⟩).bind GIV.Go.Txtar.Parse =
    some ⟨[], [⟨lit "f", lit "a\n --x --\n"⟩]⟩ := by decide +kernel

open GIV.TxtarGo in
/-- What the translated `Quote` returns survives x/tools' `Format` followed by /repo's `Parse` unchanged
(as the body of a file with an admissible name, after any admissible comment). -/
theorem go_quote_survives : ∀ d q n c, GIV.Go.Txtar.Quote d = some (q, none) → NameOK n → BodyOK c →
    ∃ b, GIV.Go.XTxtar.Format ⟨c, [⟨n, q⟩]⟩ = some b ∧ GIV.Go.Txtar.Parse b = some ⟨c, [⟨n, q⟩]⟩ := by
  intro d q n c h hn hc
  obtain ⟨g, hg, hq⟩ := (go_Quote_Unquote_agree d).1
  rw [h] at hg
  cases hg
  have hq' := QOk_ok hq
  refine ⟨_, XTxtarGo.Format_eq _, ?_⟩
  rw [go_Parse_model]
  show Option.map toGoArchive (parse (format ⟨c, [⟨n, q⟩]⟩)) = _
  rw [quote_survives_comment d q n c hq' hn hc]; rfl

example : (GIV.Go.Txtar.Quote (lit "a\n-- x --\n")).bind (fun r =>
      (GIV.Go.XTxtar.Format ⟨[], [⟨lit "f", r.1⟩]⟩).bind GIV.Go.Txtar.Parse) =
    some ⟨[], [⟨lit "f", lit ">a\n>-- x --\n"⟩]⟩ := by decide +kernel

end GIV.C14
