import GIV.Model.Txtar
namespace GIV.C14
open GIV GIV.Txtar

theorem quote_nil : quote [] = .ok [] := by rfl

end GIV.C14
