/-
  C09 — par.Work runs every item exactly once and returns only when all are done.

  All theorems are about every reachable state of the transition system GIV.Model.ParWork
  (`Reach c s`: any interleaving of the n runners and of the Adds made from inside f, any choice
  of rand.Intn, spurious wake-ups included), for every n ≥ 1 and every item graph.
-/
import GIV.Lemmas.ParWorkInv
import GIV.Lemmas.ParWorkRun
import GIV.Lemmas.ParWorkDeadlock
import GIV.Lemmas.ParWorkMeasure
namespace GIV.C09
open GIV.ParWork

/-- f is called at most once per item: the log of f-calls has no duplicates. -/
theorem once (c : Cfg) (hn : 1 ≤ c.n) (s : State) (h : Reach c s) : s.calls.Nodup := by
  have inv := inv_reach hn h
  apply List.nodup_iff_count.mpr
  intro x
  have := inv.items x
  split at this <;> omega

example : ∃ s, Reach exCfg s ∧ (decide (s.calls = [0, 1])) = true := reach_of_run exCfg exTrace _ (by decide)

/-- f is only called on items that were added, and what was added is, at any time, exactly
what is queued, picked but not yet started, or called — each item in one place only. -/
theorem only_added (c : Cfg) (hn : 1 ≤ c.n) (s : State) (h : Reach c s) :
    (∀ x, x ∈ s.calls → x ∈ s.added) ∧
    (∀ x, x ∈ s.added → x ∈ s.todo ∨ x ∈ s.calls ∨ ∃ t, t < c.n ∧ (s.pc t).holds x = true) := by
  have inv := inv_reach hn h
  constructor
  · intro x hx
    have := inv.items x
    have hc : 0 < s.calls.count x := List.count_pos_iff.mpr hx
    split at this
    · assumption
    · omega
  · intro x hx
    have := inv.items x
    rw [if_pos hx] at this
    by_cases h1 : 0 < s.todo.count x
    · exact Or.inl (List.count_pos_iff.mp h1)
    · by_cases h2 : 0 < s.calls.count x
      · exact Or.inr (Or.inl (List.count_pos_iff.mp h2))
      · right; right
        have h3 : cnt (Pc.holds x) s.pc c.n ≠ 0 := by omega
        apply Classical.byContradiction
        intro hne
        apply h3
        apply cnt_eq_zero
        intro i hi
        cases hh : (s.pc i).holds x with
        | false => rfl
        | true => exact absurd ⟨i, hi, hh⟩ hne

example : ∃ s, Reach exCfg s ∧ (decide (s.added = [1, 0] ∧ s.calls = [0] ∧ s.todo = [1])) = true :=
  reach_of_run exCfg (exTrace.take 11) _ (by decide)

/-- never more than n calls of f in progress (counted over any number of task slots). -/
theorem at_most_n (c : Cfg) (hn : 1 ≤ c.n) (s : State) (h : Reach c s) (N : Nat) :
    cnt Pc.insideF s.pc N ≤ c.n := by
  have inv := inv_reach hn h
  apply cnt_bound
  intro i hi
  cases hp : s.pc i with
  | absent => rfl
  | _ => exact absurd (inv.bound i (by rw [hp]; simp)) (by omega)

example : ∃ s, Reach exCfg s ∧ (decide (cnt Pc.insideF s.pc 5 = 1)) = true :=
  reach_of_run exCfg (exTrace.take 10) _ (by decide)

/-- When a runner has returned — in particular when `Do` has returned (`pc 0 = retd`) — nothing
is left to do, no call of f is in flight or about to start, and f was called on every added item. -/
theorem do_returns_late (c : Cfg) (hn : 1 ≤ c.n) (s : State) (h : Reach c s) (t : Nat)
    (hret : s.pc t = .returned ∨ s.pc t = .retd ∨ s.pc t = .exited) :
    s.todo = [] ∧ (∀ i, (s.pc i).insideF = false ∧ ∀ x, (s.pc i).holds x = false) ∧ (∀ x, x ∈ s.added → x ∈ s.calls) := by
  have inv := inv_reach hn h
  have hd : (s.pc t).isDone = true := by rcases hret with h | h | h <;> rw [h] <;> rfl
  obtain ⟨h1, _, h3⟩ := inv.doneAll t hd
  have hall : ∀ i, (s.pc i).insideF = false ∧ ∀ x, (s.pc i).holds x = false := by
    intro i
    by_cases hi : i < c.n
    · have := h3 i hi
      cases hp : s.pc i <;> simp_all [Pc.inW, Pc.insideF, Pc.holds]
    · have : s.pc i = .absent := by
        cases hp : s.pc i with
        | absent => rfl
        | _ => exact absurd (inv.bound i (by rw [hp]; simp)) hi
      rw [this]; exact ⟨rfl, fun _ => rfl⟩
  refine ⟨h1, hall, ?_⟩
  intro x hx
  have := inv.items x
  rw [if_pos hx, h1, cnt_eq_zero _ _ _ (fun i _ => (hall i).2 x)] at this
  apply List.count_pos_iff.mp
  simp at this
  omega

example : ∃ s, Reach exCfg s ∧ (decide (s.pc 0 = .retd ∧ s.pc 1 = .wake ∧ s.calls = [0, 1])) = true :=
  reach_of_run exCfg (exTrace.take 24) _ (by decide)

/-- No deadlock and no lost wake-up: a reachable state in which some task has not exited has an
enabled step that is not a spurious wake-up (so the only states without successor are the final
ones, in which every runner has returned). -/
theorem no_deadlock (c : Cfg) (hn : 1 ≤ c.n) (s : State) (h : Reach c s) (hnf : ¬ final s) :
    ∃ t e, e ≠ Event.spurious ∧ ∃ s', step c s t e = some s' :=
  deadlock_free c hn s h hnf

example : ∃ s, Reach exCfg s ∧ (decide (s.pc 1 = .wake ∧ s.waiters = [1] ∧ s.pc 0 = .inF 1 0)) = true :=
  reach_of_run exCfg
    [(0, .start), (0, .lock), (0, .unlock), (0, .doCall 2), (0, .go 1), (0, .lock), (0, .rand 1 0), (0, .unlock),
     (0, .fEnter 0), (0, .lock), (0, .unlock), (0, .fExit 0), (1, .start), (0, .lock), (0, .rand 1 0), (0, .unlock),
     (0, .fEnter 1), (1, .lock), (1, .wait)] _ (by decide)

/-- Every step other than a spurious wake-up strictly decreases the measure
(work left in the tasks + pending wake-ups + queued items + items not added yet). -/
theorem step_decreases (c : Cfg) (hn : 1 ≤ c.n) (U : List Nat) (cl : Closed c U) (s s' : State) (h : Reach c s)
    (t : Nat) (e : Event) (hs : step c s t e = some s') (hsp : e ≠ .spurious) :
    measure c U s' < measure c U s := by
  have inv := inv_reach hn h
  have iT : InvT c U s := by
    clear hs inv
    induction h with
    | init => exact invT_init c U
    | step hr hs ih => exact invT_step cl (inv_reach hn hr) ih (step_sound hs)
  exact measure_decreases hn cl inv iT (step_sound hs) hsp

example : ∃ s, Reach exCfg s ∧ (decide (measure exCfg [0, 1] s = 69)) = true :=
  reach_of_run exCfg [(0, .start)] _ (by decide)

/-- at the end of the complete example run the measure is 0 -/
example : ∃ s, Reach exCfg s ∧ (decide (measure exCfg [0, 1] s = 0 ∧ s.pc 0 = .exited ∧ s.pc 1 = .exited)) = true :=
  reach_of_run exCfg exTrace _ (by decide)

/-- Termination: if the items reachable from the initial ones through `children` form a finite
set `U`, there is no infinite execution (of non-spurious steps), for any n ≥ 1 and any schedule;
in fact the i-th state of any execution has measure at most `measure init0 - i`. -/
theorem terminates (c : Cfg) (hn : 1 ≤ c.n) (U : List Nat) (cl : Closed c U) :
    ¬ ∃ (σ : Nat → State) (τ : Nat → Nat × Event), σ 0 = init0 ∧
      ∀ i, (τ i).2 ≠ .spurious ∧ step c (σ i) (τ i).1 (τ i).2 = some (σ (i + 1)) := by
  intro ⟨σ, τ, h0, hstep⟩
  have hr : ∀ i, Reach c (σ i) := by
    intro i
    induction i with
    | zero => rw [h0]; exact Reach.init
    | succ i ih => exact Reach.step ih (hstep i).2
  have hm : ∀ i, measure c U (σ i) + i ≤ measure c U (σ 0) := by
    intro i
    induction i with
    | zero => omega
    | succ i ih =>
      have := step_decreases c hn U cl (σ i) (σ (i + 1)) (hr i) (τ i).1 (τ i).2 (hstep i).2 (hstep i).1
      omega
  have := hm (measure c U (σ 0) + 1)
  omega

/-- the hypothesis of `terminates` is satisfiable: `[0, 1]` is closed for the example scenario,
and the bound it gives for that scenario is concrete -/
example : Closed exCfg [0, 1] ∧ measure exCfg [0, 1] init0 = 70 := by
  refine ⟨⟨by decide, ?_⟩, by decide⟩
  intro x hx y hy
  simp only [exCfg] at hy
  split at hy <;> simp_all

end GIV.C09
