/-
  C09 — par.Work runs every item exactly once and returns only when all are done.

  All theorems are about every reachable state of the transition system GIV.Model.ParWork
  (`Reach c s`: any interleaving of the n runners and of the Adds made from inside f, any choice
  of rand.Intn, spurious wake-ups included), for every n ≥ 1 and every item graph.
-/
import GIV.Lemmas.ParWorkInv
import GIV.Lemmas.ParWorkRun
import GIV.Lemmas.ParWorkDeadlock
import GIV.Lemmas.ParWorkMeasure
import GIV.Lemmas.ParWorkWake
import GIV.Lemmas.ParWorkFinal
namespace GIV.C09
open GIV.ParWork

/-- f is called at most once per item: the log of f-calls has no duplicates. -/
theorem once (c : Cfg) (hn : 1 ≤ c.n) (s : State) (h : Reach c s) : s.calls.Nodup := by
  have inv := inv_reach hn h
  apply List.nodup_iff_count.mpr
  intro x
  have := inv.items x
  split at this <;> omega

example : ∃ s, Reach exCfg s ∧ (decide (s.calls = [0, 1])) = true := reach_of_run exCfg exTrace _ (by decide)

/-- f is only called on items that were added, and what was added is, at any time, exactly
what is queued, picked but not yet started, or called — each item in one place only. -/
theorem only_added (c : Cfg) (hn : 1 ≤ c.n) (s : State) (h : Reach c s) :
    (∀ x, x ∈ s.calls → x ∈ s.added) ∧
    (∀ x, x ∈ s.added → x ∈ s.todo ∨ x ∈ s.calls ∨ ∃ t, t < c.n ∧ (s.pc t).holds x = true) := by
  have inv := inv_reach hn h
  constructor
  · intro x hx
    have := inv.items x
    have hc : 0 < s.calls.count x := List.count_pos_iff.mpr hx
    split at this
    · assumption
    · omega
  · intro x hx
    have := inv.items x
    rw [if_pos hx] at this
    by_cases h1 : 0 < s.todo.count x
    · exact Or.inl (List.count_pos_iff.mp h1)
    · by_cases h2 : 0 < s.calls.count x
      · exact Or.inr (Or.inl (List.count_pos_iff.mp h2))
      · right; right
        have h3 : cnt (Pc.holds x) s.pc c.n ≠ 0 := by omega
        apply Classical.byContradiction
        intro hne
        apply h3
        apply cnt_eq_zero
        intro i hi
        cases hh : (s.pc i).holds x with
        | false => rfl
        | true => exact absurd ⟨i, hi, hh⟩ hne

example : ∃ s, Reach exCfg s ∧ (decide (s.added = [1, 0] ∧ s.calls = [0] ∧ s.todo = [1])) = true :=
  reach_of_run exCfg (exTrace.take 11) _ (by decide)

/-- never more than n calls of f in progress (counted over any number of task slots). -/
theorem at_most_n (c : Cfg) (hn : 1 ≤ c.n) (s : State) (h : Reach c s) (N : Nat) :
    cnt Pc.insideF s.pc N ≤ c.n := by
  have inv := inv_reach hn h
  apply cnt_bound
  intro i hi
  cases hp : s.pc i with
  | absent => rfl
  | _ => exact absurd (inv.bound i (by rw [hp]; simp)) (by omega)

example : ∃ s, Reach exCfg s ∧ (decide (cnt Pc.insideF s.pc 5 = 1)) = true :=
  reach_of_run exCfg (exTrace.take 10) _ (by decide)

/-- When a runner has returned — in particular when `Do` has returned (`pc 0 = retd`) — nothing
is left to do, no call of f is in flight or about to start, and f was called on every added item. -/
theorem do_returns_late (c : Cfg) (hn : 1 ≤ c.n) (s : State) (h : Reach c s) (t : Nat)
    (hret : s.pc t = .returned ∨ s.pc t = .retd ∨ s.pc t = .exited) :
    s.todo = [] ∧ (∀ i, (s.pc i).insideF = false ∧ ∀ x, (s.pc i).holds x = false) ∧ (∀ x, x ∈ s.added → x ∈ s.calls) := by
  have inv := inv_reach hn h
  have hd : (s.pc t).isDone = true := by rcases hret with h | h | h <;> rw [h] <;> rfl
  obtain ⟨h1, _, h3⟩ := inv.doneAll t hd
  have hall : ∀ i, (s.pc i).insideF = false ∧ ∀ x, (s.pc i).holds x = false := by
    intro i
    by_cases hi : i < c.n
    · have := h3 i hi
      cases hp : s.pc i <;> simp_all [Pc.inW, Pc.insideF, Pc.holds]
    · have : s.pc i = .absent := by
        cases hp : s.pc i with
        | absent => rfl
        | _ => exact absurd (inv.bound i (by rw [hp]; simp)) hi
      rw [this]; exact ⟨rfl, fun _ => rfl⟩
  refine ⟨h1, hall, ?_⟩
  intro x hx
  have := inv.items x
  rw [if_pos hx, h1, cnt_eq_zero _ _ _ (fun i _ => (hall i).2 x)] at this
  apply List.count_pos_iff.mp
  simp at this
  omega

example : ∃ s, Reach exCfg s ∧ (decide (s.pc 0 = .retd ∧ s.pc 1 = .wake ∧ s.calls = [0, 1])) = true :=
  reach_of_run exCfg (exTrace.take 24) _ (by decide)

/-- No deadlock and no lost wake-up: a reachable state in which some task has not exited has an
enabled step that is not a spurious wake-up (so the only states without successor are the final
ones, in which every runner has returned). -/
theorem no_deadlock (c : Cfg) (hn : 1 ≤ c.n) (s : State) (h : Reach c s) (hnf : ¬ final s) :
    ∃ t e, e ≠ Event.spurious ∧ ∃ s', step c s t e = some s' :=
  deadlock_free c hn s h hnf

example : ∃ s, Reach exCfg s ∧ (decide (s.pc 1 = .wake ∧ s.waiters = [1] ∧ s.pc 0 = .inF 1 0)) = true :=
  reach_of_run exCfg
    [(0, .start), (0, .lock), (0, .unlock), (0, .doCall 2), (0, .go 1), (0, .lock), (0, .rand 1 0), (0, .unlock),
     (0, .fEnter 0), (0, .lock), (0, .unlock), (0, .fExit 0), (1, .start), (0, .lock), (0, .rand 1 0), (0, .unlock),
     (0, .fEnter 1), (1, .lock), (1, .wait)] _ (by decide)

/-- Every step other than a spurious wake-up strictly decreases the measure
(work left in the tasks + pending wake-ups + queued items + items not added yet). -/
theorem step_decreases (c : Cfg) (hn : 1 ≤ c.n) (U : List Nat) (cl : Closed c U) (s s' : State) (h : Reach c s)
    (t : Nat) (e : Event) (hs : step c s t e = some s') (hsp : e ≠ .spurious) :
    measure c U s' < measure c U s := by
  have inv := inv_reach hn h
  have iT : InvT c U s := by
    clear hs inv
    induction h with
    | init => exact invT_init c U
    | step hr hs ih => exact invT_step cl (inv_reach hn hr) ih (step_sound hs)
  exact measure_decreases hn cl inv iT (step_sound hs) hsp

example : ∃ s, Reach exCfg s ∧ (decide (measure exCfg [0, 1] s = 69)) = true :=
  reach_of_run exCfg [(0, .start)] _ (by decide)

/-- at the end of the complete example run the measure is 0 -/
example : ∃ s, Reach exCfg s ∧ (decide (measure exCfg [0, 1] s = 0 ∧ s.pc 0 = .exited ∧ s.pc 1 = .exited)) = true :=
  reach_of_run exCfg exTrace _ (by decide)

/-- Termination: if the items reachable from the initial ones through `children` form a finite
set `U`, there is no infinite execution (of non-spurious steps), for any n ≥ 1 and any schedule;
in fact the i-th state of any execution has measure at most `measure init0 - i`. -/
theorem terminates (c : Cfg) (hn : 1 ≤ c.n) (U : List Nat) (cl : Closed c U) :
    ¬ ∃ (σ : Nat → State) (τ : Nat → Nat × Event), σ 0 = init0 ∧
      ∀ i, (τ i).2 ≠ .spurious ∧ step c (σ i) (τ i).1 (τ i).2 = some (σ (i + 1)) := by
  intro ⟨σ, τ, h0, hstep⟩
  have hr : ∀ i, Reach c (σ i) := by
    intro i
    induction i with
    | zero => rw [h0]; exact Reach.init
    | succ i ih => exact Reach.step ih (hstep i).2
  have hm : ∀ i, measure c U (σ i) + i ≤ measure c U (σ 0) := by
    intro i
    induction i with
    | zero => omega
    | succ i ih =>
      have := step_decreases c hn U cl (σ i) (σ (i + 1)) (hr i) (τ i).1 (τ i).2 (hstep i).2 (hstep i).1
      omega
  have := hm (measure c U (σ 0) + 1)
  omega

/-- the hypothesis of `terminates` is satisfiable: `[0, 1]` is closed for the example scenario,
and the bound it gives for that scenario is concrete -/
example : Closed exCfg [0, 1] ∧ measure exCfg [0, 1] init0 = 70 := by
  refine ⟨⟨by decide, ?_⟩, by decide⟩
  intro x hx y hy
  simp only [exCfg] at hy
  split at hy <;> simp_all

/-! ### no lost wake-up / work conservation -/

/-- `Add` calls `Signal()` whenever `w.waiting > 0`: the regenerated test (`if w.waiting > 0 { w.wait.Signal() }`
as the last statement of the guarded block) fires for every positive count, and in the model an `Add` of a
new item made while `w.waiting > 0` appends the item and goes on to `Signal()`.
(Only this direction: signalling more often is harmless.) -/
theorem add_signals_when_waiting :
    (∀ w : Int, 0 < w → (GIV.Gen.ParWork.signalWhenWaiting && GIV.Gen.ParWork.signalTest w) = true) ∧
    (∀ (s : State) (t : Nat) (k : Cont) (x : Item), x ∉ s.added → 0 < s.waiting →
      (addBody s t k x).pc t = .addSignal k ∧ (addBody s t k x).todo = s.todo ++ [x]) := by
  have h1 : ∀ w : Int, 0 < w → (GIV.Gen.ParWork.signalWhenWaiting && GIV.Gen.ParWork.signalTest w) = true := by
    intro w hw
    simp [GIV.Gen.ParWork.signalWhenWaiting, GIV.Gen.ParWork.signalTest, hw]
  refine ⟨h1, ?_⟩
  intro s t k x hx hw
  rw [addBody_pc, addBody_todo]
  simp [addPc, hx, h1 s.waiting hw]

/-- two runners are parked (`w.waiting = 2`) when `f 0` adds item 1: Add is about to call `Signal()` -/
example : ∃ s, Reach exCfg3 s ∧
    (decide (0 < s.waiting ∧ 1 ∉ s.added ∧ s.pc 0 = .inF 0 0 ∧ s.owner = none ∧
      (addBody { s with owner := some 0 } 0 (.inF 0 0) 1).pc 0 = .addSignal (.inF 0 0))) = true :=
  reach_of_run exCfg3 exWakeTrace.dropLast _ (by decide)

/-- What the hypothesis of `no_lost_wakeup` means: the wait set of the condition variable consists exactly of
the runners that are inside `Wait()` (program point `wake`: released the mutex, not yet re-acquired it) and
for which no wake-up — `Signal`, `Broadcast` or spurious — is under way. -/
theorem parked_unsignalled (c : Cfg) (hn : 1 ≤ c.n) (s : State) (h : Reach c s) (t : Nat) :
    t ∈ s.waiters ↔ s.pc t = .wake ∧ t ∉ s.woken :=
  waiters_iff (invL_reach hn h) (invW_reach add_signals_when_waiting.1 hn h) t

example : ∃ s, Reach exCfg3 s ∧ (decide (2 ∈ s.waiters ∧ s.pc 2 = .wake ∧ s.pc 1 = .wake ∧ 1 ∈ s.woken)) = true :=
  reach_of_run exCfg3 (exWakeTrace ++ [(0, .signal (some 1))]) _ (by decide)

/-- `inFlight s` is 1 exactly when the current holder of the mutex is `Add` between its `append` and its
`Signal()` (`addSignal`), or a runner between seeing `len(w.todo) != 0` and removing its item (`rand`);
it is 0 otherwise, in particular when the mutex is free. -/
theorem in_flight_spec (s : State) :
    (inFlight s = 1 ↔ ∃ t, s.owner = some t ∧ (s.pc t = .rand ∨ ∃ k, s.pc t = .addSignal k)) ∧
    (inFlight s ≠ 1 → inFlight s = 0) := by
  unfold inFlight inFlightOf
  cases ho : s.owner with
  | none => simp
  | some t0 =>
    cases hp : s.pc t0 <;> simp [Pc.inFlight, hp]

example : ∃ s, Reach exCfg3 s ∧ (decide (inFlight s = 1 ∧ s.owner = some 0 ∧ s.pc 0 = .addSignal (.inF 0 0))) = true :=
  reach_of_run exCfg3 exWakeTrace _ (by decide)

/-- No lost wake-up / work conservation.  In every reachable state (any n ≥ 1, any item graph, any
interleaving, spurious wake-ups included): whenever some runner is parked in the wait set of the
condition variable (by `parked_unsignalled`: inside `Wait()`, neither signalled nor spuriously woken),
the number of queued items is at most the number of wake-ups under way (runners taken out of the wait
set that have not re-acquired the mutex yet) plus the one operation in flight under the mutex
(`in_flight_spec`). So a runner never sleeps on while an item waits for which nobody has been woken. -/
theorem no_lost_wakeup (c : Cfg) (hn : 1 ≤ c.n) (s : State) (h : Reach c s) (t : Nat) (hpark : t ∈ s.waiters) :
    s.todo.length ≤ s.woken.length + inFlight s :=
  (invW_reach add_signals_when_waiting.1 hn h).conserve (List.ne_nil_of_mem hpark)

/-- tight: runners 1 and 2 are parked, `Add(1)` has appended and not yet signalled — one item, no wake-up yet, one operation in flight -/
example : ∃ s, Reach exCfg3 s ∧
    (decide (1 ∈ s.waiters ∧ s.todo = [1] ∧ s.woken = [] ∧ inFlight s = 1)) = true :=
  reach_of_run exCfg3 exWakeTrace _ (by decide)

/-- with a spurious wake-up of runner 1 before the Signal: runner 2 still parked, one item, one wake-up under way -/
example : ∃ s, Reach exCfg3 s ∧
    (decide (2 ∈ s.waiters ∧ s.todo = [1] ∧ s.woken = [1] ∧ inFlight s = 1)) = true :=
  reach_of_run exCfg3 (exWakeTrace ++ [(1, .spurious)]) _ (by decide)

/-- When the mutex is free, a runner sleeps unsignalled only if at least as many wake-ups are under way as
items are queued; in particular, if an item is queued then some OTHER runner has been woken, is still
inside `Wait()`, and its re-acquisition of the mutex is enabled. -/
theorem no_lost_wakeup_mutex_free (c : Cfg) (hn : 1 ≤ c.n) (s : State) (h : Reach c s) (t : Nat)
    (hpark : t ∈ s.waiters) (hfree : s.owner = none) :
    s.todo.length ≤ s.woken.length ∧
    (s.todo ≠ [] → ∃ u, u ∈ s.woken ∧ u ≠ t ∧ s.pc u = .wake ∧ ∃ s', step c s u .wake = some s') := by
  have w := invW_reach add_signals_when_waiting.1 hn h
  have h0 := no_lost_wakeup c hn s h t hpark
  rw [inFlight_free hfree] at h0
  refine ⟨h0, ?_⟩
  intro hne
  have hl : 0 < s.todo.length := List.length_pos_iff.mpr hne
  have hk : s.woken ≠ [] := by
    intro e; rw [e, List.length_nil] at h0; omega
  obtain ⟨u, hu⟩ := List.exists_mem_of_ne_nil _ hk
  have hc := w.cntW u
  have h1 : 0 < s.woken.count u := List.count_pos_iff.mpr hu
  have hpc : s.pc u = .wake := by
    apply Classical.byContradiction
    intro hn'; simp only [hn', if_false] at hc; omega
  refine ⟨u, hu, ?_, hpc, ?_⟩
  · intro e; subst e
    have h2 : 0 < s.waiters.count u := List.count_pos_iff.mpr hpark
    split at hc <;> omega
  · simp [step, shapeOK_true, hpc, hu, lockStep, hfree]

/-- runner 2 parked, mutex free, item 1 queued, runner 1 signalled and about to re-acquire the mutex -/
example : ∃ s, Reach exCfg3 s ∧
    (decide (2 ∈ s.waiters ∧ s.owner = none ∧ s.todo = [1] ∧ s.woken = [1])) = true :=
  reach_of_run exCfg3 (exWakeTrace ++ [(0, .signal (some 1)), (0, .unlock)]) _ (by decide)

/-! ### the outcome does not depend on the schedule -/

/-- the complete example run ends in a final state (every task exited) with `calls = [0, 1]` -/
theorem exFinal : ∃ s, Reach exCfg s ∧ final s ∧ s.calls = [0, 1] := by
  obtain ⟨s, hr, hP⟩ := reach_of_run exCfg exTrace
    (fun s => decide (s.pc 0 = .exited ∧ s.pc 1 = .exited ∧ s.calls = [0, 1])) (by decide)
  obtain ⟨h0, h1, hc⟩ := of_decide_eq_true hP
  refine ⟨s, hr, ?_, hc⟩
  intro (t : Nat)
  by_cases ht : t < 2
  · have : t = 0 ∨ t = 1 := by omega
    rcases this with e | e <;> subst e
    · exact Or.inl h0
    · exact Or.inl h1
  · right
    apply Classical.byContradiction
    intro hne
    exact ht ((inv_reach (c := exCfg) (by decide) hr).bound t hne)

/-- In every reachable state (any n ≥ 1, any item graph, any schedule) f has only been called on — and only
items have been added that are — items of the scenario: members of the least set `IsItem c` that contains the
initial items and is closed under `children` (what f adds); hence members of every closed `U`. -/
theorem called_only_items (c : Cfg) (hn : 1 ≤ c.n) (s : State) (h : Reach c s) :
    (∀ x, x ∈ s.calls → IsItem c x) ∧ (∀ x, x ∈ s.added → IsItem c x) ∧
    (∀ U, Closed c U → ∀ x, x ∈ s.calls → x ∈ U) := by
  have f := invF_reach hn h
  exact ⟨called_isItem f, added_isItem f, fun U cl x hx => (called_isItem f x hx).mem_closed cl⟩

example : ∃ s, Reach exCfg s ∧ (decide (s.calls = [0, 1] ∧ s.added = [1, 0])) = true :=
  reach_of_run exCfg exTrace _ (by decide)

/-- Schedule independence of the outcome.  For every n ≥ 1, every item graph and every reachable FINAL
state (all tasks have exited), whatever the interleaving, the choices of `rand.Intn` and the spurious
wake-ups were: the log of f-calls is duplicate free, and f was called on EXACTLY the items of the scenario —
every call is in every set `U` that contains the initial items and is closed under `children`, and every
element of the least such set `IsItem c` was called. -/
theorem final_calls_exactly_closure (c : Cfg) (hn : 1 ≤ c.n) (s : State) (h : Reach c s) (hf : final s) :
    s.calls.Nodup ∧ (∀ x, x ∈ s.calls ↔ IsItem c x) ∧ (∀ U, Closed c U → ∀ x, x ∈ s.calls → x ∈ U) := by
  have f := invF_reach hn h
  have inv := inv_reach hn h
  exact ⟨once c hn s h, fun x => ⟨called_isItem f x, final_isItem_called inv f hf x⟩,
    (called_only_items c hn s h).2.2⟩

example : ∃ s, Reach exCfg s ∧ final s ∧ s.calls = [0, 1] := exFinal

/-- the least closed set of the example scenario is {0, 1} -/
example : ∀ x, IsItem exCfg x ↔ x = 0 ∨ x = 1 := by
  intro x
  constructor
  · intro h
    have := h.mem_closed (U := [0, 1]) ⟨by decide, by
      intro x hx y hy
      simp only [exCfg] at hy
      split at hy <;> simp_all⟩
    simpa using this
  · intro h
    have h0 : IsItem exCfg 0 := .init (by decide)
    rcases h with e | e <;> subst e
    · exact h0
    · exact .child h0 (by decide)

/-- Two complete runs of the same scenario call f on the same items the same number of times (once):
the logs of f-calls of any two reachable final states are permutations of each other — the order depends on
the schedule, the multiset does not. -/
theorem final_calls_perm (c : Cfg) (hn : 1 ≤ c.n) (s₁ s₂ : State) (h₁ : Reach c s₁) (h₂ : Reach c s₂)
    (hf₁ : final s₁) (hf₂ : final s₂) : s₁.calls.Perm s₂.calls := by
  obtain ⟨d₁, m₁, _⟩ := final_calls_exactly_closure c hn s₁ h₁ hf₁
  obtain ⟨d₂, m₂, _⟩ := final_calls_exactly_closure c hn s₂ h₂ hf₂
  exact (List.perm_ext_iff_of_nodup d₁ d₂).mpr (fun x => (m₁ x).trans (m₂ x).symm)

example : ∃ s₁ s₂, Reach exCfg s₁ ∧ Reach exCfg s₂ ∧ final s₁ ∧ final s₂ := by
  obtain ⟨s, hr, hf, _⟩ := exFinal
  exact ⟨s, s, hr, hr, hf, hf⟩

/-! ### causality -/

/-- An item is only processed because someone added it: in every reachable state, every call in the log of
f-calls is a call on an initial item, or on a child of an item on which f had been entered EARLIER in the log
(its parent's call of f had started before). -/
theorem calls_prefix_closed (c : Cfg) (hn : 1 ≤ c.n) (s : State) (h : Reach c s)
    (l₁ : List Nat) (x : Nat) (l₂ : List Nat) (hc : s.calls = l₁ ++ x :: l₂) :
    x ∈ c.init ∨ ∃ p, p ∈ l₁ ∧ x ∈ c.children p :=
  (invF_reach hn h).causal l₁ x l₂ hc

example : ∃ s, Reach exCfg s ∧ (decide (s.calls = [0] ++ 1 :: [])) = true :=
  reach_of_run exCfg exTrace _ (by decide)

/-- The same for everything that was ever added (so also for what is queued or picked): an added item is an
initial one or a child of an item on which f has been entered; and a task is inside `f x` only after `x` was
logged as called. -/
theorem added_has_cause (c : Cfg) (hn : 1 ≤ c.n) (s : State) (h : Reach c s) :
    (∀ x, x ∈ s.added → x ∈ c.init ∨ ∃ p, p ∈ s.calls ∧ x ∈ c.children p) ∧
    (∀ t x, (s.pc t).parent = some x → x ∈ s.calls) :=
  ⟨(invF_reach hn h).addedWhy, (invF_reach hn h).parentCalled⟩

example : ∃ s, Reach exCfg s ∧ (decide (1 ∈ s.added ∧ 0 ∈ s.calls ∧ (s.pc 0).parent = some 0)) = true :=
  reach_of_run exCfg (exTrace.take 11) _ (by decide)

/-! ### the logs only grow -/

/-- Along any step `added` only grows at its head by at most one new item (the old list is a suffix of the
new one), and only by an `Add` (the `lock` event of a task whose next operation is `Add(x)`) of an item that
was not there. -/
theorem added_monotone (c : Cfg) (s s' : State) (t : Nat) (e : Event) (hs : step c s t e = some s') :
    s.added <:+ s'.added ∧
    (s'.added = s.added ∨ ∃ p k x, s.pc t = p ∧ AddCall c p k x ∧ e = .lock ∧ x ∉ s.added ∧ s'.added = x :: s.added) := by
  have h := step_sound hs
  have hl : s'.added ≠ s.added → e = .lock := by
    intro hne
    cases h <;> first | rfl | exact absurd rfl hne | exact absurd (loopHead_added _ _) hne
  rcases step_added h with h1 | ⟨p, k, x, h1, h2, h3, h4⟩
  · exact ⟨h1 ▸ List.suffix_refl _, Or.inl h1⟩
  · exact ⟨h4 ▸ List.suffix_cons _ _, Or.inr ⟨p, k, x, h1, h2, hl (by rw [h4]; simp), h3, h4⟩⟩

example : ∃ s, Reach exCfg s ∧ (decide (s.added = [0] ∧ (step exCfg s 0 .lock).isSome)) = true :=
  reach_of_run exCfg (exTrace.take 9) _ (by decide)

/-- Along any step the log of f-calls only grows at its end by at most one call (the old log is a prefix of the
new one), and only by the `f-enter` event of the task that picked the item. -/
theorem calls_monotone (c : Cfg) (s s' : State) (t : Nat) (e : Event) (hs : step c s t e = some s') :
    s.calls <+: s'.calls ∧
    (s'.calls = s.calls ∨ ∃ x, s.pc t = .fEnter x ∧ e = .fEnter x ∧ s'.calls = s.calls ++ [x]) := by
  rcases step_calls (step_sound hs) with h1 | ⟨x, h1, h2, h3⟩
  · exact ⟨h1 ▸ List.prefix_refl _, Or.inl h1⟩
  · exact ⟨h3 ▸ List.prefix_append _ _, Or.inr ⟨x, h1, h2, h3⟩⟩

example : ∃ s, Reach exCfg s ∧ (decide (s.calls = [0] ∧ (step exCfg s 0 (.fEnter 1)).isSome)) = true :=
  reach_of_run exCfg (exTrace.take 16) _ (by decide)

/-- What is queued was added (and so was what a runner has picked and not started yet). -/
theorem todo_subset_added (c : Cfg) (hn : 1 ≤ c.n) (s : State) (h : Reach c s) :
    (∀ x, x ∈ s.todo → x ∈ s.added) ∧ (∀ t x, (s.pc t).holds x = true → x ∈ s.added) :=
  ⟨todo_sub_added (inv_reach hn h), fun _ _ hx => holds_added (inv_reach hn h) hx⟩

example : ∃ s, Reach exCfg s ∧ (decide (s.todo = [1] ∧ s.added = [1, 0])) = true :=
  reach_of_run exCfg (exTrace.take 11) _ (by decide)

/-! ### Add -/

/-- the scenario `Do(1, f)` after `Add(0)`, where `f 0` calls `Add(0)` again -/
def exCfgDup : Cfg := { n := 1, init := [0], children := fun x => if x = 0 then [0] else [] }

/-- Duplicate adds are ignored.  When a task whose next operation is `Add(x)` (main before `Do`, or inside f)
acquires the mutex and `x` was added before, the successor state is the old state with the mutex held by `t`
and `t` at Add's `Unlock()`: nothing is queued, `added` and the log of calls are unchanged, `Signal()` is
skipped (the wait set and the woken set are unchanged, `t` is not at `addSignal`). -/
theorem duplicate_add_ignored (c : Cfg) (s s' : State) (t : Nat) (p : Pc) (k : Cont) (x : Item)
    (hp : s.pc t = p) (hcall : AddCall c p k x) (hs : step c s t .lock = some s') (hx : x ∈ s.added) :
    s' = ({ s with owner := some t } : State).setPc t (.addUnlock k) ∧
    s'.todo = s.todo ∧ s'.added = s.added ∧ s'.calls = s.calls ∧ s'.waiters = s.waiters ∧ s'.woken = s.woken ∧
    s'.waiting = s.waiting ∧ s'.pc t = .addUnlock k := by
  obtain ⟨_, rfl⟩ := step_add hs hp hcall
  have e : addBody { s with owner := some t } t k x = ({ s with owner := some t } : State).setPc t (.addUnlock k) := by
    rw [addBody_eq, if_pos hx]
  rw [e]
  exact ⟨rfl, rfl, rfl, rfl, rfl, rfl, rfl, by simp [State.setPc, upd]⟩

/-- `f 0` is about to `Add(0)`, which was added before `Do`: the step is enabled -/
example : AddCall exCfgDup (.inF 0 0) (.inF 0 0) 0 ∧ ∃ s, Reach exCfgDup s ∧
    (decide (s.pc 0 = .inF 0 0 ∧ 0 ∈ s.added ∧ (step exCfgDup s 0 .lock).isSome)) = true :=
  ⟨.inF rfl, reach_of_run exCfgDup
    [(0, .start), (0, .lock), (0, .unlock), (0, .doCall 1), (0, .lock), (0, .rand 1 0), (0, .unlock), (0, .fEnter 0)] _ (by decide)⟩

/-- The other case: an `Add(x)` of an item that was not added before puts `x` at the head of `added` and at the
end of the queue, leaves the log of calls alone, and is enabled exactly when the mutex is free. -/
theorem new_add_appends (c : Cfg) (s : State) (t : Nat) (p : Pc) (k : Cont) (x : Item)
    (hp : s.pc t = p) (hcall : AddCall c p k x) :
    ((∃ s', step c s t .lock = some s') ↔ s.owner = none) ∧
    (∀ s', step c s t .lock = some s' → x ∉ s.added →
      s'.added = x :: s.added ∧ s'.todo = s.todo ++ [x] ∧ s'.calls = s.calls) := by
  constructor
  · constructor
    · intro ⟨s', hs⟩; exact (step_add hs hp hcall).1
    · intro ho; exact ⟨_, step_add_enabled hp hcall ho⟩
  · intro s' hs hx
    obtain ⟨_, rfl⟩ := step_add hs hp hcall
    rw [addBody_added, addBody_todo, addBody_calls]
    simp [hx]

example : AddCall exCfg (.inF 0 0) (.inF 0 0) 1 ∧ ∃ s, Reach exCfg s ∧
    (decide (s.pc 0 = .inF 0 0 ∧ 1 ∉ s.added ∧ s.owner = none)) = true :=
  ⟨.inF rfl, reach_of_run exCfg (exTrace.take 9) _ (by decide)⟩

/-! ### when a runner returns -/

/-- Exactly when a runner decides to return.  Runner `t` evaluates the test
`len(w.todo) == 0 … w.waiting == w.running` when it has acquired the mutex at the top of its loop (`lockTop`,
event `lock`) or re-acquired it inside `Wait()` (`wake`, event `wake`).  In every reachable state the test
succeeds (`t` goes on to the final `Broadcast()`, `Unlock()` and `return`) IF AND ONLY IF nothing is queued and
every other runner `i < n` is counted in `w.waiting` (`Pc.inW`: it is about to call `Wait()`, is inside
`Wait()`, or has itself seen all done) — in particular no call of f is in progress or about to start;
otherwise `t` goes to `Wait()` (queue empty) or picks an item. -/
theorem returns_iff_all_done (c : Cfg) (hn : 1 ≤ c.n) (s s' : State) (h : Reach c s) (t : Nat) (e : Event)
    (hp : s.pc t = .lockTop ∨ s.pc t = .wake) (he : e ≠ .spurious) (hs : step c s t e = some s') :
    (s'.pc t = .bcast ↔ s.todo = [] ∧ ∀ i, i < c.n → i ≠ t → (s.pc i).inW = true) ∧
    (s'.pc t ≠ .bcast → (s'.pc t = .wait ∧ s.todo = []) ∨ (s'.pc t = .rand ∧ s.todo ≠ [])) := by
  have inv := inv_reach hn h
  have key : ∀ s1 : State, s1.todo = s.todo → s1.waiting + (if (s.pc t).inW then 1 else 0) = s.waiting →
      s1.running = s.running → s' = loopHead s1 t →
      (s'.pc t = .bcast ↔ s.todo = [] ∧ ∀ i, i < c.n → i ≠ t → (s.pc i).inW = true) ∧
      (s'.pc t ≠ .bcast → (s'.pc t = .wait ∧ s.todo = []) ∨ (s'.pc t = .rand ∧ s.todo ≠ [])) := by
    intro s1 h2 h3 h4 hs'
    have hpc : s'.pc t = loopPc s1 := by rw [hs', loopHead_pc]; simp [upd]
    rw [hpc]
    refine ⟨allDone_iff inv hp h2 h3 h4, ?_⟩
    unfold loopPc; rw [h2]
    split <;> (try split) <;> simp_all
  have hstep := step_sound hs
  rcases hp with hp | hp
  · cases hstep with
    | lockTop hpc ho => exact key { s with owner := some t } rfl (by simp [hpc, Pc.inW]) rfl rfl
    | addLock hpc hcall ho => rw [hp] at hpc; subst hpc; cases hcall
    | _ => simp_all
  · cases hstep with
    | wake hpc hw ho =>
      exact key { s with owner := some t, woken := s.woken.erase t, waiting := s.waiting - 1 } rfl
        (by simp [hpc, Pc.inW]) rfl rfl
    | spurious hpc hw => exact absurd rfl he
    | addLock hpc hcall ho => rw [hp] at hpc; subst hpc; cases hcall
    | _ => simp_all

/-- runner 0 is at the top of its loop, nothing is queued, runner 1 is inside `Wait()`: the `lock` step is
enabled and leads to the final `Broadcast()` -/
example : ∃ s, Reach exCfg s ∧
    (decide (s.pc 0 = .lockTop ∧ s.todo = [] ∧ (s.pc 1).inW = true ∧
      (step exCfg s 0 .lock).map (fun s' => s'.pc 0) = some .bcast)) = true :=
  reach_of_run exCfg (exTrace.take 20) _ (by decide)

/-- The converse direction as an enabledness statement: if runner `t` is at the top of its loop, nothing is
queued and every other runner is parked inside `Wait()`, then `t`'s `lock` step IS enabled and takes the
return path; and `Do`'s own `do-return` event is enabled exactly when task 0 has returned from its runner loop
— at which point nothing remains to do (`do_returns_late`). -/
theorem return_enabled (c : Cfg) (hn : 1 ≤ c.n) (s : State) (h : Reach c s) :
    (∀ t, s.pc t = .lockTop → s.todo = [] → (∀ i, i < c.n → i ≠ t → s.pc i = .wake) →
      ∃ s', step c s t .lock = some s' ∧ s'.pc t = .bcast) ∧
    ((∃ s', step c s 0 .doReturn = some s') ↔ s.pc 0 = .returned) := by
  have inv := inv_reach hn h
  have l := invL_reach hn h
  constructor
  · intro t hp htodo hall
    have ho : s.owner = none := by
      cases hown : s.owner with
      | none => rfl
      | some u =>
        exfalso
        have hh := l.own_holder u hown
        by_cases hut : u = t
        · subst hut; rw [hp] at hh; simp [Pc.holder] at hh
        · have hu : u < c.n := inv.bound u (by intro e; rw [e] at hh; simp [Pc.holder] at hh)
          rw [hall u hu hut] at hh; simp [Pc.holder] at hh
    have hs : step c s t .lock = some (loopHead { s with owner := some t } t) := by
      simp [step, shapeOK_true, hp, lockStep, ho]
    refine ⟨_, hs, ?_⟩
    exact ((returns_iff_all_done c hn s _ h t .lock (Or.inl hp) (by simp) hs).1).mpr
      ⟨htodo, fun i hi hit => by rw [hall i hi hit]; rfl⟩
  · constructor
    · intro ⟨s', hs⟩
      have := step_sound hs
      cases this with
      | doReturn hpc _ => exact hpc
    · intro hp
      exact ⟨s.setPc 0 .retd, by simp [step, shapeOK_true, hp]⟩

example : ∃ s, Reach exCfg s ∧ (decide (s.pc 0 = .lockTop ∧ s.todo = [] ∧ s.pc 1 = .wake)) = true :=
  reach_of_run exCfg (exTrace.take 20) _ (by decide)

example : ∃ s, Reach exCfg s ∧ (decide (s.pc 0 = .returned ∧ (step exCfg s 0 .doReturn).isSome)) = true :=
  reach_of_run exCfg (exTrace.take 23) _ (by decide)

/-- Hence along ANY finite execution σ 0 → σ 1 → … → σ m (from any state): what was added / called at
time i is still there, in the same order, at every later time j. -/
theorem logs_monotone_trace (c : Cfg) (m : Nat) (σ : Nat → State) (τ : Nat → Nat × Event)
    (hstep : ∀ i, i < m → step c (σ i) (τ i).1 (τ i).2 = some (σ (i + 1))) (i j : Nat) (hij : i ≤ j) (hjm : j ≤ m) :
    (σ i).added <:+ (σ j).added ∧ (σ i).calls <+: (σ j).calls := by
  induction j with
  | zero =>
    have : i = 0 := by omega
    subst this; exact ⟨List.suffix_refl _, List.prefix_refl _⟩
  | succ j ih =>
    by_cases e : i = j + 1
    · subst e; exact ⟨List.suffix_refl _, List.prefix_refl _⟩
    · obtain ⟨a, b⟩ := ih (by omega) (by omega)
      have hs := hstep j (by omega)
      exact ⟨a.trans (added_monotone c _ _ _ _ hs).1, b.trans (calls_monotone c _ _ _ _ hs).1⟩

/-- a two-step execution of the example scenario exists (`start`, then the `lock` of `Add(0)`) and adds item 0 -/
example : (runFrom exCfg init0 [(0, .start), (0, .lock)]).map (fun s => decide (s.added = [0])) = some true := by
  decide

/-! ### calls in progress versus items -/

/-- The number of calls of f in progress (counted over any number of task slots) is not only at most n
(`at_most_n`) but also at most the number of calls started, and together with the queued items and the items
picked by a runner that has not entered f yet (`Pc.holdsSome`) at most the number of items added: every
added item is in exactly one of the places queued / picked / called (`calls` = in progress + finished).  So with
fewer items than workers at most that many workers are ever inside f; the surplus workers are idle. -/
theorem in_progress_le_min (c : Cfg) (hn : 1 ≤ c.n) (s : State) (h : Reach c s) (N : Nat) :
    cnt Pc.insideF s.pc N ≤ min c.n s.calls.length ∧
    s.todo.length + cnt Pc.holdsSome s.pc c.n + s.calls.length = s.added.length ∧
    cnt Pc.insideF s.pc N + s.todo.length + cnt Pc.holdsSome s.pc c.n ≤ s.added.length := by
  have inv := inv_reach hn h
  have e := invE_reach hn h
  have h1 : cnt Pc.insideF s.pc N ≤ cnt Pc.insideF s.pc c.n := by
    apply cnt_beyond
    intro i hi
    cases hp : s.pc i with
    | absent => rfl
    | _ => exact absurd (inv.bound i (by rw [hp]; simp)) (by omega)
  have h2 := e.inProg
  have h3 := e.bal
  have h4 := at_most_n c hn s h N
  exact ⟨by omega, h3, by omega⟩

/-- two workers, one item added so far and its call in progress: exactly one worker is inside f -/
example : ∃ s, Reach exCfg s ∧
    (decide (cnt Pc.insideF s.pc 5 = 1 ∧ s.calls.length = 1 ∧ s.added.length = 1 ∧ s.todo = [])) = true :=
  reach_of_run exCfg (exTrace.take 9) _ (by decide)

end GIV.C09
