/-
  C09 — par.Work runs every item exactly once and returns only when all are done.

  All theorems are about every reachable state of the transition system GIV.Model.ParWork
  (`Reach c s`: any interleaving of the n runners and of the Adds made from inside f, any choice
  of rand.Intn, spurious wake-ups included), for every n ≥ 1 and every item graph.
-/
import GIV.Lemmas.ParWorkInv
import GIV.Lemmas.ParWorkRun
import GIV.Lemmas.ParWorkDeadlock
import GIV.Lemmas.ParWorkMeasure
import GIV.Lemmas.ParWorkWake
namespace GIV.C09
open GIV.ParWork

/-- f is called at most once per item: the log of f-calls has no duplicates. -/
theorem once (c : Cfg) (hn : 1 ≤ c.n) (s : State) (h : Reach c s) : s.calls.Nodup := by
  have inv := inv_reach hn h
  apply List.nodup_iff_count.mpr
  intro x
  have := inv.items x
  split at this <;> omega

example : ∃ s, Reach exCfg s ∧ (decide (s.calls = [0, 1])) = true := reach_of_run exCfg exTrace _ (by decide)

/-- f is only called on items that were added, and what was added is, at any time, exactly
what is queued, picked but not yet started, or called — each item in one place only. -/
theorem only_added (c : Cfg) (hn : 1 ≤ c.n) (s : State) (h : Reach c s) :
    (∀ x, x ∈ s.calls → x ∈ s.added) ∧
    (∀ x, x ∈ s.added → x ∈ s.todo ∨ x ∈ s.calls ∨ ∃ t, t < c.n ∧ (s.pc t).holds x = true) := by
  have inv := inv_reach hn h
  constructor
  · intro x hx
    have := inv.items x
    have hc : 0 < s.calls.count x := List.count_pos_iff.mpr hx
    split at this
    · assumption
    · omega
  · intro x hx
    have := inv.items x
    rw [if_pos hx] at this
    by_cases h1 : 0 < s.todo.count x
    · exact Or.inl (List.count_pos_iff.mp h1)
    · by_cases h2 : 0 < s.calls.count x
      · exact Or.inr (Or.inl (List.count_pos_iff.mp h2))
      · right; right
        have h3 : cnt (Pc.holds x) s.pc c.n ≠ 0 := by omega
        apply Classical.byContradiction
        intro hne
        apply h3
        apply cnt_eq_zero
        intro i hi
        cases hh : (s.pc i).holds x with
        | false => rfl
        | true => exact absurd ⟨i, hi, hh⟩ hne

example : ∃ s, Reach exCfg s ∧ (decide (s.added = [1, 0] ∧ s.calls = [0] ∧ s.todo = [1])) = true :=
  reach_of_run exCfg (exTrace.take 11) _ (by decide)

/-- never more than n calls of f in progress (counted over any number of task slots). -/
theorem at_most_n (c : Cfg) (hn : 1 ≤ c.n) (s : State) (h : Reach c s) (N : Nat) :
    cnt Pc.insideF s.pc N ≤ c.n := by
  have inv := inv_reach hn h
  apply cnt_bound
  intro i hi
  cases hp : s.pc i with
  | absent => rfl
  | _ => exact absurd (inv.bound i (by rw [hp]; simp)) (by omega)

example : ∃ s, Reach exCfg s ∧ (decide (cnt Pc.insideF s.pc 5 = 1)) = true :=
  reach_of_run exCfg (exTrace.take 10) _ (by decide)

/-- When a runner has returned — in particular when `Do` has returned (`pc 0 = retd`) — nothing
is left to do, no call of f is in flight or about to start, and f was called on every added item. -/
theorem do_returns_late (c : Cfg) (hn : 1 ≤ c.n) (s : State) (h : Reach c s) (t : Nat)
    (hret : s.pc t = .returned ∨ s.pc t = .retd ∨ s.pc t = .exited) :
    s.todo = [] ∧ (∀ i, (s.pc i).insideF = false ∧ ∀ x, (s.pc i).holds x = false) ∧ (∀ x, x ∈ s.added → x ∈ s.calls) := by
  have inv := inv_reach hn h
  have hd : (s.pc t).isDone = true := by rcases hret with h | h | h <;> rw [h] <;> rfl
  obtain ⟨h1, _, h3⟩ := inv.doneAll t hd
  have hall : ∀ i, (s.pc i).insideF = false ∧ ∀ x, (s.pc i).holds x = false := by
    intro i
    by_cases hi : i < c.n
    · have := h3 i hi
      cases hp : s.pc i <;> simp_all [Pc.inW, Pc.insideF, Pc.holds]
    · have : s.pc i = .absent := by
        cases hp : s.pc i with
        | absent => rfl
        | _ => exact absurd (inv.bound i (by rw [hp]; simp)) hi
      rw [this]; exact ⟨rfl, fun _ => rfl⟩
  refine ⟨h1, hall, ?_⟩
  intro x hx
  have := inv.items x
  rw [if_pos hx, h1, cnt_eq_zero _ _ _ (fun i _ => (hall i).2 x)] at this
  apply List.count_pos_iff.mp
  simp at this
  omega

example : ∃ s, Reach exCfg s ∧ (decide (s.pc 0 = .retd ∧ s.pc 1 = .wake ∧ s.calls = [0, 1])) = true :=
  reach_of_run exCfg (exTrace.take 24) _ (by decide)

/-- No deadlock and no lost wake-up: a reachable state in which some task has not exited has an
enabled step that is not a spurious wake-up (so the only states without successor are the final
ones, in which every runner has returned). -/
theorem no_deadlock (c : Cfg) (hn : 1 ≤ c.n) (s : State) (h : Reach c s) (hnf : ¬ final s) :
    ∃ t e, e ≠ Event.spurious ∧ ∃ s', step c s t e = some s' :=
  deadlock_free c hn s h hnf

example : ∃ s, Reach exCfg s ∧ (decide (s.pc 1 = .wake ∧ s.waiters = [1] ∧ s.pc 0 = .inF 1 0)) = true :=
  reach_of_run exCfg
    [(0, .start), (0, .lock), (0, .unlock), (0, .doCall 2), (0, .go 1), (0, .lock), (0, .rand 1 0), (0, .unlock),
     (0, .fEnter 0), (0, .lock), (0, .unlock), (0, .fExit 0), (1, .start), (0, .lock), (0, .rand 1 0), (0, .unlock),
     (0, .fEnter 1), (1, .lock), (1, .wait)] _ (by decide)

/-- Every step other than a spurious wake-up strictly decreases the measure
(work left in the tasks + pending wake-ups + queued items + items not added yet). -/
theorem step_decreases (c : Cfg) (hn : 1 ≤ c.n) (U : List Nat) (cl : Closed c U) (s s' : State) (h : Reach c s)
    (t : Nat) (e : Event) (hs : step c s t e = some s') (hsp : e ≠ .spurious) :
    measure c U s' < measure c U s := by
  have inv := inv_reach hn h
  have iT : InvT c U s := by
    clear hs inv
    induction h with
    | init => exact invT_init c U
    | step hr hs ih => exact invT_step cl (inv_reach hn hr) ih (step_sound hs)
  exact measure_decreases hn cl inv iT (step_sound hs) hsp

example : ∃ s, Reach exCfg s ∧ (decide (measure exCfg [0, 1] s = 69)) = true :=
  reach_of_run exCfg [(0, .start)] _ (by decide)

/-- at the end of the complete example run the measure is 0 -/
example : ∃ s, Reach exCfg s ∧ (decide (measure exCfg [0, 1] s = 0 ∧ s.pc 0 = .exited ∧ s.pc 1 = .exited)) = true :=
  reach_of_run exCfg exTrace _ (by decide)

/-- Termination: if the items reachable from the initial ones through `children` form a finite
set `U`, there is no infinite execution (of non-spurious steps), for any n ≥ 1 and any schedule;
in fact the i-th state of any execution has measure at most `measure init0 - i`. -/
theorem terminates (c : Cfg) (hn : 1 ≤ c.n) (U : List Nat) (cl : Closed c U) :
    ¬ ∃ (σ : Nat → State) (τ : Nat → Nat × Event), σ 0 = init0 ∧
      ∀ i, (τ i).2 ≠ .spurious ∧ step c (σ i) (τ i).1 (τ i).2 = some (σ (i + 1)) := by
  intro ⟨σ, τ, h0, hstep⟩
  have hr : ∀ i, Reach c (σ i) := by
    intro i
    induction i with
    | zero => rw [h0]; exact Reach.init
    | succ i ih => exact Reach.step ih (hstep i).2
  have hm : ∀ i, measure c U (σ i) + i ≤ measure c U (σ 0) := by
    intro i
    induction i with
    | zero => omega
    | succ i ih =>
      have := step_decreases c hn U cl (σ i) (σ (i + 1)) (hr i) (τ i).1 (τ i).2 (hstep i).2 (hstep i).1
      omega
  have := hm (measure c U (σ 0) + 1)
  omega

/-- the hypothesis of `terminates` is satisfiable: `[0, 1]` is closed for the example scenario,
and the bound it gives for that scenario is concrete -/
example : Closed exCfg [0, 1] ∧ measure exCfg [0, 1] init0 = 70 := by
  refine ⟨⟨by decide, ?_⟩, by decide⟩
  intro x hx y hy
  simp only [exCfg] at hy
  split at hy <;> simp_all

/-! ### no lost wake-up / work conservation -/

/-- `Add` calls `Signal()` whenever `w.waiting > 0`: the regenerated test (`if w.waiting > 0 { w.wait.Signal() }`
as the last statement of the guarded block) fires for every positive count, and in the model an `Add` of a
new item made while `w.waiting > 0` appends the item and goes on to `Signal()`.
(Only this direction: signalling more often is harmless.) -/
theorem add_signals_when_waiting :
    (∀ w : Int, 0 < w → (GIV.Gen.ParWork.signalWhenWaiting && GIV.Gen.ParWork.signalTest w) = true) ∧
    (∀ (s : State) (t : Nat) (k : Cont) (x : Item), x ∉ s.added → 0 < s.waiting →
      (addBody s t k x).pc t = .addSignal k ∧ (addBody s t k x).todo = s.todo ++ [x]) := by
  have h1 : ∀ w : Int, 0 < w → (GIV.Gen.ParWork.signalWhenWaiting && GIV.Gen.ParWork.signalTest w) = true := by
    intro w hw
    simp [GIV.Gen.ParWork.signalWhenWaiting, GIV.Gen.ParWork.signalTest, hw]
  refine ⟨h1, ?_⟩
  intro s t k x hx hw
  rw [addBody_pc, addBody_todo]
  simp [addPc, hx, h1 s.waiting hw]

/-- two runners are parked (`w.waiting = 2`) when `f 0` adds item 1: Add is about to call `Signal()` -/
example : ∃ s, Reach exCfg3 s ∧
    (decide (0 < s.waiting ∧ 1 ∉ s.added ∧ s.pc 0 = .inF 0 0 ∧ s.owner = none ∧
      (addBody { s with owner := some 0 } 0 (.inF 0 0) 1).pc 0 = .addSignal (.inF 0 0))) = true :=
  reach_of_run exCfg3 exWakeTrace.dropLast _ (by decide)

/-- What the hypothesis of `no_lost_wakeup` means: the wait set of the condition variable consists exactly of
the runners that are inside `Wait()` (program point `wake`: released the mutex, not yet re-acquired it) and
for which no wake-up — `Signal`, `Broadcast` or spurious — is under way. -/
theorem parked_unsignalled (c : Cfg) (hn : 1 ≤ c.n) (s : State) (h : Reach c s) (t : Nat) :
    t ∈ s.waiters ↔ s.pc t = .wake ∧ t ∉ s.woken :=
  waiters_iff (invL_reach hn h) (invW_reach add_signals_when_waiting.1 hn h) t

example : ∃ s, Reach exCfg3 s ∧ (decide (2 ∈ s.waiters ∧ s.pc 2 = .wake ∧ s.pc 1 = .wake ∧ 1 ∈ s.woken)) = true :=
  reach_of_run exCfg3 (exWakeTrace ++ [(0, .signal (some 1))]) _ (by decide)

/-- `inFlight s` is 1 exactly when the current holder of the mutex is `Add` between its `append` and its
`Signal()` (`addSignal`), or a runner between seeing `len(w.todo) != 0` and removing its item (`rand`);
it is 0 otherwise, in particular when the mutex is free. -/
theorem in_flight_spec (s : State) :
    (inFlight s = 1 ↔ ∃ t, s.owner = some t ∧ (s.pc t = .rand ∨ ∃ k, s.pc t = .addSignal k)) ∧
    (inFlight s ≠ 1 → inFlight s = 0) := by
  unfold inFlight inFlightOf
  cases ho : s.owner with
  | none => simp
  | some t0 =>
    cases hp : s.pc t0 <;> simp [Pc.inFlight, hp]

example : ∃ s, Reach exCfg3 s ∧ (decide (inFlight s = 1 ∧ s.owner = some 0 ∧ s.pc 0 = .addSignal (.inF 0 0))) = true :=
  reach_of_run exCfg3 exWakeTrace _ (by decide)

/-- No lost wake-up / work conservation.  In every reachable state (any n ≥ 1, any item graph, any
interleaving, spurious wake-ups included): whenever some runner is parked in the wait set of the
condition variable (by `parked_unsignalled`: inside `Wait()`, neither signalled nor spuriously woken),
the number of queued items is at most the number of wake-ups under way (runners taken out of the wait
set that have not re-acquired the mutex yet) plus the one operation in flight under the mutex
(`in_flight_spec`). So a runner never sleeps on while an item waits for which nobody has been woken. -/
theorem no_lost_wakeup (c : Cfg) (hn : 1 ≤ c.n) (s : State) (h : Reach c s) (t : Nat) (hpark : t ∈ s.waiters) :
    s.todo.length ≤ s.woken.length + inFlight s :=
  (invW_reach add_signals_when_waiting.1 hn h).conserve (List.ne_nil_of_mem hpark)

/-- tight: runners 1 and 2 are parked, `Add(1)` has appended and not yet signalled — one item, no wake-up yet, one operation in flight -/
example : ∃ s, Reach exCfg3 s ∧
    (decide (1 ∈ s.waiters ∧ s.todo = [1] ∧ s.woken = [] ∧ inFlight s = 1)) = true :=
  reach_of_run exCfg3 exWakeTrace _ (by decide)

/-- with a spurious wake-up of runner 1 before the Signal: runner 2 still parked, one item, one wake-up under way -/
example : ∃ s, Reach exCfg3 s ∧
    (decide (2 ∈ s.waiters ∧ s.todo = [1] ∧ s.woken = [1] ∧ inFlight s = 1)) = true :=
  reach_of_run exCfg3 (exWakeTrace ++ [(1, .spurious)]) _ (by decide)

/-- When the mutex is free, a runner sleeps unsignalled only if at least as many wake-ups are under way as
items are queued; in particular, if an item is queued then some OTHER runner has been woken, is still
inside `Wait()`, and its re-acquisition of the mutex is enabled. -/
theorem no_lost_wakeup_mutex_free (c : Cfg) (hn : 1 ≤ c.n) (s : State) (h : Reach c s) (t : Nat)
    (hpark : t ∈ s.waiters) (hfree : s.owner = none) :
    s.todo.length ≤ s.woken.length ∧
    (s.todo ≠ [] → ∃ u, u ∈ s.woken ∧ u ≠ t ∧ s.pc u = .wake ∧ ∃ s', step c s u .wake = some s') := by
  have w := invW_reach add_signals_when_waiting.1 hn h
  have h0 := no_lost_wakeup c hn s h t hpark
  rw [inFlight_free hfree] at h0
  refine ⟨h0, ?_⟩
  intro hne
  have hl : 0 < s.todo.length := List.length_pos_iff.mpr hne
  have hk : s.woken ≠ [] := by
    intro e; rw [e, List.length_nil] at h0; omega
  obtain ⟨u, hu⟩ := List.exists_mem_of_ne_nil _ hk
  have hc := w.cntW u
  have h1 : 0 < s.woken.count u := List.count_pos_iff.mpr hu
  have hpc : s.pc u = .wake := by
    apply Classical.byContradiction
    intro hn'; simp only [hn', if_false] at hc; omega
  refine ⟨u, hu, ?_, hpc, ?_⟩
  · intro e; subst e
    have h2 : 0 < s.waiters.count u := List.count_pos_iff.mpr hpark
    split at hc <;> omega
  · simp [step, shapeOK_true, hpc, hu, lockStep, hfree]

/-- runner 2 parked, mutex free, item 1 queued, runner 1 signalled and about to re-acquire the mutex -/
example : ∃ s, Reach exCfg3 s ∧
    (decide (2 ∈ s.waiters ∧ s.owner = none ∧ s.todo = [1] ∧ s.woken = [1])) = true :=
  reach_of_run exCfg3 (exWakeTrace ++ [(0, .signal (some 1)), (0, .unlock)]) _ (by decide)

end GIV.C09
