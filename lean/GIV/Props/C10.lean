/-
  C10 — par.Cache computes each key once and publishes the result safely.

  All theorems are about every reachable state / every execution of the transition system
  GIV.Model.ParCache: any number of goroutines, each running any finite list of `Do k` / `Get k`
  calls on any keys, under every interleaving of their map / atomic / mutex operations and of the
  plain write and reads of `e.result`.  Progress (deadlock freedom, who blocks a `Do`, termination) is at
  the end of the file; its lemmas are in GIV.Lemmas.ParCacheLive.
-/
import GIV.Lemmas.ParCacheLive
namespace GIV.C10
open GIV.ParCache

theorem fcalls_le_one {s : State} (inv : Inv s) (k : Nat) : (s.key k).fcalls ≤ 1 := by
  rcases inv.doneVal k with h0 | h1
  · rcases inv.fresh k h0 with h | ⟨t1, h1⟩
    · omega
    · cases hp : s.pc t1 <;> rw [hp] at h1 <;> simp [Pc.inCall] at h1
      · subst h1; have := (inv.inFPt t1 _ _ hp).2.2; omega
      · subst h1; have := (inv.writePt t1 _ _ hp).2.2.1; omega
      · subst h1; have := (inv.storePt t1 _ hp).2.2.1; omega
  · have := (inv.published k h1).1; omega

/-- f is invoked at most once per key — in every execution the trace contains at most one
`f-enter k` event — and exactly once as soon as some `Do k` returns. -/
theorem f_once (c : Cfg) (tr : List (Nat × Event)) (s : State) (h : Exec c tr s) (k : Nat) :
    tr.countP (fun te => te.2 == Event.fEnter k) ≤ 1 ∧
    (∀ t v s', step c s t (.doReturn k v) = some s' → tr.countP (fun te => te.2 == Event.fEnter k) = 1) := by
  have inv := inv_reach h.reach
  rw [← exec_fcalls h k]
  refine ⟨fcalls_le_one inv k, ?_⟩
  intro t v s' hs
  have st := step_sound hs
  cases st with
  | doReturn hpc => exact (inv.published k (inv.readPt t k (Or.inl hpc))).1

example : ∃ s, Reach exCfg s ∧ (decide ((s.key 0).fcalls = 1 ∧ s.pc 0 = .exited ∧ s.pc 1 = .exited)) = true :=
  reach_of_run exCfg exTrace _ (by decide)

/-- `Do k` returns the value of the one completed invocation of f: when the `do-return k v` step
happens, f has returned (`fret`) exactly that value — which is the value the scenario's f produces on
its FIRST invocation (`none`, Go's nil, for a nil key) —, `done` is set and f ran once. -/
theorem do_returns_value (c : Cfg) (s s' : State) (h : Reach c s) (t : Nat) (k : Nat) (v : Option Val)
    (hs : step c s t (.doReturn k v) = some s') :
    v = c.fval k 1 ∧ (s.key k).fret = some v ∧ (s.key k).done = 1 ∧ (s.key k).fcalls = 1 := by
  have inv := inv_reach h
  have st := step_sound hs
  cases st with
  | doReturn hpc =>
    have hd := inv.readPt t k (Or.inl hpc)
    obtain ⟨h1, h2⟩ := inv.published k hd
    exact ⟨(valinv_reach h).fretVal k _ h2, h2, hd, h1⟩

example : ∃ s, Reach exCfg s ∧ (decide (s.pc 1 = .dRet 0 ∧ (s.key 0).result = some ⟨0, 1⟩)) = true :=
  reach_of_run exCfg (exTrace.take 22) _ (by decide)

/-- Safe publication: a task that is about to read `e.result` (in `Do` or `Get`) has seen `done = 1`;
at that moment the result holds the value f returned (nil included: `fret = some result`), and no task is at (or before) the plain write
of `e.result` for that key — the write happened before the atomic store the reader observed. -/
theorem publication (c : Cfg) (s : State) (h : Reach c s) (t : Nat) (k : Nat)
    (hr : s.pc t = .dRet k ∨ s.pc t = .gRet k) :
    (s.key k).done = 1 ∧ (s.key k).fret = some (s.key k).result ∧
    ∀ (t' : Nat) v, s.pc t' ≠ .dWrite k v ∧ s.pc t' ≠ .dInF k v ∧ s.pc t' ≠ .dFEnter k := by
  have inv := inv_reach h
  have hd := inv.readPt t k hr
  obtain ⟨_, h2⟩ := inv.published k hd
  refine ⟨hd, h2, ?_⟩
  intro t' v
  refine ⟨?_, ?_, ?_⟩
  · intro hp; have := (inv.writePt t' k v hp).2.1; omega
  · intro hp; have := (inv.inFPt t' k v hp).2.1; omega
  · intro hp; have := (inv.fEnterPt t' k hp).2.1; omega

example : ∃ s, Reach exCfg s ∧ (decide (s.pc 1 = .gRet 0 ∧ (s.key 0).done = 1)) = true :=
  reach_of_run exCfg (exTrace.take 26) _ (by decide)

/-- Mutual exclusion of the critical section (used by the above; stated for completeness): two
tasks between `Lock` and `Unlock` of the same entry are the same task. -/
theorem critical_section_exclusive (c : Cfg) (s : State) (h : Reach c s) (t t' : Nat) (k : Nat)
    (h1 : s.pc t = .dLoad2 k ∨ s.pc t = .dFEnter k ∨ s.pc t = .dStore k ∨ s.pc t = .dUnlock k ∨
      (∃ v, s.pc t = .dInF k v) ∨ ∃ v, s.pc t = .dWrite k v)
    (h2 : s.pc t' = .dLoad2 k ∨ s.pc t' = .dFEnter k ∨ s.pc t' = .dStore k ∨ s.pc t' = .dUnlock k ∨
      (∃ v, s.pc t' = .dInF k v) ∨ ∃ v, s.pc t' = .dWrite k v) : t = t' := by
  have inv := inv_reach h
  have own : ∀ i : Nat, (s.pc i = .dLoad2 k ∨ s.pc i = .dFEnter k ∨ s.pc i = .dStore k ∨ s.pc i = .dUnlock k ∨
      (∃ v, s.pc i = .dInF k v) ∨ ∃ v, s.pc i = .dWrite k v) → (s.key k).owner = some i := by
    intro i hi
    rcases hi with h | h | h | h | ⟨v, h⟩ | ⟨v, h⟩
    · exact inv.load2Pt i k h
    · exact (inv.fEnterPt i k h).1
    · exact (inv.storePt i k h).1
    · exact (inv.unlockPt i k h).1
    · exact (inv.inFPt i k v h).1
    · exact (inv.writePt i k v h).1
  have a := own t h1
  rw [own t' h2] at a
  exact (Option.some.inj a).symm

example : ∃ s, Reach exCfg s ∧ (decide (s.pc 0 = .dInF 0 (some ⟨0, 1⟩) ∧ s.pc 1 = .dLock 0)) = true :=
  reach_of_run exCfg (exTrace.take 13) _ (by decide)

/-- `Get` never blocks: in every reachable state a task inside `Get` has an enabled step. -/
theorem get_nonblocking (c : Cfg) (s : State) (_h : Reach c s) (t : Nat) (hg : (s.pc t).inGet = true) :
    ∃ e s', step c s t e = some s' := by
  cases hp : s.pc t <;> rw [hp] at hg <;> simp [Pc.inGet] at hg
  · rename_i k; exact ⟨.mapLoad k (s.key k).alloc, by simp [step, hp, shapeOK_true]⟩
  · rename_i k; exact ⟨.atomicLoad k (s.key k).done, by simp [step, hp, shapeOK_true]⟩
  · rename_i k; exact ⟨.getReturn k none, by simp [step, hp, shapeOK_true]⟩
  · rename_i k; exact ⟨.getReturn k (s.key k).result, by simp [step, hp, shapeOK_true]⟩

example : ∃ s, Reach exCfg s ∧ (decide ((s.pc 1).inGet = true)) = true :=
  reach_of_run exCfg (exTrace.take 25) _ (by decide)

/-- `Get k` returns nil or the value of the one invocation of f (and then `done` is set). -/
theorem get_nil_or_value (c : Cfg) (s s' : State) (h : Reach c s) (t : Nat) (k : Nat) (v : Option Val)
    (hs : step c s t (.getReturn k v) = some s') :
    v = none ∨ (v = c.fval k 1 ∧ (s.key k).fret = some v ∧ (s.key k).done = 1 ∧ (s.key k).fcalls = 1) := by
  have inv := inv_reach h
  have st := step_sound hs
  cases st with
  | getNil hpc => exact Or.inl rfl
  | getVal hpc =>
    right
    have hd := inv.readPt t k (Or.inr hpc)
    obtain ⟨h1, h2⟩ := inv.published k hd
    exact ⟨(valinv_reach h).fretVal k _ h2, h2, hd, h1⟩

example : ∃ s, Reach exCfg s ∧ (decide (s.pc 1 = .gRet 0 ∧ (s.key 0).result = some ⟨0, 1⟩)) = true :=
  reach_of_run exCfg (exTrace.take 26) _ (by decide)

/-- No `Do k` returns before the one call of f has returned: while f is running (or about to run, or
its result is not yet published) for key k, no task is at the return of `Do k`/`Get k` with a value. -/
theorem no_return_before_f (c : Cfg) (s : State) (h : Reach c s) (t t' : Nat) (k : Nat)
    (hf : s.pc t = .dFEnter k ∨ (∃ v, s.pc t = .dInF k v) ∨ (∃ v, s.pc t = .dWrite k v) ∨ s.pc t = .dStore k) :
    s.pc t' ≠ .dRet k ∧ s.pc t' ≠ .gRet k := by
  have inv := inv_reach h
  have hd0 : (s.key k).done = 0 := by
    rcases hf with h | ⟨v, h⟩ | ⟨v, h⟩ | h
    · exact (inv.fEnterPt t k h).2.1
    · exact (inv.inFPt t k v h).2.1
    · exact (inv.writePt t k v h).2.1
    · exact (inv.storePt t k h).2.1
  constructor
  · intro hp; have := inv.readPt t' k (Or.inl hp); omega
  · intro hp; have := inv.readPt t' k (Or.inr hp); omega

example : ∃ s, Reach exCfg s ∧ (decide (s.pc 0 = .dStore 0 ∧ s.pc 1 = .dLock 0)) = true :=
  reach_of_run exCfg (exTrace.take 15) _ (by decide)

/-- Keys whose computation returns nil: f still runs once (`f_once` does not care about the value), every
`Do k` returns nil and every `Get k` returns nil — the completed computation is recorded by `done`, not by
a non-nil result. -/
theorem nil_key_returns_nil (c : Cfg) (s s' : State) (h : Reach c s) (t : Nat) (k : Nat) (v : Option Val)
    (hn : c.nilKey k = true)
    (hs : step c s t (.doReturn k v) = some s' ∨ step c s t (.getReturn k v) = some s') :
    v = none ∧ (s.key k).fcalls ≤ 1 := by
  refine ⟨?_, fcalls_le_one (inv_reach h) k⟩
  have hv : c.fval k 1 = none := by simp [Cfg.fval, hn]
  rcases hs with hs | hs
  · rw [(do_returns_value c s s' h t k v hs).1, hv]
  · rcases get_nil_or_value c s s' h t k v hs with h0 | h1
    · exact h0
    · rw [h1.1, hv]

example : ∃ s, Reach exNilCfg s ∧ (decide (s.pc 0 = .dRet 0 ∧ (s.key 0).result = none ∧ (s.key 0).fret = some none ∧
    (s.key 0).done = 1 ∧ (s.key 0).fcalls = 1 ∧ (s.rest 0).isEmpty)) = true :=
  reach_of_run exNilCfg (exNilTrace.take 16) _ (by decide)

example : ∃ s, Reach exNilCfg s ∧ (decide ((s.key 0).fcalls = 1 ∧ s.pc 0 = .exited ∧ s.pc 1 = .exited)) = true :=
  reach_of_run exNilCfg exNilTrace _ (by decide)

/-! ### progress: every `Do` returns

The model has a task for every natural number (`Cfg.prog : TaskId → List Op`, all tasks start at `init`),
so "some task is enabled" alone is weak (an unstarted task always is) and "every execution is finite" is
false (`terminates_statement_false`).  The theorems below are therefore stated per task, or for a set of
tasks outside of which nothing has been started (the n goroutines of a scenario). -/

/-- Deadlock freedom: in every reachable state in which some task has not finished its program, some
task has an enabled step. -/
theorem no_deadlock (c : Cfg) (s : State) (h : Reach c s) (hnf : ∃ t, s.pc t ≠ .exited) :
    ∃ t e s', step c s t e = some s' :=
  deadlock_free c s h hnf

/-- Deadlock freedom of a closed system: if no task outside the set `A` has been started (e.g. `A` = the
tasks `< n`), then as long as some task of `A` has not finished its program, some task OF `A` is enabled
(`enabledTask` is the model's executable enabledness: `enabledTask_iff`). -/
theorem no_deadlock_among (c : Cfg) (s : State) (h : Reach c s) (A : Nat → Prop)
    (hA : ∀ t, ¬ A t → s.pc t = .init) (hnf : ∃ t, A t ∧ s.pc t ≠ .exited) :
    ∃ t, A t ∧ ∃ e s', step c s t e = some s' := by
  obtain ⟨t, hat, hen⟩ := deadlock_free_within c s h A hA hnf
  exact ⟨t, hat, (enabledTask_iff c s t).1 hen⟩

/-- Per-task progress: a task that has not exited has an enabled step itself, unless it is at the `Lock`
of an entry whose mutex another task holds — and then that holder has an enabled step. -/
theorem task_or_holder_enabled (c : Cfg) (s : State) (h : Reach c s) (t : Nat) (hx : s.pc t ≠ .exited) :
    (∃ e s', step c s t e = some s') ∨
    ∃ k hd, s.pc t = .dLock k ∧ (s.key k).owner = some hd ∧ hd ≠ t ∧ ∃ e s', step c s hd e = some s' := by
  rcases task_progress c s h t hx with h1 | ⟨k, hd, hp, _, ho, hne, _, hen⟩
  · exact Or.inl ((enabledTask_iff c s t).1 h1)
  · exact Or.inr ⟨k, hd, hp, ho, hne, (enabledTask_iff c s hd).1 hen⟩

/-- non-vacuity: task 0 is inside f, task 1 is blocked at `Lock`; some task has not exited, task 0 is enabled -/
example : ∃ s, Reach exCfg s ∧ (decide (s.pc 0 = .dInF 0 (some ⟨0, 1⟩) ∧ s.pc 1 = .dLock 0 ∧
    enabledTask exCfg s 1 = false ∧ enabledTask exCfg s 0 = true ∧ s.pc 2 = .init)) = true :=
  reach_of_run exCfg (exTrace.take 13) _ (by decide)

/-- A task blocked in `Do(k)` (no step of it is defined although it has not exited) is at the `Lock` of
the entry of `k`; it is blocked only because ANOTHER task `hd` holds that entry's mutex; the holder is
inside its critical section for the same key — at the done re-check, the call of f, inside f, the plain
write, the atomic store or the `Unlock` (`Pc.inCS k`) —, the holder has an enabled step, and at most 6
(at least 1) of its steps remain up to and including its `Unlock`. -/
theorem do_blocked_only_by_computing_holder (c : Cfg) (s : State) (h : Reach c s) (t : Nat)
    (hx : s.pc t ≠ .exited) (hb : ∀ e, step c s t e = none) :
    ∃ k hd, s.pc t = .dLock k ∧ (s.key k).owner = some hd ∧ hd ≠ t ∧
      (s.pc hd = .dLoad2 k ∨ s.pc hd = .dFEnter k ∨ (∃ v, s.pc hd = .dInF k v) ∨ (∃ v, s.pc hd = .dWrite k v) ∨
        s.pc hd = .dStore k ∨ s.pc hd = .dUnlock k) ∧
      (∃ e s', step c s hd e = some s') ∧ 1 ≤ (s.pc hd).csLeft ∧ (s.pc hd).csLeft ≤ 6 := by
  have hb' : enabledTask c s t = false := by
    cases hen : enabledTask c s t with
    | false => rfl
    | true =>
      obtain ⟨e, s', hs⟩ := (enabledTask_iff c s t).1 hen
      rw [hb e] at hs; exact absurd hs (by simp)
  obtain ⟨k, hd, hp, ho, hne, hcs, hen, h1, h6⟩ := blocked_do c s h t hx hb'
  refine ⟨k, hd, hp, ho, hne, ?_, (enabledTask_iff c s hd).1 hen, h1, h6⟩
  cases hpc : s.pc hd <;> rw [hpc] at hcs <;> simp [Pc.inCS] at hcs <;> subst hcs <;> simp

/-- the converse: the `Lock` of a free mutex is enabled — a `Do` is blocked ONLY while the mutex is held -/
theorem lock_enabled_when_free (c : Cfg) (s : State) (t : Nat) (k : Nat) (hp : s.pc t = .dLock k)
    (ho : (s.key k).owner = none) : ∃ s', step c s t (.lock k) = some s' := by
  simp [step, hp, shapeOK_true, ho]

example : ∃ s, Reach exCfg s ∧ (decide (s.pc 1 = .dLock 0 ∧ (s.key 0).owner = none ∧ enabledTask exCfg s 1 = true)) = true :=
  reach_of_run exCfg (exTrace.take 19) _ (by decide)

/-- non-vacuity: task 1 has no step at all (it is blocked at `Lock 0`), the holder 0 is at the plain write -/
example : ∃ s, Reach exCfg s ∧ (decide (s.pc 1 = .dLock 0 ∧ enabledTask exCfg s 1 = false ∧
    (s.key 0).owner = some 0 ∧ s.pc 0 = .dWrite 0 (some ⟨0, 1⟩) ∧ (s.pc 0).csLeft = 3)) = true :=
  reach_of_run exCfg (exTrace.take 14) _ (by decide)

/-- Bounded waiting: while the holder `hd` of the mutex of key `k` has not done its `Unlock k`, it keeps
the mutex, and along ANY run (any interleaving with any other tasks) the steps it takes are bounded by
`csLeft` of its program point at the start, minus the ≥ 1 still left — i.e. after at most 5 of its own
steps (each of which is enabled: `do_blocked_only_by_computing_holder`) the holder is at its `Unlock`. -/
theorem holder_unlocks_within (c : Cfg) (s s' : State) (h : Reach c s) (k hd : Nat)
    (ho : (s.key k).owner = some hd) (evs : List (Nat × Event)) (hrun : runFrom c s evs = some s')
    (hno : ∀ te ∈ evs, te ≠ (hd, Event.unlock k)) :
    (s'.key k).owner = some hd ∧ evs.countP (fun te => te.1 == hd) + 1 ≤ (s.pc hd).csLeft ∧
    evs.countP (fun te => te.1 == hd) ≤ 5 := by
  obtain ⟨ho', hle⟩ := holder_bounded evs h ho hrun hno
  have hr' := runFrom_reach h hrun
  have := csLeft_pos_of_inCS (holdInv_reach hr' k hd ho')
  have := csLeft_pos_of_inCS (holdInv_reach h k hd ho)
  exact ⟨ho', by omega, by omega⟩

/-- non-vacuity: from the state in which task 0 is about to re-check `done` under the mutex (csLeft = 6),
it takes exactly 5 steps (interleaved with a step of task 1) without unlocking -/
example : ∃ s, Reach exCfg s ∧ (decide ((s.key 0).owner = some 0 ∧ (s.pc 0).csLeft = 6 ∧
    (match runFrom exCfg s ((exTrace.drop 10).take 6) with
      | some s' => decide ((s'.key 0).owner = some 0 ∧ s'.pc 0 = .dUnlock 0 ∧ s'.pc 1 = .dLock 0)
      | none => false) = true)) = true :=
  reach_of_run exCfg (exTrace.take 10) _ (by decide)

/-- Every step strictly decreases the remaining-steps bound of the task that takes it
(`tmeas s t` = bound for the current call + 12 per `Do` and 4 per `Get` still to make + `exit`), leaves the
bounds of all other tasks unchanged, and hence strictly decreases `measure s n = Σ_{t<n} tmeas s t` when
the task is `< n`.  A blocked `Lock` attempt is not a step (`step` is undefined for it). -/
theorem step_decreases (c : Cfg) (s s' : State) (t : Nat) (e : Event) (hs : step c s t e = some s') :
    tmeas s' t < tmeas s t ∧ (∀ t', t' ≠ t → tmeas s' t' = tmeas s t') ∧
    ∀ n, t < n → measure s' n < measure s n :=
  ⟨(tmeas_step (step_sound hs)).1, (tmeas_step (step_sound hs)).2, fun n hn => (measure_step (step_sound hs) n).1 hn⟩

example : ∃ s, Reach exCfg s ∧ (decide (measure s 2 = 31 ∧ tmeas s 0 = 13 ∧ tmeas s 1 = 18)) = true :=
  reach_of_run exCfg [(0, .start)] _ (by decide)

/-- at the end of the complete example run the measure is 0 -/
example : ∃ s, Reach exCfg s ∧ (decide (measure s 2 = 0 ∧ s.pc 0 = .exited ∧ s.pc 1 = .exited)) = true :=
  reach_of_run exCfg exTrace _ (by decide)

/-- In every execution — every schedule, any number of other tasks — task `t` takes at most
`2 + 12·#Do + 4·#Get` steps (`start`, `exit`, and the calls of its program). -/
theorem task_steps_bounded (c : Cfg) (tr : List (Nat × Event)) (s : State) (h : Exec c tr s) (t : Nat) :
    tr.countP (fun te => te.1 == t) ≤ 2 + restCost (c.prog t) := by
  have := exec_task_steps h t
  omega

example : 2 + restCost (exCfg.prog 1) = 18 ∧ exTrace.countP (fun te => te.1 == 1) = 14 := by decide

/-- the unrestricted termination statement: no infinite execution at all -/
def terminates_statement : Prop :=
  ∀ c : Cfg, ¬ ∃ (σ : Nat → State) (τ : Nat → Nat × Event), σ 0 = init0 c ∧
    ∀ i, step c (σ i) (τ i).1 (τ i).2 = some (σ (i + 1))

/-- … is FALSE for the model: it has a task for every natural number, and in the scenario in which no
task makes any call the execution `start` of task 0, `start` of task 1, `start` of task 2, … is infinite. -/
theorem terminates_statement_false : ¬ terminates_statement := by
  intro h
  exact h { prog := fun _ => [] }
    ⟨startedUpTo, fun i => (i, .start), startedUpTo_zero, fun i => startedUpTo_step _ i⟩

/-- Termination, for what is true of the model.
(a) No infinite execution, from any state, in which only finitely many tasks (those `< n`) take steps.
(b) In an infinite execution no single task takes infinitely many steps.
(c) From a reachable state of the n-goroutine system (tasks `≥ n` not started) every run of the tasks
`< n` has at most `measure s n` steps; a run that cannot be extended (no task `< n` enabled) ends with all
n tasks exited — every maximal execution reaches the final state —; and such a run exists. -/
theorem terminates_partial (c : Cfg) (n : Nat) :
    (¬ ∃ (σ : Nat → State) (τ : Nat → Nat × Event),
      ∀ i, (τ i).1 < n ∧ step c (σ i) (τ i).1 (τ i).2 = some (σ (i + 1))) ∧
    (∀ t, ¬ ∃ (σ : Nat → State) (τ : Nat → Nat × Event),
      (∀ i, step c (σ i) (τ i).1 (τ i).2 = some (σ (i + 1))) ∧ ∀ i, ∃ j, i ≤ j ∧ (τ j).1 = t) ∧
    (∀ s, Reach c s → (∀ t, n ≤ t → s.pc t = .init) →
      (∀ evs s', (∀ te ∈ evs, te.1 < n) → runFrom c s evs = some s' →
        evs.length ≤ measure s n ∧
        ((∀ t, t < n → ∀ e, step c s' t e = none) → ∀ t, t < n → s'.pc t = .exited)) ∧
      ∃ evs s', (∀ te ∈ evs, te.1 < n) ∧ runFrom c s evs = some s' ∧ ∀ t, t < n → s'.pc t = .exited) := by
  refine ⟨no_infinite_run c n, no_task_runs_forever c, ?_⟩
  intro s hr hun
  refine ⟨?_, can_finish c n _ s (Nat.le_refl _) hr hun⟩
  intro evs s' hlt hrun
  refine ⟨by have := run_measure n evs hrun hlt; omega, ?_⟩
  intro hmax
  apply maximal_final c s' (runFrom_reach hr hrun) n (run_unstarted n evs hrun hlt hun)
  intro t ht
  cases hen : enabledTask c s' t with
  | false => rfl
  | true =>
    obtain ⟨e, s2, hs⟩ := (enabledTask_iff c s' t).1 hen
    rw [hmax t ht e] at hs; exact absurd hs (by simp)

/-- non-vacuity: the two-goroutine scenario; the bound is 32 steps, the example run has 28 and is maximal -/
example : measure (init0 exCfg) 2 = 32 ∧ exTrace.length = 28 ∧ (∀ t, 2 ≤ t → (init0 exCfg).pc t = .init) ∧
    (∀ te ∈ exTrace, te.1 < 2) ∧
    (match runFrom exCfg (init0 exCfg) exTrace with
      | some s' => decide (enabledTask exCfg s' 0 = false ∧ enabledTask exCfg s' 1 = false ∧ s'.pc 0 = .exited ∧ s'.pc 1 = .exited)
      | none => false) = true := by
  refine ⟨by decide, by decide, fun _ _ => rfl, by decide, by decide⟩

/-- Every `Do` returns.  In every execution, for every task and key: as long as the task is not inside
`Do k`, each of its `do-call k` events has been followed by its `do-return k _` event; and once the task
has exited, it has made and returned from exactly the `Do k` calls of its program (each return carries the
value of the one invocation of f: `do_returns_value`).  By `terminates_partial` (c) every maximal
execution of an n-goroutine scenario ends in such a state. -/
theorem every_do_returns (c : Cfg) (tr : List (Nat × Event)) (s : State) (h : Exec c tr s) (t k : Nat) :
    ((s.pc t).inDo k = false → tr.countP (isDoReturn t k) = tr.countP (isDoCall t k)) ∧
    (s.pc t = .exited → tr.countP (isDoReturn t k) = (c.prog t).countP (isDoOp k)) := by
  obtain ⟨h1, h2⟩ := exec_do_balance h t k
  constructor
  · intro hn; simp [hn] at h1; omega
  · intro hx
    have hr := exited_rest h.reach t hx
    simp [hx, Pc.inDo] at h1
    simp [hr] at h2
    omega

example : (exCfg.prog 1).countP (isDoOp 0) = 1 ∧ exTrace.countP (isDoReturn 1 0) = 1 ∧
    exTrace.countP (isDoCall 1 0) = 1 := by decide

end GIV.C10
