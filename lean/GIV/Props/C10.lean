/-
  C10 — par.Cache computes each key once and publishes the result safely.

  All theorems are about every reachable state / every execution of the transition system
  GIV.Model.ParCache: any number of goroutines, each running any finite list of `Do k` / `Get k`
  calls on any keys, under every interleaving of their map / atomic / mutex operations and of the
  plain write and reads of `e.result`.
-/
import GIV.Lemmas.ParCacheRun
namespace GIV.C10
open GIV.ParCache

theorem fcalls_le_one {s : State} (inv : Inv s) (k : Nat) : (s.key k).fcalls ≤ 1 := by
  rcases inv.doneVal k with h0 | h1
  · rcases inv.fresh k h0 with h | ⟨t1, h1⟩
    · omega
    · cases hp : s.pc t1 <;> rw [hp] at h1 <;> simp [Pc.inCall] at h1
      · subst h1; have := (inv.inFPt t1 _ _ hp).2.2; omega
      · subst h1; have := (inv.writePt t1 _ _ hp).2.2.1; omega
      · subst h1; have := (inv.storePt t1 _ hp).2.2.1; omega
  · have := (inv.published k h1).1; omega

/-- f is invoked at most once per key — in every execution the trace contains at most one
`f-enter k` event — and exactly once as soon as some `Do k` returns. -/
theorem f_once (c : Cfg) (tr : List (Nat × Event)) (s : State) (h : Exec c tr s) (k : Nat) :
    tr.countP (fun te => te.2 == Event.fEnter k) ≤ 1 ∧
    (∀ t v s', step c s t (.doReturn k v) = some s' → tr.countP (fun te => te.2 == Event.fEnter k) = 1) := by
  have inv := inv_reach h.reach
  rw [← exec_fcalls h k]
  refine ⟨fcalls_le_one inv k, ?_⟩
  intro t v s' hs
  have st := step_sound hs
  cases st with
  | doReturn hpc => exact (inv.published k (inv.readPt t k (Or.inl hpc))).1

example : ∃ s, Reach exCfg s ∧ (decide ((s.key 0).fcalls = 1 ∧ s.pc 0 = .exited ∧ s.pc 1 = .exited)) = true :=
  reach_of_run exCfg exTrace _ (by decide)

/-- `Do k` returns the value of the one completed invocation of f: when the `do-return k v` step
happens, f has returned (`fret`) exactly that value — which is the value the scenario's f produces on
its FIRST invocation (`none`, Go's nil, for a nil key) —, `done` is set and f ran once. -/
theorem do_returns_value (c : Cfg) (s s' : State) (h : Reach c s) (t : Nat) (k : Nat) (v : Option Val)
    (hs : step c s t (.doReturn k v) = some s') :
    v = c.fval k 1 ∧ (s.key k).fret = some v ∧ (s.key k).done = 1 ∧ (s.key k).fcalls = 1 := by
  have inv := inv_reach h
  have st := step_sound hs
  cases st with
  | doReturn hpc =>
    have hd := inv.readPt t k (Or.inl hpc)
    obtain ⟨h1, h2⟩ := inv.published k hd
    exact ⟨(valinv_reach h).fretVal k _ h2, h2, hd, h1⟩

example : ∃ s, Reach exCfg s ∧ (decide (s.pc 1 = .dRet 0 ∧ (s.key 0).result = some ⟨0, 1⟩)) = true :=
  reach_of_run exCfg (exTrace.take 22) _ (by decide)

/-- Safe publication: a task that is about to read `e.result` (in `Do` or `Get`) has seen `done = 1`;
at that moment the result holds the value f returned (nil included: `fret = some result`), and no task is at (or before) the plain write
of `e.result` for that key — the write happened before the atomic store the reader observed. -/
theorem publication (c : Cfg) (s : State) (h : Reach c s) (t : Nat) (k : Nat)
    (hr : s.pc t = .dRet k ∨ s.pc t = .gRet k) :
    (s.key k).done = 1 ∧ (s.key k).fret = some (s.key k).result ∧
    ∀ (t' : Nat) v, s.pc t' ≠ .dWrite k v ∧ s.pc t' ≠ .dInF k v ∧ s.pc t' ≠ .dFEnter k := by
  have inv := inv_reach h
  have hd := inv.readPt t k hr
  obtain ⟨_, h2⟩ := inv.published k hd
  refine ⟨hd, h2, ?_⟩
  intro t' v
  refine ⟨?_, ?_, ?_⟩
  · intro hp; have := (inv.writePt t' k v hp).2.1; omega
  · intro hp; have := (inv.inFPt t' k v hp).2.1; omega
  · intro hp; have := (inv.fEnterPt t' k hp).2.1; omega

example : ∃ s, Reach exCfg s ∧ (decide (s.pc 1 = .gRet 0 ∧ (s.key 0).done = 1)) = true :=
  reach_of_run exCfg (exTrace.take 26) _ (by decide)

/-- Mutual exclusion of the critical section (used by the above; stated for completeness): two
tasks between `Lock` and `Unlock` of the same entry are the same task. -/
theorem critical_section_exclusive (c : Cfg) (s : State) (h : Reach c s) (t t' : Nat) (k : Nat)
    (h1 : s.pc t = .dLoad2 k ∨ s.pc t = .dFEnter k ∨ s.pc t = .dStore k ∨ s.pc t = .dUnlock k ∨
      (∃ v, s.pc t = .dInF k v) ∨ ∃ v, s.pc t = .dWrite k v)
    (h2 : s.pc t' = .dLoad2 k ∨ s.pc t' = .dFEnter k ∨ s.pc t' = .dStore k ∨ s.pc t' = .dUnlock k ∨
      (∃ v, s.pc t' = .dInF k v) ∨ ∃ v, s.pc t' = .dWrite k v) : t = t' := by
  have inv := inv_reach h
  have own : ∀ i : Nat, (s.pc i = .dLoad2 k ∨ s.pc i = .dFEnter k ∨ s.pc i = .dStore k ∨ s.pc i = .dUnlock k ∨
      (∃ v, s.pc i = .dInF k v) ∨ ∃ v, s.pc i = .dWrite k v) → (s.key k).owner = some i := by
    intro i hi
    rcases hi with h | h | h | h | ⟨v, h⟩ | ⟨v, h⟩
    · exact inv.load2Pt i k h
    · exact (inv.fEnterPt i k h).1
    · exact (inv.storePt i k h).1
    · exact (inv.unlockPt i k h).1
    · exact (inv.inFPt i k v h).1
    · exact (inv.writePt i k v h).1
  have a := own t h1
  rw [own t' h2] at a
  exact (Option.some.inj a).symm

example : ∃ s, Reach exCfg s ∧ (decide (s.pc 0 = .dInF 0 (some ⟨0, 1⟩) ∧ s.pc 1 = .dLock 0)) = true :=
  reach_of_run exCfg (exTrace.take 13) _ (by decide)

/-- `Get` never blocks: in every reachable state a task inside `Get` has an enabled step. -/
theorem get_nonblocking (c : Cfg) (s : State) (_h : Reach c s) (t : Nat) (hg : (s.pc t).inGet = true) :
    ∃ e s', step c s t e = some s' := by
  cases hp : s.pc t <;> rw [hp] at hg <;> simp [Pc.inGet] at hg
  · rename_i k; exact ⟨.mapLoad k (s.key k).alloc, by simp [step, hp, shapeOK_true]⟩
  · rename_i k; exact ⟨.atomicLoad k (s.key k).done, by simp [step, hp, shapeOK_true]⟩
  · rename_i k; exact ⟨.getReturn k none, by simp [step, hp, shapeOK_true]⟩
  · rename_i k; exact ⟨.getReturn k (s.key k).result, by simp [step, hp, shapeOK_true]⟩

example : ∃ s, Reach exCfg s ∧ (decide ((s.pc 1).inGet = true)) = true :=
  reach_of_run exCfg (exTrace.take 25) _ (by decide)

/-- `Get k` returns nil or the value of the one invocation of f (and then `done` is set). -/
theorem get_nil_or_value (c : Cfg) (s s' : State) (h : Reach c s) (t : Nat) (k : Nat) (v : Option Val)
    (hs : step c s t (.getReturn k v) = some s') :
    v = none ∨ (v = c.fval k 1 ∧ (s.key k).fret = some v ∧ (s.key k).done = 1 ∧ (s.key k).fcalls = 1) := by
  have inv := inv_reach h
  have st := step_sound hs
  cases st with
  | getNil hpc => exact Or.inl rfl
  | getVal hpc =>
    right
    have hd := inv.readPt t k (Or.inr hpc)
    obtain ⟨h1, h2⟩ := inv.published k hd
    exact ⟨(valinv_reach h).fretVal k _ h2, h2, hd, h1⟩

example : ∃ s, Reach exCfg s ∧ (decide (s.pc 1 = .gRet 0 ∧ (s.key 0).result = some ⟨0, 1⟩)) = true :=
  reach_of_run exCfg (exTrace.take 26) _ (by decide)

/-- No `Do k` returns before the one call of f has returned: while f is running (or about to run, or
its result is not yet published) for key k, no task is at the return of `Do k`/`Get k` with a value. -/
theorem no_return_before_f (c : Cfg) (s : State) (h : Reach c s) (t t' : Nat) (k : Nat)
    (hf : s.pc t = .dFEnter k ∨ (∃ v, s.pc t = .dInF k v) ∨ (∃ v, s.pc t = .dWrite k v) ∨ s.pc t = .dStore k) :
    s.pc t' ≠ .dRet k ∧ s.pc t' ≠ .gRet k := by
  have inv := inv_reach h
  have hd0 : (s.key k).done = 0 := by
    rcases hf with h | ⟨v, h⟩ | ⟨v, h⟩ | h
    · exact (inv.fEnterPt t k h).2.1
    · exact (inv.inFPt t k v h).2.1
    · exact (inv.writePt t k v h).2.1
    · exact (inv.storePt t k h).2.1
  constructor
  · intro hp; have := inv.readPt t' k (Or.inl hp); omega
  · intro hp; have := inv.readPt t' k (Or.inr hp); omega

example : ∃ s, Reach exCfg s ∧ (decide (s.pc 0 = .dStore 0 ∧ s.pc 1 = .dLock 0)) = true :=
  reach_of_run exCfg (exTrace.take 15) _ (by decide)

/-- Keys whose computation returns nil: f still runs once (`f_once` does not care about the value), every
`Do k` returns nil and every `Get k` returns nil — the completed computation is recorded by `done`, not by
a non-nil result. -/
theorem nil_key_returns_nil (c : Cfg) (s s' : State) (h : Reach c s) (t : Nat) (k : Nat) (v : Option Val)
    (hn : c.nilKey k = true)
    (hs : step c s t (.doReturn k v) = some s' ∨ step c s t (.getReturn k v) = some s') :
    v = none ∧ (s.key k).fcalls ≤ 1 := by
  refine ⟨?_, fcalls_le_one (inv_reach h) k⟩
  have hv : c.fval k 1 = none := by simp [Cfg.fval, hn]
  rcases hs with hs | hs
  · rw [(do_returns_value c s s' h t k v hs).1, hv]
  · rcases get_nil_or_value c s s' h t k v hs with h0 | h1
    · exact h0
    · rw [h1.1, hv]

example : ∃ s, Reach exNilCfg s ∧ (decide (s.pc 0 = .dRet 0 ∧ (s.key 0).result = none ∧ (s.key 0).fret = some none ∧
    (s.key 0).done = 1 ∧ (s.key 0).fcalls = 1 ∧ (s.rest 0).isEmpty)) = true :=
  reach_of_run exNilCfg (exNilTrace.take 16) _ (by decide)

example : ∃ s, Reach exNilCfg s ∧ (decide ((s.key 0).fcalls = 1 ∧ s.pc 0 = .exited ∧ s.pc 1 = .exited)) = true :=
  reach_of_run exNilCfg exNilTrace _ (by decide)

end GIV.C10
