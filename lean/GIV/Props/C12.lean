import GIV.Lemmas.CachePutFrame
/-!
# C12 — an interrupted or failing Put leaves the cache consistent

Model: `GIV.Model.CachePut` (system-call granularity; the order of the calls and the deciding
conditions are the regenerated facts `GIV.Gen.CachePut`).  `tstep` is one program step of one
operation against the file system under a fault (`none`, `fail`, `short k`); a process may also stop
before or after any step.  `FSInv` is the invariant of the directory:
(D) a data file `h-d`, `h` the hash of an offered content `c`, is shorter than `c` or equal to `c`;
(I) an index file is empty or a whole entry `(H c, |c|)` of an offered content.

`torn_then_crash_witness` / `torn_then_crash_full_witness` (a short index write FOLLOWED BY death before
the code's `Remove`: two faults in one operation, outside the property's fault model) are proved NEGATIVE
results: `FaultStep` admits one fault per Put; with two the invariant is lost, and after a further
interrupted Put `GetFile` names a file of the reported size with wrong bytes.  The harness never injects
that combination.  Histories (`Hist`) include removals of arbitrary files by Trim.

Hypotheses (`Hyps`): no other byte string has the hash of an offered content; the index entry of an
offered content has the fixed length and parses back (C05's codec theorems).
-/
namespace GIV.C12
open GIV GIV.CachePut

variable {Id Hsh : Type} [DecidableEq Id] [DecidableEq Hsh]
variable {P : Params Id Hsh} {offered : Bytes → Prop}

/-! ## a small instance, for the non-vacuity examples -/

/-- identity "hash" (collision free), two offered contents, entries `[tag, size, 0, …]` of 175 bytes. -/
def toyOffered (c : Bytes) : Prop := c = [7] ∨ c = [8, 9, 10]

def toyEnc (_ : Nat) (out : Bytes) (size : Nat) (_ : Int) : Bytes :=
  [out.headD 0, size.toUInt8] ++ List.replicate 173 0

def toyParse (_ : Nat) (bs : Bytes) : Option (Entry Bytes) :=
  if bs.length ≠ 175 then none
  else if bs.headD 0 = 7 then some ⟨[7], (bs.getD 1 0).toNat⟩
  else if bs.headD 0 = 8 then some ⟨[8, 9, 10], (bs.getD 1 0).toNat⟩
  else none

def toyP : Params Nat Bytes := ⟨fun b => b, toyEnc, toyParse⟩

set_option maxRecDepth 8000 in
theorem toyHyps : Hyps toyP toyOffered where
  noColl := fun c x _ h => h
  encLen := fun id c t _ => by
    simp only [toyP, toyEnc, List.length_append, List.length_cons, List.length_nil, List.length_replicate, Gen.CachePut.entrySize]
  parseEnc := fun id c t hc => by
    rcases hc with rfl | rfl <;> rfl
  parseNil := fun id => by simp [toyP, toyParse]

def emptyFS : FS Nat Bytes :=
  { names := fun _ => none, inodes := fun _ => none, nextIno := 0, fds := fun _ => none, nextFd := 0 }

theorem emptyFS_inv : FSInv toyP toyOffered emptyFS :=
  ⟨⟨fun _ _ h => by simp [emptyFS] at h, fun _ _ h => by simp [emptyFS] at h⟩, fun _ _ _ _ h => by simp [emptyFS] at h⟩

/-- a source that yields other bytes on the second pass. -/
def toySrc : Src := ⟨true, [8, 9, 10], true, [8, 0, 10]⟩

/-! ## the theorems -/

/-- **Every program step of `Put`** — at every program point of `copyFile` and `putIndexEntry`, whatever
the source reader delivers on its second pass (`s.data2`, `s.seek2` are arbitrary), for a fault-free
call, a failing call or a short write (at most one such fault per Put: `FaultStep`) — **preserves the
local invariant** `LocalPut`, which is the directory invariant `FSInv` except that a Put which has
already been hit by its fault may be on its way to `Truncate(0)` / `Remove` of the one file it damaged.
(One lemma per program point in `GIV.Lemmas.CachePutStep`: `step_pStat … step_iChtimes`.) -/
theorem put_step_preserves_inv (hy : Hyps P offered) {now : Int} {id : Id} {s : Src} (hoff : offered s.data1)
    {used used' : Bool} {fs fs' : FS Id Hsh} {proc n : Nat} {fault : Fault} {r : Res} {pc : PC Hsh} {nx : Next Hsh}
    (hL : LocalPut P offered now id s used fs pc)
    (hs : tstep P now fs proc (.put id s) pc fault n = some (fs', r, nx))
    (hf : FaultStep fault used used') :
    match nx with
    | .goto pc' => LocalPut P offered now id s used' fs' pc'
    | .done _ => FSInv P offered fs' := by
  have h := put_step_preserves hy hoff hL hs hf
  cases nx <;> exact h

example : ∃ fs' r nx, tstep toyP 5 emptyFS 0 (.put 1 toySrc) .pStat .fail 0 = some (fs', r, nx) ∧
    LocalPut toyP toyOffered 5 1 toySrc false emptyFS .pStat ∧ FaultStep .fail false true :=
  ⟨_, _, _, rfl, emptyFS_inv, .fail⟩

/-- **Stopping between any two file operations** (before the fault budget is spent) leaves the full
invariant: at every program point of a Put that has not been hit by a fault, `FSInv` holds — also after
the descriptors of the dead process are closed. -/
theorem put_crash_preserves_inv (hy : Hyps P offered) {now : Int} {id : Id} {s : Src} (hoff : offered s.data1)
    {fs : FS Id Hsh} {pc : PC Hsh} (proc : Nat) (hL : LocalPut P offered now id s false fs pc) :
    FSInv P offered (fs.closeProc proc) :=
  inv_closeProc proc (local_unused_inv hy hoff hL)

example : FSInv toyP toyOffered (emptyFS.closeProc 0) :=
  put_crash_preserves_inv toyHyps (now := 5) (id := 1) (s := toySrc) (Or.inr rfl) 0 (pc := .pStat) emptyFS_inv

/-- **Every program step of a lookup** (`get`, `GetFile`, `GetBytes`; any fault) preserves the invariant;
no lookup changes a file. -/
theorem lookup_preserves_inv {now : Int} {op : Op Id} (hop : isLookup op = true)
    {fs fs' : FS Id Hsh} {proc n : Nat} {fault : Fault} {r : Res} {pc : PC Hsh} {nx : Next Hsh}
    (hL : LocalGet P offered op.id fs pc)
    (hs : tstep P now fs proc op pc fault n = some (fs', r, nx)) :
    FSInv P offered fs' ∧ SameFiles fs fs' := by
  have hsame : SameFiles fs fs' := by
    rcases lookup_sameFiles (offered := offered) hop hs with h | h
    · exact h
    · rw [h] at hL; exact hL.elim
  exact ⟨hsame.inv (localGet_inv hL), hsame⟩

example : ∃ fs' r nx, tstep toyP 5 emptyFS 0 (.getFile 1) .gOpen .none 0 = some (fs', r, nx) ∧
    LocalGet toyP toyOffered (Op.getFile 1).id emptyFS .gOpen :=
  ⟨_, _, _, rfl, emptyFS_inv⟩

/-- **Any history** of Puts, lookups and removals of files by Trim from an undamaged cache, each operation run by a process that
is hit by at most one fault (a failing call, a short write, death before or after any call; the source
reader of each Put arbitrary on its second pass), **ends in a directory satisfying the invariant**. -/
theorem reachable_inv (hy : Hyps P offered) {fs : FS Id Hsh} (h : Hist P offered fs) : FSInv P offered fs := by
  induction h with
  | init h0 => exact h0
  | op _ hoffers hex ih => exact opExec_inv hy hoffers ih hex
  | trim q _ ih => exact inv_unlink (ih.exc _)

example : Hist toyP toyOffered (emptyFS.remove (.index 1)) := .trim _ (.init emptyFS_inv)

/-- **Under the invariant lookups are safe**: a `GetFile` that succeeds names a file holding exactly the
content `c` with `OutputID = H c` and `Size = |c|`; a `GetBytes` that succeeds returns bytes whose hash
is the reported OutputID; a `Get` that succeeds reports an entry of an offered content. -/
theorem inv_lookup_safe (hy : Hyps P offered) {now : Int} {proc : Nat} {op : Op Id} (hop : isLookup op = true)
    {fs fs' : FS Id Hsh} {res : Result Hsh} (hinv : FSInv P offered fs)
    (hex : OpExec P now proc op fs fs' (.ret res)) :
    (∀ e cont, res = .file e cont → ∃ c, offered c ∧ e.out = P.H c ∧ e.size = c.length ∧ cont = some c) ∧
    (∀ d e, res = .bytes d e → P.H d = e.out) := by
  have hst := get_start (P := P) (offered := offered) hop hinv
  have hres : ResOK P offered res := by
    unfold OpExec at hex
    split at hex
    · next r hr =>
      obtain ⟨_, ho⟩ := hex
      cases ho
      rw [hr] at hst
      exact hst.2
    · next pc hpc =>
      rw [hpc] at hst
      exact (get_run_inv hy hop hex hst).2 res rfl
  constructor
  · intro e cont h
    subst h
    obtain ⟨c, hc, rfl, rfl⟩ := hres
    exact ⟨c, hc, rfl, rfl, rfl⟩
  · intro d e h
    subst h
    exact hres.1

example : OpExec toyP 5 0 (.getFile 1) emptyFS emptyFS (.ret .miss) :=
  OpRun.done (FaultStep.none false) (fault := .none) (n := 0) (r := .enoent) rfl

/-- **Whatever state the files are in** (no invariant assumed: pre-damaged outputs, foreign bytes, missing
files), a `GetBytes` that succeeds returns bytes whose hash is the reported OutputID. -/
theorem getBytes_gate_any_world {now : Int} {proc : Nat} {op : Op Id} {fs fs' : FS Id Hsh} {d : Bytes} {e : Entry Hsh}
    (hex : OpExec P now proc op fs fs' (.ret (.bytes d e))) : P.H d = e.out := by
  unfold OpExec at hex
  split at hex
  · next r hr =>
    obtain ⟨_, ho⟩ := hex
    cases ho
    cases op with
    | put id s =>
      simp only [startOp] at hr
      split at hr
      · cases hr
      · split at hr <;> cases hr
    | get id => cases hr
    | getFile id => cases hr
    | getBytes id => cases hr
  · exact run_bytes_gate hex rfl

/-- **A failed Put never makes unrelated entries unreadable**: whatever fault hits `Put(id, s)` and
wherever it stops, every file other than the data file of its own output and the index file of its own
id keeps its content — in particular, for every other id' whose entry names another output, the index
file of id' and its data file (the only files the lookups of id' read: `sysOf`) are untouched, so those
lookups agree before and after. -/
theorem failed_put_unrelated (hy : Hyps P offered) {now : Int} {proc : Nat} {id : Id} {s : Src} (hoff : offered s.data1)
    {fs fs' : FS Id Hsh} {o : Outcome Hsh} (hinv : FSInv P offered fs)
    (hex : OpExec P now proc (.put id s) fs fs' o) :
    (∀ id', id' ≠ id → fs'.content (.index id') = fs.content (.index id')) ∧
    (∀ out', out' ≠ P.H s.data1 → fs'.content (.data out') = fs.content (.data out')) := by
  have hst := put_start (P := P) (offered := offered) (now := now) (id := id) (s := s) hinv
  unfold OpExec at hex
  split at hex
  · obtain ⟨rfl, _⟩ := hex
    exact ⟨fun _ _ => rfl, fun _ _ => rfl⟩
  · next pc hpc =>
    rw [hpc] at hst
    refine ⟨fun id' h => ?_, fun out' h => ?_⟩
    · exact put_run_frame hy hoff hex hst (by simp) (by simpa using h)
    · exact put_run_frame hy hoff hex hst (by simpa [putOut] using h) (by simp)

example : OpExec toyP 5 0 (.put 1 ⟨false, [7], true, [7]⟩) emptyFS emptyFS (.ret .err) := ⟨rfl, rfl⟩

/-- id 1 is stored with content `[8, 9, 10]` (index entry present), a Put(1, [7]) has its index file open. -/
def tornFS : FS Nat Bytes :=
  { names := fun p => if p = .index 1 then some 0 else none,
    inodes := fun i => if i = 0 then some ⟨.index 1, toyEnc 1 [8, 9, 10] 3 0⟩ else none,
    nextIno := 1, fds := fun fd => if fd = 0 then some ⟨0, 0, 0⟩ else none, nextFd := 1 }

def tornSrc : Src := ⟨true, [7], true, [7]⟩

theorem tornFS_inv : FSInv toyP toyOffered tornFS := by
  refine ⟨⟨?_, ?_⟩, ?_⟩
  · intro p i h
    simp only [tornFS] at h ⊢
    split at h
    · next hp => cases h; exact ⟨⟨.index 1, toyEnc 1 [8, 9, 10] 3 0⟩, by simp, hp.symm⟩
    · cases h
  · intro i nd h
    simp only [tornFS] at h ⊢
    split at h
    · next hi => omega
    · cases h
  · intro p i nd _ hp hi
    simp only [tornFS] at hp hi
    split at hp
    · next hpe =>
      cases hp
      simp at hi
      subst hi; subst hpe
      exact Or.inr ⟨[8, 9, 10], 0, Or.inr rfl, rfl⟩
    · cases hp

set_option maxRecDepth 8000 in
/-- **Negative result, outside the property's fault model**: if the single write of the index entry is
SHORT and the process then dies before the code's own `Remove` (two faults in one operation), the index
file is a byte-wise mixture of the old and the new entry that parses as an entry nobody stored — clause
(I) of the invariant is lost.  (Here: id 1 was stored with a 3-byte content, a Put of the 1-byte content
`[7]` writes 1 byte of its entry and dies; the file now reads "output of [7], size 3".)  From there a
Trim of that output and a further interrupted Put can produce a file of the reported size with wrong bytes. -/
theorem torn_then_crash_witness :
    ∃ fs1 r nx, FSInv toyP toyOffered tornFS ∧ LocalPut toyP toyOffered 5 1 tornSrc false tornFS (.iWrite 0) ∧
      tstep toyP 5 tornFS 0 (.put 1 tornSrc) (.iWrite 0) (.short 1) 0 = some (fs1, r, nx) ∧
      (fs1.closeProc 0).content (.index 1) = some ([7, 3] ++ List.replicate 173 0) ∧
      toyP.parse 1 ([7, 3] ++ List.replicate 173 0) = some ⟨[7], 3⟩ ∧
      ¬ FSInv toyP toyOffered (fs1.closeProc 0) := by
  refine ⟨_, _, _, tornFS_inv, ⟨tornFS_inv, ⟨0, 0, 0⟩, rfl, rfl, rfl⟩, rfl, ?_, rfl, ?_⟩
  · rfl
  · intro h
    have := h.2 (.index 1) 0 _ (by simp) rfl rfl
    rcases this with h0 | ⟨c, t, hc, hd⟩
    · exact absurd h0 (by decide)
    · rcases hc with rfl | rfl
      · have h1 := congrArg (fun l => List.getD l 1 0) hd
        simp [toyP, toyEnc, putOut, Src.size, tornSrc, writeAt] at h1
      · have h1 := congrArg (fun l => List.getD l 0 0) hd
        simp [toyP, toyEnc, putOut, Src.size, tornSrc, writeAt] at h1

example : ∃ fs1 r nx, tstep toyP 5 tornFS 0 (.put 1 tornSrc) (.iWrite 0) (.short 1) 0 = some (fs1, r, nx) := ⟨_, _, _, rfl⟩

/-- id 1 is stored with the 1-byte content `[7]` (index entry present; its output has been trimmed), a
Put(1, [8, 9, 10]) by process 0 has copied its output and has the index file open. -/
def tornFS2 : FS Nat Bytes :=
  { names := fun p => if p = .index 1 then some 0 else none,
    inodes := fun i => if i = 0 then some ⟨.index 1, toyEnc 1 [7] 1 0⟩ else none,
    nextIno := 1, fds := fun fd => if fd = 0 then some ⟨0, 0, 0⟩ else none, nextFd := 1 }

def bigSrc : Src := ⟨true, [8, 9, 10], true, [8, 9, 10]⟩

set_option maxRecDepth 8000 in
/-- **the whole story of the double fault** (outside the property's fault model): the index write of
Put(1, [8,9,10]) is short (1 byte) AND the process dies before the code's `Remove`; the index file of id 1
now reads "output of [8,9,10], size 1".  The output of [8,9,10] is not there (Trim removed it, or it was
never complete).  A later Put of [8,9,10] (by another process, for id 2) is interrupted after the first
byte of its output.  A `GetFile(1)` by a fresh process then SUCCEEDS and names a file of the reported size
(1) that does not hold the bytes of the reported output: the statement of C12 fails — with two faults in
one operation. -/
theorem torn_then_crash_full_witness :
    ∃ fs1 r1 nx1,
      -- the short index write, then death
      tstep toyP 5 tornFS2 0 (.put 1 bigSrc) (.iWrite 0) (.short 1) 0 = some (fs1, r1, nx1) ∧
      ∃ fs2,
      -- a further Put of the same content, interrupted after its first byte
      OpExec toyP 6 1 (.put 2 bigSrc) (fs1.closeProc 0) fs2 .crashed ∧
      ∃ fs3 e d,
      -- a lookup in a fresh process
      OpExec toyP 7 2 (.getFile 1) fs2 fs3 (.ret (.file e (some d))) ∧
      d.length = e.size ∧ toyP.H d ≠ e.out := by
  refine ⟨_, _, _, rfl, ?_⟩
  apply Exists.intro
  apply And.intro
  · show OpRun toyP 6 1 (.put 2 bigSrc) _ .pStat false _ .crashed
    apply OpRun.step (fault := .none) (n := 0) (FaultStep.none false)
    · rfl
    apply OpRun.step (fault := .none) (n := 0) (FaultStep.none false)
    · rfl
    apply OpRun.crashAfter (n := 1)
    rfl
  apply Exists.intro
  apply Exists.intro
  apply Exists.intro
  apply And.intro
  · show OpRun toyP 7 2 (.getFile 1) _ .gOpen false _ _
    apply OpRun.step (fault := .none) (n := 0) (FaultStep.none false)
    · rfl
    apply OpRun.step (fault := .none) (n := 0) (FaultStep.none false)
    · rfl
    apply OpRun.step (fault := .none) (n := 0) (FaultStep.none false)
    · rfl
    apply OpRun.step (fault := .none) (n := 0) (FaultStep.none false)
    · rfl
    apply OpRun.step (fault := .none) (n := 0) (FaultStep.none false)
    · rfl
    apply OpRun.step (fault := .none) (n := 0) (FaultStep.none false)
    · rfl
    apply OpRun.done (fault := .none) (n := 0) (FaultStep.none false)
    rfl
  exact ⟨rfl, by decide⟩

example : ∃ fs1 r nx, tstep toyP 5 tornFS2 0 (.put 1 bigSrc) (.iWrite 0) (.short 1) 0 = some (fs1, r, nx) := ⟨_, _, _, rfl⟩

end GIV.C12
