import GIV.Lemmas.CachePutFrame
import GIV.Lemmas.CachePutReadSet
import GIV.Lemmas.CachePutShared
/-!
# C12 — an interrupted or failing Put leaves the cache consistent

Model: `GIV.Model.CachePut` (system-call granularity; the order of the calls and the deciding
conditions are the regenerated facts `GIV.Gen.CachePut`).  `tstep` is one program step of one
operation against the file system under a fault (`none`, `fail`, `short k`); a process may also stop
before or after any step.  `FSInv` is the invariant of the directory:
(D) a data file `h-d`, `h` the hash of an offered content `c`, is shorter than `c` or equal to `c`;
(I) an index file is empty or a whole entry `(H c, |c|)` of an offered content.

`torn_then_crash_witness` / `torn_then_crash_full_witness` (a short index write FOLLOWED BY death before
the code's `Remove`: two faults in one operation, outside the property's fault model) are proved NEGATIVE
results: `FaultStep` admits one fault per Put; with two the invariant is lost, and after a further
interrupted Put `GetFile` names a file of the reported size with wrong bytes.  The harness never injects
that combination.  Histories (`Hist`) include removals of arbitrary files by Trim.

Hypotheses (`Hyps`): no other byte string has the hash of an offered content; the index entry of an
offered content has the fixed length and parses back (C05's codec theorems).
-/
namespace GIV.C12
open GIV GIV.CachePut

variable {Id Hsh : Type} [DecidableEq Id] [DecidableEq Hsh]
variable {P : Params Id Hsh} {offered : Bytes → Prop}

/-! ## a small instance, for the non-vacuity examples -/

/-- identity "hash" (collision free), two offered contents, entries `[tag, size, 0, …]` of 175 bytes. -/
def toyOffered (c : Bytes) : Prop := c = [7] ∨ c = [8, 9, 10]

def toyEnc (_ : Nat) (out : Bytes) (size : Nat) (_ : Int) : Bytes :=
  [out.headD 0, size.toUInt8] ++ List.replicate 173 0

def toyParse (_ : Nat) (bs : Bytes) : Option (Entry Bytes) :=
  if bs.length ≠ 175 then none
  else if bs.headD 0 = 7 then some ⟨[7], (bs.getD 1 0).toNat⟩
  else if bs.headD 0 = 8 then some ⟨[8, 9, 10], (bs.getD 1 0).toNat⟩
  else none

def toyP : Params Nat Bytes := ⟨fun b => b, toyEnc, toyParse⟩

set_option maxRecDepth 8000 in
theorem toyHyps : Hyps toyP toyOffered where
  noColl := fun c x _ h => h
  encLen := fun id c t _ => by
    simp only [toyP, toyEnc, List.length_append, List.length_cons, List.length_nil, List.length_replicate, Gen.CachePut.entrySize]
  parseEnc := fun id c t hc => by
    rcases hc with rfl | rfl <;> rfl
  parseNil := fun id => by simp [toyP, toyParse]

def emptyFS : FS Nat Bytes :=
  { names := fun _ => none, inodes := fun _ => none, nextIno := 0, fds := fun _ => none, nextFd := 0 }

theorem emptyFS_inv : FSInv toyP toyOffered emptyFS :=
  ⟨⟨fun _ _ h => by simp [emptyFS] at h, fun _ _ h => by simp [emptyFS] at h⟩, fun _ _ _ _ h => by simp [emptyFS] at h⟩

/-- a source that yields other bytes on the second pass. -/
def toySrc : Src := ⟨true, [8, 9, 10], true, [8, 0, 10]⟩

/-! ## the theorems -/

/-- **Every program step of `Put`** — at every program point of `copyFile` and `putIndexEntry`, whatever
the source reader delivers on its second pass (`s.data2`, `s.seek2` are arbitrary), for a fault-free
call, a failing call or a short write (at most one such fault per Put: `FaultStep`) — **preserves the
local invariant** `LocalPut`, which is the directory invariant `FSInv` except that a Put which has
already been hit by its fault may be on its way to `Truncate(0)` / `Remove` of the one file it damaged.
(One lemma per program point in `GIV.Lemmas.CachePutStep`: `step_pStat … step_iChtimes`.) -/
theorem put_step_preserves_inv (hy : Hyps P offered) {now : Int} {id : Id} {s : Src} (hoff : offered s.data1)
    {used used' : Bool} {fs fs' : FS Id Hsh} {proc n : Nat} {fault : Fault} {r : Res} {pc : PC Hsh} {nx : Next Hsh}
    (hL : LocalPut P offered now id s used fs pc)
    (hs : tstep P now fs proc (.put id s) pc fault n = some (fs', r, nx))
    (hf : FaultStep fault used used') :
    match nx with
    | .goto pc' => LocalPut P offered now id s used' fs' pc'
    | .done _ => FSInv P offered fs' := by
  have h := put_step_preserves hy hoff hL hs hf
  cases nx <;> exact h

example : ∃ fs' r nx, tstep toyP 5 emptyFS 0 (.put 1 toySrc) .pStat .fail 0 = some (fs', r, nx) ∧
    LocalPut toyP toyOffered 5 1 toySrc false emptyFS .pStat ∧ FaultStep .fail false true :=
  ⟨_, _, _, rfl, emptyFS_inv, .fail⟩

/-- **Stopping between any two file operations** (before the fault budget is spent) leaves the full
invariant: at every program point of a Put that has not been hit by a fault, `FSInv` holds — also after
the descriptors of the dead process are closed. -/
theorem put_crash_preserves_inv (hy : Hyps P offered) {now : Int} {id : Id} {s : Src} (hoff : offered s.data1)
    {fs : FS Id Hsh} {pc : PC Hsh} (proc : Nat) (hL : LocalPut P offered now id s false fs pc) :
    FSInv P offered (fs.closeProc proc) :=
  inv_closeProc proc (local_unused_inv hy hoff hL)

example : FSInv toyP toyOffered (emptyFS.closeProc 0) :=
  put_crash_preserves_inv toyHyps (now := 5) (id := 1) (s := toySrc) (Or.inr rfl) 0 (pc := .pStat) emptyFS_inv

/-- **Every program step of a lookup** (`get`, `GetFile`, `GetBytes`; any fault) preserves the invariant;
no lookup changes a file. -/
theorem lookup_preserves_inv {now : Int} {op : Op Id} (hop : isLookup op = true)
    {fs fs' : FS Id Hsh} {proc n : Nat} {fault : Fault} {r : Res} {pc : PC Hsh} {nx : Next Hsh}
    (hL : LocalGet P offered op.id fs pc)
    (hs : tstep P now fs proc op pc fault n = some (fs', r, nx)) :
    FSInv P offered fs' ∧ SameFiles fs fs' := by
  have hsame : SameFiles fs fs' := by
    rcases lookup_sameFiles (offered := offered) hop hs with h | h
    · exact h
    · rw [h] at hL; exact hL.elim
  exact ⟨hsame.inv (localGet_inv hL), hsame⟩

example : ∃ fs' r nx, tstep toyP 5 emptyFS 0 (.getFile 1) .gOpen .none 0 = some (fs', r, nx) ∧
    LocalGet toyP toyOffered (Op.getFile 1).id emptyFS .gOpen :=
  ⟨_, _, _, rfl, emptyFS_inv⟩

/-- **Any history** of Puts, lookups and removals of files by Trim from an undamaged cache, each operation run by a process that
is hit by at most one fault (a failing call, a short write, death before or after any call; the source
reader of each Put arbitrary on its second pass), **ends in a directory satisfying the invariant**. -/
theorem reachable_inv (hy : Hyps P offered) {fs : FS Id Hsh} (h : Hist P offered fs) : FSInv P offered fs := by
  induction h with
  | init h0 => exact h0
  | op _ hoffers hex ih => exact opExec_inv hy hoffers ih hex
  | trim q _ ih => exact inv_unlink (ih.exc _)

example : Hist toyP toyOffered (emptyFS.remove (.index 1)) := .trim _ (.init emptyFS_inv)

/-- **Under the invariant lookups are safe**: a `GetFile` that succeeds names a file holding exactly the
content `c` with `OutputID = H c` and `Size = |c|`; a `GetBytes` that succeeds returns bytes whose hash
is the reported OutputID; a `Get` that succeeds reports an entry of an offered content. -/
theorem inv_lookup_safe (hy : Hyps P offered) {now : Int} {proc : Nat} {op : Op Id} (hop : isLookup op = true)
    {fs fs' : FS Id Hsh} {res : Result Hsh} (hinv : FSInv P offered fs)
    (hex : OpExec P now proc op fs fs' (.ret res)) :
    (∀ e cont, res = .file e cont → ∃ c, offered c ∧ e.out = P.H c ∧ e.size = c.length ∧ cont = some c) ∧
    (∀ d e, res = .bytes d e → P.H d = e.out) := by
  have hst := get_start (P := P) (offered := offered) hop hinv
  have hres : ResOK P offered res := by
    unfold OpExec at hex
    split at hex
    · next r hr =>
      obtain ⟨_, ho⟩ := hex
      cases ho
      rw [hr] at hst
      exact hst.2
    · next pc hpc =>
      rw [hpc] at hst
      exact (get_run_inv hy hop hex hst).2 res rfl
  constructor
  · intro e cont h
    subst h
    obtain ⟨c, hc, rfl, rfl⟩ := hres
    exact ⟨c, hc, rfl, rfl, rfl⟩
  · intro d e h
    subst h
    exact hres.1

example : OpExec toyP 5 0 (.getFile 1) emptyFS emptyFS (.ret .miss) :=
  OpRun.done (FaultStep.none false) (fault := .none) (n := 0) (r := .enoent) rfl

/-- **Whatever state the files are in** (no invariant assumed: pre-damaged outputs, foreign bytes, missing
files), a `GetBytes` that succeeds returns bytes whose hash is the reported OutputID. -/
theorem getBytes_gate_any_world {now : Int} {proc : Nat} {op : Op Id} {fs fs' : FS Id Hsh} {d : Bytes} {e : Entry Hsh}
    (hex : OpExec P now proc op fs fs' (.ret (.bytes d e))) : P.H d = e.out := by
  unfold OpExec at hex
  split at hex
  · next r hr =>
    obtain ⟨_, ho⟩ := hex
    cases ho
    cases op with
    | put id s =>
      simp only [startOp] at hr
      split at hr
      · cases hr
      · split at hr <;> cases hr
    | get id => cases hr
    | getFile id => cases hr
    | getBytes id => cases hr
  · exact run_bytes_gate hex rfl

/-- **A failed Put never makes unrelated entries unreadable**: whatever fault hits `Put(id, s)` and
wherever it stops, every file other than the data file of its own output and the index file of its own
id keeps its content — in particular, for every other id' whose entry names another output, the index
file of id' and its data file (the only files the lookups of id' read: `sysOf`) are untouched, so those
lookups agree before and after. -/
theorem failed_put_unrelated (hy : Hyps P offered) {now : Int} {proc : Nat} {id : Id} {s : Src} (hoff : offered s.data1)
    {fs fs' : FS Id Hsh} {o : Outcome Hsh} (hinv : FSInv P offered fs)
    (hex : OpExec P now proc (.put id s) fs fs' o) :
    (∀ id', id' ≠ id → fs'.content (.index id') = fs.content (.index id')) ∧
    (∀ out', out' ≠ P.H s.data1 → fs'.content (.data out') = fs.content (.data out')) := by
  have hst := put_start (P := P) (offered := offered) (now := now) (id := id) (s := s) hinv
  unfold OpExec at hex
  split at hex
  · obtain ⟨rfl, _⟩ := hex
    exact ⟨fun _ _ => rfl, fun _ _ => rfl⟩
  · next pc hpc =>
    rw [hpc] at hst
    refine ⟨fun id' h => ?_, fun out' h => ?_⟩
    · exact put_run_frame hy hoff hex hst (by simp) (by simpa using h)
    · exact put_run_frame hy hoff hex hst (by simpa [putOut] using h) (by simp)

example : OpExec toyP 5 0 (.put 1 ⟨false, [7], true, [7]⟩) emptyFS emptyFS (.ret .err) := ⟨rfl, rfl⟩

/-! ### what the lookups of another id read, and hence report, after a failed Put -/

/-- id 2 is stored with the 1-byte content `[7]`: output file `[7]`-d and index file 2-a; nothing else. -/
def twoFS : FS Nat Bytes :=
  { names := fun p => if p = .data [7] then some 0 else if p = .index 2 then some 1 else none,
    inodes := fun i => if i = 0 then some ⟨.data [7], [7]⟩ else if i = 1 then some ⟨.index 2, toyEnc 2 [7] 1 0⟩ else none,
    nextIno := 2, fds := fun _ => none, nextFd := 0 }

theorem twoFS_inv : FSInv toyP toyOffered twoFS := by
  refine ⟨⟨?_, ?_⟩, ?_⟩
  · intro p i h
    simp only [twoFS] at h ⊢
    split at h
    · next hp => cases h; exact ⟨⟨.data [7], [7]⟩, by simp, hp.symm⟩
    · split at h
      · next hp => cases h; exact ⟨⟨.index 2, toyEnc 2 [7] 1 0⟩, by simp, hp.symm⟩
      · cases h
  · intro i nd h
    simp only [twoFS] at h ⊢
    split at h
    · omega
    · split at h
      · omega
      · cases h
  · intro p i nd _ hp hi
    simp only [twoFS] at hp hi
    split at hp
    · next hpe =>
      cases hp
      simp at hi
      subst hi; subst hpe
      intro c hc hh
      rcases hc with rfl | rfl
      · right; rfl
      · exact absurd hh (by decide)
    · split at hp
      · next hpe =>
        cases hp
        simp at hi
        subst hi; subst hpe
        exact Or.inr ⟨[7], 0, Or.inl rfl, rfl⟩
      · cases hp

set_option maxRecDepth 8000 in
/-- in `twoFS`, `Put(1, toySrc)` fails: its write of the output is short (the one fault), it truncates and returns an error. -/
theorem twoFS_put_fails : ∃ fs', OpExec toyP 5 0 (.put 1 toySrc) twoFS fs' (.ret .err) := by
  apply Exists.intro
  show OpRun toyP 5 0 (.put 1 toySrc) _ .pStat false _ _
  apply OpRun.step (fault := .none) (n := 0) (FaultStep.none false)
  · rfl
  apply OpRun.step (fault := .none) (n := 0) (FaultStep.none false)
  · rfl
  apply OpRun.step (fault := .short 1) (n := 2) (FaultStep.short 1)
  · rfl
  apply OpRun.step (fault := .none) (n := 0) (FaultStep.none true)
  · rfl
  apply OpRun.done (fault := .none) (n := 0) (FaultStep.none true)
  rfl

set_option maxRecDepth 8000 in
/-- in `twoFS`, a fault-free `GetFile(2)` names the output file of `[7]`. -/
theorem twoFS_getFile : ∃ fs1, OpExec toyP 6 1 (.getFile 2) twoFS fs1 (.ret (.file ⟨[7], 1⟩ (some [7]))) := by
  apply Exists.intro
  show OpRun toyP 6 1 (.getFile 2) _ .gOpen false _ _
  apply OpRun.step (fault := .none) (n := 0) (FaultStep.none false)
  · rfl
  apply OpRun.step (fault := .none) (n := 0) (FaultStep.none false)
  · rfl
  apply OpRun.step (fault := .none) (n := 0) (FaultStep.none false)
  · rfl
  apply OpRun.step (fault := .none) (n := 0) (FaultStep.none false)
  · rfl
  apply OpRun.step (fault := .none) (n := 0) (FaultStep.none false)
  · rfl
  apply OpRun.step (fault := .none) (n := 0) (FaultStep.none false)
  · rfl
  apply OpRun.done (fault := .none) (n := 0) (FaultStep.none false)
  rfl

/-- **The read set of the lookups** (`GIV.Lemmas.CachePutReadSet`): what `get` / `GetFile` / `GetBytes` of an
id report — under every fault placement, chunking and mtime-test outcome — is determined by the index file
of that id and the data file named by the OutputID that index file parses to.  If two (structurally sound)
directories agree on these two files (`ReadAgree`: existence and bytes), the lookup has the same possible
outcomes in both, result for result, byte for byte. -/
theorem lookup_reads_only_its_two_files {op : Op Id} (hop : isLookup op = true) {fs1 fs2 : FS Id Hsh}
    (hag : ReadAgree P op.id fs1 fs2) (now : Int) (proc : Nat) (o : Outcome Hsh) :
    (∃ fs1', OpExec P now proc op fs1 fs1' o) ↔ (∃ fs2', OpExec P now proc op fs2 fs2' o) :=
  lookup_readset_iff hop hag now proc o

/-- the same directory with some descriptor left open and a foreign file added agrees with `twoFS` on the read set of id 2. -/
example : ∃ fs2 : FS Nat Bytes, fs2.content (.data [9]) ≠ twoFS.content (.data [9]) ∧ ReadAgree toyP 2 twoFS fs2 ∧
    ∃ fs2', OpExec toyP 6 1 (.getFile 2) fs2 fs2' (.ret (.file ⟨[7], 1⟩ (some [7]))) := by
  let fs2 : FS Nat Bytes :=
    { names := fun p => if p = .data [9] then some 2 else twoFS.names p,
      inodes := fun i => if i = 2 then some ⟨.data [9], [1, 2]⟩ else twoFS.inodes i,
      nextIno := 3, fds := fun fd => if fd = 0 then some ⟨2, 1, 4⟩ else none, nextFd := 1 }
  have hst : Struct fs2 := by
    refine ⟨?_, ?_⟩
    · intro p i h
      simp only [fs2] at h ⊢
      split at h
      · next hp => cases h; exact ⟨⟨.data [9], [1, 2]⟩, by simp, hp.symm⟩
      · obtain ⟨nd, h1, h2⟩ := twoFS_inv.1.named p i h
        have : i ≠ 2 := by have := twoFS_inv.1.bound i nd h1; simp [twoFS] at this; omega
        exact ⟨nd, by simp [this, h1], h2⟩
    · intro i nd h
      simp only [fs2] at h ⊢
      split at h
      · omega
      · have := twoFS_inv.1.bound i nd h; simp [twoFS] at this; omega
  have hag : ReadAgree toyP 2 twoFS fs2 := by
    refine ⟨twoFS_inv.1, hst, rfl, ?_⟩
    intro d e hd he
    have hd' : d = toyEnc 2 [7] 1 0 := by
      have : twoFS.content (.index 2) = some (toyEnc 2 [7] 1 0) := rfl
      rw [this] at hd; exact (Option.some.inj hd).symm
    subst hd'
    have he' : e = ⟨[7], 1⟩ := by
      have : toyP.parse 2 (toyEnc 2 [7] 1 0) = some ⟨[7], 1⟩ := toyHyps.parseEnc 2 [7] 0 (Or.inl rfl)
      rw [this] at he; exact (Option.some.inj he).symm
    subst he'
    rfl
  refine ⟨fs2, by decide, hag, ?_⟩
  exact (lookup_reads_only_its_two_files (op := .getFile 2) rfl hag 6 1 _).mp twoFS_getFile

/-- **A failed Put never makes unrelated entries unreadable — on what the lookups report.**  Whatever
fault hits `Put(id, s)` and wherever it stops (same hypotheses as `failed_put_unrelated`; the Put may also
succeed), for every lookup `op` (`get`, `GetFile`, `GetBytes`) of another id whose index file, as far as it
parses, does not name the output this Put writes (`P.H s.data1`): the directory after the Put agrees with
the directory before it on everything the lookup reads, hence the lookup has exactly the same possible
outcomes — the same reported entry, file and bytes — after the Put as before it. -/
theorem failed_put_lookups_unchanged (hy : Hyps P offered) {now : Int} {proc : Nat} {id : Id} {s : Src}
    (hoff : offered s.data1) {fs fs' : FS Id Hsh} {o : Outcome Hsh} (hinv : FSInv P offered fs)
    (hex : OpExec P now proc (.put id s) fs fs' o)
    {op : Op Id} (hop : isLookup op = true) (hid : op.id ≠ id)
    (hout : ∀ d e, fs.content (.index op.id) = some d → P.parse op.id d = some e → e.out ≠ P.H s.data1) :
    ReadAgree P op.id fs fs' ∧
    ∀ (now' : Int) (proc' : Nat) (o' : Outcome Hsh),
      (∃ fs1, OpExec P now' proc' op fs fs1 o') ↔ (∃ fs2, OpExec P now' proc' op fs' fs2 o') := by
  obtain ⟨h1, h2⟩ := failed_put_unrelated hy hoff hinv hex
  have hinv' : FSInv P offered fs' := opExec_inv hy (op := .put id s) hoff hinv hex
  have hag : ReadAgree P op.id fs fs' :=
    ⟨hinv.1, hinv'.1, h1 _ hid, fun d e hd he => h2 e.out (hout d e hd he)⟩
  exact ⟨hag, fun now' proc' o' => lookup_readset_iff hop hag now' proc' o'⟩

/-- two ids: id 2 is stored with content `[7]`; `Put(1, [8, 9, 10])` fails (short write, then `Truncate(0)`);
`GetFile(2)` still names the file holding `[7]`. -/
example : ∃ fs', OpExec toyP 5 0 (.put 1 toySrc) twoFS fs' (.ret .err) ∧
    ∃ fs2, OpExec toyP 6 1 (.getFile 2) fs' fs2 (.ret (.file ⟨[7], 1⟩ (some [7]))) := by
  obtain ⟨fs', hput⟩ := twoFS_put_fails
  refine ⟨fs', hput, ?_⟩
  have hout : ∀ d e, twoFS.content (.index (Op.getFile 2).id) = some d → toyP.parse (Op.getFile 2).id d = some e →
      e.out ≠ toyP.H toySrc.data1 := by
    intro d e hd he
    have hd' : d = toyEnc 2 [7] 1 0 := by
      have : twoFS.content (.index 2) = some (toyEnc 2 [7] 1 0) := rfl
      rw [show (Op.getFile 2).id = 2 from rfl, this] at hd; exact (Option.some.inj hd).symm
    subst hd'
    have : toyP.parse 2 (toyEnc 2 [7] 1 0) = some ⟨[7], 1⟩ := toyHyps.parseEnc 2 [7] 0 (Or.inl rfl)
    rw [show (Op.getFile 2).id = 2 from rfl, this] at he
    cases he
    decide
  exact ((failed_put_lookups_unchanged toyHyps (Or.inr rfl) twoFS_inv hput (op := .getFile 2) rfl (by decide) hout).2
    6 1 _).mp twoFS_getFile

/-! ### shared outputs: the other id's entry names the SAME output as the failing Put -/

/-- id 2 is stored with content `[8, 9, 10]`: the output file is complete and valid, the index file of id 2 names it. -/
def sharedFS : FS Nat Bytes :=
  { names := fun p => if p = .data [8, 9, 10] then some 0 else if p = .index 2 then some 1 else none,
    inodes := fun i => if i = 0 then some ⟨.data [8, 9, 10], [8, 9, 10]⟩
      else if i = 1 then some ⟨.index 2, toyEnc 2 [8, 9, 10] 3 0⟩ else none,
    nextIno := 2, fds := fun _ => none, nextFd := 0 }

theorem sharedFS_inv : FSInv toyP toyOffered sharedFS := by
  refine ⟨⟨?_, ?_⟩, ?_⟩
  · intro p i h
    simp only [sharedFS] at h ⊢
    split at h
    · next hp => cases h; exact ⟨⟨.data [8, 9, 10], [8, 9, 10]⟩, by simp, hp.symm⟩
    · split at h
      · next hp => cases h; exact ⟨⟨.index 2, toyEnc 2 [8, 9, 10] 3 0⟩, by simp, hp.symm⟩
      · cases h
  · intro i nd h
    simp only [sharedFS] at h ⊢
    split at h
    · omega
    · split at h
      · omega
      · cases h
  · intro p i nd _ hp hi
    simp only [sharedFS] at hp hi
    split at hp
    · next hpe =>
      cases hp
      simp at hi
      subst hi; subst hpe
      intro c hc hh
      rcases hc with rfl | rfl
      · exact absurd hh (by decide)
      · right; rfl
    · split at hp
      · next hpe =>
        cases hp
        simp at hi
        subst hi; subst hpe
        exact Or.inr ⟨[8, 9, 10], 0, Or.inr rfl, rfl⟩
      · cases hp

set_option maxRecDepth 8000 in
/-- in `sharedFS`, a fault-free `GetFile(2)` names the output file of `[8, 9, 10]`. -/
theorem sharedFS_getFile : ∃ fs1, OpExec toyP 6 1 (.getFile 2) sharedFS fs1 (.ret (.file ⟨[8, 9, 10], 3⟩ (some [8, 9, 10]))) := by
  apply Exists.intro
  show OpRun toyP 6 1 (.getFile 2) _ .gOpen false _ _
  apply OpRun.step (fault := .none) (n := 0) (FaultStep.none false)
  · rfl
  apply OpRun.step (fault := .none) (n := 0) (FaultStep.none false)
  · rfl
  apply OpRun.step (fault := .none) (n := 0) (FaultStep.none false)
  · rfl
  apply OpRun.step (fault := .none) (n := 0) (FaultStep.none false)
  · rfl
  apply OpRun.step (fault := .none) (n := 0) (FaultStep.none false)
  · rfl
  apply OpRun.step (fault := .none) (n := 0) (FaultStep.none false)
  · rfl
  apply OpRun.done (fault := .none) (n := 0) (FaultStep.none false)
  rfl

/-- the first pass yields `[8, 9, 10]`; the second `Seek(0, 0)` fails. -/
def seekFailSrc : Src := ⟨true, [8, 9, 10], false, [8, 9, 10]⟩

set_option maxRecDepth 8000 in
/-- **Negative result (inside the property's fault model): a shared output IS damaged.**  The statement of
`failed_put_lookups_unchanged` does not extend to an id' whose entry names the same output as the failing
Put, even when that output file is complete and valid and the source's first pass yields exactly its
content.  History (one file-operation fault, plus a source that misbehaves on its second pass — the
combination the fault model of C12 allows): id 2 is stored with `[8, 9, 10]`; `Put(1, [8, 9, 10])`:
`os.Stat` of the output FAILS (the one fault), so `copyFile` skips the hash guard that protects a complete
valid output, opens the file without `O_TRUNC`, the second `Seek(0, 0)` of the source fails, and the error
path runs `f.Truncate(0)` on the valid shared file; Put returns an error.  Before, `GetFile(2)` named a file
holding `[8, 9, 10]`; afterwards no execution of `GetFile(2)` can report that any more (the directory
invariant still holds: the entry of id 2 now fails the size gate, as after a Trim of the output). -/
theorem shared_output_damaged_witness :
    FSInv toyP toyOffered sharedFS ∧ sharedFS.content (.data (toyP.H seekFailSrc.data1)) = some seekFailSrc.data1 ∧
    ∃ fs', OpExec toyP 5 0 (.put 1 seekFailSrc) sharedFS fs' (.ret .err) ∧
      fs'.content (.index 2) = sharedFS.content (.index 2) ∧
      (∃ fs1, OpExec toyP 6 1 (.getFile 2) sharedFS fs1 (.ret (.file ⟨[8, 9, 10], 3⟩ (some [8, 9, 10])))) ∧
      ¬ (∃ fs2, OpExec toyP 6 1 (.getFile 2) fs' fs2 (.ret (.file ⟨[8, 9, 10], 3⟩ (some [8, 9, 10])))) := by
  refine ⟨sharedFS_inv, rfl, ?_⟩
  have hput : ∃ fs', OpExec toyP 5 0 (.put 1 seekFailSrc) sharedFS fs' (.ret .err) ∧
      fs'.content (.index 2) = sharedFS.content (.index 2) ∧ fs'.content (.data [8, 9, 10]) = some [] := by
    apply Exists.intro
    apply And.intro
    · show OpRun toyP 5 0 (.put 1 seekFailSrc) _ .pStat false _ _
      apply OpRun.step (fault := .fail) (n := 0) FaultStep.fail
      · rfl
      apply OpRun.step (fault := .none) (n := 0) (FaultStep.none true)
      · rfl
      apply OpRun.step (fault := .none) (n := 0) (FaultStep.none true)
      · rfl
      apply OpRun.done (fault := .none) (n := 0) (FaultStep.none true)
      rfl
    · exact ⟨rfl, rfl⟩
  obtain ⟨fs', hput, hidx, hdat⟩ := hput
  refine ⟨fs', hput, hidx, ?_, ?_⟩
  · exact sharedFS_getFile
  · rintro ⟨fs2, hget⟩
    have hinv' : FSInv toyP toyOffered fs' := opExec_inv toyHyps (op := .put 1 seekFailSrc) (Or.inr rfl) sharedFS_inv hput
    obtain ⟨d, h1, _, h3⟩ := exec_file_gate (op := .getFile 2) rfl hinv'.1 hget
    rw [hdat] at h3
    cases h1
    cases h3

example : ∃ fs', OpExec toyP 5 0 (.put 1 seekFailSrc) sharedFS fs' (.ret .err) :=
  shared_output_damaged_witness.2.2.imp fun _ h => h.1

/-- the second pass of the source repeats the first: `[8, 9, 10]` twice. -/
def steadySrc : Src := ⟨true, [8, 9, 10], true, [8, 9, 10]⟩

/-- **Shared outputs, what IS true**: if the output file of the offered content is complete and valid
before the Put (`fs.content (.data (H c)) = some c`, `c` the bytes of the source's first pass) AND the
source is steady (its second `Seek(0, 0)` succeeds and its second pass yields `c` again — without this the
claim is false: `shared_output_damaged_witness`), then whatever single fault hits `Put(id, s)` and wherever
it stops, that file keeps its bytes — a complete valid output is never truncated, removed or rewritten with
other bytes — and EVERY lookup of EVERY other id, whether or not its entry names this output, has exactly
the same possible outcomes after the Put as before it. -/
theorem failed_put_shared_output (hy : Hyps P offered) {now : Int} {proc : Nat} {id : Id} {s : Src}
    (hoff : offered s.data1) {fs fs' : FS Id Hsh} {o : Outcome Hsh} (hinv : FSInv P offered fs)
    (hex : OpExec P now proc (.put id s) fs fs' o)
    (hvalid : fs.content (.data (P.H s.data1)) = some s.data1)
    (hsteady : s.seek2 = true ∧ s.data2 = s.data1)
    {op : Op Id} (hop : isLookup op = true) (hid : op.id ≠ id) :
    fs'.content (.data (P.H s.data1)) = some s.data1 ∧ ReadAgree P op.id fs fs' ∧
    ∀ (now' : Int) (proc' : Nat) (o' : Outcome Hsh),
      (∃ fs1, OpExec P now' proc' op fs fs1 o') ↔ (∃ fs2, OpExec P now' proc' op fs' fs2 o') := by
  obtain ⟨h1, h2⟩ := failed_put_unrelated hy hoff hinv hex
  have hinv' : FSInv P offered fs' := opExec_inv hy (op := .put id s) hoff hinv hex
  have hkeep := put_exec_keeps_valid hy hoff hsteady hinv hex hvalid
  have hag : ReadAgree P op.id fs fs' := by
    refine ⟨hinv.1, hinv'.1, h1 _ hid, fun d e _ _ => ?_⟩
    by_cases he : e.out = P.H s.data1
    · rw [he, hkeep, hvalid]
    · exact h2 e.out he
  exact ⟨hkeep, hag, fun now' proc' o' => lookup_readset_iff hop hag now' proc' o'⟩

set_option maxRecDepth 8000 in
/-- two ids sharing the output `[8, 9, 10]`: `Put(1, [8, 9, 10])` with a steady source whose `os.Stat` FAILS
(the one fault: the hash guard is skipped and the valid file is rewritten in place, without `O_TRUNC`, with the
bytes it already holds); `GetFile(2)` still names the file holding `[8, 9, 10]`. -/
example : ∃ fs', OpExec toyP 5 0 (.put 1 steadySrc) sharedFS fs' (.ret (.putOk [8, 9, 10] 3)) ∧
    ∃ fs2, OpExec toyP 6 1 (.getFile 2) fs' fs2 (.ret (.file ⟨[8, 9, 10], 3⟩ (some [8, 9, 10]))) := by
  have hput : ∃ fs', OpExec toyP 5 0 (.put 1 steadySrc) sharedFS fs' (.ret (.putOk [8, 9, 10] 3)) := by
    apply Exists.intro
    show OpRun toyP 5 0 (.put 1 steadySrc) _ .pStat false _ _
    apply OpRun.step (fault := .fail) (n := 0) FaultStep.fail          -- stat fails
    · rfl
    apply OpRun.step (fault := .none) (n := 0) (FaultStep.none true)   -- open, no O_TRUNC
    · rfl
    apply OpRun.step (fault := .none) (n := 2) (FaultStep.none true)   -- write [8, 9]
    · rfl
    apply OpRun.step (fault := .none) (n := 0) (FaultStep.none true)   -- commit [10]
    · rfl
    apply OpRun.step (fault := .none) (n := 0) (FaultStep.none true)   -- close
    · rfl
    apply OpRun.step (fault := .none) (n := 0) (FaultStep.none true)   -- chtimes
    · rfl
    apply OpRun.step (fault := .none) (n := 0) (FaultStep.none true)   -- deferred close
    · rfl
    apply OpRun.step (fault := .none) (n := 0) (FaultStep.none true)   -- index: open
    · rfl
    apply OpRun.step (fault := .none) (n := 0) (FaultStep.none true)   -- write
    · rfl
    apply OpRun.step (fault := .none) (n := 0) (FaultStep.none true)   -- truncate
    · rfl
    apply OpRun.step (fault := .none) (n := 0) (FaultStep.none true)   -- close
    · rfl
    apply OpRun.done (fault := .none) (n := 0) (FaultStep.none true)   -- chtimes
    rfl
  obtain ⟨fs', hput⟩ := hput
  refine ⟨fs', hput, ?_⟩
  exact ((failed_put_shared_output toyHyps (Or.inr rfl) sharedFS_inv hput rfl ⟨rfl, rfl⟩ (op := .getFile 2) rfl
    (by decide)).2.2 6 1 _).mp sharedFS_getFile

/-- id 1 is stored with content `[8, 9, 10]` (index entry present), a Put(1, [7]) has its index file open. -/
def tornFS : FS Nat Bytes :=
  { names := fun p => if p = .index 1 then some 0 else none,
    inodes := fun i => if i = 0 then some ⟨.index 1, toyEnc 1 [8, 9, 10] 3 0⟩ else none,
    nextIno := 1, fds := fun fd => if fd = 0 then some ⟨0, 0, 0⟩ else none, nextFd := 1 }

def tornSrc : Src := ⟨true, [7], true, [7]⟩

theorem tornFS_inv : FSInv toyP toyOffered tornFS := by
  refine ⟨⟨?_, ?_⟩, ?_⟩
  · intro p i h
    simp only [tornFS] at h ⊢
    split at h
    · next hp => cases h; exact ⟨⟨.index 1, toyEnc 1 [8, 9, 10] 3 0⟩, by simp, hp.symm⟩
    · cases h
  · intro i nd h
    simp only [tornFS] at h ⊢
    split at h
    · next hi => omega
    · cases h
  · intro p i nd _ hp hi
    simp only [tornFS] at hp hi
    split at hp
    · next hpe =>
      cases hp
      simp at hi
      subst hi; subst hpe
      exact Or.inr ⟨[8, 9, 10], 0, Or.inr rfl, rfl⟩
    · cases hp

set_option maxRecDepth 8000 in
/-- **Negative result, outside the property's fault model**: if the single write of the index entry is
SHORT and the process then dies before the code's own `Remove` (two faults in one operation), the index
file is a byte-wise mixture of the old and the new entry that parses as an entry nobody stored — clause
(I) of the invariant is lost.  (Here: id 1 was stored with a 3-byte content, a Put of the 1-byte content
`[7]` writes 1 byte of its entry and dies; the file now reads "output of [7], size 3".)  From there a
Trim of that output and a further interrupted Put can produce a file of the reported size with wrong bytes. -/
theorem torn_then_crash_witness :
    ∃ fs1 r nx, FSInv toyP toyOffered tornFS ∧ LocalPut toyP toyOffered 5 1 tornSrc false tornFS (.iWrite 0) ∧
      tstep toyP 5 tornFS 0 (.put 1 tornSrc) (.iWrite 0) (.short 1) 0 = some (fs1, r, nx) ∧
      (fs1.closeProc 0).content (.index 1) = some ([7, 3] ++ List.replicate 173 0) ∧
      toyP.parse 1 ([7, 3] ++ List.replicate 173 0) = some ⟨[7], 3⟩ ∧
      ¬ FSInv toyP toyOffered (fs1.closeProc 0) := by
  refine ⟨_, _, _, tornFS_inv, ⟨tornFS_inv, ⟨0, 0, 0⟩, rfl, rfl, rfl⟩, rfl, ?_, rfl, ?_⟩
  · rfl
  · intro h
    have := h.2 (.index 1) 0 _ (by simp) rfl rfl
    rcases this with h0 | ⟨c, t, hc, hd⟩
    · exact absurd h0 (by decide)
    · rcases hc with rfl | rfl
      · have h1 := congrArg (fun l => List.getD l 1 0) hd
        simp [toyP, toyEnc, putOut, Src.size, tornSrc, writeAt] at h1
      · have h1 := congrArg (fun l => List.getD l 0 0) hd
        simp [toyP, toyEnc, putOut, Src.size, tornSrc, writeAt] at h1

example : ∃ fs1 r nx, tstep toyP 5 tornFS 0 (.put 1 tornSrc) (.iWrite 0) (.short 1) 0 = some (fs1, r, nx) := ⟨_, _, _, rfl⟩

/-- id 1 is stored with the 1-byte content `[7]` (index entry present; its output has been trimmed), a
Put(1, [8, 9, 10]) by process 0 has copied its output and has the index file open. -/
def tornFS2 : FS Nat Bytes :=
  { names := fun p => if p = .index 1 then some 0 else none,
    inodes := fun i => if i = 0 then some ⟨.index 1, toyEnc 1 [7] 1 0⟩ else none,
    nextIno := 1, fds := fun fd => if fd = 0 then some ⟨0, 0, 0⟩ else none, nextFd := 1 }

def bigSrc : Src := ⟨true, [8, 9, 10], true, [8, 9, 10]⟩

set_option maxRecDepth 8000 in
/-- **the whole story of the double fault** (outside the property's fault model): the index write of
Put(1, [8,9,10]) is short (1 byte) AND the process dies before the code's `Remove`; the index file of id 1
now reads "output of [8,9,10], size 1".  The output of [8,9,10] is not there (Trim removed it, or it was
never complete).  A later Put of [8,9,10] (by another process, for id 2) is interrupted after the first
byte of its output.  A `GetFile(1)` by a fresh process then SUCCEEDS and names a file of the reported size
(1) that does not hold the bytes of the reported output: the statement of C12 fails — with two faults in
one operation. -/
theorem torn_then_crash_full_witness :
    ∃ fs1 r1 nx1,
      -- the short index write, then death
      tstep toyP 5 tornFS2 0 (.put 1 bigSrc) (.iWrite 0) (.short 1) 0 = some (fs1, r1, nx1) ∧
      ∃ fs2,
      -- a further Put of the same content, interrupted after its first byte
      OpExec toyP 6 1 (.put 2 bigSrc) (fs1.closeProc 0) fs2 .crashed ∧
      ∃ fs3 e d,
      -- a lookup in a fresh process
      OpExec toyP 7 2 (.getFile 1) fs2 fs3 (.ret (.file e (some d))) ∧
      d.length = e.size ∧ toyP.H d ≠ e.out := by
  refine ⟨_, _, _, rfl, ?_⟩
  apply Exists.intro
  apply And.intro
  · show OpRun toyP 6 1 (.put 2 bigSrc) _ .pStat false _ .crashed
    apply OpRun.step (fault := .none) (n := 0) (FaultStep.none false)
    · rfl
    apply OpRun.step (fault := .none) (n := 0) (FaultStep.none false)
    · rfl
    apply OpRun.crashAfter (n := 1)
    rfl
  apply Exists.intro
  apply Exists.intro
  apply Exists.intro
  apply And.intro
  · show OpRun toyP 7 2 (.getFile 1) _ .gOpen false _ _
    apply OpRun.step (fault := .none) (n := 0) (FaultStep.none false)
    · rfl
    apply OpRun.step (fault := .none) (n := 0) (FaultStep.none false)
    · rfl
    apply OpRun.step (fault := .none) (n := 0) (FaultStep.none false)
    · rfl
    apply OpRun.step (fault := .none) (n := 0) (FaultStep.none false)
    · rfl
    apply OpRun.step (fault := .none) (n := 0) (FaultStep.none false)
    · rfl
    apply OpRun.step (fault := .none) (n := 0) (FaultStep.none false)
    · rfl
    apply OpRun.done (fault := .none) (n := 0) (FaultStep.none false)
    rfl
  exact ⟨rfl, by decide⟩

example : ∃ fs1 r nx, tstep toyP 5 tornFS2 0 (.put 1 bigSrc) (.iWrite 0) (.short 1) 0 = some (fs1, r, nx) := ⟨_, _, _, rfl⟩

end GIV.C12
