import GIV.Model.CachePut
/-! C12 — an interrupted or failing Put leaves the cache consistent (theorems under construction). -/
namespace GIV.C12
open GIV GIV.CachePut

/-- the write order and the error paths of `put` / `copyFile` / `putIndexEntry` the proofs rely on,
as regenerated from the source. -/
theorem source_order_facts :
    Gen.CachePut.indexAfterCopy = true ∧ Gen.CachePut.copyErrSkipsIndex = true ∧
    Gen.CachePut.checkBeforeLastByte = true ∧ Gen.CachePut.copyNBeforeCheck = true ∧
    Gen.CachePut.truncOnSeekErr = true ∧ Gen.CachePut.truncOnCopyErr = true ∧
    Gen.CachePut.truncOnLastReadErr = true ∧ Gen.CachePut.truncOnMismatch = true ∧
    Gen.CachePut.truncOnCommitErr = true ∧ Gen.CachePut.removeOnCloseErr = true ∧
    Gen.CachePut.closeBeforeChtimes = true ∧ Gen.CachePut.indexRemoveOnErr = true := by
  decide

end GIV.C12
