/-
  C17 — testscript honours its deadline: blocked commands are stopped and reported.

  Property theorems about the model `GIV.Model.TsLifeDl` §1 (RunT's grace arithmetic), §6 (waitOrStop
  as a transition system of waiter, stopper goroutine, process and abstract clock) and §7 (cmdExec's
  error attribution).  Proofs are in `GIV/Lemmas/TsLifeGrace.lean`, `TsLifeWos.lean`,
  `TsLifeWosMain.lean`, where the regenerated facts are class hypotheses; every theorem below
  discharges the facts it needs from `GIV.Gen.TsLifeDl` by `rfl`, so a changed number, comparison,
  guard or message in /repo/testscript breaks exactly the theorems that depend on it.

  PARTIAL by nature: what is proved is the logic (arithmetic, every interleaving of the three
  actors, attribution).  That the OS delivers the signals, that a killed process exits, and the
  wall-clock numbers are measured by the correspondence run (harness/cmd/tslife), not proved.
-/
import GIV.Lemmas.TsLifeGrace
import GIV.Lemmas.TsLifeWosMain
import GIV.Lemmas.TsLifeDlMore

namespace GIV.C17
open GIV GIV.TsLife

instance : FGrace := ⟨rfl, rfl, rfl, rfl⟩
instance : FDeadline := ⟨rfl, rfl, rfl⟩
instance : FCtxOnce := ⟨rfl, rfl⟩
instance : FExec := ⟨rfl, rfl, rfl⟩
instance : FWos := ⟨rfl, rfl, rfl, rfl, rfl, rfl, rfl⟩

/-! ### the plan: when the interrupt and the kill happen -/

/-- For a deadline `timeout` nanoseconds away the grace period is `max 100ms (timeout/20)`, blocked
foreground commands are interrupted at `deadline − 2g` and killed at `deadline − g`, which is at
least 100ms before the deadline; the context gets a positive timeout exactly when more than 200ms
are left. -/
theorem grace_bounds : ∀ timeout : Int,
    (plan timeout).grace = max 100000000 (Int.tdiv timeout 20) ∧
    100000000 ≤ (plan timeout).grace ∧
    (plan timeout).interruptAt = timeout - 2 * (plan timeout).grace ∧
    (plan timeout).killAt = timeout - (plan timeout).grace ∧
    (plan timeout).killAt ≤ timeout - 100000000 ∧
    (0 < (plan timeout).interruptAt ↔ 200000000 < timeout) := by
  intro t
  obtain ⟨hg, hi, hk⟩ := plan_eq t
  have h1 := grace_ge t
  have h2 := ctxTimeout_pos_iff t
  rw [ctxTimeout_eq] at h2
  rw [hg, hi, hk, grace_eq_max]
  rw [grace_eq_max] at h1 h2
  refine ⟨rfl, h1, rfl, rfl, by omega, h2⟩

example : plan 1000000000 = ⟨100000000, 800000000, 900000000⟩ := by decide
example : plan 3000000000 = ⟨150000000, 2700000000, 2850000000⟩ := by decide
example : plan 150000000 = ⟨100000000, -50000000, 50000000⟩ := by decide

/-- The deadline is absolute: whenever a script's subtest function starts — at once, or long after
RunT was called because subtests run one after the other or wait for a slot — its context expires
at `RunT-call time + timeout − 2g` = `Deadline − 2g`, and an ignoring command is killed at
`Deadline − g`: neither depends on the script's start time, because one context is created once
per RunT call, outside the per-script function. -/
theorem deadline_is_absolute : ∀ (call start timeout : Int),
    scriptCtxExpiry call start timeout = (call + timeout) - 2 * grace timeout ∧
    scriptCtxExpiry call start timeout + fgKillDelay timeout = (call + timeout) - grace timeout ∧
    scriptCtxExpiry call start timeout = scriptCtxExpiry call call timeout := by
  intro call start timeout
  have h1 := scriptCtxExpiry_eq call start timeout
  have h2 := scriptCtxExpiry_eq call call timeout
  refine ⟨by omega, ?_, by omega⟩
  simp only [fgKillDelay]; omega

example : scriptCtxExpiry 0 2400000000 4000000000 = 3600000000 := by decide

/-- "5% of the remaining time, if time allows": the minimum up to two seconds, a twentieth beyond;
and the scripts keep at least 90% of the time. -/
theorem grace_five_percent : ∀ timeout : Int,
    (timeout ≤ 2000000000 → grace timeout = 100000000) ∧
    (2000000020 ≤ timeout → grace timeout = timeout / 20) ∧
    (0 ≤ timeout → 20 * grace timeout ≤ max 2000000000 timeout) ∧
    (0 ≤ timeout → 10 * ctxTimeout timeout ≥ min (10 * timeout - 2000000000) (9 * timeout)) :=
  fun t => ⟨grace_small t, grace_large t, grace_le t, ctxTimeout_ge t⟩

example : grace 2000000000 = 100000000 ∧ grace 60000000000 = 3000000000 := by decide

/-- A foreground `exec` hands waitOrStop the grace period as kill delay, which arms the escalation
(`killDelay > 0`); a background command gets −1, which does not. -/
theorem foreground_escalates : ∀ timeout : Int,
    fgKillDelay timeout = grace timeout ∧ killArmed (fgKillDelay timeout) = true ∧
    killArmed Gen.TsLifeDl.bgKillDelay = false := by
  intro t
  have := grace_ge t
  refine ⟨rfl, ?_, by decide⟩
  simp only [killArmed, fgKillDelay, FWos.guardStrict, if_true]
  exact decide_eq_true (by omega)

example : killArmed (fgKillDelay 600000000) = true := by decide

/-- so every foreground command under a deadline is in a class in which waitOrStop comes to an end. -/
theorem foreground_live : ∀ (timeout : Int) (d : Nat) (mayExit onInt : Bool),
    (Scn.mk (fgKillDelay timeout) (some d) mayExit onInt).live :=
  fun t _ _ _ => Or.inr ⟨rfl, (foreground_escalates t).2.1⟩

/-! ### waitOrStop: no deadlock, no leaked goroutine -/

/-- Every maximal execution (no label enabled any more) of a live scenario class ends in the final
state: the waiter has returned, the stopper goroutine is gone, and there was exactly one send and
one receive on `errc` — under all interleavings of waiter, stopper, process and clock, including
"the process exits just as the context fires". -/
theorem waitOrStop_no_leak : ∀ (c : Scn) (ls : List Lbl) (s : St), c.live →
    runLbls c St.init ls = some s → Stuck c s →
    (∃ v, s.w = .returned v) ∧ s.s = .done ∧ s.sends = 1 ∧ s.recvs = 1 := by
  intro c ls s hl hr hs
  have hf := stuck_final (inv_reach hr) hl hs
  simp only [St.final, Bool.and_eq_true, beq_iff_eq] at hf
  obtain ⟨⟨⟨h1, h2⟩, h3⟩, h4⟩ := hf
  refine ⟨?_, h2, h3, h4⟩
  cases hw : s.w with
  | returned v => exact ⟨v, rfl⟩
  | waiting => simp [hw] at h1
  | ready => simp [hw] at h1

/-- … and there is no infinite execution: at most 9 steps. -/
theorem waitOrStop_terminates : ∀ (c : Scn) (ls : List Lbl) (s : St),
    runLbls c St.init ls = some s → ls.length ≤ 9 := by
  intro c ls s h
  have := run_length ls h
  have h0 : St.init.measure = 9 := by decide
  omega

/-- the racing case, two ways: the process exits at the very moment the context fires. -/
example : (runLbls ⟨100, some 1000, true, true⟩ St.init
    [.exitOwn 1000, .ctxFire 1000, .selCtx 1000, .waitRet 1000, .signal 1000 .processDone, .sendRecv 1000]).map
      (fun s => (s.final, s.result)) = some (true, some (.waitStatus .own)) := by decide
example : (runLbls ⟨100, some 1000, true, true⟩ St.init
    [.ctxFire 1000, .selCtx 1000, .exitOwn 1000, .signal 1000 .ok, .waitRet 1001, .sendRecv 1001]).map
      (fun s => (s.final, s.result)) = some (true, some (.interruptErr .ctxErr)) := by decide
/-- a process that ignores the interrupt: killed one kill delay later. -/
example : (runLbls ⟨100, some 1000, false, false⟩ St.init
    [.ctxFire 1000, .selCtx 1000, .signal 1001 .ok, .timer 1101, .kill 1101, .exitKill 1102, .waitRet 1102, .sendRecv 1102]).map
      (fun s => (s.final, s.result, s.sigAt, s.killAt)) = some (true, some (.interruptErr .ctxErr), some 1001, some 1101) := by decide
/-- without escalation (background, killDelay = −1) such a process blocks forever: liveness needs `live`. -/
example : ¬ (Scn.mk (-1) (some 1000) false false).live := by
  simp [Scn.live, killArmed, FWos.guardStrict]
example : runLbls ⟨-1, some 1000, false, false⟩ St.init [.ctxFire 1000, .selCtx 1000, .signal 1001 .ok] =
    some ⟨1001, true, .running true false, .waiting, .sendErr .ctxErr, 0, 0, some 1001, true, none⟩ := by decide
example : Stuck ⟨-1, some 1000, false, false⟩
    ⟨1001, true, .running true false, .waiting, .sendErr .ctxErr, 0, 0, some 1001, true, none⟩ := by
  intro l; cases l <;> simp [step, stepCore]

/-! ### waitOrStop: what is returned, and when Kill is sent -/

/-- (1) the context's error is returned only if the context was done and the interrupt was sent
(or at least attempted); (2) if the command's own status is returned, no signal reached the live
process and Kill was not called; (3) Kill is called only if armed, and no earlier than `killDelay`
after the interrupt. -/
theorem waitOrStop_outcome : ∀ (c : Scn) (ls : List Lbl) (s : St), runLbls c St.init ls = some s →
    (∀ e, s.result = some (.interruptErr e) → s.ctxDone = true ∧ s.sigAt.isSome = true) ∧
    (∀ f, s.result = some (.waitStatus f) → s.delivered = false ∧ s.killAt = none ∧ f = .own) ∧
    (∀ tk, s.killAt = some tk → killArmed c.killDelay = true ∧
       ∃ ti, s.sigAt = some ti ∧ (ti : Int) + c.killDelay ≤ (tk : Int)) := by
  intro c ls s h
  have hi := inv_reach h
  refine ⟨fun e he => result_interrupt hi he, fun f hf => ?_, fun tk hk => kill_timing hi hk⟩
  obtain ⟨a, b, c', _⟩ := result_status hi hf
  exact ⟨a, b, c'⟩

/-- A process that neither exits by itself nor reacts to the interrupt: whenever waitOrStop has
returned, the process was killed, Kill came at least `killDelay` after the interrupt, and an
interrupt error (not the wait status) is what is returned. -/
theorem ignored_interrupt_escalates : ∀ (c : Scn) (ls : List Lbl) (s : St),
    c.mayExit = false → c.onInt = false → runLbls c St.init ls = some s → s.final = true →
    s.proc = .exited .byKill ∧ (∃ e, s.result = some (.interruptErr e)) ∧
    ∃ ti tk, s.sigAt = some ti ∧ s.killAt = some tk ∧ (ti : Int) + c.killDelay ≤ (tk : Int) :=
  fun _ _ _ hm ho h hf => ignoring_killed (inv_reach h) hm ho hf

/-! ### reporting -/

/-- cmdExec: a non-nil error while the context is done is reported with the timed-out message,
negated command or not. -/
theorem timeout_reported : ∀ neg : Bool,
    cmdExecOutcome neg true true = .fatal "test timed out while running command" :=
  fun neg => cmdExec_timeout neg

example : cmdExecOutcome true true true = .fatal "test timed out while running command" := by decide

/-- End to end: a foreground command that never exits by itself, under a deadline: every maximal
execution of waitOrStop ends (no hang), returns an interrupt error with the context done, and
cmdExec reports the timed-out failure. -/
theorem blocked_command_reported : ∀ (timeout : Int) (d : Nat) (onInt neg : Bool) (ls : List Lbl) (s : St),
    runLbls ⟨fgKillDelay timeout, some d, false, onInt⟩ St.init ls = some s →
    Stuck ⟨fgKillDelay timeout, some d, false, onInt⟩ s →
    ∃ e, s.result = some (.interruptErr e) ∧ s.ctxDone = true ∧
      cmdExecOutcome neg (Res.isErr false (.interruptErr e)) s.ctxDone = .fatal "test timed out while running command" := by
  intro t d oi neg ls s hr hs
  have hi := inv_reach hr
  have hf := stuck_final hi (foreground_live t d false oi) hs
  obtain ⟨⟨v, hv⟩, _, _, _⟩ := waitOrStop_no_leak _ ls s (foreground_live t d false oi) hr hs
  obtain ⟨f, hp⟩ := hi.j3 (by rw [hv]; intro hh; cases hh)
  have hres := final_result hf ⟨f, hp⟩
  cases hr' : s.result with
  | none => simp [hr'] at hres
  | some r =>
    cases r with
    | waitStatus f' => have := (result_status hi hr').2.2.2; simp at this
    | interruptErr e =>
      have hc := (result_interrupt hi hr').1
      exact ⟨e, rfl, hc, by rw [hc]; exact cmdExec_timeout neg⟩

/-! ### early finishers -/

/-- An execution in which the context has not fired is, step for step and with the same resulting
state, an execution of the same command without any deadline; and without a deadline no signal is
sent and the command's own status is returned. Scripts that finish earlier are unaffected. -/
theorem early_finish_unaffected : ∀ (c : Scn) (ls : List Lbl) (s : St),
    runLbls c St.init ls = some s → s.ctxDone = false →
    runLbls { c with deadline := none } St.init ls = some s ∧
    s.delivered = false ∧ s.killAt = none ∧ (∀ r, s.result = some r → r = .waitStatus .own) := by
  intro c ls s h hd
  have h' := run_no_deadline ls h hd
  obtain ⟨_, a, b, c'⟩ := no_deadline_result (inv_reach h') rfl
  exact ⟨h', a, b, c'⟩

example : (runLbls ⟨100, some 1000, true, true⟩ St.init [.exitOwn 40, .waitRet 41, .sendRecv 41]).map
    (fun s => (s.ctxDone, s.result)) = some (false, some (.waitStatus .own)) := by decide

/-- without a failure of its own an early finisher passes: no error, no message. -/
theorem early_finish_passes : cmdExecOutcome false (Res.isErr false (.waitStatus .own)) false = .ok := by decide

/-! ### more on the plan: order of the events, no overflow -/

/-- For EVERY distance `timeout` to the deadline (also one that is already over): the interrupt
comes exactly one grace period before the kill and the kill exactly one grace period before the
deadline, and a grace period is at least 100ms — so both happen before `Deadline − 100ms`, in this
order, at least 100ms apart. -/
theorem plan_is_ordered : ∀ timeout : Int,
    (plan timeout).interruptAt + (plan timeout).grace = (plan timeout).killAt ∧
    (plan timeout).killAt + (plan timeout).grace = timeout ∧
    (plan timeout).interruptAt + 100000000 ≤ (plan timeout).killAt ∧
    (plan timeout).killAt + 100000000 ≤ timeout :=
  fun t => TsLife.plan_order t

example : (plan 30000000000).interruptAt = 27000000000 ∧ (plan 30000000000).killAt = 28500000000 := by decide

/-- `time.Duration` is an int64 and the model computes in ℤ: for every int64 `timeout` (time.Until
saturates, so it always is one) except the last 200ms before the most negative duration (a deadline
more than 292 years in the past), every value RunT's deadline block computes — `timeout / 20`, the
grace period, `2 * gracePeriod`, `timeout − 2 * gracePeriod` — and the kill offset is an int64
again: the ℤ arithmetic of the model IS the int64 arithmetic of the code, nothing wraps. -/
theorem plan_no_overflow : ∀ timeout : Int, -9223372036654775808 ≤ timeout → timeout ≤ 9223372036854775807 →
    fits64 (Int.tdiv timeout 20) ∧ fits64 (grace timeout) ∧ fits64 (2 * grace timeout) ∧
    fits64 (ctxTimeout timeout) ∧ fits64 (ctxTimeout timeout + fgKillDelay timeout) :=
  fun t h1 h2 => plan_fits64 t h1 h2

example : fits64 (ctxTimeout 9223372036854775807) ∧ fits64 (ctxTimeout (-9223372036654775808)) := by decide
-- the bound is sharp: one nanosecond further down `timeout − 2 * gracePeriod` leaves the int64 range
example : ¬ fits64 (ctxTimeout (-9223372036654775809)) := by decide

/-! ### waitOrStop: every action at most once, signals only after the expiry -/

/-- Over the labels of EVERY execution of waitOrStop (all interleavings, all timings, every scenario
class): the context fires at most once, the process exits at most once, `cmd.Wait` returns at most
once, there is at most one rendezvous on `errc`, the stopper passes `<-ctx.Done()` at most once,
calls `cmd.Process.Signal` at most once, takes the kill timer at most once and calls
`cmd.Process.Kill` at most once; and when waitOrStop has returned the process has exited exactly
once, has been waited for exactly once, and exactly one value went over `errc`. -/
theorem waitOrStop_actions_once : ∀ (c : Scn) (ls : List Lbl) (s : St), runLbls c St.init ls = some s →
    (ls.countP Lbl.isCtxFire ≤ 1 ∧ ls.countP Lbl.isExit ≤ 1 ∧ ls.countP Lbl.isWaitRet ≤ 1 ∧
     ls.countP Lbl.isSendRecv ≤ 1 ∧ ls.countP Lbl.isSelCtx ≤ 1 ∧ ls.countP Lbl.isSignal ≤ 1 ∧
     ls.countP Lbl.isTimer ≤ 1 ∧ ls.countP Lbl.isKill ≤ 1) ∧
    (s.final = true → ls.countP Lbl.isExit = 1 ∧ ls.countP Lbl.isWaitRet = 1 ∧ ls.countP Lbl.isSendRecv = 1) := by
  intro c ls s h
  obtain ⟨b1, b2, b3, b4, b5, b6, b7, b8⟩ := budget_run ls h
  have e1 : St.init.cLeft = 1 := rfl
  have e2 : St.init.eLeft = 1 := rfl
  have e3 : St.init.wLeft = 1 := rfl
  have e4 : St.init.rLeft = 1 := rfl
  have e5 : St.init.selLeft = 1 := rfl
  have e6 : St.init.gLeft = 1 := rfl
  have e7 : St.init.tLeft = 1 := rfl
  have e8 : St.init.kLeft = 1 := rfl
  refine ⟨by omega, fun hf => ?_⟩
  have hi := inv_reach h
  simp only [St.final, Bool.and_eq_true, beq_iff_eq] at hf
  obtain ⟨⟨⟨hw, hs⟩, _⟩, _⟩ := hf
  cases hw' : s.w with
  | waiting => simp [hw'] at hw
  | ready => simp [hw'] at hw
  | returned v =>
    obtain ⟨f, hp⟩ := hi.j3 (by rw [hw']; intro hh; cases hh)
    have z1 : s.eLeft = 0 := by simp [St.eLeft, hp]
    have z2 : s.wLeft = 0 := by simp [St.wLeft, hw']
    have z3 : s.rLeft = 0 := by simp [St.rLeft, hs]
    omega

example : (runLbls ⟨100, some 1000, false, false⟩ St.init
    [.ctxFire 1000, .selCtx 1000, .signal 1001 .ok, .timer 1101, .kill 1101, .exitKill 1102, .waitRet 1102, .sendRecv 1102]).isSome = true ∧
    [Lbl.ctxFire 1000, .selCtx 1000, .signal 1001 .ok, .timer 1101, .kill 1101, .exitKill 1102, .waitRet 1102, .sendRecv 1102].countP Lbl.isKill = 1 := by decide
-- a second Signal / Kill / Wait is not a step of the system
example : runLbls ⟨100, some 1000, false, false⟩ St.init
    [.ctxFire 1000, .selCtx 1000, .signal 1001 .ok, .signal 1002 .ok] = none := by decide

/-- On the abstract clock, in every reachable state: `cmd.Process.Signal` is called only if there
is a deadline, and not before the context's expiry; `cmd.Process.Kill` only when armed
(`killDelay > 0`: foreground commands) and not before expiry + killDelay; without a deadline
neither is ever called. -/
theorem signals_only_after_expiry : ∀ (c : Scn) (ls : List Lbl) (s : St), runLbls c St.init ls = some s →
    (∀ ti, s.sigAt = some ti → ∃ d, c.deadline = some d ∧ d ≤ ti) ∧
    (∀ tk, s.killAt = some tk → killArmed c.killDelay = true ∧ 0 < c.killDelay ∧
       ∃ d, c.deadline = some d ∧ (d : Int) + c.killDelay ≤ (tk : Int)) ∧
    (c.deadline = none → s.sigAt = none ∧ s.killAt = none) := by
  intro c ls s h
  have hi := inv_reach h
  have ht := tinv_reach h
  have hk : ∀ tk, s.killAt = some tk → killArmed c.killDelay = true ∧ 0 < c.killDelay ∧
       ∃ d, c.deadline = some d ∧ (d : Int) + c.killDelay ≤ (tk : Int) := by
    intro tk htk
    obtain ⟨ha, ti, hti, hle⟩ := hi.j13 tk htk
    obtain ⟨_, d, hd, hdle⟩ := ht.t2 ti hti
    have hpos : 0 < c.killDelay := by
      simpa [killArmed, FWos.guardStrict] using ha
    exact ⟨ha, hpos, d, hd, by omega⟩
  refine ⟨fun ti hti => (ht.t2 ti hti).2, hk, fun hn => ⟨?_, ?_⟩⟩
  · cases hs : s.sigAt with
    | none => rfl
    | some ti => obtain ⟨_, d, hd, _⟩ := ht.t2 ti hs; rw [hn] at hd; cases hd
  · cases hs : s.killAt with
    | none => rfl
    | some tk => obtain ⟨_, _, d, hd, _⟩ := hk tk hs; rw [hn] at hd; cases hd

example : (runLbls ⟨100, some 1000, false, false⟩ St.init
    [.ctxFire 1000, .selCtx 1000, .signal 1001 .ok, .timer 1101, .kill 1101]).map (fun s => (s.sigAt, s.killAt)) =
    some (some 1001, some 1101) := by decide
-- the context cannot fire before the deadline, the timer not before the kill delay is over
example : runLbls ⟨100, some 1000, false, false⟩ St.init [.ctxFire 999] = none := by decide
example : runLbls ⟨100, some 1000, false, false⟩ St.init [.ctxFire 1000, .selCtx 1000, .signal 1001 .ok, .timer 1100] = none := by decide

/-! ### waitOrStop: which error is returned -/

/-- The code's rule, for every execution in which waitOrStop has returned: an interrupt error (not
the command's own wait status) is returned EXACTLY when `cmd.Process.Signal` was called and returned
nil or an error other than ErrProcessDone — that is, when the context expired before `cmd.Wait`
had reaped the process; and whenever the interrupt reached the live process, the error returned is
the context's error. -/
theorem interrupt_error_iff_signalled : ∀ (c : Scn) (ls : List Lbl) (s : St),
    runLbls c St.init ls = some s → s.final = true →
    ((∃ e, s.result = some (.interruptErr e)) ↔ ∃ t, Lbl.signal t .ok ∈ ls ∨ Lbl.signal t .other ∈ ls) ∧
    ((∃ f, s.result = some (.waitStatus f)) ↔ ∀ t, Lbl.signal t .ok ∉ ls ∧ Lbl.signal t .other ∉ ls) ∧
    (s.delivered = true → s.result = some (.interruptErr .ctxErr)) := by
  intro c ls s h hf
  have hiff := result_interrupt_iff h hf
  have hany : ls.any Lbl.sigSent = true ↔ ∃ t, Lbl.signal t .ok ∈ ls ∨ Lbl.signal t .other ∈ ls := by
    rw [List.any_eq_true]
    constructor
    · intro ⟨l, hl, hs⟩
      cases l with
      | signal t r => cases r <;> simp [Lbl.sigSent] at hs <;> exact ⟨t, by simp [hl]⟩
      | _ => simp [Lbl.sigSent] at hs
    · intro ⟨t, ht⟩
      rcases ht with ht | ht
      · exact ⟨_, ht, rfl⟩
      · exact ⟨_, ht, rfl⟩
  have h1 : (∃ e, s.result = some (.interruptErr e)) ↔ ∃ t, Lbl.signal t .ok ∈ ls ∨ Lbl.signal t .other ∈ ls :=
    hiff.trans hany
  refine ⟨h1, ?_, delivered_result h hf⟩
  -- a final state has a result: it is one or the other
  have hi := inv_reach h
  have hres : s.result.isSome = true := by
    have hf' := hf
    simp only [St.final, Bool.and_eq_true, beq_iff_eq] at hf'
    obtain ⟨⟨⟨hw, _⟩, _⟩, _⟩ := hf'
    cases hw' : s.w with
    | waiting => simp [hw'] at hw
    | ready => simp [hw'] at hw
    | returned v => exact final_result hf (hi.j3 (by rw [hw']; intro hh; cases hh))
  constructor
  · intro ⟨f, hf1⟩ t
    have : ¬ ∃ t, Lbl.signal t .ok ∈ ls ∨ Lbl.signal t .other ∈ ls := by
      intro hx
      obtain ⟨e, he⟩ := h1.2 hx
      rw [hf1] at he; cases he
    exact ⟨fun hx => this ⟨t, Or.inl hx⟩, fun hx => this ⟨t, Or.inr hx⟩⟩
  · intro hno
    cases hr : s.result with
    | none => simp [hr] at hres
    | some r =>
      cases r with
      | waitStatus f => exact ⟨f, rfl⟩
      | interruptErr e =>
        obtain ⟨t, ht⟩ := h1.1 ⟨e, hr⟩
        rcases ht with ht | ht
        · exact absurd ht (hno t).1
        · exact absurd ht (hno t).2

-- the two racing executions of the examples above: ErrProcessDone → own status; nil → ctx.Err()
example : (runLbls ⟨100, some 1000, true, true⟩ St.init
    [.exitOwn 1000, .ctxFire 1000, .selCtx 1000, .waitRet 1000, .signal 1000 .processDone, .sendRecv 1000]).map St.result =
    some (some (.waitStatus .own)) := by decide
example : (runLbls ⟨100, some 1000, true, true⟩ St.init
    [.exitOwn 1000, .ctxFire 1000, .selCtx 1000, .signal 1000 .ok, .waitRet 1000, .sendRecv 1000]).map (fun s => (s.result, s.delivered)) =
    some (some (.interruptErr .ctxErr), false) := by decide
-- a failing Signal call with the escalation armed: ctx.Err() if Wait returns first, the Signal error after the Kill
example : (runLbls ⟨100, some 1000, true, true⟩ St.init
    [.ctxFire 1000, .selCtx 1000, .signal 1000 .other, .exitOwn 1001, .waitRet 1001, .sendRecv 1001]).map St.result =
    some (some (.interruptErr .ctxErr)) := by decide
example : (runLbls ⟨100, some 1000, true, true⟩ St.init
    [.ctxFire 1000, .selCtx 1000, .signal 1000 .other, .timer 1100, .kill 1100, .exitKill 1101, .waitRet 1101, .sendRecv 1101]).map St.result =
    some (some (.interruptErr .other)) := by decide

/-! ### reporting: the whole table -/

/-- cmdExec's attribution for `exec` and `! exec` alike: the line is reported "timed out" EXACTLY
when the command failed (non-nil error) and the context had expired when the check ran; in all
other cases the context plays no role: success is fatal iff negated, failure is fatal iff not
negated. -/
theorem timeout_reported_iff : ∀ neg err ctxErrNow : Bool,
    (cmdExecOutcome neg err ctxErrNow = .fatal "test timed out while running command" ↔ (err = true ∧ ctxErrNow = true)) ∧
    cmdExecOutcome neg err ctxErrNow =
      (if err && ctxErrNow then .fatal "test timed out while running command"
       else if err == neg then .ok
       else if err then .fatal "unexpected command failure" else .fatal "unexpected command success") :=
  fun neg err ctx => ⟨cmdExec_timeout_iff neg err ctx, cmdExec_table neg err ctx⟩

example : cmdExecOutcome true true false = .ok ∧ cmdExecOutcome true false true = .fatal "unexpected command success" := by decide
-- the code's rule, not the reader's: a command that fails BY ITSELF after the expiry is reported as timed out too
example : cmdExecOutcome true (Res.isErr true (.waitStatus .own)) true = .fatal "test timed out while running command" := by decide

/-- End to end for EVERY scenario class (also a process that exits on the interrupt, or by itself at
about the moment the deadline fires): whenever waitOrStop returns an interrupt error the context is
done, so cmdExec reports the line as timed out, negated or not; and while the context is not done
no line is ever reported as timed out. -/
theorem interrupt_error_reported : ∀ (c : Scn) (ls : List Lbl) (s : St) (e : SErr) (neg ownFailed : Bool),
    runLbls c St.init ls = some s → s.result = some (.interruptErr e) →
    cmdExecOutcome neg (Res.isErr ownFailed (.interruptErr e)) s.ctxDone = .fatal "test timed out while running command" ∧
    ∀ (r : Res), cmdExecOutcome neg (Res.isErr ownFailed r) false ≠ .fatal "test timed out while running command" := by
  intro c ls s e neg own h hr
  have hc := (result_interrupt (inv_reach h) hr).1
  refine ⟨by rw [hc]; exact cmdExec_timeout neg, fun r hx => ?_⟩
  have := (cmdExec_timeout_iff neg (Res.isErr own r) false).1 hx
  simp at this

example : (runLbls ⟨100, some 1000, false, true⟩ St.init
    [.ctxFire 1000, .selCtx 1000, .signal 1001 .ok, .exitSig 1002, .waitRet 1002, .sendRecv 1002]).map (fun s => (s.result, s.ctxDone)) =
    some (some (.interruptErr .ctxErr), true) := by decide

end GIV.C17
