/-
  C17 — testscript honours its deadline: blocked commands are stopped and reported.

  Property theorems about the model `GIV.Model.TsLifeDl` §1 (RunT's grace arithmetic), §6 (waitOrStop
  as a transition system of waiter, stopper goroutine, process and abstract clock) and §7 (cmdExec's
  error attribution).  Proofs are in `GIV/Lemmas/TsLifeGrace.lean`, `TsLifeWos.lean`,
  `TsLifeWosMain.lean`, where the regenerated facts are class hypotheses; every theorem below
  discharges the facts it needs from `GIV.Gen.TsLifeDl` by `rfl`, so a changed number, comparison,
  guard or message in /repo/testscript breaks exactly the theorems that depend on it.

  PARTIAL by nature: what is proved is the logic (arithmetic, every interleaving of the three
  actors, attribution).  That the OS delivers the signals, that a killed process exits, and the
  wall-clock numbers are measured by the correspondence run (harness/cmd/tslife), not proved.
-/
import GIV.Lemmas.TsLifeGrace
import GIV.Lemmas.TsLifeWosMain

namespace GIV.C17
open GIV GIV.TsLife

instance : FGrace := ⟨rfl, rfl, rfl, rfl⟩
instance : FDeadline := ⟨rfl, rfl, rfl⟩
instance : FCtxOnce := ⟨rfl, rfl⟩
instance : FExec := ⟨rfl, rfl, rfl⟩
instance : FWos := ⟨rfl, rfl, rfl, rfl, rfl, rfl, rfl⟩

/-! ### the plan: when the interrupt and the kill happen -/

/-- For a deadline `timeout` nanoseconds away the grace period is `max 100ms (timeout/20)`, blocked
foreground commands are interrupted at `deadline − 2g` and killed at `deadline − g`, which is at
least 100ms before the deadline; the context gets a positive timeout exactly when more than 200ms
are left. -/
theorem grace_bounds : ∀ timeout : Int,
    (plan timeout).grace = max 100000000 (Int.tdiv timeout 20) ∧
    100000000 ≤ (plan timeout).grace ∧
    (plan timeout).interruptAt = timeout - 2 * (plan timeout).grace ∧
    (plan timeout).killAt = timeout - (plan timeout).grace ∧
    (plan timeout).killAt ≤ timeout - 100000000 ∧
    (0 < (plan timeout).interruptAt ↔ 200000000 < timeout) := by
  intro t
  obtain ⟨hg, hi, hk⟩ := plan_eq t
  have h1 := grace_ge t
  have h2 := ctxTimeout_pos_iff t
  rw [ctxTimeout_eq] at h2
  rw [hg, hi, hk, grace_eq_max]
  rw [grace_eq_max] at h1 h2
  refine ⟨rfl, h1, rfl, rfl, by omega, h2⟩

example : plan 1000000000 = ⟨100000000, 800000000, 900000000⟩ := by decide
example : plan 3000000000 = ⟨150000000, 2700000000, 2850000000⟩ := by decide
example : plan 150000000 = ⟨100000000, -50000000, 50000000⟩ := by decide

/-- The deadline is absolute: whenever a script's subtest function starts — at once, or long after
RunT was called because subtests run one after the other or wait for a slot — its context expires
at `RunT-call time + timeout − 2g` = `Deadline − 2g`, and an ignoring command is killed at
`Deadline − g`: neither depends on the script's start time, because one context is created once
per RunT call, outside the per-script function. -/
theorem deadline_is_absolute : ∀ (call start timeout : Int),
    scriptCtxExpiry call start timeout = (call + timeout) - 2 * grace timeout ∧
    scriptCtxExpiry call start timeout + fgKillDelay timeout = (call + timeout) - grace timeout ∧
    scriptCtxExpiry call start timeout = scriptCtxExpiry call call timeout := by
  intro call start timeout
  have h1 := scriptCtxExpiry_eq call start timeout
  have h2 := scriptCtxExpiry_eq call call timeout
  refine ⟨by omega, ?_, by omega⟩
  simp only [fgKillDelay]; omega

example : scriptCtxExpiry 0 2400000000 4000000000 = 3600000000 := by decide

/-- "5% of the remaining time, if time allows": the minimum up to two seconds, a twentieth beyond;
and the scripts keep at least 90% of the time. -/
theorem grace_five_percent : ∀ timeout : Int,
    (timeout ≤ 2000000000 → grace timeout = 100000000) ∧
    (2000000020 ≤ timeout → grace timeout = timeout / 20) ∧
    (0 ≤ timeout → 20 * grace timeout ≤ max 2000000000 timeout) ∧
    (0 ≤ timeout → 10 * ctxTimeout timeout ≥ min (10 * timeout - 2000000000) (9 * timeout)) :=
  fun t => ⟨grace_small t, grace_large t, grace_le t, ctxTimeout_ge t⟩

example : grace 2000000000 = 100000000 ∧ grace 60000000000 = 3000000000 := by decide

/-- A foreground `exec` hands waitOrStop the grace period as kill delay, which arms the escalation
(`killDelay > 0`); a background command gets −1, which does not. -/
theorem foreground_escalates : ∀ timeout : Int,
    fgKillDelay timeout = grace timeout ∧ killArmed (fgKillDelay timeout) = true ∧
    killArmed Gen.TsLifeDl.bgKillDelay = false := by
  intro t
  have := grace_ge t
  refine ⟨rfl, ?_, by decide⟩
  simp only [killArmed, fgKillDelay, FWos.guardStrict, if_true]
  exact decide_eq_true (by omega)

example : killArmed (fgKillDelay 600000000) = true := by decide

/-- so every foreground command under a deadline is in a class in which waitOrStop comes to an end. -/
theorem foreground_live : ∀ (timeout : Int) (d : Nat) (mayExit onInt : Bool),
    (Scn.mk (fgKillDelay timeout) (some d) mayExit onInt).live :=
  fun t _ _ _ => Or.inr ⟨rfl, (foreground_escalates t).2.1⟩

/-! ### waitOrStop: no deadlock, no leaked goroutine -/

/-- Every maximal execution (no label enabled any more) of a live scenario class ends in the final
state: the waiter has returned, the stopper goroutine is gone, and there was exactly one send and
one receive on `errc` — under all interleavings of waiter, stopper, process and clock, including
"the process exits just as the context fires". -/
theorem waitOrStop_no_leak : ∀ (c : Scn) (ls : List Lbl) (s : St), c.live →
    runLbls c St.init ls = some s → Stuck c s →
    (∃ v, s.w = .returned v) ∧ s.s = .done ∧ s.sends = 1 ∧ s.recvs = 1 := by
  intro c ls s hl hr hs
  have hf := stuck_final (inv_reach hr) hl hs
  simp only [St.final, Bool.and_eq_true, beq_iff_eq] at hf
  obtain ⟨⟨⟨h1, h2⟩, h3⟩, h4⟩ := hf
  refine ⟨?_, h2, h3, h4⟩
  cases hw : s.w with
  | returned v => exact ⟨v, rfl⟩
  | waiting => simp [hw] at h1
  | ready => simp [hw] at h1

/-- … and there is no infinite execution: at most 9 steps. -/
theorem waitOrStop_terminates : ∀ (c : Scn) (ls : List Lbl) (s : St),
    runLbls c St.init ls = some s → ls.length ≤ 9 := by
  intro c ls s h
  have := run_length ls h
  have h0 : St.init.measure = 9 := by decide
  omega

/-- the racing case, two ways: the process exits at the very moment the context fires. -/
example : (runLbls ⟨100, some 1000, true, true⟩ St.init
    [.exitOwn 1000, .ctxFire 1000, .selCtx 1000, .waitRet 1000, .signal 1000 .processDone, .sendRecv 1000]).map
      (fun s => (s.final, s.result)) = some (true, some (.waitStatus .own)) := by decide
example : (runLbls ⟨100, some 1000, true, true⟩ St.init
    [.ctxFire 1000, .selCtx 1000, .exitOwn 1000, .signal 1000 .ok, .waitRet 1001, .sendRecv 1001]).map
      (fun s => (s.final, s.result)) = some (true, some (.interruptErr .ctxErr)) := by decide
/-- a process that ignores the interrupt: killed one kill delay later. -/
example : (runLbls ⟨100, some 1000, false, false⟩ St.init
    [.ctxFire 1000, .selCtx 1000, .signal 1001 .ok, .timer 1101, .kill 1101, .exitKill 1102, .waitRet 1102, .sendRecv 1102]).map
      (fun s => (s.final, s.result, s.sigAt, s.killAt)) = some (true, some (.interruptErr .ctxErr), some 1001, some 1101) := by decide
/-- without escalation (background, killDelay = −1) such a process blocks forever: liveness needs `live`. -/
example : ¬ (Scn.mk (-1) (some 1000) false false).live := by
  simp [Scn.live, killArmed, FWos.guardStrict]
example : runLbls ⟨-1, some 1000, false, false⟩ St.init [.ctxFire 1000, .selCtx 1000, .signal 1001 .ok] =
    some ⟨1001, true, .running true false, .waiting, .sendErr .ctxErr, 0, 0, some 1001, true, none⟩ := by decide
example : Stuck ⟨-1, some 1000, false, false⟩
    ⟨1001, true, .running true false, .waiting, .sendErr .ctxErr, 0, 0, some 1001, true, none⟩ := by
  intro l; cases l <;> simp [step, stepCore]

/-! ### waitOrStop: what is returned, and when Kill is sent -/

/-- (1) the context's error is returned only if the context was done and the interrupt was sent
(or at least attempted); (2) if the command's own status is returned, no signal reached the live
process and Kill was not called; (3) Kill is called only if armed, and no earlier than `killDelay`
after the interrupt. -/
theorem waitOrStop_outcome : ∀ (c : Scn) (ls : List Lbl) (s : St), runLbls c St.init ls = some s →
    (∀ e, s.result = some (.interruptErr e) → s.ctxDone = true ∧ s.sigAt.isSome = true) ∧
    (∀ f, s.result = some (.waitStatus f) → s.delivered = false ∧ s.killAt = none ∧ f = .own) ∧
    (∀ tk, s.killAt = some tk → killArmed c.killDelay = true ∧
       ∃ ti, s.sigAt = some ti ∧ (ti : Int) + c.killDelay ≤ (tk : Int)) := by
  intro c ls s h
  have hi := inv_reach h
  refine ⟨fun e he => result_interrupt hi he, fun f hf => ?_, fun tk hk => kill_timing hi hk⟩
  obtain ⟨a, b, c', _⟩ := result_status hi hf
  exact ⟨a, b, c'⟩

/-- A process that neither exits by itself nor reacts to the interrupt: whenever waitOrStop has
returned, the process was killed, Kill came at least `killDelay` after the interrupt, and an
interrupt error (not the wait status) is what is returned. -/
theorem ignored_interrupt_escalates : ∀ (c : Scn) (ls : List Lbl) (s : St),
    c.mayExit = false → c.onInt = false → runLbls c St.init ls = some s → s.final = true →
    s.proc = .exited .byKill ∧ (∃ e, s.result = some (.interruptErr e)) ∧
    ∃ ti tk, s.sigAt = some ti ∧ s.killAt = some tk ∧ (ti : Int) + c.killDelay ≤ (tk : Int) :=
  fun _ _ _ hm ho h hf => ignoring_killed (inv_reach h) hm ho hf

/-! ### reporting -/

/-- cmdExec: a non-nil error while the context is done is reported with the timed-out message,
negated command or not. -/
theorem timeout_reported : ∀ neg : Bool,
    cmdExecOutcome neg true true = .fatal "test timed out while running command" :=
  fun neg => cmdExec_timeout neg

example : cmdExecOutcome true true true = .fatal "test timed out while running command" := by decide

/-- End to end: a foreground command that never exits by itself, under a deadline: every maximal
execution of waitOrStop ends (no hang), returns an interrupt error with the context done, and
cmdExec reports the timed-out failure. -/
theorem blocked_command_reported : ∀ (timeout : Int) (d : Nat) (onInt neg : Bool) (ls : List Lbl) (s : St),
    runLbls ⟨fgKillDelay timeout, some d, false, onInt⟩ St.init ls = some s →
    Stuck ⟨fgKillDelay timeout, some d, false, onInt⟩ s →
    ∃ e, s.result = some (.interruptErr e) ∧ s.ctxDone = true ∧
      cmdExecOutcome neg (Res.isErr false (.interruptErr e)) s.ctxDone = .fatal "test timed out while running command" := by
  intro t d oi neg ls s hr hs
  have hi := inv_reach hr
  have hf := stuck_final hi (foreground_live t d false oi) hs
  obtain ⟨⟨v, hv⟩, _, _, _⟩ := waitOrStop_no_leak _ ls s (foreground_live t d false oi) hr hs
  obtain ⟨f, hp⟩ := hi.j3 (by rw [hv]; intro hh; cases hh)
  have hres := final_result hf ⟨f, hp⟩
  cases hr' : s.result with
  | none => simp [hr'] at hres
  | some r =>
    cases r with
    | waitStatus f' => have := (result_status hi hr').2.2.2; simp at this
    | interruptErr e =>
      have hc := (result_interrupt hi hr').1
      exact ⟨e, rfl, hc, by rw [hc]; exact cmdExec_timeout neg⟩

/-! ### early finishers -/

/-- An execution in which the context has not fired is, step for step and with the same resulting
state, an execution of the same command without any deadline; and without a deadline no signal is
sent and the command's own status is returned. Scripts that finish earlier are unaffected. -/
theorem early_finish_unaffected : ∀ (c : Scn) (ls : List Lbl) (s : St),
    runLbls c St.init ls = some s → s.ctxDone = false →
    runLbls { c with deadline := none } St.init ls = some s ∧
    s.delivered = false ∧ s.killAt = none ∧ (∀ r, s.result = some r → r = .waitStatus .own) := by
  intro c ls s h hd
  have h' := run_no_deadline ls h hd
  obtain ⟨_, a, b, c'⟩ := no_deadline_result (inv_reach h') rfl
  exact ⟨h', a, b, c'⟩

example : (runLbls ⟨100, some 1000, true, true⟩ St.init [.exitOwn 40, .waitRet 41, .sendRecv 41]).map
    (fun s => (s.ctxDone, s.result)) = some (false, some (.waitStatus .own)) := by decide

/-- without a failure of its own an early finisher passes: no error, no message. -/
theorem early_finish_passes : cmdExecOutcome false (Res.isErr false (.waitStatus .own)) false = .ok := by decide

end GIV.C17
