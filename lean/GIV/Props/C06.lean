/-
  C06 — lockedfile: a write lock excludes every other holder.

  Theorems about the transition system of `GIV.Model.Lockedfile`: any number of clients (goroutines
  of any processes), each running any sequence of the public operations of package lockedfile
  (Read, Write, Transform, OpenFile/Open/Create/Edit + user I/O + Close, Mutex.Lock + unlock), under
  every interleaving and every injected fault (`Reachable`).  The kernel's flock(2) is a component
  of the model with the BSD rule (`compatible`): what is proved is that the code asks for the right
  lock, before it touches the file, holds it until Close, and releases it there and not earlier.
  The model is tied to /repo by the regenerated facts (`GIV.Gen.Lockedfile`: O_TRUNC stripping,
  lock-mode switch, truncate test, flag sets, statement order) and by trace refinement + strace on
  every check run.  Proofs: `GIV/Lemmas/LockedfileOS.lean`, `GIV/Lemmas/LockedfileInv.lean`,
  `GIV/Lemmas/LockedfileLive.lean` (progress).
-/
import GIV.Lemmas.LockedfileInv
import GIV.Lemmas.LockedfileLive

namespace GIV.C06
open GIV GIV.Lockedfile

/-! ### regenerated facts -/

/-- The source still has the statement shapes of the locking code that the model's programs hard-code
(closeFile unlocks before it closes, the error paths of openFile, filelock's LOCK_SH / LOCK_EX / LOCK_UN,
Mutex.Lock). -/
theorem facts_program_shape : programShapeLock = true := by decide

example : Gen.Lockedfile.unlockBeforeClose = true ∧ Gen.Lockedfile.truncAfterLock = true := by decide

/-! ### the lock mode -/

/-- For ALL flag values: openFile's switch asks for the exclusive lock exactly when
`flag & 3 ∈ {O_WRONLY, O_RDWR}` (constants and switch regenerated from the source). -/
theorem lockMode_spec (flag : Nat) :
    lockMode flag = .ex ↔ (flag &&& 3 = Gen.Lockedfile.O_WRONLY ∨ flag &&& 3 = Gen.Lockedfile.O_RDWR) := by
  rw [lockMode_ex_iff]
  simp [accWr, accMode, Gen.Lockedfile.O_WRONLY, Gen.Lockedfile.O_RDWR]

/-- … and for the shared lock otherwise. -/
theorem lockMode_shared_otherwise (flag : Nat) :
    lockMode flag = .sh ↔ ¬ (flag &&& 3 = Gen.Lockedfile.O_WRONLY ∨ flag &&& 3 = Gen.Lockedfile.O_RDWR) := by
  rw [← lockMode_spec]
  cases lockMode flag <;> simp

/-- The exclusive lock is asked for exactly when the kernel makes the descriptor writable
(O_TRUNC stripping does not change the access mode). -/
theorem lockMode_ex_iff_writable (flag : Nat) : lockMode flag = .ex ↔ accWr (openFlags flag) = true := by
  rw [openFlags_accWr]; exact lockMode_ex_iff flag

example : lockMode Gen.Lockedfile.flagsWrite = .ex ∧ lockMode Gen.Lockedfile.flagsEdit = .ex ∧
    lockMode Gen.Lockedfile.flagsCreate = .ex ∧ lockMode Gen.Lockedfile.flagsMutex = .ex ∧
    lockMode Gen.Lockedfile.flagsOpen = .sh ∧ lockMode (Gen.Lockedfile.O_RDONLY ||| Gen.Lockedfile.O_TRUNC) = .sh ∧
    lockMode 1027 = .sh := by decide

/-! ### critical sections -/

/-- Client `c` is inside a critical section of kind `k` on file `p`: it holds a File / Mutex that
OpenFile / Mutex.Lock returned and it has not passed to Close / unlock yet, or it is running an
operation that is past its successful flock and before its unlock. -/
def InCS (s : State) (c : Cid) (p : Path) (k : LockKind) : Prop :=
  (∃ h ∈ (s.cl c).held, h.path = p ∧ lockMode h.flag = k) ∨
  (∃ fr fd, (s.cl c).cur = some fr ∧ fr.pc.fd? = some fd ∧ fr.pc.locked = true ∧ fr.op.path = p ∧
    lockMode fr.op.flag = k)

/-- A critical section is backed by an open descriptor of that client that holds the lock in the table. -/
theorem InCS.holds {s : State} (hi : Inv1 s) {c p k} (h : InCS s c p k) :
    ∃ fd fl, Owns s.w c fd p fl ∧ holdsFd s.w fd p k := by
  rcases h with ⟨h, hm, rfl, rfl⟩ | ⟨fr, fd, hc, hfd, hl, rfl, rfl⟩
  · exact ⟨h.fd, h.flag, ((hi.clients c).handles h hm).1, ((hi.clients c).handles h hm).2⟩
  · obtain ⟨a, _, b⟩ := ((hi.clients c).frame fr hc).fd fd hfd
    rw [if_pos hl] at b
    exact ⟨fd, _, a, b⟩

/-- **A write lock excludes every other holder**: if client `c` is in an exclusive critical section on
`p` in a reachable state, every client in a critical section on `p` — of either kind — is `c`. -/
theorem write_excludes_all {files0 : Path → Option Bytes} {s : State} (hr : Reachable files0 s)
    {c c' : Cid} {p : Path} {k : LockKind} (h : InCS s c p .ex) (h' : InCS s c' p k) : c' = c := by
  have hi := reachable_Inv1 hr
  obtain ⟨fd, fl, ho, hh⟩ := h.holds hi
  obtain ⟨fd', fl', ho', hh'⟩ := h'.holds hi
  obtain ⟨rfl, _⟩ := hi.world.ex_only hh hh'
  exact ho'.owner_eq ho

/-- … and then it is an exclusive section too, through the same descriptor: there are never two
exclusive sections on one file. -/
theorem write_excludes_all_table {files0 : Path → Option Bytes} {s : State} (hr : Reachable files0 s)
    {fd fd' : Fd} {p : Path} {k : LockKind} (h : holdsFd s.w fd p .ex) (h' : holdsFd s.w fd' p k) :
    fd' = fd ∧ k = .ex :=
  (reachable_Inv1 hr).world.ex_only h h'


/-! a concrete run, for the non-vacuity examples -/

def noFiles : Path → Option Bytes := fun _ => none
def sy (c : Cid) : Label := ⟨c, .sys .none 1⟩
def run (ls : List Label) : Option State := runLabels (init noFiles) ls

/-- client 0: Write(file 0, "ab") up to and including its flock; client 1: Read up to its open. -/
def demoW : List Label := [⟨0, .call (.write 0 [97, 98])⟩, sy 0, ⟨1, .call (.read 0)⟩, sy 0, sy 1]

theorem demoW_some : (run demoW).isSome = true := by decide +kernel

/-- Build `InCS` for a running operation of a concrete state. -/
theorem InCS.ofFrame {s : State} {c p k} (h : (s.cl c).cur.isSome = true) (fd : Fd)
    (h1 : ((s.cl c).cur.get h).pc.fd? = some fd) (h2 : ((s.cl c).cur.get h).pc.locked = true)
    (h3 : ((s.cl c).cur.get h).op.path = p) (h4 : lockMode ((s.cl c).cur.get h).op.flag = k) : InCS s c p k :=
  .inr ⟨_, fd, (Option.some_get h).symm, h1, h2, h3, h4⟩

example : InCS ((run demoW).get demoW_some) 0 0 .ex :=
  InCS.ofFrame (by decide +kernel) 0 (by decide +kernel) (by decide +kernel) (by decide +kernel) (by decide +kernel)


/-- the hypotheses of `write_excludes_all` hold in that run, and the reader (client 1) is outside. -/
example : ∃ s, Reachable noFiles s ∧ InCS s 0 0 .ex ∧ ¬ InCS s 1 0 .sh :=
  ⟨(run demoW).get demoW_some, reachable_run demoW .init (Option.some_get demoW_some).symm,
    InCS.ofFrame (by decide +kernel) 0 (by decide +kernel) (by decide +kernel) (by decide +kernel) (by decide +kernel),
    fun h => by
      have := write_excludes_all (reachable_run demoW .init (Option.some_get demoW_some).symm)
        (InCS.ofFrame (s := (run demoW).get demoW_some) (c := 0) (p := 0) (by decide +kernel) 0 (by decide +kernel)
          (by decide +kernel) (by decide +kernel) (by decide +kernel)) h
      cases this⟩

/-! ### readers share -/

/-- **Read locks exclude only writers**: a client about to take its shared lock is never blocked while
no exclusive lock is held on the file — whatever number of readers hold it. -/
theorem readers_share {files0 : Path → Option Bytes} {s : State} (hr : Reachable files0 s) {c : Cid} {fr : Frame}
    {fd : Fd} (hc : (s.cl c).cur = some fr) (hpc : fr.pc = .lock fd) (hm : lockMode fr.op.flag = .sh)
    (hex : (s.w.locks fr.op.path).ex = none) : (step s ⟨c, .sys .none 0⟩).isSome = true := by
  have hi := reachable_Inv1 hr
  obtain ⟨ho, _, _⟩ := ((hi.clients c).frame fr hc).fd fd (by simp [hpc, Pc.fd?])
  obtain ⟨o, hfd, hp, _⟩ := ho.open
  simp only [step, stepRes, hc, sysOf, hpc, hm, osStep, hfd, compatible, hp, hex, faultErr]
  cases o.rd || o.wr <;> simp

/-- two readers inside their critical sections on the same file at the same time. -/
def demoR : List Label :=
  [⟨0, .call (.read 0)⟩, ⟨1, .call (.openFile 0 Gen.Lockedfile.O_RDONLY)⟩, ⟨2, .call (.write 0 [1])⟩,
   sy 2, sy 2, sy 2, sy 2, sy 2, sy 2, ⟨2, .ret⟩,
   sy 0, sy 1, sy 0, sy 1, ⟨1, .ret⟩]

theorem demoR_some : (run demoR).isSome = true := by decide +kernel

example : ∃ s, Reachable noFiles s ∧ InCS s 0 0 .sh ∧ InCS s 1 0 .sh :=
  ⟨(run demoR).get demoR_some, reachable_run demoR .init (Option.some_get demoR_some).symm,
    InCS.ofFrame (by decide +kernel) 1 (by decide +kernel) (by decide +kernel) (by decide +kernel) (by decide +kernel),
    .inl ⟨⟨2, 0, Gen.Lockedfile.O_RDONLY, none⟩, by decide +kernel, rfl, by decide⟩⟩

/-! ### held from the return of OpenFile / Lock until Close / unlock, released there -/

/-- The lock is in the table at the moment OpenFile / Mutex.Lock is about to return the file. -/
theorem locked_at_return {files0 : Path → Option Bytes} {s : State} (hr : Reachable files0 s) {c : Cid} {fr : Frame}
    {fd : Fd} (hc : (s.cl c).cur = some fr) (hpc : fr.pc = .done (.handle fd)) :
    holdsFd s.w fd fr.op.path (lockMode fr.op.flag) := by
  have := (((reachable_Inv1 hr).clients c).frame fr hc).fd fd (by simp [hpc, Pc.fd?])
  simpa [hpc, Pc.locked] using this.2.2

/-- **The lock is held at every step between the return of OpenFile / Mutex.Lock and the call of
Close / unlock**: `held` is exactly the set of files handed out by a return (`Act.ret`) and not yet
passed to Close / unlock (`Act.call (.closeH h)` / `(.unlockM h)`); in every reachable state each of
them holds its lock, of the mode `lockMode` of the flag it was opened with, on its own file. -/
theorem held_until_close {files0 : Path → Option Bytes} {s : State} (hr : Reachable files0 s) {c : Cid} {h : Handle}
    (hm : h ∈ (s.cl c).held) : holdsFd s.w h.fd h.path (lockMode h.flag) :=
  (((reachable_Inv1 hr).clients c).handles h hm).2

/-- Close / unlock still hold the lock when they reach closeFile's Unlock … -/
theorem held_until_unlock {files0 : Path → Option Bytes} {s : State} (hr : Reachable files0 s) {c : Cid} {fr : Frame}
    {fd : Fd} {ret : Ret} (hc : (s.cl c).cur = some fr) (hpc : fr.pc = .unlock fd ret) :
    holdsFd s.w fd fr.op.path (lockMode fr.op.flag) := by
  have := (((reachable_Inv1 hr).clients c).frame fr hc).fd fd (by simp [hpc, Pc.fd?])
  simpa [hpc, Pc.locked] using this.2.2

/-- … **and that call releases it**: the (un-faulted) Unlock step of closeFile leaves the descriptor
without any lock. -/
theorem released_by_close {files0 : Path → Option Bytes} {s s' : State} (hr : Reachable files0 s) {c : Cid}
    {fr : Frame} {fd : Fd} {ret : Ret} {n : Nat} (hc : (s.cl c).cur = some fr) (hpc : fr.pc = .unlock fd ret)
    (hs : step s ⟨c, .sys .none n⟩ = some s') : ∀ p k, ¬ holdsFd s'.w fd p k := by
  have hi := reachable_Inv1 hr
  have hi' := step_Inv1 hi hs
  obtain ⟨ho, _, _⟩ := ((hi.clients c).frame fr hc).fd fd (by simp [hpc, Pc.fd?])
  obtain ⟨o, hfd, _⟩ := ho.open
  obtain ⟨fr0, sc, tag, w', r, hc0, hsys, hos, rfl⟩ := step_sys hs
  rw [hc] at hc0; cases hc0
  simp only [sysOf, hpc, Option.some.injEq, Prod.mk.injEq] at hsys
  obtain ⟨rfl, _⟩ := hsys
  simp only [osStep, hfd, faultErr, Option.some.injEq, Prod.mk.injEq] at hos
  obtain ⟨rfl, rfl⟩ := hos
  have hcur : ((State.mk (dropLock s.w fd o.path) (upd s.cl c ⟨(s.cl c).held,
      some (nextFrame s.w (dropLock s.w fd o.path) fr (Sys.funlock fd) tag Fault.none n Res.ok)⟩)).cl c).cur =
      some (nextFrame s.w (dropLock s.w fd o.path) fr (Sys.funlock fd) tag Fault.none n Res.ok) := by simp
  have := ((hi'.clients c).frame _ hcur).fd fd (by simp [nextFrame, hpc, advancePc, finPc_eq, Pc.fd?])
  simpa [nextFrame, hpc, advancePc, finPc_eq, Pc.locked] using this.2.2

/-- After closeFile's Unlock has succeeded (control point `close fd ret false`) nothing is held. -/
theorem released_after_unlock {files0 : Path → Option Bytes} {s : State} (hr : Reachable files0 s) {c : Cid}
    {fr : Frame} {fd : Fd} {ret : Ret} (hc : (s.cl c).cur = some fr) (hpc : fr.pc = .close fd ret false) :
    ∀ p k, ¬ holdsFd s.w fd p k := by
  have := (((reachable_Inv1 hr).clients c).frame fr hc).fd fd (by simp [hpc, Pc.fd?])
  simpa [hpc, Pc.locked] using this.2.2

/-! #### … also when the open file description is shared (dup(2), inherited by a child process)

flock(2) locks belong to the open file description, not to the descriptor: close(2) of one of several
descriptors of a description releases nothing.  In the model this is the environment choice `Fault.shared`
at a close step. -/

/-- closeFile unlocks before it closes (regenerated from the source). -/
theorem facts_close_unlocks_first :
    Gen.Lockedfile.unlockBeforeClose = true ∧ Gen.Lockedfile.closeErrCombine = true := by decide

/-- Why: on a shared description close(2) alone keeps every lock — whatever `fd` holds before, it holds after. -/
theorem shared_close_keeps_lock {w w' : World} {c : Cid} {fd : Fd} {r : Res} {p : Path} {k : LockKind}
    (h : osStep w c (.close fd) .shared = some (w', r)) (hk : holdsFd w fd p k) : holdsFd w' fd p k := by
  rcases osStep_close_spec h with rfl | ⟨o, ho, _, rfl⟩
  · exact hk
  · simp [osStep, ho, faultErr] at h
    rw [← h.1]; exact hk

/-- **Released by Close even when the description is shared**: once closeFile's Unlock has succeeded, the
Close step — failing, succeeding, or succeeding on a shared description that lives on — leaves the
descriptor without any lock. -/
theorem close_keeps_released {files0 : Path → Option Bytes} {s s' : State} (hr : Reachable files0 s) {c : Cid}
    {fr : Frame} {fd : Fd} {ret : Ret} {f : Fault} {n : Nat} (hc : (s.cl c).cur = some fr)
    (hpc : fr.pc = .close fd ret false) (hs : step s ⟨c, .sys f n⟩ = some s') : ∀ p k, ¬ holdsFd s'.w fd p k := by
  have hrel := released_after_unlock hr hc hpc
  obtain ⟨fr0, sc, tag, w', r, hc0, hsys, hos, rfl⟩ := step_sys hs
  rw [hc] at hc0; cases hc0
  simp only [sysOf, hpc, Option.some.injEq, Prod.mk.injEq] at hsys
  obtain ⟨rfl, _⟩ := hsys
  intro p k hk
  rcases osStep_close_spec hos with rfl | ⟨o, _, _, rfl⟩
  · exact hrel p k hk
  · exact hrel p k ((holdsFd_closeFd ..).1 hk).1

/-- client 1 got a File from OpenFile(O_RDONLY) in `demoR`; client 2's Write ran to completion. -/
example : (⟨2, 0, Gen.Lockedfile.O_RDONLY, none⟩ : Handle) ∈ (((run demoR).get demoR_some).cl 1).held := by
  decide +kernel

/-- the same run continued: client 1 calls Close and performs closeFile's Unlock. -/
def demoC : List Label := demoR ++ [⟨1, .call (.closeH ⟨2, 0, Gen.Lockedfile.O_RDONLY, none⟩)⟩]

theorem demoC_some : (run demoC).isSome = true := by decide +kernel

example : ∃ s s' fr, Reachable noFiles s ∧ (s.cl 1).cur = some fr ∧ fr.pc = .unlock 2 .ok ∧
    step s ⟨1, .sys .none 0⟩ = some s' :=
  ⟨(run demoC).get demoC_some, (step ((run demoC).get demoC_some) ⟨1, .sys .none 0⟩).get (by decide +kernel),
    (((run demoC).get demoC_some).cl 1).cur.get (by decide +kernel),
    reachable_run demoC .init (Option.some_get demoC_some).symm, (Option.some_get _).symm, by rfl,
    (Option.some_get _).symm⟩

/-- Close on a shared description: Unlock, then a close(2) that leaves the description alive — Close returns
nil, nothing is held, and a writer gets its exclusive lock at once. -/
def demoShared : List Label :=
  demoC ++ [sy 1, ⟨1, .sys .shared 0⟩, ⟨1, .ret⟩, sy 0, sy 0, sy 0, sy 0, ⟨0, .ret⟩,
    ⟨3, .call (.write 0 [2])⟩, sy 3, sy 3]

example : (run demoShared).isSome = true ∧
    ((run demoShared).map fun s => ((s.w.fds 2).isSome, (s.w.locks 0).ex, (s.w.locks 0).sh)) = some (true, some 3, []) := by
  decide +kernel

/-- without the Unlock (here: it fails) a close(2) on a shared description leaks the lock: Close has returned,
the reader's shared lock is still in the table, and the writer blocks. -/
def demoLeak : List Label :=
  demoC ++ [⟨1, .sys .fail 0⟩, ⟨1, .sys .shared 0⟩, ⟨1, .ret⟩, sy 0, sy 0, sy 0, sy 0, ⟨0, .ret⟩,
    ⟨3, .call (.write 0 [2])⟩, sy 3]

example : ((run demoLeak).map fun s => ((s.cl 1).cur.isNone, (s.w.locks 0).sh, (step s (sy 3)).isNone)) =
    some (true, [2], true) := by decide +kernel

/-! ### Mutex -/

/-- **Two Mutex critical sections on one path never overlap**: while the result of a Mutex.Lock is
unreleased, any other unreleased File or Mutex on the same lock file — in particular the result of
another Mutex.Lock — belongs to the same client and is the same descriptor. -/
theorem mutex_excl {files0 : Path → Option Bytes} {s : State} (hr : Reachable files0 s) {c c' : Cid} {h h' : Handle}
    (hm : h ∈ (s.cl c).held) (hm' : h' ∈ (s.cl c').held) (hmu : h.mu.isSome = true)
    (hp : h.path = h'.path) : c' = c ∧ h'.fd = h.fd := by
  have hi := reachable_Inv1 hr
  have hf := (hi.clients c).muFlag h hm hmu
  have h1 := (hi.clients c).handles h hm
  have h2 := (hi.clients c').handles h' hm'
  have hex : lockMode h.flag = .ex := by rw [hf]; decide
  rw [hex] at h1
  rw [← hp] at h2
  obtain ⟨e, _⟩ := hi.world.ex_only h1.2 h2.2
  exact ⟨by rw [e] at h2; exact h2.1.owner_eq h1.1, e⟩

/-- Mutex.Lock opens with `O_RDWR|O_CREATE` (regenerated), hence exclusively. -/
theorem mutex_lock_exclusive : lockMode (Op.mutexLock 0 0).flag = .ex := by decide

/-- one client inside a Mutex critical section, another one blocked at its flock. -/
def demoM : List Label :=
  [⟨0, .call (.mutexLock 1 0)⟩, ⟨1, .call (.mutexLock 1 5)⟩, sy 0, sy 1, sy 0, sy 0, ⟨0, .ret⟩]

theorem demoM_some : (run demoM).isSome = true := by decide +kernel

example : (⟨0, 1, Gen.Lockedfile.flagsMutex, some 0⟩ : Handle) ∈ (((run demoM).get demoM_some).cl 0).held ∧
    (step ((run demoM).get demoM_some) (sy 1)).isNone = true := by
  decide +kernel

/-! ### progress

`Enabled s c`: some step of client `c` is defined in `s`.  `Busy s c`: `c` has an operation in progress.  A
blocked system call is a step that is not enabled (for every fault and every chunk size).  The model has a
client for every natural number and an idle client can always call a new operation, so "some client is
enabled" alone says nothing: progress is stated for the clients that have an operation in progress (or hold
a File they can Close). -/

/-- client 0 is inside Transform(file 0) — past its flock, about to read —, client 1 has called Read(file 0)
and is at its flock (LOCK_SH) -/
def demoT : List Label :=
  [⟨0, .call (.transform 0 fun b => some (b ++ [7]))⟩, sy 0, sy 0, ⟨1, .call (.read 0)⟩, sy 1]

theorem demoT_some : (run demoT).isSome = true := by decide +kernel

theorem demoT_reach : Reachable noFiles ((run demoT).get demoT_some) :=
  reachable_run demoT .init (Option.some_get demoT_some).symm

/-- in `demoT` client 1 waits at LOCK_SH for description 0 … -/
theorem demoT_wait : FlockWait ((run demoT).get demoT_some) 1 0 :=
  FlockWait.ofFrame (fd := 1) (k' := .ex) (by decide +kernel) (by decide +kernel) (by decide +kernel) (by decide)
    (by show (((run demoT).get demoT_some).w.locks _).ex = some 0; decide +kernel) (.inr rfl)

/-- … which is the descriptor of client 0's Transform, holding the write lock. -/
theorem demoT_holder : HeldByOp ((run demoT).get demoT_some) 0 0 :=
  HeldByOp.ofFrame (by decide +kernel) (by decide +kernel) (by decide +kernel)

/-- **What blocks, and on whom** (the strongest true form of `blocked_only_by_holder_statement`).  In every
reachable state a client with an operation in progress that has NO enabled step is
* at the flock(2) call of openFile (LOCK_EX or LOCK_SH), and a conflicting lock on that file is held by ANOTHER
  open file description `fd'` (`FlockWait`: `fd'` is not the client's own descriptor, it holds a lock on the
  same file, and the request or that lock is exclusive), which is an open description on that file; or
* at the `mu.mu.Lock()` of Mutex.Lock — after it got the file lock — and the in-process mutex is owned by
  client `c'` (`MuWait`).
The second case exists because the model lets two Mutex values share their `sync.Mutex` but not their path
(`Op.mutexLock p m` with independent `p`, `m`); see `blocked_only_by_holder_statement_false`. -/
theorem blocked_only_by_holder_partial {files0 : Path → Option Bytes} {s : State} (hr : Reachable files0 s)
    {c : Cid} {fr : Frame} (hc : (s.cl c).cur = some fr) (hb : ¬ Enabled s c) :
    (∃ fd', FlockWait s c fd' ∧ ∃ o, s.w.fds fd' = some o ∧ o.path = fr.op.path) ∨ (∃ c', MuWait s c c') := by
  rcases busy_cases (reachable_Inv1 hr) (reachable_MuInv hr) hc with ⟨r, s', _, hs⟩ | ⟨_, hs⟩ | ⟨fd', hw⟩ | hw
  · exact absurd ⟨_, _, hs⟩ hb
  · obtain ⟨s', hs⟩ := hs .none; exact absurd ⟨_, _, hs⟩ hb
  · left
    refine ⟨fd', hw, ?_⟩
    obtain ⟨fr', fd, k', hc', _, _, _, hh, _⟩ := hw
    rw [hc] at hc'; cases hc'
    exact (reachable_Inv1 hr).world.holderOpen _ _ _ hh
  · exact .inr hw

example : ∃ s c fr, Reachable noFiles s ∧ (s.cl c).cur = some fr ∧ ¬ Enabled s c ∧ FlockWait s c 0 :=
  ⟨_, 1, _, demoT_reach, (Option.some_get (by decide +kernel)).symm,
    demoT_wait.blocked (reachable_Inv1 demoT_reach), demoT_wait⟩

/-- … and everything else is always enabled: a client with an operation in progress that is in neither of
the two situations can return (if its operation is finished) or perform its next system call — open, read,
write, pwrite, ftruncate, fstat, close, LOCK_UN, flock on a compatible table, `mu.mu.Unlock()` — with EVERY
injected fault; conversely in the two situations no step of it is enabled, whatever the fault. -/
theorem enabled_unless_waiting {files0 : Path → Option Bytes} {s : State} (hr : Reachable files0 s)
    {c : Cid} {fr : Frame} (hc : (s.cl c).cur = some fr) :
    ((∀ fd', ¬ FlockWait s c fd') → (∀ c', ¬ MuWait s c c') →
      (∃ r s', fr.pc = .done r ∧ step s ⟨c, .ret⟩ = some s') ∨ ∀ f, ∃ s', step s ⟨c, .sys f 1⟩ = some s') ∧
    ((∃ fd', FlockWait s c fd') ∨ (∃ c', MuWait s c c') → ∀ a, step s ⟨c, a⟩ = none) := by
  constructor
  · intro h1 h2
    rcases busy_cases (reachable_Inv1 hr) (reachable_MuInv hr) hc with h | ⟨_, h⟩ | ⟨fd', hw⟩ | ⟨c', hw⟩
    · exact .inl h
    · exact .inr h
    · exact absurd hw (h1 fd')
    · exact absurd hw (h2 c')
  · intro h a
    have hb : ¬ Enabled s c := by
      rcases h with ⟨fd', hw⟩ | ⟨c', hw⟩
      · exact hw.blocked (reachable_Inv1 hr)
      · exact hw.blocked
    cases hs : step s ⟨c, a⟩ with
    | none => rfl
    | some s' => exact absurd ⟨a, s', hs⟩ hb

example : ∀ f, (step ((run demoT).get demoT_some) ⟨1, .sys f 1⟩) = none :=
  fun f => ((enabled_unless_waiting demoT_reach (c := 1) (Option.some_get (by decide +kernel)).symm).2
    (.inl ⟨0, demoT_wait⟩)) _

/-- the statement as first asked for: a blocked client is always blocked at a flock -/
def blocked_only_by_holder_statement : Prop :=
  ∀ (files0 : Path → Option Bytes) (s : State), Reachable files0 s → ∀ c fr, (s.cl c).cur = some fr →
    ¬ Enabled s c → ∃ fd', FlockWait s c fd'

/-- client 0 holds the Mutex (lock file 1, sync.Mutex 0); client 1 calls Mutex.Lock for lock file 2 with the
SAME sync.Mutex 0: it gets the flock on file 2 and then waits at `mu.mu.Lock()` -/
def demoMu : List Label :=
  [⟨0, .call (.mutexLock 1 0)⟩, sy 0, sy 0, sy 0, ⟨0, .ret⟩, ⟨1, .call (.mutexLock 2 0)⟩, sy 1, sy 1]

theorem demoMu_some : (run demoMu).isSome = true := by decide +kernel

/-- … is FALSE for the model: in `demoMu` client 1 is blocked at `mu.mu.Lock()`, not at a flock.  (In the
package the sync.Mutex is a field of the Mutex value next to its Path, so this needs two Mutex values that
share one sync.Mutex; the model does not tie `m` to `p`.) -/
theorem blocked_only_by_holder_statement_false : ¬ blocked_only_by_holder_statement := by
  intro h
  have hr : Reachable noFiles ((run demoMu).get demoMu_some) :=
    reachable_run demoMu .init (Option.some_get demoMu_some).symm
  have hmus : ((run demoMu).get demoMu_some).w.mus 0 = true := by decide +kernel
  obtain ⟨c', hc'⟩ := (reachable_MuInv hr).owner hmus
  have hw : MuWait ((run demoMu).get demoMu_some) 1 c' :=
    MuWait.ofFrame (fd := 1) (m := 0) (by decide +kernel) (by decide +kernel) hmus hc'
  obtain ⟨fr, hcur⟩ : ∃ fr, (((run demoMu).get demoMu_some).cl 1).cur = some fr := by
    obtain ⟨fr, _, _, hcur, _⟩ := hw; exact ⟨fr, hcur⟩
  obtain ⟨fd', hf⟩ := h _ _ hr 1 fr hcur hw.blocked
  exact hw.not_flockWait hf

/-- **The holder can release.**  Let description `fd` hold a lock in a reachable state.
(1) If it is the descriptor of the running operation of client `c` (Read, Write, Transform, Close, the unlock
function, or OpenFile / Mutex.Lock after their flock), then `c` is NOT waiting at a flock; it has an enabled
step unless it is at the `mu.mu.Lock()` of Mutex.Lock and the in-process mutex is taken; and there is a run of at
most `relLeft s.w fr` fault-free system calls of `c` alone — `relLeft` = remaining program of the operation,
`pcLeft`: e.g. 2 at closeFile's Unlock, `bytes left to read + 3` in Read, `len(content) + 3` in Write,
`bytes left to read + 8` in Transform — after which the lock is released, or OpenFile / Mutex.Lock is about to
hand the locked file to its caller, or Mutex.Lock waits for the in-process mutex.
(2) If it is a File / Mutex handed out to `c` and `c` is idle, `c` can call Close / unlock and that call releases
the lock with its 2nd (Mutex: 3rd) step.
Exceptions, stated precisely: a handed-out File whose user never calls Close is never released (`held_until_close`);
a handed-out File whose user is busy with another operation is released only after that operation — which may
itself wait for this very File (`self_deadlock` below); and a lock leaked by a failed Unlock followed by a
failed / shared close (case (D) of `holder_step_cases`) belongs to nobody. -/
theorem holder_can_release {files0 : Path → Option Bytes} {s : State} (hr : Reachable files0 s) {c : Cid} {fd : Fd} :
    (∀ fr, (s.cl c).cur = some fr → fr.pc.fd? = some fd → fr.pc.locked = true →
      (∀ fd', ¬ FlockWait s c fd') ∧ (Enabled s c ∨ ∃ c', MuWait s c c') ∧
      ∃ ls s', (∀ l ∈ ls, l = ⟨c, .sys .none 1⟩) ∧ ls.length ≤ relLeft s.w fr ∧ runLabels s ls = some s' ∧
        ((∀ p k, ¬ holdsFd s'.w fd p k) ∨
         (∃ fr', (s'.cl c).cur = some fr' ∧ fr'.pc = .done (.handle fd) ∧ fr'.op = fr.op) ∨
         (∃ c', MuWait s' c c'))) ∧
    (∀ h ∈ (s.cl c).held, h.fd = fd → (s.cl c).cur = none →
      ∃ ls s', ls.length ≤ 3 ∧ (∀ l ∈ ls, l.c = c) ∧ ls.head? = some ⟨c, .call (closeOp h)⟩ ∧
        runLabels s ls = some s' ∧ ∀ p k, ¬ holdsFd s'.w fd p k) := by
  refine ⟨fun fr hc hfd hl => ⟨fun fd' => HeldByOp.not_flockWait ⟨fr, hc, hfd, hl⟩, ?_,
    holder_releases _ hr hc hfd hl (Nat.le_refl _)⟩, fun h hm hfd hc => ?_⟩
  · rcases busy_cases (reachable_Inv1 hr) (reachable_MuInv hr) hc with ⟨r, s', _, hs⟩ | ⟨_, hs⟩ | ⟨fd', hw⟩ | hw
    · exact .inl ⟨_, _, hs⟩
    · obtain ⟨s', hs⟩ := hs .none; exact .inl ⟨_, _, hs⟩
    · exact absurd hw (HeldByOp.not_flockWait ⟨fr, hc, hfd, hl⟩)
    · exact .inr hw
  · subst hfd; exact handle_releases hr hc hm

/-- One step of the holder, with ANY fault: (A) it releases the lock, (B) the holder keeps it and its bound
`relLeft` decreases strictly, (C) closeFile's Unlock got an injected EINTR and is retried, or (D) the close(2)
after a failed Unlock failed too or hit a shared description: the lock is leaked. -/
theorem holder_step_cases {files0 : Path → Option Bytes} {s s' : State} (hr : Reachable files0 s) {c : Cid}
    {fr : Frame} {fd : Fd} {f : Fault} {n : Nat} (hc : (s.cl c).cur = some fr) (hfd : fr.pc.fd? = some fd)
    (hl : fr.pc.locked = true) (hs : step s ⟨c, .sys f n⟩ = some s') :
    (∀ p k, ¬ holdsFd s'.w fd p k) ∨
    (∃ fr', (s'.cl c).cur = some fr' ∧ fr'.op = fr.op ∧ fr'.pc.fd? = some fd ∧ fr'.pc.locked = true ∧
      relLeft s'.w fr' < relLeft s.w fr) ∨
    (f = .eintr ∧ ∃ ret fr', fr.pc = .unlock fd ret ∧ (s'.cl c).cur = some fr' ∧ fr'.pc = .unlock fd ret ∧ s'.w = s.w) ∨
    ((f = .fail ∨ f = .eintr ∨ f = .shared) ∧ ∃ ret, fr.pc = .close fd ret true) :=
  holder_step (reachable_Inv1 hr) (reachable_MuInv hr) hc hfd hl hs

/-- in `demoT` the holder is client 0's Transform, at its first read of the (empty) file: the bound is 8; four
fault-free steps of client 0 (read → EOF, WriteAt of the tail, WriteAt of the body, Unlock) release the lock, and client 1's LOCK_SH is enabled. -/
example : HeldByOp ((run demoT).get demoT_some) 0 0 ∧
    ((((run demoT).get demoT_some).cl 0).cur.map fun fr => relLeft ((run demoT).get demoT_some).w fr) = some 8 ∧
    ((run (demoT ++ [sy 0, sy 0, sy 0, sy 0])).map fun s => ((s.w.locks 0).ex, (step s (sy 1)).isSome)) = some (none, true) :=
  ⟨demoT_holder, by decide +kernel, by decide +kernel⟩

/-- client 0 got a File from Edit(file 0) and, still holding it, calls Read(file 0): it opens a second
description and waits at LOCK_SH for its own first one -/
def demoSelf : List Label :=
  [⟨0, .call (.edit 0)⟩, sy 0, sy 0, ⟨0, .ret⟩, ⟨0, .call (.read 0)⟩, sy 0]

theorem demoSelf_some : (run demoSelf).isSome = true := by decide +kernel

/-- **The self-deadlock exception**: a reachable state in which the only client with an operation in progress
is client 0, it has no enabled step, and the description that blocks it is a File that client 0 itself holds
and can only Close after the blocked call returns.  (As in the real package: flock locks belong to the open
file description, so a process conflicts with itself.) -/
theorem self_deadlock : ∃ s, Reachable noFiles s ∧ FlockWait s 0 0 ∧ HeldByHandle s 0 0 ∧ ¬ Enabled s 0 ∧
    ∀ c, c ≠ 0 → ¬ Busy s c := by
  have hr : Reachable noFiles ((run demoSelf).get demoSelf_some) :=
    reachable_run demoSelf .init (Option.some_get demoSelf_some).symm
  have hw : FlockWait ((run demoSelf).get demoSelf_some) 0 0 :=
    FlockWait.ofFrame (fd := 1) (k' := .ex) (by decide +kernel) (by decide +kernel) (by decide +kernel) (by decide)
      (by show (((run demoSelf).get demoSelf_some).w.locks _).ex = some 0; decide +kernel) (.inr rfl)
  refine ⟨_, hr, hw, ⟨⟨0, 0, Gen.Lockedfile.flagsEdit, none⟩, by decide +kernel, rfl⟩, hw.blocked (reachable_Inv1 hr), ?_⟩
  intro c hc ⟨fr, hfr⟩
  have := run_other_client c demoSelf (s := init noFiles) (Option.some_get demoSelf_some).symm
    (by intro l hl; simp only [demoSelf, sy, List.mem_cons, List.not_mem_nil, or_false] at hl
        rcases hl with rfl | rfl | rfl | rfl | rfl | rfl <;> exact fun e => hc e.symm)
  rw [this] at hfr; cases hfr

/-- **No deadlock when waiting is acyclic.**  Hypotheses, on the state: no lock has been leaked (`NoLeak`: every
lock in the table belongs to a running operation or to a handed-out File), and no blocked client holds a
File / Mutex — in particular when every client runs one package operation at a time and does not call into the
package while it holds a File.  Then in every reachable state with an operation in progress SOME client can
make progress: a client with an operation in progress has an enabled step, or an idle client can call Close /
unlock on a File / Mutex it holds.  (Without the second hypothesis: `self_deadlock`.) -/
theorem no_deadlock_acyclic {files0 : Path → Option Bytes} {s : State} (hr : Reachable files0 s) (hleak : NoLeak s)
    (hacyc : ∀ c, Busy s c → ¬ Enabled s c → (s.cl c).held = []) (hbusy : ∃ c, Busy s c) :
    ∃ c, (Busy s c ∧ Enabled s c) ∨
      ((s.cl c).cur = none ∧ ∃ h ∈ (s.cl c).held, ∃ s', step s ⟨c, .call (closeOp h)⟩ = some s') :=
  deadlock_free_acyclic (reachable_Inv1 hr) (reachable_MuInv hr) hleak hacyc hbusy

/-- … and a state in which nobody can make progress is final: every operation has returned, every File has
been closed, the lock table is empty. -/
theorem maximal_is_final {files0 : Path → Option Bytes} {s : State} (hr : Reachable files0 s) (hleak : NoLeak s)
    (hacyc : ∀ c, Busy s c → ¬ Enabled s c → (s.cl c).held = []) (hq : ∀ c, ¬ CanProgress s c) :
    (∀ c, (s.cl c).cur = none ∧ (s.cl c).held = []) ∧ ∀ fd p k, ¬ holdsFd s.w fd p k :=
  quiescent_final (reachable_Inv1 hr) (reachable_MuInv hr) hleak hacyc hq

/-- the hypotheses hold (and an operation is in progress) after client 0 has called Read -/
example : ∃ s, Reachable noFiles s ∧ NoLeak s ∧ (∀ c, Busy s c → ¬ Enabled s c → (s.cl c).held = []) ∧ Busy s 0 := by
  have hs := step_call_mk (s := init noFiles) (c := 0) (op := .read 0) rfl rfl
  refine ⟨_, Reachable.step _ .init hs, ?_, ?_, ⟨_, by rw [setClient_cl_same]⟩⟩
  · intro fd p k h; cases k <;> simp [holdsFd, setClient, init, initWorld] at h
  · intro c _ _
    by_cases hc : c = 0
    · subst hc; rw [setClient_cl_same]; rfl
    · rw [setClient_cl_other _ _ _ _ hc]; rfl

/-- the initial state is final in the sense of `maximal_is_final` -/
example : ∀ c, ¬ CanProgress (init noFiles) c := by
  rintro c (⟨⟨fr, h⟩, _⟩ | ⟨_, h, hm, _⟩)
  · simp [init] at h
  · simp [init] at hm

/-- **The EINTR retry loop terminates when the EINTR faults do.**  The model has no fault budget: the fault of
every system call is an environment choice (`Act.sys f n`), recorded in the ghost list `Frame.flt`.  Along ANY
execution: if client `c` is at the flock of openFile and at most `k` EINTR faults are injected into its steps,
then after at most `k + 1` steps of `c` — i.e. at most `k + 1` flock calls; a blocked flock is not a step — the
loop has been left: the lock was granted or openFile failed with the other error. -/
theorem eintr_retry_terminates {c : Cid} {fd : Fd} {ls : List Label} {s s' : State} {fr : Frame} {k : Nat}
    (hrun : runLabels s ls = some s') (hc : (s.cl c).cur = some fr) (hpc : fr.pc = .lock fd)
    (hno : ∀ l ∈ ls, l.c = c → ∀ op, l.a ≠ .call op)
    (hk : ls.countP (fun l => l.c == c && l.a.isEintr) ≤ k) (hsteps : k + 1 ≤ ls.countP (fun l => l.c == c)) :
    ∀ fr', (s'.cl c).cur = some fr' → fr'.pc.pastLock = true :=
  eintr_budget hrun hc hpc hno hk hsteps

/-- … more precisely: whenever `c` is found at a flock again, it is the same flock, every step `c` took was a
flock call answered by an injected EINTR, and the ghost fault list has grown by exactly that many entries. -/
theorem eintr_retry_counts {c : Cid} {fd : Fd} {ls : List Label} {s s' : State} {fr fr' : Frame}
    (hrun : runLabels s ls = some s') (hc : (s.cl c).cur = some fr) (hpc : fr.pc = .lock fd)
    (hno : ∀ l ∈ ls, l.c = c → ∀ op, l.a ≠ .call op) (hc' : (s'.cl c).cur = some fr')
    (hp' : fr'.pc.pastLock = false) :
    (∀ l ∈ ls, l.c = c → ∃ n, l.a = .sys .eintr n) ∧ fr'.pc = .lock fd ∧ fr'.op = fr.op ∧
      fr'.flt = List.replicate (ls.countP (fun l => l.c == c)) (Tag.lock, Fault.eintr) ++ fr.flt :=
  eintr_loop_run c fd ls hrun hc hpc hno hc' hp'

/-- client 0's Edit: two EINTRs at its flock, then the third call succeeds (k = 2, three flock calls) -/
example : ((run [⟨0, .call (.edit 0)⟩, sy 0]).map fun s => (s.cl 0).cur.map (·.pc)) = some (some (.lock 0)) ∧
    ((run ([⟨0, .call (.edit 0)⟩, sy 0] ++ [⟨0, .sys .eintr 0⟩, ⟨0, .sys .eintr 0⟩])).map
      fun s => (s.cl 0).cur.map fun fr => (fr.pc, fr.flt)) =
      some (some (.lock 0, [(.lock, .eintr), (.lock, .eintr)])) ∧
    ((run ([⟨0, .call (.edit 0)⟩, sy 0] ++ [⟨0, .sys .eintr 0⟩, ⟨0, .sys .eintr 0⟩, sy 0])).map
      fun s => (s.cl 0).cur.map fun fr => fr.pc.pastLock) = some (some true) := by
  refine ⟨by decide +kernel, by decide +kernel, by decide +kernel⟩

/-- client 0 has called Edit(file 0) and opened the file: it is at its flock, nothing is locked -/
def demoE : List Label := [⟨0, .call (.edit 0)⟩, sy 0]

theorem demoE_some : (run demoE).isSome = true := by decide +kernel

/-- the unrestricted termination statement: from a reachable state, no execution in which no new operation is
called (only the operations already in progress run) is infinite -/
def terminates_statement : Prop :=
  ∀ (files0 : Path → Option Bytes) (s : State), Reachable files0 s →
    ¬ ∃ (σ : Nat → State) (τ : Nat → Label), σ 0 = s ∧ (∀ i op, (τ i).a ≠ .call op) ∧
      ∀ i, step (σ i) (τ i) = some (σ (i + 1))

/-- … is FALSE for the model: it has no fault budget, so the environment can answer the flock of one Edit with
EINTR for ever (`eintr_forever`).  Hence there is no measure that decreases with every non-blocked step; what
holds is `eintr_retry_terminates` (the loop ends when the EINTRs do), `holder_step_cases` (B) (the holder's bound
decreases with each of its steps that is not such a retry) and `maximal_is_final`. -/
theorem terminates_statement_false : ¬ terminates_statement := by
  intro h
  have hr : Reachable noFiles ((run demoE).get demoE_some) :=
    reachable_run _ .init (Option.some_get demoE_some).symm
  have h0 : AtFreeFlock 0 0 ((run demoE).get demoE_some) :=
    AtFreeFlock.ofFrame (by decide +kernel) (by decide +kernel) (by decide +kernel) (by decide +kernel)
      (by decide +kernel)
  obtain ⟨σ, hσ0, hσ⟩ := eintr_forever h0
  exact h _ _ hr ⟨σ, fun _ => ⟨0, .sys .eintr 0⟩, hσ0, fun _ _ e => Act.noConfusion e, hσ⟩

end GIV.C06
