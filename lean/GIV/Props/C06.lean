/-
  C06 — lockedfile: a write lock excludes every other holder.

  Theorems about the transition system of `GIV.Model.Lockedfile`: any number of clients (goroutines
  of any processes), each running any sequence of the public operations of package lockedfile
  (Read, Write, Transform, OpenFile/Open/Create/Edit + user I/O + Close, Mutex.Lock + unlock), under
  every interleaving and every injected fault (`Reachable`).  The kernel's flock(2) is a component
  of the model with the BSD rule (`compatible`): what is proved is that the code asks for the right
  lock, before it touches the file, holds it until Close, and releases it there and not earlier.
  The model is tied to /repo by the regenerated facts (`GIV.Gen.Lockedfile`: O_TRUNC stripping,
  lock-mode switch, truncate test, flag sets, statement order) and by trace refinement + strace on
  every check run.  Proofs: `GIV/Lemmas/LockedfileOS.lean`, `GIV/Lemmas/LockedfileInv.lean`.
-/
import GIV.Lemmas.LockedfileInv

namespace GIV.C06
open GIV GIV.Lockedfile

/-! ### regenerated facts -/

/-- The source still has the statement shapes of the locking code that the model's programs hard-code
(closeFile unlocks before it closes, the error paths of openFile, filelock's LOCK_SH / LOCK_EX / LOCK_UN,
Mutex.Lock). -/
theorem facts_program_shape : programShapeLock = true := by decide

example : Gen.Lockedfile.unlockBeforeClose = true ∧ Gen.Lockedfile.truncAfterLock = true := by decide

/-! ### the lock mode -/

/-- For ALL flag values: openFile's switch asks for the exclusive lock exactly when
`flag & 3 ∈ {O_WRONLY, O_RDWR}` (constants and switch regenerated from the source). -/
theorem lockMode_spec (flag : Nat) :
    lockMode flag = .ex ↔ (flag &&& 3 = Gen.Lockedfile.O_WRONLY ∨ flag &&& 3 = Gen.Lockedfile.O_RDWR) := by
  rw [lockMode_ex_iff]
  simp [accWr, accMode, Gen.Lockedfile.O_WRONLY, Gen.Lockedfile.O_RDWR]

/-- … and for the shared lock otherwise. -/
theorem lockMode_shared_otherwise (flag : Nat) :
    lockMode flag = .sh ↔ ¬ (flag &&& 3 = Gen.Lockedfile.O_WRONLY ∨ flag &&& 3 = Gen.Lockedfile.O_RDWR) := by
  rw [← lockMode_spec]
  cases lockMode flag <;> simp

/-- The exclusive lock is asked for exactly when the kernel makes the descriptor writable
(O_TRUNC stripping does not change the access mode). -/
theorem lockMode_ex_iff_writable (flag : Nat) : lockMode flag = .ex ↔ accWr (openFlags flag) = true := by
  rw [openFlags_accWr]; exact lockMode_ex_iff flag

example : lockMode Gen.Lockedfile.flagsWrite = .ex ∧ lockMode Gen.Lockedfile.flagsEdit = .ex ∧
    lockMode Gen.Lockedfile.flagsCreate = .ex ∧ lockMode Gen.Lockedfile.flagsMutex = .ex ∧
    lockMode Gen.Lockedfile.flagsOpen = .sh ∧ lockMode (Gen.Lockedfile.O_RDONLY ||| Gen.Lockedfile.O_TRUNC) = .sh ∧
    lockMode 1027 = .sh := by decide

/-! ### critical sections -/

/-- Client `c` is inside a critical section of kind `k` on file `p`: it holds a File / Mutex that
OpenFile / Mutex.Lock returned and it has not passed to Close / unlock yet, or it is running an
operation that is past its successful flock and before its unlock. -/
def InCS (s : State) (c : Cid) (p : Path) (k : LockKind) : Prop :=
  (∃ h ∈ (s.cl c).held, h.path = p ∧ lockMode h.flag = k) ∨
  (∃ fr fd, (s.cl c).cur = some fr ∧ fr.pc.fd? = some fd ∧ fr.pc.locked = true ∧ fr.op.path = p ∧
    lockMode fr.op.flag = k)

/-- A critical section is backed by an open descriptor of that client that holds the lock in the table. -/
theorem InCS.holds {s : State} (hi : Inv1 s) {c p k} (h : InCS s c p k) :
    ∃ fd fl, Owns s.w c fd p fl ∧ holdsFd s.w fd p k := by
  rcases h with ⟨h, hm, rfl, rfl⟩ | ⟨fr, fd, hc, hfd, hl, rfl, rfl⟩
  · exact ⟨h.fd, h.flag, ((hi.clients c).handles h hm).1, ((hi.clients c).handles h hm).2⟩
  · obtain ⟨a, _, b⟩ := ((hi.clients c).frame fr hc).fd fd hfd
    rw [if_pos hl] at b
    exact ⟨fd, _, a, b⟩

/-- **A write lock excludes every other holder**: if client `c` is in an exclusive critical section on
`p` in a reachable state, every client in a critical section on `p` — of either kind — is `c`. -/
theorem write_excludes_all {files0 : Path → Option Bytes} {s : State} (hr : Reachable files0 s)
    {c c' : Cid} {p : Path} {k : LockKind} (h : InCS s c p .ex) (h' : InCS s c' p k) : c' = c := by
  have hi := reachable_Inv1 hr
  obtain ⟨fd, fl, ho, hh⟩ := h.holds hi
  obtain ⟨fd', fl', ho', hh'⟩ := h'.holds hi
  obtain ⟨rfl, _⟩ := hi.world.ex_only hh hh'
  exact ho'.owner_eq ho

/-- … and then it is an exclusive section too, through the same descriptor: there are never two
exclusive sections on one file. -/
theorem write_excludes_all_table {files0 : Path → Option Bytes} {s : State} (hr : Reachable files0 s)
    {fd fd' : Fd} {p : Path} {k : LockKind} (h : holdsFd s.w fd p .ex) (h' : holdsFd s.w fd' p k) :
    fd' = fd ∧ k = .ex :=
  (reachable_Inv1 hr).world.ex_only h h'


/-! a concrete run, for the non-vacuity examples -/

def noFiles : Path → Option Bytes := fun _ => none
def sy (c : Cid) : Label := ⟨c, .sys .none 1⟩
def run (ls : List Label) : Option State := runLabels (init noFiles) ls

/-- client 0: Write(file 0, "ab") up to and including its flock; client 1: Read up to its open. -/
def demoW : List Label := [⟨0, .call (.write 0 [97, 98])⟩, sy 0, ⟨1, .call (.read 0)⟩, sy 0, sy 1]

theorem demoW_some : (run demoW).isSome = true := by decide +kernel

/-- Build `InCS` for a running operation of a concrete state. -/
theorem InCS.ofFrame {s : State} {c p k} (h : (s.cl c).cur.isSome = true) (fd : Fd)
    (h1 : ((s.cl c).cur.get h).pc.fd? = some fd) (h2 : ((s.cl c).cur.get h).pc.locked = true)
    (h3 : ((s.cl c).cur.get h).op.path = p) (h4 : lockMode ((s.cl c).cur.get h).op.flag = k) : InCS s c p k :=
  .inr ⟨_, fd, (Option.some_get h).symm, h1, h2, h3, h4⟩

example : InCS ((run demoW).get demoW_some) 0 0 .ex :=
  InCS.ofFrame (by decide +kernel) 0 (by decide +kernel) (by decide +kernel) (by decide +kernel) (by decide +kernel)


/-- the hypotheses of `write_excludes_all` hold in that run, and the reader (client 1) is outside. -/
example : ∃ s, Reachable noFiles s ∧ InCS s 0 0 .ex ∧ ¬ InCS s 1 0 .sh :=
  ⟨(run demoW).get demoW_some, reachable_run demoW .init (Option.some_get demoW_some).symm,
    InCS.ofFrame (by decide +kernel) 0 (by decide +kernel) (by decide +kernel) (by decide +kernel) (by decide +kernel),
    fun h => by
      have := write_excludes_all (reachable_run demoW .init (Option.some_get demoW_some).symm)
        (InCS.ofFrame (s := (run demoW).get demoW_some) (c := 0) (p := 0) (by decide +kernel) 0 (by decide +kernel)
          (by decide +kernel) (by decide +kernel) (by decide +kernel)) h
      cases this⟩

/-! ### readers share -/

/-- **Read locks exclude only writers**: a client about to take its shared lock is never blocked while
no exclusive lock is held on the file — whatever number of readers hold it. -/
theorem readers_share {files0 : Path → Option Bytes} {s : State} (hr : Reachable files0 s) {c : Cid} {fr : Frame}
    {fd : Fd} (hc : (s.cl c).cur = some fr) (hpc : fr.pc = .lock fd) (hm : lockMode fr.op.flag = .sh)
    (hex : (s.w.locks fr.op.path).ex = none) : (step s ⟨c, .sys .none 0⟩).isSome = true := by
  have hi := reachable_Inv1 hr
  obtain ⟨ho, _, _⟩ := ((hi.clients c).frame fr hc).fd fd (by simp [hpc, Pc.fd?])
  obtain ⟨o, hfd, hp, _⟩ := ho.open
  simp only [step, stepRes, hc, sysOf, hpc, hm, osStep, hfd, compatible, hp, hex, faultErr]
  cases o.rd || o.wr <;> simp

/-- two readers inside their critical sections on the same file at the same time. -/
def demoR : List Label :=
  [⟨0, .call (.read 0)⟩, ⟨1, .call (.openFile 0 Gen.Lockedfile.O_RDONLY)⟩, ⟨2, .call (.write 0 [1])⟩,
   sy 2, sy 2, sy 2, sy 2, sy 2, sy 2, ⟨2, .ret⟩,
   sy 0, sy 1, sy 0, sy 1, ⟨1, .ret⟩]

theorem demoR_some : (run demoR).isSome = true := by decide +kernel

example : ∃ s, Reachable noFiles s ∧ InCS s 0 0 .sh ∧ InCS s 1 0 .sh :=
  ⟨(run demoR).get demoR_some, reachable_run demoR .init (Option.some_get demoR_some).symm,
    InCS.ofFrame (by decide +kernel) 1 (by decide +kernel) (by decide +kernel) (by decide +kernel) (by decide +kernel),
    .inl ⟨⟨2, 0, Gen.Lockedfile.O_RDONLY, none⟩, by decide +kernel, rfl, by decide⟩⟩

/-! ### held from the return of OpenFile / Lock until Close / unlock, released there -/

/-- The lock is in the table at the moment OpenFile / Mutex.Lock is about to return the file. -/
theorem locked_at_return {files0 : Path → Option Bytes} {s : State} (hr : Reachable files0 s) {c : Cid} {fr : Frame}
    {fd : Fd} (hc : (s.cl c).cur = some fr) (hpc : fr.pc = .done (.handle fd)) :
    holdsFd s.w fd fr.op.path (lockMode fr.op.flag) := by
  have := (((reachable_Inv1 hr).clients c).frame fr hc).fd fd (by simp [hpc, Pc.fd?])
  simpa [hpc, Pc.locked] using this.2.2

/-- **The lock is held at every step between the return of OpenFile / Mutex.Lock and the call of
Close / unlock**: `held` is exactly the set of files handed out by a return (`Act.ret`) and not yet
passed to Close / unlock (`Act.call (.closeH h)` / `(.unlockM h)`); in every reachable state each of
them holds its lock, of the mode `lockMode` of the flag it was opened with, on its own file. -/
theorem held_until_close {files0 : Path → Option Bytes} {s : State} (hr : Reachable files0 s) {c : Cid} {h : Handle}
    (hm : h ∈ (s.cl c).held) : holdsFd s.w h.fd h.path (lockMode h.flag) :=
  (((reachable_Inv1 hr).clients c).handles h hm).2

/-- Close / unlock still hold the lock when they reach closeFile's Unlock … -/
theorem held_until_unlock {files0 : Path → Option Bytes} {s : State} (hr : Reachable files0 s) {c : Cid} {fr : Frame}
    {fd : Fd} {ret : Ret} (hc : (s.cl c).cur = some fr) (hpc : fr.pc = .unlock fd ret) :
    holdsFd s.w fd fr.op.path (lockMode fr.op.flag) := by
  have := (((reachable_Inv1 hr).clients c).frame fr hc).fd fd (by simp [hpc, Pc.fd?])
  simpa [hpc, Pc.locked] using this.2.2

/-- … **and that call releases it**: the (un-faulted) Unlock step of closeFile leaves the descriptor
without any lock. -/
theorem released_by_close {files0 : Path → Option Bytes} {s s' : State} (hr : Reachable files0 s) {c : Cid}
    {fr : Frame} {fd : Fd} {ret : Ret} {n : Nat} (hc : (s.cl c).cur = some fr) (hpc : fr.pc = .unlock fd ret)
    (hs : step s ⟨c, .sys .none n⟩ = some s') : ∀ p k, ¬ holdsFd s'.w fd p k := by
  have hi := reachable_Inv1 hr
  have hi' := step_Inv1 hi hs
  obtain ⟨ho, _, _⟩ := ((hi.clients c).frame fr hc).fd fd (by simp [hpc, Pc.fd?])
  obtain ⟨o, hfd, _⟩ := ho.open
  obtain ⟨fr0, sc, tag, w', r, hc0, hsys, hos, rfl⟩ := step_sys hs
  rw [hc] at hc0; cases hc0
  simp only [sysOf, hpc, Option.some.injEq, Prod.mk.injEq] at hsys
  obtain ⟨rfl, _⟩ := hsys
  simp only [osStep, hfd, faultErr, Option.some.injEq, Prod.mk.injEq] at hos
  obtain ⟨rfl, rfl⟩ := hos
  have hcur : ((State.mk (dropLock s.w fd o.path) (upd s.cl c ⟨(s.cl c).held,
      some (nextFrame s.w (dropLock s.w fd o.path) fr (Sys.funlock fd) tag Fault.none n Res.ok)⟩)).cl c).cur =
      some (nextFrame s.w (dropLock s.w fd o.path) fr (Sys.funlock fd) tag Fault.none n Res.ok) := by simp
  have := ((hi'.clients c).frame _ hcur).fd fd (by simp [nextFrame, hpc, advancePc, finPc_eq, Pc.fd?])
  simpa [nextFrame, hpc, advancePc, finPc_eq, Pc.locked] using this.2.2

/-- After closeFile's Unlock has succeeded (control point `close fd ret false`) nothing is held. -/
theorem released_after_unlock {files0 : Path → Option Bytes} {s : State} (hr : Reachable files0 s) {c : Cid}
    {fr : Frame} {fd : Fd} {ret : Ret} (hc : (s.cl c).cur = some fr) (hpc : fr.pc = .close fd ret false) :
    ∀ p k, ¬ holdsFd s.w fd p k := by
  have := (((reachable_Inv1 hr).clients c).frame fr hc).fd fd (by simp [hpc, Pc.fd?])
  simpa [hpc, Pc.locked] using this.2.2

/-! #### … also when the open file description is shared (dup(2), inherited by a child process)

flock(2) locks belong to the open file description, not to the descriptor: close(2) of one of several
descriptors of a description releases nothing.  In the model this is the environment choice `Fault.shared`
at a close step. -/

/-- closeFile unlocks before it closes (regenerated from the source). -/
theorem facts_close_unlocks_first :
    Gen.Lockedfile.unlockBeforeClose = true ∧ Gen.Lockedfile.closeErrCombine = true := by decide

/-- Why: on a shared description close(2) alone keeps every lock — whatever `fd` holds before, it holds after. -/
theorem shared_close_keeps_lock {w w' : World} {c : Cid} {fd : Fd} {r : Res} {p : Path} {k : LockKind}
    (h : osStep w c (.close fd) .shared = some (w', r)) (hk : holdsFd w fd p k) : holdsFd w' fd p k := by
  rcases osStep_close_spec h with rfl | ⟨o, ho, _, rfl⟩
  · exact hk
  · simp [osStep, ho, faultErr] at h
    rw [← h.1]; exact hk

/-- **Released by Close even when the description is shared**: once closeFile's Unlock has succeeded, the
Close step — failing, succeeding, or succeeding on a shared description that lives on — leaves the
descriptor without any lock. -/
theorem close_keeps_released {files0 : Path → Option Bytes} {s s' : State} (hr : Reachable files0 s) {c : Cid}
    {fr : Frame} {fd : Fd} {ret : Ret} {f : Fault} {n : Nat} (hc : (s.cl c).cur = some fr)
    (hpc : fr.pc = .close fd ret false) (hs : step s ⟨c, .sys f n⟩ = some s') : ∀ p k, ¬ holdsFd s'.w fd p k := by
  have hrel := released_after_unlock hr hc hpc
  obtain ⟨fr0, sc, tag, w', r, hc0, hsys, hos, rfl⟩ := step_sys hs
  rw [hc] at hc0; cases hc0
  simp only [sysOf, hpc, Option.some.injEq, Prod.mk.injEq] at hsys
  obtain ⟨rfl, _⟩ := hsys
  intro p k hk
  rcases osStep_close_spec hos with rfl | ⟨o, _, _, rfl⟩
  · exact hrel p k hk
  · exact hrel p k ((holdsFd_closeFd ..).1 hk).1

/-- client 1 got a File from OpenFile(O_RDONLY) in `demoR`; client 2's Write ran to completion. -/
example : (⟨2, 0, Gen.Lockedfile.O_RDONLY, none⟩ : Handle) ∈ (((run demoR).get demoR_some).cl 1).held := by
  decide +kernel

/-- the same run continued: client 1 calls Close and performs closeFile's Unlock. -/
def demoC : List Label := demoR ++ [⟨1, .call (.closeH ⟨2, 0, Gen.Lockedfile.O_RDONLY, none⟩)⟩]

theorem demoC_some : (run demoC).isSome = true := by decide +kernel

example : ∃ s s' fr, Reachable noFiles s ∧ (s.cl 1).cur = some fr ∧ fr.pc = .unlock 2 .ok ∧
    step s ⟨1, .sys .none 0⟩ = some s' :=
  ⟨(run demoC).get demoC_some, (step ((run demoC).get demoC_some) ⟨1, .sys .none 0⟩).get (by decide +kernel),
    (((run demoC).get demoC_some).cl 1).cur.get (by decide +kernel),
    reachable_run demoC .init (Option.some_get demoC_some).symm, (Option.some_get _).symm, by rfl,
    (Option.some_get _).symm⟩

/-- Close on a shared description: Unlock, then a close(2) that leaves the description alive — Close returns
nil, nothing is held, and a writer gets its exclusive lock at once. -/
def demoShared : List Label :=
  demoC ++ [sy 1, ⟨1, .sys .shared 0⟩, ⟨1, .ret⟩, sy 0, sy 0, sy 0, sy 0, ⟨0, .ret⟩,
    ⟨3, .call (.write 0 [2])⟩, sy 3, sy 3]

example : (run demoShared).isSome = true ∧
    ((run demoShared).map fun s => ((s.w.fds 2).isSome, (s.w.locks 0).ex, (s.w.locks 0).sh)) = some (true, some 3, []) := by
  decide +kernel

/-- without the Unlock (here: it fails) a close(2) on a shared description leaks the lock: Close has returned,
the reader's shared lock is still in the table, and the writer blocks. -/
def demoLeak : List Label :=
  demoC ++ [⟨1, .sys .fail 0⟩, ⟨1, .sys .shared 0⟩, ⟨1, .ret⟩, sy 0, sy 0, sy 0, sy 0, ⟨0, .ret⟩,
    ⟨3, .call (.write 0 [2])⟩, sy 3]

example : ((run demoLeak).map fun s => ((s.cl 1).cur.isNone, (s.w.locks 0).sh, (step s (sy 3)).isNone)) =
    some (true, [2], true) := by decide +kernel

/-! ### Mutex -/

/-- **Two Mutex critical sections on one path never overlap**: while the result of a Mutex.Lock is
unreleased, any other unreleased File or Mutex on the same lock file — in particular the result of
another Mutex.Lock — belongs to the same client and is the same descriptor. -/
theorem mutex_excl {files0 : Path → Option Bytes} {s : State} (hr : Reachable files0 s) {c c' : Cid} {h h' : Handle}
    (hm : h ∈ (s.cl c).held) (hm' : h' ∈ (s.cl c').held) (hmu : h.mu.isSome = true)
    (hp : h.path = h'.path) : c' = c ∧ h'.fd = h.fd := by
  have hi := reachable_Inv1 hr
  have hf := (hi.clients c).muFlag h hm hmu
  have h1 := (hi.clients c).handles h hm
  have h2 := (hi.clients c').handles h' hm'
  have hex : lockMode h.flag = .ex := by rw [hf]; decide
  rw [hex] at h1
  rw [← hp] at h2
  obtain ⟨e, _⟩ := hi.world.ex_only h1.2 h2.2
  exact ⟨by rw [e] at h2; exact h2.1.owner_eq h1.1, e⟩

/-- Mutex.Lock opens with `O_RDWR|O_CREATE` (regenerated), hence exclusively. -/
theorem mutex_lock_exclusive : lockMode (Op.mutexLock 0 0).flag = .ex := by decide

/-- one client inside a Mutex critical section, another one blocked at its flock. -/
def demoM : List Label :=
  [⟨0, .call (.mutexLock 1 0)⟩, ⟨1, .call (.mutexLock 1 5)⟩, sy 0, sy 1, sy 0, sy 0, ⟨0, .ret⟩]

theorem demoM_some : (run demoM).isSome = true := by decide +kernel

example : (⟨0, 1, Gen.Lockedfile.flagsMutex, some 0⟩ : Handle) ∈ (((run demoM).get demoM_some).cl 0).held ∧
    (step ((run demoM).get demoM_some) (sy 1)).isNone = true := by
  decide +kernel

end GIV.C06
