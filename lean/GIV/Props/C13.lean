/-
  C13 — Trim removes only stale entries and only when a trim is due.

  Model: `trim`, `used` and the lookups of GIV.Model.Cache; times are integers of nanoseconds.
  `hour`, `day` below are the *statement's* numbers (one hour of timestamp granularity, one day between trims,
  five days of retention); theorem `durations` proves them equal to the constants regenerated from cache.go.

  This file does not depend on the index-entry codec (GIV.Lemmas.CacheParse): the examples that need a successful
  `Get` take the closed fact `exEntryParses` ("the example entry parses", an instance of C05's `parse_fmt`) as a hypothesis.
-/
import GIV.Lemmas.CacheTrim
import GIV.Lemmas.CacheTrimRange
import GIV.Lemmas.CacheOps
import GIV.Lemmas.CacheWitness

namespace GIV.C13
open GIV GIV.Cache

def second : Int := 1000000000
def hour : Int := 3600 * second
def day : Int := 24 * hour

/-- the file holding the time of the last completed trim. -/
def trimTxt : Bytes := [116, 114, 105, 109, 46, 116, 120, 116]   -- "trim.txt"

/-- The numbers of the statement are the numbers of the code. -/
theorem durations : Gen.Cache.mtimeInterval = hour ∧ Gen.Cache.trimInterval = day ∧ Gen.Cache.trimLimit = 5 * day ∧
    Gen.Cache.trimFile = trimTxt ∧ Gen.Cache.trimSubdirs = 256 ∧ Gen.Cache.parseBase = 10 ∧ Gen.Cache.parseBits = 64 := by
  decide

/-- `cutoff` is "now minus five days minus one hour". -/
theorem cutoff_eq (now : Int) : Gen.Cache.cutoff now = now - 5 * day - hour := by
  have h1 : Gen.Cache.trimLimit = 5 * day := durations.2.2.1
  have h2 : Gen.Cache.mtimeInterval = hour := durations.1
  simp only [Gen.Cache.cutoff, h1, h2]; omega

example : Gen.Cache.cutoff (6 * day) = 19 * hour + 4 * hour := by decide

/-! ### when a trim is due -/

/-- `trim.txt` holds the Unix time `t` of the last trim (surrounding white space allowed). -/
def lastTrimIs (fs : FS) (t : Int) : Prop :=
  ∃ f, fs.get trimTxt = some f ∧ parseInt 10 64 (trimSpace f.data) = some t

theorem trimNotDue_of_record (fs : FS) (now t : Int) (hn0 : 0 ≤ now) (hn1 : now < 2 ^ 63)
    (hrec : lastTrimIs fs t) (h1 : -hour < now - t * second) (h2 : now - t * second < day) :
    trimNotDue fs now = true := by
  obtain ⟨f, hf, hp⟩ := hrec
  have hsmall0 : -(2 ^ 62) ≤ t := by simp only [hour, day, second] at *; omega
  have hsmall1 : t < 2 ^ 62 := by simp only [hour, day, second] at *; omega
  have hlt : lastTrim? fs = some (t * second) := by
    simp only [lastTrim?, durations.2.2.2.1, hf, durations.2.2.2.2.2.1, durations.2.2.2.2.2.2, hp]
    rw [timeUnixSec_small t hsmall0 hsmall1]; rfl
  have hd : durSub now (t * second) = now - t * second :=
    durSub_exact _ _ (by simp only [hour, day, second] at *; omega) (by simp only [hour, day, second] at *; omega)
  simp only [trimNotDue, hlt, hd, Gen.Cache.trimNotDue, durations.1, durations.2.1, Bool.and_eq_true, decide_eq_true_eq]
  -- (insensitive to the order of the two comparisons in the source)
  constructor <;> first | exact h2 | omega

/-- If a trim completed less than a day ago (and not more than an hour in the future), Trim does nothing at all:
no file is removed or touched, `trim.txt` included. -/
theorem trim_not_due (fs : FS) (now t : Int) (hn0 : 0 ≤ now) (hn1 : now < 2 ^ 63)
    (hrec : lastTrimIs fs t) (h1 : -hour < now - t * second) (h2 : now - t * second < day) :
    trim fs now = fs := by
  simp [trim, trimNotDue_of_record fs now t hn0 hn1 hrec h1 h2]

/-- a directory whose last trim was 23 hours before `now = 10 days`. -/
def exRecent : FS := FS.empty.set trimTxt ⟨[32, 55, 56, 49, 50, 48, 48, 10], 0⟩   -- " 781200\n" = 10 d − 23 h, in seconds

example : trim exRecent (10 * day) = exRecent :=
  trim_not_due exRecent (10 * day) 781200 (by decide) (by decide)
    ⟨_, FS.get_set_self _ _ _, by decide⟩ (by decide) (by decide)

/-- what a due trim does: the sweep with cutoff `now − 5 d − 1 h`, then the record. -/
def dueResult (fs : FS) (now : Int) : FS :=
  (trimSweep fs (now - 5 * day - hour)).set trimTxt ⟨decimal (now / second).toNat, now⟩

theorem trim_of_due (fs : FS) (now : Int) (hn0 : 0 ≤ now) (h : trimNotDue fs now = false) : trim fs now = dueResult fs now := by
  have hu : 0 ≤ unixOf now := by
    unfold unixOf; rw [show Gen.Cache.second = 1000000000 by decide]; omega
  have hrec : trimRecord now = decimal (now / second).toNat := by
    rw [trimRecord_eq, fmtInt_nonneg _ hu]; rfl
  simp [trim, h, dueResult, cutoff_eq, durations.2.2.2.1, hrec]

/-- In every other case the trim is due — `trim.txt` missing, unparseable, a day or more old, an hour or more in the
future — and then the sweep runs and the Unix time `now` is recorded.
(The old / future cases are stated for `|t| < 2^62`; beyond that `time.Unix` wraps, which the model follows but the
statement does not describe — `trim_due_all_records` below does, for every int64 `t`; `trim_due_otherwise_corollary`
re-derives this theorem from it.) -/
theorem trim_due_otherwise (fs : FS) (now : Int) (hn0 : 0 ≤ now)
    (hdue : fs.get trimTxt = none ∨
      (∃ f, fs.get trimTxt = some f ∧ parseInt 10 64 (trimSpace f.data) = none) ∨
      (∃ t, lastTrimIs fs t ∧ -(2 ^ 62) ≤ t ∧ t < 2 ^ 62 ∧ (day ≤ now - t * second ∨ now - t * second ≤ -hour))) :
    trim fs now = dueResult fs now ∧
    (trim fs now).get trimTxt = some ⟨decimal (now / second).toNat, now⟩ := by
  have hnd : trimNotDue fs now = false := by
    rcases hdue with h | ⟨f, hf, hp⟩ | ⟨t, ⟨f, hf, hp⟩, ht0, ht1, hd⟩
    · simp [trimNotDue, lastTrim?, durations.2.2.2.1, h]
    · simp [trimNotDue, lastTrim?, durations.2.2.2.1, hf, durations.2.2.2.2.2.1, durations.2.2.2.2.2.2, hp]
    · have hlt : lastTrim? fs = some (t * second) := by
        simp only [lastTrim?, durations.2.2.2.1, hf, durations.2.2.2.2.2.1, durations.2.2.2.2.2.2, hp]
        rw [timeUnixSec_small t ht0 ht1]; rfl
      simp only [trimNotDue, hlt, Gen.Cache.trimNotDue, durations.1, durations.2.1, Bool.and_eq_false_iff,
        decide_eq_false_iff_not]
      -- the saturated difference is on the same side of the two thresholds as the exact one
      rw [durSub_lt_iff _ _ day (by decide) (by decide), durSub_gt_iff _ _ (-hour) (by decide) (by decide)]
      omega
  have := trim_of_due fs now hn0 hnd
  exact ⟨this, by rw [this, dueResult, FS.get_set_self]⟩

example : (trim FS.empty (10 * day)).get trimTxt = some ⟨[56, 54, 52, 48, 48, 48], 10 * day⟩ := by
  have := (trim_due_otherwise FS.empty (10 * day) (by decide) (Or.inl rfl)).2
  rw [this]
  have : decimal (10 * day / second).toNat = [56, 54, 52, 48, 48, 48] := by
    have : (10 * day / second).toNat = 864000 := by decide
    rw [this]; simp [decimal]
  rw [this]

/-! ### the decision for every record that can stand in `trim.txt`

`t` is whatever `ParseInt(…, 10, 64)` returns: any int64.  `time.Unix(t, 0)` wraps (in seconds since year 1) from
`firstWrapped = 2^63 - 62135596800` on; `now.Sub(lastTrim)` saturates at `±2^63` ns.  `notDueSpec`
(GIV.Lemmas.CacheTrimRange) is that computation in plain integer arithmetic with literal numbers. -/

/-- every record is an int64. -/
theorem record_is_int64 (fs : FS) (t : Int) (hrec : lastTrimIs fs t) : -(2 ^ 63) ≤ t ∧ t < 2 ^ 63 := by
  obtain ⟨f, _, hp⟩ := hrec
  exact parseInt64_range 10 _ t hp

example : lastTrimIs exRecent 781200 ∧ -(2 ^ 63) ≤ (781200 : Int) ∧ (781200 : Int) < 2 ^ 63 :=
  ⟨⟨_, FS.get_set_self _ _ _, by decide⟩, by decide, by decide⟩

/-- The model's due test is the integer specification `notDueSpec` (explicit wrap of `time.Unix`, explicit saturation
of `Sub`, literal 24 h and 1 h) — for all `t` and all `now`, the wrapping and saturating regions included. -/
theorem trimNotDue_is_spec (fs : FS) (now t : Int) (hrec : lastTrimIs fs t) : trimNotDue fs now = notDueSpec t now := by
  obtain ⟨f, hf, hp⟩ := hrec
  exact trimNotDue_eq_spec fs now t f (by rw [durations.2.2.2.1]; exact hf)
    (by rw [durations.2.2.2.2.2.1, durations.2.2.2.2.2.2]; exact hp)

example : trimNotDue exRecent (10 * day) = notDueSpec 781200 (10 * day) :=
  trimNotDue_is_spec _ _ _ ⟨_, FS.get_set_self _ _ _, by decide⟩

/-- **The decision for EVERY int64 record** (no `|t| < 2^62` restriction; `-2^63 ≤ t < 2^63` is not even a hypothesis:
it follows from `lastTrimIs`, theorem `record_is_int64`).  For every `now` in `[0, 2^63)` ns:
Trim decides "not due" exactly when the record is less than a day in the past and less than an hour in the future,
the difference `now - t·10⁹` taken in unbounded integers; then nothing at all happens.  In every other case — the
region where `t·10⁹` overflows, the region where `Sub` saturates and the region where `time.Unix` wraps included —
the sweep runs and the record is rewritten. -/
theorem trim_due_all_records (fs : FS) (now t : Int) (hn0 : 0 ≤ now) (hn1 : now < 2 ^ 63) (hrec : lastTrimIs fs t) :
    (trimNotDue fs now = true ↔ (-hour < now - t * second ∧ now - t * second < day)) ∧
    ((-hour < now - t * second ∧ now - t * second < day) → trim fs now = fs) ∧
    (¬ (-hour < now - t * second ∧ now - t * second < day) →
      trim fs now = dueResult fs now ∧ (trim fs now).get trimTxt = some ⟨decimal (now / second).toNat, now⟩) := by
  obtain ⟨ht0, ht1⟩ := record_is_int64 fs t hrec
  have hiff : trimNotDue fs now = true ↔ (-hour < now - t * second ∧ now - t * second < day) := by
    rw [trimNotDue_is_spec fs now t hrec, notDueSpec_closed t now ht0 ht1 hn0 hn1]
    simp only [hour, day, second]
    omega
  refine ⟨hiff, ?_, ?_⟩
  · intro h
    simp [trim, hiff.mpr h]
  · intro h
    have hnd : trimNotDue fs now = false := by
      cases hc : trimNotDue fs now with
      | false => rfl
      | true => exact absurd (hiff.mp hc) h
    have := trim_of_due fs now hn0 hnd
    exact ⟨this, by rw [this, dueResult, FS.get_set_self]⟩

/-- a record in the wrap region of `time.Unix`: `MaxInt64`. -/
def exMaxRecord : FS :=
  FS.empty.set trimTxt ⟨[57, 50, 50, 51, 51, 55, 50, 48, 51, 54, 56, 53, 52, 55, 55, 53, 56, 48, 55], 0⟩   -- "9223372036854775807"

example : lastTrimIs exMaxRecord (2 ^ 63 - 1) := ⟨_, FS.get_set_self _ _ _, by decide⟩

/-- both sides of `trim_due_all_records` occur: the recent record is not due, `MaxInt64` is due (and rewritten). -/
example : trim exRecent (10 * day) = exRecent ∧
    (trim exMaxRecord (10 * day)).get trimTxt = some ⟨decimal (10 * day / second).toNat, 10 * day⟩ :=
  ⟨(trim_due_all_records exRecent (10 * day) 781200 (by decide) (by decide) ⟨_, FS.get_set_self _ _ _, by decide⟩).2.1
      (by decide),
   ((trim_due_all_records exMaxRecord (10 * day) (2 ^ 63 - 1) (by decide) (by decide) ⟨_, FS.get_set_self _ _ _, by decide⟩).2.2
      (by decide)).2⟩

/-- (i) `trim_due_otherwise` is the special case `|t| < 2^62` (plus the missing / corrupt record): its third
alternative is the negation of the closed form. -/
theorem trim_due_otherwise_from_all (fs : FS) (now : Int) (hn0 : 0 ≤ now) (hn1 : now < 2 ^ 63)
    (hdue : fs.get trimTxt = none ∨
      (∃ f, fs.get trimTxt = some f ∧ parseInt 10 64 (trimSpace f.data) = none) ∨
      (∃ t, lastTrimIs fs t ∧ (day ≤ now - t * second ∨ now - t * second ≤ -hour))) :
    trim fs now = dueResult fs now ∧
    (trim fs now).get trimTxt = some ⟨decimal (now / second).toNat, now⟩ := by
  rcases hdue with h | ⟨f, hf, hp⟩ | ⟨t, hrec, hd⟩
  · have hnd := trimNotDue_missing fs now (by rw [durations.2.2.2.1]; exact h)
    have := trim_of_due fs now hn0 hnd
    exact ⟨this, by rw [this, dueResult, FS.get_set_self]⟩
  · have hnd := trimNotDue_corrupt fs now f (by rw [durations.2.2.2.1]; exact hf)
      (by rw [durations.2.2.2.2.2.1, durations.2.2.2.2.2.2]; exact hp)
    have := trim_of_due fs now hn0 hnd
    exact ⟨this, by rw [this, dueResult, FS.get_set_self]⟩
  · exact (trim_due_all_records fs now t hn0 hn1 hrec).2.2 (by omega)

example : (trim exMaxRecord (10 * day)).get trimTxt = some ⟨decimal (10 * day / second).toNat, 10 * day⟩ :=
  (trim_due_otherwise_from_all exMaxRecord (10 * day) (by decide) (by decide)
    (Or.inr (Or.inr ⟨2 ^ 63 - 1, ⟨_, FS.get_set_self _ _ _, by decide⟩, Or.inr (by decide)⟩))).2

/-- … and with exactly the statement of `trim_due_otherwise` (every `now ≥ 0`, `|t| < 2^62`), now a corollary of the
real-time form `trim_due_real_time` below the wrap region. -/
theorem trim_due_otherwise_corollary (fs : FS) (now : Int) (hn0 : 0 ≤ now)
    (hdue : fs.get trimTxt = none ∨
      (∃ f, fs.get trimTxt = some f ∧ parseInt 10 64 (trimSpace f.data) = none) ∨
      (∃ t, lastTrimIs fs t ∧ -(2 ^ 62) ≤ t ∧ t < 2 ^ 62 ∧ (day ≤ now - t * second ∨ now - t * second ≤ -hour))) :
    trim fs now = dueResult fs now ∧
    (trim fs now).get trimTxt = some ⟨decimal (now / second).toNat, now⟩ := by
  have fin : trimNotDue fs now = false → trim fs now = dueResult fs now ∧
      (trim fs now).get trimTxt = some ⟨decimal (now / second).toNat, now⟩ := fun hnd => by
    have := trim_of_due fs now hn0 hnd
    exact ⟨this, by rw [this, dueResult, FS.get_set_self]⟩
  rcases hdue with h | ⟨f, hf, hp⟩ | ⟨t, hrec, _, ht1, hd⟩
  · exact fin (trimNotDue_missing fs now (by rw [durations.2.2.2.1]; exact h))
  · exact fin (trimNotDue_corrupt fs now f (by rw [durations.2.2.2.1]; exact hf)
      (by rw [durations.2.2.2.2.2.1, durations.2.2.2.2.2.2]; exact hp))
  · have hnd : trimNotDue fs now = false := by
      rw [trimNotDue_is_spec fs now t hrec]
      exact notDueSpec_old_or_future t now (record_is_int64 fs t hrec).1 (by unfold firstWrapped; omega)
        (by simp only [hour, day, second] at hd; omega)
    exact fin hnd

example : (trim FS.empty (10 * day)).get trimTxt = some ⟨decimal (10 * day / second).toNat, 10 * day⟩ :=
  (trim_due_otherwise_corollary FS.empty (10 * day) (by decide) (Or.inl rfl)).2

/-- (ii) In real, unwrapped time — for every record below the wrap region of `time.Unix` (in particular every `t`
whose nanosecond value fits in an int64) and EVERY `now ≥ 0`, representable as int64 nanoseconds or not: a record a
day or more in the past, or an hour or more in the future, means due. -/
theorem trim_due_real_time (fs : FS) (now t : Int) (hn0 : 0 ≤ now) (hrec : lastTrimIs fs t) (hnowrap : t < 2 ^ 63 - 62135596800)
    (hd : day ≤ now - t * second ∨ now - t * second ≤ -hour) :
    trim fs now = dueResult fs now ∧ (trim fs now).get trimTxt = some ⟨decimal (now / second).toNat, now⟩ := by
  have hnd : trimNotDue fs now = false := by
    rw [trimNotDue_is_spec fs now t hrec]
    exact notDueSpec_old_or_future t now (record_is_int64 fs t hrec).1 hnowrap (by simp only [hour, day, second] at hd; omega)
  have := trim_of_due fs now hn0 hnd
  exact ⟨this, by rw [this, dueResult, FS.get_set_self]⟩

/-- a record whose nanosecond value does not fit (`9223372037·10⁹ > 2^63`) but which `time.Unix` represents exactly. -/
def exYear2262 : FS := FS.empty.set trimTxt ⟨[57, 50, 50, 51, 51, 55, 50, 48, 51, 55], 0⟩   -- "9223372037"

example : (trim exYear2262 (10 * day)).get trimTxt = some ⟨decimal (10 * day / second).toNat, 10 * day⟩ :=
  (trim_due_real_time exYear2262 (10 * day) 9223372037 (by decide) ⟨_, FS.get_set_self _ _ _, by decide⟩ (by decide)
    (Or.inr (by decide))).2

/-- … and in the wrap region itself (`2^63 - 62135596800 ≤ t`) the trim is due whatever `now ≥ 0` is. -/
theorem trim_due_wrapped (fs : FS) (now t : Int) (hn0 : 0 ≤ now) (hrec : lastTrimIs fs t) (hwrap : 2 ^ 63 - 62135596800 ≤ t) :
    trim fs now = dueResult fs now ∧ (trim fs now).get trimTxt = some ⟨decimal (now / second).toNat, now⟩ := by
  have hnd : trimNotDue fs now = false := by
    rw [trimNotDue_is_spec fs now t hrec]
    exact notDueSpec_wrapped t now hwrap (record_is_int64 fs t hrec).2 hn0
  have := trim_of_due fs now hn0 hnd
  exact ⟨this, by rw [this, dueResult, FS.get_set_self]⟩

example : (trim exMaxRecord (10 * day)).get trimTxt = some ⟨decimal (10 * day / second).toNat, 10 * day⟩ :=
  (trim_due_wrapped exMaxRecord (10 * day) (2 ^ 63 - 1) (by decide) ⟨_, FS.get_set_self _ _ _, by decide⟩ (by decide)).2

/-- (iii) closed instances around the three edges, evaluated by the kernel (`now = 10 d` or `now = 2^63 - 1` ns; each
verdict equals what `now.Sub(time.Unix(t, 0))` gives in Go):
`t = 9223372037` (first `t` with `t·10⁹ > 2^63`): due at day 10 — but NOT due at `now = 2^63 - 1` ns, 0.145 s before
that record; `t = 18446744074`: `Sub` saturates at `minDuration`, due; the last non-wrapping value: due; the first
wrapping value and `MaxInt64` (`Sub` saturates at `maxDuration`): due; `MinInt64`: due. -/
theorem trim_due_edge_examples :
    notDueSpec 9223372037 (10 * day) = false ∧ notDueSpec 9223372037 (2 ^ 63 - 1) = true ∧
    notDueSpec 18446744074 (10 * day) = false ∧
    notDueSpec (2 ^ 63 - 62135596800 - 1) (10 * day) = false ∧ notDueSpec (2 ^ 63 - 62135596800) (10 * day) = false ∧
    notDueSpec (2 ^ 63 - 1) (10 * day) = false ∧ notDueSpec (2 ^ 63 - 1) (2 ^ 63 - 1) = false ∧
    notDueSpec (-(2 ^ 63)) (10 * day) = false ∧
    trimNotDue exYear2262 (2 ^ 63 - 1) = true ∧ trimNotDue exYear2262 (10 * day) = false ∧
    trimNotDue exMaxRecord (10 * day) = false := by
  refine ⟨by decide, by decide, by decide, by decide, by decide, by decide, by decide, by decide, ?_, ?_, ?_⟩
  · rw [trimNotDue_is_spec exYear2262 _ 9223372037 ⟨_, FS.get_set_self _ _ _, by decide⟩]; decide
  · rw [trimNotDue_is_spec exYear2262 _ 9223372037 ⟨_, FS.get_set_self _ _ _, by decide⟩]; decide
  · rw [trimNotDue_is_spec exMaxRecord _ (2 ^ 63 - 1) ⟨_, FS.get_set_self _ _ _, by decide⟩]; decide

/-! ### mtimes are refreshed by use -/

/-- After `used(file)` at time `u` the file's mtime is less than an hour behind `u`. -/
theorem used_bound (fs : FS) (u : Int) (file : Bytes) (f : File) (h : (used fs u file).get file = some f) :
    u - f.mtime < hour := by
  rw [get_used_self] at h
  cases hg : fs.get file with
  | none => rw [hg] at h; cases h
  | some g =>
    rw [hg] at h
    simp only [Option.map_some, Option.some.injEq] at h
    split at h
    · rename_i hfresh
      subst h
      simp only [Gen.Cache.usedFresh, durations.1, Bool.true_and, decide_eq_true_eq] at hfresh
      exact (durSub_lt_iff _ _ hour (by decide) (by decide)).mp hfresh
    · subst h; simp [hour, second]

example : ∃ f, (used (FS.empty.set [1] ⟨[], 0⟩) (2 * hour) [1]).get [1] = some f ∧ 2 * hour - f.mtime < hour := by
  cases h : (used (FS.empty.set [1] ⟨[], 0⟩) (2 * hour) [1]).get [1] with
  | none =>
    rw [get_used_self, FS.get_set_self] at h; simp at h
  | some f => exact ⟨f, rfl, used_bound _ _ _ _ h⟩

theorem fileName_ne_trimTxt (id : Hash) (key : Bytes) : fileName id key ≠ trimTxt := by
  rw [← durations.2.2.2.1]; exact fileName_ne_trimFile _ _

/-- A successful `Get` at time `u` leaves the index file with an mtime less than an hour behind `u`. -/
theorem get_refreshes (fs : FS) (u : Int) (id : Hash) (e : Entry) (fs' : FS) (h : get fs u id = (.ok e, fs')) :
    ∃ f, fs'.get (fileName id keyA) = some f ∧ u - f.mtime < hour := by
  unfold Cache.get at h
  split at h
  · cases h
  · rename_i f0 hf0
    split at h
    · cases h
    · simp only [show Gen.Cache.getUsesIndexFile = true by decide, if_true, Prod.mk.injEq] at h
      obtain ⟨_, hfs⟩ := h
      subst hfs
      cases hg : (used fs u (fileName id keyA)).get (fileName id keyA) with
      | none => rw [get_used_self, hf0] at hg; simp at hg
      | some f => exact ⟨f, rfl, used_bound _ _ _ _ hg⟩

example (hp : exEntryParses) : ∃ e fs', Cache.get exFS (10 * day) id1 = (.ok e, fs') ∧
    ∃ f, fs'.get (fileName id1 keyA) = some f ∧ 10 * day - f.mtime < hour := by
  obtain ⟨t, ht⟩ := (exFS_storedP hp).get (10 * day)
  cases h : Cache.get exFS (10 * day) id1 with
  | mk r fs' => rw [h] at ht; simp only at ht; subst ht; exact ⟨_, fs', rfl, get_refreshes _ _ _ _ _ h⟩

/-- `OutputFile(out)` (hence GetFile and GetBytes) does the same for the data file, if it exists. -/
theorem outputFile_refreshes (fs : FS) (u : Int) (out : Hash) (f : File)
    (h : (outputFile fs u out).2.get (fileName out keyD) = some f) : u - f.mtime < hour :=
  used_bound _ _ _ _ h

example : ∃ f, (outputFile exFS (10 * day) (toyH [65])).2.get (fileName (toyH [65]) keyD) = some f ∧ 10 * day - f.mtime < hour := by
  cases h : (outputFile exFS (10 * day) (toyH [65])).2.get (fileName (toyH [65]) keyD) with
  | none =>
    have := outputFile_sameData exFS (10 * day) (toyH [65]) (fileName (toyH [65]) keyD)
    rw [show dataOf exFS (fileName (toyH [65]) keyD) = some [65] by simp [exFS, dataOf, FS.get_set]] at this
    simp [dataOf, h] at this
  | some f => exact ⟨f, rfl, outputFile_refreshes _ _ _ _ h⟩

/-! ### what Trim keeps and removes -/

/-- Trim never changes a file it keeps, and apart from `trim.txt` never creates one. -/
theorem trim_never_modifies (fs : FS) (now : Int) (hn0 : 0 ≤ now) (p : Bytes) (hp : p ≠ trimTxt) :
    (trim fs now).get p = none ∨ (trim fs now).get p = fs.get p := by
  cases hd : trimNotDue fs now with
  | true => right; simp [trim, hd]
  | false =>
    rw [trim_of_due fs now hn0 hd, dueResult, FS.get_set_ne _ _ _ _ hp, trimSweep_get]
    by_cases hc : sweepCandidate p ∧ stale (now - 5 * day - hour) (fs.get p) = true
    · left; exact keepUnless_pos hc _
    · right; exact keepUnless_neg hc _

/-- Trim never removes a file whose mtime is at most five days and one hour old. -/
theorem trim_keeps_recent (fs : FS) (now : Int) (hn0 : 0 ≤ now) (p : Bytes) (f : File) (hp : p ≠ trimTxt)
    (hf : fs.get p = some f) (hrecent : now - 5 * day - hour ≤ f.mtime) : (trim fs now).get p = some f := by
  cases hd : trimNotDue fs now with
  | true => simp [trim, hd, hf]
  | false =>
    rw [trim_of_due fs now hn0 hd, dueResult, FS.get_set_ne _ _ _ _ hp, trimSweep_get, keepUnless_neg, hf]
    rintro ⟨_, hs⟩
    rw [hf, stale_some_iff] at hs
    omega

example : (trim (FS.empty.set [97, 98, 47, 120, 45, 97] ⟨[1], 5 * day⟩) (10 * day)).get [97, 98, 47, 120, 45, 97] = some ⟨[1], 5 * day⟩ :=
  trim_keeps_recent _ _ (by decide) _ _ (by decide) (FS.get_set_self _ _ _) (by decide)

/-- A file used (by `used`, i.e. by any lookup that touches it) at time `u` survives every Trim up to five days later. -/
theorem lookup_survives (fs : FS) (u now : Int) (hn0 : 0 ≤ now) (p : Bytes) (f : File) (hp : p ≠ trimTxt)
    (hf : (used fs u p).get p = some f) (hwithin : now - u ≤ 5 * day) :
    (trim (used fs u p) now).get p = some f := by
  have := used_bound fs u p f hf
  exact trim_keeps_recent _ now hn0 p f hp hf (by omega)

example : ∃ f, (used (FS.empty.set [1] ⟨[], 0⟩) (10 * day) [1]).get [1] = some f ∧
    (trim (used (FS.empty.set [1] ⟨[], 0⟩) (10 * day) [1]) (15 * day)).get [1] = some f := by
  cases h : (used (FS.empty.set [1] ⟨[], 0⟩) (10 * day) [1]).get [1] with
  | none => rw [get_used_self, FS.get_set_self] at h; simp at h
  | some f => exact ⟨f, rfl, lookup_survives _ _ _ (by decide) _ f (by decide) h (by decide)⟩

/-- … for the operations: after a successful `Get` at `u` the index entry survives a Trim at `now ≤ u + 5 d`;
after `OutputFile` / `GetFile` / `GetBytes` so does the data file (the state `fs'` is the one the operation returned). -/
theorem get_survives (fs : FS) (u now : Int) (hn0 : 0 ≤ now) (id : Hash) (e : Entry) (fs' : FS)
    (h : get fs u id = (.ok e, fs')) (hwithin : now - u ≤ 5 * day) :
    (trim fs' now).get (fileName id keyA) = fs'.get (fileName id keyA) ∧ (fs'.get (fileName id keyA)).isSome = true := by
  obtain ⟨f, hf, hb⟩ := get_refreshes fs u id e fs' h
  rw [hf, trim_keeps_recent fs' now hn0 _ f (by rw [← durations.2.2.2.1]; exact fileName_ne_trimFile _ _) hf (by omega)]
  exact ⟨rfl, rfl⟩

theorem outputFile_survives (fs : FS) (u now : Int) (hn0 : 0 ≤ now) (out : Hash) (hwithin : now - u ≤ 5 * day) :
    (trim (outputFile fs u out).2 now).get (fileName out keyD) = (outputFile fs u out).2.get (fileName out keyD) := by
  cases hg : (outputFile fs u out).2.get (fileName out keyD) with
  | none =>
    rcases trim_never_modifies (outputFile fs u out).2 now hn0 (fileName out keyD)
      (by rw [← durations.2.2.2.1]; exact fileName_ne_trimFile _ _) with h | h
    · exact h
    · rw [h, hg]
  | some f =>
    have hb := outputFile_refreshes fs u out f hg
    exact trim_keeps_recent _ now hn0 _ f (by rw [← durations.2.2.2.1]; exact fileName_ne_trimFile _ _) hg (by omega)

example (hp : exEntryParses) : ∃ e fs', Cache.get exFS (10 * day) id1 = (.ok e, fs') ∧
    (trim fs' (15 * day)).get (fileName id1 keyA) = fs'.get (fileName id1 keyA) := by
  obtain ⟨t, ht⟩ := (exFS_storedP hp).get (10 * day)
  cases h : Cache.get exFS (10 * day) id1 with
  | mk r fs' =>
    rw [h] at ht; simp only at ht; subst ht
    exact ⟨_, fs', rfl, (get_survives exFS (10 * day) (15 * day) (by decide) id1 _ fs' h (by decide)).1⟩

example : (trim (outputFile exFS (10 * day) (toyH [65])).2 (15 * day)).get (fileName (toyH [65]) keyD) =
    (outputFile exFS (10 * day) (toyH [65])).2.get (fileName (toyH [65]) keyD) :=
  outputFile_survives exFS (10 * day) (15 * day) (by decide) (toyH [65]) (by decide)

/-- A successful `GetBytes` / `GetFile` at time `u` protects the index entry and the output file it read:
both are untouched by every Trim at `now ≤ u + 5 d` (`fs'` is the state the lookup returned). -/
theorem getBytes_survives (H : Bytes → Hash) (fs : FS) (u now : Int) (hn0 : 0 ≤ now) (id : Hash) (d : Bytes) (e : Entry) (fs' : FS)
    (h : getBytes H fs u id = (.ok (d, e), fs')) (hwithin : now - u ≤ 5 * day) :
    (trim fs' now).get (fileName id keyA) = fs'.get (fileName id keyA) ∧ (fs'.get (fileName id keyA)).isSome = true ∧
    (trim fs' now).get (fileName e.out keyD) = fs'.get (fileName e.out keyD) := by
  unfold getBytes at h
  split at h
  · cases h
  · rename_i e0 fs1 hg
    simp only [] at h
    obtain ⟨_, hv, hfs⟩ := ite_error_ok h
    simp only [Prod.mk.injEq] at hv
    obtain ⟨_, he⟩ := hv
    subst he hfs
    obtain ⟨f, hf, hb⟩ := get_refreshes fs u id e0 fs1 hg
    have hidx : (outputFile fs1 u e0.out).2.get (fileName id keyA) = some f := by
      rw [outputFile]; simp only []; rw [get_used_ne _ _ _ _ (fileName_a_ne_d _ _)]; exact hf
    refine ⟨?_, by rw [hidx]; rfl, outputFile_survives fs1 u now hn0 e0.out hwithin⟩
    rw [hidx]
    exact trim_keeps_recent _ now hn0 _ f (fileName_ne_trimTxt _ _) hidx (by omega)

theorem getFile_survives (fs : FS) (u now : Int) (hn0 : 0 ≤ now) (id : Hash) (file : Bytes) (e : Entry) (fs' : FS)
    (h : getFile fs u id = (.ok (file, e), fs')) (hwithin : now - u ≤ 5 * day) :
    (trim fs' now).get (fileName id keyA) = fs'.get (fileName id keyA) ∧ (fs'.get (fileName id keyA)).isSome = true ∧
    (trim fs' now).get file = fs'.get file ∧ (fs'.get file).isSome = true := by
  unfold getFile at h
  split at h
  · cases h
  · rename_i e0 fs1 hg
    simp only [] at h
    split at h
    · cases h
    · rename_i fd hfd
      obtain ⟨_, hv, hfs⟩ := ite_error_ok h
      simp only [Prod.mk.injEq] at hv
      obtain ⟨hfile, he⟩ := hv
      subst he hfs hfile
      obtain ⟨f, hf, hb⟩ := get_refreshes fs u id e0 fs1 hg
      have hidx : (outputFile fs1 u e0.out).2.get (fileName id keyA) = some f := by
        rw [outputFile]; simp only []; rw [get_used_ne _ _ _ _ (fileName_a_ne_d _ _)]; exact hf
      refine ⟨?_, by rw [hidx]; rfl, outputFile_survives fs1 u now hn0 e0.out hwithin, by rw [hfd]; rfl⟩
      rw [hidx]
      exact trim_keeps_recent _ now hn0 _ f (fileName_ne_trimTxt _ _) hidx (by omega)

example (hp : exEntryParses) : ∃ d e fs', getBytes toyH exFS (10 * day) id1 = (.ok (d, e), fs') ∧
    (trim fs' (15 * day)).get (fileName id1 keyA) = fs'.get (fileName id1 keyA) := by
  obtain ⟨t, ht⟩ := (exFS_storedP hp).getBytes (10 * day)
  cases h : getBytes toyH exFS (10 * day) id1 with
  | mk r fs' =>
    rw [h] at ht; simp only at ht; subst ht
    exact ⟨_, _, fs', rfl, (getBytes_survives toyH exFS (10 * day) (15 * day) (by decide) id1 _ _ fs' h (by decide)).1⟩

example (hp : exEntryParses) : ∃ file e fs', getFile exFS (10 * day) id1 = (.ok (file, e), fs') ∧ (trim fs' (15 * day)).get file = fs'.get file := by
  obtain ⟨t, ht⟩ := (exFS_storedP hp).getFile (10 * day)
  cases h : getFile exFS (10 * day) id1 with
  | mk r fs' =>
    rw [h] at ht; simp only at ht; subst ht
    exact ⟨_, _, fs', rfl, (getFile_survives exFS (10 * day) (15 * day) (by decide) id1 _ _ fs' h (by decide)).2.2.1⟩

/-! ### storing an entry protects it -/

/-- the two files of the entry `id ↦ data`, as a fault-free `Put` at time `u` leaves them, are both present and both
survive a Trim at `now`. -/
def SurvivesTrim (H : Bytes → Hash) (fs : FS) (u now : Int) (id : Hash) (data : Bytes) : Prop :=
  ∃ fi fd,
    (put H fs u id data).2.get (fileName id keyA) = some fi ∧
    (trim (put H fs u id data).2 now).get (fileName id keyA) = some fi ∧
    (put H fs u id data).2.get (fileName (H data) keyD) = some fd ∧
    (trim (put H fs u id data).2 now).get (fileName (H data) keyD) = some fd

/-- Trim never removes an entry that was stored within the last five days: after `Put(id, data)` at time `u`
(into any cache directory, damaged or not) the index entry *and* the output file survive every Trim at
`now ≤ u + 5 d` — also when the output file was already there and is merely re-used, because the re-use branch
of `copyFile` refreshes its mtime (regenerated fact `copyReuseRefresh ≠ 0`; without it this theorem fails,
cf. the history  Put(id1,d) · 6 days · Put(id2,d) · Trim · GetBytes(id2)). -/
theorem put_survives (H : Bytes → Hash) (fs : FS) (u now : Int) (id : Hash) (data : Bytes)
    (hn0 : 0 ≤ now) (hwithin : now - u ≤ 5 * day) : SurvivesTrim H fs u now id data := by
  have hfix : Gen.Cache.copyReuseRefresh = 1 ∨ Gen.Cache.copyReuseRefresh = 2 := by decide
  have hne : fileName (H data) keyD ≠ fileName id keyA := fun h => fileName_a_ne_d _ _ h.symm
  obtain ⟨hi1, hi2⟩ := putIndexEntry_spec (copyFile H fs u data (H data) data.length).2 u id (H data) data.length
  -- the data file after copyFile: present, with an mtime less than an hour before `u`
  have hdata : ∃ fd, (copyFile H fs u data (H data) data.length).2.get (fileName (H data) keyD) = some fd ∧ u - fd.mtime < hour := by
    by_cases hr : Reused H fs data
    · rw [copyFile_reused H fs u data hr]
      obtain ⟨f, hf, _, _⟩ := hr
      unfold refreshReused
      rcases hfix with h1 | h2
      · simp only [h1, if_true]
        cases hg : (used fs u (fileName (H data) keyD)).get (fileName (H data) keyD) with
        | none => rw [get_used_self, hf] at hg; simp at hg
        | some fd => exact ⟨fd, rfl, used_bound _ _ _ _ hg⟩
      · simp only [h2, show ¬ (2 : Nat) = 1 by decide, if_false, if_true, get_chtimes, hf, Option.map_some]
        exact ⟨_, rfl, by simp [hour, second]⟩
    · obtain ⟨fd, hfd, hm⟩ := copyFile_fresh H fs u data hr
      exact ⟨fd, hfd, by rw [hm]; simp [hour, second]⟩
  obtain ⟨fd, hfd, hbd⟩ := hdata
  rw [SurvivesTrim, put_snd]
  have hfd' : (putIndexEntry (copyFile H fs u data (H data) data.length).2 u id (H data) data.length).get (fileName (H data) keyD) = some fd := by
    rw [hi2 _ hne]; exact hfd
  refine ⟨_, fd, hi1, ?_, hfd', ?_⟩
  · have hh : 0 < hour := by decide
    exact trim_keeps_recent _ now hn0 _ _ (fileName_ne_trimTxt _ _) hi1 (by simp only; omega)
  · exact trim_keeps_recent _ now hn0 _ _ (fileName_ne_trimTxt _ _) hfd' (by omega)

/-- the regression history in the model: the output `[65]` was stored long ago (mtime 0); it is stored again under
`id1` at day 10 and a trim is due at once — both files are still there afterwards. -/
example : SurvivesTrim toyH (FS.empty.set (fileName (toyH [65]) keyD) ⟨[65], 0⟩) (10 * day) (10 * day) id1 [65] :=
  put_survives _ _ _ _ _ _ (by decide) (by decide)

/-- When the trim is due, every cache entry file unused for longer than five days plus one hour is removed. -/
theorem trim_removes_stale (fs : FS) (now : Int) (hn0 : 0 ≤ now) (hdue : trimNotDue fs now = false)
    (p : Bytes) (f : File) (hentry : isEntryPath p = true) (hf : fs.get p = some f)
    (hstale : f.mtime < now - 5 * day - hour) : (trim fs now).get p = none := by
  have hp : p ≠ trimTxt := by intro h; subst h; revert hentry; decide
  rw [trim_of_due fs now hn0 hdue, dueResult, FS.get_set_ne _ _ _ _ hp, trimSweep_get]
  exact keepUnless_pos ⟨(sweepCandidate_iff p).mpr hentry, by rw [hf, stale_some_iff]; exact hstale⟩ _

example : (trim (FS.empty.set [97, 98, 47, 120, 45, 97] ⟨[1], day⟩) (10 * day)).get [97, 98, 47, 120, 45, 97] = none :=
  trim_removes_stale _ _ (by decide) (by simp [trimNotDue, lastTrim?, FS.get_set, Gen.Cache.trimFile]) _ _ (by decide)
    (FS.get_set_self _ _ _) (by decide)

/-- Files that are not cache entries — anything but a name ending in `-a` / `-d` directly inside a two-hex-digit
subdirectory: README, fuzz data, temporary and foreign files, nested directories — are never touched
(`trim.txt` aside, which a due trim rewrites). -/
theorem trim_frame (fs : FS) (now : Int) (hn0 : 0 ≤ now) (p : Bytes) (hnot : isEntryPath p = false) (hp : p ≠ trimTxt) :
    (trim fs now).get p = fs.get p := by
  cases hd : trimNotDue fs now with
  | true => simp [trim, hd]
  | false =>
    rw [trim_of_due fs now hn0 hd, dueResult, FS.get_set_ne _ _ _ _ hp, trimSweep_get, keepUnless_neg]
    rintro ⟨hc, _⟩
    rw [(sweepCandidate_iff p).mp hc] at hnot
    cases hnot

/-- README, `fuzz/ab/x-a`, `ab/x-a.tmp`, `AB/x-a`, `ab/s/x-a`, `x-a` are not entries; `ab/x-a` and `0f` / `-d` are. -/
example : isEntryPath [82, 69, 65, 68, 77, 69] = false ∧
    isEntryPath [102, 117, 122, 122, 47, 97, 98, 47, 120, 45, 97] = false ∧
    isEntryPath [97, 98, 47, 120, 45, 97, 46, 116, 109, 112] = false ∧
    isEntryPath [65, 66, 47, 120, 45, 97] = false ∧
    isEntryPath [97, 98, 47, 115, 47, 120, 45, 97] = false ∧
    isEntryPath [120, 45, 97] = false ∧
    isEntryPath [97, 98, 47, 120, 45, 97] = true ∧
    isEntryPath [48, 102, 47, 45, 100] = true := by decide

example : (trim (FS.empty.set [82, 69, 65, 68, 77, 69] ⟨[1], 0⟩) (10 * day)).get [82, 69, 65, 68, 77, 69] = some ⟨[1], 0⟩ := by
  rw [trim_frame _ _ (by decide) _ (by decide) (by decide), FS.get_set_self]

/-! ### the four boundaries, by name -/

/-- the entry file `ab/x-a`. -/
def bEntry : Bytes := [97, 98, 47, 120, 45, 97]

/-- a one-entry cache: `ab/x-a` with mtime `m`, last trim recorded at `777600` s = day 9. -/
def bCache (m : Int) : FS := (FS.empty.set bEntry ⟨[1], m⟩).set trimTxt ⟨[55, 55, 55, 54, 48, 48], 0⟩   -- "777600"

theorem bCache_record (m : Int) : lastTrimIs (bCache m) 777600 := ⟨_, FS.get_set_self _ _ _, by decide⟩

theorem bCache_entry (m : Int) : (bCache m).get bEntry = some ⟨[1], m⟩ := by
  rw [bCache, FS.get_set_ne _ _ _ _ (by decide), FS.get_set_self]

/-- `>` versus `≥`, pinned with the regenerated constants on a concrete one-entry cache (record = day 9):
* the constants are 24 h, 1 h, 5 d, and the cutoff is `now - (5 d + 1 h)`;
* (a) `d = trimInterval`: due — (b) `d = trimInterval - 1 ns`: not due, Trim changes nothing (whatever the entry's age);
* (c) the record exactly `mtimeInterval` in the future: due — (d) 1 ns less: not due, nothing changes;
* (e) at a due trim, an entry whose mtime is exactly the cutoff is kept — (f) 1 ns older: removed. -/
theorem trim_boundaries_exact :
    (Gen.Cache.trimInterval = 24 * hour ∧ Gen.Cache.mtimeInterval = 1 * hour ∧ Gen.Cache.trimLimit = 5 * day ∧
      ∀ now, Gen.Cache.cutoff now = now - (5 * day + 1 * hour)) ∧
    (∀ m, trimNotDue (bCache m) (9 * day + Gen.Cache.trimInterval) = false) ∧
    (∀ m, trimNotDue (bCache m) (9 * day + Gen.Cache.trimInterval - 1) = true ∧
      trim (bCache m) (9 * day + Gen.Cache.trimInterval - 1) = bCache m) ∧
    (∀ m, trimNotDue (bCache m) (9 * day - Gen.Cache.mtimeInterval) = false) ∧
    (∀ m, trimNotDue (bCache m) (9 * day - Gen.Cache.mtimeInterval + 1) = true ∧
      trim (bCache m) (9 * day - Gen.Cache.mtimeInterval + 1) = bCache m) ∧
    (trim (bCache (Gen.Cache.cutoff (10 * day))) (10 * day)).get bEntry = some ⟨[1], Gen.Cache.cutoff (10 * day)⟩ ∧
    (trim (bCache (Gen.Cache.cutoff (10 * day) - 1)) (10 * day)).get bEntry = none := by
  have hT : Gen.Cache.trimInterval = day := durations.2.1
  have hM : Gen.Cache.mtimeInterval = hour := durations.1
  have all := fun (m now : Int) (h0 : 0 ≤ now) (h1 : now < 2 ^ 63) =>
    trim_due_all_records (bCache m) now 777600 h0 h1 (bCache_record m)
  have hdue10 : ∀ m, trimNotDue (bCache m) (10 * day) = false := by
    intro m
    rw [Bool.eq_false_iff, Ne, (all m (10 * day) (by decide) (by decide)).1]
    decide
  refine ⟨⟨by rw [hT]; decide, by rw [hM]; decide, durations.2.2.1, fun now => by rw [cutoff_eq]; omega⟩, ?_, ?_, ?_, ?_, ?_, ?_⟩
  · intro m
    rw [hT, Bool.eq_false_iff, Ne, (all m (9 * day + day) (by decide) (by decide)).1]
    decide
  · intro m
    rw [hT]
    have hc : -hour < 9 * day + day - 1 - 777600 * second ∧ 9 * day + day - 1 - 777600 * second < day := by decide
    exact ⟨(all m _ (by decide) (by decide)).1.mpr hc, (all m _ (by decide) (by decide)).2.1 hc⟩
  · intro m
    rw [hM, Bool.eq_false_iff, Ne, (all m (9 * day - hour) (by decide) (by decide)).1]
    decide
  · intro m
    rw [hM]
    have hc : -hour < 9 * day - hour + 1 - 777600 * second ∧ 9 * day - hour + 1 - 777600 * second < day := by decide
    exact ⟨(all m _ (by decide) (by decide)).1.mpr hc, (all m _ (by decide) (by decide)).2.1 hc⟩
  · exact trim_keeps_recent _ _ (by decide) bEntry _ (by decide) (bCache_entry _) (by rw [cutoff_eq]; exact Int.le_refl _)
  · exact trim_removes_stale _ _ (by decide) (hdue10 _) bEntry _ (by decide) (bCache_entry _)
      (by rw [cutoff_eq]; show 10 * day - 5 * day - hour - 1 < 10 * day - 5 * day - hour; omega)

/-- the boundary facts are about different verdicts on neighbouring instants (non-vacuity of the pairs). -/
example : trimNotDue (bCache 0) (10 * day) ≠ trimNotDue (bCache 0) (10 * day - 1) := by
  have h := trim_boundaries_exact
  have hT : Gen.Cache.trimInterval = day := durations.2.1
  have e : (9 * day + day : Int) = 10 * day := by decide
  rw [hT, e] at h
  rw [h.2.1 0, (h.2.2.1 0).1]
  decide

end GIV.C13
