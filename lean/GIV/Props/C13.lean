import GIV.Model.Cache
namespace GIV.C13
open GIV GIV.Cache

theorem trimLimit_eq : Gen.Cache.trimLimit = 5 * 24 * 3600 * 1000000000 := by decide

end GIV.C13
