/-
  C03 — txtar: Parse is total and Format/Parse round-trips.

  Property theorems about the model `GIV.Model.Txtar` (tied to /repo/txtar/archive.go by the
  correspondence run and by the generated facts in `GIV.Gen.Txtar`).  The proofs are in
  `GIV/Lemmas/Txtar*.lean`, where the regenerated facts are hypotheses (`FLen`: length guard in
  isMarker, `FCR`: '\r' stripped at end of input too, `FLit`: the marker literals).  Each theorem
  below discharges the facts it needs from `Gen.Txtar.*` by `⟨rfl⟩`/`⟨rfl, rfl⟩`, so a changed
  fact breaks exactly the theorems that depend on it.
-/
import GIV.Lemmas.TxtarQuote
import GIV.Lemmas.TxtarCRLF
import GIV.Lemmas.TxtarIdxLoop
import GIV.Lemmas.TxtarGoLoop
import GIV.Lemmas.XTxtarGo

namespace GIV.C03
open GIV GIV.Txtar

/-! ### vocabulary of the statement -/

/-- A marker line: a line of `splitLines` on which `isMarker` yields a non-empty name. -/
def IsMarkerLine (l : Line) : Prop := ∃ n, markerName l = some n ∧ n ≠ []

/-- Comment / file contents: empty or newline-terminated, and free of marker lines. -/
def ContentOK (b : Bytes) : Prop :=
  (b = [] ∨ b.getLast? = some NL) ∧ ¬ ∃ l ∈ splitLines b, IsMarkerLine l

/-- Well-formed archive, as in the property statement: non-empty trimmed names without newlines;
contents (and the comment) empty or newline-terminated and free of marker lines. -/
def WellFormed (a : Archive) : Prop :=
  ContentOK a.comment ∧
  ∀ f ∈ a.files, (f.name ≠ [] ∧ trimSpace f.name = f.name ∧ NL ∉ f.name) ∧ ContentOK f.data

theorem wellFormed_iff (a : Archive) : WellFormed a ↔ WF a := Iff.rfl

instance (a : Archive) : Decidable (WellFormed a) := decidable_of_iff _ (wellFormed_iff a).symm

example : WellFormed ⟨lit "c\n", [⟨lit "a b", lit "x\n"⟩, ⟨lit "b", []⟩]⟩ := by decide +kernel
example : ¬ WellFormed ⟨lit "c\n", [⟨lit "a b", lit "-- x --\n"⟩]⟩ := by decide +kernel
example : ¬ WellFormed ⟨lit "c", []⟩ := by decide +kernel
example : ¬ WellFormed ⟨[], [⟨lit " a", []⟩]⟩ := by decide +kernel

/-! ### fixNL -/

theorem fixNL_idem (b : Bytes) : fixNL (fixNL b) = fixNL b := Txtar.fixNL_idem b

example : fixNL (lit "a") = lit "a\n" := by decide +kernel

/-! ### totality -/

/-- `Parse` never panics (uses `Gen.Txtar.lenGuard`: without the length guard `"-- --"` panics). -/
theorem parse_total : ∀ d, (parse d).isSome := by
  have : FLen := ⟨rfl⟩
  intro d
  obtain ⟨a, h⟩ := parseLines_total (splitLines d) []
  simp [parse, h]

example : parse (lit "-- --") = some ⟨lit "-- --\n", []⟩ := by decide +kernel

/-! ### round trips -/

/-- What `Parse` returns is well-formed. -/
theorem parse_wellFormed : ∀ d a, parse d = some a → WellFormed a :=
  have : FLen := ⟨rfl⟩; have : FCR := ⟨rfl⟩; have : FLit := ⟨rfl, rfl⟩
  fun _ _ h => parse_wf h

/-- `Parse (Format a) = a` for every well-formed archive. -/
theorem format_parse_wf : ∀ a, WellFormed a → parse (format a) = some a :=
  have : FLen := ⟨rfl⟩; have : FLit := ⟨rfl, rfl⟩
  fun _ h => parse_format_of_wf h

example : parse (format ⟨lit "c\n", [⟨lit "a b", lit "x\n"⟩, ⟨lit "b", []⟩]⟩)
    = some ⟨lit "c\n", [⟨lit "a b", lit "x\n"⟩, ⟨lit "b", []⟩]⟩ := by decide +kernel
example : refParse (lit "x\n-- a --\ny") = ⟨lit "x\n", [⟨lit "a", lit "y\n"⟩]⟩ := by decide +kernel

/-- Re-parse stability: `Parse (Format (Parse d)) = Parse d` (uses `Gen.Txtar.crAtEOF`: a final
`"-- a --\r"` must be a marker line, because `fixNL` turns it into a CRLF marker line). -/
theorem parse_format_parse : ∀ d a, parse d = some a → parse (format a) = some a :=
  fun d a h => format_parse_wf a (parse_wellFormed d a h)

example : parse (lit "-- a --\r") = some ⟨[], [⟨lit "a", []⟩]⟩ := by decide +kernel
example : parse (lit "x\n-- a --\r\ny") = some ⟨lit "x\n", [⟨lit "a", lit "y\n"⟩]⟩ := by decide +kernel

/-! ### reference definition -/

/-- On input without carriage returns the result is that of golang.org/x/tools/txtar. -/
theorem parse_agrees_ref : ∀ d, CR ∉ d → parse d = some (refParse d) :=
  have : FLen := ⟨rfl⟩
  fun _ h => parse_eq_ref h

example : CR ∉ lit "x\n-- a --\ny" := by decide +kernel

/-- A marker line ending in CRLF is recognised exactly like the same line ending in LF: the
result of `isMarker` on `body ++ "\r\n"` is that on `body ++ "\n"`.  (`body` is the line
without the `\r`; if `body` itself ended in `\r` the two lines would be `…\r\r\n` and `…\r\n`,
of which only one `\r` is stripped, hence the side condition.) -/
theorem marker_crlf : ∀ (body : Bytes), body.getLast? ≠ some CR →
    markerName ⟨body ++ [CR], true⟩ = markerName ⟨body, true⟩ :=
  have : FLit := ⟨rfl, rfl⟩
  fun body h => marker_crlf_nl body h

example : (lit "-- a --").getLast? ≠ some CR := by decide +kernel
example : markerName ⟨lit "-- a --" ++ [CR], true⟩ = some (lit "a") := by decide +kernel

/-- Observable form: turning the LF of a marker line (anywhere in an archive: after a prefix
`pre` of whole lines, before any `rest`) into CRLF does not change what `Parse` returns. -/
theorem parse_marker_crlf : ∀ (pre body rest : Bytes), (pre = [] ∨ pre.getLast? = some NL) →
    NL ∉ body → body.getLast? ≠ some CR → IsMarkerLine ⟨body, true⟩ →
    parse (pre ++ (body ++ CR :: NL :: rest)) = parse (pre ++ (body ++ NL :: rest)) :=
  have : FLit := ⟨rfl, rfl⟩
  fun _ _ rest hpre hb hcr hm => Txtar.parse_marker_crlf rest hpre hb hcr hm

example : IsMarkerLine ⟨lit "--  a b  --", true⟩ := ⟨lit "a b", by decide +kernel, by decide +kernel⟩

/-- The same at end of input, where the final newline is missing ("considered present"). -/
theorem marker_crlf_eof : ∀ (body : Bytes) (nl : Bool), body.getLast? ≠ some CR →
    markerName ⟨body ++ [CR], nl⟩ = markerName ⟨body, nl⟩ :=
  have : FLit := ⟨rfl, rfl⟩; have : FCR := ⟨rfl⟩
  fun body nl h => marker_crlf_any body h nl

example : markerName ⟨lit "-- a --" ++ [CR], false⟩ = some (lit "a") := by decide +kernel

/-! ### tie to the Go code: the index form

`GIV.Model.TxtarIdx` transcribes archive.go statement by statement (offset `i`, `data[i:]`,
`bytes.Index(data[i:], "\n-- ")`, `i += j+1`, checked slices, the `for name != ""` loop); it is what
the model driver executes and what the correspondence run compares with the Go code.  The theorems
above are about the line-structured `parse`; these theorems say the two are the same function
(for every value of `lenGuard` / `crAtEOF`; only the three literals are used). -/

/-- The index-form `Parse` is the line-structured `parse` (panics included). -/
theorem index_form_agrees : ∀ d, parseIdx d = parse d :=
  have : FLit := ⟨rfl, rfl⟩; have : FNLM := ⟨rfl⟩
  parseIdx_eq

example : parseIdx (lit "x\n-- a --\r\ny\n-- b --") = some ⟨lit "x\n", [⟨lit "a", lit "y\n"⟩, ⟨lit "b", []⟩]⟩ := by
  decide +kernel

/-- … and so is its `findFileMarker` (in particular the loop's fuel `len(data)+1` suffices). -/
theorem findFileMarker_index_form_agrees : ∀ d,
    findFileMarkerIdx d = (findFM (splitLines d) []).map Found.toIdx :=
  have : FLit := ⟨rfl, rfl⟩; have : FNLM := ⟨rfl⟩
  findFileMarkerIdx_eq

example : findFileMarkerIdx (lit "x\ny\n-- a --\nz") = some (lit "x\ny\n", lit "a", some (lit "z")) := by
  decide +kernel

/-- … and the index form of `isMarker` on "first line `l`, then `rest`" is `markerName l`. -/
theorem isMarker_index_form_agrees : ∀ (l : Line) (rest : Bytes), NL ∉ l.body →
    (l.nl = false → rest = []) → (isMarkerIdx (l.bytes ++ rest)).map Prod.fst = markerName l :=
  have : FLit := ⟨rfl, rfl⟩
  isMarkerIdx_eq

example : isMarkerIdx (lit "--  a  --\r\nrest") = some (lit "a", some (lit "rest")) := by decide +kernel

/-- The index form of x/tools' `Parse` (the reference) never panics and is `refParse`. -/
theorem ref_index_form_agrees : ∀ d, refParseIdx d = some (refParse d) :=
  have : FLit := ⟨rfl, rfl⟩; have : FNLM := ⟨rfl⟩
  refParseIdx_eq

example : refParseIdx (lit "-- a --\r\ny") = some ⟨lit "-- a --\r\ny\n", []⟩ := by decide +kernel

/-- Hence the property theorems hold of the index form, e.g. totality and re-parse stability. -/
theorem parseIdx_total : ∀ d, (parseIdx d).isSome :=
  fun d => index_form_agrees d ▸ parse_total d

theorem parseIdx_format_parseIdx : ∀ d a, parseIdx d = some a → parseIdx (format a) = some a :=
  fun d a h => by
    rw [index_form_agrees] at h ⊢
    exact parse_format_parse d a h

/-! ### tie to the Go code: the regenerated translation

`GIV.Gen.TxtarGo` is *generated* on every check run from /repo/txtar/archive.go by the Go→Lean
translator (harness/internal/go2lean): `GIV.Go.Txtar.Parse`, `findFileMarker`, `isMarker`, `fixNL`
are the Go functions, statement by statement, in the Option monad (`none` = a Go panic or an
exhausted loop budget).  `GIV/Lemmas/TxtarGo*.lean` prove them equal to the index form for all
inputs; so the property theorems hold of the code the translator read from the source now. -/

open GIV.TxtarGo in
/-- The translated `Parse` is the model's `parse` (panics and loop budget included). -/
theorem go_Parse_agrees : ∀ d, GIV.Go.Txtar.Parse d = (parse d).map toGoArchive :=
  have : FLit := ⟨rfl, rfl⟩; have : FNLM := ⟨rfl⟩
  fun d => by rw [Parse_eq, parseIdx_eq]

example : GIV.Go.Txtar.Parse (lit "x\n-- a --\r\ny\n-- b --") =
    some ⟨lit "x\n", [⟨lit "a", lit "y\n"⟩, ⟨lit "b", []⟩]⟩ := by decide +kernel

open GIV.TxtarGo in
/-- … and so are its `findFileMarker`, `isMarker` and `fixNL`. -/
theorem go_helpers_agree : ∀ d,
    GIV.Go.Txtar.findFileMarker d = (findFileMarkerIdx d).map toGo3 ∧
    GIV.Go.Txtar.isMarker d = (isMarkerIdx d).map optB ∧
    GIV.Go.Txtar.fixNL d = some (fixNL d) :=
  fun d => ⟨findFileMarker_eq d, isMarker_eq d, fixNL_eq d⟩

/-- The translated `Parse` never panics and never runs out of its loop budget. -/
theorem go_Parse_total : ∀ d, (GIV.Go.Txtar.Parse d).isSome := by
  intro d
  rw [go_Parse_agrees]
  have := parse_total d
  cases h : parse d with
  | none => rw [h] at this; cases this
  | some a => rfl

open GIV.TxtarGo in
/-- Re-parse stability of the translated `Parse`: `Parse (Format (Parse d)) = Parse d`. -/
theorem go_Parse_format_Parse : ∀ d g, GIV.Go.Txtar.Parse d = some g →
    GIV.Go.Txtar.Parse (format (ofGoArchive g)) = some g := by
  intro d g h
  rw [go_Parse_agrees] at h
  cases hp : parse d with
  | none => rw [hp] at h; cases h
  | some a =>
    rw [hp] at h
    simp only [Option.map_some, Option.some.injEq] at h
    subst h
    rw [ofGo_toGo, go_Parse_agrees, parse_format_parse d a hp]
    rfl

open GIV.TxtarGo in
/-- `Parse (Format a) = a` for every well-formed archive, for the translated `Parse`. -/
theorem go_format_Parse_wf : ∀ a, WellFormed a → GIV.Go.Txtar.Parse (format a) = some (toGoArchive a) := by
  intro a h
  rw [go_Parse_agrees, format_parse_wf a h]
  rfl

/-! ### the reference itself, translated from the library source

The property compares /repo's `Parse` with "the reference definition of the format
(golang.org/x/tools/txtar)" and round-trips through x/tools' `Format`.  `refParse` and `format` above
are the model's transcriptions of those library functions.  `GIV.Gen.XTxtarGo` is *generated* on every
check run from `txtar/archive.go` of the x/tools version /repo's go.mod requires (the module-cache copy
the harness and /repo are built against): `GIV.Go.XTxtar.Parse` / `findFileMarker` / `isMarker` /
`fixNL` are the REFERENCE parser (no carriage-return handling), `GIV.Go.XTxtar.Format` is the
`bytes.Buffer` / `fmt.Fprintf(&buf, "-- %s --\n", f.Name)` loop.  `GIV/Lemmas/XTxtarGo.lean` proves them
equal to the model's reference definitions for all inputs, so the two clauses of the property can be
stated with BOTH sides translated from source. -/

/-- The translated x/tools `Parse` is the model's reference parser `refParse` (in particular it never
panics and its loop budgets suffice), and the translated x/tools `Format` is the model's `format`
(no index, slice or `make` in it ever fails) — for every byte string and every archive. -/
theorem go_reference_agrees :
    (∀ d, GIV.Go.XTxtar.Parse d = some (XTxtarGo.toGoArchive (refParse d))) ∧
    (∀ a, GIV.Go.XTxtar.Format (XTxtarGo.toGoArchive a) = some (format a)) ∧
    (∀ g, GIV.Go.XTxtar.Format g = some (format (XTxtarGo.ofGoArchive g))) :=
  have : FLit := ⟨rfl, rfl⟩; have : FNLM := ⟨rfl⟩
  ⟨XTxtarGo.Parse_eq_ref, XTxtarGo.Format_toGo, XTxtarGo.Format_eq⟩

example : GIV.Go.XTxtar.Parse (lit "x\n-- a --\ny") = some ⟨lit "x\n", [⟨lit "a", lit "y\n"⟩]⟩ := by decide +kernel
example : GIV.Go.XTxtar.Format ⟨lit "c", [⟨lit "a b", lit "x"⟩, ⟨lit "b", []⟩]⟩ =
    some (lit "c\n-- a b --\nx\n-- b --\n") := by decide +kernel

open GIV.TxtarGo in
/-- … and so are the reference's `findFileMarker`, `isMarker` and `fixNL`, against the index form of
the reference (`refIsMarkerIdx`, the generic `findFileMarkerG`; `ref_index_form_agrees`). -/
theorem go_reference_helpers_agree : ∀ d,
    GIV.Go.XTxtar.Parse d = (refParseIdx d).map XTxtarGo.toGoArchive ∧
    GIV.Go.XTxtar.findFileMarker d = (findFileMarkerG refIsMarkerIdx d).map toGo3 ∧
    GIV.Go.XTxtar.isMarker d = (refIsMarkerIdx d).map optB ∧
    GIV.Go.XTxtar.fixNL d = some (fixNL d) :=
  have : FLit := ⟨rfl, rfl⟩; have : FNLM := ⟨rfl⟩
  fun d => ⟨XTxtarGo.Parse_eq d, XTxtarGo.findFileMarker_eq d, XTxtarGo.isMarker_eq d, XTxtarGo.fixNL_eq d⟩

example : GIV.Go.XTxtar.isMarker (lit "--  a  --\r\nrest") = some ([], []) := by decide +kernel
example : GIV.Go.XTxtar.isMarker (lit "--  a  --\nrest") = some (lit "a", lit "rest") := by decide +kernel

/-- Clause "agrees with the reference", both sides translated from source: on input without carriage
returns /repo's `Parse` and x/tools' `Parse` both return, and return the same archive. -/
theorem go_Parse_matches_reference : ∀ d, CR ∉ d →
    ∃ a, GIV.Go.Txtar.Parse d = some (TxtarGo.toGoArchive a) ∧
         GIV.Go.XTxtar.Parse d = some (XTxtarGo.toGoArchive a) := by
  intro d h
  refine ⟨refParse d, ?_, go_reference_agrees.1 d⟩
  rw [go_Parse_agrees, parse_agrees_ref d h]
  rfl

/-- The same, read through the field-wise conversions to the model's `Archive`. -/
theorem go_Parse_matches_reference_fields : ∀ d, CR ∉ d →
    (GIV.Go.Txtar.Parse d).map TxtarGo.ofGoArchive = (GIV.Go.XTxtar.Parse d).map XTxtarGo.ofGoArchive := by
  intro d h
  obtain ⟨a, h1, h2⟩ := go_Parse_matches_reference d h
  rw [h1, h2, Option.map_some, Option.map_some, TxtarGo.ofGo_toGo, XTxtarGo.ofGo_toGo]

/-- with a CRLF marker line the two parsers differ (which is why the clause excludes carriage returns): -/
example : GIV.Go.Txtar.Parse (lit "x\n-- a --\r\ny") = some ⟨lit "x\n", [⟨lit "a", lit "y\n"⟩]⟩ := by decide +kernel
example : GIV.Go.XTxtar.Parse (lit "x\n-- a --\r\ny") = some ⟨lit "x\n-- a --\r\ny\n", []⟩ := by decide +kernel
example : CR ∈ lit "x\n-- a --\r\ny" := by decide +kernel
/-- … and without one they agree: -/
example : (GIV.Go.Txtar.Parse (lit "x\n-- a --\ny\n-- b --")).map TxtarGo.ofGoArchive =
    (GIV.Go.XTxtar.Parse (lit "x\n-- a --\ny\n-- b --")).map XTxtarGo.ofGoArchive := by decide +kernel

/-- Clause "Format/Parse round trip", every function translated from source: for the archive `g` that
/repo's `Parse` returns on any input, x/tools' `Format` succeeds on it (`xGo`: /repo's `Archive` is an
alias of the library's) and /repo's `Parse` of the formatted bytes yields `g` again — the same comment,
the same names, the same data. -/
theorem go_Parse_Format_roundtrip : ∀ d g, GIV.Go.Txtar.Parse d = some g →
    ∃ b, GIV.Go.XTxtar.Format (XTxtarGo.xGo g) = some b ∧ GIV.Go.Txtar.Parse b = some g :=
  fun d g h => ⟨_, XTxtarGo.Format_xGo g, go_Parse_format_Parse d g h⟩

example : (GIV.Go.Txtar.Parse (lit "c\r\n-- a b --\r\nx\n-- b --\r")).bind
      (fun g => (GIV.Go.XTxtar.Format (XTxtarGo.xGo g)).bind GIV.Go.Txtar.Parse) =
    some ⟨lit "c\r\n", [⟨lit "a b", lit "x\n"⟩, ⟨lit "b", []⟩]⟩ := by decide +kernel

/-- `Parse (Format a) = a` for every well-formed archive, `Format` and `Parse` translated from source. -/
theorem go_Format_Parse_wf : ∀ a, WellFormed a →
    ∃ b, GIV.Go.XTxtar.Format (XTxtarGo.toGoArchive a) = some b ∧
         GIV.Go.Txtar.Parse b = some (TxtarGo.toGoArchive a) :=
  fun a h => ⟨_, go_reference_agrees.2.1 a, go_format_Parse_wf a h⟩

example : (GIV.Go.XTxtar.Format ⟨lit "c\n", [⟨lit "a b", lit "x\n"⟩, ⟨lit "b", []⟩]⟩).bind GIV.Go.Txtar.Parse =
    some ⟨lit "c\n", [⟨lit "a b", lit "x\n"⟩, ⟨lit "b", []⟩]⟩ := by decide +kernel

end GIV.C03
