import GIV.Model.Txtar
namespace GIV.C03
open GIV GIV.Txtar

theorem fixNL_idem (b : Bytes) : fixNL (fixNL b) = fixNL b := by
  unfold fixNL
  split <;> simp_all

end GIV.C03
