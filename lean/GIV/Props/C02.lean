/-
  C02 — testscript word splitting, quoting and variable expansion are exact.

  All theorems are about the executable model GIV.Model.ScriptParse (`parseLine` = (*TestScript).parse,
  `expand`, `TS.setenv`/`cmdEnv`, `TS.childEnv`), for every environment, every line and every
  assignment history.  The tokenizer constants (blank bytes, comment byte, quote byte), the
  doubled-quote rule, which chunks are expanded, the "@R" suffix and the bytes QuoteMeta escapes are
  the regenerated definitions of GIV.Gen.Script: the proofs go through `isBlank_iff`, `isComment_iff`,
  `quoteChar_eq`, `chunkText_*`, `expandMapping_*`, so a change of any of them in the source breaks
  a named theorem here.

  Byte values used in statements: 32 ' ', 9 tab, 13 CR, 10 newline, 35 '#', 36 '$', 39 quote,
  61 '=', 64 '@', 82 'R', 123 '{', 125 '}'.
-/
import GIV.Lemmas.ScriptLine
import GIV.Lemmas.ScriptIdx
import GIV.Lemmas.ScriptExpandIdx
import GIV.Lemmas.ScriptEnv
import GIV.Lemmas.ScriptRegex
import GIV.Lemmas.ScriptGo
import GIV.Lemmas.OsExpandGo
namespace GIV.C02
open GIV GIV.Script

/-! ### the constants are the property's -/

/-- Arguments are separated by space, tab (and CR); '#' starts a comment; the quote is the single quote. -/
theorem constants :
    (∀ c, isBlank c = true ↔ (c = 32 ∨ c = 9 ∨ c = 13)) ∧ (∀ c, isComment c = true ↔ c = 35) ∧ quoteChar = 39 :=
  ⟨isBlank_iff, isComment_iff, quoteChar_eq⟩

example : isBlank 32 = true ∧ isBlank 9 = true ∧ isComment 35 = true ∧ isBlank 97 = false := by decide

/-! ### the model that is run against the implementation is the model of the theorems -/

/-- The index form of the tokenizer (`parseIdx`: the Go loop with `i`, `start = -1 | index`, `quoted`,
chunks as slices `line[start:i]`, the `i++` over a doubled quote), which is what the model driver
executes in the correspondence run, is the same function as the structural form `parseLine` that all
theorems below are stated for. -/
theorem index_form_agrees (env : Env) (line : Bytes) : parseIdx env line = parseLine env line :=
  parseIdx_eq env line

example : parseIdx [([88], [118])] [97, 32, 39, 98, 39, 39, 99, 39, 36, 88] = .ok [[97], [98, 39, 99, 118]] := by rfl

/-- Likewise for os.Expand: its index form (`osExpandIdx`: Go's `j`, `i`, `buf`, `s[i:j]`, getShellName's
scanning loops), which the driver runs against the real os.Expand, never panics and is the structural
`osExpand` that `expand` is defined with. -/
theorem expand_index_form_agrees (s : Bytes) (m : Bytes → Bytes) : osExpandIdx s m = some (osExpand s m) :=
  osExpandIdx_eq s m

example : osExpandIdx [97, 36, 123, 75, 125, 36, 123, 36] (fun k => if k = [75] then [118] else []) = some [97, 118, 36] := by rfl

/-! ### quoting -/

/-- `quotedLine ws` (GIV.Lemmas.ScriptLine): the words, each as `sq w` = quote, `w` with every quote
doubled, quote — joined by one space. -/
theorem quotedLine_def (ws : List Bytes) :
    quotedLine ws = [32].intercalate (ws.map fun w => 39 :: (w.flatMap (fun c => if c = 39 then [c, c] else [c]) ++ [39])) := rfl

/-- **Quoting law.**  Any words (any bytes: blanks, tabs, CR, '#', '$', quotes — a script line cannot
contain a newline, which is the only reason for the hypothesis), each written in single quotes with
quotes doubled and separated by a space, come back as exactly these words: one argument each,
nothing expanded, nothing split, nothing dropped (an empty word is an empty argument). -/
theorem quote_law (env : Env) (ws : List Bytes) (_hnl : ∀ w ∈ ws, NL ∉ w) (_hne : ws ≠ []) :
    parseLine env (quotedLine ws) = .ok ws := by
  simpa [parseLine] using quote_law_aux env ws []

/-- The same without side conditions (the tokenizer itself does not care about newlines). -/
theorem quote_law_all (env : Env) (ws : List Bytes) : parseLine env (quotedLine ws) = .ok ws := by
  simpa [parseLine] using quote_law_aux env ws []

-- `'a b' '#$X' 'it''s' ''`  with X bound:  four arguments, verbatim
example : parseLine [([88], [118])] (quotedLine [[97, 32, 98], [35, 36, 88], [105, 116, 39, 115], []])
    = .ok [[97, 32, 98], [35, 36, 88], [105, 116, 39, 115], []] := by
  exact quote_law _ _ (by decide) (by decide)

example : quotedLine [[105, 116, 39, 115], []] = [39, 105, 116, 39, 39, 115, 39, 32, 39, 39] := by decide

/-- At script level: the run loop cuts the script at the first newline, so a quoted line followed by
a newline is exactly the line that gets parsed. -/
theorem quote_law_in_script (env : Env) (ws : List Bytes) (hnl : ∀ w ∈ ws, NL ∉ w) (rest : Bytes) :
    (nextLine (quotedLine ws ++ NL :: rest)).1 = quotedLine ws ∧
    (nextLine (quotedLine ws ++ NL :: rest)).2 = rest ∧
    parseLine env (nextLine (quotedLine ws ++ NL :: rest)).1 = .ok ws := by
  have hline : ∀ (l : Bytes), NL ∉ l → nextLine (l ++ NL :: rest) = (l, rest) := by
    intro l hl
    induction l with
    | nil => simp [nextLine]
    | cons c l ih =>
      have hc : c ≠ NL := fun h => hl (by simp [h])
      have := ih (fun h => hl (by simp [h]))
      simp [nextLine, hc, this]
  have hsq : ∀ w : Bytes, NL ∉ w → NL ∉ sq w := by
    intro w hw h
    simp only [sq, List.mem_cons, List.mem_append, List.mem_nil_iff, or_false] at h
    have hd : NL ∉ dq w := by
      intro hm
      simp only [dq, List.mem_flatMap] at hm
      obtain ⟨c, hc, hm⟩ := hm
      have : NL = c := by
        by_cases hq : c = quoteChar
        · rw [if_pos hq] at hm; simpa using hm
        · rw [if_neg hq] at hm; simpa using hm
      exact hw (this ▸ hc)
    rcases h with h | h | h
    · revert h; decide
    · exact hd h
    · revert h; decide
  have hq : NL ∉ quotedLine ws := by
    induction ws with
    | nil => simp [quotedLine, List.intercalate]
    | cons w ws ih =>
      cases ws with
      | nil =>
        have : quotedLine [w] = sq w := by simp [quotedLine, List.intercalate]
        rw [this]; exact hsq w (hnl w (by simp))
      | cons w2 ws =>
        rw [quotedLine_cons₂]
        intro h
        rcases List.mem_append.1 h with h | h
        · exact hsq w (hnl w (by simp)) h
        · rcases List.mem_cons.1 h with h | h
          · revert h; decide
          · exact ih (fun x hx => hnl x (by simp [hx])) h
  rw [hline _ hq]
  exact ⟨rfl, rfl, quote_law_all env ws⟩

example : (nextLine ([39, 97, 39] ++ NL :: [98])).1 = [39, 97, 39] := by decide

/-! ### splitting -/

/-- A word of unquoted text with nothing special in it: no blank, '#', quote or '$'. -/
def PlainWord (w : Bytes) : Prop := w ≠ [] ∧ ∀ c ∈ w, Ordinary c ∧ c ≠ DOLLAR

instance (w : Bytes) : Decidable (PlainWord w) := by unfold PlainWord; infer_instance

/-- **Splitting, with expansion.**  A line made of blank runs and unquoted words (free of blanks, '#'
and quotes) — the runs between words non-empty, a run of blanks or nothing at the end — parses to
the expansion of exactly these words. -/
theorem split_expand_law (env : Env) (pairs : List (Bytes × Bytes)) (trail : Bytes)
    (hp : ∀ p ∈ pairs, AllBlank p.1 ∧ p.2 ≠ [] ∧ AllOrdinary p.2)
    (hsep : ∀ p ∈ pairs.tail, p.1 ≠ []) (ht : AllBlank trail) :
    parseLine env (pairs.flatMap (fun p => p.1 ++ p.2) ++ trail) = .ok (pairs.map fun p => expand env p.2) := by
  have h := tok_line env trail ⟨trail, ht, Or.inl rfl⟩ (pairs.map fun p => (p.1, [Seg.raw p.2]))
    (by
      intro q hq
      obtain ⟨p, hpm, rfl⟩ := List.mem_map.1 hq
      obtain ⟨h1, h2, h3⟩ := hp p hpm
      exact ⟨h1, by simp, ⟨h2, h3⟩⟩)
    (by
      intro q hq
      rw [← List.map_tail] at hq
      obtain ⟨p, hpm, rfl⟩ := List.mem_map.1 hq
      exact hsep p hpm)
    []
  have hr : renderToks (pairs.map fun p => (p.1, [Seg.raw p.2])) = pairs.flatMap (fun p => p.1 ++ p.2) := by
    simp [renderToks, renderSegs, Seg.render, List.flatMap_map]
  rw [hr] at h
  simpa [parseLine, valueSegs, Seg.value, List.map_map, Function.comp_def] using h

/-- **Splitting.**  Unquoted text without '$' is split exactly at its maximal runs of blanks:
leading, trailing and repeated blanks produce no (empty) arguments and the words are unchanged. -/
theorem split_law (env : Env) (pairs : List (Bytes × Bytes)) (trail : Bytes)
    (hp : ∀ p ∈ pairs, AllBlank p.1 ∧ PlainWord p.2)
    (hsep : ∀ p ∈ pairs.tail, p.1 ≠ []) (ht : AllBlank trail) :
    parseLine env (pairs.flatMap (fun p => p.1 ++ p.2) ++ trail) = .ok (pairs.map fun p => p.2) := by
  rw [split_expand_law env pairs trail
    (fun p hpm => ⟨(hp p hpm).1, (hp p hpm).2.1, fun c hc => ((hp p hpm).2.2 c hc).1⟩) hsep ht]
  congr 1
  apply List.map_congr_left
  intro p hpm
  exact expand_plain env p.2 (fun c hc => ((hp p hpm).2.2 c hc).2)

-- "\t ab  c\r" : two words
example : parseLine [] ([([9, 32], [97, 98]), ([32, 32], [99])].flatMap (fun p => p.1 ++ p.2) ++ [13])
    = .ok [[97, 98], [99]] := by
  apply split_law <;> decide

-- " $X\tb" with X = `p q`: two arguments, the first is the (unsplit) value
example : parseLine [([88], [112, 32, 113])] ([([32], [36, 88]), ([9], [98])].flatMap (fun p => p.1 ++ p.2) ++ [])
    = .ok [[112, 32, 113], [98]] := by
  have h := split_expand_law [([88], [112, 32, 113])] [([32], [36, 88]), ([9], [98])] [] (by decide) (by decide) (by decide)
  rw [h]; rfl

/-- A line of blanks only has no arguments. -/
theorem blank_line (env : Env) (b : Bytes) (hb : AllBlank b) : parseLine env b = .ok [] :=
  tok_tail env b ⟨b, hb, Or.inl rfl⟩ []

example : parseLine [] [32, 9, 13, 32] = .ok [] := blank_line _ _ (by decide)

/-! ### comments and unterminated quotes -/

/-- **An unquoted '#' ends the line.**  If the text before it leaves the scan outside quotes
(`unbalanced s false = false`: two-state scan toggling at every quote), everything from the
'#' on is ignored. -/
theorem hash_ends (env : Env) (s t : Bytes) (hs : unbalanced s false = false) :
    parseLine env (s ++ 35 :: t) = parseLine env s :=
  tok_comment_cut env 35 t (by decide) s.length s (Nat.le_refl _) [] [] none false (by simp) hs

/-- A quoted '#' is literal (instance of the quoting law). -/
theorem hash_quoted (env : Env) (u v : Bytes) : parseLine env (sq (u ++ 35 :: v)) = .ok [u ++ 35 :: v] := by
  have := quote_law_all env [u ++ 35 :: v]
  simpa [quotedLine, List.intercalate] using this

-- `a 'b' # 'x`  =  `a 'b' `   (the unbalanced quote after '#' is not even looked at)
example : parseLine [] ([97, 32, 39, 98, 39, 32] ++ 35 :: [32, 39, 120]) = .ok [[97], [98]] := by
  rw [hash_ends _ _ _ (by decide)]; rfl

example : parseLine [] (sq [97, 35, 98]) = .ok [[97, 35, 98]] := hash_quoted [] [97] [98]

/-- **Unterminated quotes.**  The line is rejected (`ts.Fatalf("unterminated quoted argument")`) exactly
when the two-state scan ends inside quotes; otherwise it parses (and never panics). -/
theorem unterminated (env : Env) (s : Bytes) :
    (parseLine env s = .error .unterminated ↔ unbalanced s false = true) ∧
    (unbalanced s false = false → ∃ args, parseLine env s = .ok args) := by
  rcases tok_balance env s.length s (Nat.le_refl _) [] [] none false (by simp) with ⟨h1, h2⟩ | ⟨l, h1, h2⟩
  · exact ⟨⟨fun _ => h2, fun _ => h1⟩, fun h => by rw [h2] at h; exact absurd h (by simp)⟩
  · refine ⟨⟨fun h => ?_, fun h => by rw [h2] at h; exact absurd h (by simp)⟩, fun _ => ⟨l, h1⟩⟩
    rw [parseLine, h1] at h
    exact absurd h (by simp)

/-- On a line without '#': rejected exactly when the number of quote bytes is odd. -/
theorem unterminated_parity (env : Env) (s : Bytes) (hs : ∀ c ∈ s, c ≠ 35) :
    parseLine env s = .error .unterminated ↔ s.count 39 % 2 = 1 := by
  have hc : ∀ c ∈ s, isComment c = false := by
    intro c hc
    have := hs c hc
    cases h : isComment c
    · rfl
    · exact absurd ((isComment_iff c).1 h) this
  rw [(unterminated env s).1, unbalanced_parity s hc false, quoteChar_eq]
  simp

example : parseLine [] [97, 32, 39, 98] = .error .unterminated := by
  rw [unterminated_parity _ _ (by decide)]; decide
example : ∃ args, parseLine [] [97, 32, 39, 98, 39, 32, 39, 39] = .ok args :=
  (unterminated _ _).2 (by decide)

/-! ### expansion happens once -/

/-- **Expansion is done once.**  For a variable name `k` (letters, digits, '_', not starting with a
digit) whose current value is `v` — any `v`: blanks, quotes, '$', '#', empty — both `$k` and `${k}`
are exactly one argument equal to `v`: the value is neither split, nor expanded again, nor cut at a
'#', and an empty value is an empty argument (not a missing one). -/
theorem expand_once (env : Env) (k v : Bytes) (hk : NameOK k) (hv : lookup env k = v) :
    parseLine env (36 :: k) = .ok [v] ∧ parseLine env (36 :: 123 :: (k ++ [125])) = .ok [v] := by
  have hko : AllOrdinary k := fun c hc => isAlphaNum_ordinary (hk.1 c hc)
  constructor
  · have h := token_line env [Seg.raw (36 :: k)] (by simp)
      ⟨by simp, fun c hc => by
        rcases List.mem_cons.1 hc with h | h
        · subst h; exact ordinary_syntax.1
        · exact hko c h⟩
    have he : expand env (36 :: k) = v := by
      have := expand_name_in env [] k [] (by simp) (by simp) hk (by simp)
      simpa [hv, DOLLAR] using this
    simpa [renderSegs, Seg.render, valueSegs, Seg.value, he] using h
  · have h := token_line env [Seg.raw (36 :: 123 :: (k ++ [125]))] (by simp)
      ⟨by simp, fun c hc => by
        simp only [List.mem_cons, List.mem_append, List.mem_nil_iff, or_false] at hc
        rcases hc with h | h | h | h
        · subst h; exact ordinary_syntax.1
        · subst h; exact ordinary_syntax.2.1
        · exact hko c h
        · subst h; exact ordinary_syntax.2.2.1⟩
    have he : expand env (36 :: 123 :: (k ++ [125])) = v := by
      have := expand_braced_in env [] k [] (by simp) (by simp) hk
      simpa [hv, DOLLAR, LBRACE, RBRACE] using this
    simpa [renderSegs, Seg.render, valueSegs, Seg.value, he] using h

-- K = `a 'b $K #c` : `$K` and `${K}` give that one argument
example : parseLine [([75], [97, 32, 39, 98, 32, 36, 75, 32, 35, 99])] [36, 75] = .ok [[97, 32, 39, 98, 32, 36, 75, 32, 35, 99]] :=
  (expand_once _ [75] _ ⟨by decide, 75, [], rfl, by decide⟩ (by decide)).1
-- empty value: one empty argument
example : parseLine [([75], [])] [36, 123, 75, 125] = .ok [[]] :=
  (expand_once _ [75] _ ⟨by decide, 75, [], rfl, by decide⟩ (by decide)).2

/-- **Concatenation** `p$k'w'${k}q`: unquoted text, a variable, a quoted word, the variable again in
braces, more text — one argument `p ++ v ++ w ++ v ++ q`. -/
theorem expand_concat (env : Env) (p k w q v : Bytes) (hk : NameOK k) (hv : lookup env k = v)
    (hp : ∀ c ∈ p, Ordinary c ∧ c ≠ DOLLAR) (hq : ∀ c ∈ q, Ordinary c ∧ c ≠ DOLLAR) :
    parseLine env (p ++ 36 :: k ++ sq w ++ 36 :: 123 :: (k ++ 125 :: q)) = .ok [p ++ v ++ w ++ v ++ q] := by
  have hko : AllOrdinary k := fun c hc => isAlphaNum_ordinary (hk.1 c hc)
  have h1 : (Seg.raw (p ++ 36 :: k)).OK := by
    refine ⟨by simp, fun c hc => ?_⟩
    simp only [List.mem_append, List.mem_cons] at hc
    rcases hc with h | h | h
    · exact (hp c h).1
    · subst h; exact ordinary_syntax.1
    · exact hko c h
  have h3 : (Seg.raw (36 :: 123 :: (k ++ 125 :: q))).OK := by
    refine ⟨by simp, fun c hc => ?_⟩
    simp only [List.mem_append, List.mem_cons] at hc
    rcases hc with h | h | h | h | h
    · subst h; exact ordinary_syntax.1
    · subst h; exact ordinary_syntax.2.1
    · exact hko c h
    · subst h; exact ordinary_syntax.2.2.1
    · exact (hq c h).1
  have h := token_line env [Seg.raw (p ++ 36 :: k), Seg.quo w, Seg.raw (36 :: 123 :: (k ++ 125 :: q))] (by simp)
    ⟨h1, by simp [Seg.isRaw], trivial, by simp [Seg.isRaw], h3⟩
  have e1 : expand env (p ++ 36 :: k) = p ++ v := by
    have := expand_name_in env p k [] (fun c hc => (hp c hc).2) (by simp) hk (by simp)
    simpa [hv, DOLLAR] using this
  have e3 : expand env (36 :: 123 :: (k ++ 125 :: q)) = v ++ q := by
    have := expand_braced_in env [] k q (by simp) (fun c hc => (hq c hc).2) hk
    simpa [hv, DOLLAR, LBRACE, RBRACE] using this
  simpa [renderSegs, Seg.render, valueSegs, Seg.value, e1, e3, List.append_assoc] using h

-- `x$K'y z'${K}w` with K = `a b`
example : parseLine [([75], [97, 32, 98])] ([120] ++ 36 :: [75] ++ sq [121, 32, 122] ++ 36 :: 123 :: ([75] ++ 125 :: [119]))
    = .ok [[120] ++ [97, 32, 98] ++ [121, 32, 122] ++ [97, 32, 98] ++ [119]] :=
  expand_concat _ _ _ _ _ _ ⟨by decide, 75, [], rfl, by decide⟩ (by decide) (by decide) (by decide)

/-! ### assignments -/

/-- **The latest assignment wins**, and other names are unaffected. -/
theorem latest_wins (env : Env) (k v k' : Bytes) :
    lookup (setenv env k v) k = v ∧ (k' ≠ k → lookup (setenv env k v) k' = lookup env k') := by
  constructor
  · simp [setenv, lookup_append_one]
  · intro h
    simp [setenv, lookup_append_one, Ne.symm h]

-- K=old J=j, then K=new
example : lookup (setenv [([75], [111, 108, 100]), ([74], [106])] [75] [110, 101, 119]) [75] = [110, 101, 119] := by
  decide

/-- The `env` command: `env k=v` (one argument, split at its first '=') makes Getenv(k) = v and
leaves every other name alone — whatever was assigned before. -/
theorem env_command (ts : TS) (k v k' : Bytes) (hk : 61 ∉ k) :
    (cmdEnv ts [k ++ 61 :: v]).getenv k = v ∧
    (k' ≠ k → (cmdEnv ts [k ++ 61 :: v]).getenv k' = ts.getenv k') := by
  have hs : splitEq (k ++ 61 :: v) = some (k, v) := splitEq_append k v hk
  have : cmdEnv ts [k ++ 61 :: v] = ts.setenv k v := by
    simp [cmdEnv, cmdEnvArg, Gen.Script.cmdEnvSplitsAtFirstEq, hs]
  rw [this]
  have hm : (ts.setenv k v).envMap = setenv ts.envMap k v := by
    simp [TS.setenv, Gen.Script.setenvUpdatesMap, setenv]
  simp only [TS.getenv, getenv, Gen.Script.getenvReadsEnvMap, if_true, hm]
  exact latest_wins ts.envMap k v k'

example : (cmdEnv (TS.setup [[75, 61, 49]]) [[75, 61, 50, 61, 51]]).getenv [75] = [50, 61, 51] :=
  (env_command _ [75] [50, 61, 51] [] (by decide)).1

/-- **The list handed to os/exec and the map used for expansion agree**, for every assignment
history: in every state reachable from the end of setup by Setenv with '='-free names (all that
`env` can do: `cmdEnv_reach`), `ts.envMap` is `ts.env` read entry by entry (split at the first '=',
later entries overwrite). -/
theorem env_list_map_agree (ts : TS) (h : Reach ts) (k : Bytes) :
    ts.getenv k = lookup (ts.env.filterMap splitEq) k := by
  simp [TS.getenv, getenv, Gen.Script.getenvReadsEnvMap, h.envMap_eq]

theorem env_command_reach (ts : TS) (h : Reach ts) (args : List Bytes) : Reach (cmdEnv ts args) :=
  cmdEnv_reach h args

-- after setup with A=1 B=2 A=3 and `env A=4=5 C`: reachable, and Getenv A reads the list's last A entry
example : Reach (cmdEnv (TS.setup [[65, 61, 49], [66, 61, 50], [65, 61, 51]]) [[65, 61, 52, 61, 53], [67]]) :=
  env_command_reach _ (Reach.setup _) _
example : (cmdEnv (TS.setup [[65, 61, 49], [66, 61, 50], [65, 61, 51]]) [[65, 61, 52, 61, 53], [67]]).getenv [65] = [52, 61, 53] := by
  rw [env_list_map_agree _ (env_command_reach _ (Reach.setup _) _)]; decide

/-- **Executed programs see the same values.**  In every reachable state without NUL bytes in the
environment (os/exec refuses to start a child otherwise), the strings the child receives —
`ts.env` plus `PWD=<cd>`, after os/exec's de-duplication — read the way a process reads its
environment (first '=' splits, first mention of a name wins) give, for every name other than PWD
(non-empty, without '='), exactly `ts.Getenv`. -/
theorem child_sees_same (ts : TS) (h : Reach ts) (cd : Bytes) (hn : NoNUL ts.env) (hcd : 0 ∉ cd)
    (k : Bytes) (hne : k ≠ []) (hk : 61 ∉ k) (hpwd : k ≠ [80, 87, 68]) :
    ∃ out, ts.childEnv cd = .ok out ∧ childGetenv out k = ts.getenv k := by
  have hn' : NoNUL (ts.env ++ [Gen.Script.pwdName ++ EQ :: cd]) := by
    intro kv hkv
    rcases List.mem_append.1 hkv with hkv | hkv
    · exact hn kv hkv
    · have : kv = Gen.Script.pwdName ++ EQ :: cd := by simpa using hkv
      subst this
      have : (0 : UInt8) ∉ Gen.Script.pwdName ++ EQ :: cd := by
        intro hm
        rcases List.mem_append.1 hm with hm | hm
        · revert hm; decide
        · rcases List.mem_cons.1 hm with hm | hm
          · revert hm; decide
          · exact hcd hm
      simpa using this
  obtain ⟨out, h1, h2⟩ := dedupEnv_lookup _ hn' k hne hk
  refine ⟨out, by simp [TS.childEnv, Gen.Script.childEnvIsListPlusPWD, h1], ?_⟩
  rw [h2, env_list_map_agree ts h k, List.filterMap_append]
  have hs : splitEq (Gen.Script.pwdName ++ EQ :: cd) = some (Gen.Script.pwdName, cd) :=
    splitEq_append _ _ (by decide)
  simp only [List.filterMap_cons, hs, List.filterMap_nil]
  rw [lookup_append_one, if_neg (by simpa [Gen.Script.pwdName] using Ne.symm hpwd)]

-- setup list A=1 B=2 A=3, then `env A=4`: the child sees A=4, B=2
example : ∃ out, ((TS.setup [[65, 61, 49], [66, 61, 50], [65, 61, 51]]).setenv [65] [52]).childEnv [47, 119] = .ok out ∧
    childGetenv out [65] = [52] ∧ childGetenv out [66] = [50] := by
  refine ⟨_, rfl, by decide, by decide⟩

/-- The limit of that clause, stated for the record: with a NUL byte in any entry of `ts.env` no
child is started at all (os/exec returns "environment variable contains NUL"), although Getenv and
expansion still yield the value. -/
theorem child_refused_on_nul (ts : TS) (cd : Bytes) (h : ∃ kv ∈ ts.env, (kv.contains 0) = true) :
    ts.childEnv cd = .error .nul := by
  obtain ⟨kv, hm, hk⟩ := h
  simp only [TS.childEnv, Gen.Script.childEnvIsListPlusPWD, if_true]
  exact dedupEnv_nul _ ⟨kv, by simp [hm], hk⟩

example : ((TS.setup [[65, 61, 49]]).setenv [66] [120, 0, 121]).childEnv [47] = .error .nul :=
  child_refused_on_nul _ _ ⟨[66, 61, 120, 0, 121], by decide, by decide⟩

/-! ### `${NAME@R}` -/

/-- **QuoteMeta'd text is a literal pattern for exactly the value**: in the literal fragment of RE2
syntax (non-meta bytes and backslash-escaped meta bytes), the language of `QuoteMeta(v)` is `{v}`. -/
theorem atR_literal (v w : Bytes) : litLang (quoteMeta v) w ↔ w = v :=
  ⟨litMatch_quoteMeta_only v w, fun h => h ▸ litMatch_quoteMeta v⟩

-- `a.b` ↦ `a\.b`, which matches `a.b` and not `axb`
example : quoteMeta [97, 46, 98] = [97, 92, 46, 98] := by decide
example : litLang (quoteMeta [97, 46, 98]) [97, 46, 98] ∧ ¬ litLang (quoteMeta [97, 46, 98]) [97, 120, 98] :=
  ⟨(atR_literal _ _).2 rfl, fun h => absurd ((atR_literal _ _).1 h) (by decide)⟩

/-- The escaped bytes are exactly regexp's metacharacters ``\.+*?()|[]{}^$``. -/
theorem quoteMeta_specials (c : UInt8) :
    special c = true ↔ c ∈ ([92, 46, 43, 42, 63, 40, 41, 124, 91, 93, 123, 125, 94, 36] : List UInt8) := by
  constructor
  · intro h
    simp only [special, Bool.and_eq_true, Gen.Script.regexpSpecial] at h
    simpa using h.2
  · intro h
    simp only [List.mem_cons, List.mem_nil_iff, or_false] at h
    rcases h with h | h | h | h | h | h | h | h | h | h | h | h | h | h <;> subst h <;> decide

example : special 46 = true ∧ special 97 = false ∧ special 92 = true := by decide

/-- **`${k@R}`** is one argument: the QuoteMeta of the current value of `k`. -/
theorem atR_expands (env : Env) (k : Bytes) (hk : NameOK k) :
    parseLine env (36 :: 123 :: (k ++ [64, 82, 125])) = .ok [quoteMeta (lookup env k)] := by
  have hko : AllOrdinary k := fun c hc => isAlphaNum_ordinary (hk.1 c hc)
  have h := token_line env [Seg.raw (36 :: 123 :: (k ++ [64, 82, 125]))] (by simp)
    ⟨by simp, fun c hc => by
      simp only [List.mem_cons, List.mem_append, List.mem_nil_iff, or_false] at hc
      rcases hc with h | h | h | h | h | h
      · subst h; exact ordinary_syntax.1
      · subst h; exact ordinary_syntax.2.1
      · exact hko c h
      · subst h; exact ordinary_syntax.2.2.2.1
      · subst h; exact ordinary_syntax.2.2.2.2
      · subst h; exact ordinary_syntax.2.2.1⟩
  have he : expand env (36 :: 123 :: (k ++ [64, 82, 125])) = quoteMeta (lookup env k) := by
    have := expand_atR_in env [] k [] (by simp) (by simp) hk.no_rbrace
    simpa [DOLLAR, LBRACE, RBRACE] using this
  simpa [renderSegs, Seg.render, valueSegs, Seg.value, he] using h

/-- Together: the argument produced by `${k@R}` is a literal pattern whose language is exactly the
current value of `k`. -/
theorem atR_exact (env : Env) (k : Bytes) (hk : NameOK k) :
    ∃ p, parseLine env (36 :: 123 :: (k ++ [64, 82, 125])) = .ok [p] ∧ ∀ w, litLang p w ↔ w = lookup env k :=
  ⟨_, atR_expands env k hk, atR_literal _⟩

example : ∃ p, parseLine [([75], [97, 46, 98])] [36, 123, 75, 64, 82, 125] = .ok [p] ∧ ∀ w, litLang p w ↔ w = [97, 46, 98] :=
  atR_exact _ [75] ⟨by decide, 75, [], rfl, by decide⟩

-- K = `a.b (c)`
example : parseLine [([75], [97, 46, 98, 32, 40, 99, 41])] [36, 123, 75, 64, 82, 125] = .ok [[97, 92, 46, 98, 32, 92, 40, 99, 92, 41]] :=
  atR_expands _ [75] ⟨by decide, 75, [], rfl, by decide⟩

/-! ### tie to the Go code: the regenerated translation of the tokenizer

`GIV.Gen.ScriptGo` is generated on every check run from testscript/testscript.go by the Go→Lean
translator (harness/internal/go2lean): `GIV.Go.Script.parse env line` is `(*TestScript).parse`,
statement by statement (`none` = a Go panic or an exhausted loop budget, `.fatal` = ts.Fatalf),
with `ts.expand` read as the model's `expand env`. -/

open GIV.ScriptGo in
/-- The translated tokenizer is the model's `parseLine` — for every environment and line. -/
theorem go_parse_agrees (env : Env) (line : Bytes) :
    GIV.Go.Script.parse env line = resOf (parseLine env line) := by
  rw [parse_eq, parseIdx_eq]

open GIV.ScriptGo in
/-- The translated tokenizer never panics and never exhausts its loop budget: it returns the
words, or reports the unterminated quote through ts.Fatalf — exactly when the two-state quote
scan ends inside quotes. -/
theorem go_parse_total (env : Env) (line : Bytes) :
    (∃ args, GIV.Go.Script.parse env line = some (.ok args) ∧ unbalanced line false = false) ∨
    (GIV.Go.Script.parse env line = some (.fatal fatalMsg) ∧ unbalanced line false = true) := by
  rw [go_parse_agrees]
  cases hb : unbalanced line false with
  | false =>
    obtain ⟨args, h⟩ := (unterminated env line).2 hb
    exact Or.inl ⟨args, by rw [h]; rfl, rfl⟩
  | true =>
    have h := (unterminated env line).1.2 hb
    exact Or.inr ⟨by rw [h]; rfl, rfl⟩

open GIV.ScriptGo in
/-- The quoting law for the translated tokenizer. -/
theorem go_quote_law (env : Env) (ws : List Bytes) :
    GIV.Go.Script.parse env (quotedLine ws) = some (.ok ws) := by
  rw [go_parse_agrees, quote_law_all env ws]; rfl

example : GIV.Go.Script.parse [] (lit "a 'b c' #d") = some (.ok [lit "a", lit "b c"]) := by decide +kernel
example : GIV.Go.Script.parse [] (lit "a 'b") = some (.fatal GIV.ScriptGo.fatalMsg) := by decide +kernel

open GIV.ScriptGo in
/-- The mapping function `expand` hands to os.Expand — the closure in (*TestScript).expand, translated from
the source on every run — never panics and is the model's `expandMapping` for every environment and key:
`NAME@R` yields the quoted value of exactly `NAME` (the two-byte suffix "@R" is cut off as a suffix, once),
every other key the value of the variable of that name. -/
theorem go_expandMapping_agrees (env : Env) (key : Bytes) :
    GIV.Go.Script.expandMapping env key = some (.ok (expandMapping env key)) :=
  expandMapping_eq env key

open GIV.ScriptGo in
/-- `${NAME@R}` for the translated mapping: the regexp-quoted value of `NAME`, whatever `NAME` ends in
(also `R` or `@`). -/
theorem go_atR_exact (env : Env) (name : Bytes) :
    GIV.Go.Script.expandMapping env (name ++ [64, 82]) = some (.ok (quoteMeta (getenv env name))) := by
  rw [expandMapping_eq]
  have f1 : Gen.Script.atRSuffix = [64, 82] := rfl
  have f2 : Gen.Script.atRQuotesMeta = true := rfl
  have hs : ([64, 82] : Bytes).isSuffixOf (name ++ [64, 82]) = true :=
    List.isSuffixOf_iff_suffix.mpr (List.suffix_append _ _)
  have hl : ([64, 82] : Bytes).length = 2 := rfl
  simp only [expandMapping, f1, f2, hs, if_true, List.length_append, hl, Nat.add_sub_cancel, List.take_left']
  have : (name.length != name.length + 2) = true := by simp [bne]
  simp [this]

-- the generated definition, evaluated by the kernel: ${KR@R} with KR = "a.b", K = "zz"
example : GIV.Go.Script.expandMapping [(lit "K", lit "zz"), (lit "KR", lit "a.b")] (lit "KR@R") = some (.ok (lit "a\\.b")) := by decide +kernel

/-! ### tie to the Go code: the regenerated translation of the standard library's os.Expand

`GIV.Gen.OsExpandGo` is generated on every check run by the same translator from `GOROOT/src/os/env.go` of the
toolchain the harness is built with: `GIV.Go.Os.Expand s mapping` is `os.Expand`, statement by statement — its
`buf` an `Option` (Go's `buf == nil` is observed twice), `mapping` an arbitrary function — and
`GIV.Go.Os.getShellName`, `isShellSpecialVar`, `isAlphaNum` are its helpers.  `osExpand` below is the structural
model every expansion theorem of this file is about. -/

/-- The translated os.Expand is the model's `osExpand` — for every string and every mapping function; in
particular no index, no slice expression and no loop budget of the translation ever fails. -/
theorem go_osExpand_agrees (s : Bytes) (mapping : Bytes → Bytes) :
    GIV.Go.Os.Expand s mapping = some (osExpand s mapping) :=
  GIV.OsExpandGo.Expand_eq s mapping

-- the generated definitions, evaluated by the kernel: "a$X-${Y}$$" with X ↦ "1", Y ↦ "2" ("$$" is the special
-- variable `$`, which this mapping leaves empty)
example : GIV.Go.Os.Expand (lit "a$X-${Y}$$") (fun k => if k = lit "X" then lit "1" else if k = lit "Y" then lit "2" else [])
    = some (lit "a1-2") := by decide +kernel

/-- … through the index form the driver runs against the real os.Expand (`expand_index_form_agrees`). -/
theorem go_osExpand_index_form (s : Bytes) (mapping : Bytes → Bytes) :
    GIV.Go.Os.Expand s mapping = osExpandIdx s mapping :=
  GIV.OsExpandGo.Expand_eq_idx s mapping

/-- The translated getShellName is the model's, for every non-empty string (os.Expand only calls it on
`s[j+1:]` with `j+1 < len(s)`); on the empty string it panics, like Go's `s[0]`. -/
theorem go_getShellName_agrees (c : UInt8) (s : Bytes) :
    GIV.Go.Os.getShellName (c :: s) = some ((getShellName c s).1, ((getShellName c s).2 : Int)) ∧
    GIV.Go.Os.getShellName [] = none := by
  constructor
  · rw [GIV.OsExpandGo.getShellName_eq, getShellNameIdx_eq]; rfl
  · rw [GIV.OsExpandGo.getShellName_eq]; rfl

/-- The two byte classes of os/env.go, translated, are the model's (which are built from the regenerated
case list `shellSpecialVars` and the regenerated shape fact for isAlphaNum). -/
theorem go_shell_classes (c : UInt8) :
    GIV.Go.Os.isShellSpecialVar c = some (isShellSpecialVar c) ∧ GIV.Go.Os.isAlphaNum c = some (isAlphaNum c) :=
  ⟨GIV.OsExpandGo.isShellSpecialVar_eq c, GIV.OsExpandGo.isAlphaNum_eq c⟩

/-- `(*TestScript).expand` over the translated code: the translated os.Expand applied to the mapping function of
`expand` (itself the translated closure, `go_expandMapping_agrees`) is the model's `expand env` — the function the
translated tokenizer `GIV.Go.Script.parse` calls for every unquoted chunk. -/
theorem go_expand_agrees (env : Env) (s : Bytes) :
    GIV.Go.Os.Expand s (expandMapping env) = some (expand env s) := by
  rw [go_osExpand_agrees]
  simp [expand, Gen.Script.expandIsOsExpand]

/-- **Expansion happens once**, restated for the translated os.Expand: `p$NAMEq` and `p${NAME}q` (text `p`, `q`
without '$', `q` not continuing the name in the first form) become `p`, the current value of NAME — whatever bytes it
contains: blanks, quotes, '$', '#', nothing — and `q`; the value is not looked at again. -/
theorem go_expand_once (env : Env) (p k q v : Bytes) (hp : ∀ c ∈ p, c ≠ 36) (hq : ∀ c ∈ q, c ≠ 36)
    (hk : NameOK k) (hv : lookup env k = v) :
    (( ∀ c, q.head? = some c → isAlphaNum c = false) →
      GIV.Go.Os.Expand (p ++ 36 :: (k ++ q)) (expandMapping env) = some (p ++ v ++ q)) ∧
    GIV.Go.Os.Expand (p ++ 36 :: 123 :: (k ++ 125 :: q)) (expandMapping env) = some (p ++ v ++ q) := by
  subst hv
  constructor
  · intro hr
    rw [go_expand_agrees]
    exact congrArg some (expand_name_in env p k q hp hq hk hr)
  · rw [go_expand_agrees]
    exact congrArg some (expand_braced_in env p k q hp hq hk)

-- the generated definitions, evaluated by the kernel — the `buf == nil` paths: no '$' at all (buf stays nil:
-- the argument is returned), "${}x" (buf non-nil but empty: "x"), a '$' as last byte
example : GIV.Go.Os.Expand (lit "plain") (fun _ => lit "?") = some (lit "plain") := by decide +kernel
example : GIV.Go.Os.Expand (lit "${}x") (fun _ => lit "?") = some (lit "x") := by decide +kernel
example : GIV.Go.Os.Expand (lit "x$") (fun _ => lit "?") = some (lit "x$") := by decide +kernel
example : GIV.Go.Os.getShellName (lit "{K@R}z") = some (lit "K@R", 5) ∧ GIV.Go.Os.getShellName (lit "{") = some ([], 1) ∧
    GIV.Go.Os.getShellName (lit "ab-") = some (lit "ab", 2) := by decide +kernel
-- the value of K contains a blank, a quote, '$K' and '#': copied, not expanded again
example : GIV.Go.Os.Expand ([120] ++ 36 :: 123 :: ([75] ++ 125 :: [121])) (expandMapping [([75], [97, 32, 39, 36, 75, 32, 35])])
    = some ([120] ++ [97, 32, 39, 36, 75, 32, 35] ++ [121]) :=
  (go_expand_once _ [120] [75] [121] _ (by decide) (by decide) ⟨by decide, 75, [], rfl, by decide⟩ (by decide)).2

end GIV.C02
