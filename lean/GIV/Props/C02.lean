import GIV.Model.ScriptParse
namespace GIV.C02
open GIV GIV.Script

/-- The latest assignment wins; other names are unaffected. -/
theorem latest_wins (env : Env) (k v k' : Bytes) :
    lookup (setenv env k v) k = v ∧ (k' ≠ k → lookup (setenv env k v) k' = lookup env k') := by
  constructor
  · simp [lookup, setenv, List.foldl_append]
  · intro h
    simp [lookup, setenv, List.foldl_append, Ne.symm h]

-- K=old J=j, then K=new
example : lookup (setenv [([75], [111, 108, 100]), ([74], [106])] [75] [110, 101, 119]) [75] = [110, 101, 119] := by
  decide

end GIV.C02
