/-
  C20 — goproxytest serves exactly the modules stored in its directory.

  Model: GIV.Model.Proxy (handler, readModList, readArchive, codecs), constants and deciding
  expressions from GIV.Gen.Proxy (regenerated from /repo on every check).  The theorems are stated
  with the property's own literals ("/mod/", "/@v/", ".info", '.', '@', …) and proved from the
  generated definitions, so a change of the source breaks them by name.

  Partial: HTTP transport, zip encoding, JSON and txtar parsing are outside the model (`Ext`,
  `Response.zip` is the ordered member list); the theorems are about routing and selection.
-/
import GIV.Lemmas.ProxySpec
import GIV.Lemmas.ProxyGo
import GIV.Lemmas.SemverGo
import GIV.Lemmas.ModuleGo
namespace GIV.C20
open GIV GIV.Proxy

/-! The vocabulary of the statements (`url`, `Stored`, `DotFile`, `ValidWho`) is defined in GIV.Lemmas.ProxySpec. -/

/-- a tiny directory used by the non-vacuity examples: `example.com_!foo_v1.0.0.txt` (module
`example.com/Foo@v1.0.0`) whose parsed archive is `.info`, `.mod`, `go.mod`, `.hidden`, `sub/.keep` -/
def exFiles : List File :=
  [⟨lit ".info", lit "{}"⟩, ⟨lit ".mod", lit "module example.com/Foo\n"⟩, ⟨lit "go.mod", lit "m"⟩,
   ⟨lit ".hidden", lit "h"⟩, ⟨lit "sub/.keep", []⟩]
def exExt : Ext := ⟨fun _ => exFiles, fun _ => []⟩
def exStore : Store := [(lit "example.com_!foo_v1.0.0.txt", .file (lit "(txtar)")), (lit "README", .file [])]
def exMl : List ModVer := [⟨lit "example.com/Foo", lit "v1.0.0"⟩]

example : readModList exStore = some exMl := by decide +kernel

/-! ### 1. the codecs -/

/-- `UnescapePath (EscapePath p) = p` and `UnescapeVersion (EscapeVersion v) = v`, whenever escaping
succeeds (that is: for valid paths / versions), and conversely. -/
theorem unescape_escape :
    (∀ p e, escapePath p = some e → unescapePath e = some p) ∧
    (∀ v e, escapeVersion v = some e → unescapeVersion e = some v) ∧
    (∀ p e, unescapePath e = some p → escapePath p = some e) ∧
    (∀ v e, unescapeVersion e = some v → escapeVersion v = some e) :=
  ⟨fun _ _ => unescapePath_escapePath, fun _ _ => unescapeVersion_escapeVersion,
   fun _ _ => escapePath_unescapePath, fun _ _ => escapeVersion_unescapeVersion⟩

example : escapePath (lit "example.com/Foo") = some (lit "example.com/!foo") := by decide +kernel
example : unescapePath (lit "example.com/!foo") = some (lit "example.com/Foo") := by decide +kernel
example : escapeVersion (lit "v1.0.0-RC1") = some (lit "v1.0.0-!r!c1") := by decide +kernel
example : unescapePath (lit "example.com/Foo") = none := by decide +kernel

/-- escaping is injective: two paths (versions) with the same escaped form are equal -/
theorem escape_injective :
    (∀ p q e, escapePath p = some e → escapePath q = some e → p = q) ∧
    (∀ v w e, escapeVersion v = some e → escapeVersion w = some e → v = w) := by
  constructor
  · intro p q e hp hq
    exact escapeString_injective (escapePath_eq_some.mp hp).2 (escapePath_eq_some.mp hq).2
  · intro v w e hv hw
    exact escapeString_injective (escapeVersion_eq_some.mp hv).2 (escapeVersion_eq_some.mp hw).2

example : escapePath (lit "example.com/Foo") ≠ escapePath (lit "example.com/foo") := by decide +kernel

/-! ### 2. file names -/

/-- **name round trip**: every recorded module version was decoded from a directory entry (an archive
`base.txt` / `base.txtar` or a directory `base`), and `readArchive` maps it back to exactly that
`base`. -/
theorem name_roundtrip {st : Store} {ml : List ModVer} (hml : readModList st = some ml) (hns : NoSlash st)
    {m : ModVer} (hm : m ∈ ml) :
    ∃ base, archiveBase m.path m.version = some base ∧ decodeBase base = some (some m) ∧
      ∃ e ∈ st, entryBase e.1 e.2.isDir = some base :=
  archiveBase_of_mem hml hns hm

example : archiveBase (lit "example.com/Foo") (lit "v1.0.0") = some (lit "example.com_!foo_v1.0.0") := by decide +kernel
example : decodeBase (lit "example.com_!foo_v1.0.0") = some (some ⟨lit "example.com/Foo", lit "v1.0.0"⟩) := by
  decide +kernel

/-- **what is stored**: `readModList` records exactly the pairs decoded from the archive entries; and a
pair whose path and version contain no `_` (the version starting with `v`) is recorded iff an entry
with its conventional name `esc(path)[/ ↦ _] _ esc(version)` exists. -/
theorem modList_exact {st : Store} {ml : List ModVer} (hml : readModList st = some ml) (hns : NoSlash st) :
    (∀ m, m ∈ ml ↔ ∃ e ∈ st, ∃ base, entryBase e.1 e.2.isDir = some base ∧ decodeBase base = some (some m)) ∧
    (∀ p v base, archiveBase p v = some base → 95 ∉ p → 95 ∉ v → v.head? = some 118 →
      (Stored ml p v ↔ ∃ e ∈ st, entryBase e.1 e.2.isDir = some base)) := by
  refine ⟨mem_readModList hml, ?_⟩
  intro p v base hb hp hv hh
  have hd := decodeBase_of_archiveBase hb hp hv hh
  constructor
  · intro hm
    obtain ⟨b, hb1, _, e, he, heb⟩ := archiveBase_of_mem hml hns hm
    simp only at hb1
    rw [hb] at hb1
    exact ⟨e, he, by rw [Option.some.inj hb1]; exact heb⟩
  · rintro ⟨e, he, hb1⟩
    exact (mem_readModList hml ⟨p, v⟩).mpr ⟨e, he, base, hb1, hd⟩

example : Stored exMl (lit "example.com/Foo") (lit "v1.0.0") := by decide +kernel
example : NoSlash exStore := by unfold NoSlash; decide +kernel

/-! ### 3. the archive of a module version -/

/-- **lookup order**: the archive of `p@v` is `base.txtar` if that entry exists, else `base.txt`, else
the directory `base`; an entry of the wrong kind (a directory called `base.txt`, a regular file
called `base`) gives no archive and stops the search. -/
theorem archive_lookup_order (x : Ext) (st : Store) (p v base : Bytes) (hb : archiveBase p v = some base) :
    readArchive x st p v =
      match st.lookup (base ++ lit ".txtar") with
      | some (.file d) => some (x.parseTxtar d)
      | some (.dir _) => none
      | none =>
        match st.lookup (base ++ lit ".txt") with
        | some (.file d) => some (x.parseTxtar d)
        | some (.dir _) => none
        | none =>
          match st.lookup base with
          | some (.dir fs) => some (walk fs)
          | some (.file _) => none
          | none => none := by
  have h1 : lit ".txtar" = [46, 116, 120, 116, 97, 114] := by decide +kernel
  have h2 : lit ".txt" = [46, 116, 120, 116] := by decide +kernel
  have ho : Gen.Proxy.lookupOrder = [some [46, 116, 120, 116, 97, 114], some [46, 116, 120, 116], none] := rfl
  unfold readArchive loadArchive
  rw [hb, ho, h1, h2]
  simp only [Option.bind_some, loadArchiveFrom]
  rfl

example : readArchive exExt exStore (lit "example.com/Foo") (lit "v1.0.0") = some exFiles := by decide +kernel

/-- a directory archive consists of exactly the regular files below the directory (each once), named
by their slash-separated relative paths -/
theorem walk_perm (fs : List (List Bytes × Bytes)) :
    (walk fs).Perm (fs.map fun f => ⟨joinSlash f.1, f.2⟩) :=
  (perm_sortBy _ fs).map _

example : walk [([lit "a", lit "c"], [1]), ([lit "a.b", lit "c"], [2]), ([lit "A"], [3])]
    = [⟨lit "A", [3]⟩, ⟨lit "a/c", [1]⟩, ⟨lit "a.b/c", [2]⟩] := by decide +kernel

/-! ### 4. what the handler serves -/

/-- **.info and .mod**: for a stored module version the response to `/mod/<esc p>/@v/<esc v>.info`
(`.mod`) is, byte for byte, the data of the archive's `.info` (`.mod`) file — whatever the state of
the caches. -/
theorem serves_info_mod (x : Ext) {st : Store} {ml : List ModVer} (who : Bytes → Option (Bytes × Bytes))
    (hml : readModList st = some ml) {p v ep ev : Bytes} (hs : Stored ml p v)
    (hep : escapePath p = some ep) (hev : escapeVersion v = some ev)
    {files : List File} (ha : readArchive x st p v = some files)
    (ext : Bytes) (hext : ext = lit "info" ∨ ext = lit "mod")
    {f : File} (hf : files.find? (fun g => g.name = lit "." ++ ext) = some f) :
    handler x ml st who (url ep (ev ++ lit "." ++ ext)) = .bytes f.data := by
  have hdot : lit "." = [46] := by decide +kernel
  have hi : lit "info" = [105, 110, 102, 111] := by decide +kernel
  have hm : lit "mod" = [109, 111, 100] := by decide +kernel
  have hext' : ext = [105, 110, 102, 111] ∨ ext = [109, 111, 100] := by rw [hi, hm] at hext; exact hext
  have hnodot : (46 : UInt8) ∉ ext := by rcases hext' with rfl | rfl <;> decide
  have hfe : Gen.Proxy.fileExts.contains ext = true := by rcases hext' with rfl | rfl <;> decide
  have hw : Gen.Proxy.wantPrefix = [46] := rfl
  rw [hdot] at hf
  rw [url_eq, hdot]
  unfold handler
  have hfile : [47, 109, 111, 100, 47] ++ ep ++ [47, 64, 118, 47] ++ (ev ++ [46] ++ ext)
      = [47, 109, 111, 100, 47] ++ ep ++ [47, 64, 118, 47] ++ (ev ++ 46 :: ext) := by simp
  rw [hfile, route_canonical ep _ (escapePath_no_at hep)]
  simp only
  rw [serveRouted_file x ml st who ext hep hev hnodot, serveFile_of_mem x who hml hs ext]
  unfold readArchive at ha
  cases hb : archiveBase p v with
  | none => simp [hb] at ha
  | some name =>
    simp only [hb, Option.bind_some] at ha
    simp only [ha, hfe, if_true, hw]
    rw [hf]

example : handler exExt exMl exStore (fun _ => none) (url (lit "example.com/!foo") (lit "v1.0.0" ++ lit "." ++ lit "mod"))
    = .bytes (lit "module example.com/Foo\n") := by decide +kernel

/-- **.zip**: for a stored module version the response to `/mod/<esc p>/@v/<esc v>.zip` is the zip whose
members are exactly the archive's files whose names do not start with a dot, in archive order, each
named `p@v/<name>` with identical contents — for every valid state of the zip cache, i.e. whichever
request (of the same or any other module) ran or races first.  (Names longer than 65535 bytes make
`zip.Writer.Create` fail; they are excluded by `hlen`.) -/
theorem serves_zip (x : Ext) {st : Store} {ml : List ModVer} {who : Bytes → Option (Bytes × Bytes)}
    (hml : readModList st = some ml) (hns : NoSlash st) (hwho : ValidWho ml who)
    {p v ep ev : Bytes} (hs : Stored ml p v)
    (hep : escapePath p = some ep) (hev : escapeVersion v = some ev)
    {files : List File} (ha : readArchive x st p v = some files)
    (hlen : ∀ f ∈ files, (p ++ lit "@" ++ v ++ lit "/" ++ f.name).length ≤ 65535) :
    handler x ml st who (url ep (ev ++ lit ".zip")) =
      .zip ((files.filter fun f => ¬ DotFile f.name).map fun f => ⟨p ++ lit "@" ++ v ++ lit "/" ++ f.name, f.data⟩) := by
  have hz : lit ".zip" = 46 :: [122, 105, 112] := by decide +kernel
  have hat : lit "@" = [64] := by decide +kernel
  have hsl : lit "/" = [47] := by decide +kernel
  simp only [hat, hsl] at hlen
  rw [url_eq, hz, hat, hsl]
  unfold handler
  rw [route_canonical ep _ (escapePath_no_at hep)]
  simp only
  rw [serveRouted_file x ml st who [122, 105, 112] hep hev (by decide), serveFile_of_mem x who hml hs _]
  unfold readArchive at ha
  cases hb : archiveBase p v with
  | none => simp [hb] at ha
  | some name =>
    simp only [hb, Option.bind_some] at ha
    have hfe : Gen.Proxy.fileExts.contains [122, 105, 112] = false := by decide
    have hze : Gen.Proxy.zipExt = [122, 105, 112] := rfl
    simp only [ha, hze, hfe, Bool.false_eq_true, ↓reduceIte]
    -- whoever built the cached zip did so for the same (p, v)
    have hown : ∀ p' v', who name = some (p', v') → p' = p ∧ v' = v := by
      intro p' v' hw
      obtain ⟨hs', hb'⟩ := hwho name p' v' hw
      have := modVer_of_base_unique hml hns hs' hs hb' hb
      simpa using this
    have hmem : zipMembers p v files =
        (files.filter fun f => ¬ DotFile f.name).map fun f => ⟨p ++ [64] ++ v ++ [47] ++ f.name, f.data⟩ := by
      unfold zipMembers
      have h1 : Gen.Proxy.zipSep1 = [64] := rfl
      have h2 : Gen.Proxy.zipSep2 = [47] := rfl
      rw [h1, h2]
      congr 1
      apply List.filter_congr
      intro f _
      rw [hasPrefix_dot]
      simp
    have hresp : zipResponse (zipMembers p v files) = .zip (zipMembers p v files) := by
      unfold zipResponse
      have : (zipMembers p v files).any (fun f => decide (f.name.length > 65535)) = false := by
        rw [List.any_eq_false]
        intro g hg
        rw [hmem] at hg
        obtain ⟨f, hf, rfl⟩ := List.mem_map.mp hg
        have := hlen f (List.mem_filter.mp hf).1
        simp only [decide_eq_true_eq]
        omega
      simp [this]
    cases hw : who name with
    | none => simp only; rw [hresp, hmem]
    | some pv =>
      obtain ⟨p', v'⟩ := pv
      obtain ⟨rfl, rfl⟩ := hown p' v' hw
      simp only; rw [hresp, hmem]

example : handler exExt exMl exStore (fun _ => none) (url (lit "example.com/!foo") (lit "v1.0.0" ++ lit ".zip"))
    = .zip [⟨lit "example.com/Foo@v1.0.0/go.mod", lit "m"⟩, ⟨lit "example.com/Foo@v1.0.0/sub/.keep", []⟩] := by
  decide +kernel

/-- **list**: the response to `/mod/<esc p>/@v/list` consists of one line per recorded version of `p`
that is not a pseudo-version and passes `module.Check`, in directory order, and nothing else; it is 404
when there is none. -/
theorem list_exact (x : Ext) (ml : List ModVer) (st : Store) (who : Bytes → Option (Bytes × Bytes))
    {p ep : Bytes} (hep : escapePath p = some ep) :
    handler x ml st who (url ep (lit "list")) =
      (let vs := (ml.filter fun m => m.path = p && !isPseudo m.version && check m.path m.version).map (·.version)
       if vs = [] then .notFound else .bytes (vs.flatMap fun v => v ++ lit "\n")) ∧
    ∀ v, v ∈ listVersions ml p ↔ Stored ml p v ∧ isPseudo v = false ∧ check p v = true := by
  have hl : lit "list" = Gen.Proxy.listName := by decide +kernel
  have hnl : lit "\n" = [10] := by decide +kernel
  have h1 : Gen.Proxy.listMatchesPath = true := rfl
  have h2 : Gen.Proxy.listExcludesPseudo = true := rfl
  have h3 : Gen.Proxy.listRequiresCheck = true := rfl
  constructor
  · rw [url_eq, hl, hnl]
    unfold handler
    rw [route_canonical ep _ (escapePath_no_at hep)]
    simp only
    unfold serveRouted
    rw [unescapePath_escapePath hep]
    simp only [if_true]
    unfold listResponse listVersions
    simp only [h1, h2, h3, Bool.not_true, Bool.false_or, List.isEmpty_iff]
  · exact mem_listVersions ml p

example : handler exExt exMl exStore (fun _ => none) (url (lit "example.com/!foo") (lit "list")) = .bytes (lit "v1.0.0\n") := by
  decide +kernel
example : listVersions [⟨lit "example.com/a", lit "v1.0.0"⟩, ⟨lit "example.com/a", lit "v2.0.0"⟩,
    ⟨lit "example.com/a", lit "v0.0.0-20190101000000-abcdef123456"⟩, ⟨lit "example.com/b", lit "v1.1.0"⟩] (lit "example.com/a")
    = [lit "v1.0.0"] := by decide +kernel

/-! ### 4b. what "pseudo-version" means -/

/-- The full statement: `isPseudoVersion` (count of '-' ≥ 2, valid semantic version, and the regular
expression regenerated from pseudo.go) is exactly the regex-free reference `isPseudoRef` — the three
forms `vX.0.0-date-hash`, `vX.Y.Z-pre.0.date-hash` (pre = anything without '+'),
`vX.Y.(Z+1)-0.date-hash`, optionally `+incompatible`.  Not proved for all strings (it needs a
correctness proof of the derivative matcher against a denotational semantics); `isPseudoRef` itself is
compared with golang.org/x/mod/module.IsPseudoVersion by the harness on every run. -/
def isPseudo_spec_statement : Prop := ∀ v, isPseudo v = isPseudoRef v

/-- TESTS (labelled as such): representative versions of every form — hyphenated, dotted, numeric and
upper-case pre-release identifiers, `+incompatible`, other build metadata — and near misses. -/
def pseudoSamples : List Bytes := [
  "v0.0.0-20190101000000-abcdef123456", "v1.2.4-0.20190101000000-abcdef123456", "v1.2.3-pre.0.20190101000000-abcdef123456",
  "v2.0.1-0.20190101000000-abcdef123456+incompatible", "v1.0.0-20190101000000-abcdef123456", "v2.0.0-20190101000000-ABCdef123456",
  "v1.2.3-rc-1.0.20190101000000-abcdefabcdef", "v1.2.3-rc.1.0.20190101000000-abcdefabcdef", "v1.2.3-1.0.20190101000000-abcdefabcdef",
  "v1.2.3-alpha-beta.2.0.20190101000000-abcdefabcdef", "v1.0.0-RC-1.0.20190101000000-abcdefabcdef", "v1.0.0-x--y.0.20190101000000-abcdefabcdef",
  "v0.3.0-a.b-c.d.0.20190101000000-0123456789ab", "v1.2.3-0.0.20190101000000-abcdefabcdef", "v1.2.3--.0.20190101000000-abcdefabcdef",
  "v2.1.0-rc-1.0.20190101000000-abcdefabcdef+incompatible", "v3.0.0-20190101000000-abcdefabcdef+incompatible", "v10.20.31-0.20190101000000-a",
  -- not pseudo-versions
  "v1.2.3-rc-1.1.20190101000000-abcdefabcdef", "v1.2.3-rc-1.0.2019010100000-abcdefabcdef", "v1.2.3-rc-1.0.201901010000000-abcdefabcdef",
  "v1.2.3-rc-1.0.20190101000000", "v1.0.0-20190101000000-abc-def", "v1.0.1-20190101000000-abcdefabcdef", "v1.2.3-rc-1.0-20190101000000-abcdefabcdef",
  "v1.2.3-0.20190101000000", "v1.2.4-0.20190101000000-abcdef123456+meta", "v1.2.3-rc-1.0.20190101000000-abcdefabcdef+build.5",
  "v1.0.0", "v1.2.3-rc-1", "v1.2.3-rc.1", "v2.0.0+incompatible", "v1", "vfoo", "", "1.2.4-0.20190101000000-abcdef123456",
  "v01.2.4-0.20190101000000-abcdef123456", "v1.2.4-0.20190101000000-abcdef_123456", "v1.2.4-00.20190101000000-abcdef123456"].map lit

/-- the proved part of `isPseudo_spec_statement`: agreement on `pseudoSamples`.  Tightening or loosening
the regular expression in pseudo.go (e.g. forbidding '-' in the pre-release part) breaks this. -/
theorem isPseudo_spec_partial : ∀ v ∈ pseudoSamples, isPseudo v = isPseudoRef v := by decide +kernel

example : isPseudo (lit "v1.2.3-rc-1.0.20190101000000-abcdefabcdef") = true ∧
    isPseudo (lit "v1.2.3-rc-1.1.20190101000000-abcdefabcdef") = false ∧
    listVersions [⟨lit "example.com/a", lit "v1.2.3-rc-1"⟩, ⟨lit "example.com/a", lit "v1.2.3-rc-1.0.20190101000000-abcdefabcdef"⟩]
      (lit "example.com/a") = [lit "v1.2.3-rc-1"] := by decide +kernel

/-! ### 5. nothing else is served -/

/-- the version the commit-hash loop resolves to is the requested one or a recorded version of the path -/
theorem resolve_mem (x : Ext) (st : Store) (ml : List ModVer) (p v0 : Bytes) :
    resolve x st ml p v0 = v0 ∨ Stored ml p (resolve x st ml p v0) := by
  have inv : ∀ (l : List ModVer) (best : Bytes), (∀ m ∈ l, m ∈ ml) → (best = [] ∨ Stored ml p best) →
      (l.foldl (hashStep x st p v0) best = [] ∨ Stored ml p (l.foldl (hashStep x st p v0) best)) := by
    intro l
    induction l with
    | nil => intro best _ hb; simpa using hb
    | cons m l ih =>
      intro best hl hb
      rw [List.foldl_cons]
      apply ih _ (fun m' hm' => hl m' (List.mem_cons_of_mem _ hm'))
      rcases hashStep_cases x st p v0 best m with h | ⟨h, hp⟩
      · rw [h]; exact hb
      · right
        rw [h]
        have hm := hl m (List.mem_cons_self ..)
        obtain ⟨mp, mv⟩ := m
        simp only at hp ⊢
        rw [← hp]
        exact hm
  unfold resolve
  by_cases hh : allHex v0 = true
  · simp only [hh, if_true]
    rcases inv ml [] (fun _ h => h) (Or.inl rfl) with h | h
    · simp [h]
    · by_cases hb : List.foldl (hashStep x st p v0) [] ml = []
      · simp [hb]
      · simp only [ne_eq, hb, not_false_eq_true, if_true]
        exact Or.inr h
  · simp [hh]

/-- with no `Short` recorded every commit hash resolves to the highest stored version -/
example : resolve exExt exStore exMl (lit "example.com/Foo") (lit "abc123") = lit "v1.0.0" := by decide +kernel

/-- **anything not stored yields 404**: a response other than 404 is only given to a URL of the form
`/mod/<enc>/@v/<file>` where `<enc>` unescapes to a path `p` and either `<file>` is `list` and some
version of `p` is stored, or `<file>` is `<encV>.<ext>`, `<encV>` unescapes to a version `v0`, and the
version served — `v0` itself unless `v0` is a commit hash (all lower-case hex) — is stored for `p`.
This is proved from the membership test that `handler` performs before `readArchive`. -/
theorem not_stored_404 (x : Ext) (ml : List ModVer) (st : Store) (who : Bytes → Option (Bytes × Bytes))
    (u : Bytes) (h : handler x ml st who u ≠ .notFound) :
    ∃ enc file p, u = url enc file ∧ unescapePath enc = some p ∧
      ((file = lit "list" ∧ ∃ v, Stored ml p v) ∨
       (∃ encV ext v0, file = encV ++ lit "." ++ ext ∧ unescapeVersion encV = some v0 ∧
          Stored ml p (resolve x st ml p v0) ∧ (allHex v0 = false → Stored ml p v0))) := by
  have hl : lit "list" = Gen.Proxy.listName := by decide +kernel
  have hdot : lit "." = [46] := by decide +kernel
  unfold handler at h
  cases hr : route u with
  | none => simp [hr] at h
  | some ef =>
    obtain ⟨enc, file⟩ := ef
    simp only [hr] at h
    have hu := route_spec hr
    unfold serveRouted at h
    cases hp : unescapePath enc with
    | none => simp [hp] at h
    | some p =>
      simp only [hp] at h
      refine ⟨enc, file, p, by rw [url_eq]; exact hu, hp, ?_⟩
      by_cases hlist : file = Gen.Proxy.listName
      · left
        simp only [hlist, if_true] at h
        refine ⟨by rw [hl]; exact hlist, ?_⟩
        unfold listResponse at h
        cases hv : listVersions ml p with
        | nil => simp [hv] at h
        | cons v vs =>
          have : v ∈ listVersions ml p := by simp [hv]
          exact ⟨v, ((mem_listVersions ml p v).mp this).1⟩
      · right
        simp only [hlist, if_false] at h
        cases hs : splitExt file with
        | none => simp [hs] at h
        | some ee =>
          obtain ⟨encV, ext⟩ := ee
          simp only [hs] at h
          cases hv : unescapeVersion encV with
          | none => simp [hv] at h
          | some v0 =>
            simp only [hv] at h
            refine ⟨encV, ext, v0, by rw [hdot, splitExt_spec hs]; simp, hv, ?_⟩
            unfold serveFile at h
            have hck : Gen.Proxy.handlerChecksModList = true := rfl
            by_cases hc : ml.contains (⟨p, resolve x st ml p v0⟩ : ModVer) = true
            · have hm : Stored ml p (resolve x st ml p v0) := List.contains_iff_mem.mp hc
              refine ⟨hm, ?_⟩
              intro hh
              have : resolve x st ml p v0 = v0 := by simp [resolve, hh]
              rw [this] at hm
              exact hm
            · have hc' : ml.contains (⟨p, resolve x st ml p v0⟩ : ModVer) = false := by simpa using hc
              simp only [hck, hc', Bool.not_false, Bool.and_self, if_true] at h
              exact absurd rfl h

example : handler exExt exMl exStore (fun _ => none) (url (lit "example.com/!foo") (lit "v1.0.1.info")) = .notFound := by
  decide +kernel
/-- the aliasing request of the defect fixed by 3b75cd6: `example.com` + version `!foo_v1.0.0` has the
same archive name as the stored module, and is not served -/
example : archiveBase (lit "example.com") (lit "Foo_v1.0.0") = archiveBase (lit "example.com/Foo") (lit "v1.0.0") ∧
    handler exExt exMl exStore (fun _ => none) (url (lit "example.com") (lit "!foo_v1.0.0.zip")) = .notFound := by
  decide +kernel

/-- the same in the direct form: a well-formed request for a version (not a commit hash) that is not
stored is answered 404, whatever the extension and whatever files exist in the directory -/
theorem unstored_version_404 (x : Ext) (ml : List ModVer) (st : Store) (who : Bytes → Option (Bytes × Bytes))
    {p v ep ev : Bytes} (hep : escapePath p = some ep) (hev : escapeVersion v = some ev)
    (hhex : allHex v = false) (hns : ¬ Stored ml p v) (ext : Bytes) (hext : (46 : UInt8) ∉ ext) :
    handler x ml st who (url ep (ev ++ lit "." ++ ext)) = .notFound := by
  have hdot : lit "." = [46] := by decide +kernel
  rw [url_eq, hdot]
  unfold handler
  have hfile : [47, 109, 111, 100, 47] ++ ep ++ [47, 64, 118, 47] ++ (ev ++ [46] ++ ext)
      = [47, 109, 111, 100, 47] ++ ep ++ [47, 64, 118, 47] ++ (ev ++ 46 :: ext) := by simp
  rw [hfile, route_canonical ep _ (escapePath_no_at hep)]
  simp only
  rw [serveRouted_file x ml st who ext hep hev hext]
  unfold serveFile
  have hres : resolve x st ml p v = v := by simp [resolve, hhex]
  have hck : Gen.Proxy.handlerChecksModList = true := rfl
  have hc : ml.contains (⟨p, v⟩ : ModVer) = false := by
    cases h : ml.contains (⟨p, v⟩ : ModVer) with
    | false => rfl
    | true => exact absurd (List.contains_iff_mem.mp h) hns
  simp only [hres, hck, hc, Bool.not_false, Bool.and_self, if_true]

/-- the archive `example.com_!foo_v1.0.0.txt` exists, yet `example.com@Foo_v1.0.0` (same file name) is 404 -/
example : handler exExt exMl exStore (fun _ => none) (url (lit "example.com") (lit "!foo_v1.0.0" ++ lit "." ++ lit "info")) = .notFound :=
  unstored_version_404 exExt exMl exStore _ (p := lit "example.com") (v := lit "Foo_v1.0.0") (by decide +kernel) (by decide +kernel)
    (by decide +kernel) (by decide +kernel) _ (by decide +kernel)

/-! ### 6. concurrency: responses do not depend on the caches -/

/-- **Responses are the same under any number of concurrent requests.**  Given the once-per-key
semantics of `par.Cache` (`ValidWho`: the cached zip of an archive was produced by the closure of some
request that passed the membership test for that archive), the response to a request is a function of
`(modList, directory, URL)` alone: it equals the response of a server whose caches are empty, whatever
other requests ran before or are racing with it. -/
theorem response_independent_of_cache (x : Ext) {st : Store} {ml : List ModVer} {who : Bytes → Option (Bytes × Bytes)}
    (hml : readModList st = some ml) (hns : NoSlash st) (hwho : ValidWho ml who) (u : Bytes) :
    handler x ml st who u = handler x ml st (fun _ => none) u := by
  unfold handler
  cases route u with
  | none => rfl
  | some ef =>
    obtain ⟨enc, file⟩ := ef
    simp only
    unfold serveRouted
    cases unescapePath enc with
    | none => rfl
    | some p =>
      simp only
      by_cases hl : file = Gen.Proxy.listName
      · simp [hl]
      · simp only [hl, if_false]
        cases splitExt file with
        | none => rfl
        | some ee =>
          obtain ⟨encV, ext⟩ := ee
          simp only
          cases unescapeVersion encV with
          | none => rfl
          | some v0 => exact serveFile_cache_independent x hml hns hwho p v0 ext

/-- a non-trivial admissible cache state: the zip of the example archive was built by an earlier call -/
def exWho : Bytes → Option (Bytes × Bytes) := fun n =>
  if n = lit "example.com_!foo_v1.0.0" then some (lit "example.com/Foo", lit "v1.0.0") else none

example : ValidWho exMl exWho ∧
    handler exExt exMl exStore exWho (url (lit "example.com/!foo") (lit "v1.0.0.zip"))
    = handler exExt exMl exStore (fun _ => none) (url (lit "example.com/!foo") (lit "v1.0.0.zip")) := by
  have hv : ValidWho exMl exWho := by
    intro name p' v' h
    unfold exWho at h
    split at h
    · simp only [Option.some.injEq, Prod.mk.injEq] at h
      obtain ⟨rfl, rfl⟩ := h
      subst name
      decide +kernel
    · cases h
  exact ⟨hv, response_independent_of_cache exExt (by decide +kernel) (by unfold NoSlash; decide +kernel) hv _⟩

/-- **any sequence of requests** against one server (the zip cache filling up as it goes) gets the
responses a fresh server would give to each request on its own -/
theorem sequential_run_pure (x : Ext) {st : Store} {ml : List ModVer} (hml : readModList st = some ml) (hns : NoSlash st) :
    ∀ (urls : List Bytes) (cache : List (Bytes × (Bytes × Bytes))), ValidWho ml (fun n => cache.lookup n) →
      runSeq x ml st cache urls = urls.map (handler x ml st (fun _ => none)) := by
  intro urls
  induction urls with
  | nil => intro _ _; rfl
  | cons u rest ih =>
    intro cache hv
    unfold runSeq
    simp only [List.map_cons]
    rw [response_independent_of_cache x hml hns hv u]
    congr 1
    apply ih
    cases hz : zipKeyOf x ml st u with
    | none => simpa using hv
    | some kv =>
      obtain ⟨name, pv⟩ := kv
      simp only
      by_cases hsome : (cache.lookup name).isSome = true
      · simpa [hsome] using hv
      · simp only [hsome, Bool.false_eq_true, if_false]
        intro n p' v' hn
        simp only [List.lookup_cons] at hn
        by_cases hnn : (n == name) = true
        · simp only [hnn] at hn
          obtain ⟨pp, vv⟩ := pv
          simp only [Option.some.injEq, Prod.mk.injEq] at hn
          obtain ⟨rfl, rfl⟩ := hn
          have := zipKeyOf_valid hz
          rw [eq_of_beq hnn]
          exact this
        · simp only [hnn] at hn
          exact hv n p' v' hn

example : runSeq exExt exMl exStore []
    [url (lit "example.com") (lit "!foo_v1.0.0.zip"), url (lit "example.com/!foo") (lit "v1.0.0.zip"), url (lit "example.com/!foo") (lit "v1.0.0.zip")]
    = [.notFound, .zip [⟨lit "example.com/Foo@v1.0.0/go.mod", lit "m"⟩, ⟨lit "example.com/Foo@v1.0.0/sub/.keep", []⟩],
       .zip [⟨lit "example.com/Foo@v1.0.0/go.mod", lit "m"⟩, ⟨lit "example.com/Foo@v1.0.0/sub/.keep", []⟩]] := by
  decide +kernel

/-! ### `allHex` of the Go source itself

`GIV.Go.Proxy.allHex` is the Lean translation of goproxytest/allhex.go, regenerated from /repo's working tree on every
check run (harness/internal/go2lean → GIV/Gen/ProxyGo.lean).  The handler uses it to decide whether a requested
version is a commit-hash prefix that has to be resolved to a stored pseudo-version. -/

/-- The translated `allHex` never panics (`rev[i]` for `i` in `range len(rev)`) and is the model's `allHex`:
true exactly for strings of lower-case hexadecimal digits. -/
theorem go_allHex_agrees (rev : Bytes) :
    GIV.Go.Proxy.allHex rev = some (GIV.Proxy.allHex rev) ∧
    (GIV.Proxy.allHex rev = true ↔ ∀ c ∈ rev, (48 ≤ c ∧ c ≤ 57) ∨ (97 ≤ c ∧ c ≤ 102)) := by
  refine ⟨GIV.Go.Proxy.go_allHex_eq rev, ?_⟩
  have hr : Gen.Proxy.hexRanges = [(48, 57), (97, 102)] := rfl
  simp [GIV.Proxy.allHex, hr, List.all_eq_true]

-- the generated definition, evaluated by the kernel: "0123abcdef" and "0123abcdeg"
example : GIV.Go.Proxy.allHex [48, 49, 50, 51, 97, 98, 99, 100, 101, 102] = some true := by decide +kernel
example : GIV.Go.Proxy.allHex [48, 49, 50, 51, 97, 98, 99, 100, 101, 103] = some false := by decide +kernel

/-! ### golang.org/x/mod/semver, translated from the library source the proxy is built against

  `GIV.Go.Semver.*` (GIV/Gen/SemverGo.lean) is regenerated on every run from
  `GOMODCACHE/golang.org/x/mod@<the version /repo's go.mod requires>/semver/semver.go`; the model's
  `semverParse` / `semverIsValid` / `semverMajor` / `semverBuild` / `semverCompare` (until now transcribed and
  correspondence-checked only) are what it computes, for every string. -/

/-- For all strings `v`, `w`: no index, slice or loop budget of the translated `parse`, `IsValid`, `Major`,
`Build`, `Compare` (and of everything they call) ever fails, and
* `parse v` returns `ok = semverIsValid v`, and when ok a struct whose `major minor patch prerelease build` are
  the model's `Parsed` (`ofGo`) and whose `short` is ".0.0" / ".0" / "" for vMAJOR / vMAJOR.MINOR / a full version;
* `IsValid`, `Major`, `Build`, `Compare` are the model's `semverIsValid`, `semverMajor`, `semverBuild`, `semverCompare`. -/
theorem go_semver_agrees (v w : Bytes) :
    (∃ g, GIV.Go.Semver.parse v = some (g, semverIsValid v) ∧
      ∀ p, semverParse v = some p → GIV.SemverGo.ofGo g = p ∧ g.short = GIV.SemverGo.semverShort v) ∧
    GIV.Go.Semver.IsValid v = some (semverIsValid v) ∧
    GIV.Go.Semver.Major v = some (semverMajor v) ∧
    GIV.Go.Semver.Build v = some (semverBuild v) ∧
    GIV.Go.Semver.Compare v w = some (semverCompare v w) :=
  ⟨GIV.SemverGo.parse_eq v, GIV.SemverGo.IsValid_eq v, GIV.SemverGo.Major_eq v, GIV.SemverGo.Build_eq v,
   GIV.SemverGo.Compare_eq v w⟩

-- the generated definitions, evaluated by the kernel (shortened forms are valid in x/mod; the "v" is required)
example : GIV.Go.Semver.IsValid (lit "v1.2.3-pre.1+meta") = some true := by decide +kernel
example : GIV.Go.Semver.IsValid (lit "v1.02.3") = some false := by decide +kernel
example : GIV.Go.Semver.IsValid (lit "v1.2") = some true := by decide +kernel
example : GIV.Go.Semver.IsValid (lit "1.2.3") = some false := by decide +kernel
example : GIV.Go.Semver.IsValid (lit "v1.2.3-01") = some false := by decide +kernel
example : GIV.Go.Semver.IsValid (lit "v1.2.3-pre..1") = some false := by decide +kernel
example : GIV.Go.Semver.Major (lit "v2.1.0") = some (lit "v2") := by decide +kernel
example : GIV.Go.Semver.Build (lit "v2.0.0+incompatible") = some (lit "+incompatible") := by decide +kernel
example : GIV.Go.Semver.Canonical (lit "v1.2") = some (lit "v1.2.0") := by decide +kernel
example : GIV.Go.Semver.Canonical (lit "v1.2.3+meta") = some (lit "v1.2.3") := by decide +kernel
example : GIV.Go.Semver.Compare (lit "v1.2.3-pre.2") (lit "v1.2.3-pre.10") = some (-1) := by decide +kernel
example : GIV.Go.Semver.Compare (lit "v1.10.0") (lit "v1.9.0") = some 1 := by decide +kernel
example : GIV.Go.Semver.Compare (lit "v1.2.3-rc1") (lit "v1.2.3") = some (-1) := by decide +kernel
example : GIV.Go.Semver.Compare (lit "v1.2") (lit "v1.2.0+x") = some 0 := by decide +kernel
example : GIV.Go.Semver.Compare (lit "bad") (lit "v0.0.0") = some (-1) := by decide +kernel

/-- `Canonical` (the model has no counterpart; `semverCanonical` is its specification over the model's
`semverParse`): the translated function never fails — `v[:len(v)-len(p.build)]` is in range because the build
field is a suffix of `v` (`build_len`) — and returns "" for an invalid version, the version without its build
suffix when there is one, and otherwise the version completed by ".0.0" / ".0" / "". -/
theorem go_semver_canonical (v : Bytes) :
    GIV.Go.Semver.Canonical v = some (GIV.SemverGo.semverCanonical v) ∧
    (semverIsValid v = false → GIV.SemverGo.semverCanonical v = []) ∧
    (∀ p, semverParse v = some p → p.build = [] →
      GIV.SemverGo.semverCanonical v = v ++ GIV.SemverGo.semverShort v) ∧
    (∀ p, semverParse v = some p → p.build ≠ [] →
      GIV.SemverGo.semverCanonical v = v.take (v.length - p.build.length)) := by
  refine ⟨GIV.SemverGo.Canonical_eq v, ?_, ?_, ?_⟩
  · intro h
    unfold semverIsValid at h
    cases hp : semverParse v with
    | none => simp [GIV.SemverGo.semverCanonical, hp]
    | some p => simp [hp] at h
  · intro p hp hb; simp [GIV.SemverGo.semverCanonical, hp, hb]
  · intro p hp hb; simp [GIV.SemverGo.semverCanonical, hp, hb]

example : GIV.SemverGo.semverCanonical (lit "v1") = lit "v1.0.0" ∧
    GIV.SemverGo.semverCanonical (lit "v1.2.3-rc.1+build.5") = lit "v1.2.3-rc.1" := by decide +kernel

/-- The parts of `parse` and `Compare`, each against the model's transcription, for every input: the byte class,
the two "is a number" scans, `parseInt` (Go's `("", "", false)` is the model's `none`), `parsePrerelease` /
`parseBuild` on a string that starts with '-' / '+' (the only way `parse` calls them), `compareInt`, `nextIdent`,
and `comparePrerelease` on every pair that is equal, has an empty side or starts with the same byte — a
prerelease field is empty or starts with '-' (`prerelease_head`), so `Compare` passes nothing else.  (On
`"-a"`, `".a"` Go's `comparePrerelease` answers -1 and the model's 0: the model's comment "not reached" is
what `prerelease_head` proves.) -/
theorem go_semver_parts :
    (∀ c, GIV.Go.Semver.isIdentChar c = some (isIdentChar c)) ∧
    (∀ v, GIV.Go.Semver.isBadNum v = some (isBadNum v)) ∧
    (∀ v, GIV.Go.Semver.isNum v = some (v.all isDigit)) ∧
    (∀ v, GIV.Go.Semver.parseInt v = some (GIV.SemverGo.res3 (Proxy.parseInt v))) ∧
    (∀ r, GIV.Go.Semver.parsePrerelease (45 :: r) = some (GIV.SemverGo.res3 (Proxy.parsePrerelease (45 :: r)))) ∧
    (∀ r, GIV.Go.Semver.parseBuild (43 :: r) = some (GIV.SemverGo.res3 (Proxy.parseBuild (43 :: r)))) ∧
    (∀ x y, GIV.Go.Semver.compareInt x y = some (Proxy.compareInt x y)) ∧
    (∀ x, GIV.Go.Semver.nextIdent x = some (x.takeWhile (· ≠ 46), x.drop (x.takeWhile (· ≠ 46)).length)) ∧
    (∀ x y, x = [] ∨ y = [] ∨ x.head? = y.head? →
      GIV.Go.Semver.comparePrerelease x y = some (Proxy.comparePrerelease x y)) ∧
    (∀ v p, semverParse v = some p → p.prerelease = [] ∨ p.prerelease.head? = some 45) :=
  ⟨GIV.SemverGo.isIdentChar_eq, GIV.SemverGo.isBadNum_eq, GIV.SemverGo.isNum_eq,
   fun v => by rw [GIV.SemverGo.parseInt_eq, GIV.SemverGo.parseIntRes_eq],
   fun r => GIV.SemverGo.parsePrerelease_eq 45 r rfl, fun r => GIV.SemverGo.parseBuild_eq 43 r rfl,
   GIV.SemverGo.compareInt_eq, GIV.SemverGo.nextIdent_eq, GIV.SemverGo.comparePrerelease_eq,
   fun _ _ h => GIV.SemverGo.prerelease_head h⟩

example : GIV.Go.Semver.parseInt (lit "12.3") = some (lit "12", lit ".3", true) := by decide +kernel
example : GIV.Go.Semver.parseInt (lit "012") = some ([], [], false) := by decide +kernel
example : GIV.Go.Semver.comparePrerelease (lit "-a") (lit ".a") = some (-1) ∧
    Proxy.comparePrerelease (lit "-a") (lit ".a") = 0 := by decide +kernel

/-! ### golang.org/x/mod/module, translated from the library source

`proxy factgen` also translates `GOMODCACHE/golang.org/x/mod@<version /repo requires>/module/module.go` —
`modPathOK importPathOK fileNameOK firstPathOK checkElem checkPath splitGopkgIn SplitPathVersion CheckPath
CheckPathMajor MatchPathMajor Check escapeString unescapeString EscapePath EscapeVersion UnescapePath
UnescapeVersion` — into GIV.Gen.ModuleGo (namespace GIV.Go.Module; `for i, r := range s` iterates over the
(offset, rune) pairs `GoLib.runesIdx s`, errors are opaque `GoError`s, `CheckPath`'s deferred error wrapper runs at
every return, the Unicode tables are the parameter `u`).  GIV.Lemmas.ModuleGo* prove the translation equal to the
model's transcription (sections "golang.org/x/mod/module" of GIV.Model.Proxy), which until now was only
correspondence-checked.  Errors are compared as nil / non-nil (`Option.isNone`); `okOf (s, err)` is `some s` when
`err` is nil. -/

open GIV.ModuleGo (FoldOK okOf) in
/-- For all strings and all Unicode tables `u` whose `strings.EqualFold` is ASCII case-insensitive equality on ASCII
strings (`FoldOK`; nothing is assumed of `unicode.IsLetter`): no index, slice or loop of the translated functions
ever fails, and
* `UnescapePath`, `UnescapeVersion`, `EscapePath`, `EscapeVersion` (what the proxy decodes the file names of the
  served directory and the URLs with, and encodes archive names with) return the model's `unescapePath`,
  `unescapeVersion`, `escapePath`, `escapeVersion` — an error exactly where the model has `none`;
* `CheckPath` and `Check` (the list endpoint's filter) return nil exactly when the model's `checkPath` / `check` hold;
* `SplitPathVersion` is the model's `splitPathVersion`; `CheckPathMajor` is nil exactly when the model's
  `checkPathMajor` holds, and `MatchPathMajor` is that Boolean. -/
theorem go_module_agrees (u : GIV.GoLib.Unicode) (hu : FoldOK u) (e p v pm : Bytes) :
    (GIV.Go.Module.UnescapePath u e).map okOf = some (unescapePath e) ∧
    (GIV.Go.Module.UnescapeVersion u e).map okOf = some (unescapeVersion e) ∧
    (GIV.Go.Module.EscapePath u p).map okOf = some (escapePath p) ∧
    (GIV.Go.Module.EscapeVersion u v).map okOf = some (escapeVersion v) ∧
    (GIV.Go.Module.CheckPath u p).map Option.isNone = some (checkPath p) ∧
    (GIV.Go.Module.Check u p v).map Option.isNone = some (check p v) ∧
    GIV.Go.Module.SplitPathVersion u p = some (splitPathVersion p) ∧
    (GIV.Go.Module.CheckPathMajor u v pm).map Option.isNone = some (checkPathMajor v pm) ∧
    GIV.Go.Module.MatchPathMajor u v pm = some (checkPathMajor v pm) :=
  ⟨GIV.ModuleGo.UnescapePath_eq u hu e, GIV.ModuleGo.UnescapeVersion_eq u hu e, GIV.ModuleGo.EscapePath_eq u hu p,
   GIV.ModuleGo.EscapeVersion_eq u hu v, GIV.ModuleGo.CheckPath_eq u hu p, GIV.ModuleGo.Check_eq u hu p v,
   GIV.ModuleGo.SplitPathVersion_eq u p, GIV.ModuleGo.CheckPathMajor_eq u v pm, GIV.ModuleGo.MatchPathMajor_eq u v pm⟩

-- the hypothesis is satisfiable: the ASCII tables
example : GIV.ModuleGo.FoldOK GIV.GoLib.Unicode.ascii := GIV.ModuleGo.foldOK_ascii

/-- the ASCII tables, for the closed examples -/
abbrev exU : GIV.GoLib.Unicode := GIV.GoLib.Unicode.ascii

-- the generated definitions, evaluated by the kernel
example : GIV.Go.Module.UnescapePath exU (lit "github.com/!azure/x") = some (lit "github.com/Azure/x", none) := by
  decide +kernel
example : (GIV.Go.Module.UnescapePath exU (lit "a/!!b")).map (·.2.isSome) = some true := by decide +kernel
example : (GIV.Go.Module.UnescapePath exU (lit "github.com/Azure/x")).map (·.2.isSome) = some true := by decide +kernel
example : (GIV.Go.Module.UnescapePath exU (lit "example.com/x!")).map (·.2.isSome) = some true := by decide +kernel
example : GIV.Go.Module.UnescapeVersion exU (lit "v1.0.0-!r!c1") = some (lit "v1.0.0-RC1", none) := by decide +kernel
example : (GIV.Go.Module.UnescapeVersion exU (lit "v1/0")).map (·.2.isSome) = some true := by decide +kernel
example : GIV.Go.Module.EscapePath exU (lit "github.com/Azure/x") = some (lit "github.com/!azure/x", none) := by
  decide +kernel
example : GIV.Go.Module.EscapeVersion exU (lit "v1.0.0-RC1") = some (lit "v1.0.0-!r!c1", none) := by decide +kernel
example : GIV.Go.Module.SplitPathVersion exU (lit "example.com/m/v2") = some (lit "example.com/m", lit "/v2", true) := by
  decide +kernel
example : GIV.Go.Module.SplitPathVersion exU (lit "example.com/m/v1") = some (lit "example.com/m/v1", [], false) := by
  decide +kernel
example : GIV.Go.Module.SplitPathVersion exU (lit "gopkg.in/yaml.v2-unstable") =
    some (lit "gopkg.in/yaml", lit ".v2-unstable", true) := by decide +kernel
example : GIV.Go.Module.CheckPath exU (lit "example.com/m/v2") = some none := by decide +kernel
example : (GIV.Go.Module.CheckPath exU (lit "example.com/con.txt/x")).map Option.isSome = some true := by decide +kernel
example : (GIV.Go.Module.CheckPath exU (lit "example.com/abc~12")).map Option.isSome = some true := by decide +kernel
example : (GIV.Go.Module.CheckPath exU (lit "example.com//x")).map Option.isSome = some true := by decide +kernel
example : (GIV.Go.Module.CheckPath exU (lit "Example.com/x")).map Option.isSome = some true := by decide +kernel
example : (GIV.Go.Module.CheckPath exU [101, 46, 99, 47, 0xC3, 0xA9]).map Option.isSome = some true := by decide +kernel
example : GIV.Go.Module.Check exU (lit "example.com/m/v2") (lit "v2.1.0") = some none := by decide +kernel
example : (GIV.Go.Module.Check exU (lit "example.com/m/v2") (lit "v1.1.0")).map Option.isSome = some true := by
  decide +kernel
example : GIV.Go.Module.Check exU (lit "example.com/m") (lit "v2.0.0+incompatible") = some none := by decide +kernel
example : GIV.Go.Module.MatchPathMajor exU (lit "v0.0.0-20161208181325-20d25e280405") (lit ".v1") = some true := by
  decide +kernel

open GIV.ModuleGo (FoldOK okOf Ascii) in
/-- The parts, each against the model's transcription:
* `unescapeString` / `escapeString` for every byte string, valid UTF-8 or not (`("", false)` / an error is the
  model's `none`);
* `checkElem(elem, modulePath)` for every string, `checkElem(elem, filePath)` for every ASCII string (what
  `unescapeString` returns, `unescapeString_ascii`; on a string with a byte ≥ 128 Go consults `unicode.IsLetter`, the
  model answers false, and `EscapeVersion` — the only caller that passes such a string — then fails in
  `escapeString`) and without a panic for every string;
* `checkPath(path, modulePath)` = the model's `checkPathElems` (Go's UTF-8, `//` and trailing-slash tests are implied
  by the element tests); `splitGopkgIn` (Go's tests the `gopkg.in/` prefix itself);
* the character classes on runes: exact on ASCII, false from 128 on. -/
theorem go_module_parts (u : GIV.GoLib.Unicode) (hu : FoldOK u) :
    (∀ e, GIV.Go.Module.unescapeString u e =
      some (match unescapeString e with | some p => (p, true) | none => ([], false))) ∧
    (∀ s, (GIV.Go.Module.escapeString u s).map okOf = some (escapeString s)) ∧
    (∀ e p, unescapeString e = some p → Ascii p) ∧
    (∀ elem, (GIV.Go.Module.checkElem u elem 0).map Option.isNone = some (checkElem .modulePath elem)) ∧
    (∀ elem, Ascii elem → (GIV.Go.Module.checkElem u elem 2).map Option.isNone = some (checkElem .filePath elem)) ∧
    (∀ elem, ∃ r, GIV.Go.Module.checkElem u elem 2 = some r) ∧
    (∀ path, (GIV.Go.Module.checkPath u path 0).map Option.isNone = some (checkPathElems path)) ∧
    (∀ path, GIV.Go.Module.splitGopkgIn u path =
      some (if hasPrefix (lit "gopkg.in/") path then splitGopkgIn path else (path, [], false))) ∧
    (∀ c : UInt8, GIV.Go.Module.modPathOK u (c.toNat : Int) = some (modPathOK c) ∧
      GIV.Go.Module.firstPathOK u (c.toNat : Int) = some (firstPathOK c) ∧
      (c.toNat < 128 → GIV.Go.Module.fileNameOK u (c.toNat : Int) = some (fileNameOK c))) ∧
    (∀ r : Int, 128 ≤ r → GIV.Go.Module.modPathOK u r = some false ∧ GIV.Go.Module.firstPathOK u r = some false) :=
  ⟨GIV.ModuleGo.unescapeString_eq u, GIV.ModuleGo.escapeString_eq u, fun _ _ h => GIV.ModuleGo.unescapeString_ascii h,
   GIV.ModuleGo.checkElem_k0 u hu, GIV.ModuleGo.checkElem_k2 u hu, GIV.ModuleGo.checkElem_k2_total u,
   GIV.ModuleGo.checkPath_eq u hu, GIV.ModuleGo.splitGopkgIn_eq u,
   fun c => ⟨by rw [GIV.ModuleGo.modPathOK_go, GIV.ModuleGo.modPathOKI_byte],
     by rw [GIV.ModuleGo.firstPathOK_go, GIV.ModuleGo.firstPathOKI_byte],
     fun h => by rw [GIV.ModuleGo.fileNameOK_go, GIV.ModuleGo.fileNameOKI_byte u c h]⟩,
   fun r h => ⟨by rw [GIV.ModuleGo.modPathOK_go, GIV.ModuleGo.modPathOKI_hi r h],
     by rw [GIV.ModuleGo.firstPathOK_go, GIV.ModuleGo.firstPathOKI_hi r h]⟩⟩

example : GIV.Go.Module.unescapeString exU (lit "!a!bc") = some (lit "ABc", true) := by decide +kernel
example : GIV.Go.Module.unescapeString exU [97, 0xC3, 0xA9] = some ([], false) := by decide +kernel
example : (GIV.Go.Module.checkElem exU (lit "lpt1.x") 0).map Option.isSome = some true := by decide +kernel
example : GIV.Go.Module.checkElem exU (lit "v1.0.0+incompatible") 2 = some none := by decide +kernel
example : GIV.GoLib.runesIdx [0x61, 0xC3, 0xA9, 0x2F, 0xFF, 0x62] =
    [(0, 0x61), (1, 0xE9), (3, 0x2F), (4, 0xFFFD), (5, 0x62)] := by decide +kernel

open GIV.ModuleGo (FoldOK okOf) in
/-- The codec property (`unescape_escape`) restated over the translated library source: what the translated
`EscapePath` / `EscapeVersion` produce, the translated `UnescapePath` / `UnescapeVersion` decode to the original, and
conversely. -/
theorem go_codec_roundtrip (u : GIV.GoLib.Unicode) (hu : FoldOK u) (p e : Bytes) :
    ((GIV.Go.Module.EscapePath u p).map okOf = some (some e) ↔ (GIV.Go.Module.UnescapePath u e).map okOf = some (some p)) ∧
    ((GIV.Go.Module.EscapeVersion u p).map okOf = some (some e) ↔
      (GIV.Go.Module.UnescapeVersion u e).map okOf = some (some p)) := by
  rw [GIV.ModuleGo.EscapePath_eq u hu, GIV.ModuleGo.UnescapePath_eq u hu, GIV.ModuleGo.EscapeVersion_eq u hu,
    GIV.ModuleGo.UnescapeVersion_eq u hu]
  simp only [Option.some.injEq]
  exact ⟨⟨unescape_escape.1 p e, unescape_escape.2.2.1 p e⟩, ⟨unescape_escape.2.1 p e, unescape_escape.2.2.2 p e⟩⟩

example : (GIV.Go.Module.EscapePath exU (lit "github.com/Azure/x")).map GIV.ModuleGo.okOf =
      some (some (lit "github.com/!azure/x")) ∧
    (GIV.Go.Module.UnescapePath exU (lit "github.com/!azure/x")).map GIV.ModuleGo.okOf =
      some (some (lit "github.com/Azure/x")) := by decide +kernel

end GIV.C20
