import GIV.Model.Proxy
namespace GIV.C20
open GIV GIV.Proxy

/-- URLs outside `/mod/` are not found. -/
theorem outside_prefix_404 (x : Ext) (ml : List ModVer) (st : Store) (who : Bytes → Option (Bytes × Bytes))
    (url : Bytes) (h : hasPrefix Gen.Proxy.urlPrefix url = false) : handler x ml st who url = .notFound := by
  simp [handler, h]

example : handler ⟨fun _ => [], fun _ => []⟩ [] [] (fun _ => none) (lit "/x/example.com/a/@v/list") = .notFound :=
  outside_prefix_404 _ _ _ _ _ (by decide +kernel)

end GIV.C20
