/-
  C16 — UpdateScripts rewrites only the mismatching golden entries.

  Model: GIV.Model.ScriptUpdate (`doCmp`, `record`, `applyUpdates`, `finish`) over the txtar model;
  the verdict side uses the skeleton of GIV.Model.Script, so `update_makes_pass` holds for every
  `Config` (every command semantics).  The txtar facts come from the C03/C14 proofs
  (GIV.Lemmas.TxtarParse / TxtarQuote): `parse_wf`, `parse_format_of_wf`, `quote_bodyOK`,
  `bodyOK_iff_needsQuote`.

  Regenerated facts enter through `cmp_facts` and `apply_facts` (and the txtar fact classes).
-/
import GIV.Model.ScriptUpdate
import GIV.Model.ScriptCmds
import GIV.Lemmas.TsRun
import GIV.Lemmas.TsRunUpdate
import GIV.Lemmas.TsRunCmds
import GIV.Lemmas.TsRunCmdsUpdate
import GIV.Lemmas.TxtarQuote
import GIV.Lemmas.TsRunRerun

namespace GIV.C16
open GIV GIV.Txtar GIV.TsRun GIV.TsRun.Update

variable {σ : Type}

def bs (s : String) : Bytes := s.toList.map (fun ch => ch.toNat.toUInt8)

/-- (for the examples) -/
instance {ε α : Type} [DecidableEq ε] [DecidableEq α] : DecidableEq (Except ε α)
  | .ok a, .ok b => if h : a = b then isTrue (by rw [h]) else isFalse (by intro h'; cases h'; exact h rfl)
  | .error a, .error b => if h : a = b then isTrue (by rw [h]) else isFalse (by intro h'; cases h'; exact h rfl)
  | .ok _, .error _ => isFalse (by intro h; cases h)
  | .error _, .ok _ => isFalse (by intro h; cases h)

theorem cmp_facts : CmpFacts := ⟨rfl, rfl, rfl, rfl⟩

theorem apply_facts : ApplyFacts := ⟨rfl, rfl, rfl, rfl⟩

/-! ### which comparisons record an update -/

/-- doCmdCmp records an update exactly for a plain (`cmp`, not `cmpenv`), non-negated comparison
that mismatches, under UpdateScripts, whose second path is a key of `ts.scriptFiles` — and what it
records is the entry's name with the *actual* content (the first file). -/
theorem only_plain_cmp_updates (i : CmpIn) (n c : Bytes) :
    doCmp i = .recorded n c ↔
      (i.updateScripts = true ∧ i.env = false ∧ i.neg = false ∧ i.text1 ≠ i.text2 ∧
        i.entry = some n ∧ c = i.text1) := by
  exact doCmp_recorded_iff cmp_facts i n c

example : doCmp ⟨true, false, false, bs "new\n", bs "old\n", some (bs "g")⟩ = .recorded (bs "g") (bs "new\n") := by decide

/-- In every other case the comparison is the plain one: `cmpenv`, `! cmp`, a second file outside the
archive, or no UpdateScripts — nothing is recorded, a mismatch is a failure. -/
theorem no_update_otherwise (i : CmpIn)
    (h : i.updateScripts = false ∨ i.env = true ∨ i.neg = true ∨ i.entry = none) :
    doCmp i = (if i.neg then (if i.text1 = i.text2 then .fatal else .ok)
               else if i.text1 = i.text2 then .ok else .fatal) := by
  rw [doCmp_eq cmp_facts]
  cases hneg : i.neg <;> simp
  by_cases heq : i.text1 = i.text2 <;> simp [heq]
  rcases h with h | h | h | h <;> simp_all

example : doCmp ⟨true, true, false, bs "new\n", bs "old\n", some (bs "g")⟩ = .fatal ∧
    doCmp ⟨true, false, true, bs "new\n", bs "old\n", some (bs "g")⟩ = .ok ∧
    doCmp ⟨true, false, false, bs "new\n", bs "old\n", none⟩ = .fatal ∧
    doCmp ⟨false, false, false, bs "new\n", bs "old\n", some (bs "g")⟩ = .fatal := by decide

/-- … and without a recorded update the script file is not written at all (not even reformatted). -/
theorem no_update_no_write (v : Verdict) (file : Bytes) (a : Archive) : finish v file a [] = (v, file) := by
  have : Gen.TsRunUpdate.applyNoopWhenEmpty = true := rfl
  simp [finish, this]

/-- `ts.scriptUpdates` is a map: the last content recorded for a name is the one that is applied. -/
theorem record_last_wins (u : Updates) (n c m : Bytes) :
    lookupU (record u n c) n = some c ∧ (m ≠ n → lookupU (record u n c) m = lookupU u m) :=
  ⟨lookupU_record_self u n c, lookupU_record_other u n c m⟩

/-! ### what the rewrite changes -/

/-- Frame: the script text, the number, order and names of the entries, and every entry without a
recorded update are unchanged. -/
theorem apply_frame (a a' : Archive) (u : Updates) (h : applyUpdates a u = .ok a') :
    a'.comment = a.comment ∧
    a'.files.map (·.name) = a.files.map (·.name) ∧
    ∀ (i : Nat) (f : File), a.files[i]? = some f → lookupU u f.name = none → a'.files[i]? = some f := by
  obtain ⟨hc, hf⟩ := applyUpdates_ok h
  refine ⟨hc, applyFiles_names u _ _ hf, ?_⟩
  intro i f hi hn
  obtain ⟨f', hf', hap⟩ := (applyFiles_ok u _ _ hf).2 i f hi
  rw [hf', (applyFile_ok hap).2.1 hn]

/-- An entry with a recorded update holds the actual content — verbatim when it needs no quoting,
as `txtar.Quote` of it otherwise. -/
theorem apply_sets (a a' : Archive) (u : Updates) (h : applyUpdates a u = .ok a')
    (i : Nat) (f : File) (c : Bytes) (hi : a.files[i]? = some f) (hc : lookupU u f.name = some c) :
    ∃ f', a'.files[i]? = some f' ∧ f'.name = f.name ∧
      ((needsQuote c = some false ∧ f'.data = c) ∨ (needsQuote c = some true ∧ quote c = .ok f'.data)) := by
  obtain ⟨_, hf⟩ := applyUpdates_ok h
  obtain ⟨f', hf', hap⟩ := (applyFiles_ok u _ _ hf).2 i f hi
  exact ⟨f', hf', (applyFile_ok hap).1, updData_ok apply_facts ((applyFile_ok hap).2.2 c hc)⟩

example : applyUpdates ⟨bs "cmp stdout g\n", [⟨bs "in", bs "x\n"⟩, ⟨bs "g", bs "old\n"⟩, ⟨bs "h", bs "old\n"⟩]⟩
      [(bs "g", bs "-- x --\n"), (bs "h", bs "new")] =
    .ok ⟨bs "cmp stdout g\n", [⟨bs "in", bs "x\n"⟩, ⟨bs "g", bs ">-- x --\n"⟩, ⟨bs "h", bs "new"⟩]⟩ := by decide +kernel

/-! ### the verdict -/

/-- With UpdateScripts a mismatching in-archive `cmp` ends `ok` instead of calling Fatalf
(`only_plain_cmp_updates`), so a script whose lines all end `ok` — those comparisons included —
passes, and the deferred rewrite stores the formatted archive. For every command semantics. -/
theorem update_makes_pass (c : Config σ) (s s' : σ) (script file : Bytes) (a a' : Archive) (u : Updates)
    (hok : okFold c s (splitScript script) = some s')
    (happly : applyUpdates a u = .ok a') (hu : u ≠ []) :
    finish (run c s script).verdict file a u = (.pass, format a') := by
  have hpass : (run c s script).verdict = .pass := runLines_okFold_pass c _ 0 s s' hok
  have hne : u.isEmpty = false := by cases u <;> simp_all
  have : Gen.TsRunUpdate.applyWritesFormat = true := rfl
  simp [finish, hne, happly, hpass, this]

/-- The concrete `cmp` of the model under UpdateScripts: a mismatch against an archive entry ends
`ok` and records (entry name, actual content); nothing else of the state changes. -/
theorem cmp_update_ok (p : Cmds.P) (hp : p.updateScripts = true) (failed : Bool) (s : Cmds.St)
    (name1 name2 text1 text2 entry : Bytes) (abs2 : Cmds.Path)
    (hne : name1 ≠ name2)
    (h1 : Cmds.readArg s name1 = .ok text1)
    (h2 : Cmds.resolve s.cd name2 = some abs2)
    (h3 : s.fs.read abs2 = some text2)
    (hd : text1 ≠ text2)
    (he : s.scriptFiles.lookup abs2 = some entry) :
    Cmds.cmdCmp p failed s false [name1, name2] = ({ s with updates := record s.updates entry text1 }, .ok) := by
  have hrec : doCmp ⟨p.updateScripts, false, false, text1, text2, some entry⟩ = .recorded entry text1 :=
    (only_plain_cmp_updates _ _ _).2 ⟨hp, rfl, rfl, hd, rfl, rfl⟩
  simp [Cmds.cmdCmp, Cmds.doCmdCmp, hne, h1, h2, h3, he, hrec, Cmds.okay]

/-- In the concrete command table no command touches `ts.scriptFiles`, and `ts.scriptUpdates` changes
only through `cmp` (never `cmpenv`, never a negated `cmp`, never without UpdateScripts): by one
`record` of the actual content under the name of the archive entry the second argument resolves to
— and that invocation ends `ok`. -/
theorem updates_only_by_cmp (p : Cmds.P) (name : Bytes) (f : Cmd Cmds.St)
    (hl : lookup (Cmds.config p) name = some f) (failed : Bool) (s : Cmds.St) (neg : Bool) (args : List Bytes) :
    (f failed s neg args).1.scriptFiles = s.scriptFiles ∧
    ((f failed s neg args).1.updates = s.updates ∨
      (name = lit "cmp" ∧ neg = false ∧ p.updateScripts = true ∧
        ∃ name1 name2 abs2 n text1, args = [name1, name2] ∧ Cmds.resolve s.cd name2 = some abs2 ∧
          s.scriptFiles.lookup abs2 = some n ∧ Cmds.readArg s name1 = .ok text1 ∧
          f failed s neg args = ({ s with updates := record s.updates n text1 }, .ok))) := by
  rcases lookup_cases _ _ _ hl with hg | hl
  · simp only [Cmds.config] at hg
    revert hg
    generalize f = g
    intro hg
    by_cases h3 : name = lit "skip"
    · rw [Cmds.builtin_skip p name g hg h3]
      exact ⟨(Cmds.skip_updates failed s neg args).2, Or.inl (Cmds.skip_updates failed s neg args).1⟩
    · by_cases h1 : name = lit "cmp"
      · refine ⟨(Cmds.builtin_cmp p name g hg (Or.inl h1) failed s neg args).2.2, ?_⟩
        have hg' : g = Cmds.cmdCmp p := by
          have hm := Cmds.mem_of_lookup _ _ _ hg
          subst h1
          simp only [Cmds.builtinTable, List.mem_cons, Prod.mk.injEq, List.mem_nil_iff, or_false] at hm
          rcases hm with ⟨hk, rfl⟩ | ⟨hk, rfl⟩ | ⟨hk, rfl⟩ | ⟨hk, rfl⟩ | ⟨hk, rfl⟩ | ⟨hk, rfl⟩ | ⟨hk, rfl⟩ | ⟨hk, rfl⟩ |
            ⟨hk, rfl⟩ | ⟨hk, rfl⟩ | ⟨hk, rfl⟩ | ⟨hk, rfl⟩ | ⟨hk, rfl⟩ | ⟨hk, rfl⟩ | ⟨hk, rfl⟩ | ⟨hk, rfl⟩ | ⟨hk, rfl⟩ |
            ⟨hk, rfl⟩ | ⟨hk, rfl⟩ | ⟨hk, rfl⟩ | ⟨hk, rfl⟩ | ⟨hk, rfl⟩ | ⟨hk, rfl⟩ | ⟨hk, rfl⟩
          all_goals first
            | rfl
            | (exfalso; revert hk; decide +kernel)
        subst hg'
        rcases Cmds.doCmdCmp_updates cmp_facts p s neg args false with h | ⟨n1, n2, t1, abs2, raw2, t2, n, ha, hr1, hr2, hr3, hrec, hres⟩
        · exact Or.inl h
        · have := (only_plain_cmp_updates _ n t1).1 hrec
          exact Or.inr ⟨h1, this.2.2.1, this.1, n1, n2, abs2, n, t1, ha, hr2, this.2.2.2.2.1, hr1, hres⟩
      · by_cases h2 : name = lit "cmpenv"
        · refine ⟨(Cmds.builtin_cmp p name g hg (Or.inr h2) failed s neg args).2.2, Or.inl ?_⟩
          have hg' : g = Cmds.cmdCmpenv p := by
            have hm := Cmds.mem_of_lookup _ _ _ hg
            subst h2
            simp only [Cmds.builtinTable, List.mem_cons, Prod.mk.injEq, List.mem_nil_iff, or_false] at hm
            rcases hm with ⟨hk, rfl⟩ | ⟨hk, rfl⟩ | ⟨hk, rfl⟩ | ⟨hk, rfl⟩ | ⟨hk, rfl⟩ | ⟨hk, rfl⟩ | ⟨hk, rfl⟩ | ⟨hk, rfl⟩ |
              ⟨hk, rfl⟩ | ⟨hk, rfl⟩ | ⟨hk, rfl⟩ | ⟨hk, rfl⟩ | ⟨hk, rfl⟩ | ⟨hk, rfl⟩ | ⟨hk, rfl⟩ | ⟨hk, rfl⟩ | ⟨hk, rfl⟩ |
              ⟨hk, rfl⟩ | ⟨hk, rfl⟩ | ⟨hk, rfl⟩ | ⟨hk, rfl⟩ | ⟨hk, rfl⟩ | ⟨hk, rfl⟩ | ⟨hk, rfl⟩
            all_goals first
              | rfl
              | (exfalso; revert hk; decide +kernel)
          subst hg'
          rcases Cmds.doCmdCmp_updates cmp_facts p s neg args true with h | ⟨n1, n2, t1, abs2, raw2, t2, n, ha, hr1, hr2, hr3, hrec, hres⟩
          · exact h
          · have := (only_plain_cmp_updates _ n t1).1 hrec
            simp at this
        · have := Cmds.builtin_tame p name g hg h1 h2 h3 failed s neg args
          exact ⟨this.2.2, Or.inl this.2.1⟩
  · simp only [Cmds.config] at hl
    have := Cmds.custom_tame p name f hl failed s neg args
    exact ⟨this.2.2, Or.inl this.2.1⟩

/-- An update that needs quoting and cannot be quoted (no final newline, or not UTF-8) fails the run
cleanly — T.FailNow, whatever the verdict was — and leaves the script file untouched. -/
theorem update_unquotable_fails (v : Verdict) (file : Bytes) (a : Archive) (u : Updates)
    (hu : u ≠ []) (h : applyUpdates a u = .error .quote) :
    finish v file a u = (.fail, file) ∧
    ∃ f ∈ a.files, ∃ c, lookupU u f.name = some c ∧ needsQuote c = some true ∧ ∃ e, quote c = .error e := by
  have hne : u.isEmpty = false := by cases u <;> simp_all
  have hcaught : Gen.TsRunUpdate.updateFatalCaught = true := rfl
  refine ⟨by simp [finish, hne, h, hcaught], ?_⟩
  obtain ⟨f, hf, hfe⟩ := applyFiles_error u _ _ (applyUpdates_error h)
  obtain ⟨c, hc, hce⟩ := applyFile_error hfe
  exact ⟨f, hf, c, hc, updData_quote_error apply_facts hce⟩

example : applyUpdates ⟨bs "cmp stdout g\n", [⟨bs "g", bs "old\n"⟩]⟩ [(bs "g", bs "a\n-- x --")] = .error .quote ∧
    finish .pass (bs "F") ⟨bs "cmp stdout g\n", [⟨bs "g", bs "old\n"⟩]⟩ [(bs "g", bs "a\n-- x --")] = (.fail, bs "F") := by
  decide +kernel

/-! ### the fix-point -/

/-- The rewritten file parses back to exactly the updated archive, as long as every stored content
that was not quoted is empty or newline-terminated (quoted contents always are): nothing else in
the file is disturbed by the new data. -/
theorem updated_archive_reparses (file : Bytes) (a a' : Archive) (u : Updates)
    (hparse : parse file = some a) (happly : applyUpdates a u = .ok a')
    (hnl : ∀ f ∈ a.files, ∀ c, lookupU u f.name = some c → c = [] ∨ c.getLast? = some NL) :
    parse (format a') = some a' := by
  have : FLen := ⟨rfl⟩
  have : FCR := ⟨rfl⟩
  have : FLit := ⟨rfl, rfl⟩
  have : FNQ := ⟨rfl⟩
  have hwf : WF a := parse_wf hparse
  obtain ⟨hc, hf⟩ := applyUpdates_ok happly
  apply parse_format_of_wf
  refine ⟨by rw [hc]; exact hwf.1, ?_⟩
  intro f' hf'
  obtain ⟨f, hfm, hap⟩ := applyFiles_mem u _ _ hf f' hf'
  obtain ⟨hname, hnone, hsome⟩ := applyFile_ok hap
  have hfok := hwf.2 f hfm
  refine ⟨by rw [hname]; exact hfok.1, ?_⟩
  cases hl : lookupU u f.name with
  | none => rw [hnone hl]; exact hfok.2
  | some c =>
    rcases updData_ok apply_facts (hsome c hl) with ⟨hnq, hd⟩ | ⟨_, hq⟩
    · rw [hd]; exact (bodyOK_iff_needsQuote c).2 ⟨hnl f hfm c hl, hnq⟩
    · exact quote_bodyOK hq

/-- Fix-point: when the recorded contents are representable (empty or newline-terminated, no quoting
needed) the second run reads, for every updated entry, exactly the content the first run saw; a
comparison of the same output against it is equal — it ends `ok` and records nothing — and with
nothing recorded the file is not written again. -/
theorem rerun_fixpoint (file : Bytes) (a a' : Archive) (u : Updates)
    (hparse : parse file = some a) (happly : applyUpdates a u = .ok a')
    (hrep : ∀ f ∈ a.files, ∀ c, lookupU u f.name = some c → Representable c) :
    parse (format a') = some a' ∧
    (∀ (i : Nat) (f : File) (c : Bytes), a.files[i]? = some f → lookupU u f.name = some c →
        ∃ f', a'.files[i]? = some f' ∧ f'.name = f.name ∧ f'.data = c ∧
          ∀ (upd env : Bool), doCmp ⟨upd, env, false, c, f'.data, some f'.name⟩ = .ok) ∧
    (∀ v, finish v (format a') a' [] = (v, format a')) := by
  refine ⟨updated_archive_reparses file a a' u hparse happly (fun f hf c hc => (hrep f hf c hc).1), ?_,
    fun v => no_update_no_write v _ _⟩
  intro i f c hi hc
  obtain ⟨f', hf', hname, hdata⟩ := apply_sets a a' u happly i f c hi hc
  have hf : f ∈ a.files := List.mem_of_getElem? hi
  have hnq := (hrep f hf c hc).2
  have hd : f'.data = c := by
    rcases hdata with ⟨_, hd⟩ | ⟨hq, _⟩
    · exact hd
    · rw [hnq] at hq; simp at hq
  refine ⟨f', hf', hname, hd, ?_⟩
  intro upd env
  rw [doCmp_eq cmp_facts]
  simp [hd]

example : parse (bs "cmp stdout g\n-- g --\nold\n") = some ⟨bs "cmp stdout g\n", [⟨bs "g", bs "old\n"⟩]⟩ ∧
    applyUpdates ⟨bs "cmp stdout g\n", [⟨bs "g", bs "old\n"⟩]⟩ [(bs "g", bs "new\n")] =
      .ok ⟨bs "cmp stdout g\n", [⟨bs "g", bs "new\n"⟩]⟩ ∧
    Representable (bs "new\n") ∧ ¬ Representable (bs "new") ∧ ¬ Representable (bs "-- x --\n") := by
  refine ⟨by decide +kernel, by decide +kernel, ?_, ?_, ?_⟩
  · exact ⟨by decide +kernel, by decide +kernel⟩
  · intro h; exact absurd h.1 (by decide +kernel)
  · intro h; exact absurd h.2 (by decide +kernel)

/-! ### the fix-point for a whole run

Setting: GIV.Lemmas.TsRunRerun — the skeleton `run` of GIV.Model.Script instantiated with a state
split into `base` (everything but the golden entries), `gold` (the extracted archive entries),
`updates` (ts.scriptUpdates) and a ghost `log` of the comparisons against archive entries; `cmp` is
`doCmp`; every other command, the tokenizer and the conditions are arbitrary deterministic functions
of the base state that leave the other three alone (`Rerun.Frame`).  `Rerun.runFile c read upd b file`
= parse, loop, deferred applyScriptUpdates. -/

open GIV.TsRun.Rerun in
/-- **Whole-run fix-point.**  Run 1 = the script file under UpdateScripts from base state `b`,
*whatever its verdict* (the rewrite is deferred: it also happens when a later line fails, and the
verdict stays what the loop made it).  If all its comparisons against archive entries were plain
`cmp`s, every entry always met the same actual text, and every content finally recorded is
representable, then run 2 = the rewritten file without UpdateScripts from the same base state:
parses, does at every line what run 1 did (same verdict, same reported line, same calls, same final
base state, same comparisons), records no update and leaves the file byte-identical.
Entry names need not be distinct. -/
theorem rerun_whole_run_fixpoint {τ : Type} (c : Config (Rerun.St τ)) (hF : Frame c) (read : CmpRead τ) (b : τ)
    (file : Bytes) (o1 : RunOut τ)
    (h1 : runFile c read true b file = some o1)
    (hplain : ∀ e ∈ o1.res.state.log, e.neg = false)
    (hsame : SameText o1.res.state.log)
    (hrep : ∀ n t, lookupU o1.res.state.updates n = some t → Representable t) :
    o1.verdict = o1.res.verdict ∧
    ∃ o2, runFile c read false b o1.file = some o2 ∧
      o2.file = o1.file ∧ o2.verdict = o1.verdict ∧ o2.res.state.updates = [] ∧
      o2.res.verdict = o1.res.verdict ∧ o2.res.reported = o1.res.reported ∧ o2.res.calls = o1.res.calls ∧
      o2.res.lineno = o1.res.lineno ∧ o2.res.state.base = o1.res.state.base ∧
      o2.res.state.log = o1.res.state.log := by
  have : FLen := ⟨rfl⟩
  have : FCR := ⟨rfl⟩
  have : FLit := ⟨rfl, rfl⟩
  have : FNQ := ⟨rfl⟩
  exact rerun_whole_script cmp_facts apply_facts c hF read b file o1 h1 hplain hsame hrep

open GIV.TsRun.Rerun in
/-- … in the words of the property: run 1 passes, every golden entry is compared at most once →
run 2 passes, records nothing, and the file is unchanged. -/
theorem rerun_whole_run_passes {τ : Type} (c : Config (Rerun.St τ)) (hF : Frame c) (read : CmpRead τ) (b : τ)
    (file : Bytes) (o1 : RunOut τ)
    (h1 : runFile c read true b file = some o1) (hpass : o1.verdict = .pass)
    (hplain : ∀ e ∈ o1.res.state.log, e.neg = false)
    (honce : AtMostOnce o1.res.state.log)
    (hrep : ∀ n t, lookupU o1.res.state.updates n = some t → Representable t) :
    ∃ o2, runFile c read false b o1.file = some o2 ∧ o2.verdict = .pass ∧ o2.file = o1.file ∧
      o2.res.state.updates = [] ∧ o2.res.reported = o1.res.reported ∧ o2.res.calls = o1.res.calls := by
  obtain ⟨_, o2, h2, hf, hv, hu, _, hr, hc, _⟩ :=
    rerun_whole_run_fixpoint c hF read b file o1 h1 hplain (sameText_of_atMostOnce honce) hrep
  exact ⟨o2, h2, by rw [hv, hpass], hf, hu, hr, hc⟩

open GIV.TsRun.Rerun GIV.TsRun.Rerun.Demo in
/-- non-vacuity: a command producing output and two comparisons, `g` stale and `h` up to date — the
hypotheses hold (two entries, each compared once), so the rewritten file passes and stays -/
example : ∃ o2, runFile cfg read false [] (bs "out new\ncmp stdout g\ncmp stdout h\n-- g --\nnew\n-- h --\nnew\n") = some o2 ∧
    o2.verdict = .pass ∧ o2.file = bs "out new\ncmp stdout g\ncmp stdout h\n-- g --\nnew\n-- h --\nnew\n" := by
  have hv : view (runFile cfg read true [] (bs "out new\ncmp stdout g\ncmp stdout h\n-- g --\nold\n-- h --\nnew\n")) =
      some ⟨.pass, bs "out new\ncmp stdout g\ncmp stdout h\n-- g --\nnew\n-- h --\nnew\n", none,
        [(bs "g", bs "new\n")], [⟨false, bs "g", bs "new\n"⟩, ⟨false, bs "h", bs "new\n"⟩]⟩ := by decide +kernel
  cases h1 : runFile cfg read true [] (bs "out new\ncmp stdout g\ncmp stdout h\n-- g --\nold\n-- h --\nnew\n") with
  | none => rw [h1] at hv; simp [view] at hv
  | some o1 =>
    rw [h1] at hv
    simp only [view, Option.map_some, Option.some.injEq, View.mk.injEq] at hv
    obtain ⟨hverd, hfile, _, hupd, hlog⟩ := hv
    have hplain : ∀ e ∈ o1.res.state.log, e.neg = false := by rw [hlog]; decide
    have honce : AtMostOnce o1.res.state.log := by rw [hlog]; unfold AtMostOnce; decide +kernel
    have hrep : ∀ n t, lookupU o1.res.state.updates n = some t → Representable t := by
      intro n t h
      rw [hupd] at h
      simp only [lookupU] at h
      split at h
      · simp at h; subst h; exact ⟨by decide +kernel, by decide +kernel⟩
      · simp at h
    obtain ⟨o2, h2, hp, hf, _⟩ := rerun_whole_run_passes cfg frame read [] _ o1 h1 hverd hplain honce hrep
    rw [hfile] at h2 hf
    exact ⟨o2, h2, hp, hf⟩

open GIV.TsRun.Rerun GIV.TsRun.Rerun.Demo in
/-- `SameText` is needed (closed counterexample): one golden entry compared with two different outputs.
Run 1 passes and stores the last output; run 2 fails at the first comparison (line 2); the recorded
content is representable.  (GIV.Lemmas.TsRunRerun has two more: a negated `cmp` against an updated
entry, and an output that needs quoting.) -/
example :
    view (runFile cfg read true [] (bs "out a\ncmp stdout g\nout b\ncmp stdout g\n-- g --\nold\n")) =
      some ⟨.pass, bs "out a\ncmp stdout g\nout b\ncmp stdout g\n-- g --\nb\n", none,
        [(bs "g", bs "b\n")], [⟨false, bs "g", bs "a\n"⟩, ⟨false, bs "g", bs "b\n"⟩]⟩ ∧
    Representable (bs "b\n") ∧
    ¬ SameText [⟨false, bs "g", bs "a\n"⟩, ⟨false, bs "g", bs "b\n"⟩] ∧
    view (runFile cfg read false [] (bs "out a\ncmp stdout g\nout b\ncmp stdout g\n-- g --\nb\n")) =
      some ⟨.fail, bs "out a\ncmp stdout g\nout b\ncmp stdout g\n-- g --\nb\n", some 2,
        [], [⟨false, bs "g", bs "a\n"⟩]⟩ := by
  refine ⟨by decide +kernel, ⟨by decide +kernel, by decide +kernel⟩, ?_, by decide +kernel⟩
  intro h
  have := h ⟨false, bs "g", bs "a\n"⟩ (by simp) ⟨false, bs "g", bs "b\n"⟩ (by simp) rfl
  revert this
  decide +kernel

open GIV.TsRun.Rerun in
/-- … line by line: if every line of run 1 ends ok, every line of run 2 ends ok (`okFold`), in the
same base state, with nothing recorded. -/
theorem rerun_whole_run_every_line {τ : Type} (c : Config (Rerun.St τ)) (hF : Frame c) (read : CmpRead τ) (b : τ)
    (file : Bytes) (o1 : RunOut τ) (a : Archive) (s1' : Rerun.St τ)
    (h1 : runFile c read true b file = some o1) (hp : parse file = some a)
    (hok : okFold (withCmp c read true) ⟨b, a.files, [], []⟩ (splitScript a.comment) = some s1')
    (hplain : ∀ e ∈ s1'.log, e.neg = false)
    (hsame : SameText s1'.log)
    (hrep : ∀ n t, lookupU s1'.updates n = some t → Representable t) :
    o1.res.state = s1' ∧ o1.verdict = .pass ∧
    ∃ a' s2', parse o1.file = some a' ∧ a'.comment = a.comment ∧
      okFold (withCmp c read false) ⟨b, a'.files, [], []⟩ (splitScript a'.comment) = some s2' ∧
      s2'.base = s1'.base ∧ s2'.updates = [] ∧ s2'.log = s1'.log := by
  have : FLen := ⟨rfl⟩
  have : FCR := ⟨rfl⟩
  have : FLit := ⟨rfl, rfl⟩
  have : FNQ := ⟨rfl⟩
  exact rerun_every_line_ok cmp_facts apply_facts c hF read b file o1 a s1' h1 hp hok hplain hsame hrep

open GIV.TsRun.Rerun GIV.TsRun.Rerun.Demo in
example : ∃ s1', okFold (withCmp cfg read true)
      ⟨[], [⟨bs "g", bs "old\n"⟩, ⟨bs "h", bs "new\n"⟩], [], []⟩ (splitScript (bs "out new\ncmp stdout g\ncmp stdout h\n")) = some s1' ∧
    s1'.log = [⟨false, bs "g", bs "new\n"⟩, ⟨false, bs "h", bs "new\n"⟩] ∧ s1'.updates = [(bs "g", bs "new\n")] := by
  refine ⟨⟨bs "new\n", [⟨bs "g", bs "old\n"⟩, ⟨bs "h", bs "new\n"⟩], [(bs "g", bs "new\n")],
    [⟨false, bs "g", bs "new\n"⟩, ⟨false, bs "h", bs "new\n"⟩]⟩, ?_, rfl, rfl⟩
  decide +kernel

open GIV.TsRun.Rerun in
/-- What happens to recorded updates when a LATER line fails: `defer ts.applyScriptUpdates()` runs on
every exit of `run` once `setup` has returned, so they are written all the same, and the verdict
stays the loop's (here: whatever it is). -/
theorem rewrite_despite_later_failure {τ : Type} (c : Config (Rerun.St τ)) (read : CmpRead τ) (upd : Bool) (b : τ)
    (file : Bytes) (o : RunOut τ) (a a' : Archive)
    (h : runFile c read upd b file = some o) (hp : parse file = some a)
    (hu : o.res.state.updates ≠ []) (happly : applyUpdates a o.res.state.updates = .ok a') :
    o.file = format a' ∧ o.verdict = o.res.verdict ∧ Gen.TsRunUpdate.applyDeferredAfterSetup = true :=
  ⟨(runFile_rewrites apply_facts c read upd b file o a a' h hp hu happly).1,
   (runFile_rewrites apply_facts c read upd b file o a a' h hp hu happly).2, rfl⟩

open GIV.TsRun.Rerun GIV.TsRun.Rerun.Demo in
/-- line 3 is an unknown command: the run fails there, `g` has been rewritten nevertheless -/
example :
    view (runFile cfg read true [] (bs "out a\ncmp stdout g\nbogus\n-- g --\nold\n")) =
      some ⟨.fail, bs "out a\ncmp stdout g\nbogus\n-- g --\na\n", some 3, [(bs "g", bs "a\n")], [⟨false, bs "g", bs "a\n"⟩]⟩ := by
  decide +kernel

/-- The quoted case.  Content with a marker line is stored as `Quote(c)` (`apply_sets`), which is not
`c`: the re-run's comparison of the same output against the entry fails; it is equal again after
`unquote` — a command that rewrites the extracted golden file, so such a script is outside the class
of `rerun_whole_run_fixpoint` (in the Demo class the re-run fails: see GIV.Lemmas.TsRunRerun). -/
theorem quoted_entry_needs_unquote {c q : Bytes} (hnq : needsQuote c = some true) (hq : quote c = .ok q)
    (env : Bool) (e : Option Bytes) :
    q ≠ c ∧ doCmp ⟨false, env, false, c, q, e⟩ = .fatal ∧
      unquote q = .ok c ∧ doCmp ⟨false, env, false, c, c, e⟩ = .ok := by
  have : FLen := ⟨rfl⟩
  have : FLit := ⟨rfl, rfl⟩
  have : FNQ := ⟨rfl⟩
  exact Rerun.quoted_entry_mismatch cmp_facts hnq hq env e

example : needsQuote (bs "-- x --\n") = some true ∧ quote (bs "-- x --\n") = .ok (bs ">-- x --\n") := by
  decide +kernel

end GIV.C16
