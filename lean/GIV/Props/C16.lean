import GIV.Model.ScriptUpdate
namespace GIV.C16
open GIV GIV.TsRun GIV.TsRun.Update

theorem lookupU_nil (n : Bytes) : lookupU [] n = none := rfl

end GIV.C16
