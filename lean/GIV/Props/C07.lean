/-
  C07 — lockedfile contents change atomically: Read / Write / Transform linearize.

  Theorems about the transition system of `GIV.Model.Lockedfile` (all interleavings of any number of
  clients running any sequences of the public operations, any faults).  The model keeps a ghost
  commit history per file (`World.hist`): every release of an exclusive lock appends the contents it
  leaves behind — this is the linearization order (lock order).  Every running operation carries the
  ghost snapshots `h0` = history when it was called and `h1` = history at its flock step.
  Proofs: `GIV/Lemmas/LockedfileData.lean` (who mutates), `GIV/Lemmas/LockedfileLin.lean` (history snapshots,
  Read), `GIV/Lemmas/LockedfileTransform.lean` (invariant TransOK, one lemma per control point),
  `GIV/Lemmas/LockedfileWrite.lean` (invariant WriteOK).
-/
import GIV.Lemmas.LockedfileWrite
import GIV.Lemmas.LockedfileLinHist

namespace GIV.C07
open GIV GIV.Lockedfile

/-! ### regenerated facts -/

/-- The source still has the statement shapes that the model's programs hard-code: the locking code and
the bodies of Read / Write / Transform (tail-first growth, deferred roll-back). -/
theorem facts_program_shape : programShapeLock = true ∧ programShapeData = true := by decide

/-- What openFile passes to open(2) never carries O_TRUNC, for ALL flag values (`Gen.stripsTrunc`):
the truncation that Write / Create ask for happens only after the lock (`Gen.truncAfterLock`). -/
theorem open_never_truncates (flag : Nat) : fTrunc (openFlags flag) = false ∧ Gen.Lockedfile.truncAfterLock = true :=
  ⟨openFlags_noTrunc flag, by decide⟩

example : fTrunc Gen.Lockedfile.flagsWrite = true ∧ wantsTrunc Gen.Lockedfile.flagsWrite = true := by decide

/-! ### only the exclusive holder changes a file -/

/-- **Every step that changes the contents of a file is taken by the current holder of the exclusive
lock on it** (a descriptor of the stepping client holds EX on `p` in the lock table).  Needs the
O_TRUNC stripping: with O_TRUNC left in the open(2) flags a client holding nothing would truncate. -/
theorem only_ex_holder_mutates {files0 : Path → Option Bytes} {s s' : State} (hr : Reachable files0 s) {l : Label}
    (hs : step s l = some s') {p : Path} (hne : s'.w.content p ≠ s.w.content p) :
    ∃ fd fl, Owns s.w l.c fd p fl ∧ holdsFd s.w fd p .ex :=
  step_mutates (reachable_Inv1 hr) hs hne

/-- the commit history of a file changes only when its exclusive lock is released, and then the
contents left behind are appended: commit order = lock order. -/
theorem commit_on_release {files0 : Path → Option Bytes} {s s' : State} (_hr : Reachable files0 s) {c : Cid} {f : Fault}
    {n : Nat} (hs : step s ⟨c, .sys f n⟩ = some s') (p : Path) :
    s'.w.hist p = s.w.hist p ∨
    ((∃ fd, holdsFd s.w fd p .ex) ∧ s'.w.hist p = s.w.content p :: s.w.hist p) := by
  obtain ⟨fr, sc, tag, w', r, _, _, hos, rfl⟩ := step_sys hs
  rcases osStep_hist hos p with e | ⟨fd, _, hex, e⟩
  · exact .inl e
  · exact .inr ⟨⟨fd, hex⟩, e⟩

/-- While nobody holds the exclusive lock, the file contains exactly the newest committed value. -/
theorem contents_are_last_commit {files0 : Path → Option Bytes} {s : State} (hr : Reachable files0 s) {p : Path}
    (hex : (s.w.locks p).ex = none) : (s.w.hist p).head? = some (s.w.content p) :=
  (reachable_Inv2 hr).head p hex

/-! ### Read -/

/-- **Read returns exactly the complete contents left by the last writer before its lock**: when a Read
is about to return `v`, `v` is the newest entry of the commit history as it was at the Read's flock step
(its linearization point) — never empty-by-truncation, truncated or mixed — … -/
theorem read_complete {files0 : Path → Option Bytes} {s : State} (hr : Reachable files0 s) {c : Cid} {fr : Frame}
    {p : Path} {v : Bytes} (hc : (s.cl c).cur = some fr) (hop : fr.op = .read p) (hpc : fr.pc = .done (.bytes v)) :
    fr.h1.head? = some v := by
  have := reachable_Inv3 hr c fr p hc hop
  unfold ReadOK at this; rw [hpc] at this
  exact this v rfl

/-- … **and never an older value than one committed before the Read began** (real-time order): the
history at the call is a suffix of the history at the linearization point. -/
theorem read_not_stale {files0 : Path → Option Bytes} {s : State} (hr : Reachable files0 s) {c : Cid} {fr : Frame}
    {p : Path} {v : Bytes} (hc : (s.cl c).cur = some fr) (hop : fr.op = .read p) (hpc : fr.pc = .done (.bytes v)) :
    fr.h0 <:+ fr.h1 := by
  have h1 := read_complete hr hc hop hpc
  have := (reachable_Inv2 hr).hist c fr hc (by rw [hop]; rfl)
  simp only [HistOK, hpc, Pc.preLock, Pc.locked, Bool.false_eq_true, if_false] at this
  rcases this with e | e
  · rw [e] at h1; cases h1
  · exact e

/-- While an operation (Read, Write, Transform, OpenFile, Mutex.Lock) holds its lock, nobody commits
on its file: the history stays what it was at the flock step. -/
theorem no_commit_while_locked {files0 : Path → Option Bytes} {s : State} (hr : Reachable files0 s) {c : Cid}
    {fr : Frame} (hc : (s.cl c).cur = some fr) (hop : fr.op.opens = true) (hl : fr.pc.locked = true)
    (hnp : fr.pc.preLock = false) : s.w.hist fr.op.path = fr.h1 ∧ fr.h0 <:+ fr.h1 := by
  have := (reachable_Inv2 hr).hist c fr hc hop
  unfold HistOK at this
  rw [if_neg (by simp [hnp]), if_pos hl] at this
  exact this

/-- `h0` is the history at the call. -/
theorem call_snapshots_history {s s' : State} {c : Cid} {op : Op} (hs : step s ⟨c, .call op⟩ = some s') :
    ∃ fr, (s'.cl c).cur = some fr ∧ fr.op = op ∧ fr.h0 = s.w.hist op.path := by
  obtain ⟨_, _, rfl⟩ := step_call hs
  exact ⟨_, by rw [setClient_cl_same], rfl, rfl⟩


/-! ### a concrete run, for the non-vacuity examples -/

def noFiles : Path → Option Bytes := fun _ => none
def sy (c : Cid) (n : Nat := 512) : Label := ⟨c, .sys .none n⟩
def run (ls : List Label) : Option State := runLabels (init noFiles) ls

/-- client 0: Write(file 0, "ab") to completion; then client 1: Read up to the point of returning. -/
def demoWR : List Label :=
  [⟨0, .call (.write 0 [97, 98])⟩, sy 0, sy 0, sy 0, sy 0, sy 0, sy 0, ⟨0, .ret⟩,
   ⟨1, .call (.read 0)⟩, sy 1, sy 1, sy 1, sy 1, sy 1, sy 1]

theorem demoWR_some : (run demoWR).isSome = true := by decide +kernel

/-- the hypotheses of `read_complete` / `read_not_stale` hold in that run with v = "ab": the history at
the Read's flock is ["ab", ""], the one at its call too. -/
example : ∃ s fr, Reachable noFiles s ∧ (s.cl 1).cur = some fr ∧ fr.op = .read 0 ∧ fr.pc = .done (.bytes [97, 98]) ∧
    fr.h1 = [[97, 98], []] ∧ fr.h0 = [[97, 98], []] :=
  ⟨(run demoWR).get demoWR_some, (((run demoWR).get demoWR_some).cl 1).cur.get (by decide +kernel),
    reachable_run demoWR .init (Option.some_get demoWR_some).symm, (Option.some_get _).symm, by rfl, by rfl,
    by decide +kernel, by decide +kernel⟩

/-- a mutating step whose client holds the exclusive lock: the ftruncate of client 0's Write (4th label). -/
example : ∃ s s', Reachable noFiles s ∧ step s (sy 0) = some s' ∧ (s.w.locks 0).ex = some 0 ∧
    s'.w.content 0 = s.w.content 0 :=
  ⟨(run (demoWR.take 3)).get (by decide +kernel),
    (step ((run (demoWR.take 3)).get (by decide +kernel)) (sy 0)).get (by decide +kernel),
    reachable_run _ .init (Option.some_get _).symm, (Option.some_get _).symm, by decide +kernel, by decide +kernel⟩

/-- a commit: the successful Unlock of that Write appends "ab" to the history of file 0. -/
example : ((run (demoWR.take 5)).get (by decide +kernel)).w.hist 0 = [[]] ∧
    ((run (demoWR.take 6)).get (by decide +kernel)).w.hist 0 = [[97, 98], []] := by decide +kernel

/-! ### Write and Transform -/

/-- What a finished Transform knows (invariant `TransOK`, Lemmas/LockedfileTransform): `TDone` relates
its result and its faults to what it committed, `Pushed`: its commit sits directly on the history of its
flock step. -/
theorem transform_done {files0 : Path → Option Bytes} {s : State} (hr : Reachable files0 s) {c : Cid} {fr : Frame}
    {p : Path} {t : Bytes → Option Bytes} {r : Ret} (hc : (s.cl c).cur = some fr) (hop : fr.op = .transform p t)
    (hpc : fr.pc = .done r) : TDone t fr.h1 fr.flt fr.committed r ∧ Pushed s.w p fr.h1 fr.committed := by
  have := reachable_Inv4 hr c fr p t hc hop
  unfold TransOK at this; rw [hpc] at this
  have hp : fr.op.path = p := by rw [hop]; rfl
  rw [hp] at this; exact this

/-- **transform_ok**: with no fault, for ALL old and new contents (all three length relations
|new| < / = / > |old|: shrinking truncate, plain overwrite, tail-first growth), Transform returns nil and
the contents it leaves behind when it releases its lock are `new = t old`, committed directly on top of
the history whose newest entry `old` it read (**no lost update**). -/
theorem transform_ok {files0 : Path → Option Bytes} {s : State} (hr : Reachable files0 s) {c : Cid} {fr : Frame}
    {p : Path} {t : Bytes → Option Bytes} {r : Ret} {old new : Bytes} (hc : (s.cl c).cur = some fr)
    (hop : fr.op = .transform p t) (hpc : fr.pc = .done r) (hflt : fr.flt = [])
    (hold : fr.h1.head? = some old) (ht : t old = some new) :
    r = .ok ∧ fr.committed = some new ∧ (new :: fr.h1) <:+ s.w.hist p := by
  obtain ⟨⟨hfin, hsome⟩, hpush⟩ := transform_done hr hc hop hpc
  have hne : fr.h1 ≠ [] := by intro e; rw [e] at hold; cases hold
  have hc' := hsome hne (by rw [hflt]; intro x hx; cases hx)
  obtain ⟨v, hv⟩ := Option.isSome_iff_exists.1 hc'
  obtain ⟨o, ho, hcase⟩ := hfin v hv
  rw [hold] at ho; cases ho
  rcases hcase with ⟨h1, h2, _⟩ | ⟨_, _, h3⟩
  · rw [ht] at h2; cases h2
    exact ⟨h1, hv, hpush _ hv⟩
  · rcases h3 with h3 | h3
    · exact absurd hflt h3
    · rw [ht] at h3; cases h3

/-- **transform_fault**: for ALL old and new, after any SINGLE fault — fail, EINTR or short write of any
`k` bytes — at any one of Transform's data steps (the ReadAll reads, the tail pwrite, the body pwrite, the
shrinking ftruncate), or with no fault and an error from the function, Transform returns an error and the
contents it leaves behind when it releases its lock are the old ones. -/
theorem transform_fault {files0 : Path → Option Bytes} {s : State} (hr : Reachable files0 s) {c : Cid} {fr : Frame}
    {p : Path} {t : Bytes → Option Bytes} {r : Ret} {old : Bytes} (hc : (s.cl c).cur = some fr)
    (hop : fr.op = .transform p t) (hpc : fr.pc = .done r) (hold : fr.h1.head? = some old)
    (hf : (∃ tag f, fr.flt = [(tag, f)] ∧ (tag = .read ∨ tag = .tail ∨ tag = .body ∨ tag = .shrink)) ∨
      (fr.flt = [] ∧ t old = none)) :
    r = .err ∧ fr.committed = some old ∧ (old :: fr.h1) <:+ s.w.hist p := by
  obtain ⟨⟨hfin, hsome⟩, hpush⟩ := transform_done hr hc hop hpc
  have hne : fr.h1 ≠ [] := by intro e; rw [e] at hold; cases hold
  have hnouc : NoUC fr.flt := by
    rcases hf with ⟨tag, f, e, ht⟩ | ⟨e, _⟩ <;> rw [e] <;> intro x hx
    · simp only [List.mem_singleton] at hx; subst hx
      rcases ht with rfl | rfl | rfl | rfl <;> simp
    · cases hx
  have hnorb : NoRb fr.flt := by
    rcases hf with ⟨tag, f, e, ht⟩ | ⟨e, _⟩ <;> rw [e] <;> intro x hx
    · simp only [List.mem_singleton] at hx; subst hx
      rcases ht with rfl | rfl | rfl | rfl <;> simp
    · cases hx
  obtain ⟨v, hv⟩ := Option.isSome_iff_exists.1 (hsome hne hnouc)
  obtain ⟨o, ho, hcase⟩ := hfin v hv
  rw [hold] at ho; cases ho
  rcases hcase with ⟨_, h2, h3⟩ | ⟨h1, h2, _⟩
  · -- a nil result is impossible
    rcases hf with ⟨tag, f, e, ht⟩ | ⟨_, e⟩
    · have := h3 (tag, f) (by rw [e]; simp)
      rcases ht with rfl | rfl | rfl | rfl <;> simp at this
    · rw [e] at h2; cases h2
  · have := h2 hnorb; subst this
    exact ⟨h1, hv, hpush _ hv⟩

/-- **transform_commits**: whatever the faults, what a Transform commits is `t old` if it returns nil, and
`old` if it returns an error unless a fault hit one of the roll-back steps themselves (tail undo, the two
deferred roll-back steps); and the commit sits directly on top of the history it read. -/
theorem transform_commits {files0 : Path → Option Bytes} {s : State} (hr : Reachable files0 s) {c : Cid} {fr : Frame}
    {p : Path} {t : Bytes → Option Bytes} {r : Ret} {v : Bytes} (hc : (s.cl c).cur = some fr)
    (hop : fr.op = .transform p t) (hpc : fr.pc = .done r) (hv : fr.committed = some v) :
    (∃ old, fr.h1.head? = some old ∧ ((r = .ok ∧ t old = some v) ∨ (r = .err ∧ (NoRb fr.flt → v = old)))) ∧
    (v :: fr.h1) <:+ s.w.hist p := by
  obtain ⟨⟨hfin, _⟩, hpush⟩ := transform_done hr hc hop hpc
  obtain ⟨o, ho, hcase⟩ := hfin v hv
  refine ⟨⟨o, ho, ?_⟩, hpush v hv⟩
  rcases hcase with ⟨h1, h2, _⟩ | ⟨h1, h2, _⟩
  · exact .inl ⟨h1, h2⟩
  · exact .inr ⟨h1, h2⟩

/-- **write_commits**: a Write that suffers no fault returns nil and commits exactly its content, directly
on top of the history of its flock step. -/
theorem write_commits {files0 : Path → Option Bytes} {s : State} (hr : Reachable files0 s) {c : Cid} {fr : Frame}
    {p : Path} {content : Bytes} {r : Ret} (hc : (s.cl c).cur = some fr) (hop : fr.op = .write p content)
    (hpc : fr.pc = .done r) (hflt : fr.flt = []) :
    r = .ok ∧ fr.committed = some content ∧ (content :: fr.h1) <:+ s.w.hist p := by
  have := reachable_Inv5 hr c fr p content hc hop
  unfold WriteOK at this; rw [hpc] at this
  have hp : fr.op.path = p := by rw [hop]; rfl
  rw [hp] at this
  rcases this.1 with ⟨h1, h2⟩ | ⟨_, h2⟩
  · exact ⟨h1, h2, this.2 _ h2⟩
  · exact absurd hflt h2

/-! ### linearizability -/

/-- The commit history of a file only grows (by appending at the head): it is one total order. -/
theorem history_append_only {s s' : State} (ls : List Label) (h : runLabels s ls = some s') (p : Path) :
    s.w.hist p <:+ s'.w.hist p := by
  induction ls generalizing s with
  | nil => simp [runLabels] at h; subst h; exact List.suffix_refl _
  | cons l ls ih =>
    simp only [runLabels] at h
    cases hs : step s l with
    | none => simp [hs] at h
    | some s1 =>
      simp [hs] at h
      exact (step_hist_suffix hs p).trans (ih h)

/-- The sequential register specification of one completed operation, against the commit order `hist` of
its file (newest first).  `h1` is the order as it was at the operation's linearization point (its flock
step), `h0` the order when it was called:
* the linearization point lies between call and return (`h0 <:+ h1 <:+ hist`: real-time order);
* a Read returns the newest value at its linearization point;
* a fault-free Write inserts its content right there;
* a Transform inserts `t old` right there, `old` being the newest value at that point — or re-commits `old`
  if its function fails or after a single fault at a data step, and then returns an error. -/
def LinSpec (fr : Frame) (r : Ret) (hist : List Bytes) : Prop :=
  match fr.op with
  | .read _ => ∀ v, r = .bytes v → fr.h1.head? = some v ∧ fr.h0 <:+ fr.h1 ∧ fr.h1 <:+ hist
  | .write _ content => fr.flt = [] → r = .ok ∧ fr.h0 <:+ fr.h1 ∧ (content :: fr.h1) <:+ hist
  | .transform _ t => ∀ old, fr.h1.head? = some old →
      fr.h0 <:+ fr.h1 ∧
      (∀ new, fr.flt = [] → t old = some new → r = .ok ∧ (new :: fr.h1) <:+ hist) ∧
      (((∃ tag f, fr.flt = [(tag, f)] ∧ (tag = .read ∨ tag = .tail ∨ tag = .body ∨ tag = .shrink)) ∨
          (fr.flt = [] ∧ t old = none)) → r = .err ∧ (old :: fr.h1) <:+ hist)
  | _ => True

/-- **linearizable**: in every reachable state, every Read / Write / Transform that is about to return
satisfies the sequential register specification against the single commit order of its file (= lock order,
`commit_on_release`), at a linearization point between its call and its return.  Since that order only grows
(`history_append_only`), the completed operations of any execution are equivalent to the sequential history
in lock order, and lock order contains real-time order. -/
theorem linearizable {files0 : Path → Option Bytes} {s : State} (hr : Reachable files0 s) {c : Cid} {fr : Frame}
    {r : Ret} (hc : (s.cl c).cur = some fr) (hpc : fr.pc = .done r) : LinSpec fr r (s.w.hist fr.op.path) := by
  have hpost : fr.op.opens = true → fr.h1 ≠ [] → fr.h0 <:+ fr.h1 := by
    intro ho hne
    have := (reachable_Inv2 hr).hist c fr hc ho
    unfold HistOK at this
    rw [hpc] at this
    cases r <;> simp [Pc.preLock, Pc.locked] at this <;> first | exact this.resolve_left hne | exact this.2
  unfold LinSpec
  cases hop : fr.op with
  | read p =>
    intro v hv; subst hv
    have h1 := read_complete hr hc hop hpc
    have hp : fr.op.path = p := by rw [hop]; rfl
    exact ⟨h1, read_not_stale hr hc hop hpc, by rw [← hp]; exact reachable_Inv2b hr c fr hc⟩
  | write p content =>
    intro hflt
    obtain ⟨h1, h2, h3⟩ := write_commits hr hc hop hpc hflt
    have hne : fr.h1 ≠ [] := reachable_committed_h1 hr c fr hc (by rw [hop]; rfl) (by rw [h2]; rfl)
    exact ⟨h1, hpost (by rw [hop]; rfl) hne, h3⟩
  | transform p t =>
    intro old hold
    have hne : fr.h1 ≠ [] := by intro e; rw [e] at hold; cases hold
    refine ⟨hpost (by rw [hop]; rfl) hne, fun new hflt ht => ?_, fun hf => ?_⟩
    · obtain ⟨h1, _, h3⟩ := transform_ok hr hc hop hpc hflt hold ht
      exact ⟨h1, h3⟩
    · obtain ⟨h1, _, h3⟩ := transform_fault hr hc hop hpc hold hf
      exact ⟨h1, h3⟩
  | _ => trivial

/-- **Lock order contains real-time order**: an operation B that is called after operation A has passed its
linearization point (in particular after A has returned) starts from a history that already contains
everything A saw — and B's own linearization point comes later still (`h0 <:+ h1` in `LinSpec`). -/
theorem real_time_order {files0 : Path → Option Bytes} {s1 s2 s3 : State} (hr : Reachable files0 s1) {cA cB : Cid}
    {frA : Frame} {opB : Op} (ls : List Label) (hA : (s1.cl cA).cur = some frA) (hrun : runLabels s1 ls = some s2)
    (hcall : step s2 ⟨cB, .call opB⟩ = some s3) (hp : opB.path = frA.op.path) :
    ∃ frB, (s3.cl cB).cur = some frB ∧ frB.op = opB ∧ frA.h1 <:+ frB.h0 := by
  obtain ⟨frB, h1, h2, h3⟩ := call_snapshots_history hcall
  refine ⟨frB, h1, h2, ?_⟩
  rw [h3, hp]
  exact (reachable_Inv2b hr cA frA hA).trans (history_append_only ls hrun _)

/-- … and if A is a Write / Transform that has committed `v`, B starts from a history that contains that
commit: no later operation can miss it. -/
theorem real_time_order_commit {s1 s2 s3 : State} {cB : Cid} {frA : Frame} {opB : Op} {v : Bytes} (ls : List Label)
    (hpush : (v :: frA.h1) <:+ s1.w.hist frA.op.path) (hrun : runLabels s1 ls = some s2)
    (hcall : step s2 ⟨cB, .call opB⟩ = some s3) (hp : opB.path = frA.op.path) :
    ∃ frB, (s3.cl cB).cur = some frB ∧ frB.op = opB ∧ (v :: frA.h1) <:+ frB.h0 := by
  obtain ⟨frB, h1, h2, h3⟩ := call_snapshots_history hcall
  refine ⟨frB, h1, h2, ?_⟩
  rw [h3, hp]
  exact hpush.trans (history_append_only ls hrun _)

/-! non-vacuity: concrete runs in which the hypotheses of the theorems above hold -/

/-- what client 0's running operation looks like after a run: control point, commit, faults, history at its flock -/
abbrev final (ls : List Label) : Option (Pc × Option Bytes × List (Tag × Fault)) :=
  ((run ls).bind fun s => (s.cl 0).cur).map fun fr => (fr.pc, fr.committed, fr.flt)
abbrev finalH1 (ls : List Label) : Option (List Bytes) := ((run ls).bind fun s => (s.cl 0).cur).map fun fr => fr.h1

def writeAB : List Label := [⟨0, .call (.write 0 [97, 98])⟩, sy 0, sy 0, sy 0, sy 0, sy 0, sy 0]

/-- `write_commits`: a fault-free Write "ab" is about to return nil, having committed "ab" on top of [""] -/
example : final writeAB = some (.done .ok, some [97, 98], []) ∧ finalH1 writeAB = some [[]] := by decide +kernel

def transformTo (new : Bytes) (k : Nat) : List Label :=
  writeAB ++ [⟨0, .ret⟩, ⟨0, .call (.transform 0 (fun _ => some new))⟩] ++ List.replicate k (sy 0)

/-- `transform_ok`, |new| > |old| (tail first: 4 steps to read, tail, body, unlock, close) -/
example : final (transformTo [97, 98, 99, 100] 8) = some (.done .ok, some [97, 98, 99, 100], []) ∧ finalH1 (transformTo [97, 98, 99, 100] 8) = some [[97, 98], []] := by
  decide +kernel
/-- `transform_ok`, |new| = |old| -/
example : final (transformTo [120, 121] 7) = some (.done .ok, some [120, 121], []) ∧ finalH1 (transformTo [120, 121] 7) = some [[97, 98], []] := by
  decide +kernel
/-- `transform_ok`, |new| < |old| (write, then shrinking truncate) -/
example : final (transformTo [113] 8) = some (.done .ok, some [113], []) ∧ finalH1 (transformTo [113] 8) = some [[97, 98], []] := by decide +kernel
/-- `transform_ok`, new empty -/
example : final (transformTo [] 8) = some (.done .ok, some [], []) ∧ finalH1 (transformTo [] 8) = some [[97, 98], []] := by decide +kernel

/-- `transform_fault`: a short tail write (1 of 2 bytes stored) is undone by the truncate -/
example : final (transformTo [97, 98, 99, 100] 4 ++ [⟨0, .sys (.short 1) 0⟩, sy 0, sy 0, sy 0]) = some (.done .err, some [97, 98], [(.tail, .short 1)]) ∧ finalH1 (transformTo [97, 98, 99, 100] 4 ++ [⟨0, .sys (.short 1) 0⟩, sy 0, sy 0, sy 0]) = some [[97, 98], []] := by decide +kernel
/-- `transform_fault`: a failing shrinking truncate is rolled back -/
example : final (transformTo [113] 5 ++ [⟨0, .sys .fail 0⟩, sy 0, sy 0, sy 0, sy 0]) = some (.done .err, some [97, 98], [(.shrink, .fail)]) ∧ finalH1 (transformTo [113] 5 ++ [⟨0, .sys .fail 0⟩, sy 0, sy 0, sy 0, sy 0]) = some [[97, 98], []] := by decide +kernel
/-- `transform_fault`: an error from the function -/
example : final (writeAB ++ [⟨0, .ret⟩, ⟨0, .call (.transform 0 (fun _ => none))⟩] ++ List.replicate 6 (sy 0)) =
    some (.done .err, some [97, 98], []) := by decide +kernel

/-- `linearizable` / `LinSpec` instantiated on the Read of `demoWR` -/
example : LinSpec ((((run demoWR).get demoWR_some).cl 1).cur.get (by decide +kernel)) (.bytes [97, 98])
    (((run demoWR).get demoWR_some).w.hist 0) :=
  linearizable (reachable_run demoWR .init (Option.some_get demoWR_some).symm) (Option.some_get _).symm (by rfl)

/-- the fault statements are about real behaviour of the model: a Transform "xyz" ↦ "q" whose body write
(3rd data step) fails rolls back and commits the old contents … -/
def demoTF : List Label :=
  [⟨0, .call (.write 0 [120, 121, 122])⟩, sy 0, sy 0, sy 0, sy 0, sy 0, sy 0, ⟨0, .ret⟩,
   ⟨0, .call (.transform 0 (fun _ => some [113]))⟩, sy 0, sy 0, sy 0, sy 0,
   ⟨0, .sys .fail 0⟩, sy 0, sy 0, sy 0, sy 0]

example : (run demoTF).isSome = true ∧
    (((run demoTF).bind fun s => (s.cl 0).cur).map fun fr => (fr.pc, fr.committed, fr.flt)) =
      some (.done .err, some [120, 121, 122], [(.body, .fail)]) := by decide +kernel

/-- … and with a second fault in the roll-back the old contents are lost (why the property says "single"). -/
def demoTF2 : List Label :=
  demoTF.take 13 ++ [⟨0, .sys (.short 1) 0⟩, ⟨0, .sys .fail 0⟩, sy 0, sy 0]

example : (((run demoTF2).bind fun s => (s.cl 0).cur).map fun fr => (fr.pc, fr.committed)) =
      some (.done .err, some [113, 121, 122]) := by decide +kernel

/-! ### linearizability, classical formulation (Herlihy–Wing): a total order of the operations exists

Definitions in `GIV/Lemmas/LockedfileLinHist.lean`: `history files0 p ls` = the invocation / response events of
the Read / Write / Transform calls on file `p` in the execution `ls` from `init files0` (every event carries its
operation's identifier, the client, and the content written / the function applied / the value returned);
`specStep` / `specRun` = the sequential specification of one file as a register; `commitOrder files0 p ls` =
the ghost commit order (each operation enters it at the step that releases its flock — for Write / Transform
the step that pushes its commit on `World.hist`; an operation that never got the lock enters it when it returns).
Operations still in progress at the end of the execution are completed if they have passed that point (with
the result they are about to return) and dropped otherwise: the usual completion rule. -/

/-- **linearizable_exists_order**: for every execution `ls` of the model (any number of clients, any
interleaving) in which, in every state it passes through, every operation running on `p` is a Read, Write or
Transform, no fault has been injected into a Read or Write on `p` (as in `write_commits`), and at most one
fault, at a data step, into each Transform on `p` (as in `transform_fault`) — **there is a total order `ord` of
the operations of the history** such that
(1) no operation occurs twice;
(2) every operation of `ord` was invoked in the history, and if it completed it has in `ord` the result it has in
    the history;
(3) every completed operation is in `ord`;
(4) `ord` respects real time: if A's response precedes B's invocation in the history, A comes before B;
(5) `ord` is a legal sequential execution of the register specification (`specRun`: Read returns the current
    contents, Write v sets them, Transform t sets them to `t x`, or leaves them unchanged when it reports an
    error) starting from the initial contents of `p`.
If `ls` is not an execution of the model its history is empty by definition. -/
theorem linearizable_exists_order (files0 : Path → Option Bytes) (p : Path) (ls : List Label)
    (hok : Along (StateOK p) (init files0) ls) :
    ∃ ord : List OpRec,
      (ord.map (·.id)).Nodup ∧
      (∀ o ∈ ord, Ev.inv o.id o.c o.op ∈ history files0 p ls ∧
        ∀ r, Ev.res o.id o.c r ∈ history files0 p ls → r = o.ret) ∧
      (∀ id c r, Ev.res id c r ∈ history files0 p ls → ∃ o ∈ ord, o.id = id ∧ o.c = c) ∧
      (∀ a ∈ ord, ∀ b ∈ ord,
        List.Sublist [Ev.res a.id a.c a.ret, Ev.inv b.id b.c b.op] (history files0 p ls) → List.Sublist [a, b] ord) ∧
      (specRun (contentOf (files0 p)) ord).isSome = true :=
  linearizable_history files0 p ls hok

/-- **linearizable_exists_order_fault_free**: the same with a hypothesis on the labels only — no step injects a
fault and all calls on `p` are Read / Write / Transform — and with the witness named: the ghost commit order. -/
theorem linearizable_exists_order_fault_free (files0 : Path → Option Bytes) (p : Path) (ls : List Label)
    (hff : FaultFree p ls) :
    LinearizedBy (contentOf (files0 p)) (history files0 p ls) (commitOrder files0 p ls) :=
  linearizable_history_fault_free files0 p ls hff

/-- **linearization_final_contents**: the sequential execution in commit order ends in the newest committed value,
and that is what the file contains at the end of the execution if nobody holds its exclusive lock then. -/
theorem linearization_final_contents (files0 : Path → Option Bytes) (p : Path) (ls : List Label) {s' : State}
    (hrun : runLabels (init files0) ls = some s') (hok : Along (StateOK p) (init files0) ls) :
    specRun (contentOf (files0 p)) (commitOrder files0 p ls) = (s'.w.hist p).head? ∧
    ((s'.w.locks p).ex = none → specRun (contentOf (files0 p)) (commitOrder files0 p ls) = some (s'.w.content p)) :=
  commitOrder_final files0 p ls hrun hok

/-- Non-vacuity: two processes on file 0 (which does not exist at first).  Client 0: Write "ab", then Read;
client 1: Transform (append "c").  Both are called before either has opened the file; the Write gets the lock
first, the Transform reads under its own lock while the Write is still closing, the Write returns while the
Transform is running, the Read is called after that and blocks until the Transform has unlocked. -/
def appendC : Bytes → Option Bytes := fun b => some (b ++ [99])

def demoLin : List Label :=
  [⟨0, .call (.write 0 [97, 98])⟩, ⟨1, .call (.transform 0 appendC)⟩,
   sy 0, sy 1,                 -- both open
   sy 0, sy 0, sy 0, sy 0,     -- Write: flock, ftruncate, write, unlock (commit "ab")
   sy 1, sy 0, sy 1,           -- Transform: flock; Write: close; Transform: read
   ⟨0, .ret⟩,                  -- Write returns
   ⟨0, .call (.read 0)⟩, sy 0, -- Read is called and opens
   sy 1, sy 1, sy 1, sy 1,     -- Transform: read (EOF), tail pwrite, body pwrite, unlock (commit "abc")
   sy 0, sy 1, sy 0, sy 0,     -- Read: flock; Transform: close; Read: read, read (EOF)
   ⟨1, .ret⟩, sy 0, sy 0, ⟨0, .ret⟩]

/-- it is an execution of the model, it satisfies the hypothesis; its history (operation 0 = the Write, 1 = the
Transform, 3 = the Read: identifiers are positions of the invocation events); the witnessing order: Write,
Transform, Read, with results nil, nil, "abc"; and the file ends up containing "abc". -/
example : (run demoLin).isSome = true ∧ FaultFree 0 demoLin ∧
    (history noFiles 0 demoLin).map Ev.sig =
      [⟨0, 0, some (1, [97, 98]), none⟩, ⟨1, 1, some (2, []), none⟩, ⟨0, 0, none, some .ok⟩,
       ⟨3, 0, some (0, []), none⟩, ⟨1, 1, none, some .ok⟩, ⟨3, 0, none, some (.bytes [97, 98, 99])⟩] ∧
    (commitOrder noFiles 0 demoLin).map OpRec.sig =
      [⟨0, 0, (1, [97, 98]), .ok⟩, ⟨1, 1, (2, []), .ok⟩, ⟨3, 0, (0, []), .bytes [97, 98, 99]⟩] ∧
    specRun [] (commitOrder noFiles 0 demoLin) = some [97, 98, 99] ∧
    ((run demoLin).map fun s => s.w.content 0) = some [97, 98, 99] := by
  decide +kernel

example : Linearizable [] (history noFiles 0 demoLin) :=
  linearizable_exists_order noFiles 0 demoLin (faultFree_along demoLin (by decide +kernel) (fun c fr h => by simp [init] at h))

example : LinearizedBy [] (history noFiles 0 demoLin) (commitOrder noFiles 0 demoLin) :=
  linearizable_exists_order_fault_free noFiles 0 demoLin (by decide +kernel)

example : specRun [] (commitOrder noFiles 0 demoLin) = some [97, 98, 99] :=
  ((linearization_final_contents noFiles 0 demoLin (Option.some_get (by decide +kernel : (run demoLin).isSome = true)).symm
    (faultFree_along demoLin (by decide +kernel) (fun c fr h => by simp [init] at h))).2 (by decide +kernel)).trans
    (by decide +kernel)

/-- Non-vacuity with a fault: client 0 writes "xyz" and returns; then client 1 calls Transform ("xyz" ↦ "q") and
client 0 calls Read, concurrently.  The Transform gets the lock first; its body write fails (injected fault, its
only one), the deferred roll-back restores "xyz", it returns an error.  The Read (blocked meanwhile) returns "xyz". -/
def demoLinF : List Label :=
  [⟨0, .call (.write 0 [120, 121, 122])⟩, sy 0, sy 0, sy 0, sy 0, sy 0, sy 0, ⟨0, .ret⟩,
   ⟨1, .call (.transform 0 (fun _ => some [113]))⟩, ⟨0, .call (.read 0)⟩,
   sy 1, sy 0,                          -- both open
   sy 1, sy 1, sy 1,                    -- Transform: flock, read, read (EOF)
   ⟨1, .sys .fail 0⟩,                   -- its body pwrite fails
   sy 1, sy 1, sy 1,                    -- roll-back pwrite, roll-back ftruncate, unlock (re-commits "xyz")
   sy 0, sy 1, sy 0, sy 0,              -- Read: flock; Transform: close; Read: read, read (EOF)
   ⟨1, .ret⟩, sy 0, sy 0, ⟨0, .ret⟩]

/-- the execution satisfies the hypothesis of `linearizable_exists_order` (checked state by state: `alongb`), it
is not fault-free; its history; the witnessing order: Write (nil), Transform (error, no effect), Read ("xyz"). -/
example : (run demoLinF).isSome = true ∧ alongb 0 2 (init noFiles) demoLinF = true ∧ ¬ FaultFree 0 demoLinF ∧
    (history noFiles 0 demoLinF).map Ev.sig =
      [⟨0, 0, some (1, [120, 121, 122]), none⟩, ⟨0, 0, none, some .ok⟩, ⟨2, 1, some (2, []), none⟩,
       ⟨3, 0, some (0, []), none⟩, ⟨2, 1, none, some .err⟩, ⟨3, 0, none, some (.bytes [120, 121, 122])⟩] ∧
    (commitOrder noFiles 0 demoLinF).map OpRec.sig =
      [⟨0, 0, (1, [120, 121, 122]), .ok⟩, ⟨2, 1, (2, []), .err⟩, ⟨3, 0, (0, []), .bytes [120, 121, 122]⟩] ∧
    specRun [] (commitOrder noFiles 0 demoLinF) = some [120, 121, 122] := by
  decide +kernel

example : Linearizable [] (history noFiles 0 demoLinF) :=
  linearizable_exists_order noFiles 0 demoLinF (alongb_sound (N := 2) demoLinF (fun _ _ => rfl) (by decide +kernel))

/-- why the hypothesis says "at most one fault in a Transform": with a second fault, in the roll-back (`demoTF2`
above), the contents the Transform leaves behind are neither the old nor the new ones — and the checker of the
hypothesis rejects that execution. -/
example : alongb 0 1 (init noFiles) demoTF2 = false := by decide +kernel

end GIV.C07
