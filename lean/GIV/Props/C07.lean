/-
  C07 — lockedfile contents change atomically: Read / Write / Transform linearize.

  Theorems about the transition system of `GIV.Model.Lockedfile` (all interleavings of any number of
  clients running any sequences of the public operations, any faults).  The model keeps a ghost
  commit history per file (`World.hist`): every release of an exclusive lock appends the contents it
  leaves behind — this is the linearization order (lock order).  Every running operation carries the
  ghost snapshots `h0` = history when it was called and `h1` = history at its flock step.
  Proofs: `GIV/Lemmas/LockedfileData.lean`, `GIV/Lemmas/LockedfileLin.lean`.
-/
import GIV.Lemmas.LockedfileTransform

namespace GIV.C07
open GIV GIV.Lockedfile

/-! ### regenerated facts -/

/-- The source still has the statement shapes that the model's programs hard-code: the locking code and
the bodies of Read / Write / Transform (tail-first growth, deferred roll-back). -/
theorem facts_program_shape : programShapeLock = true ∧ programShapeData = true := by decide

/-- What openFile passes to open(2) never carries O_TRUNC, for ALL flag values (`Gen.stripsTrunc`):
the truncation that Write / Create ask for happens only after the lock (`Gen.truncAfterLock`). -/
theorem open_never_truncates (flag : Nat) : fTrunc (openFlags flag) = false ∧ Gen.Lockedfile.truncAfterLock = true :=
  ⟨openFlags_noTrunc flag, by decide⟩

example : fTrunc Gen.Lockedfile.flagsWrite = true ∧ wantsTrunc Gen.Lockedfile.flagsWrite = true := by decide

/-! ### only the exclusive holder changes a file -/

/-- **Every step that changes the contents of a file is taken by the current holder of the exclusive
lock on it** (a descriptor of the stepping client holds EX on `p` in the lock table).  Needs the
O_TRUNC stripping: with O_TRUNC left in the open(2) flags a client holding nothing would truncate. -/
theorem only_ex_holder_mutates {files0 : Path → Option Bytes} {s s' : State} (hr : Reachable files0 s) {l : Label}
    (hs : step s l = some s') {p : Path} (hne : s'.w.content p ≠ s.w.content p) :
    ∃ fd fl, Owns s.w l.c fd p fl ∧ holdsFd s.w fd p .ex :=
  step_mutates (reachable_Inv1 hr) hs hne

/-- the commit history of a file changes only when its exclusive lock is released, and then the
contents left behind are appended: commit order = lock order. -/
theorem commit_on_release {files0 : Path → Option Bytes} {s s' : State} (_hr : Reachable files0 s) {c : Cid} {f : Fault}
    {n : Nat} (hs : step s ⟨c, .sys f n⟩ = some s') (p : Path) :
    s'.w.hist p = s.w.hist p ∨
    ((∃ fd, holdsFd s.w fd p .ex) ∧ s'.w.hist p = s.w.content p :: s.w.hist p) := by
  obtain ⟨fr, sc, tag, w', r, _, _, hos, rfl⟩ := step_sys hs
  rcases osStep_hist hos p with e | ⟨fd, _, hex, e⟩
  · exact .inl e
  · exact .inr ⟨⟨fd, hex⟩, e⟩

/-- While nobody holds the exclusive lock, the file contains exactly the newest committed value. -/
theorem contents_are_last_commit {files0 : Path → Option Bytes} {s : State} (hr : Reachable files0 s) {p : Path}
    (hex : (s.w.locks p).ex = none) : (s.w.hist p).head? = some (s.w.content p) :=
  (reachable_Inv2 hr).head p hex

/-! ### Read -/

/-- **Read returns exactly the complete contents left by the last writer before its lock**: when a Read
is about to return `v`, `v` is the newest entry of the commit history as it was at the Read's flock step
(its linearization point) — never empty-by-truncation, truncated or mixed — … -/
theorem read_complete {files0 : Path → Option Bytes} {s : State} (hr : Reachable files0 s) {c : Cid} {fr : Frame}
    {p : Path} {v : Bytes} (hc : (s.cl c).cur = some fr) (hop : fr.op = .read p) (hpc : fr.pc = .done (.bytes v)) :
    fr.h1.head? = some v := by
  have := reachable_Inv3 hr c fr p hc hop
  unfold ReadOK at this; rw [hpc] at this
  exact this v rfl

/-- … **and never an older value than one committed before the Read began** (real-time order): the
history at the call is a suffix of the history at the linearization point. -/
theorem read_not_stale {files0 : Path → Option Bytes} {s : State} (hr : Reachable files0 s) {c : Cid} {fr : Frame}
    {p : Path} {v : Bytes} (hc : (s.cl c).cur = some fr) (hop : fr.op = .read p) (hpc : fr.pc = .done (.bytes v)) :
    fr.h0 <:+ fr.h1 := by
  have h1 := read_complete hr hc hop hpc
  have := (reachable_Inv2 hr).hist c fr hc (by rw [hop]; rfl)
  simp only [HistOK, hpc, Pc.preLock, Pc.locked, Bool.false_eq_true, if_false] at this
  rcases this with e | e
  · rw [e] at h1; cases h1
  · exact e

/-- While an operation (Read, Write, Transform, OpenFile, Mutex.Lock) holds its lock, nobody commits
on its file: the history stays what it was at the flock step. -/
theorem no_commit_while_locked {files0 : Path → Option Bytes} {s : State} (hr : Reachable files0 s) {c : Cid}
    {fr : Frame} (hc : (s.cl c).cur = some fr) (hop : fr.op.opens = true) (hl : fr.pc.locked = true)
    (hnp : fr.pc.preLock = false) : s.w.hist fr.op.path = fr.h1 ∧ fr.h0 <:+ fr.h1 := by
  have := (reachable_Inv2 hr).hist c fr hc hop
  unfold HistOK at this
  rw [if_neg (by simp [hnp]), if_pos hl] at this
  exact this

/-- `h0` is the history at the call. -/
theorem call_snapshots_history {s s' : State} {c : Cid} {op : Op} (hs : step s ⟨c, .call op⟩ = some s') :
    ∃ fr, (s'.cl c).cur = some fr ∧ fr.op = op ∧ fr.h0 = s.w.hist op.path := by
  obtain ⟨_, _, rfl⟩ := step_call hs
  exact ⟨_, by rw [setClient_cl_same], rfl, rfl⟩


/-! ### a concrete run, for the non-vacuity examples -/

def noFiles : Path → Option Bytes := fun _ => none
def sy (c : Cid) (n : Nat := 512) : Label := ⟨c, .sys .none n⟩
def run (ls : List Label) : Option State := runLabels (init noFiles) ls

/-- client 0: Write(file 0, "ab") to completion; then client 1: Read up to the point of returning. -/
def demoWR : List Label :=
  [⟨0, .call (.write 0 [97, 98])⟩, sy 0, sy 0, sy 0, sy 0, sy 0, sy 0, ⟨0, .ret⟩,
   ⟨1, .call (.read 0)⟩, sy 1, sy 1, sy 1, sy 1, sy 1, sy 1]

theorem demoWR_some : (run demoWR).isSome = true := by decide +kernel

/-- the hypotheses of `read_complete` / `read_not_stale` hold in that run with v = "ab": the history at
the Read's flock is ["ab", ""], the one at its call too. -/
example : ∃ s fr, Reachable noFiles s ∧ (s.cl 1).cur = some fr ∧ fr.op = .read 0 ∧ fr.pc = .done (.bytes [97, 98]) ∧
    fr.h1 = [[97, 98], []] ∧ fr.h0 = [[97, 98], []] :=
  ⟨(run demoWR).get demoWR_some, (((run demoWR).get demoWR_some).cl 1).cur.get (by decide +kernel),
    reachable_run demoWR .init (Option.some_get demoWR_some).symm, (Option.some_get _).symm, by rfl, by rfl,
    by decide +kernel, by decide +kernel⟩

/-- a mutating step whose client holds the exclusive lock: the ftruncate of client 0's Write (4th label). -/
example : ∃ s s', Reachable noFiles s ∧ step s (sy 0) = some s' ∧ (s.w.locks 0).ex = some 0 ∧
    s'.w.content 0 = s.w.content 0 :=
  ⟨(run (demoWR.take 3)).get (by decide +kernel),
    (step ((run (demoWR.take 3)).get (by decide +kernel)) (sy 0)).get (by decide +kernel),
    reachable_run _ .init (Option.some_get _).symm, (Option.some_get _).symm, by decide +kernel, by decide +kernel⟩

/-- a commit: the successful Unlock of that Write appends "ab" to the history of file 0. -/
example : ((run (demoWR.take 5)).get (by decide +kernel)).w.hist 0 = [[]] ∧
    ((run (demoWR.take 6)).get (by decide +kernel)).w.hist 0 = [[97, 98], []] := by decide +kernel

/-! ### Write and Transform: statements (not proved in Lean; tied by the correspondence run) -/

/-- **Statement** (kept as a definition): a Write that suffers no fault commits exactly its content. -/
def write_commits_statement : Prop :=
  ∀ (files0 : Path → Option Bytes) (s : State) (c : Cid) (fr : Frame) (p : Path) (content : Bytes) (r : Ret),
    Reachable files0 s → (s.cl c).cur = some fr → fr.op = .write p content → fr.pc = .done r → fr.flt = [] →
    r = .ok ∧ fr.committed = some content

/-- **Statement**: Transform applies its function to the newest committed contents and publishes the
result without losing concurrent updates: with no fault, it returns nil and commits `t old` directly on
top of the history it saw at its flock step. -/
def transform_ok_statement : Prop :=
  ∀ (files0 : Path → Option Bytes) (s : State) (c : Cid) (fr : Frame) (p : Path) (t : Bytes → Option Bytes)
    (r : Ret) (old new : Bytes),
    Reachable files0 s → (s.cl c).cur = some fr → fr.op = .transform p t → fr.pc = .done r → fr.flt = [] →
    fr.h1.head? = some old → t old = some new → r = .ok ∧ fr.committed = some new

/-- **Statement**: ∀ old new, ∀ single fault — fail or short k — at any one of Transform's data steps
(read, tail write, body write, shrinking truncate), or an error from the function: Transform returns an
error and the contents it leaves behind are the old ones. -/
def transform_fault_statement : Prop :=
  ∀ (files0 : Path → Option Bytes) (s : State) (c : Cid) (fr : Frame) (p : Path) (t : Bytes → Option Bytes)
    (r : Ret) (old : Bytes),
    Reachable files0 s → (s.cl c).cur = some fr → fr.op = .transform p t → fr.pc = .done r →
    fr.h1.head? = some old →
    ((∃ tag f, fr.flt = [(tag, f)] ∧ (tag = .read ∨ tag = .tail ∨ tag = .body ∨ tag = .shrink)) ∨
      (fr.flt = [] ∧ t old = none)) →
    r = .err ∧ fr.committed = some old

/-- **Statement** (the invariant behind the two above, `TransOK` of Lemmas/LockedfileTransform): whatever
the faults, what a Transform commits is `t old` if it returns nil and `old` if it returns an error,
unless a fault hit one of the roll-back steps themselves (then old contents can be lost: the property
says "any single" failure). -/
def transform_commits_statement : Prop :=
  ∀ (files0 : Path → Option Bytes) (s : State) (c : Cid) (fr : Frame) (p : Path) (t : Bytes → Option Bytes)
    (r : Ret) (v : Bytes),
    Reachable files0 s → (s.cl c).cur = some fr → fr.op = .transform p t → fr.pc = .done r →
    fr.committed = some v → TFin t fr.h1 fr.flt r v

/-- the fault statements are about real behaviour of the model: a Transform "xyz" ↦ "q" whose body write
(3rd data step) fails rolls back and commits the old contents … -/
def demoTF : List Label :=
  [⟨0, .call (.write 0 [120, 121, 122])⟩, sy 0, sy 0, sy 0, sy 0, sy 0, sy 0, ⟨0, .ret⟩,
   ⟨0, .call (.transform 0 (fun _ => some [113]))⟩, sy 0, sy 0, sy 0, sy 0,
   ⟨0, .sys .fail 0⟩, sy 0, sy 0, sy 0, sy 0]

example : (run demoTF).isSome = true ∧
    (((run demoTF).bind fun s => (s.cl 0).cur).map fun fr => (fr.pc, fr.committed, fr.flt)) =
      some (.done .err, some [120, 121, 122], [(.body, .fail)]) := by decide +kernel

/-- … and with a second fault in the roll-back the old contents are lost (why the property says "single"). -/
def demoTF2 : List Label :=
  demoTF.take 13 ++ [⟨0, .sys (.short 1) 0⟩, ⟨0, .sys .fail 0⟩, sy 0, sy 0]

example : (((run demoTF2).bind fun s => (s.cl 0).cur).map fun fr => (fr.pc, fr.committed)) =
      some (.done .err, some [113, 121, 122]) := by decide +kernel

end GIV.C07
