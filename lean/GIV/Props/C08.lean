/-
  C08 — diff: the output is a correct, well-formed unified diff.

  All theorems are about the executable model `GIV.Model.Diff` (tied to /repo/diff/diff.go by the
  regenerated facts in `GIV.Gen.Diff` and by the byte-exact correspondence run), for arbitrary
  inputs: any line type with decidable equality, any two line lists, no size bound.
-/
import GIV.Model.Diff
import GIV.Lemmas.DiffLines
import GIV.Lemmas.DiffScript
import GIV.Lemmas.DiffLoop
import GIV.Lemmas.DiffWF
import GIV.Lemmas.DiffRender

namespace GIV.C08
open GIV GIV.Diff

/-- The tags and the context size the property talks about are the ones in the source. -/
theorem facts_pinned : Gen.Diff.C = 3 ∧ Gen.Diff.tagCtx = 32 ∧ Gen.Diff.tagCtxClose = 32 ∧ Gen.Diff.tagCtxOpen = 32 ∧
    Gen.Diff.tagDel = 45 ∧ Gen.Diff.tagIns = 43 := by decide

/-! ### texts and lines -/

/-- `lines` loses nothing: the text is recovered from its lines, also when it lacks the final
newline (the last line then carries the "\ No newline at end of file" warning, which `unlines` strips). -/
theorem unlines_lines (b : Bytes) : unlines (lines b) = b := unlines_lines' b

/- "a\nb" ↦ ["a\n", "b" ++ "\n\\ No newline at end of file\n"] and back -/
example : lines [97, 10, 98] = [[97, 10], 98 :: noNewline] ∧ unlines [[97, 10], 98 :: noNewline] = [97, 10, 98] := by decide

/-- Different texts have different line lists (so a statement about line lists is one about texts). -/
theorem lines_inj {a b : Bytes} : lines a = lines b ↔ a = b := ⟨lines_injective, fun h => h ▸ rfl⟩

example : lines [97] ≠ lines [97, 10] := by decide

/-! ### the shortcut and the header -/

/-- What `Diff` prints for different texts: the three header lines, then the hunks of `diffHunks`. -/
theorem diff_output (n₁ a n₂ b : Bytes) (h : a ≠ b) :
    diff n₁ a n₂ b = (diffHunks (lines a) (lines b)).map fun hs => headerBytes n₁ n₂ ++ (hs.map hunkBytes).flatten := by
  unfold diff
  rw [if_neg h]
  cases diffHunks (lines a) (lines b) with
  | none => rfl
  | some hs => simp [render_eq]

/-- Diff returns nothing exactly when the two texts are byte-identical. -/
theorem diff_nil_iff (n₁ a n₂ b : Bytes) : diff n₁ a n₂ b = some [] ↔ a = b := by
  constructor
  · intro h
    by_cases hab : a = b
    · exact hab
    · rw [diff_output _ _ _ _ hab] at h
      cases hd : diffHunks (lines a) (lines b) with
      | none => simp [hd] at h
      | some hs =>
        simp only [hd, Option.map_some, Option.some.injEq, List.append_eq_nil_iff] at h
        exact absurd h.1 (headerBytes_ne_nil _ _)
  · intro h
    simp [diff, h]

example : diff [111] [97, 10] [110] [97, 10] = some [] ∧ diff [111] [97, 10] [110] [97] ≠ some [] := by
  constructor
  · decide
  · rw [Ne, diff_nil_iff]; decide

/-- The header is `diff old new`, `--- old`, `+++ new`, each on its own line
(bytes: "diff " = 100 105 102 102 32, "--- " = 45 45 45 32, "+++ " = 43 43 43 32, "\n" = 10). -/
theorem diff_header (o n : Bytes) : headerBytes o n =
    ([100, 105, 102, 102, 32] ++ o ++ [32] ++ n ++ [10]) ++ ([45, 45, 45, 32] ++ o ++ [10]) ++ ([43, 43, 43, 32] ++ n ++ [10]) := by
  simp [headerBytes]

example : headerBytes [97] [98] = [100, 105, 102, 102, 32, 97, 32, 98, 10, 45, 45, 45, 32, 97, 10, 43, 43, 43, 32, 98, 10] := by
  decide

/-! ### the hunks, given a correct match sequence -/

section
set_option linter.unusedSectionVars false
variable {α : Type} [DecidableEq α]

/-- What the hunk loop needs from `tgs`: the sequence is `(0,0)`, then anchors (equal lines that
are unique in `x` and in `y`), strictly increasing in both coordinates, then `(|x|, |y|)`. -/
structure TgsSpec (x y : List α) (s : List (Nat × Nat)) : Prop where
  shape : ∃ mid, s = (0, 0) :: mid ++ [(x.length, y.length)] ∧ (∀ p ∈ mid, Anchor x y p) ∧
    mid.Pairwise (fun p q => p.1 < q.1 ∧ p.2 < q.2)

theorem TgsSpec.msOK {x y : List α} {s : List (Nat × Nat)} (t : TgsSpec x y s) : MsOK x y s := by
  obtain ⟨mid, rfl, hanch, hmono⟩ := t.shape
  have hin : ∀ p ∈ mid, p.1 < x.length ∧ p.2 < y.length := by
    intro p hp
    obtain ⟨a, h1, h2, _⟩ := hanch p hp
    exact ⟨(List.getElem?_eq_some_iff.mp h1).1, (List.getElem?_eq_some_iff.mp h2).1⟩
  refine ⟨?_, ?_, by simp⟩
  · intro m hm
    simp only [List.cons_append, List.mem_cons, List.mem_append, List.mem_nil_iff, or_false] at hm
    rcases hm with rfl | hm | rfl
    · exact ⟨Nat.zero_le _, Nat.zero_le _, Or.inr (Or.inl rfl)⟩
    · have := hin m hm
      exact ⟨by omega, by omega, Or.inr (Or.inr (hanch m hm))⟩
    · exact ⟨Nat.le_refl _, Nat.le_refl _, Or.inl rfl⟩
  · rw [List.cons_append, List.pairwise_cons]
    refine ⟨fun _ _ => Nat.zero_le _, ?_⟩
    rw [List.pairwise_append]
    refine ⟨hmono.imp (fun h => by omega), by simp, ?_⟩
    intro p hp q hq
    simp only [List.mem_cons, List.mem_nil_iff, or_false] at hq
    subst hq
    have := hin p hp
    simp only
    omega

/-- No panic in the hunk loop, and its hunks form an edit script from `x` to `y`. -/
theorem diffHunks_script_of_tgs {x y : List α} {s : List (Nat × Nat)} (ht : tgs x y = some s) (hs : TgsSpec x y s) :
    ∃ hs, diffHunks x y = some hs ∧ Script 0 0 x y hs := by
  unfold diffHunks
  rw [ht]
  exact loop_ok s {} hs.msOK (Inv.init x y s)

/-- The printed hunks, applied to `x` by a strict patch applier, give `y`; applied in reverse to `y`, give `x`. -/
theorem diff_applies_of_tgs {x y : List α} {s : List (Nat × Nat)} (ht : tgs x y = some s) (hs : TgsSpec x y s) :
    ∃ hs, diffHunks x y = some hs ∧ apply x hs = some y ∧ unapply y hs = some x := by
  obtain ⟨hs, h1, h2⟩ := diffHunks_script_of_tgs ht hs
  exact ⟨hs, h1, h2.apply, h2.unapply⟩

end

end GIV.C08
