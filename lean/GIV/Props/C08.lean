import GIV.Model.Diff
namespace GIV.C08
open GIV GIV.Diff

/-- The tags and the context size the property talks about are the ones in the source. -/
theorem facts_pinned : Gen.Diff.C = 3 ∧ Gen.Diff.tagCtx = 32 ∧ Gen.Diff.tagCtxClose = 32 ∧ Gen.Diff.tagCtxOpen = 32 ∧
    Gen.Diff.tagDel = 45 ∧ Gen.Diff.tagIns = 43 := by decide

end GIV.C08
