/-
  C08 — diff: the output is a correct, well-formed unified diff.

  All theorems are about the executable model `GIV.Model.Diff` (tied to /repo/diff/diff.go by the
  regenerated facts in `GIV.Gen.Diff` and by the byte-exact correspondence run), for arbitrary
  inputs: any line type with decidable equality, any two line lists, no size bound.
-/
import GIV.Model.Diff
import GIV.Lemmas.DiffLines
import GIV.Lemmas.DiffScript
import GIV.Lemmas.DiffLoop
import GIV.Lemmas.DiffWF
import GIV.Lemmas.DiffRender
import GIV.Lemmas.DiffTgs
import GIV.Lemmas.DiffParse
import GIV.Lemmas.DiffGo
import GIV.Lemmas.DiffGoTgs
import GIV.Lemmas.DiffGoMain

namespace GIV.C08
open GIV GIV.Diff

/-- The tags and the context size the property talks about are the ones in the source. -/
theorem facts_pinned : Gen.Diff.C = 3 ∧ Gen.Diff.tagCtx = 32 ∧ Gen.Diff.tagCtxClose = 32 ∧ Gen.Diff.tagCtxOpen = 32 ∧
    Gen.Diff.tagDel = 45 ∧ Gen.Diff.tagIns = 43 := by decide

/-- The deciding expressions of the loop, as read from the source, say what the proofs assume:
a match is skipped iff it lies before `done.x`; a chunk continues iff we are not at the end of both
files and the common run is shorter than 3 lines (6 when the chunk already has lines); a closed
chunk gets `min(run, 3)` trailing context lines; the loop ends iff the run reaches the end of both
files; a new chunk starts 3 lines before the end of the run; a start line is printed 1-based
exactly when its count is positive. -/
theorem conditions_pinned :
    (∀ mx my dx dy : Nat, Gen.Diff.skipCond mx my dx dy = true ↔ mx < dx) ∧
    (∀ sx sy w lx ly lc : Nat, Gen.Diff.contCond ((sx + w : Nat) : Int) ((sy + w : Nat) : Int) sx sy lx ly lc = true ↔
      ((sx + w < lx ∨ sy + w < ly) ∧ (w < 3 ∨ (0 < lc ∧ w < 6)))) ∧
    (∀ lc : Nat, Gen.Diff.closeCond lc = true ↔ 0 < lc) ∧
    (∀ sx sy w : Nat, Gen.Diff.closeN ((sx + w : Nat) : Int) ((sy + w : Nat) : Int) sx sy = ((min w 3 : Nat) : Int)) ∧
    (∀ ex ey lx ly : Nat, Gen.Diff.eofCond ex ey lx ly = true ↔ (lx ≤ ex ∧ ly ≤ ey)) ∧
    (∀ ex ey : Nat, 3 ≤ ex → Gen.Diff.newChunkX ex ey = ((ex - 3 : Nat) : Int)) ∧
    (∀ ex ey : Nat, 3 ≤ ey → Gen.Diff.newChunkY ex ey = ((ey - 3 : Nat) : Int)) ∧
    (∀ cx cy : Nat, Gen.Diff.hdrIncX cx cy = true ↔ 0 < cx) ∧ (∀ cx cy : Nat, Gen.Diff.hdrIncY cx cy = true ↔ 0 < cy) :=
  ⟨skipCond_iff, contCond_iff, closeCond_iff, closeN_eq, eofCond_iff, newChunkX_eq, newChunkY_eq, hdrIncX_iff, hdrIncY_iff⟩

example : Gen.Diff.contCond 5 5 3 3 9 9 0 = true ∧ Gen.Diff.contCond 6 6 3 3 9 9 0 = false ∧
    Gen.Diff.contCond 6 6 3 3 9 9 1 = true ∧ Gen.Diff.contCond 9 9 8 8 9 9 1 = false := by decide

/-! ### texts and lines -/

/-- `lines` loses nothing: the text is recovered from its lines, also when it lacks the final
newline (the last line then carries the "\ No newline at end of file" warning, which `unlines` strips). -/
theorem unlines_lines (b : Bytes) : unlines (lines b) = b := unlines_lines' b

/- "a\nb" ↦ ["a\n", "b" ++ "\n\\ No newline at end of file\n"] and back -/
example : lines [97, 10, 98] = [[97, 10], 98 :: noNewline] ∧ unlines [[97, 10], 98 :: noNewline] = [97, 10, 98] := by decide

/-- Different texts have different line lists (so a statement about line lists is one about texts). -/
theorem lines_inj {a b : Bytes} : lines a = lines b ↔ a = b := ⟨lines_injective, fun h => h ▸ rfl⟩

example : lines [97] ≠ lines [97, 10] := by decide

/-! ### the shortcut and the header -/

/-- What `Diff` prints for different texts: the three header lines, then the hunks of `diffHunks`. -/
theorem diff_output (n₁ a n₂ b : Bytes) (h : a ≠ b) :
    diff n₁ a n₂ b = (diffHunks (lines a) (lines b)).map fun hs => headerBytes n₁ n₂ ++ (hs.map hunkBytes).flatten := by
  unfold diff
  rw [if_neg h]
  cases diffHunks (lines a) (lines b) with
  | none => rfl
  | some hs => simp [render_eq]

/-- Diff returns nothing exactly when the two texts are byte-identical. -/
theorem diff_nil_iff (n₁ a n₂ b : Bytes) : diff n₁ a n₂ b = some [] ↔ a = b := by
  constructor
  · intro h
    by_cases hab : a = b
    · exact hab
    · rw [diff_output _ _ _ _ hab] at h
      cases hd : diffHunks (lines a) (lines b) with
      | none => simp [hd] at h
      | some hs =>
        simp only [hd, Option.map_some, Option.some.injEq, List.append_eq_nil_iff] at h
        exact absurd h.1 (headerBytes_ne_nil _ _)
  · intro h
    simp [diff, h]

example : diff [111] [97, 10] [110] [97, 10] = some [] ∧ diff [111] [97, 10] [110] [97] ≠ some [] := by
  constructor
  · decide
  · rw [Ne, diff_nil_iff]; decide

/-- The header is `diff old new`, `--- old`, `+++ new`, each on its own line
(bytes: "diff " = 100 105 102 102 32, "--- " = 45 45 45 32, "+++ " = 43 43 43 32, "\n" = 10). -/
theorem diff_header (o n : Bytes) : headerBytes o n =
    ([100, 105, 102, 102, 32] ++ o ++ [32] ++ n ++ [10]) ++ ([45, 45, 45, 32] ++ o ++ [10]) ++ ([43, 43, 43, 32] ++ n ++ [10]) := by
  simp [headerBytes]

example : headerBytes [97] [98] = [100, 105, 102, 102, 32, 97, 32, 98, 10, 45, 45, 45, 32, 97, 10, 43, 43, 43, 32, 98, 10] := by
  decide

/-! ### the match sequence -/

section
set_option linter.unusedSectionVars false
variable {α : Type} [DecidableEq α]

/-- `tgs` never panics; its result starts with `(0,0)`, ends with `(|x|,|y|)`, and in between
lists pairs `(i, j)`, strictly increasing in both coordinates, such that `x[i] = y[j]` and this
line occurs nowhere else in `x` and nowhere else in `y`.
(Proved from the invariants of Szymanski's algorithm as coded: `T[k]` is the unfilled marker or
`J` of the last index of level `k+1`; `sort.Search` returns an index whose left neighbour is
smaller than `J[i]`; each level-`l` index has, as last earlier level-`l-1` index, one with smaller `J`.) -/
theorem tgs_ok (x y : List α) : ∃ s mid, tgs x y = some s ∧ s = (0, 0) :: mid ++ [(x.length, y.length)] ∧
    mid.Pairwise (fun p q => p.1 < q.1 ∧ p.2 < q.2) ∧
    ∀ p ∈ mid, ∃ a, x[p.1]? = some a ∧ y[p.2]? = some a ∧ (∀ i, x[i]? = some a → i = p.1) ∧ (∀ j, y[j]? = some a → j = p.2) := by
  obtain ⟨s, h1, ⟨mid, h2, h3, h4⟩⟩ := tgs_spec x y
  exact ⟨s, mid, h1, h2, h4, h3⟩

/- x = [a,b,c,d], y = [c,a,b,d]: the unique common lines give the increasing subsequence a,b,d -/
example : tgs [1, 2, 3, 4] [3, 1, 2, 4] = some [(0, 0), (0, 1), (1, 2), (3, 3), (4, 4)] := by decide

/-- Uniqueness as a count: an anchored line occurs exactly once on each side
(the form in which the counting loops of `tgs` establish it). -/
theorem anchor_of_count {x y : List α} {i j : Nat} {a : α} (hx : x[i]? = some a) (hy : y[j]? = some a)
    (cx : x.count a = 1) (cy : y.count a = 1) : Anchor x y (i, j) :=
  ⟨a, hx, hy, fun _ h => idx_unique_of_count cx h hx, fun _ h => idx_unique_of_count cy h hy⟩

example : Anchor [1, 2, 3] [3, 1] (0, 1) := anchor_of_count (a := 1) rfl rfl (by decide) (by decide)

end

/-! ### the hunks -/

section
set_option linter.unusedSectionVars false
variable {α : Type} [DecidableEq α]

/-- From any match sequence with the properties of `tgs_ok` the loop of `Diff` produces, without
panic, an edit script — the theorem that isolates what the loop needs from `tgs`. -/
theorem diff_applies_of_tgs {x y : List α} {s : List (Nat × Nat)} (hs : TgsSpec x y s) :
    ∃ hs, loop x y s {} = some hs ∧ apply x hs = some y ∧ unapply y hs = some x := by
  obtain ⟨hs, h1, h2⟩ := loop_ok s {} hs.msOK (Inv.init x y s)
  exact ⟨hs, h1, h2.apply, h2.unapply⟩

example : TgsSpec [1, 2] [2, 1] [(0, 0), (0, 1), (2, 2)] :=
  ⟨⟨[(0, 1)], rfl, by
    intro p hp
    simp only [List.mem_singleton] at hp; subst hp
    exact anchor_of_count (a := 1) rfl rfl (by decide) (by decide), by simp⟩⟩

/-- The hunks of `Diff` form an edit script from `x` to `y` (no panic on the way). -/
theorem diffHunks_script (x y : List α) : ∃ hs, diffHunks x y = some hs ∧ Script 0 0 x y hs := by
  obtain ⟨s, ht, hspec⟩ := tgs_spec x y
  unfold diffHunks
  rw [ht]
  exact loop_ok s {} hspec.msOK (Inv.init x y s)

/-- `diffHunks` never panics: no slice or index out of range, `chunk = end − C ≥ 0`. -/
theorem diffHunks_ok (x y : List α) : ∃ hs, diffHunks x y = some hs :=
  let ⟨hs, h, _⟩ := diffHunks_script x y; ⟨hs, h⟩

example : diffHunks [1, 2, 3] [1, 3] = some [⟨1, 3, 1, 2, [(.ctx, 1), (.del, 2), (.ctx, 3)]⟩] := by decide

/-- The printed hunks, applied to `x` by a strict patch applier (positions from the `@@` lines,
in order, no overlap, context and deleted lines present verbatim, old-side count matching), give
exactly `y`; applied in reverse to `y` they give exactly `x`. -/
theorem diff_applies (x y : List α) :
    ∃ hs, diffHunks x y = some hs ∧ apply x hs = some y ∧ unapply y hs = some x := by
  obtain ⟨hs, h1, h2⟩ := diffHunks_script x y
  exact ⟨hs, h1, h2.apply, h2.unapply⟩

example : apply [1, 2, 3] [⟨1, 3, 1, 2, [(.ctx, 1), (.del, 2), (.ctx, 3)]⟩] = some [1, 3] ∧
    unapply [1, 3] [⟨1, 3, 1, 2, [(.ctx, 1), (.del, 2), (.ctx, 3)]⟩] = some [1, 2, 3] ∧
    apply [1, 2, 3] [⟨2, 3, 1, 2, [(.ctx, 1), (.del, 2), (.ctx, 3)]⟩] = none := by decide

/-- Well-formedness of the hunk list, in terms of the numbers on the `@@` lines.
`posX` / `posY` read a start line with the unified-diff convention (1-based; with a count of 0 it
names the line before the hunk). -/
structure HunksWF (x y : List α) (hs : List (Hunk α)) : Prop where
  /-- the counts are the numbers of ` `/`-` lines and of ` `/`+` lines of the body -/
  counts : ∀ h ∈ hs, h.cx = (oldSide h.body).length ∧ h.cy = (newSide h.body).length
  /-- start lines follow the convention and the hunk lies inside both files -/
  inRange : ∀ h ∈ hs, 0 ≤ h.posX ∧ 0 ≤ h.posY ∧ h.posX + (h.cx : Int) ≤ x.length ∧ h.posY + (h.cy : Int) ≤ y.length ∧
    (h.cx = 0 → h.hx = h.posX) ∧ (h.cx ≠ 0 → h.hx = h.posX + 1) ∧ (h.cy = 0 → h.hy = h.posY) ∧ (h.cy ≠ 0 → h.hy = h.posY + 1)
  /-- the two sides of the body are literally the lines found at the stated place -/
  content : ∀ h ∈ hs, oldSide h.body = seg x h.posX.toNat (h.posX.toNat + h.cx) ∧
    newSide h.body = seg y h.posY.toNat (h.posY.toNat + h.cy)
  /-- in order and non-overlapping, on both sides -/
  ordered : hs.Pairwise (fun h₁ h₂ => h₁.posX + (h₁.cx : Int) ≤ h₂.posX ∧ h₁.posY + (h₁.cy : Int) ≤ h₂.posY)

theorem hunks_wellformed (x y : List α) : ∃ hs, diffHunks x y = some hs ∧ HunksWF x y hs := by
  obtain ⟨hs, h1, h2⟩ := diffHunks_script x y
  refine ⟨hs, h1, ?_⟩
  obtain ⟨w1, w2⟩ := h2.wf
  refine ⟨fun h hm => ⟨(w1 h hm).1, (w1 h hm).2.1⟩, fun h hm => ?_, fun h hm => ?_, w2⟩
  · obtain ⟨_, _, i, j, p1, p2, _, _, b1, b2, _, _⟩ := w1 h hm
    refine ⟨by omega, by omega, by omega, by omega, ?_, ?_, ?_, ?_⟩
    · intro h0; simp [Hunk.posX, h0]
    · intro h0; simp only [Hunk.posX, if_neg h0]; omega
    · intro h0; simp [Hunk.posY, h0]
    · intro h0; simp only [Hunk.posY, if_neg h0]; omega
  · obtain ⟨_, _, i, j, p1, p2, _, _, _, _, c1, c2⟩ := w1 h hm
    rw [p1, p2]
    simpa using ⟨c1, c2⟩

example : HunksWF [1, 2, 3] [1, 3] [⟨1, 3, 1, 2, [(.ctx, 1), (.del, 2), (.ctx, 3)]⟩] := by
  obtain ⟨hs, h1, h2⟩ := hunks_wellformed [1, 2, 3] [1, 3]
  have : diffHunks [1, 2, 3] [1, 3] = some [⟨1, 3, 1, 2, [(.ctx, 1), (.del, 2), (.ctx, 3)]⟩] := by decide
  rw [this] at h1; cases h1; exact h2

end

/-! ### the property, on texts -/

/-- C08 for the model of `diff.Diff`, on byte strings: for different texts `a`, `b` the output is
the three header lines followed by the rendered hunks `hs`, where `hs` is well-formed against the
lines of `a` and `b`, and patches `lines a` into `lines b` and back (`lines` is injective and
encodes a missing final newline, so this determines the texts). -/
theorem diff_correct (n₁ a n₂ b : Bytes) (h : a ≠ b) :
    ∃ hs, diff n₁ a n₂ b = some (headerBytes n₁ n₂ ++ (hs.map hunkBytes).flatten) ∧
      HunksWF (lines a) (lines b) hs ∧
      apply (lines a) hs = some (lines b) ∧ unapply (lines b) hs = some (lines a) ∧
      unlines (lines a) = a ∧ unlines (lines b) = b := by
  obtain ⟨hs, h1, h2⟩ := diffHunks_script (lines a) (lines b)
  obtain ⟨hs', h1', h3⟩ := hunks_wellformed (lines a) (lines b)
  rw [h1] at h1'; cases h1'
  refine ⟨hs, ?_, h3, h2.apply, h2.unapply, unlines_lines a, unlines_lines b⟩
  rw [diff_output _ _ _ _ h, h1]; rfl

/- "a\nb\n" vs "a\nc": one hunk `@@ -1,2 +1,2 @@`, ` a`, `-b`, `+c` + the missing-newline warning -/
example : diff [111] [97, 10, 98, 10] [110] [97, 10, 99] =
    some (headerBytes [111] [110] ++ ([64, 64, 32, 45, 49, 44, 50, 32, 43, 49, 44, 50, 32, 64, 64, 10] ++
      [32, 97, 10] ++ [45, 98, 10] ++ (43 :: 99 :: noNewline))) := by decide

/-! ### the bytes can be read back -/

/-- The rendering is unambiguous: a count-driven parser (`@@` line, then as many tagged lines as
the counts say, a `\` line belonging to the line before it) recovers exactly the hunk list from
the output bytes — even when lines look like diff syntax.  Includes a decimal print/parse round trip. -/
theorem parsePatch_render (n₁ n₂ : Bytes) (hs : List (Hunk Bytes)) (hok : ∀ h ∈ hs, HunkOK h) :
    ∀ out, render n₁ n₂ hs = some out → parsePatch n₁ n₂ out = some hs := by
  intro out h
  rw [render_eq] at h
  cases h
  exact parsePatch_render' n₁ n₂ hs hok

/- a body line that looks like a hunk header, and one that looks like the no-newline marker, as context -/
example : HunkOK ⟨1, 2, 1, 3, [(.ctx, [64, 64, 32, 45, 49, 32, 43, 49, 32, 64, 64, 10]), (.ins, [43, 10]), (.ctx, noNLMarker)]⟩ := by
  refine ⟨by decide, by decide, by decide, by decide, ?_⟩
  intro p hp
  simp only [List.mem_cons, List.mem_nil_iff, or_false] at hp
  rcases hp with rfl | rfl | rfl
  · exact ⟨[64, 64, 32, 45, 49, 32, 43, 49, 32, 64, 64], by decide, Or.inl rfl⟩
  · exact ⟨[43], by decide, Or.inl rfl⟩
  · exact ⟨noNLMarker.dropLast, by decide, Or.inl (by decide)⟩

example : parsePatch [111] [110] (headerBytes [111] [110] ++ hunkBytes ⟨1, 1, 1, 2, [(.ctx, [97, 10]), (.ins, 98 :: noNewline)]⟩) =
    some [⟨1, 1, 1, 2, [(.ctx, [97, 10]), (.ins, 98 :: noNewline)]⟩] := by decide

/-- C08 end to end on the model: for different texts, the output bytes parse back (count-driven)
to a hunk list that is well-formed and patches `a` into `b` and `b` back into `a`. -/
theorem diff_roundtrip (n₁ a n₂ b : Bytes) (h : a ≠ b) :
    ∃ out hs, diff n₁ a n₂ b = some out ∧ parsePatch n₁ n₂ out = some hs ∧ HunksWF (lines a) (lines b) hs ∧
      (apply (lines a) hs).map unlines = some b ∧ (unapply (lines b) hs).map unlines = some a := by
  obtain ⟨hs, h1, h2, h3, h4, h5, h6⟩ := diff_correct n₁ a n₂ b h
  refine ⟨_, hs, h1, parsePatch_render' n₁ n₂ hs ?_, h2, by rw [h3]; simp [h6], by rw [h4]; simp [h5]⟩
  intro hk hm
  obtain ⟨c1, c2⟩ := h2.counts hk hm
  obtain ⟨r1, r2, _, _, r5, r6, r7, r8⟩ := h2.inRange hk hm
  obtain ⟨t1, t2⟩ := h2.content hk hm
  refine ⟨?_, ?_, c1, c2, ?_⟩
  · by_cases h0 : hk.cx = 0
    · rw [r5 h0]; exact r1
    · rw [r6 h0]; omega
  · by_cases h0 : hk.cy = 0
    · rw [r7 h0]; exact r2
    · rw [r8 h0]; omega
  · intro p hp
    rcases mem_sides hk.body p hp with hs' | hs'
    · rw [t1] at hs'; exact lines_isLine a _ (mem_seg hs')
    · rw [t2] at hs'; exact lines_isLine b _ (mem_seg hs')

example : ∃ out hs, diff [111] [97, 10, 98, 10] [110] [97, 10, 99] = some out ∧ parsePatch [111] [110] out = some hs ∧
    (apply (lines [97, 10, 98, 10]) hs).map unlines = some [97, 10, 99] :=
  let ⟨out, hs, h1, h2, _, h4, _⟩ := diff_roundtrip [111] [97, 10, 98, 10] [110] [97, 10, 99] (by decide)
  ⟨out, hs, h1, h2, h4⟩

/-! ### the consumer: what `cmp` / `cmpenv` log -/

/-- `doCmdCmp` (testscript/cmd.go) logs `diff.Diff(name1, text1, name2, text2)` for exactly the two
texts it compared (`text2` after env-expansion for `cmpenv`) — read from the source — so for a
failing comparison the logged bytes parse back to hunks that patch the first compared text into
the second and back. -/
theorem cmp_log_is_diff_of_compared_texts (name1 text1 name2 text2 : Bytes) (h : text1 ≠ text2) :
    Gen.Diff.cmpDiffsComparedTexts = true ∧
    ∃ out hs, diff name1 text1 name2 text2 = some out ∧ parsePatch name1 name2 out = some hs ∧
      (apply (lines text1) hs).map unlines = some text2 ∧ (unapply (lines text2) hs).map unlines = some text1 := by
  refine ⟨by decide, ?_⟩
  obtain ⟨out, hs, h1, h2, _, h4, h5⟩ := diff_roundtrip name1 text1 name2 text2 h
  exact ⟨out, hs, h1, h2, h4, h5⟩

example : ([97, 10] : Bytes) ≠ [98, 10] := by decide

/-! ### `lines` of the Go source itself

`GIV.Go.Diff.lines` is the Lean translation of `func lines` of diff/diff.go, regenerated from /repo's working tree on
every check run (harness/internal/go2lean → GIV/Gen/DiffGo.lean; `none` = Go run-time panic).
`strings.SplitAfter(s, "\n")` is the library meaning `splitAfterNL`. -/

/-- The translated `lines` never panics (SplitAfter never returns an empty list, so `l[len(l)-1]` is in range)
and is the model's `lines`, for every text. -/
theorem go_lines_agrees (b : Bytes) : GIV.Go.Diff.lines b = some (lines b) := GIV.Go.Diff.go_lines_eq b

/-- Hence for the source's `lines`: the text is recovered from its lines (a text without final newline gets the
"\\ No newline at end of file" warning on its last line and nothing else changes), and different texts have
different line lists — what makes `Diff` return nothing exactly for byte-identical texts. -/
theorem go_lines_faithful (a b : Bytes) :
    (∃ ls, GIV.Go.Diff.lines a = some ls ∧ unlines ls = a) ∧
    (GIV.Go.Diff.lines a = GIV.Go.Diff.lines b ↔ a = b) := by
  refine ⟨⟨lines a, go_lines_agrees a, unlines_lines a⟩, ?_⟩
  rw [go_lines_agrees, go_lines_agrees]
  constructor
  · intro h; exact lines_inj.mp (Option.some.inj h)
  · intro h; rw [h]

-- the generated definition, evaluated by the kernel: "a\nb" (no final newline) and "a\n"
example : GIV.Go.Diff.lines [97, 10, 98] = some [[97, 10], [98] ++ noNewline] := by decide +kernel
example : GIV.Go.Diff.lines [97, 10] = some [[97, 10]] := by decide +kernel
example : GIV.Go.Diff.lines [] = some [] := by decide +kernel

/-! ### `tgs` of the Go source itself

`GIV.Go.Diff.tgs` is the Lean translation of `func tgs` of diff/diff.go, regenerated on every check run together with
`lines` (GIV/Gen/DiffGo.lean): the `map[string]int` of counts is a functional map (GIV/GoLibMap.lean), `sort.Search`
is Go's binary search loop (GIV/GoLibSort.lean), every index, `make` and slice is checked (`none` = panic), the
backward scan runs on a budget. -/

/-- The translated `tgs` is the model's `tgs` — pairs of Go ints for pairs of naturals — for all line lists, panics
and budgets included. -/
theorem go_tgs_agrees (x y : List Bytes) :
    GIV.Go.Diff.tgs x y = (tgs x y).map (List.map GIV.Go.Diff.ofPair) := GIV.Go.Diff.go_tgs_eq x y

/-- `tgs_ok` over the translated source: `tgs` of diff.go never panics (no index out of range in T, L, J, xi, yi, seq;
`make([]pair, 2+k)` with `k ≥ 0`; the budget of the backward scan suffices), and its result is the sentinel `{0,0}`,
then pairs `{i, j}` strictly increasing in both fields with `x[i] = y[j]` a line that occurs nowhere else in `x` and
nowhere else in `y`, then the sentinel `{len(x), len(y)}`. -/
theorem go_tgs_ok (x y : List Bytes) : ∃ s mid, GIV.Go.Diff.tgs x y = some (s.map GIV.Go.Diff.ofPair) ∧
    s = (0, 0) :: mid ++ [(x.length, y.length)] ∧
    mid.Pairwise (fun p q => p.1 < q.1 ∧ p.2 < q.2) ∧
    ∀ p ∈ mid, ∃ a, x[p.1]? = some a ∧ y[p.2]? = some a ∧ (∀ i, x[i]? = some a → i = p.1) ∧ (∀ j, y[j]? = some a → j = p.2) := by
  obtain ⟨s, mid, h1, h2, h3, h4⟩ := tgs_ok x y
  exact ⟨s, mid, by rw [go_tgs_agrees, h1]; rfl, h2, h3, h4⟩

-- the generated definitions, evaluated by the kernel: x = [a,b,c,d], y = [c,a,b,d] (the increasing subsequence a,b,d
-- of the unique common lines), and a line that occurs twice on one side is no anchor
example : GIV.Go.Diff.tgs [[1], [2], [3], [4]] [[3], [1], [2], [4]] =
    some [⟨0, 0⟩, ⟨0, 1⟩, ⟨1, 2⟩, ⟨3, 3⟩, ⟨4, 4⟩] := by decide +kernel
example : GIV.Go.Diff.tgs [[1], [2], [1]] [[1], [2]] = some [⟨0, 0⟩, ⟨1, 1⟩, ⟨3, 2⟩] := by decide +kernel
example : GIV.Go.Diff.tgs [] [] = some [⟨0, 0⟩, ⟨0, 0⟩] := by decide +kernel

/-! ### `Diff` of the Go source itself

`GIV.Go.Diff.Diff` is the Lean translation of `func Diff` of diff/diff.go, regenerated on every check run
(GIV/Gen/DiffMainGo.lean; it calls the translated `lines` and `tgs`): the `bytes.Equal` shortcut, the `bytes.Buffer`
with its three header `Fprintf`s, the loop over the matches with the struct-typed locals `done chunk count start end`,
the two match-expanding loops (on budgets), the `ctext` strings (`"-"+s`, `"+"+s`, `" "+s`), the hunk header
`Fprintf("@@ -%d,%d +%d,%d @@\n", …)` and `out.WriteString` per chunk, every index and slice checked (`none` = panic). -/

/-- The translated `Diff` is the model's `diff`, for all names and texts — byte for byte, panics and loop budgets
included.  (The translated loop prints each chunk when it closes it; the model collects structured hunks and renders
them at the end: `GIV.Go.Diff.Diff_loop1_eq` is the simulation between the two.) -/
theorem go_Diff_agrees (n₁ a n₂ b : Bytes) : GIV.Go.Diff.Diff n₁ a n₂ b = diff n₁ a n₂ b :=
  GIV.Go.Diff.go_Diff_eq n₁ a n₂ b

/-- `Diff` of diff.go never panics: no index or slice out of range (`x[start.x-1]`, `x[done.x:start.x]`,
`x[start.x:start.x+n]`, `x[chunk.x:end.x]` with `chunk = end − C ≥ 0`, `ctext[:0]`, and everything inside `tgs`), and
the budgets of the translated loops suffice. -/
theorem go_Diff_total (n₁ a n₂ b : Bytes) : ∃ out, GIV.Go.Diff.Diff n₁ a n₂ b = some out := by
  rw [go_Diff_agrees]
  by_cases h : a = b
  · exact ⟨[], (diff_nil_iff n₁ a n₂ b).mpr h⟩
  · obtain ⟨hs, h1, _⟩ := diff_correct n₁ a n₂ b h
    exact ⟨_, h1⟩

/-- `diff_nil_iff` over the translated source: Diff returns nothing (a nil slice) exactly when the two texts are
byte-identical. -/
theorem go_diff_nil_iff (n₁ a n₂ b : Bytes) : GIV.Go.Diff.Diff n₁ a n₂ b = some [] ↔ a = b := by
  rw [go_Diff_agrees]; exact diff_nil_iff n₁ a n₂ b

/-- `diff_correct` over the translated source: for different texts the bytes `Diff` of diff.go returns are the three
header lines followed by the rendering of a hunk list that is well-formed against the lines of `a` and `b`, patches
`lines a` into `lines b` and, reversed, `lines b` into `lines a` (and `lines` loses nothing of the texts). -/
theorem go_diff_correct (n₁ a n₂ b : Bytes) (h : a ≠ b) :
    ∃ hs, GIV.Go.Diff.Diff n₁ a n₂ b = some (headerBytes n₁ n₂ ++ (hs.map hunkBytes).flatten) ∧
      HunksWF (lines a) (lines b) hs ∧
      apply (lines a) hs = some (lines b) ∧ unapply (lines b) hs = some (lines a) ∧
      unlines (lines a) = a ∧ unlines (lines b) = b := by
  rw [go_Diff_agrees]; exact diff_correct n₁ a n₂ b h

/-- `diff_roundtrip` over the translated source: for different texts the output of `Diff` of diff.go parses
(count-driven) as a unified diff whose hunks are well-formed and, applied to the old text, give the new text — and,
reversed, applied to the new text give the old one. -/
theorem go_diff_roundtrip (n₁ a n₂ b : Bytes) (h : a ≠ b) :
    ∃ out hs, GIV.Go.Diff.Diff n₁ a n₂ b = some out ∧ parsePatch n₁ n₂ out = some hs ∧ HunksWF (lines a) (lines b) hs ∧
      (apply (lines a) hs).map unlines = some b ∧ (unapply (lines b) hs).map unlines = some a := by
  rw [go_Diff_agrees]; exact diff_roundtrip n₁ a n₂ b h

-- the generated definitions, evaluated by the kernel.  A two-line change in texts WITHOUT final newline,
-- "a\nb\nc\nd" → "a\nB\nC\nd": one hunk `@@ -1,4 +1,4 @@`, ` a`, `-b`, `-c`, `+B`, `+C`, ` d` + the warning
example : GIV.Go.Diff.Diff [111] [97, 10, 98, 10, 99, 10, 100] [110] [97, 10, 66, 10, 67, 10, 100] =
    some (headerBytes [111] [110] ++ ([64, 64, 32, 45, 49, 44, 52, 32, 43, 49, 44, 52, 32, 64, 64, 10] ++
      [32, 97, 10] ++ [45, 98, 10] ++ [45, 99, 10] ++ [43, 66, 10] ++ [43, 67, 10] ++ (32 :: 100 :: noNewline))) := by
  decide +kernel
-- only the final newline differs: "a\nb" → "a\nb\n"
example : GIV.Go.Diff.Diff [111] [97, 10, 98] [110] [97, 10, 98, 10] =
    some (headerBytes [111] [110] ++ ([64, 64, 32, 45, 49, 44, 50, 32, 43, 49, 44, 50, 32, 64, 64, 10] ++
      [32, 97, 10] ++ (45 :: 98 :: noNewline) ++ [43, 98, 10])) := by
  decide +kernel
-- identical texts: nothing; an empty old text: `@@ -0,0 +1,1 @@`
example : GIV.Go.Diff.Diff [111] [97, 10] [110] [97, 10] = some [] := by decide +kernel
example : GIV.Go.Diff.Diff [111] [] [110] [97, 10] =
    some (headerBytes [111] [110] ++ ([64, 64, 32, 45, 48, 44, 48, 32, 43, 49, 44, 49, 32, 64, 64, 10] ++ [43, 97, 10])) := by
  decide +kernel
-- and the two-line change read back: the parsed hunks applied to the old text give the new text
example : ∃ out hs, GIV.Go.Diff.Diff [111] [97, 10, 98, 10, 99, 10, 100] [110] [97, 10, 66, 10, 67, 10, 100] = some out ∧
    parsePatch [111] [110] out = some hs ∧
    (apply (lines [97, 10, 98, 10, 99, 10, 100]) hs).map unlines = some [97, 10, 66, 10, 67, 10, 100] :=
  let ⟨out, hs, h1, h2, _, h4, _⟩ := go_diff_roundtrip [111] [97, 10, 98, 10, 99, 10, 100] [110] [97, 10, 66, 10, 67, 10, 100] (by decide)
  ⟨out, hs, h1, h2, h4⟩

end GIV.C08
