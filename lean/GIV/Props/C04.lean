/-
  C04 — testscript runs are isolated from each other and leave nothing behind.

  Property theorems about the model `GIV.Model.TsLife` §2 (initial environment), §3 (work
  directory / unpacking), §4 (skeleton of `run`: exit paths, deferred functions, background
  bookkeeping) and §5 (reference-counted cleanup).  Every theorem discharges the regenerated facts
  it needs from `GIV.Gen.TsLife` by `rfl`.

  PARTIAL by nature: the logic is proved; that the kernel has reaped every descendant, that no
  other goroutine of the test binary touches the directories, and the actual interleavings of the
  real goroutines are measured by the correspondence run (harness/cmd/tslife), not proved.
-/
import GIV.Lemmas.TsLifeEnv
import GIV.Lemmas.TsLifeRef
import GIV.Lemmas.TsLifeRun
import GIV.Lemmas.TsLifeUnpack
import GIV.Lemmas.TsLifeFrame
import GIV.Lemmas.TsLifeNames
import GIV.Lemmas.TsLifeMore
import GIV.Lemmas.TsLifeBg

namespace GIV.C04
open GIV GIV.TsLife

instance : FEnv := ⟨rfl⟩
instance : FRef := ⟨rfl, rfl, rfl, rfl, rfl, rfl, rfl⟩
instance : FDefer := ⟨rfl⟩
instance : FRun := ⟨rfl, rfl, rfl, rfl, rfl, rfl, rfl, rfl⟩

/-! ### the environment is built from scratch -/

/-- the documented names, the pass-through names and `exe`, as the property states them. -/
theorem builtin_names : builtinNames =
    ["WORK", "PATH", "GOTRACEBACK", "HOME", "TMPDIR", "devnull", "/", ":", "$", "GOCOVERDIR", "GORACE", "exe"] := by
  decide

/-- For every host environment and every list of Setup additions: a variable that is neither
documented, nor a pass-through variable, nor added by Setup is not set in the script's
environment — host variables are invisible. -/
theorem env_from_scratch : ∀ (host : EnvList) (workdir : String) (setup : EnvList) (k : String),
    k ∉ ["WORK", "PATH", "GOTRACEBACK", "HOME", "TMPDIR", "devnull", "/", ":", "$", "GOCOVERDIR", "GORACE", "exe"] →
    k ∉ setup.map (·.1) →
    lookupLast (initialEnv host workdir setup) k = none ∧ getenv (initialEnv host workdir setup) k = "" := by
  intro host wd setup k hb hs
  rw [← builtin_names] at hb
  have := initialEnv_invisible host wd setup k hb hs
  exact ⟨this, by simp [getenv, this]⟩

example : getenv (initialEnv [("SECRET", "leak"), ("HOME", "/root"), ("PATH", "/bin")] "/t/script-a" [("X", "1")]) "SECRET" = "" := by decide
example : getenv (initialEnv [("SECRET", "leak"), ("HOME", "/root"), ("PATH", "/bin")] "/t/script-a" [("X", "1")]) "HOME" = "/no-home" := by decide

/-- Where every value comes from: Setup's addition, `exe=`, the host's value of a pass-through
variable, or a documented value — of which only `PATH` reads the host environment. -/
theorem env_sources : ∀ (host : EnvList) (workdir : String) (setup : EnvList) (k v : String),
    lookupLast (initialEnv host workdir setup) k = some v →
    (k, v) ∈ setup ∨ (k = "exe" ∧ v = "") ∨
    ((k = "GOCOVERDIR" ∨ k = "GORACE") ∧ v = hostGetenv host k ∧ v ≠ "") ∨
    (k = "WORK" ∧ v = workdir) ∨ (k = "PATH" ∧ v = hostGetenv host "PATH") ∨ (k = "GOTRACEBACK" ∧ v = "system") ∨
    (k = "HOME" ∧ v = "/no-home") ∨ (k = "TMPDIR" ∧ v = workdir ++ "/" ++ ".tmp") ∨ (k = "devnull" ∧ v = "/dev/null") ∨
    (k = "/" ∧ v = "/") ∨ (k = ":" ∧ v = ":") ∨ (k = "$" ∧ v = "$") := by
  intro host wd setup k v h
  have hm := lookupLast_some_mem _ _ _ h
  simp only [initialEnv, List.mem_append] at hm
  rcases hm with ((h | h) | h) | h
  · simp [documentedPart, Gen.TsLife.documentedVars, evalSrc, tmpdirOf, Gen.TsLife.tmpDirName] at h
    rcases h with h | h | h | h | h | h | h | h | h <;> obtain ⟨rfl, rfl⟩ := h <;> simp
  · obtain ⟨hk, hv⟩ := passthroughPart_keys host (k, v) h
    right; right; left
    refine ⟨by simpa [Gen.TsLife.passthroughVars] using hk, hv, ?_⟩
    simp only [passthroughPart, List.mem_filterMap] at h
    obtain ⟨k', _, hs⟩ := h
    split at hs
    · cases hs
    · rename_i hne
      injection hs with hs
      injection hs with h1 h2
      subst h1; subst h2
      simpa [Gen.TsLife.passthroughOnlyNonEmpty] using hne
  · right; left; simpa [Gen.TsLife.unixTailVars] using h
  · left; exact h

/-- Setup's additions are visible and win over the built-in values. -/
theorem env_setup_wins : ∀ (host : EnvList) (workdir : String) (setup : EnvList) (k v : String),
    lookupLast setup k = some v → getenv (initialEnv host workdir setup) k = v := by
  intro host wd setup k v h
  simp [getenv, initialEnv_setup_wins host wd setup k v h]

example : getenv (initialEnv [("PATH", "/bin")] "/t/script-a" [("PATH", "/x:/bin")]) "PATH" = "/x:/bin" := by decide

/-- GOCOVERDIR / GORACE are passed through exactly when set (non-empty) on the host. -/
theorem env_passthrough : ∀ (host : EnvList) (workdir : String) (k : String), (k = "GOCOVERDIR" ∨ k = "GORACE") →
    getenv (initialEnv host workdir []) k = hostGetenv host k := by
  intro host wd k hk
  rcases hk with rfl | rfl <;>
    simp [getenv, initialEnv, lookupLast_append, passthroughPart, Gen.TsLife.passthroughVars,
      Gen.TsLife.passthroughOnlyNonEmpty, Gen.TsLife.unixTailVars, lookupLast, documentedPart,
      Gen.TsLife.documentedVars] <;>
    (by_cases h1 : hostGetenv host "GOCOVERDIR" = "" <;> by_cases h2 : hostGetenv host "GORACE" = "" <;>
      simp [h1, h2, lookupLast])

example : getenv (initialEnv [("GORACE", "atexit_sleep_ms=0")] "/w" []) "GORACE" = "atexit_sleep_ms=0" := by decide

/-! ### the work directory holds exactly the files of the archive -/

/-- Starting from the fresh work directory (only `.tmp`), if setup's unpack loop succeeds the tree
holds: as files exactly the archive's names, each with the data of the LAST entry of that name
("later duplicates win"); as directories exactly the work directory itself, `.tmp`, and the
proper parent paths of the entries; nothing else. Under RequireUniqueNames success implies that
the names are pairwise distinct. -/
theorem workdir_exact : ∀ (excl : Bool) (files : List Entry) (fs : FS), unpack excl files = .ok fs →
    (∀ p d, fs.get p = some (.file d) ↔ lastData files p = some d) ∧
    (∀ p, fs.get p = some .dir ↔ (p = [] ∨ p = [".tmp"] ∨ ∃ e ∈ files, p ∈ prefixes e.1.dropLast)) ∧
    (excl = true → (files.map (·.1)).Nodup) := by
  intro excl files fs h
  unfold unpack at h
  generalize hu : unpackFrom excl fs0 files = u at h
  obtain ⟨fs', err⟩ := u
  cases err with
  | some x => cases h
  | none =>
    injection h with h; subst h
    obtain ⟨⟨a, b⟩, c⟩ := unpackFrom_spec excl files fs0 fs' [] spec_fs0 (fun _ => List.nodup_nil) hu
    exact ⟨by simpa using a, by simpa [Gen.TsLife.tmpDirName] using b, by simpa using c⟩

example : (unpack false [(["a", "x"], lit "1"), (["b"], lit "2"), (["a", "x"], lit "3")]).toOption =
    some [(["a", "x"], .file (lit "3")), (["b"], .file (lit "2")), (["a", "x"], .file (lit "1")), (["a"], .dir), ([".tmp"], .dir)] := by
  decide +kernel
example : (unpack true [(["a", "x"], lit "1"), (["a", "x"], lit "3")]).toOption = none := by decide +kernel
example : (unpack false [(["a"], lit "1"), (["a", "x"], lit "3")]).toOption = none := by decide +kernel
example : lastData [(["a", "x"], lit "1"), (["b"], lit "2"), (["a", "x"], lit "3")] ["a", "x"] = some (lit "3") := by decide +kernel

/-- a failing unpack fails the script before any command runs (FailNow in setup, through the two
deferred blocks registered so far). -/
theorem unpack_failure_fails : ∀ (cfg : Cfg) (files : List Entry) (ops : List Op) (e : FsErr),
    unpack cfg.uniqueNames files = .error e → (runScript cfg files ops).verdict = .fail := by
  intro cfg files ops e h
  unfold unpack at h
  unfold runScript
  generalize unpackFrom cfg.uniqueNames fs0 files = u at h
  obtain ⟨fs', err⟩ := u
  cases err with
  | none => cases h
  | some x => rfl

/-! ### every script gets a work directory of its own -/

/-- For every list of script files of one RunT call (any base names: equal ones with `.txt` and
`.txtar`, names that already contain `#1`, in any order): the search for a free name always ends,
the names given to the subtests are pairwise distinct, there is one per file, each is the file's
base name or that name followed by `#i`; hence the work directories `<root>/script-<name>` are
pairwise distinct — no two scripts share one. -/
theorem names_unique : ∀ (files : List String),
    ∃ names, assignNames (files.map scriptBase) = some names ∧ names.Nodup ∧ names.length = files.length ∧
      (∀ k (hk : k < names.length) (hf : k < files.length), ∃ j, names[k] = cand (scriptBase files[k]) j) ∧
      ∀ root, (names.map (workdirOf root)).Nodup := by
  have _ : FNames := ⟨rfl⟩   -- the loop has the shape the model transcribes
  intro files
  have hs := assignFrom_isSome (files.map scriptBase) []
  cases h : assignFrom [] (files.map scriptBase) with
  | none => simp [h] at hs
  | some names =>
    obtain ⟨a, _, c, d⟩ := assignFrom_spec (files.map scriptBase) [] h
    refine ⟨names, h, a, by simpa using c, ?_, ?_⟩
    · intro k hk hf
      obtain ⟨j, hj⟩ := d k hk (by simpa using hf)
      exact ⟨j, by simpa using hj⟩
    · intro root
      simp only [List.Nodup, List.pairwise_map] at a ⊢
      refine a.imp ?_
      intro x y hne heq
      apply hne
      unfold workdirOf at heq
      have h1 : root ++ ("/" ++ (Gen.TsLife.workdirPrefix ++ x)) = root ++ ("/" ++ (Gen.TsLife.workdirPrefix ++ y)) := by
        simpa [String.append_assoc] using heq
      exact append_left_cancel_str (append_left_cancel_str (append_left_cancel_str h1))

example : assignNames (["foo#1.txt", "foo.txt", "foo.txtar"].map scriptBase) = some ["foo#1", "foo", "foo#2"] := by decide +kernel
-- the situation of the comment in RunT: a/foo.txt, b/foo.txtar, c/foo#1.txt
example : assignNames (["foo.txt", "foo.txtar", "foo#1.txt"].map scriptBase) = some ["foo", "foo#1", "foo#1#1"] := by decide +kernel
example : assignNames ["x", "x", "x#1", "x"] = some ["x", "x#1", "x#1#1", "x#2"] := by decide +kernel

/-! ### scripts that stay inside their work directory do not interfere -/

/-- The shared temporary root as one tree whose first path element is a work directory's name: a
script with work directory `w` acts on `w :: p` where its solo run acts on `p` (the interpreter
resolves every path of a command below the work directory, or reports an escape).  For EVERY
schedule of the primitive file-system actions (MkdirAll, write with or without O_EXCL, RemoveAll)
of any number of scripts — every interleaving — and every script `w`: the result of each of its
actions and the subtree it sees afterwards are those of its solo run on its own subtree, and so is
its final subtree.  (The per-script state — current directory, environment, background list,
deferred chain — is private by construction: the harness measures that the Go code has no other
shared state.) -/
theorem frame_noninterference : ∀ (w : String) (sched : List (String × Act)) (g : FS) (ws : List String),
    HasDirs g ws → w ∈ ws → (∀ x ∈ sched, x.1 ∈ ws) →
    proj w (runShared g sched).1 = (runLocal (proj w g) ((sched.filter (·.1 == w)).map (·.2))).1 ∧
    ((runShared g sched).2.filter (·.1 == w)).map (·.2) =
      (runLocal (proj w g) ((sched.filter (·.1 == w)).map (·.2))).2 :=
  fun w sched g ws => frame_schedule w sched g ws

/-- and nobody else's subtree is changed by an action. -/
theorem frame_others_untouched : ∀ (w w' : String) (g : FS) (a : Act), g.get [w] = some .dir → w' ≠ w →
    proj w' (act [w] g a).1 = proj w' g :=
  fun w w' g a hw hne => (act_frame w g a hw).2.2 w' hne

-- two scripts using the same relative names, interleaved
example :
    let g : FS := [(["script-a"], .dir), (["script-b"], .dir)]
    let sched := [("script-a", Act.mk ["x"]), ("script-b", Act.wr ["x"] [98] false), ("script-a", Act.wr ["x", "f"] [97] true),
                  ("script-b", Act.rm ["x"]), ("script-a", Act.wr ["x", "f"] [97] true)]
    ((runShared g sched).2.map fun r => (r.1, r.2.1)) =
      [("script-a", true), ("script-b", true), ("script-a", true), ("script-b", true), ("script-a", false)] ∧
    proj "script-a" (runShared g sched).1 = [(["x", "f"], .file [97]), (["x"], .dir), ([], .dir)] ∧
    proj "script-b" (runShared g sched).1 = [([], .dir)] := by decide +kernel

/-! ### deferred functions and background commands, on every exit path -/

/-- a small configuration for the examples -/
def exCfg (coe : Bool) : Cfg := ⟨coe, false, false, [("PATH", "/bin")], "/t", "a", [], [7, 8], []⟩

/-- For every configuration, archive and script over the model's vocabulary — whichever way the
run ends (setup failure, failing line, FailNow at the end under ContinueOnError, skip, stop, end of
script): the deferred functions (registered by Setup through `Env.Defer` and by commands through
`TestScript.Defer`) are called in reverse registration order, each exactly once — also when some
of them do not return normally (`.regDefer id ab` with `ab` = FailNow / Skip on the T, i.e.
runtime.Goexit, or a panic): the older functions still run, because each link is
`defer old(); f()`. -/
theorem defer_lifo : ∀ (cfg : Cfg) (files : List Entry) (ops : List Op),
    defsOf (runScript cfg files ops).trace = (runScript cfg files ops).registered.reverse :=
  fun cfg files ops => (runScript_spec cfg files ops).1

-- a failing line, a skip, a stop, the end of the script, ContinueOnError, a failing setup
example : defsOf (runScript (exCfg false) [] [.regDefer 1 .none, .regDefer 2 .none, .failLine, .regDefer 3 .none]).trace = [2, 1, 8, 7] := by decide +kernel
example : defsOf (runScript (exCfg false) [] [.regDefer 1 .none, .skip, .regDefer 3 .none]).trace = [1, 8, 7] := by decide +kernel
example : defsOf (runScript (exCfg false) [] [.regDefer 1 .none, .stop, .regDefer 3 .none]).trace = [1, 8, 7] := by decide +kernel
example : defsOf (runScript (exCfg true) [] [.regDefer 1 .none, .failLine, .regDefer 3 .none]).trace = [3, 1, 8, 7] := by decide +kernel
example : (runScript (exCfg false) [(["a"], []), (["a", "b"], [])] [.regDefer 1 .none]).verdict = .fail ∧
    defsOf (runScript (exCfg false) [(["a"], []), (["a", "b"], [])] [.regDefer 1 .none]).trace = [] := by decide +kernel
-- a deferred function that calls FailNow / panics: the older ones still run, the script fails
example : defsOf (runScript (exCfg false) [] [.regDefer 1 .none, .regDefer 2 .failNow, .regDefer 3 .none]).trace = [3, 2, 1, 8, 7] ∧
    (runScript (exCfg false) [] [.regDefer 1 .none, .regDefer 2 .failNow, .regDefer 3 .none]).verdict = .fail := by decide +kernel
example : defsOf (runScript (exCfg false) [] [.regDefer 1 .panic, .regDefer 2 .none]).trace = [2, 1, 8, 7] ∧
    (runScript (exCfg false) [] [.regDefer 1 .skip]).verdict = .skip := by decide +kernel

/-- The chain that `Defer` builds (`func() { defer old(); f() }` around the previous chain) calls
ALL the functions, newest first, however each of them ends. -/
theorem defer_chain_order : ∀ (l : List (Nat × Abort)),
    (l.foldl (fun c x => Chain.link x.1 x.2 c) Chain.nop).call = (l.map (·.1)).reverse := by
  intro l
  have : ∀ (l : List (Nat × Abort)) (c : Chain) (done : List Nat), c.call = done.reverse →
      (l.foldl (fun c x => Chain.link x.1 x.2 c) c).call = (done ++ l.map (·.1)).reverse := by
    intro l
    induction l with
    | nil => intro c done h; simpa using h
    | cons x rest ih =>
      intro c done h
      simp only [List.foldl_cons]
      have := ih (Chain.link x.1 x.2 c) (done ++ [x.1]) (by simp [call_link, h])
      simpa using this
  simpa using this l Chain.nop [] rfl

example : (Chain.link 3 .none (Chain.link 2 .panic (Chain.link 1 .failNow .nop))).call = [3, 2, 1] := by decide

/-- For every script and every exit path: the log is flushed exactly once, as the last action of
the run, and by then every background command the script started has been waited for (those still
in `ts.background` after having been interrupted). -/
theorem background_drained : ∀ (cfg : Cfg) (files : List Entry) (ops : List Op),
    ∃ body, (runScript cfg files ops).trace = body ++ [Ev.logFlush] ∧ Ev.logFlush ∉ body ∧
      ∀ id k, Ev.started id k ∈ body → Ev.waited id ∈ body :=
  fun cfg files ops => (runScript_spec cfg files ops).2

example : (runScript (exCfg false) [] [.bg "x" .sig false, .bg "" .ok false, .failLine]).trace =
    [.started 0 .sig, .started 1 .ok, .applyUpdates, .deferred 8, .deferred 7,
     .interrupted 0, .interrupted 1, .waited 0, .waited 1, .logFlush] := by decide +kernel

/-- `drainAll` (the end-of-script drain and the first deferred block): everything in
`ts.background` is first interrupted, then waited for, and the list is emptied. -/
theorem exit_interrupts_then_waits : ∀ (s : SState),
    (drainAll s).trace = (s.bg.map fun b => Ev.waited b.id).reverse ++
      ((s.bg.map fun b => Ev.interrupted b.id).reverse ++ s.trace) ∧ (drainAll s).bg = [] :=
  fun s => ⟨(drainAll_spec s).1, (drainAll_spec s).2.1⟩

/-! ### reference-counted cleanup -/

/-- N ≥ 1 finishers, each doing `removeAll(workdir_i); if AddInt32(&refCount, −1) == 0 {
os.Remove(root); cancel() }`, under EVERY interleaving of their atomic steps (a schedule is any
list of finisher indexes; a step of a finished finisher is not enabled):
in every reachable state the `os.Remove(root)` call has never failed (when it is made every work
directory is gone), it is made at most once and `cancel` at most once, after it;
and once all finishers are done the root is gone, removed by exactly one call, every work
directory is gone, cancel was called exactly once and the count is zero. -/
theorem refcount_cleanup : ∀ (n : Nat) (sched : List Nat) (s : RC), 1 ≤ n →
    (RC.init n false).run sched = some s →
    (s.rootFailed = 0 ∧ s.rootAttempts ≤ 1 ∧ s.cancels ≤ s.rootAttempts ∧ (s.root = false ↔ s.rootAttempts = 1)) ∧
    (s.complete = true →
      s.root = false ∧ s.rootAttempts = 1 ∧ s.cancels = 1 ∧ s.wd = List.replicate n false ∧ s.count = 0) := by
  intro n sched s hn h
  have hi := rinv_run sched (rinv_init n hn) h
  refine ⟨rc_safe hi, fun hc => ?_⟩
  obtain ⟨a, b, _, c, d, e⟩ := rc_complete hi hc
  exact ⟨a, b, c, d, e⟩

-- two interleavings of three finishers; an incomplete one
example : ((RC.init 3 false).run [0, 1, 2, 0, 1, 2, 2, 2]).map (fun s => (s.complete, s.root, s.rootAttempts, s.cancels, s.wd)) =
    some (true, false, 1, 1, [false, false, false]) := by decide
example : ((RC.init 3 false).run [2, 2, 1, 1, 0, 0, 0, 0]).map (fun s => (s.complete, s.root, s.rootAttempts, s.cancels)) =
    some (true, false, 1, 1) := by decide
example : ((RC.init 3 false).run [0, 0, 1, 1, 2]).map (fun s => (s.complete, s.root, s.rootAttempts, s.wd)) =
    some (false, true, 0, [false, false, false]) := by decide

/-- no finisher can get stuck: the system always reaches completion (each step strictly advances
one finisher, and an unfinished finisher always has a step). -/
theorem refcount_progress : ∀ (s : RC) (i : Nat) (p : PC), s.pcs[i]? = some p → p ≠ .done → (s.step i).isSome = true :=
  fun _ _ _ hp hne => rc_progress hp hne

/-- With TestWork or WorkdirRoot (which sets TestWork) nothing is removed: no finisher takes any
step. -/
theorem retention_removes_nothing : ∀ (n : Nat) (sched : List Nat) (s : RC),
    (RC.init n true).run sched = some s → sched = [] ∧ s.root = true ∧ s.wd = List.replicate n true ∧ s.rootAttempts = 0 := by
  intro n sched s h
  obtain ⟨rfl, hs⟩ := rc_retain n sched s h
  exact ⟨hs, rfl, rfl, rfl⟩

example : Gen.TsLife.workdirRootImpliesTestWork = true := rfl
example : (RC.init 2 true).step 0 = none := by decide

/-! ### more: the environment as a function, first free name, the root goes last, termination -/

/-- The environment handed to a script is a function of the work directory, Setup's additions and
THREE host variables: two host environments that agree on PATH, GOCOVERDIR and GORACE — and differ
in anything else, in any way — give the same `ts.env`, entry for entry (and so the same environment
for every child process). No other host variable can have any influence. -/
theorem env_function_of_three_host_vars : ∀ (host host' : EnvList) (workdir : String) (setup : EnvList),
    hostGetenv host "PATH" = hostGetenv host' "PATH" →
    hostGetenv host "GOCOVERDIR" = hostGetenv host' "GOCOVERDIR" →
    hostGetenv host "GORACE" = hostGetenv host' "GORACE" →
    initialEnv host workdir setup = initialEnv host' workdir setup ∧
    ∀ cd, childEnv (initialEnv host workdir setup) cd = childEnv (initialEnv host' workdir setup) cd := by
  intro host host' wd setup h1 h2 h3
  have hr : hostReads = ["PATH", "GOCOVERDIR", "GORACE"] := by decide
  have := initialEnv_congr host host' wd setup (by
    rw [hr]; intro k hk
    simp only [List.mem_cons, List.not_mem_nil, or_false] at hk
    rcases hk with rfl | rfl | rfl <;> assumption)
  exact ⟨this, fun cd => by rw [this]⟩

example : initialEnv [("SECRET", "a"), ("PATH", "/bin"), ("HOME", "/root")] "/t/script-a" [("X", "1")] =
    initialEnv [("PATH", "/bin"), ("LANG", "C"), ("GOFLAGS", "-mod=mod")] "/t/script-a" [("X", "1")] := by decide

/-- The `#N` probing loop takes the FIRST free candidate of `b, b#1, b#2, …`: the name given is not
taken, every earlier candidate is; in particular a base name nobody has taken is kept as it is —
the subtest name, and with it the work directory `<root>/script-<name>` (an injective function of
the name alone), does not depend on anything but the base names of the files before it. -/
theorem names_first_free : ∀ (taken : List String) (b : String),
    (∃ n j, pickName taken b = some n ∧ n = cand b j ∧ n ∉ taken ∧ ∀ k, k < j → cand b k ∈ taken) ∧
    (b ∉ taken → pickName taken b = some b) ∧
    (∀ root x y, workdirOf root x = workdirOf root y → x = y) := by
  have _ : FNames := ⟨rfl⟩
  intro taken b
  refine ⟨pickName_first taken b, ?_, fun root x y => workdirOf_injective root x y⟩
  intro hb
  obtain ⟨n, j, h, hn, _, hall⟩ := pickName_first taken b
  cases j with
  | zero => rw [h, hn]; rfl
  | succ j' => exact absurd (hall 0 (by omega)) hb

example : pickName ["foo", "foo#1", "bar"] "foo" = some "foo#2" ∧ pickName ["foo", "foo#1", "bar"] "baz" = some "baz" := by decide +kernel

/-- Under EVERY interleaving, in every reachable state: once the shared root is gone the count is
zero and every work directory is gone; conversely, as long as some script's work directory exists
the root exists too (and that script's finisher has not even started) — the root is never removed
while a work directory still exists. -/
theorem refcount_root_last : ∀ (n : Nat) (sched : List Nat) (s : RC), 1 ≤ n →
    (RC.init n false).run sched = some s →
    (s.root = false → s.count = 0 ∧ s.wd = List.replicate n false) ∧
    (∀ i : Nat, s.wd[i]? = some true → s.root = true ∧ s.pcs[i]? = some PC.rmAll) :=
  fun n sched _ hn h => rc_root_last (rinv_run sched (rinv_init n hn) h)

example : ((RC.init 2 false).run [0, 0, 1]).map (fun s => (s.wd, s.root, s.count)) = some ([false, false], true, 1) := by decide

/-- The cleanup terminates under every interleaving: a schedule of N finishers has at most 2N+2
steps, it is complete exactly when it has 2N+2 steps (two per finisher and two more for the one
that sees zero), and an incomplete one can always be continued — so every maximal schedule is a
complete one, and by `refcount_cleanup` ends with the root removed exactly once. -/
theorem refcount_terminates : ∀ (n : Nat) (sched : List Nat) (s : RC), 1 ≤ n →
    (RC.init n false).run sched = some s →
    sched.length ≤ 2 * n + 2 ∧ (s.complete = true ↔ sched.length = 2 * n + 2) ∧
    (s.complete = false → ∃ i, (s.step i).isSome = true) := by
  intro n sched s hn h
  have hi := rinv_run sched (rinv_init n hn) h
  have hr := todo_run sched (rinv_init n hn) h
  rw [todo_init n hn] at hr
  have hz := todo_zero_iff hi
  refine ⟨by omega, ⟨fun hc => by have := hz.2 hc; omega, fun hl => hz.1 (by omega)⟩, ?_⟩
  intro hc
  have : ∃ p ∈ s.pcs, p ≠ PC.done := by
    false_or_by_contra
    rename_i hno
    have : s.complete = true := by
      simp only [RC.complete, List.all_eq_true, beq_iff_eq]
      intro p hp
      false_or_by_contra
      rename_i hne
      exact hno ⟨p, hp, hne⟩
    rw [hc] at this; cases this
  obtain ⟨p, hp, hne⟩ := this
  obtain ⟨i, hlt, hpi⟩ := List.getElem_of_mem hp
  exact ⟨i, rc_progress (p := p) (by rw [List.getElem?_eq_getElem hlt, hpi]) hne⟩

example : ((RC.init 3 false).run [0, 1, 2, 0, 1, 2, 2, 2]).map (fun s => s.complete) = some true ∧
    [0, 1, 2, 0, 1, 2, 2, 2].length = 2 * 3 + 2 := by decide

/-! ### more: the bookkeeping of background commands -/

/-- `runScript`'s outcome is the projection of the final script state `runFinal` (defined in
GIV/Lemmas/TsLifeMore.lean by the same equations); on EVERY exit path — setup failure, failing line,
failing `wait` that leaves its list in place, skip, stop, end of script, a deferred function that
aborts — `ts.background` is empty in that state: no bookkeeping entry survives the run. -/
theorem background_list_empty_at_end : ∀ (cfg : Cfg) (files : List Entry) (ops : List Op),
    (runScript cfg files ops).trace = (runFinal cfg files ops).trace.reverse ∧
    (runScript cfg files ops).registered = (runFinal cfg files ops).registered ∧
    (runScript cfg files ops).finalFs = (runFinal cfg files ops).fs ∧
    (runFinal cfg files ops).bg = [] := by
  intro cfg files ops
  obtain ⟨a, b, c⟩ := runScript_final cfg files ops
  exact ⟨a, b, c, runFinal_bg_empty cfg files ops⟩

/-- the full statement one would like: every started background command is waited for EXACTLY once. -/
def background_waited_exactly_once_statement : Prop :=
  ∀ (cfg : Cfg) (files : List Entry) (ops : List Op) (id : Nat) (k : BgKind),
    Ev.started id k ∈ (runScript cfg files ops).trace → (runScript cfg files ops).trace.count (Ev.waited id) = 1

/-- It is FALSE for the model (and for the code, where `<-bg.wait` reads a closed channel: harmless):
a `wait` whose status check fails part-way leaves `ts.background` in place, and the end-of-run
block receives from the `wait` channel of every entry again — also of those already waited for. -/
theorem background_waited_exactly_once_false : ¬ background_waited_exactly_once_statement := by
  intro h
  have := h (exCfg false) [] [.bg "" .ok false, .bg "" .bad false, .waitAll] 0 .ok (by decide +kernel)
  revert this
  decide +kernel

example : (runScript (exCfg false) [] [.bg "" .ok false, .bg "" .bad false, .waitAll]).trace =
    [.started 0 .ok, .started 1 .bad, .waited 0, .waited 1, .applyUpdates, .deferred 8, .deferred 7,
     .interrupted 0, .interrupted 1, .waited 0, .waited 1, .logFlush] := by decide +kernel

/-- The strongest true variant: when every background command of the script ends with the status
its line expects (`exec … &` for a command that succeeds, `! exec … &` for one that fails — so no
`wait` can fail its status check) and the script does not hang in a `wait` for a process that never
exits, then on EVERY exit path (failing line, ContinueOnError, skip, stop, end of script, aborting
deferred functions, `wait name` / `wait` in any order) every started background command is waited
for EXACTLY once. -/
theorem background_waited_exactly_once_partial : ∀ (cfg : Cfg) (files : List Entry) (ops : List Op),
    (∀ name kind neg, Op.bg name kind neg ∈ ops → kind.success ≠ neg) →
    (runScript cfg files ops).verdict ≠ .hang →
    ∀ (id : Nat) (k : BgKind), Ev.started id k ∈ (runScript cfg files ops).trace →
      (runScript cfg files ops).trace.count (Ev.waited id) = 1 := by
  intro cfg files ops hg hv id k hs
  refine waited_exactly_once cfg files ops ?_ hv id k hs
  intro op hop
  cases op with
  | bg name kind neg => simpa [opGood] using hg name kind neg hop
  | _ => rfl

example : (runScript (exCfg false) [] [.bg "x" .ok false, .bg "" .bad true, .bg "y" .sig false, .waitOne "x", .failLine]).trace =
    [.started 0 .ok, .started 1 .bad, .started 2 .sig, .waited 0, .applyUpdates, .deferred 8, .deferred 7,
     .interrupted 1, .interrupted 2, .waited 1, .waited 2, .logFlush] ∧
    (runScript (exCfg false) [] [.bg "x" .ok false, .bg "" .bad true, .bg "y" .sig false, .waitOne "x", .failLine]).verdict = .fail := by
  decide +kernel
-- the excluded case: a `wait` that blocks on a helper that never exits, after having received from an earlier entry
example : (runScript (exCfg false) [] [.bg "" .ok false, .bg "" .sig false, .waitAll]).verdict = .hang ∧
    (runScript (exCfg false) [] [.bg "" .ok false, .bg "" .sig false, .waitAll]).trace.count (Ev.waited 0) = 2 := by decide +kernel

end GIV.C04
