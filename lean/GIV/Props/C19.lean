import GIV.Model.Build
namespace GIV.C19
open GIV

end GIV.C19
