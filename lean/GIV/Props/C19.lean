/-
  C19 — imports.ShouldBuild and MatchFile implement Go's build-constraint rules.

  Model: GIV.Model.Build (mirrors build.go; constants and deciding expressions from
  GIV.Gen.ImportsBuild).  Specification: GIV.Lemmas.ImportsBuildSpec (Term / Line / evalLine,
  linesOf / leadingBlock, suffixUnselected), written from the property statement with the
  property's own constants; GIV.Lemmas.ImportsBuildSuffix (stem, stripTest, SuffixUnselected): the
  MatchFile rule read over suffixes of the file name.  All theorems hold for every non-ASCII letter-or-digit predicate `U`.
-/
import GIV.Lemmas.ImportsBuildProofs
import GIV.Lemmas.ImportsBuildSuffix
import GIV.Lemmas.ImportsBuildGoFile
import GIV.Lemmas.ImportsBuildGoSB
import GIV.Lemmas.ScanSpec

namespace GIV.C19
open GIV GIV.Build

/-- example environment: only ASCII letters/digits, tags = {android, amd64}. -/
def exU : Nat → Bool := fun _ => false
def exTags : Tags := fun t => t == android || t == [97, 109, 100, 54, 52]

/-- `matchTags`: commas AND the terms of an option; a term is `tag` / `!tag`, anything malformed
(empty, `!`, `!!…`, a rune that is no letter, digit, '_' or '.') is false; android also satisfies
linux; with `*` every tag but `ignore` is both true and false. -/
theorem matchTags_spec (U : Nat → Bool) (name : Bytes) (tags : Tags) :
    matchTags U name tags = (parseOption U name).all (evalTerm tags) :=
  matchTags_eq U name tags

-- "linux,!windows" under {android, amd64}: true (android satisfies linux, windows absent)
example : matchTags exU [108,105,110,117,120, 44, 33, 119,105,110,100,111,119,115] exTags = true := by decide
example : parseOption exU [108,105,110,117,120, 44, 33, 119,105,110,100,111,119,115]
    = [.tag linux, .not [119,105,110,100,111,119,115]] := by decide
-- "!!linux", "!", "a-b" are malformed
example : parseOption exU [33, 33, 108] = [.bad] ∧ parseOption exU [33] = [.bad] ∧ parseOption exU [97, 45, 98] = [.bad] := by decide

/-- `ShouldBuild`: true exactly when every `// +build` line of the leading block (the longest
prefix of blank and // lines that ends in a blank line) has a satisfied option. -/
theorem shouldBuild_spec (U : Nat → Bool) (c : Bytes) (tags : Tags) :
    shouldBuild U c tags =
      (leadingBlock (linesOf c)).all (fun l =>
        match plusBuildArgs l with
        | some args => evalLine tags (parseLine U args)
        | none => true) :=
  shouldBuild_eq_spec U c tags

-- "// +build windows\n\npackage p\n": the block is the first two lines, and the line is not satisfied;
-- without the blank line the block is empty and the file is accepted.
-- bytes of: "// +build windows\n\npackage p\n" | "// +build windows"
example : leadingBlock (linesOf [47, 47, 32, 43, 98, 117, 105, 108, 100, 32, 119, 105, 110, 100, 111, 119, 115, 10, 10, 112, 97, 99, 107, 97, 103, 101, 32, 112, 10]) = [[47, 47, 32, 43, 98, 117, 105, 108, 100, 32, 119, 105, 110, 100, 111, 119, 115], []] := by decide
-- bytes of: "// +build windows\n\npackage p\n"
example : shouldBuild exU [47, 47, 32, 43, 98, 117, 105, 108, 100, 32, 119, 105, 110, 100, 111, 119, 115, 10, 10, 112, 97, 99, 107, 97, 103, 101, 32, 112, 10] exTags = false := by decide
-- bytes of: "// +build windows\npackage p\n"
example : shouldBuild exU [47, 47, 32, 43, 98, 117, 105, 108, 100, 32, 119, 105, 110, 100, 111, 119, 115, 10, 112, 97, 99, 107, 97, 103, 101, 32, 112, 10] exTags = true := by decide
-- bytes of: "// +build linux,amd64 windows\n\npackage p\n"
example : shouldBuild exU [47, 47, 32, 43, 98, 117, 105, 108, 100, 32, 108, 105, 110, 117, 120, 44, 97, 109, 100, 54, 52, 32, 119, 105, 110, 100, 111, 119, 115, 10, 10, 112, 97, 99, 107, 97, 103, 101, 32, 112, 10] exTags = true := by decide

/-- The leading block is what the statement says: a prefix of the file's lines made of blank and
// comment lines, ending in a blank line, and the longest such prefix. -/
theorem leadingBlock_characterised (ls : List Bytes) :
    leadingBlock ls <+: ls ∧
    (∀ l ∈ leadingBlock ls, isBlank l = true ∨ isComment l = true) ∧
    (∀ l, (leadingBlock ls).getLast? = some l → isBlank l = true) ∧
    (∀ k, k ≤ ls.length → (∀ l ∈ ls.take k, isBlank l = true ∨ isComment l = true) →
      (∃ l, (ls.take k).getLast? = some l ∧ isBlank l = true) → k ≤ (leadingBlock ls).length) :=
  ⟨leadingBlock_prefix ls, leadingBlock_lines ls, leadingBlock_ends_blank ls, leadingBlock_maximal ls⟩

-- "// a", "", "// b", "package p": the block is the first two lines (the comment attached to the package clause is not in it)
example : leadingBlock [[47, 47, 32, 97], [], [47, 47, 32, 98], [112, 97, 99, 107, 97, 103, 101, 32, 112]] = [[47, 47, 32, 97], []] := by
  decide

/-- `MatchFile`: false exactly when `*` is not set and the name (cut at the first '.', everything
before the first '_' ignored, a final `_test` dropped) ends in `_GOOS_GOARCH`, `_GOOS` or `_GOARCH`
with a known token that the tags — android also selecting linux — do not select. -/
theorem matchFile_spec (U : Nat → Bool) (name : Bytes) (tags : Tags) :
    matchFile U name tags = false ↔
      tags star = false ∧ ∃ rl, fileSegsRev name = some rl ∧ suffixUnselected tags rl :=
  matchFile_false_iff U name tags

-- regression witness of the repaired defect: x_linux.go is selected by {android, …}
-- bytes of: "x_linux.go"
example : matchFile exU [120, 95, 108, 105, 110, 117, 120, 46, 103, 111] exTags = true := by decide
-- bytes of: "x_windows_amd64_test.go"
example : matchFile exU [120, 95, 119, 105, 110, 100, 111, 119, 115, 95, 97, 109, 100, 54, 52, 95, 116, 101, 115, 116, 46, 103, 111] exTags = false := by decide
-- bytes of: "x_windows_amd64_test.go" | "amd64" | "windows"
example : fileSegsRev [120, 95, 119, 105, 110, 100, 111, 119, 115, 95, 97, 109, 100, 54, 52, 95, 116, 101, 115, 116, 46, 103, 111] = some [[97, 109, 100, 54, 52], [119, 105, 110, 100, 111, 119, 115], []] := by decide
-- bytes of: "amd64" | "windows"
example : suffixUnselected exTags [[97, 109, 100, 54, 52], [119, 105, 110, 100, 111, 119, 115], []] :=
  Or.inl ⟨_, _, _, rfl, by decide, by decide, Or.inl (by decide)⟩

/-- `MatchFile`, read over SUFFIXES of the name as the property states it (no reference to the
model's split): false exactly when `*` is not set and the name's stem (the part before the first
'.'), a final "_test" removed, ends in `_GOOS_GOARCH`, `_GOOS` or `_GOARCH` — the '_' included —
for a known OS / architecture that the tags, android also selecting linux, do not select. -/
theorem matchFile_suffix_reading (U : Nat → Bool) (name : Bytes) (tags : Tags) :
    matchFile U name tags = false ↔
      tags star = false ∧
      ((∃ o a, knownOS o = true ∧ knownArch a = true ∧
          (95 :: (o ++ 95 :: a)) <:+ stripTest (stem name) ∧ (sel tags o = false ∨ sel tags a = false)) ∨
       (∃ t, (knownOS t = true ∨ knownArch t = true) ∧
          (95 :: t) <:+ stripTest (stem name) ∧ sel tags t = false)) :=
  matchFile_suffix_spec U name tags

/-- `stem` and `stripTest` of the suffix reading are what their names say, in terms of prefixes and
suffixes only: the stem is the prefix of the name without '.' that is the whole name or is followed
by '.'; `stripTest` removes one final "_test" and leaves every other string alone; and the known
tokens contain neither '_' nor '.', so "ends in `_T`" determines `T`. -/
theorem suffix_reading_notions (name p s t : Bytes) :
    (stem name <+: name ∧ (46 : UInt8) ∉ stem name ∧ (stem name = name ∨ stem name ++ [46] <+: name)) ∧
    stripTest (p ++ 95 :: testWord) = p ∧
    (¬ (95 :: testWord) <:+ s → stripTest s = s) ∧
    (knownOS t = true ∨ knownArch t = true → t ≠ [] ∧ (95 : UInt8) ∉ t ∧ (46 : UInt8) ∉ t) :=
  ⟨⟨stem_prefix name, stem_no_dot name, stem_spec name⟩, stripTest_of_suffix p,
   stripTest_of_not_suffix s, known_clean t⟩

/-- a second example environment: tags = {android, arm64}. -/
def exTagsArm : Tags := fun t => t == android || t == [97, 114, 109, 54, 52]

-- "x_windows_amd64_test.go" under {android, amd64}: the stem without "_test" is "x_windows_amd64",
-- it ends in _windows_amd64 and windows is not selected: rejected
-- bytes of: "x_windows_amd64_test.go" | "x_windows_amd64"
example : stripTest (stem [120, 95, 119, 105, 110, 100, 111, 119, 115, 95, 97, 109, 100, 54, 52, 95, 116, 101, 115, 116, 46, 103, 111]) = [120, 95, 119, 105, 110, 100, 111, 119, 115, 95, 97, 109, 100, 54, 52] := by decide
example : SuffixUnselected exTags [120, 95, 119, 105, 110, 100, 111, 119, 115, 95, 97, 109, 100, 54, 52, 95, 116, 101, 115, 116, 46, 103, 111] ∧
    matchFile exU [120, 95, 119, 105, 110, 100, 111, 119, 115, 95, 97, 109, 100, 54, 52, 95, 116, 101, 115, 116, 46, 103, 111] exTags = false := by decide
-- "x_linux.go" under {android, arm64}: ends in _linux, which android selects: accepted
example : ¬ SuffixUnselected exTagsArm [120, 95, 108, 105, 110, 117, 120, 46, 103, 111] ∧
    matchFile exU [120, 95, 108, 105, 110, 117, 120, 46, 103, 111] exTagsArm = true := by decide
-- … and rejected without android ({arm64} only)
example : SuffixUnselected (fun t => t == [97, 114, 109, 54, 52]) [120, 95, 108, 105, 110, 117, 120, 46, 103, 111] := by decide
-- "linux.go": no '_' before the token, unconstrained under every tag set
example (tags : Tags) : ¬ SuffixUnselected tags [108, 105, 110, 117, 120, 46, 103, 111] ∧
    matchFile exU [108, 105, 110, 117, 120, 46, 103, 111] tags = true := by
  refine ⟨linux_go_unconstrained tags, ?_⟩
  cases h : matchFile exU [108, 105, 110, 117, 120, 46, 103, 111] tags with
  | true => rfl
  | false => exact absurd ((matchFile_suffix_spec _ _ _).mp h).2 (linux_go_unconstrained tags)
-- "_windows.go" (empty prefix) IS constrained; further corner cases: GIV/Lemmas/ImportsBuildSuffix.lean
example : SuffixUnselected exTagsArm [95, 119, 105, 110, 100, 111, 119, 115, 46, 103, 111] := by decide

/-- With `*` set MatchFile accepts every name, and ShouldBuild accepts every file in which each
+build line of the leading block has an option made of well-formed terms none of which names
`ignore` (only `ignore`, or a malformed option, can exclude a file). -/
theorem star_accepts (U : Nat → Bool) (name c : Bytes) (tags : Tags) (hs : tags star = true) :
    matchFile U name tags = true ∧
    ((∀ l ∈ leadingBlock (linesOf c), ∀ args, plusBuildArgs l = some args →
        ∃ opt ∈ args, ∀ t ∈ parseOption U opt, ∃ n, (t = .tag n ∨ t = .not n) ∧ n ≠ ignore) →
      shouldBuild U c tags = true) := by
  refine ⟨matchFile_star U name tags hs, ?_⟩
  intro h
  rw [shouldBuild_eq_spec]
  unfold shouldBuildSpec
  rw [List.all_eq_true]
  intro l hl
  unfold lineSatisfied
  cases hp : plusBuildArgs l with
  | none => rfl
  | some args =>
    obtain ⟨opt, hopt, hterms⟩ := h l hl args hp
    simp only [evalLine, parseLine, List.any_map, List.any_eq_true]
    refine ⟨opt, hopt, ?_⟩
    rw [Function.comp_apply, List.all_eq_true]
    intro t ht
    obtain ⟨n, hn, hni⟩ := hterms t ht
    rcases hn with rfl | rfl <;> simp [evalTerm, hs, hni]

-- bytes of: "// +build !linux\n\n"
example : shouldBuild exU [47, 47, 32, 43, 98, 117, 105, 108, 100, 32, 33, 108, 105, 110, 117, 120, 10, 10] (fun t => t == star) = true := by decide
-- bytes of: "// +build ignore\n\n"
example : shouldBuild exU [47, 47, 32, 43, 98, 117, 105, 108, 100, 32, 105, 103, 110, 111, 114, 101, 10, 10] (fun t => t == star) = false := by decide

/-! ### The same statements about the Go source itself

`GIV.Go.Build.{matchTag, matchTags, ShouldBuild, MatchFile}` are the Lean translation of
imports/build.go, regenerated from /repo's working tree on every check run
(harness/internal/go2lean → GIV/Gen/ImportsBuildGo.lean; `none` = Go run-time panic or exhausted
loop / recursion budget).  `unicode.IsLetter` / `unicode.IsDigit` are parameters of the
translation; what is assumed of them is `UnicodeOK` (ASCII tables exact, U+FFFD neither). -/

open GIV.Go.Build in
/-- The translated functions are total (no panic: every index and slice of build.go is in range,
the loop and recursion budgets suffice) and equal the model, for all inputs. -/
theorem go_build_agrees (isLetter isDigit : Int → Bool) (hU : UnicodeOK isLetter isDigit)
    (s : Bytes) (tags : Tags) (want : Bool) :
    GIV.Go.Build.matchTag isLetter isDigit s tags want = some (matchTag (UOf isLetter isDigit) s tags want) ∧
    GIV.Go.Build.matchTags isLetter isDigit s tags = some (matchTags (UOf isLetter isDigit) s tags) ∧
    GIV.Go.Build.ShouldBuild isLetter isDigit s tags = some (shouldBuild (UOf isLetter isDigit) s tags) ∧
    GIV.Go.Build.MatchFile isLetter isDigit s tags = some (matchFile (UOf isLetter isDigit) s tags) :=
  ⟨go_matchTag_eq isLetter isDigit hU s tags want, go_matchTags_eq isLetter isDigit hU s tags,
   go_ShouldBuild_eq isLetter isDigit hU s tags, go_MatchFile_eq isLetter isDigit hU s tags⟩

open GIV.Go.Build in
/-- `matchTags` of the source: the AND over the comma-separated terms of the specification. -/
theorem go_matchTags_spec (isLetter isDigit : Int → Bool) (hU : UnicodeOK isLetter isDigit)
    (name : Bytes) (tags : Tags) :
    GIV.Go.Build.matchTags isLetter isDigit name tags
      = some ((parseOption (UOf isLetter isDigit) name).all (evalTerm tags)) := by
  rw [go_matchTags_eq isLetter isDigit hU, matchTags_eq]

open GIV.Go.Build in
/-- `ShouldBuild` of the source never panics and is true exactly when every `// +build` line of the
leading block has a satisfied option. -/
theorem go_ShouldBuild_spec (isLetter isDigit : Int → Bool) (hU : UnicodeOK isLetter isDigit)
    (c : Bytes) (tags : Tags) :
    GIV.Go.Build.ShouldBuild isLetter isDigit c tags = some
      ((leadingBlock (linesOf c)).all (fun l =>
        match plusBuildArgs l with
        | some args => evalLine tags (parseLine (UOf isLetter isDigit) args)
        | none => true)) := by
  rw [go_ShouldBuild_eq isLetter isDigit hU, shouldBuild_eq_spec]; rfl

open GIV.Go.Build in
/-- `MatchFile` of the source never panics and is false exactly for an unselected known suffix. -/
theorem go_MatchFile_spec (isLetter isDigit : Int → Bool) (hU : UnicodeOK isLetter isDigit)
    (name : Bytes) (tags : Tags) :
    (∃ b, GIV.Go.Build.MatchFile isLetter isDigit name tags = some b ∧
      (b = false ↔ tags star = false ∧ ∃ rl, fileSegsRev name = some rl ∧ suffixUnselected tags rl)) :=
  ⟨_, go_MatchFile_eq isLetter isDigit hU name tags, matchFile_false_iff _ name tags⟩

open GIV.Go.Build in
/-- `MatchFile` of the source never panics, and its result is false exactly when `*` is not set and
the name ends — stem, a final "_test" removed — in an unselected `_GOOS_GOARCH`, `_GOOS` or `_GOARCH`. -/
theorem go_MatchFile_suffix_reading (isLetter isDigit : Int → Bool) (hU : UnicodeOK isLetter isDigit)
    (name : Bytes) (tags : Tags) :
    (∃ b, GIV.Go.Build.MatchFile isLetter isDigit name tags = some b) ∧
    ∀ b, GIV.Go.Build.MatchFile isLetter isDigit name tags = some b →
      (b = false ↔
        tags star = false ∧
        ((∃ o a, knownOS o = true ∧ knownArch a = true ∧
            (95 :: (o ++ 95 :: a)) <:+ stripTest (stem name) ∧ (sel tags o = false ∨ sel tags a = false)) ∨
         (∃ t, (knownOS t = true ∨ knownArch t = true) ∧
            (95 :: t) <:+ stripTest (stem name) ∧ sel tags t = false))) := by
  refine ⟨⟨_, go_MatchFile_eq isLetter isDigit hU name tags⟩, ?_⟩
  intro b hb
  rw [go_MatchFile_eq isLetter isDigit hU name tags, Option.some.injEq] at hb
  subst hb
  exact matchFile_suffix_spec _ name tags

/-- ASCII-only instance of the Unicode tables, for the closed examples below. -/
def exIsLetter (c : Int) : Bool := (decide (65 ≤ c) && decide (c ≤ 90)) || (decide (97 ≤ c) && decide (c ≤ 122))
def exIsDigit (c : Int) : Bool := decide (48 ≤ c) && decide (c ≤ 57)

theorem exUnicodeOK : GIV.Go.Build.UnicodeOK exIsLetter exIsDigit := by
  constructor
  · intro b hb
    have key : ∀ n : Nat, n < 128 →
        GIV.Go.Build.okRune exIsLetter exIsDigit (n : Int) = asciiTagByte (UInt8.ofNat n) := by decide +kernel
    have := key b.toNat (by simpa using UInt8.lt_iff_toNat_lt.mp hb)
    simpa using this
  · decide

-- the generated definitions, evaluated by the kernel: "linux,!windows" under {android, amd64};
-- "x_windows_amd64_test.go"; "// +build windows\n\npackage p\n"
example : GIV.Go.Build.matchTags exIsLetter exIsDigit [108,105,110,117,120, 44, 33, 119,105,110,100,111,119,115] exTags = some true := by decide
example : GIV.Go.Build.MatchFile exIsLetter exIsDigit [120, 95, 119, 105, 110, 100, 111, 119, 115, 95, 97, 109, 100, 54, 52, 95, 116, 101, 115, 116, 46, 103, 111] exTags = some false := by decide +kernel
example : GIV.Go.Build.ShouldBuild exIsLetter exIsDigit [47, 47, 32, 43, 98, 117, 105, 108, 100, 32, 119, 105, 110, 100, 111, 119, 115, 10, 10, 112, 97, 99, 107, 97, 103, 101, 32, 112, 10] exTags = some false := by decide

-- the suffix reading on the generated definitions: "x_linux.go" under {android, arm64} is accepted,
-- "x_windows_amd64_test.go" under {android, amd64} is rejected (above) and satisfies the suffix condition
example : GIV.Go.Build.MatchFile exIsLetter exIsDigit [120, 95, 108, 105, 110, 117, 120, 46, 103, 111] exTagsArm = some true := by decide +kernel
example : ∃ b, GIV.Go.Build.MatchFile exIsLetter exIsDigit [120, 95, 119, 105, 110, 100, 111, 119, 115, 95, 97, 109, 100, 54, 52, 95, 116, 101, 115, 116, 46, 103, 111] exTags = some b ∧ b = false ∧
    exTags star = false ∧ SuffixUnselected exTags [120, 95, 119, 105, 110, 100, 111, 119, 115, 95, 97, 109, 100, 54, 52, 95, 116, 101, 115, 116, 46, 103, 111] :=
  ⟨false, by decide +kernel, rfl, by decide, by decide⟩

/-! ### the caller: imports.ScanDir (imports/scan.go)

Model: GIV.Model.Scan.scanDir — the directory-entry filter of ScanDir followed by scanFiles with
explicitFiles = false; `entrySelected` (GIV.Lemmas.ScanSpec) = regular file ∧ name does not start with
"_" ∧ name ends in ".go" ∧ MatchFile ∧ not skipped by the `import "C"` rule ∧ ShouldBuild on the
prefix ReadImports returned.  Tied to /repo by the scan lane of the correspondence run. -/

/-- example directory, in ReadDir order:
`_u.go`: 'package p\\nimport "u"\\n';
`a.go`: 'package p\\nimport "b"\\nimport "a"\\n';
`a_test.go`: 'package p\\nimport (\\n"t"\\n"a\\\\x62"\\n"\\\\q"\\n)\\n';
`c.go`: 'package p\\nimport "C"\\nimport "z"\\n';
`i.go`: '// +build ignore\\n\\npackage p\\nimport "i"\\n';
`sub.go` (a directory): -;
`w.go`: '// +build windows\\n\\npackage p\\nimport "w"\\n';
`x_windows.go`: 'package p\\nimport "xw"\\n';
`z.txt`: 'package p\\nimport "txt"\\n'. -/
def exDir : List GIV.Scan.Entry :=
  [⟨[95, 117, 46, 103, 111], true, [112, 97, 99, 107, 97, 103, 101, 32, 112, 10, 105, 109, 112, 111, 114, 116, 32, 34, 117, 34, 10]⟩,
   ⟨[97, 46, 103, 111], true, [112, 97, 99, 107, 97, 103, 101, 32, 112, 10, 105, 109, 112, 111, 114, 116, 32, 34, 98, 34, 10, 105, 109, 112, 111, 114, 116, 32, 34, 97, 34, 10]⟩,
   ⟨[97, 95, 116, 101, 115, 116, 46, 103, 111], true, [112, 97, 99, 107, 97, 103, 101, 32, 112, 10, 105, 109, 112, 111, 114, 116, 32, 40, 10, 34, 116, 34, 10, 34, 97, 92, 120, 54, 50, 34, 10, 34, 92, 113, 34, 10, 41, 10]⟩,
   ⟨[99, 46, 103, 111], true, [112, 97, 99, 107, 97, 103, 101, 32, 112, 10, 105, 109, 112, 111, 114, 116, 32, 34, 67, 34, 10, 105, 109, 112, 111, 114, 116, 32, 34, 122, 34, 10]⟩,
   ⟨[105, 46, 103, 111], true, [47, 47, 32, 43, 98, 117, 105, 108, 100, 32, 105, 103, 110, 111, 114, 101, 10, 10, 112, 97, 99, 107, 97, 103, 101, 32, 112, 10, 105, 109, 112, 111, 114, 116, 32, 34, 105, 34, 10]⟩,
   ⟨[115, 117, 98, 46, 103, 111], false, []⟩,
   ⟨[119, 46, 103, 111], true, [47, 47, 32, 43, 98, 117, 105, 108, 100, 32, 119, 105, 110, 100, 111, 119, 115, 10, 10, 112, 97, 99, 107, 97, 103, 101, 32, 112, 10, 105, 109, 112, 111, 114, 116, 32, 34, 119, 34, 10]⟩,
   ⟨[120, 95, 119, 105, 110, 100, 111, 119, 115, 46, 103, 111], true, [112, 97, 99, 107, 97, 103, 101, 32, 112, 10, 105, 109, 112, 111, 114, 116, 32, 34, 120, 119, 34, 10]⟩,
   ⟨[122, 46, 116, 120, 116], true, [112, 97, 99, 107, 97, 103, 101, 32, 112, 10, 105, 109, 112, 111, 114, 116, 32, 34, 116, 120, 116, 34, 10]⟩]

/-- the scan result as plain data (for closed examples). -/
def showScan : Except GIV.Scan.ScanErr (List Bytes × List Bytes) → Option (List Bytes × List Bytes) × Option GIV.Scan.ScanErr
  | .ok r => (some r, none)
  | .error e => (none, some e)

open GIV.Scan in
/-- ScanDir scans exactly the selected entries: when it succeeds, `imports` (`testImports`) consists of
exactly the unquoted import literals of the entries that are regular files, do not start with "_", end
in ".go", satisfy MatchFile, are not skipped by the `import "C"` rule and satisfy ShouldBuild on the
returned prefix, and whose name does not (does) end in `_test.go` — the test being made on the entry's
name, although the code makes it on `dir/name`; and at least one entry is selected. -/
theorem scanDir_file_set (U : Nat → Bool) (tags : Tags) (dir : Bytes) (entries : List Entry)
    (imps timps : List Bytes) (h : scanDir U tags dir entries = .ok (imps, timps)) :
    (∀ q, q ∈ imps ↔ ∃ e ∈ entries, entrySelected U tags e = true ∧ hasSuffix testGoSuffix e.name = false ∧
        ∃ p ∈ litsD e.data, unquote p = some q) ∧
    (∀ q, q ∈ timps ↔ ∃ e ∈ entries, entrySelected U tags e = true ∧ hasSuffix testGoSuffix e.name = true ∧
        ∃ p ∈ litsD e.data, unquote p = some q) ∧
    (∃ e ∈ entries, entrySelected U tags e = true) := by
  rw [scanDir_eq] at h
  obtain ⟨_, hc, hi, ht⟩ := scanFiles_ok_inv U tags false _ imps timps h
  subst hi ht
  refine ⟨?_, ?_, ?_⟩
  · intro q
    rw [mem_keys, mem_impsOf, dirFiles_exists]
    constructor
    · rintro ⟨e, he, hd, hs, hT, hp⟩
      rw [isTest_join] at hT
      exact ⟨e, he, by rw [entrySelected_eq U tags dir, hd, hs]; rfl, hT, hp⟩
    · rintro ⟨e, he, hs, hT, hp⟩
      rw [entrySelected_eq U tags dir, Bool.and_eq_true] at hs
      exact ⟨e, he, hs.1, hs.2, by rw [isTest_join]; exact hT, hp⟩
  · intro q
    rw [mem_keys, mem_testImpsOf, dirFiles_exists]
    constructor
    · rintro ⟨e, he, hd, hs, hT, hp⟩
      rw [isTest_join] at hT
      exact ⟨e, he, by rw [entrySelected_eq U tags dir, hd, hs]; rfl, hT, hp⟩
    · rintro ⟨e, he, hs, hT, hp⟩
      rw [entrySelected_eq U tags dir, Bool.and_eq_true] at hs
      exact ⟨e, he, hs.1, hs.2, by rw [isTest_join]; exact hT, hp⟩
  · obtain ⟨f, hf, hs⟩ := countSel_ne_zero U tags false _ hc
    obtain ⟨e, he, hd, hs'⟩ := (dirFiles_exists U tags dir entries (fun f => selected U tags false f = true)).mp ⟨f, hf, hs⟩
    exact ⟨e, he, by rw [entrySelected_eq U tags dir, hd, hs']; rfl⟩

-- the example directory under {android, amd64}: only a.go and a_test.go are scanned
-- (_u.go: underscore; c.go: import "C" without cgo; i.go, w.go: +build line; sub.go: not regular; x_windows.go: MatchFile; z.txt: not .go)
example : showScan (GIV.Scan.scanDir exU exTags [100] exDir) = (some ([[97], [98]], [[97, 98], [116]]), none) := by
  decide +kernel
example : exDir.map (GIV.Scan.entrySelected exU exTags) = [false, true, true, false, false, false, false, false, false] := by
  decide +kernel

open GIV.Scan in
/-- ScanDir reports ErrNoGo exactly when ReadImports fails on no entry that passes the entry filter and
no entry is selected (an empty directory included). -/
theorem scanDir_noGo_iff (U : Nat → Bool) (tags : Tags) (dir : Bytes) (entries : List Entry) :
    scanDir U tags dir entries = .error .noGo ↔
      (∀ e ∈ entries, dirSelects U tags e = true → readFails (joinPath dir e.name, e.data) = none) ∧
      ∀ e ∈ entries, entrySelected U tags e = false := by
  rw [scanDir_eq, scanFiles_noGo_iff, dirFiles_forall, dirFiles_forall]
  constructor
  · rintro ⟨h1, h2⟩
    refine ⟨h1, fun e he => ?_⟩
    rw [entrySelected_eq U tags dir]
    cases hd : dirSelects U tags e with
    | false => rfl
    | true => rw [h2 e he hd]; rfl
  · rintro ⟨h1, h2⟩
    refine ⟨h1, fun e he hd => ?_⟩
    have := h2 e he
    rw [entrySelected_eq U tags dir, hd] at this
    simpa using this

-- only filtered entries (_u.go, sub.go, x_windows.go, z.txt, c.go, w.go): ErrNoGo; so is the empty directory
example : showScan (GIV.Scan.scanDir exU exTags [100] (exDir.filter fun e => e.name != [97, 46, 103, 111] && e.name != [97, 95, 116, 101, 115, 116, 46, 103, 111])) = (none, some .noGo) := by
  decide +kernel
example : showScan (GIV.Scan.scanDir exU exTags [100] []) = (none, some .noGo) := by decide +kernel

open GIV.Scan in
/-- With `*` set, ScanDir's selection is: regular file, no "_" prefix, ".go" suffix, and ShouldBuild —
MatchFile accepts every name (`star_accepts`) and the `import "C"` rule is off; and ShouldBuild
accepts every file in which each +build line of the leading block has an option made of well-formed
terms none of which names `ignore`: then every regular, non-underscore .go file is scanned. -/
theorem scanDir_star_file_set (U : Nat → Bool) (tags : Tags) (hs : tags star = true) (e : Entry) :
    entrySelected U tags e =
      (e.regular && !hasPrefix underscore e.name && hasSuffix dotGo e.name && shouldBuild U (prefixD e.data) tags) ∧
    ((∀ l ∈ leadingBlock (linesOf (prefixD e.data)), ∀ args, plusBuildArgs l = some args →
        ∃ opt ∈ args, ∀ t ∈ parseOption U opt, ∃ n, (t = .tag n ∨ t = .not n) ∧ n ≠ ignore) →
      entrySelected U tags e = (e.regular && !hasPrefix underscore e.name && hasSuffix dotGo e.name)) := by
  have h1 : entrySelected U tags e =
      (e.regular && !hasPrefix underscore e.name && hasSuffix dotGo e.name && shouldBuild U (prefixD e.data) tags) := by
    unfold entrySelected
    rw [(star_accepts U e.name (prefixD e.data) tags hs).1, cSkip_star tags hs]
    simp
  refine ⟨h1, fun hb => ?_⟩
  rw [h1, (star_accepts U e.name (prefixD e.data) tags hs).2 hb]
  simp

-- the example directory under {*}: c.go (import "C"), w.go (+build windows) and x_windows.go are scanned as well;
-- i.go (+build ignore) is not
example : showScan (GIV.Scan.scanDir exU (fun t => t == star) [100] exDir)
    = (some ([[67], [97], [98], [119], [120, 119], [122]], [[97, 98], [116]]), none) := by
  decide +kernel
example : exDir.map (GIV.Scan.entrySelected exU (fun t => t == star)) = [false, true, true, true, false, false, true, true, false] := by
  decide +kernel

end GIV.C19
