/-
  C18 — imports.ReadImports returns exactly the file's imports and a safe prefix.

  Model: GIV.Model.ReadImports (byte machine mirroring read.go; constants from GIV.Gen.Imports).
  Specification: GIV.Lemmas.ImportsReadGrammar (inductive grammar of Go file headers with
  `render` and `importsOf`).
-/
import GIV.Lemmas.ImportsReadMain
import GIV.Lemmas.ImportsReadTotal
import GIV.Lemmas.ImportsReadFuel
import GIV.Lemmas.ImportsReadGoMain

namespace GIV.C18
open GIV GIV.ReadImports

/-- an example header:
`<BOM>// c\npackage p\nimport "a"\nimport(\nx `b`\n)` followed by `\nfunc`. -/
def exHeader : Header :=
  { bom := true
    pre := [.line [32, 99]]
    sep := [.blank 32]
    name := [112]
    decls := [([.blank 10], .single [.blank 32] ⟨.none, [], .interp [.plain 97]⟩),
              ([.blank 10], .group [] [([.blank 10], ⟨.ident [120], [.blank 32], .raw [98]⟩)] [.blank 10])] }

example : exHeader.WF = true := by decide
example : exHeader.importsOf = [[34, 97, 34], [96, 98, 96]] := by decide
example : TailOK exHeader [.blank 10] [102, 117, 110, 99] :=
  ⟨by decide, Or.inr (Or.inr ⟨102, _, rfl, by decide, by intro h; cases h⟩)⟩
-- … or a last comment without newline: `// x`
example : TailOK exHeader [.blank 10] [47, 47, 32, 120] :=
  ⟨by decide, Or.inr (Or.inl ⟨[32, 120], rfl, by decide, by decide⟩)⟩

/-- Soundness and completeness on the header grammar: for every well-formed header `h` (optional
BOM, comments, semicolons, single and grouped, named / dot / blank imports, raw and interpreted
path literals), followed by white space `tsp` and then the end of input, a last `//` comment without
newline, or a byte that can start a non-import declaration, ReadImports — whatever
`reportSyntaxError` is — returns exactly `importsOf h` in order, no error, and as bytes the header
without its byte-order mark plus the white space (and final comment) after it: a prefix of the
input (BOM aside) that contains the whole import section and stops before the first byte of the
next declaration. -/
theorem readImports_sound_complete (h : Header) (hw : h.WF = true) (tsp : Sp) (rest : Bytes)
    (ht : TailOK h tsp rest) (report : Bool) :
    readImports (h.render ++ renderSp tsp ++ rest) report =
      .ok h.importsOf (h.body ++ renderSp tsp ++ keptTail rest) none :=
  readImports_header h hw tsp rest ht report

example : readImports (exHeader.render ++ renderSp [.blank 10] ++ [102, 117, 110, 99]) false =
    .ok [[34, 97, 34], [96, 98, 96]] (exHeader.body ++ [10] ++ []) none :=
  readImports_sound_complete exHeader (by decide) [.blank 10] [102, 117, 110, 99]
    ⟨by decide, Or.inr (Or.inr ⟨102, _, rfl, by decide, by intro h; cases h⟩)⟩ false

/-- The returned prefix is itself a header of the grammar with the same imports, followed by white
space (and possibly a last comment) and the end of input — so running ReadImports on it again
yields the same imports and returns it unchanged ("the returned portion still parses to those
imports"). -/
theorem readImports_prefix_reparses (h : Header) (hw : h.WF = true) (tsp : Sp) (rest : Bytes)
    (ht : TailOK h tsp rest) (report : Bool) :
    readImports (h.body ++ renderSp tsp ++ keptTail rest) report =
      .ok h.importsOf (h.body ++ renderSp tsp ++ keptTail rest) none := by
  have h' : ({ h with bom := false } : Header).WF = true := hw
  have hc : keptTail rest = [] ∨ keptTail rest = rest := by
    unfold keptTail
    split
    · exact Or.inr rfl
    · exact Or.inl rfl
  have hk : keptTail (keptTail rest) = keptTail rest := by
    rcases hc with h0 | h0
    · rw [h0]; rfl
    · rw [h0]; exact h0
  have ht' : TailOK { h with bom := false } tsp (keptTail rest) := by
    refine ⟨ht.1, ?_⟩
    rcases ht.2 with rfl | ⟨body, rfl, hb⟩ | ⟨d, tl, rfl, hd, _⟩
    · exact Or.inl rfl
    · exact Or.inr (Or.inl ⟨body, rfl, hb⟩)
    · left
      unfold keptTail
      split
      · next h0 =>
        simp only [List.cons.injEq] at h0
        rw [h0.1] at hd
        exact absurd hd (by decide)
      · rfl
  have := readImports_header { h with bom := false } h' tsp (keptTail rest) ht' report
  rw [hk] at this
  simpa [Header.render, Header.body, Header.importsOf] using this

example : readImports (exHeader.body ++ renderSp [.blank 10] ++ keptTail [102, 117, 110, 99]) true =
    .ok exHeader.importsOf (exHeader.body ++ renderSp [.blank 10] ++ keptTail [102, 117, 110, 99]) none :=
  readImports_prefix_reparses exHeader (by decide) [.blank 10] [102, 117, 110, 99]
    ⟨by decide, Or.inr (Or.inr ⟨102, _, rfl, by decide, by intro h; cases h⟩)⟩ true

/-! ### arbitrary bytes -/

/-- For arbitrary input bytes ReadImports terminates without panicking and returns a result:
the `nerr > 10000` "import reader looping" panic of peekByte is unreachable (the counter never
exceeds 29), the final slice `r.buf[:len(r.buf)-1]` is in range, and no loop of the reader runs out
of the fuel the model gives it (input length plus a small constant) — i.e. every Go loop ends. -/
theorem readImports_total (d : Bytes) (report : Bool) :
    ∃ imps buf err, readImports d report = .ok imps buf err := by
  cases h : readImports d report with
  | panic => exact absurd h (readImports_no_panic d report)
  | stuck => exact absurd h (readImports_no_stuck d report)
  | ok imps buf err => exact ⟨imps, buf, err, rfl⟩

-- the counter bound behind it, on a concrete malformed input: `package p\nimport (` then EOF
example : (scan [112, 97, 99, 107, 97, 103, 101, 32, 112, 10, 105, 109, 112, 111, 114, 116, 32, 40]).nerr ≤ 29 := by
  have := (step_scan [112, 97, 99, 107, 97, 103, 101, 32, 112, 10, 105, 109, 112, 111, 114, 116, 32, 40]).2
  simpa [St.init] using this

/-- The returned bytes are a prefix of the input, the byte-order mark aside: only bytes read from
the input are returned. -/
theorem readImports_buf_prefix (d : Bytes) (report : Bool) (imps : List Bytes) (buf : Bytes)
    (err : Option Err) (h : readImports d report = .ok imps buf err) : buf <+: stripBOM d :=
  readImports_prefix d report imps buf err h

example : (exHeader.body ++ [10] ++ []) <+: stripBOM (exHeader.render ++ renderSp [.blank 10] ++ [102, 117, 110, 99]) :=
  readImports_buf_prefix _ false _ _ none
    (readImports_sound_complete exHeader (by decide) [.blank 10] [102, 117, 110, 99]
      ⟨by decide, Or.inr (Or.inr ⟨102, _, rfl, by decide, by intro h; cases h⟩)⟩ false)

/-- When the reporting run ends in a syntax error, the non-reporting run returns the whole input
(byte-order mark aside) and no error, so that a later full parse reports the same errors.
Hypothesis: the input has no NUL byte — a NUL is a hard error of its own ("unexpected NUL in
input"), reported whatever `reportSyntaxError` is, exactly as in go/build. -/
theorem readImports_syntax_whole (d : Bytes) (imps : List Bytes) (buf : Bytes)
    (h : readImports d true = .ok imps buf (some .syntax)) (hnul : (stripBOM d).all (· ≠ 0) = true) :
    readImports d false = .ok imps (stripBOM d) none :=
  readImports_whole_on_syntax d imps buf h hnul

-- `package p\nimport x` : a syntax error (no path), and the whole input comes back when not reported
example : readImports [112, 97, 99, 107, 97, 103, 101, 32, 112, 10, 105, 109, 112, 111, 114, 116, 32, 120] true =
    .ok [] [112, 97, 99, 107, 97, 103, 101, 32, 112, 10, 105, 109, 112, 111, 114, 116, 32, 120] (some .syntax) := by
  decide
example : readImports [112, 97, 99, 107, 97, 103, 101, 32, 112, 10, 105, 109, 112, 111, 114, 116, 32, 120] false =
    .ok [] [112, 97, 99, 107, 97, 103, 101, 32, 112, 10, 105, 109, 112, 111, 114, 116, 32, 120] none :=
  readImports_syntax_whole _ [] [112, 97, 99, 107, 97, 103, 101, 32, 112, 10, 105, 109, 112, 111, 114, 116, 32, 120]
    (by decide) (by decide)

/-! ### the regenerated model: imports/read.go itself, translated on every run

`GIV.Go.Read.*` (GIV/Gen/ImportsReadGo.lean) is the Lean translation of read.go that
`imports factgen` regenerates from /repo's working tree on every check run: `importReader` is a
structure threaded through its pointer-receiver methods, the `*bufio.Reader` is the input that
remains, `imports *[]string` is an in-out parameter (`some l` = a pointer to `l`), `none` is a Go
panic or an exhausted loop budget.  `GIV/Lemmas/ImportsReadGo*.lean` prove every translated function
equal to the model's counterpart under the state correspondence `ReadGo.ofSt`; the theorems below
restate the property over the translated source. -/

/-- the translated ReadImports — returned bytes, error, the list written through `imports` — is
the model's `readImports`, for every input and both values of `reportSyntaxError`. -/
theorem go_ReadImports_agrees (input : Bytes) (report : Bool) :
    Go.Read.ReadImports input report (some []) = ReadGo.toGo (readImports input report) :=
  ReadGo.go_ReadImports_eq input report

-- a file with a byte-order mark, a single and a grouped import; evaluated by the kernel on the generated definitions
example : Go.Read.ReadImports [239, 187, 191, 112, 97, 99, 107, 97, 103, 101, 32, 112, 10, 105, 109, 112, 111, 114, 116, 32, 34, 97, 34, 10, 105, 109, 112, 111, 114, 116, 32, 40, 10, 9, 120, 32, 96, 98, 96, 32, 47, 47, 32, 99, 10, 41, 10, 118, 97, 114, 32, 118] true (some []) =
    some ([112, 97, 99, 107, 97, 103, 101, 32, 112, 10, 105, 109, 112, 111, 114, 116, 32, 34, 97, 34, 10, 105, 109, 112, 111, 114, 116, 32, 40, 10, 9, 120, 32, 96, 98, 96, 32, 47, 47, 32, 99, 10, 41, 10], none, some [[34, 97, 34], [96, 98, 96]]) := by decide +kernel
example : ReadGo.toGo (readImports [239, 187, 191, 112, 97, 99, 107, 97, 103, 101, 32, 112, 10, 105, 109, 112, 111, 114, 116, 32, 34, 97, 34, 10, 105, 109, 112, 111, 114, 116, 32, 40, 10, 9, 120, 32, 96, 98, 96, 32, 47, 47, 32, 99, 10, 41, 10, 118, 97, 114, 32, 118] true) =
    some ([112, 97, 99, 107, 97, 103, 101, 32, 112, 10, 105, 109, 112, 111, 114, 116, 32, 34, 97, 34, 10, 105, 109, 112, 111, 114, 116, 32, 40, 10, 9, 120, 32, 96, 98, 96, 32, 47, 47, 32, 99, 10, 41, 10], none, some [[34, 97, 34], [96, 98, 96]]) := by decide +kernel

/-- the helper functions of the reader, translated, are the model's: the state correspondence is
`ReadGo.ofSt` (Go struct = remaining input, `buf`, `peek`, `err`, `eof`, `nerr` of the model state),
and `ReadGo.OK` says that neither model-only flag (`stuck`, `panicked`) is raised. -/
theorem go_read_parts_agree :
    (∀ c, Go.Read.isIdent c = some (isIdent c)) ∧
    (∀ st, Go.Read.syntaxError (ReadGo.ofSt st) = some (ReadGo.ofSt (syntaxError st))) ∧
    (∀ st, Go.Read.readByte (ReadGo.ofSt st) = some ((readByte st).1, ReadGo.ofSt (readByte st).2)) ∧
    (∀ sk st, ReadGo.OK (peekByte sk st).2 →
      Go.Read.peekByte (ReadGo.ofSt st) sk = some ((peekByte sk st).1, ReadGo.ofSt (peekByte sk st).2)) ∧
    (∀ sk st, ReadGo.OK (nextByte sk st).2 →
      Go.Read.nextByte (ReadGo.ofSt st) sk = some ((nextByte sk st).1, ReadGo.ofSt (nextByte sk st).2)) ∧
    (∀ kw st, ReadGo.OK (readKeyword kw st) →
      Go.Read.readKeyword (ReadGo.ofSt st) kw = some (ReadGo.ofSt (readKeyword kw st))) ∧
    (∀ st, ReadGo.OK (readIdent st) → Go.Read.readIdent (ReadGo.ofSt st) = some (ReadGo.ofSt (readIdent st))) ∧
    (∀ st, ReadGo.PeekBuf st → ReadGo.OK (readString st) →
      Go.Read.readString (ReadGo.ofSt st) (some st.imports) =
        some (ReadGo.ofSt (readString st), some (readString st).imports)) ∧
    (∀ st, ReadGo.PeekBuf st → ReadGo.OK (readImport st) →
      Go.Read.readImport (ReadGo.ofSt st) (some st.imports) =
        some (ReadGo.ofSt (readImport st), some (readImport st).imports)) :=
  ⟨ReadGo.isIdent_eq, ReadGo.syntaxError_eq, ReadGo.readByte_eq,
   fun sk st h => (ReadGo.peekByte_go sk st h).2, fun sk st h => (ReadGo.nextByte_go sk st h).2,
   fun kw st h => (ReadGo.readKeyword_go kw st h).2, fun st h => (ReadGo.readIdent_go st h).2,
   fun st hp h => (ReadGo.readString_go st hp h).2, fun st hp h => (ReadGo.readImport_go st hp h).2⟩

-- `peekByte(true)` on `/* c */ x`: skips the comment and peeks `x`, on the generated definition
example : (Go.Read.peekByte (ReadGo.ofSt (St.init [47, 42, 32, 99, 32, 42, 47, 32, 120])) true).map (·.1) = some 120 := by
  decide +kernel

/-- `readImports_total` over the translated source: for arbitrary input bytes the translated
ReadImports returns (`some …`) — no Go panic is reachable (in particular not the `nerr > 10000`
"import reader looping" panic of peekByte, which the translation keeps, nor the slice
`r.buf[:len(r.buf)-1]`) and every loop ends within the budget the translation gives it. -/
theorem go_ReadImports_total (input : Bytes) (report : Bool) :
    ∃ buf err imps, Go.Read.ReadImports input report (some []) = some (buf, err, some imps) := by
  obtain ⟨imps, buf, err, _, h⟩ := ReadGo.go_ReadImports_some input report
  exact ⟨buf, _, imps, h⟩

-- arbitrary bytes: `pack\x00` and an unterminated comment
example : Go.Read.ReadImports [112, 97, 99, 107, 0] true (some []) = some ([112, 97, 99, 107, 0], ReadGo.errNULGo, some []) := by
  decide +kernel
example : (Go.Read.ReadImports [47, 42, 32, 120] true (some [])).isSome = true := by decide +kernel

/-- `readImports_buf_prefix` over the translated source: the bytes the translated ReadImports
returns are a prefix of its input, the byte-order mark aside. -/
theorem go_ReadImports_buf_prefix (input : Bytes) (report : Bool) (buf : Bytes) (err : GoLib.GoError)
    (imps : Option (List Bytes)) (h : Go.Read.ReadImports input report (some []) = some (buf, err, imps)) :
    buf <+: stripBOM input := by
  obtain ⟨imps', buf', err', hm, hg⟩ := ReadGo.go_ReadImports_some input report
  rw [hg] at h
  simp only [Option.some.injEq, Prod.mk.injEq] at h
  rw [← h.1]
  exact readImports_buf_prefix input report imps' buf' err' hm

example : [112, 97, 99, 107, 97, 103, 101, 32, 112, 10, 105, 109, 112, 111, 114, 116, 32, 34, 97, 34, 10, 105, 109, 112, 111, 114, 116, 32, 40, 10, 9, 120, 32, 96, 98, 96, 32, 47, 47, 32, 99, 10, 41, 10] <+: stripBOM [239, 187, 191, 112, 97, 99, 107, 97, 103, 101, 32, 112, 10, 105, 109, 112, 111, 114, 116, 32, 34, 97, 34, 10, 105, 109, 112, 111, 114, 116, 32, 40, 10, 9, 120, 32, 96, 98, 96, 32, 47, 47, 32, 99, 10, 41, 10, 118, 97, 114, 32, 118] :=
  go_ReadImports_buf_prefix [239, 187, 191, 112, 97, 99, 107, 97, 103, 101, 32, 112, 10, 105, 109, 112, 111, 114, 116, 32, 34, 97, 34, 10, 105, 109, 112, 111, 114, 116, 32, 40, 10, 9, 120, 32, 96, 98, 96, 32, 47, 47, 32, 99, 10, 41, 10, 118, 97, 114, 32, 118] true _ none (some [[34, 97, 34], [96, 98, 96]]) (by decide +kernel)

/-- `readImports_syntax_whole` over the translated source: when the reporting run of the translated
ReadImports ends in `errSyntax`, the non-reporting run returns the whole input (byte-order mark
aside), no error and the same imports — for NUL-free input (a NUL is a hard error of its own). -/
theorem go_ReadImports_syntax_whole (input : Bytes) (buf : Bytes) (imps : Option (List Bytes))
    (h : Go.Read.ReadImports input true (some []) = some (buf, ReadGo.errSyntaxGo, imps))
    (hnul : (stripBOM input).all (· ≠ 0) = true) :
    Go.Read.ReadImports input false (some []) = some (stripBOM input, none, imps) := by
  obtain ⟨imps', buf', err', hm, hg⟩ := ReadGo.go_ReadImports_some input true
  rw [hg] at h
  simp only [Option.some.injEq, Prod.mk.injEq] at h
  obtain ⟨_, he, hi⟩ := h
  have herr : err' = some .syntax := by
    rcases err' with _ | (_ | _)
    · exact absurd he (by decide)
    · rfl
    · exact absurd he (by decide)
  rw [herr] at hm
  have hw := readImports_syntax_whole input imps' buf' hm hnul
  rw [go_ReadImports_agrees, hw, ← hi]
  rfl

-- a broken header (`package p\nimport x`): a syntax error when reported, the whole input when not
example : Go.Read.ReadImports [112, 97, 99, 107, 97, 103, 101, 32, 112, 10, 105, 109, 112, 111, 114, 116, 32, 120] true (some []) = some ([112, 97, 99, 107, 97, 103, 101, 32, 112, 10, 105, 109, 112, 111, 114, 116, 32, 120], ReadGo.errSyntaxGo, some []) := by decide +kernel
example : Go.Read.ReadImports [112, 97, 99, 107, 97, 103, 101, 32, 112, 10, 105, 109, 112, 111, 114, 116, 32, 120] false (some []) = some ([112, 97, 99, 107, 97, 103, 101, 32, 112, 10, 105, 109, 112, 111, 114, 116, 32, 120], none, some []) :=
  go_ReadImports_syntax_whole [112, 97, 99, 107, 97, 103, 101, 32, 112, 10, 105, 109, 112, 111, 114, 116, 32, 120] [112, 97, 99, 107, 97, 103, 101, 32, 112, 10, 105, 109, 112, 111, 114, 116, 32, 120] (some []) (by decide +kernel) (by decide +kernel)
example : Go.Read.ReadImports [112, 97, 99, 107, 97, 103, 101, 32, 112, 10, 105, 109, 112, 111, 114, 116, 32, 120] false (some []) = some ([112, 97, 99, 107, 97, 103, 101, 32, 112, 10, 105, 109, 112, 111, 114, 116, 32, 120], none, some []) := by decide +kernel

/-- the translated ReadComments, for every input: it returns (no panic) the leading white space
and comments — what the model's reader has consumed when its first `peekByte(true)` stops, minus
the byte that stopped it. -/
theorem go_ReadComments_agrees (input : Bytes) :
    Go.Read.ReadComments input =
      some ((ReadGo.readComments input).1, ReadGo.errGo (ReadGo.readComments input).2) :=
  ReadGo.go_ReadComments_eq input

example : Go.Read.ReadComments [47, 47, 32, 104, 105, 10, 47, 42, 32, 99, 32, 42, 47, 32, 112, 97, 99, 107, 97, 103, 101, 32, 112] = some ([47, 47, 32, 104, 105, 10, 47, 42, 32, 99, 32, 42, 47, 32], none) := by decide +kernel

end GIV.C18
