/-
  C18 — imports.ReadImports returns exactly the file's imports and a safe prefix.

  Model: GIV.Model.ReadImports (byte machine mirroring read.go; constants from GIV.Gen.Imports).
  Specification: GIV.Lemmas.ImportsReadGrammar (inductive grammar of Go file headers with
  `render` and `importsOf`).
-/
import GIV.Lemmas.ImportsReadMain
import GIV.Lemmas.ImportsReadTotal
import GIV.Lemmas.ImportsReadFuel
import GIV.Lemmas.ImportsReadGoMain
import GIV.Lemmas.ScanSpec

namespace GIV.C18
open GIV GIV.ReadImports

/-- an example header:
`<BOM>// c\npackage p\nimport "a"\nimport(\nx `b`\n)` followed by `\nfunc`. -/
def exHeader : Header :=
  { bom := true
    pre := [.line [32, 99]]
    sep := [.blank 32]
    name := [112]
    decls := [([.blank 10], .single [.blank 32] ⟨.none, [], .interp [.plain 97]⟩),
              ([.blank 10], .group [] [([.blank 10], ⟨.ident [120], [.blank 32], .raw [98]⟩)] [.blank 10])] }

example : exHeader.WF = true := by decide
example : exHeader.importsOf = [[34, 97, 34], [96, 98, 96]] := by decide
example : TailOK exHeader [.blank 10] [102, 117, 110, 99] :=
  ⟨by decide, Or.inr (Or.inr ⟨102, _, rfl, by decide, by intro h; cases h⟩)⟩
-- … or a last comment without newline: `// x`
example : TailOK exHeader [.blank 10] [47, 47, 32, 120] :=
  ⟨by decide, Or.inr (Or.inl ⟨[32, 120], rfl, by decide, by decide⟩)⟩

/-- Soundness and completeness on the header grammar: for every well-formed header `h` (optional
BOM, comments, semicolons, single and grouped, named / dot / blank imports, raw and interpreted
path literals), followed by white space `tsp` and then the end of input, a last `//` comment without
newline, or a byte that can start a non-import declaration, ReadImports — whatever
`reportSyntaxError` is — returns exactly `importsOf h` in order, no error, and as bytes the header
without its byte-order mark plus the white space (and final comment) after it: a prefix of the
input (BOM aside) that contains the whole import section and stops before the first byte of the
next declaration. -/
theorem readImports_sound_complete (h : Header) (hw : h.WF = true) (tsp : Sp) (rest : Bytes)
    (ht : TailOK h tsp rest) (report : Bool) :
    readImports (h.render ++ renderSp tsp ++ rest) report =
      .ok h.importsOf (h.body ++ renderSp tsp ++ keptTail rest) none :=
  readImports_header h hw tsp rest ht report

example : readImports (exHeader.render ++ renderSp [.blank 10] ++ [102, 117, 110, 99]) false =
    .ok [[34, 97, 34], [96, 98, 96]] (exHeader.body ++ [10] ++ []) none :=
  readImports_sound_complete exHeader (by decide) [.blank 10] [102, 117, 110, 99]
    ⟨by decide, Or.inr (Or.inr ⟨102, _, rfl, by decide, by intro h; cases h⟩)⟩ false

/-- The returned prefix is itself a header of the grammar with the same imports, followed by white
space (and possibly a last comment) and the end of input — so running ReadImports on it again
yields the same imports and returns it unchanged ("the returned portion still parses to those
imports"). -/
theorem readImports_prefix_reparses (h : Header) (hw : h.WF = true) (tsp : Sp) (rest : Bytes)
    (ht : TailOK h tsp rest) (report : Bool) :
    readImports (h.body ++ renderSp tsp ++ keptTail rest) report =
      .ok h.importsOf (h.body ++ renderSp tsp ++ keptTail rest) none := by
  have h' : ({ h with bom := false } : Header).WF = true := hw
  have hc : keptTail rest = [] ∨ keptTail rest = rest := by
    unfold keptTail
    split
    · exact Or.inr rfl
    · exact Or.inl rfl
  have hk : keptTail (keptTail rest) = keptTail rest := by
    rcases hc with h0 | h0
    · rw [h0]; rfl
    · rw [h0]; exact h0
  have ht' : TailOK { h with bom := false } tsp (keptTail rest) := by
    refine ⟨ht.1, ?_⟩
    rcases ht.2 with rfl | ⟨body, rfl, hb⟩ | ⟨d, tl, rfl, hd, _⟩
    · exact Or.inl rfl
    · exact Or.inr (Or.inl ⟨body, rfl, hb⟩)
    · left
      unfold keptTail
      split
      · next h0 =>
        simp only [List.cons.injEq] at h0
        rw [h0.1] at hd
        exact absurd hd (by decide)
      · rfl
  have := readImports_header { h with bom := false } h' tsp (keptTail rest) ht' report
  rw [hk] at this
  simpa [Header.render, Header.body, Header.importsOf] using this

example : readImports (exHeader.body ++ renderSp [.blank 10] ++ keptTail [102, 117, 110, 99]) true =
    .ok exHeader.importsOf (exHeader.body ++ renderSp [.blank 10] ++ keptTail [102, 117, 110, 99]) none :=
  readImports_prefix_reparses exHeader (by decide) [.blank 10] [102, 117, 110, 99]
    ⟨by decide, Or.inr (Or.inr ⟨102, _, rfl, by decide, by intro h; cases h⟩)⟩ true

/-! ### arbitrary bytes -/

/-- For arbitrary input bytes ReadImports terminates without panicking and returns a result:
the `nerr > 10000` "import reader looping" panic of peekByte is unreachable (the counter never
exceeds 29), the final slice `r.buf[:len(r.buf)-1]` is in range, and no loop of the reader runs out
of the fuel the model gives it (input length plus a small constant) — i.e. every Go loop ends. -/
theorem readImports_total (d : Bytes) (report : Bool) :
    ∃ imps buf err, readImports d report = .ok imps buf err := by
  cases h : readImports d report with
  | panic => exact absurd h (readImports_no_panic d report)
  | stuck => exact absurd h (readImports_no_stuck d report)
  | ok imps buf err => exact ⟨imps, buf, err, rfl⟩

-- the counter bound behind it, on a concrete malformed input: `package p\nimport (` then EOF
example : (scan [112, 97, 99, 107, 97, 103, 101, 32, 112, 10, 105, 109, 112, 111, 114, 116, 32, 40]).nerr ≤ 29 := by
  have := (step_scan [112, 97, 99, 107, 97, 103, 101, 32, 112, 10, 105, 109, 112, 111, 114, 116, 32, 40]).2
  simpa [St.init] using this

/-- The returned bytes are a prefix of the input, the byte-order mark aside: only bytes read from
the input are returned. -/
theorem readImports_buf_prefix (d : Bytes) (report : Bool) (imps : List Bytes) (buf : Bytes)
    (err : Option Err) (h : readImports d report = .ok imps buf err) : buf <+: stripBOM d :=
  readImports_prefix d report imps buf err h

example : (exHeader.body ++ [10] ++ []) <+: stripBOM (exHeader.render ++ renderSp [.blank 10] ++ [102, 117, 110, 99]) :=
  readImports_buf_prefix _ false _ _ none
    (readImports_sound_complete exHeader (by decide) [.blank 10] [102, 117, 110, 99]
      ⟨by decide, Or.inr (Or.inr ⟨102, _, rfl, by decide, by intro h; cases h⟩)⟩ false)

/-- When the reporting run ends in a syntax error, the non-reporting run returns the whole input
(byte-order mark aside) and no error, so that a later full parse reports the same errors.
Hypothesis: the input has no NUL byte — a NUL is a hard error of its own ("unexpected NUL in
input"), reported whatever `reportSyntaxError` is, exactly as in go/build. -/
theorem readImports_syntax_whole (d : Bytes) (imps : List Bytes) (buf : Bytes)
    (h : readImports d true = .ok imps buf (some .syntax)) (hnul : (stripBOM d).all (· ≠ 0) = true) :
    readImports d false = .ok imps (stripBOM d) none :=
  readImports_whole_on_syntax d imps buf h hnul

-- `package p\nimport x` : a syntax error (no path), and the whole input comes back when not reported
example : readImports [112, 97, 99, 107, 97, 103, 101, 32, 112, 10, 105, 109, 112, 111, 114, 116, 32, 120] true =
    .ok [] [112, 97, 99, 107, 97, 103, 101, 32, 112, 10, 105, 109, 112, 111, 114, 116, 32, 120] (some .syntax) := by
  decide
example : readImports [112, 97, 99, 107, 97, 103, 101, 32, 112, 10, 105, 109, 112, 111, 114, 116, 32, 120] false =
    .ok [] [112, 97, 99, 107, 97, 103, 101, 32, 112, 10, 105, 109, 112, 111, 114, 116, 32, 120] none :=
  readImports_syntax_whole _ [] [112, 97, 99, 107, 97, 103, 101, 32, 112, 10, 105, 109, 112, 111, 114, 116, 32, 120]
    (by decide) (by decide)

/-! ### the regenerated model: imports/read.go itself, translated on every run

`GIV.Go.Read.*` (GIV/Gen/ImportsReadGo.lean) is the Lean translation of read.go that
`imports factgen` regenerates from /repo's working tree on every check run: `importReader` is a
structure threaded through its pointer-receiver methods, the `*bufio.Reader` is the input that
remains, `imports *[]string` is an in-out parameter (`some l` = a pointer to `l`), `none` is a Go
panic or an exhausted loop budget.  `GIV/Lemmas/ImportsReadGo*.lean` prove every translated function
equal to the model's counterpart under the state correspondence `ReadGo.ofSt`; the theorems below
restate the property over the translated source. -/

/-- the translated ReadImports — returned bytes, error, the list written through `imports` — is
the model's `readImports`, for every input and both values of `reportSyntaxError`. -/
theorem go_ReadImports_agrees (input : Bytes) (report : Bool) :
    Go.Read.ReadImports input report (some []) = ReadGo.toGo (readImports input report) :=
  ReadGo.go_ReadImports_eq input report

-- a file with a byte-order mark, a single and a grouped import; evaluated by the kernel on the generated definitions
example : Go.Read.ReadImports [239, 187, 191, 112, 97, 99, 107, 97, 103, 101, 32, 112, 10, 105, 109, 112, 111, 114, 116, 32, 34, 97, 34, 10, 105, 109, 112, 111, 114, 116, 32, 40, 10, 9, 120, 32, 96, 98, 96, 32, 47, 47, 32, 99, 10, 41, 10, 118, 97, 114, 32, 118] true (some []) =
    some ([112, 97, 99, 107, 97, 103, 101, 32, 112, 10, 105, 109, 112, 111, 114, 116, 32, 34, 97, 34, 10, 105, 109, 112, 111, 114, 116, 32, 40, 10, 9, 120, 32, 96, 98, 96, 32, 47, 47, 32, 99, 10, 41, 10], none, some [[34, 97, 34], [96, 98, 96]]) := by decide +kernel
example : ReadGo.toGo (readImports [239, 187, 191, 112, 97, 99, 107, 97, 103, 101, 32, 112, 10, 105, 109, 112, 111, 114, 116, 32, 34, 97, 34, 10, 105, 109, 112, 111, 114, 116, 32, 40, 10, 9, 120, 32, 96, 98, 96, 32, 47, 47, 32, 99, 10, 41, 10, 118, 97, 114, 32, 118] true) =
    some ([112, 97, 99, 107, 97, 103, 101, 32, 112, 10, 105, 109, 112, 111, 114, 116, 32, 34, 97, 34, 10, 105, 109, 112, 111, 114, 116, 32, 40, 10, 9, 120, 32, 96, 98, 96, 32, 47, 47, 32, 99, 10, 41, 10], none, some [[34, 97, 34], [96, 98, 96]]) := by decide +kernel

/-- the helper functions of the reader, translated, are the model's: the state correspondence is
`ReadGo.ofSt` (Go struct = remaining input, `buf`, `peek`, `err`, `eof`, `nerr` of the model state),
and `ReadGo.OK` says that neither model-only flag (`stuck`, `panicked`) is raised. -/
theorem go_read_parts_agree :
    (∀ c, Go.Read.isIdent c = some (isIdent c)) ∧
    (∀ st, Go.Read.syntaxError (ReadGo.ofSt st) = some (ReadGo.ofSt (syntaxError st))) ∧
    (∀ st, Go.Read.readByte (ReadGo.ofSt st) = some ((readByte st).1, ReadGo.ofSt (readByte st).2)) ∧
    (∀ sk st, ReadGo.OK (peekByte sk st).2 →
      Go.Read.peekByte (ReadGo.ofSt st) sk = some ((peekByte sk st).1, ReadGo.ofSt (peekByte sk st).2)) ∧
    (∀ sk st, ReadGo.OK (nextByte sk st).2 →
      Go.Read.nextByte (ReadGo.ofSt st) sk = some ((nextByte sk st).1, ReadGo.ofSt (nextByte sk st).2)) ∧
    (∀ kw st, ReadGo.OK (readKeyword kw st) →
      Go.Read.readKeyword (ReadGo.ofSt st) kw = some (ReadGo.ofSt (readKeyword kw st))) ∧
    (∀ st, ReadGo.OK (readIdent st) → Go.Read.readIdent (ReadGo.ofSt st) = some (ReadGo.ofSt (readIdent st))) ∧
    (∀ st, ReadGo.PeekBuf st → ReadGo.OK (readString st) →
      Go.Read.readString (ReadGo.ofSt st) (some st.imports) =
        some (ReadGo.ofSt (readString st), some (readString st).imports)) ∧
    (∀ st, ReadGo.PeekBuf st → ReadGo.OK (readImport st) →
      Go.Read.readImport (ReadGo.ofSt st) (some st.imports) =
        some (ReadGo.ofSt (readImport st), some (readImport st).imports)) :=
  ⟨ReadGo.isIdent_eq, ReadGo.syntaxError_eq, ReadGo.readByte_eq,
   fun sk st h => (ReadGo.peekByte_go sk st h).2, fun sk st h => (ReadGo.nextByte_go sk st h).2,
   fun kw st h => (ReadGo.readKeyword_go kw st h).2, fun st h => (ReadGo.readIdent_go st h).2,
   fun st hp h => (ReadGo.readString_go st hp h).2, fun st hp h => (ReadGo.readImport_go st hp h).2⟩

-- `peekByte(true)` on `/* c */ x`: skips the comment and peeks `x`, on the generated definition
example : (Go.Read.peekByte (ReadGo.ofSt (St.init [47, 42, 32, 99, 32, 42, 47, 32, 120])) true).map (·.1) = some 120 := by
  decide +kernel

/-- `readImports_total` over the translated source: for arbitrary input bytes the translated
ReadImports returns (`some …`) — no Go panic is reachable (in particular not the `nerr > 10000`
"import reader looping" panic of peekByte, which the translation keeps, nor the slice
`r.buf[:len(r.buf)-1]`) and every loop ends within the budget the translation gives it. -/
theorem go_ReadImports_total (input : Bytes) (report : Bool) :
    ∃ buf err imps, Go.Read.ReadImports input report (some []) = some (buf, err, some imps) := by
  obtain ⟨imps, buf, err, _, h⟩ := ReadGo.go_ReadImports_some input report
  exact ⟨buf, _, imps, h⟩

-- arbitrary bytes: `pack\x00` and an unterminated comment
example : Go.Read.ReadImports [112, 97, 99, 107, 0] true (some []) = some ([112, 97, 99, 107, 0], ReadGo.errNULGo, some []) := by
  decide +kernel
example : (Go.Read.ReadImports [47, 42, 32, 120] true (some [])).isSome = true := by decide +kernel

/-- `readImports_buf_prefix` over the translated source: the bytes the translated ReadImports
returns are a prefix of its input, the byte-order mark aside. -/
theorem go_ReadImports_buf_prefix (input : Bytes) (report : Bool) (buf : Bytes) (err : GoLib.GoError)
    (imps : Option (List Bytes)) (h : Go.Read.ReadImports input report (some []) = some (buf, err, imps)) :
    buf <+: stripBOM input := by
  obtain ⟨imps', buf', err', hm, hg⟩ := ReadGo.go_ReadImports_some input report
  rw [hg] at h
  simp only [Option.some.injEq, Prod.mk.injEq] at h
  rw [← h.1]
  exact readImports_buf_prefix input report imps' buf' err' hm

example : [112, 97, 99, 107, 97, 103, 101, 32, 112, 10, 105, 109, 112, 111, 114, 116, 32, 34, 97, 34, 10, 105, 109, 112, 111, 114, 116, 32, 40, 10, 9, 120, 32, 96, 98, 96, 32, 47, 47, 32, 99, 10, 41, 10] <+: stripBOM [239, 187, 191, 112, 97, 99, 107, 97, 103, 101, 32, 112, 10, 105, 109, 112, 111, 114, 116, 32, 34, 97, 34, 10, 105, 109, 112, 111, 114, 116, 32, 40, 10, 9, 120, 32, 96, 98, 96, 32, 47, 47, 32, 99, 10, 41, 10, 118, 97, 114, 32, 118] :=
  go_ReadImports_buf_prefix [239, 187, 191, 112, 97, 99, 107, 97, 103, 101, 32, 112, 10, 105, 109, 112, 111, 114, 116, 32, 34, 97, 34, 10, 105, 109, 112, 111, 114, 116, 32, 40, 10, 9, 120, 32, 96, 98, 96, 32, 47, 47, 32, 99, 10, 41, 10, 118, 97, 114, 32, 118] true _ none (some [[34, 97, 34], [96, 98, 96]]) (by decide +kernel)

/-- `readImports_syntax_whole` over the translated source: when the reporting run of the translated
ReadImports ends in `errSyntax`, the non-reporting run returns the whole input (byte-order mark
aside), no error and the same imports — for NUL-free input (a NUL is a hard error of its own). -/
theorem go_ReadImports_syntax_whole (input : Bytes) (buf : Bytes) (imps : Option (List Bytes))
    (h : Go.Read.ReadImports input true (some []) = some (buf, ReadGo.errSyntaxGo, imps))
    (hnul : (stripBOM input).all (· ≠ 0) = true) :
    Go.Read.ReadImports input false (some []) = some (stripBOM input, none, imps) := by
  obtain ⟨imps', buf', err', hm, hg⟩ := ReadGo.go_ReadImports_some input true
  rw [hg] at h
  simp only [Option.some.injEq, Prod.mk.injEq] at h
  obtain ⟨_, he, hi⟩ := h
  have herr : err' = some .syntax := by
    rcases err' with _ | (_ | _)
    · exact absurd he (by decide)
    · rfl
    · exact absurd he (by decide)
  rw [herr] at hm
  have hw := readImports_syntax_whole input imps' buf' hm hnul
  rw [go_ReadImports_agrees, hw, ← hi]
  rfl

-- a broken header (`package p\nimport x`): a syntax error when reported, the whole input when not
example : Go.Read.ReadImports [112, 97, 99, 107, 97, 103, 101, 32, 112, 10, 105, 109, 112, 111, 114, 116, 32, 120] true (some []) = some ([112, 97, 99, 107, 97, 103, 101, 32, 112, 10, 105, 109, 112, 111, 114, 116, 32, 120], ReadGo.errSyntaxGo, some []) := by decide +kernel
example : Go.Read.ReadImports [112, 97, 99, 107, 97, 103, 101, 32, 112, 10, 105, 109, 112, 111, 114, 116, 32, 120] false (some []) = some ([112, 97, 99, 107, 97, 103, 101, 32, 112, 10, 105, 109, 112, 111, 114, 116, 32, 120], none, some []) :=
  go_ReadImports_syntax_whole [112, 97, 99, 107, 97, 103, 101, 32, 112, 10, 105, 109, 112, 111, 114, 116, 32, 120] [112, 97, 99, 107, 97, 103, 101, 32, 112, 10, 105, 109, 112, 111, 114, 116, 32, 120] (some []) (by decide +kernel) (by decide +kernel)
example : Go.Read.ReadImports [112, 97, 99, 107, 97, 103, 101, 32, 112, 10, 105, 109, 112, 111, 114, 116, 32, 120] false (some []) = some ([112, 97, 99, 107, 97, 103, 101, 32, 112, 10, 105, 109, 112, 111, 114, 116, 32, 120], none, some []) := by decide +kernel

/-- the translated ReadComments, for every input: it returns (no panic) the leading white space
and comments — what the model's reader has consumed when its first `peekByte(true)` stops, minus
the byte that stopped it. -/
theorem go_ReadComments_agrees (input : Bytes) :
    Go.Read.ReadComments input =
      some ((ReadGo.readComments input).1, ReadGo.errGo (ReadGo.readComments input).2) :=
  ReadGo.go_ReadComments_eq input

example : Go.Read.ReadComments [47, 47, 32, 104, 105, 10, 47, 42, 32, 99, 32, 42, 47, 32, 112, 97, 99, 107, 97, 103, 101, 32, 112] = some ([47, 47, 32, 104, 105, 10, 47, 42, 32, 99, 32, 42, 47, 32], none) := by decide +kernel

/-! ### the consumers: imports/scan.go (scanFiles behind ScanDir and ScanFiles)

Model: GIV.Model.Scan (`scanFiles`, `scanDir`, `unquote`, `keys`), statement by statement on top of
`readImports … false`, `shouldBuild`, `matchFile`; tied to /repo by the scan lane of the
correspondence run (real directories, imports.ScanDir / ScanFiles vs the model; strconv.Unquote vs
`unquote`).  Per-file notions (GIV.Lemmas.ScanSpec): `litsD d` = the import literals ReadImports
reports for content `d`; `readFails f` = the error the scan aborts with at `f`; `selected … f` = not
skipped by the `import "C"` rule and (unless the files are explicit) accepted by ShouldBuild on the
returned prefix; `isTest f` = the name ends in `_test.go`.  "Dropped imports are silent" — these
theorems say that the callers drop and invent nothing. -/

open GIV.Scan in
/-- example file set (explicit files, no tags):
`a.go`: `package p\nimport "b"\nimport "a"\n`;
`a_test.go`: `package p\nimport (\n"t"\n"a\x62"\n"\q"\n)\n` (an escape that decodes, one Unquote rejects);
`c.go`: `package p\nimport "C"\nimport "z"\n` (skipped: no cgo tag);
`d.go`: ``package p\nimport `a`\n`` (raw literal, duplicate of "a"). -/
def exFiles : List File :=
  [([97, 46, 103, 111], [112, 97, 99, 107, 97, 103, 101, 32, 112, 10, 105, 109, 112, 111, 114, 116, 32, 34, 98, 34, 10, 105, 109, 112, 111, 114, 116, 32, 34, 97, 34, 10]),
   ([97, 95, 116, 101, 115, 116, 46, 103, 111], [112, 97, 99, 107, 97, 103, 101, 32, 112, 10, 105, 109, 112, 111, 114, 116, 32, 40, 10, 34, 116, 34, 10, 34, 97, 92, 120, 54, 50, 34, 10, 34, 92, 113, 34, 10, 41, 10]),
   ([99, 46, 103, 111], [112, 97, 99, 107, 97, 103, 101, 32, 112, 10, 105, 109, 112, 111, 114, 116, 32, 34, 67, 34, 10, 105, 109, 112, 111, 114, 116, 32, 34, 122, 34, 10]),
   ([100, 46, 103, 111], [112, 97, 99, 107, 97, 103, 101, 32, 112, 10, 105, 109, 112, 111, 114, 116, 32, 96, 97, 96, 10])]

def exScanU : Nat → Bool := fun _ => false
def noTags : GIV.Build.Tags := fun _ => false
def cgoTags : GIV.Build.Tags := fun t => t == GIV.Scan.cgoTag

/-- the scan result as plain data (for closed examples). -/
def showScan : Except GIV.Scan.ScanErr (List Bytes × List Bytes) → Option (List Bytes × List Bytes) × Option GIV.Scan.ScanErr
  | .ok r => (some r, none)
  | .error e => (none, some e)

open GIV.Scan in
/-- No import is dropped: when scanFiles succeeds, every import literal that ReadImports reports for a
selected file and that strconv.Unquote accepts is, unquoted, in `testImports` if the file's name ends in
`_test.go`, and in `imports` otherwise. -/
theorem scan_no_dropped_import (U : Nat → Bool) (tags : GIV.Build.Tags) (ex : Bool) (files : List File)
    (imps timps : List Bytes) (h : scanFiles U tags ex files = .ok (imps, timps))
    (f : File) (hf : f ∈ files) (hsel : selected U tags ex f = true)
    (p q : Bytes) (hp : p ∈ litsD f.2) (hq : unquote p = some q) :
    (isTest f = false → q ∈ imps) ∧ (isTest f = true → q ∈ timps) := by
  obtain ⟨_, _, hi, ht⟩ := scanFiles_ok_inv U tags ex files imps timps h
  subst hi ht
  constructor
  · intro hT; rw [mem_keys, mem_impsOf]; exact ⟨f, hf, hsel, hT, p, hp, hq⟩
  · intro hT; rw [mem_keys, mem_testImpsOf]; exact ⟨f, hf, hsel, hT, p, hp, hq⟩

-- the example set: imports = ["a", "b"] ("a" once, from a.go and d.go; c.go skipped), testImports = ["ab", "t"]
example : showScan (GIV.Scan.scanFiles exScanU noTags true exFiles) = (some ([[97], [98]], [[97, 98], [116]]), none) := by
  decide +kernel
-- … with the cgo tag c.go is scanned too: "C" and "z" appear
example : showScan (GIV.Scan.scanFiles exScanU cgoTags true exFiles) = (some ([[67], [97], [98], [122]], [[97, 98], [116]]), none) := by
  decide +kernel
-- the hypotheses on the example: a_test.go is selected, is a test file, reports the literal "a\x62", which unquotes to "ab"
example : GIV.Scan.selected exScanU noTags true (exFiles[1]) = true ∧ GIV.Scan.isTest (exFiles[1]) = true ∧
    [34, 97, 92, 120, 54, 50, 34] ∈ GIV.Scan.litsD (exFiles[1]).2 ∧ GIV.Scan.unquote [34, 97, 92, 120, 54, 50, 34] = some [97, 98] ∧
    GIV.Scan.unquote [34, 92, 113, 34] = none := by
  decide +kernel

open GIV.Scan in
/-- Nothing foreign is reported: every element of `imports` (`testImports`) is the unquoted form of an
import literal that ReadImports reports for a selected file of the list whose name does not (does) end in
`_test.go`. -/
theorem scan_no_foreign_import (U : Nat → Bool) (tags : GIV.Build.Tags) (ex : Bool) (files : List File)
    (imps timps : List Bytes) (h : scanFiles U tags ex files = .ok (imps, timps)) (q : Bytes) :
    (q ∈ imps → ∃ f ∈ files, selected U tags ex f = true ∧ isTest f = false ∧ ∃ p ∈ litsD f.2, unquote p = some q) ∧
    (q ∈ timps → ∃ f ∈ files, selected U tags ex f = true ∧ isTest f = true ∧ ∃ p ∈ litsD f.2, unquote p = some q) := by
  obtain ⟨_, _, hi, ht⟩ := scanFiles_ok_inv U tags ex files imps timps h
  subst hi ht
  exact ⟨fun hq => (mem_impsOf U tags ex files q).mp ((mem_keys q _).mp hq),
         fun hq => (mem_testImpsOf U tags ex files q).mp ((mem_keys q _).mp hq)⟩

-- on the example: "z" (imported only by the skipped c.go) and "t" (a test import) are not in imports
example : (showScan (GIV.Scan.scanFiles exScanU noTags true exFiles)).1.map (fun r => (r.1.contains [122], r.1.contains [116], r.2.contains [116]))
    = some (false, false, true) := by
  decide +kernel

open GIV.Scan in
/-- Both result lists are strictly ascending in the byte-wise string order (what `sort.Strings` gives on
distinct keys): sorted and free of duplicates. -/
theorem scan_sorted_nodup (U : Nat → Bool) (tags : GIV.Build.Tags) (ex : Bool) (files : List File)
    (imps timps : List Bytes) (h : scanFiles U tags ex files = .ok (imps, timps)) :
    Sorted imps ∧ Sorted timps ∧ imps.Nodup ∧ timps.Nodup := by
  obtain ⟨_, _, hi, ht⟩ := scanFiles_ok_inv U tags ex files imps timps h
  subst hi ht
  exact ⟨sorted_keys _, sorted_keys _, (sorted_keys _).nodup, (sorted_keys _).nodup⟩

example : GIV.Scan.Sorted [[67], [97], [98], [122]] ∧ GIV.Scan.Sorted [[97, 98], [116]] ∧ ¬ GIV.Scan.Sorted [[97], [97]] ∧
    GIV.Scan.keys [[98], [97], [122], [97], [67]] = [[67], [97], [98], [122]] := by decide +kernel

open GIV.Scan in
/-- The result does not depend on the order of the files: a successful scan returns the same two lists
for every permutation of the file list; and when ReadImports fails on no file, failure (ErrNoGo) is
permutation-invariant as well.  (With read errors the scan still fails for every order, but WHICH error
is reported depends on the order — `scan_error_first`, and the example below.) -/
theorem scan_order_independent (U : Nat → Bool) (tags : GIV.Build.Tags) (ex : Bool) (files files' : List File)
    (hp : files.Perm files') :
    (∀ imps timps, scanFiles U tags ex files = .ok (imps, timps) → scanFiles U tags ex files' = .ok (imps, timps)) ∧
    ((∀ f ∈ files, readFails f = none) → scanFiles U tags ex files' = scanFiles U tags ex files) := by
  have key : (∀ f ∈ files, readFails f = none) → scanFiles U tags ex files' = scanFiles U tags ex files := by
    intro hn
    have hn' : ∀ f ∈ files', readFails f = none := fun f hf => hn f (hp.mem_iff.mpr hf)
    rw [scanFiles_noFail U tags ex files hn, scanFiles_noFail U tags ex files' hn']
    have hc : countSel U tags ex files' = countSel U tags ex files := by
      unfold countSel; exact ((hp.filter _).length_eq).symm
    have hi : keys (impsOf U tags ex files') = keys (impsOf U tags ex files) := by
      apply keys_congr; intro x
      rw [mem_impsOf, mem_impsOf]
      constructor
      · rintro ⟨f, hf, r⟩; exact ⟨f, hp.mem_iff.mpr hf, r⟩
      · rintro ⟨f, hf, r⟩; exact ⟨f, hp.mem_iff.mp hf, r⟩
    have ht : keys (testImpsOf U tags ex files') = keys (testImpsOf U tags ex files) := by
      apply keys_congr; intro x
      rw [mem_testImpsOf, mem_testImpsOf]
      constructor
      · rintro ⟨f, hf, r⟩; exact ⟨f, hp.mem_iff.mpr hf, r⟩
      · rintro ⟨f, hf, r⟩; exact ⟨f, hp.mem_iff.mp hf, r⟩
    rw [hc, hi, ht]
  refine ⟨?_, key⟩
  intro imps timps h
  rw [key (scanFiles_ok_inv U tags ex files imps timps h).1, h]

-- the example set reversed gives the same lists
example : showScan (GIV.Scan.scanFiles exScanU noTags true exFiles.reverse) = (some ([[97], [98]], [[97, 98], [116]]), none) := by
  decide +kernel
-- the no-read-error hypothesis of the second clause is needed: two files with a NUL (`package p\x00`), in both orders
example :
    showScan (GIV.Scan.scanFiles exScanU noTags true [([98, 97, 100, 46, 103, 111], [112, 97, 99, 107, 97, 103, 101, 32, 112, 0]), ([101, 46, 103, 111], [112, 97, 99, 107, 97, 103, 101, 32, 112, 0])])
      = (none, some (.read [98, 97, 100, 46, 103, 111] .nul)) ∧
    showScan (GIV.Scan.scanFiles exScanU noTags true [([101, 46, 103, 111], [112, 97, 99, 107, 97, 103, 101, 32, 112, 0]), ([98, 97, 100, 46, 103, 111], [112, 97, 99, 107, 97, 103, 101, 32, 112, 0])])
      = (none, some (.read [101, 46, 103, 111] .nul)) := by
  decide +kernel

open GIV.Scan in
/-- Which error: the scan fails with `e` exactly when either `e` is ErrNoGo, ReadImports fails on no file
and no file is selected, or `e` is the error ("reading <name>: <err>") of the FIRST file in list order on
which ReadImports fails — whatever the files after it contain, and even if no file would be selected. -/
theorem scan_error_first (U : Nat → Bool) (tags : GIV.Build.Tags) (ex : Bool) (files : List File) (e : ScanErr) :
    scanFiles U tags ex files = .error e ↔
      (e = .noGo ∧ (∀ f ∈ files, readFails f = none) ∧ ∀ f ∈ files, selected U tags ex f = false) ∨
      (∃ pre f post, files = pre ++ f :: post ∧ (∀ g ∈ pre, readFails g = none) ∧ readFails f = some e) := by
  constructor
  · intro h
    rcases first_fail files with hn | ⟨pre, f, post, e0, he, hpre, hf⟩
    · left
      rw [scanFiles_noFail U tags ex files hn] at h
      split at h
      · next hc =>
        simp only [Except.error.injEq] at h
        exact ⟨h.symm, hn, (countSel_eq_zero U tags ex files).mp hc⟩
      · cases h
    · right
      rw [he, scanFiles_fail U tags ex pre f post e0 hpre hf] at h
      simp only [Except.error.injEq] at h
      subst h
      exact ⟨pre, f, post, he, hpre, hf⟩
  · rintro (⟨rfl, hn, hs⟩ | ⟨pre, f, post, he, hpre, hf⟩)
    · rw [scanFiles_noFail U tags ex files hn, if_pos ((countSel_eq_zero U tags ex files).mpr hs)]
    · rw [he]; exact scanFiles_fail U tags ex pre f post e hpre hf

-- a good file set, then a file with a NUL, then another one: the error names the first of the two; only c.go: ErrNoGo
def exBad : List GIV.Scan.File :=
  [([98, 97, 100, 46, 103, 111], [112, 97, 99, 107, 97, 103, 101, 32, 112, 0]), ([101, 46, 103, 111], [112, 97, 99, 107, 97, 103, 101, 32, 112, 0])]
example : showScan (GIV.Scan.scanFiles exScanU noTags true (exFiles ++ exBad)) = (none, some (.read [98, 97, 100, 46, 103, 111] .nul)) := by
  decide +kernel
example : showScan (GIV.Scan.scanFiles exScanU noTags true ((exFiles.drop 2).take 1)) = (none, some .noGo) := by decide +kernel
example : showScan (GIV.Scan.scanFiles exScanU noTags true []) = (none, some .noGo) := by decide +kernel

end GIV.C18
