import GIV.Model.ReadImports
namespace GIV.C18
open GIV

end GIV.C18
