/-
  C18 — imports.ReadImports returns exactly the file's imports and a safe prefix.

  Model: GIV.Model.ReadImports (byte machine mirroring read.go; constants from GIV.Gen.Imports).
  Specification: GIV.Lemmas.ImportsReadGrammar (inductive grammar of Go file headers with
  `render` and `importsOf`).
-/
import GIV.Lemmas.ImportsReadMain
import GIV.Lemmas.ImportsReadTotal
import GIV.Lemmas.ImportsReadFuel

namespace GIV.C18
open GIV GIV.ReadImports

/-- an example header:
`<BOM>// c\npackage p\nimport "a"\nimport(\nx `b`\n)` followed by `\nfunc`. -/
def exHeader : Header :=
  { bom := true
    pre := [.line [32, 99]]
    sep := [.blank 32]
    name := [112]
    decls := [([.blank 10], .single [.blank 32] ⟨.none, [], .interp [.plain 97]⟩),
              ([.blank 10], .group [] [([.blank 10], ⟨.ident [120], [.blank 32], .raw [98]⟩)] [.blank 10])] }

example : exHeader.WF = true := by decide
example : exHeader.importsOf = [[34, 97, 34], [96, 98, 96]] := by decide
example : TailOK exHeader [.blank 10] [102, 117, 110, 99] :=
  ⟨by decide, Or.inr (Or.inr ⟨102, _, rfl, by decide, by intro h; cases h⟩)⟩
-- … or a last comment without newline: `// x`
example : TailOK exHeader [.blank 10] [47, 47, 32, 120] :=
  ⟨by decide, Or.inr (Or.inl ⟨[32, 120], rfl, by decide, by decide⟩)⟩

/-- Soundness and completeness on the header grammar: for every well-formed header `h` (optional
BOM, comments, semicolons, single and grouped, named / dot / blank imports, raw and interpreted
path literals), followed by white space `tsp` and then the end of input, a last `//` comment without
newline, or a byte that can start a non-import declaration, ReadImports — whatever
`reportSyntaxError` is — returns exactly `importsOf h` in order, no error, and as bytes the header
without its byte-order mark plus the white space (and final comment) after it: a prefix of the
input (BOM aside) that contains the whole import section and stops before the first byte of the
next declaration. -/
theorem readImports_sound_complete (h : Header) (hw : h.WF = true) (tsp : Sp) (rest : Bytes)
    (ht : TailOK h tsp rest) (report : Bool) :
    readImports (h.render ++ renderSp tsp ++ rest) report =
      .ok h.importsOf (h.body ++ renderSp tsp ++ keptTail rest) none :=
  readImports_header h hw tsp rest ht report

example : readImports (exHeader.render ++ renderSp [.blank 10] ++ [102, 117, 110, 99]) false =
    .ok [[34, 97, 34], [96, 98, 96]] (exHeader.body ++ [10] ++ []) none :=
  readImports_sound_complete exHeader (by decide) [.blank 10] [102, 117, 110, 99]
    ⟨by decide, Or.inr (Or.inr ⟨102, _, rfl, by decide, by intro h; cases h⟩)⟩ false

/-- The returned prefix is itself a header of the grammar with the same imports, followed by white
space (and possibly a last comment) and the end of input — so running ReadImports on it again
yields the same imports and returns it unchanged ("the returned portion still parses to those
imports"). -/
theorem readImports_prefix_reparses (h : Header) (hw : h.WF = true) (tsp : Sp) (rest : Bytes)
    (ht : TailOK h tsp rest) (report : Bool) :
    readImports (h.body ++ renderSp tsp ++ keptTail rest) report =
      .ok h.importsOf (h.body ++ renderSp tsp ++ keptTail rest) none := by
  have h' : ({ h with bom := false } : Header).WF = true := hw
  have hc : keptTail rest = [] ∨ keptTail rest = rest := by
    unfold keptTail
    split
    · exact Or.inr rfl
    · exact Or.inl rfl
  have hk : keptTail (keptTail rest) = keptTail rest := by
    rcases hc with h0 | h0
    · rw [h0]; rfl
    · rw [h0]; exact h0
  have ht' : TailOK { h with bom := false } tsp (keptTail rest) := by
    refine ⟨ht.1, ?_⟩
    rcases ht.2 with rfl | ⟨body, rfl, hb⟩ | ⟨d, tl, rfl, hd, _⟩
    · exact Or.inl rfl
    · exact Or.inr (Or.inl ⟨body, rfl, hb⟩)
    · left
      unfold keptTail
      split
      · next h0 =>
        simp only [List.cons.injEq] at h0
        rw [h0.1] at hd
        exact absurd hd (by decide)
      · rfl
  have := readImports_header { h with bom := false } h' tsp (keptTail rest) ht' report
  rw [hk] at this
  simpa [Header.render, Header.body, Header.importsOf] using this

example : readImports (exHeader.body ++ renderSp [.blank 10] ++ keptTail [102, 117, 110, 99]) true =
    .ok exHeader.importsOf (exHeader.body ++ renderSp [.blank 10] ++ keptTail [102, 117, 110, 99]) none :=
  readImports_prefix_reparses exHeader (by decide) [.blank 10] [102, 117, 110, 99]
    ⟨by decide, Or.inr (Or.inr ⟨102, _, rfl, by decide, by intro h; cases h⟩)⟩ true

/-! ### arbitrary bytes -/

/-- For arbitrary input bytes ReadImports terminates without panicking and returns a result:
the `nerr > 10000` "import reader looping" panic of peekByte is unreachable (the counter never
exceeds 29), the final slice `r.buf[:len(r.buf)-1]` is in range, and no loop of the reader runs out
of the fuel the model gives it (input length plus a small constant) — i.e. every Go loop ends. -/
theorem readImports_total (d : Bytes) (report : Bool) :
    ∃ imps buf err, readImports d report = .ok imps buf err := by
  cases h : readImports d report with
  | panic => exact absurd h (readImports_no_panic d report)
  | stuck => exact absurd h (readImports_no_stuck d report)
  | ok imps buf err => exact ⟨imps, buf, err, rfl⟩

-- the counter bound behind it, on a concrete malformed input: `package p\nimport (` then EOF
example : (scan [112, 97, 99, 107, 97, 103, 101, 32, 112, 10, 105, 109, 112, 111, 114, 116, 32, 40]).nerr ≤ 29 := by
  have := (step_scan [112, 97, 99, 107, 97, 103, 101, 32, 112, 10, 105, 109, 112, 111, 114, 116, 32, 40]).2
  simpa [St.init] using this

/-- The returned bytes are a prefix of the input, the byte-order mark aside: only bytes read from
the input are returned. -/
theorem readImports_buf_prefix (d : Bytes) (report : Bool) (imps : List Bytes) (buf : Bytes)
    (err : Option Err) (h : readImports d report = .ok imps buf err) : buf <+: stripBOM d :=
  readImports_prefix d report imps buf err h

example : (exHeader.body ++ [10] ++ []) <+: stripBOM (exHeader.render ++ renderSp [.blank 10] ++ [102, 117, 110, 99]) :=
  readImports_buf_prefix _ false _ _ none
    (readImports_sound_complete exHeader (by decide) [.blank 10] [102, 117, 110, 99]
      ⟨by decide, Or.inr (Or.inr ⟨102, _, rfl, by decide, by intro h; cases h⟩)⟩ false)

/-- When the reporting run ends in a syntax error, the non-reporting run returns the whole input
(byte-order mark aside) and no error, so that a later full parse reports the same errors.
Hypothesis: the input has no NUL byte — a NUL is a hard error of its own ("unexpected NUL in
input"), reported whatever `reportSyntaxError` is, exactly as in go/build. -/
theorem readImports_syntax_whole (d : Bytes) (imps : List Bytes) (buf : Bytes)
    (h : readImports d true = .ok imps buf (some .syntax)) (hnul : (stripBOM d).all (· ≠ 0) = true) :
    readImports d false = .ok imps (stripBOM d) none :=
  readImports_whole_on_syntax d imps buf h hnul

-- `package p\nimport x` : a syntax error (no path), and the whole input comes back when not reported
example : readImports [112, 97, 99, 107, 97, 103, 101, 32, 112, 10, 105, 109, 112, 111, 114, 116, 32, 120] true =
    .ok [] [112, 97, 99, 107, 97, 103, 101, 32, 112, 10, 105, 109, 112, 111, 114, 116, 32, 120] (some .syntax) := by
  decide
example : readImports [112, 97, 99, 107, 97, 103, 101, 32, 112, 10, 105, 109, 112, 111, 114, 116, 32, 120] false =
    .ok [] [112, 97, 99, 107, 97, 103, 101, 32, 112, 10, 105, 109, 112, 111, 114, 116, 32, 120] none :=
  readImports_syntax_whole _ [] [112, 97, 99, 107, 97, 103, 101, 32, 112, 10, 105, 109, 112, 111, 114, 116, 32, 120]
    (by decide) (by decide)

end GIV.C18
