import GIV.Lemmas.CachePutConcReadable
import GIV.Lemmas.CachePutMix
import GIV.Lemmas.CacheCodecBridge
import GIV.Lemmas.CacheParseGo
/-!
# C11 — concurrent cache users never observe corrupt or foreign data

Same model as C12 (`GIV.Model.CachePut`): any number of processes and goroutines (`World.tasks`), every
transition of `step` is ONE system call of ONE task, chosen by a label; an execution is any label
sequence (`run`): all schedules.  Here no faults (`FaultFree`) and well-behaved source readers
(`GoodOp`).  `FSInvP` strengthens clause (D) of the invariant to "every data file is a PREFIX of the
content with its hash".  `WInv` is the invariant of the world: `FSInvP`, every index file is empty or a
whole entry of a content stored for that id, outputs of stored contents are complete, every task's
local facts (`LocalC`, `Extra`, `LocalG`: its descriptor is open on the file its program point says,
writer offset ≤ file length, bytes still to copy are those of the content), descriptors of distinct
tasks are distinct (they come from a fresh counter).  `winv_step` shows that every step of every task
preserves it.

AtomicSmallWrite: in the model every system call — in particular the single ≤175-byte write of an
index entry and the read of it — is one transition.
-/
namespace GIV.C11
open GIV GIV.CachePut

variable {Id Hsh : Type} [DecidableEq Id] [DecidableEq Hsh]
variable {P : Params Id Hsh} {offered : Bytes → Prop}

/-- the index entry is rewritten in place: no O_TRUNC, one write, truncate after (regenerated facts). -/
theorem index_rewrite_facts :
    Gen.CachePut.indexOpenTrunc = false ∧ Gen.CachePut.indexOpenCreate = true ∧
    Gen.CachePut.indexSingleWrite = true ∧ Gen.CachePut.indexTruncAfterWrite = true ∧
    Gen.CachePut.indexCloseBeforeChtimes = true := by
  decide

/-- **Two writers of one output interleave their writes**: a file that is a prefix of the content `c`,
written at an offset that does not exceed its length with the bytes `c` has there, is again a prefix
of `c`, and not shorter.  (Each writer's offset never exceeds the file length: `WStC`.) -/
theorem interleaved_writes_stay_prefix {d c : Bytes} {off k : Nat} (hp : d <+: c) (ho : off ≤ d.length) :
    writeAt d off ((c.drop off).take k) <+: c ∧ d.length ≤ (writeAt d off ((c.drop off).take k)).length :=
  writeAt_prefix hp ho

example : writeAt [1, 2] 1 (([1, 2, 3, 4].drop 1).take 2) = ([1, 2, 3] : Bytes) := by decide

/-- **the reader-side size gate**: a data file that is a prefix of the content and has its size IS the content. -/
theorem size_gate_complete {d c : Bytes} (hp : d <+: c) (hl : d.length = c.length) : d = c :=
  prefix_of_length_eq hp hl

example : ([1, 2] : Bytes) <+: [1, 2] ∧ ([1, 2] : Bytes).length = 2 := by decide

/-- **A fault-free step of a writer** (any program point of `copyFile` / `putIndexEntry`, source reader
delivering the same bytes twice) keeps clause (D⁺) and (I) for every file and re-establishes the writer's
local facts (`LocalC`: its descriptor is positioned inside the file, the bytes still to copy are those
of the content from there on; the error paths with `Truncate(0)` / `Remove` are unreachable). -/
theorem concurrent_step_inv (hy : Hyps P offered) {now : Int} {id : Id} {s : Src} (hg : GoodSrc s) (hoff : offered s.data1)
    {fs fs' : FS Id Hsh} {proc n : Nat} {r : Res} {pc : PC Hsh} {nx : Next Hsh}
    (hinv : FSInvP P offered fs) (hL : LocalC P id s fs pc)
    (hs : tstep P now fs proc (.put id s) pc .none n = some (fs', r, nx)) :
    FSInvP P offered fs' ∧ (match nx with | .goto pc' => LocalC P id s fs' pc' | .done _ => True) := by
  have h := put_cstep hy hg hoff hinv hL hs
  refine ⟨h.1, ?_⟩
  cases nx <;> exact h.2

/-- **Non-interference, part 1**: the system calls of a fault-free writer never remove, truncate or
shrink a file (`SafeSys`), and a safe system call is monotone for everybody else: names stay, no file
shrinks, no other descriptor is touched. -/
theorem concurrent_step_monotone (hy : Hyps P offered) {now : Int} {id : Id} {s : Src} (hoff : offered s.data1)
    {fs fs' : FS Id Hsh} {proc n : Nat} {r : Res} {pc : PC Hsh} (hinv : FSInvP P offered fs)
    (hL : LocalC P id s fs pc)
    (he : execOk fs proc (sysOf P now n (.put id s) pc) = some (fs', r)) :
    Mono fs fs' (sysFd (sysOf P now n (.put id s) pc)) :=
  exec_mono hinv.1 he (put_safe hy hoff hL)

/-- **Non-interference, part 2**: the local facts of a writer survive every monotone change made by
another task through another descriptor. -/
theorem concurrent_frame (hy : Hyps P offered) {id : Id} {s : Src} (hoff : offered s.data1)
    {fs fs' : FS Id Hsh} {f : Option Nat} (hm : Mono fs fs' f)
    (hinv : FSInvP P offered fs) (hinv' : FSInvP P offered fs') {pc : PC Hsh}
    (hfd : ∀ g, fdOf pc = some g → some g ≠ f ∧ g < fs.nextFd) (hL : LocalC P id s fs pc) :
    LocalC P id s fs' pc :=
  localC_mono hy hoff hm hinv hinv' hfd hL

/-! ### non-vacuity: the same small instance as in C12 -/

def toyOffered (c : Bytes) : Prop := c = [7] ∨ c = [8, 9, 10]
def toyEnc (_ : Nat) (out : Bytes) (size : Nat) (_ : Int) : Bytes := [out.headD 0, size.toUInt8] ++ List.replicate 173 0
def toyParse (_ : Nat) (bs : Bytes) : Option (Entry Bytes) :=
  if bs.length ≠ 175 then none
  else if bs.headD 0 = 7 then some ⟨[7], (bs.getD 1 0).toNat⟩
  else if bs.headD 0 = 8 then some ⟨[8, 9, 10], (bs.getD 1 0).toNat⟩
  else none
def toyP : Params Nat Bytes := ⟨fun b => b, toyEnc, toyParse⟩
def emptyFS : FS Nat Bytes :=
  { names := fun _ => none, inodes := fun _ => none, nextIno := 0, fds := fun _ => none, nextFd := 0 }
def goodSrc : Src := ⟨true, [8, 9, 10], true, [8, 9, 10]⟩

theorem emptyFS_invP : FSInvP toyP toyOffered emptyFS :=
  ⟨⟨fun _ _ h => by simp [emptyFS] at h, fun _ _ h => by simp [emptyFS] at h⟩, fun _ _ _ _ h => by simp [emptyFS] at h⟩

example : GoodSrc goodSrc ∧ LocalC toyP 1 goodSrc emptyFS .pStat ∧
    ∃ fs' r nx, tstep toyP 5 emptyFS 0 (.put 1 goodSrc) .pStat .none 0 = some (fs', r, nx) :=
  ⟨⟨rfl, rfl, rfl⟩, trivial, _, _, _, rfl⟩

example : Mono emptyFS emptyFS none ∧ LocalC toyP 1 goodSrc emptyFS (.pOpen false) :=
  ⟨⟨fun _ _ h => h, fun _ _ h => by simp [emptyFS] at h, fun _ _ _ => rfl, Nat.le_refl _⟩, rfl⟩

/-! ### the world-level theorems -/

/-- a start with two processes: a writer of id 1 and a reader of id 1. -/
def w0 : World Nat Bytes :=
  { fs := emptyFS,
    tasks := fun t =>
      if t = 0 then some ⟨0, false, some (.put 1 goodSrc, .pStat), []⟩
      else if t = 1 then some ⟨1, false, some (.getBytes 1, .gOpen), [.getFile 1]⟩
      else none,
    now := 5, hist := [] }

theorem w0_initial : Initial toyOffered w0 := by
  refine ⟨rfl, fun tid tk h => ?_⟩
  simp only [w0] at h
  split at h
  · cases h
    exact ⟨fun op ho => (by cases ho), fun op pc hc => (by cases hc; exact ⟨⟨⟨rfl, rfl, rfl⟩, Or.inr rfl⟩, rfl⟩)⟩
  · split at h
    · cases h
      refine ⟨fun op ho => ?_, fun op pc hc => (by cases hc; exact ⟨trivial, rfl⟩)⟩
      simp at ho; subst ho; trivial
    · cases h

/-- **Every fault-free step of any task of any process, under any schedule, preserves the invariant of
the world** (the moving task: `concurrent_step_inv` and its analogues for the extra facts and for lookups;
the other tasks: `concurrent_step_monotone` + `concurrent_frame`; descriptors stay distinct because a new
one is the value of a counter that only grows). -/
theorem concurrent_step_world (hy : Hyps P offered) {K0 K1 : Id → Bytes → Prop} {w w' : World Id Hsh} {l : Label}
    {obs : Obs Id Hsh} (W : WInv P offered K0 K1 w) (h : step P w l = some (w', obs)) (hf : l.fault = .none) :
    WInv P offered K0 K1 w' :=
  winv_step hy W h hf

example : ∃ w' obs, step toyP w0 ⟨0, .none, 0⟩ = some (w', obs) := ⟨_, _, rfl⟩

/-- **concurrent_inv**: from any directory satisfying the prefix invariant, any number of processes and
goroutines each running any sequence of well-behaved Put / Get / GetFile / GetBytes, any schedule: in
every reachable world every data file is a prefix of the content with its hash and every index file is
empty or a whole entry — no lookup can ever be shown corrupt or foreign bytes. -/
theorem concurrent_inv (hy : Hyps P offered) {w0 w : World Id Hsh} {ls : List Label}
    (hinv : FSInvP P offered w0.fs) (hi : Initial offered w0) (hf : FaultFree ls) (hr : run P w0 ls = some w) :
    FSInvP P offered w.fs :=
  concurrent_inv_fs hy hinv hi hf hr

example : FSInvP toyP toyOffered w0.fs ∧ Initial toyOffered w0 ∧ FaultFree [⟨0, .none, 0⟩, ⟨1, .none, 0⟩] ∧
    ∃ w, run toyP w0 [⟨0, .none, 0⟩, ⟨1, .none, 0⟩] = some w :=
  ⟨emptyFS_invP, w0_initial, fun l hl => by simp at hl; rcases hl with rfl | rfl <;> rfl, _, rfl⟩

/-- **lookup_returns_some_put**: every result reported by a lookup of `id` in such an execution — an
entry (`Get`), a file (`GetFile`), bytes (`GetBytes`) — belongs to a content `c` that was stored for that
very id, by a Put of this execution that had executed its index write (ghost event `indexed`) or before
the execution started: the entry is `(H c, |c|)`, the file / the bytes are exactly `c`. -/
theorem lookup_returns_some_put (hy : Hyps P offered) {w0 w : World Id Hsh} {ls : List Label}
    (hinv : FSInvP P offered w0.fs) (hi : Initial offered w0) (hf : FaultFree ls) (hr : run P w0 ls = some w)
    {tid : Nat} {op : Op Id} {res : Result Hsh} (hop : op.isGet = true) (hret : Ev.ret tid op res ∈ w.hist) :
    let stored := fun c => InitialEntry P offered w0.fs op.id c ∨ ∃ t, Ev.indexed t op.id c ∈ w.hist
    (∀ e, res = .entry e → ∃ c, stored c ∧ e = ⟨P.H c, c.length⟩) ∧
    (∀ e cont, res = .file e cont → ∃ c, stored c ∧ e = ⟨P.H c, c.length⟩ ∧ cont = some c) ∧
    (∀ d e, res = .bytes d e → stored d ∧ e = ⟨P.H d, d.length⟩) := by
  have h := lookup_returns_stored hy hinv hi hf hr hop hret
  refine ⟨fun e he => ?_, fun e cont he => ?_, fun d e he => ?_⟩
  · subst he; obtain ⟨c, h1, _, h3⟩ := h; exact ⟨c, h1, h3⟩
  · subst he; obtain ⟨c, h1, _, h3, h4⟩ := h; exact ⟨c, h1, h3, h4⟩
  · subst he; exact ⟨h.1, h.2.2⟩

example : (Op.getBytes 1 : Op Nat).isGet = true := rfl

/-- **quiescent_all_readable**: from an empty cache; at any point after a Put of `id` returned nil — in
particular once all writers have finished — the index file of `id` holds a whole entry that parses to
`(H c, |c|)` for a content `c` stored for this id by a Put of the execution, and the output file of `c` is
completely there: `id` is readable (nobody truncates or removes on fault-free runs). -/
theorem quiescent_all_readable (hy : Hyps P offered) {w0 w : World Id Hsh} {ls : List Label}
    (hempty : ∀ p, w0.fs.names p = none) (hst : ∀ i, w0.fs.inodes i = none) (hi : Initial offered w0)
    (hf : FaultFree ls) (hr : run P w0 ls = some w)
    {tid : Nat} {id : Id} {s : Src} {out : Hsh} {size : Nat}
    (hret : Ev.ret tid (.put id s) (.putOk out size) ∈ w.hist) :
    ∃ c t t', Ev.indexed t' id c ∈ w.hist ∧ offered c ∧
      w.fs.content (.index id) = some (P.enc id (P.H c) c.length t) ∧
      P.parse id (P.enc id (P.H c) c.length t) = some ⟨P.H c, c.length⟩ ∧
      w.fs.content (.data (P.H c)) = some c := by
  have hinv : FSInvP P offered w0.fs :=
    ⟨⟨fun p i h => (by rw [hempty] at h; cases h), fun i nd h => (by rw [hst] at h; cases h)⟩,
     fun p i nd _ h => (by rw [hempty] at h; cases h)⟩
  have W0 : WInv P offered (fun _ _ => False) (fun _ _ => False) w0 :=
    winv_init hinv hi (fun id d hd => by simp [FS.content, FS.file?, hempty] at hd) (fun _ _ h => h.elim)
  obtain ⟨c, t, hk, hc, h1, h2, h3⟩ := put_ok_readable hy W0 hf hr hret
  rcases hk with hk | ⟨t', ht'⟩
  · exact hk.elim
  · exact ⟨c, t, t', ht', hc, h1, h2, h3⟩

example : (∀ p, w0.fs.names p = none) ∧ (∀ i, w0.fs.inodes i = none) := ⟨fun _ => rfl, fun _ => rfl⟩

/-- **restore_invisible**: `id0` is stored with the complete content `c0`; any number of tasks store `c0`
again for `id0` (and do anything else with other ids), under any schedule.  Then every lookup of `id0`
succeeds — never a miss — and reports `c0`: the entry `(H c0, |c0|)`, a file holding `c0`, the bytes `c0`.
(Write first, truncate after, same length: the index entry is never absent or short; with
AtomicSmallWrite a reader sees the old or the new entry, both naming `c0`.) -/
theorem restore_invisible (hy : Hyps P offered) {id0 : Id} {c0 : Bytes} (hc0 : offered c0) {w0 w : World Id Hsh}
    {ls : List Label} (hinv : FSInvP P offered w0.fs) (hi : Initial offered w0)
    (hidx : IndexIs P id0 c0 w0.fs) (hcomp : CompleteF P w0.fs c0)
    (honly : ∀ tid tk, w0.tasks tid = some tk →
      (∀ op, op ∈ tk.todo → OnlyC0 id0 c0 op) ∧ (∀ op pc, tk.cur = some (op, pc) → OnlyC0 id0 c0 op))
    (hf : FaultFree ls) (hr : run P w0 ls = some w)
    {tid : Nat} {op : Op Id} {res : Result Hsh} (hop : op.isGet = true) (hid : op.id = id0)
    (hret : Ev.ret tid op res ∈ w.hist) :
    res = .entry ⟨P.H c0, c0.length⟩ ∨ res = .file ⟨P.H c0, c0.length⟩ (some c0) ∨
      res = .bytes c0 ⟨P.H c0, c0.length⟩ := by
  have h := restore_invisible_run hy hc0 hinv hi hidx hcomp honly hf hr hop hid hret
  cases res <;> simp only [ResS, E0] at h
  case entry e => exact Or.inl (by rw [h])
  case file e cont => exact Or.inr (Or.inl (by rw [h.1, h.2]))
  case bytes d e => exact Or.inr (Or.inr (by rw [h.1, h.2]))
  all_goals exact h.elim

example : OnlyC0 (1 : Nat) [8, 9, 10] (.put 1 goodSrc) ∧ OnlyC0 (1 : Nat) [8, 9, 10] (.getBytes 1) :=
  ⟨fun _ => rfl, trivial⟩

/-- **stored stays readable** (this is "once all writers have finished every stored ID is readable", and
more): the execution starts from a directory in which `id0` has a whole index entry and the outputs named
by the entries present are complete — the state `quiescent_all_readable` describes.  Then, whatever any
number of tasks Put concurrently (for `id0` or other ids, identical or differing contents, any schedule),
every lookup of `id0` SUCCEEDS — never a miss —, and what it reports is a content stored for `id0` at the
start or by a Put that had executed its index write, with matching hash and size and complete bytes. -/
theorem stored_stays_readable (hy : Hyps P offered) {id0 : Id} {w0 w : World Id Hsh} {ls : List Label}
    (hinv : FSInvP P offered w0.fs) (hi : Initial offered w0) (hfull : IndexFull w0.fs id0)
    (hcomplete : ∀ id c, InitialEntry P offered w0.fs id c → CompleteF P w0.fs c)
    (hf : FaultFree ls) (hr : run P w0 ls = some w)
    {tid : Nat} {op : Op Id} {res : Result Hsh} (hop : op.isGet = true) (hid : op.id = id0)
    (hret : Ev.ret tid op res ∈ w.hist) :
    let stored := fun c => InitialEntry P offered w0.fs id0 c ∨ ∃ t, Ev.indexed t id0 c ∈ w.hist
    (∃ c, stored c ∧ res = .entry ⟨P.H c, c.length⟩) ∨
    (∃ c, stored c ∧ res = .file ⟨P.H c, c.length⟩ (some c)) ∨
    (∃ c, stored c ∧ res = .bytes c ⟨P.H c, c.length⟩) := by
  have h := stored_stays_readable_run hy hinv hi hfull hcomplete hf hr hop hid hret
  cases res <;> simp only [ResQ] at h
  case entry e => obtain ⟨c, h1, _, rfl⟩ := h; exact Or.inl ⟨c, h1, rfl⟩
  case file e cont => obtain ⟨c, h1, _, rfl, rfl⟩ := h; exact Or.inr (Or.inl ⟨c, h1, rfl⟩)
  case bytes d e => obtain ⟨h1, _, rfl⟩ := h; exact Or.inr (Or.inr ⟨d, h1, rfl⟩)
  all_goals exact h.elim

/-- a directory in which id 1 is stored with `[8, 9, 10]`. -/
def storedFS : FS Nat Bytes :=
  { names := fun p => if p = .index 1 then some 0 else if p = .data [8, 9, 10] then some 1 else none,
    inodes := fun i => if i = 0 then some ⟨.index 1, toyEnc 1 [8, 9, 10] 3 0⟩
                       else if i = 1 then some ⟨.data [8, 9, 10], [8, 9, 10]⟩ else none,
    nextIno := 2, fds := fun _ => none, nextFd := 0 }

example : IndexFull storedFS (1 : Nat) ∧ CompleteF toyP storedFS [8, 9, 10] ∧ IndexIs toyP 1 [8, 9, 10] storedFS :=
  ⟨⟨0, _, rfl, rfl, by simp only [toyEnc, List.length_append, List.length_cons, List.length_nil, List.length_replicate, Gen.CachePut.entrySize]⟩, ⟨1, _, rfl, rfl, rfl⟩, ⟨0, rfl⟩⟩

omit [DecidableEq Id] [DecidableEq Hsh] in
/-- **mix_parse_same** (the torn-read corner, beyond AtomicSmallWrite): for an entry codec with fixed
field positions (`FixedFields`: the entry is a prefix determined by (id, output, size), a space and 19
digits of the time stamp, a suffix; `parse` accepts any 19 digits with leading digit ≤ 8 there), ANY
byte-wise mixture of two entries with equal (id, output, size) parses to that (output, size): a read of
the entry torn by a concurrent re-store of identical content still finds the stored output. -/
theorem mix_parse_same (F : FixedFields P) (id : Id) (out : Hsh) (size : Nat) (t1 t2 : Int)
    (hs : F.okSize size) (h1 : F.okTime t1) (h2 : F.okTime t2) {m : Bytes}
    (hm : Mixture m (P.enc id out size t1) (P.enc id out size t2)) : P.parse id m = some ⟨out, size⟩ :=
  GIV.CachePut.mix_parse_same F id out size t1 t2 hs h1 h2 hm

/-- a small codec with fixed field positions: `[out, size, ' ', 19 digits, '\n']`. -/
def mixP : Params Nat UInt8 :=
  ⟨fun b => b.headD 0,
   fun _ out size t => [out, size.toUInt8] ++ (32 :: List.replicate 19 (if t = 1 then 49 else 50)) ++ [10],
   fun _ bs => match bs with
     | a :: b :: _ => some ⟨a, b.toNat⟩
     | _ => none⟩

def mixF : FixedFields mixP where
  pre := fun _ out size => [out, size.toUInt8]
  post := [10]
  digits := fun t => List.replicate 19 (if t = 1 then 49 else 50)
  okTime := fun _ => True
  okSize := fun size => size < 256
  enc_eq := fun _ _ _ _ _ => rfl
  digits_ok := fun t _ => by
    refine ⟨by simp, fun b hb => ?_, fun b hb => ?_⟩
    · have := List.eq_of_mem_replicate hb
      subst this; unfold IsDigit; split <;> decide
    · simp [List.replicate] at hb
      subst hb; unfold IsLead; split <;> decide
  parse_any := fun _ out size ds hs _ => by
    simp only [mixP, List.cons_append, List.nil_append]
    congr 2
    simp [Nat.toUInt8, UInt8.toNat_ofNat']
    omega

example : Mixture ([7, 3, 32] ++ (49 :: List.replicate 18 50) ++ [10]) (mixP.enc 0 7 3 1) (mixP.enc 0 7 3 2) ∧
    mixP.parse 0 ([7, 3, 32] ++ (49 :: List.replicate 18 50) ++ [10]) = some ⟨7, 3⟩ := by
  refine ⟨?_, rfl⟩
  simp only [mixP, List.replicate, List.cons_append, List.nil_append, Nat.toUInt8]
  repeat (first | exact Mixture.nil | apply Mixture.cons_a | apply Mixture.cons_b)

/-! ### the torn-read corner for the REAL codec of cache.go

`GIV.Lemmas.CacheCodecBridge` instantiates `FixedFields` with the codec of `GIV.Model.Cache` (`realF`:
`enc` = `fmtEntry` = `fmt.Sprintf("v1 %x %x %20d %20d\n", …)` evaluated on the regenerated format string,
`parse` = `parseEntry` = the body of `get` with the regenerated offsets and checks), for sizes below `2^63`
(`OkSize`) and time stamps `10^18 ≤ t < 9·10^18` ns (`OkTime`: 19 digits, leading digit 1 … 8;
2001-09-09T01:46:40Z up to 2255-03-14T16:00:00Z, `okTime_window`). -/

/-- **the real codec is a codec with fixed field positions**: `mix_parse_same` instantiated with `realF`. -/
theorem mix_parse_same_real_fields (H : Bytes → Cache.Hash) (id out : Cache.Hash) (size : Nat) (t1 t2 : Int)
    (hs : size < 2 ^ 63) (h1 : 10 ^ 18 ≤ t1 ∧ t1 < 9 * 10 ^ 18) (h2 : 10 ^ 18 ≤ t2 ∧ t2 < 9 * 10 ^ 18) {m : Bytes}
    (hm : Mixture m (Cache.fmtEntry id out (size : Int) t1) (Cache.fmtEntry id out (size : Int) t2)) :
    (CacheBridge.realP H).parse id m = some ⟨out, size⟩ :=
  mix_parse_same (CacheBridge.realF H) id out size t1 t2 hs h1 h2 hm

/-- **mix_parse_same_real**: the real `get` of cache.go (`Cache.parseEntry`) applied to ANY byte-wise mixture
of two real index entries `fmt.Sprintf("v1 %x %x %20d %20d\n", id, out, size, t)` with equal (id, out, size),
`size < 2^63`, and time stamps of 19 digits with leading digit ≤ 8 (`10^18 ≤ t < 9·10^18` ns: the years 2001
to 2255) succeeds with that output and that size; the time stamp it reports is the number the mixed digits
denote, again in that window.  A read of the entry torn by a concurrent re-store of identical content still
finds the stored output. -/
theorem mix_parse_same_real (id out : Cache.Hash) (size : Nat) (t1 t2 : Int)
    (hs : size < 2 ^ 63) (h1 : 10 ^ 18 ≤ t1 ∧ t1 < 9 * 10 ^ 18) (h2 : 10 ^ 18 ≤ t2 ∧ t2 < 9 * 10 ^ 18) {m : Bytes}
    (hm : Mixture m (Cache.fmtEntry id out (size : Int) t1) (Cache.fmtEntry id out (size : Int) t2)) :
    ∃ tm : Int, Cache.parseEntry id m = .ok ⟨out, (size : Int), tm⟩ ∧ 10 ^ 18 ≤ tm ∧ tm < 9 * 10 ^ 18 :=
  CacheBridge.real_mix_parse_same id out size t1 t2 hs h1 h2 hm

def realId : Cache.Hash := ⟨List.replicate 32 0xab, by decide⟩
def realOut : Cache.Hash := ⟨List.replicate 32 0x5c, by decide⟩
/-- two entries for the same (id, output, size = 3) written at 2023-11-14T22:13:20.123456789Z and …20.987654321Z. -/
def entryA : Bytes := Cache.fmtEntry realId realOut 3 1700000000123456789
def entryB : Bytes := Cache.fmtEntry realId realOut 3 1700000000987654321
/-- a read torn inside the time field: 168 bytes of the first entry (13 of its 19 digits), the last 7 of the second (6 digits and the newline). -/
def tornRead : Bytes := entryA.take 168 ++ entryB.drop 168

example : entryA.length = 175 ∧ entryB.length = 175 ∧ Mixture tornRead entryA entryB ∧
    tornRead ≠ entryA ∧ tornRead ≠ entryB ∧
    (Cache.parseEntry realId tornRead).toOption = some ⟨realOut, 3, 1700000000123654321⟩ ∧
    (Cache.parseEntry realId entryA).toOption = some ⟨realOut, 3, 1700000000123456789⟩ := by
  have ha : entryA.length = 175 := by decide +kernel
  have hb : entryB.length = 175 := by decide +kernel
  exact ⟨ha, hb, CacheBridge.mixture_take_drop 168 entryA entryB (by rw [ha, hb]),
    by decide +kernel, by decide +kernel, by decide +kernel, by decide +kernel⟩

example : ∃ tm : Int, Cache.parseEntry realId tornRead = .ok ⟨realOut, 3, tm⟩ ∧ 10 ^ 18 ≤ tm ∧ tm < 9 * 10 ^ 18 :=
  mix_parse_same_real realId realOut 3 1700000000123456789 1700000000987654321 (by decide) (by decide) (by decide)
    (CacheBridge.mixture_take_drop 168 entryA entryB (by decide +kernel))

/-- **mix_parse_same over the translated parser**: the index-entry parser of cache.go itself (the Go→Lean translation of
the statements inside `(*Cache).get`, regenerated by the cache group, `GIV/Gen/CacheParseGo.lean`), run on the buffer
`get` fills with ANY byte-wise mixture of two real index entries for the same (id, output, size) — whatever the spare
last byte holds — accepts with that output id and that size and a time stamp in the window. -/
theorem go_mix_parse_same (id out : Cache.Hash) (size : Nat) (t1 t2 : Int)
    (hs : size < 2 ^ 63) (h1 : 10 ^ 18 ≤ t1 ∧ t1 < 9 * 10 ^ 18) (h2 : 10 ^ 18 ≤ t2 ∧ t2 < 9 * 10 ^ 18) {m : Bytes}
    (hm : Mixture m (Cache.fmtEntry id out (size : Int) t1) (Cache.fmtEntry id out (size : Int) t2)) (x : UInt8) :
    ∃ tm : Int, GIV.Go.CacheParse.parseEntrySlice (m ++ [x]) id.val = some (out.val, (size : Int), tm, [], true) ∧
      10 ^ 18 ≤ tm ∧ tm < 9 * 10 ^ 18 := by
  obtain ⟨tm, hp, hw1, hw2⟩ := mix_parse_same_real id out size t1 t2 hs h1 h2 hm
  have hlen : m.length = Gen.Cache.entrySize := (Cache.parseEntry_ok hp).1
  refine ⟨tm, ?_, hw1, hw2⟩
  rw [CacheParseGo.go_parseEntrySlice_eq id (m ++ [x]) (by simp [hlen]), List.take_left' hlen, hp]
  rfl

example : ∃ tm : Int, GIV.Go.CacheParse.parseEntrySlice (tornRead ++ [0]) realId.val = some (realOut.val, 3, tm, [], true) ∧
    10 ^ 18 ≤ tm ∧ tm < 9 * 10 ^ 18 :=
  go_mix_parse_same realId realOut 3 1700000000123456789 1700000000987654321 (by decide) (by decide) (by decide)
    (CacheBridge.mixture_take_drop 168 entryA entryB (by decide +kernel)) 0

example : GIV.Go.CacheParse.parseEntrySlice (tornRead ++ [0]) realId.val = some (realOut.val, 3, 1700000000123654321, [], true) := by
  decide +kernel

end GIV.C11
