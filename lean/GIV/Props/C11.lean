import GIV.Lemmas.CachePutConc
/-!
# C11 — concurrent cache users never observe corrupt or foreign data

Same model as C12 (`GIV.Model.CachePut`): any number of processes and goroutines, every transition
of `step` is one system call of one task; here no faults (`l.fault = .none`) and well-behaved source
readers (`GoodSrc`).  `FSInvP` strengthens clause (D) of the invariant to "every data file is a
PREFIX of the content with its hash".

Proved: the byte-level core (interleaved writers keep the file a prefix), the step of the moving
writer, and non-interference (what any other well-behaved task does is monotone, and a writer's
local facts survive monotone changes).  NOT mechanised: the assembly of these three over the task
table of `World` (bookkeeping that descriptors of distinct tasks are distinct) — the full statements
are the `…_statement` definitions at the end.
-/
namespace GIV.C11
open GIV GIV.CachePut

variable {Id Hsh : Type} [DecidableEq Id] [DecidableEq Hsh]
variable {P : Params Id Hsh} {offered : Bytes → Prop}

/-- the index entry is rewritten in place: no O_TRUNC, one write, truncate after (regenerated facts). -/
theorem index_rewrite_facts :
    Gen.CachePut.indexOpenTrunc = false ∧ Gen.CachePut.indexOpenCreate = true ∧
    Gen.CachePut.indexSingleWrite = true ∧ Gen.CachePut.indexTruncAfterWrite = true ∧
    Gen.CachePut.indexCloseBeforeChtimes = true := by
  decide

/-- **Two writers of one output interleave their writes**: a file that is a prefix of the content `c`,
written at an offset that does not exceed its length with the bytes `c` has there, is again a prefix
of `c`, and not shorter.  (Each writer's offset never exceeds the file length: `WStC`.) -/
theorem interleaved_writes_stay_prefix {d c : Bytes} {off k : Nat} (hp : d <+: c) (ho : off ≤ d.length) :
    writeAt d off ((c.drop off).take k) <+: c ∧ d.length ≤ (writeAt d off ((c.drop off).take k)).length :=
  writeAt_prefix hp ho

example : writeAt [1, 2] 1 (([1, 2, 3, 4].drop 1).take 2) = ([1, 2, 3] : Bytes) := by decide

/-- **the reader-side size gate**: a data file that is a prefix of the content and has its size IS the content. -/
theorem size_gate_complete {d c : Bytes} (hp : d <+: c) (hl : d.length = c.length) : d = c :=
  prefix_of_length_eq hp hl

example : ([1, 2] : Bytes) <+: [1, 2] ∧ ([1, 2] : Bytes).length = 2 := by decide

/-- **A fault-free step of a writer** (any program point of `copyFile` / `putIndexEntry`, source reader
delivering the same bytes twice) keeps clause (D⁺) and (I) for every file and re-establishes the writer's
local facts (`LocalC`: its descriptor is positioned inside the file, the bytes still to copy are those
of the content from there on; the error paths with `Truncate(0)` / `Remove` are unreachable). -/
theorem concurrent_step_inv (hy : Hyps P offered) {now : Int} {id : Id} {s : Src} (hg : GoodSrc s) (hoff : offered s.data1)
    {fs fs' : FS Id Hsh} {proc n : Nat} {r : Res} {pc : PC Hsh} {nx : Next Hsh}
    (hinv : FSInvP P offered fs) (hL : LocalC P id s fs pc)
    (hs : tstep P now fs proc (.put id s) pc .none n = some (fs', r, nx)) :
    FSInvP P offered fs' ∧ (match nx with | .goto pc' => LocalC P id s fs' pc' | .done _ => True) := by
  have h := put_cstep hy hg hoff hinv hL hs
  refine ⟨h.1, ?_⟩
  cases nx <;> exact h.2

/-- **Non-interference, part 1**: the system calls of a fault-free writer never remove, truncate or
shrink a file (`SafeSys`), and a safe system call is monotone for everybody else: names stay, no file
shrinks, no other descriptor is touched. -/
theorem concurrent_step_monotone (hy : Hyps P offered) {now : Int} {id : Id} {s : Src} (hoff : offered s.data1)
    {fs fs' : FS Id Hsh} {proc n : Nat} {r : Res} {pc : PC Hsh} (hinv : FSInvP P offered fs)
    (hL : LocalC P id s fs pc)
    (he : execOk fs proc (sysOf P now n (.put id s) pc) = some (fs', r)) :
    Mono fs fs' (sysFd (sysOf P now n (.put id s) pc)) :=
  exec_mono hinv.1 he (put_safe hy hoff hL)

/-- **Non-interference, part 2**: the local facts of a writer survive every monotone change made by
another task through another descriptor. -/
theorem concurrent_frame (hy : Hyps P offered) {id : Id} {s : Src} (hoff : offered s.data1)
    {fs fs' : FS Id Hsh} {f : Option Nat} (hm : Mono fs fs' f)
    (hinv : FSInvP P offered fs) (hinv' : FSInvP P offered fs') {pc : PC Hsh}
    (hfd : ∀ g, fdOf pc = some g → some g ≠ f ∧ g < fs.nextFd) (hL : LocalC P id s fs pc) :
    LocalC P id s fs' pc :=
  localC_mono hy hoff hm hinv hinv' hfd hL

/-! ### non-vacuity: the same small instance as in C12 -/

def toyOffered (c : Bytes) : Prop := c = [7] ∨ c = [8, 9, 10]
def toyEnc (_ : Nat) (out : Bytes) (size : Nat) (_ : Int) : Bytes := [out.headD 0, size.toUInt8] ++ List.replicate 173 0
def toyParse (_ : Nat) (bs : Bytes) : Option (Entry Bytes) :=
  if bs.length ≠ 175 then none
  else if bs.headD 0 = 7 then some ⟨[7], (bs.getD 1 0).toNat⟩
  else if bs.headD 0 = 8 then some ⟨[8, 9, 10], (bs.getD 1 0).toNat⟩
  else none
def toyP : Params Nat Bytes := ⟨fun b => b, toyEnc, toyParse⟩
def emptyFS : FS Nat Bytes :=
  { names := fun _ => none, inodes := fun _ => none, nextIno := 0, fds := fun _ => none, nextFd := 0 }
def goodSrc : Src := ⟨true, [8, 9, 10], true, [8, 9, 10]⟩

theorem emptyFS_invP : FSInvP toyP toyOffered emptyFS :=
  ⟨⟨fun _ _ h => by simp [emptyFS] at h, fun _ _ h => by simp [emptyFS] at h⟩, fun _ _ _ _ h => by simp [emptyFS] at h⟩

example : GoodSrc goodSrc ∧ LocalC toyP 1 goodSrc emptyFS .pStat ∧
    ∃ fs' r nx, tstep toyP 5 emptyFS 0 (.put 1 goodSrc) .pStat .none 0 = some (fs', r, nx) :=
  ⟨⟨rfl, rfl, rfl⟩, trivial, _, _, _, rfl⟩

example : Mono emptyFS emptyFS none ∧ LocalC toyP 1 goodSrc emptyFS (.pOpen false) :=
  ⟨⟨fun _ _ h => h, fun _ _ h => by simp [emptyFS] at h, fun _ _ _ => rfl, Nat.le_refl _⟩, rfl⟩

/-! ### the full statements (not yet assembled over the task table) -/

/-- every task is at the start of a well-behaved operation. -/
def GoodOp (offered : Bytes → Prop) : Op Id → Prop
  | .put _ s => GoodSrc s ∧ offered s.data1
  | _ => True

def Initial (offered : Bytes → Prop) (w : World Id Hsh) : Prop :=
  ∀ tid tk, w.tasks tid = some tk →
    (∀ op pc, tk.cur = some (op, pc) → GoodOp offered op ∧ startOp (Hsh := Hsh) op = .goto pc) ∧
    (∀ op, op ∈ tk.todo → GoodOp offered op)

/-- `concurrent_inv`: in every world reachable by fault-free steps of any number of processes and
goroutines under any schedule, every data file is a prefix of the content with its hash and every
index file is empty or a whole entry. -/
def concurrent_inv_statement : Prop :=
  ∀ (P : Params Id Hsh) (offered : Bytes → Prop), Hyps P offered →
  ∀ (w0 w : World Id Hsh) (ls : List Label), FSInvP P offered w0.fs → Initial offered w0 →
    (∀ l, l ∈ ls → l.fault = .none) → run P w0 ls = some w → FSInvP P offered w.fs

/-- `lookup_returns_some_put`: a lookup that succeeds in such a world reports an entry whose index
write was completed by a Put of that id (`Ev.indexed`), with the bytes of that Put. -/
def lookup_returns_some_put_statement : Prop :=
  ∀ (P : Params Id Hsh) (offered : Bytes → Prop), Hyps P offered →
  ∀ (w0 w : World Id Hsh) (ls : List Label), FSInvP P offered w0.fs → Initial offered w0 → w0.hist = [] →
    (∀ p, w0.fs.names p = none) →
    (∀ l, l ∈ ls → l.fault = .none) → run P w0 ls = some w →
    ∀ tid op d e, Ev.ret tid op (.bytes d e) ∈ w.hist →
      ∃ t' , Ev.indexed t' op.id d ∈ w.hist ∧ e = ⟨P.H d, d.length⟩

/-- `quiescent_all_readable`: when every task has finished, every id whose Put returned is readable. -/
def quiescent_all_readable_statement : Prop :=
  ∀ (P : Params Id Hsh) (offered : Bytes → Prop), Hyps P offered →
  ∀ (w0 w : World Id Hsh) (ls : List Label), FSInvP P offered w0.fs → Initial offered w0 →
    (∀ l, l ∈ ls → l.fault = .none) → run P w0 ls = some w → (∀ tid, w.finished tid = true) →
    ∀ tid id s out size, Ev.ret tid (.put id s) (.putOk out size) ∈ w.hist →
      ∃ c, offered c ∧ (∃ i nd, w.fs.names (.index id) = some i ∧ w.fs.inodes i = some nd ∧
        P.parse id nd.data = some ⟨P.H c, c.length⟩) ∧ w.fs.content (.data (P.H c)) = some c

end GIV.C11
