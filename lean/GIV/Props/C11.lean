import GIV.Model.CachePut
/-! C11 — concurrent cache users never observe corrupt or foreign data (theorems under construction). -/
namespace GIV.C11
open GIV GIV.CachePut

/-- the index entry is rewritten in place: no O_TRUNC, one write, truncate after. -/
theorem index_rewrite_facts :
    Gen.CachePut.indexOpenTrunc = false ∧ Gen.CachePut.indexOpenCreate = true ∧
    Gen.CachePut.indexSingleWrite = true ∧ Gen.CachePut.indexTruncAfterWrite = true ∧
    Gen.CachePut.indexCloseBeforeChtimes = true := by
  decide

end GIV.C11
