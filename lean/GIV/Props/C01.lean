import GIV.Model.Script
import GIV.Model.ScriptCmds
namespace GIV.C01
open GIV GIV.TsRun

theorem cli_nil : cli [] = 0 := by simp [cli, cliAux]

end GIV.C01
