/-
  C01 — testscript verdict: a script passes iff every executed line meets its demand.

  All theorems are about the skeleton `GIV.TsRun.run` / `runLine` / `cli` (GIV.Model.Script) and hold
  for EVERY `Config σ`: every state type, tokenizer, condition function, builtin table and
  `Params.Cmds` — custom commands and conditions are covered by the quantifier.  The specification
  side uses only the plain folds `lineOut`, `okFold`, `contFold`, `foldCalls`, `firstFatal`.

  The regenerated facts (GIV.Gen.TsRun) enter through `loop_facts`, `line_facts`, `cli_facts` and
  `skip_honours_failed`; a source change that flips one of them fails there.

  The second layer at the end (lemmas in GIV.Lemmas.TsRunMore) takes the clauses of the property text
  one by one; its per-command theorems (`builtin_demand` …, `wait_demand` …) are about the concrete
  builtins of GIV.Model.ScriptCmds (tied to cmd.go by the correspondence run) and use the regenerated
  facts `execRejectsLoneBgSpec`, `stopSetsStopped`, `skipChecksFailed` (in `builtin_demand`).
-/
import GIV.Model.Script
import GIV.Model.ScriptCmds
import GIV.Lemmas.TsRun
import GIV.Lemmas.TsRunCmds
import GIV.Lemmas.TsRunMore

namespace GIV.C01
open GIV GIV.TsRun

variable {σ : Type}

/-! ### toy instance for the non-vacuity examples

state = a counter; words separated by single spaces; commands `i` (count, ok), `f` (Fatalf), `s` (stop),
`k` (skip, honouring ts.failed), `K` (skip regardless), `n` (count 10 if negated, else 100);
conditions `y` (true), `n` (false), anything else an error. -/

def bs (s : String) : Bytes := s.toList.map (fun ch => ch.toNat.toUInt8)

def toyCmd (name : Bytes) : Option (Cmd Nat) :=
  if name = bs "i" then some (fun _ s _ _ => (s + 1, .ok))
  else if name = bs "f" then some (fun _ s _ _ => (s, .fatal))
  else if name = bs "s" then some (fun _ s _ _ => (s, .stop))
  else if name = bs "k" then some (fun failed s _ _ => (s, if failed then .failNow else .skip))
  else if name = bs "K" then some (fun _ s _ _ => (s, .skip))
  else if name = bs "n" then some (fun _ s neg _ => (s + (if neg then 10 else 100), .ok))
  else none

def toy (cont : Bool) : Config Nat :=
  { continueOnError := cont
    parse := fun _ l => some ((Cmds.splitOn 32 l).filter (· ≠ []))
    cond := fun _ n => if n = bs "y" then some true else if n = bs "n" then some false else none
    builtin := toyCmd
    custom := fun name => if name = bs "i" then some (fun _ s _ _ => (s + 1000, .ok))
                          else if name = bs "c" then some (fun _ s _ _ => (s + 7, .ok)) else none }

/-! ### the regenerated facts -/

theorem loop_facts : LoopFacts := ⟨rfl, rfl, rfl, rfl, rfl⟩

theorem line_facts : LineFacts := ⟨rfl, rfl, rfl, rfl, rfl, rfl, rfl, rfl, rfl, rfl, rfl, rfl⟩

theorem cli_facts : CliFacts := ⟨rfl, rfl, rfl⟩

example : Gen.TsRun.commentByte = 35 := rfl

/-! ### pass -/

/-- The run is reported as passed exactly when every line (each from the state its predecessors
left) ends `ok` — up to the end of the script, or up to and including a `stop`.  In particular a
`skip`, a Fatalf, a FailNow or a panic anywhere in that prefix excludes `pass`, with or without
ContinueOnError.  (Lines whose guard does not hold end `ok` without running anything:
`guard_semantics`.) -/
theorem pass_iff (c : Config σ) (s : σ) (script : Bytes) :
    (run c s script).verdict = .pass ↔
      ((∃ s', okFold c s (splitScript script) = some s') ∨
       (∃ pre l post s', splitScript script = pre ++ l :: post ∧ okFold c s pre = some s' ∧
          (lineOut c false s' l).out = .stop)) := by
  unfold run
  rw [verdict_pass_iff_passes loop_facts, passes_iff]

example : (run (toy false) 0 (bs "i\n# c\n[n] f\ni\ns\nf\n")).verdict = .pass ∧
    splitScript (bs "i\n# c\n[n] f\ni\ns\nf\n") = [bs "i", bs "# c", bs "[n] f", bs "i"] ++ bs "s" :: [bs "f"] ∧
    okFold (toy false) 0 [bs "i", bs "# c", bs "[n] f", bs "i"] = some 2 ∧
    (lineOut (toy false) false 2 (bs "s")).out = .stop := by decide

example : (run (toy true) 0 (bs "i\nf\ni\n")).verdict = .fail ∧ okFold (toy true) 0 (splitScript (bs "i\nf\ni\n")) = none := by
  decide

/-- When every line ends `ok` the final state is the fold's and every line's command was called. -/
theorem pass_state (c : Config σ) (s s' : σ) (script : Bytes)
    (h : okFold c s (splitScript script) = some s') :
    (run c s script).verdict = .pass ∧ (run c s script).state = s' ∧ (run c s script).reported = none ∧
      (run c s script).calls = foldCalls c false s 0 (splitScript script) := by
  unfold run
  have := runLines_okFold loop_facts c (splitScript script) [] 0 s s' h
  simp only [List.append_nil] at this
  rw [this]
  simp [runLines, endVerdict_false]

example : okFold (toy false) 0 (splitScript (bs "i\n! n\nn")) = some 111 := by decide

/-! ### the first failure -/

/-- Without ContinueOnError: if the lines before line `k = pre.length + 1` all end `ok` and line `k`
calls Fatalf, the run fails, the log names line `k`, the state is the one line `k` left behind, no
command of a later line was called, and `ts.lineno` stays at `k`. -/
theorem first_failure (c : Config σ) (hc : c.continueOnError = false) (s s' : σ) (script : Bytes)
    (pre : List Bytes) (l : Bytes) (post : List Bytes)
    (hsplit : splitScript script = pre ++ l :: post)
    (hpre : okFold c s pre = some s')
    (hl : (lineOut c false s' l).out = .fatal) :
    (run c s script).verdict = .fail ∧
    (run c s script).reported = some (pre.length + 1) ∧
    (run c s script).state = (lineOut c false s' l).state ∧
    (run c s script).calls = foldCalls c false s 0 pre ++ callsOf (pre.length + 1) (lineOut c false s' l) ∧
    (∀ k ∈ (run c s script).calls, k.lineno ≤ pre.length + 1) ∧
    (run c s script).lineno = pre.length + 1 := by
  unfold run
  rw [hsplit, runLines_okFold loop_facts c pre (l :: post) 0 s s' hpre, runLines_cons loop_facts, hl]
  simp only [hc, Nat.zero_add]
  refine ⟨by simp, by simp, by simp, by simp, ?_, by simp⟩
  intro k hk
  simp only [List.mem_append] at hk
  rcases hk with hk | hk
  · have := (foldCalls_lineno c pre false s 0 k hk).2; omega
  · have := callsOf_lineno hk; omega

example : splitScript (bs "i\n# x\nf\ni\n") = [bs "i", bs "# x"] ++ bs "f" :: [bs "i"] ∧
    okFold (toy false) 0 [bs "i", bs "# x"] = some 1 ∧ (lineOut (toy false) false 1 (bs "f")).out = .fatal ∧
    (run (toy false) 0 (bs "i\n# x\nf\ni\n")).reported = some 3 ∧ (run (toy false) 0 (bs "i\n# x\nf\ni\n")).state = 1 := by
  decide

/-! ### ContinueOnError -/

/-- With ContinueOnError a Fatalf does not end the loop: after a prefix of lines that end `ok` or
`fatal`, the loop goes on with the rest from the state (and `failed` flag) the prefix left; the
prefix's commands were all called, in order; the log names the first `fatal` line. -/
theorem continue_runs_all (c : Config σ) (hc : c.continueOnError = true) (s s' : σ) (failed' : Bool)
    (script : Bytes) (pre rest : List Bytes)
    (hsplit : splitScript script = pre ++ rest)
    (hpre : contFold c false s pre = some (s', failed')) :
    (run c s script).verdict = (runLines c rest pre.length failed' s').verdict ∧
    (run c s script).state = (runLines c rest pre.length failed' s').state ∧
    (run c s script).calls = foldCalls c false s 0 pre ++ (runLines c rest pre.length failed' s').calls ∧
    (∀ k, firstFatal c false s 0 pre = some k → (run c s script).reported = some k) := by
  unfold run
  rw [hsplit, runLines_contFold loop_facts c hc pre rest 0 false s s' failed' hpre]
  simp only [Nat.zero_add]
  refine ⟨trivial, trivial, trivial, ?_⟩
  intro k hk
  simp [hk]

/-- … and when all lines end `ok` or `fatal`: every line was executed, and the run fails iff one of
them was `fatal`. -/
theorem continue_runs_all_end (c : Config σ) (hc : c.continueOnError = true) (s s' : σ) (failed' : Bool)
    (script : Bytes) (h : contFold c false s (splitScript script) = some (s', failed')) :
    (run c s script).state = s' ∧
    (run c s script).calls = foldCalls c false s 0 (splitScript script) ∧
    (run c s script).verdict = (if failed' then .fail else .pass) ∧
    (run c s script).reported = firstFatal c false s 0 (splitScript script) := by
  unfold run
  have := runLines_contFold loop_facts c hc (splitScript script) [] 0 false s s' failed' h
  simp only [List.append_nil] at this
  rw [this]
  refine ⟨by simp [runLines], by simp [runLines], ?_, ?_⟩
  · cases failed' <;> simp [runLines, endVerdict_false, endVerdict_true loop_facts]
  · cases firstFatal c false s 0 (splitScript script) <;> simp [runLines]

example : contFold (toy true) false 0 (splitScript (bs "i\nf\ni\nf\ni")) = some (3, true) ∧
    firstFatal (toy true) false 0 0 (splitScript (bs "i\nf\ni\nf\ni")) = some 2 := by decide

/-- Once a line has failed the run fails whatever follows — a later `stop`, the end of the script,
or a `skip` — as long as no command calls T.Skip although `ts.failed` is set, and none panics.
(For every `Config`, with or without ContinueOnError.) -/
theorem failed_stays_failed (c : Config σ) (hh : HonoursFailed c) (hn : NoCrash c)
    (s s' : σ) (script : Bytes) (pre rest : List Bytes)
    (hc : c.continueOnError = true)
    (hsplit : splitScript script = pre ++ rest)
    (hpre : contFold c false s pre = some (s', true)) :
    (run c s script).verdict = .fail := by
  rw [(continue_runs_all c hc s s' true script pre rest hsplit hpre).1]
  exact runLines_failed_fail loop_facts line_facts c hh hn rest _ _

/-- `HonoursFailed` is needed: with a command that skips regardless (`K`), "line 1 fails, line 2
skips" is reported as skipped — the defect repaired in /repo's `cmdSkip`. -/
theorem continue_skip_witness :
    (run (toy true) 0 (bs "f\nK\n")).verdict = .skip ∧ (run (toy true) 0 (bs "f\nk\n")).verdict = .fail := by
  decide

/-- The builtin `skip` of the source tree honours `ts.failed`: it calls T.FailNow instead of T.Skip
when a line has already failed (regenerated fact `skipChecksFailed`). -/
theorem skip_honours_failed (s : Cmds.St) (neg : Bool) (args : List Bytes) :
    (Cmds.cmdSkip true s neg args).2 ≠ .skip := by
  have : Gen.TsRun.skipChecksFailed = true := rfl
  unfold Cmds.cmdSkip Cmds.fatal Cmds.unm
  simp only [this]
  repeat' split
  all_goals first | (simp; done) | simp_all

/-- Every command of the concrete model — the whole builtin table of cmd.go as modelled, and the
harness's `Params.Cmds` — honours `ts.failed`: only the builtin `skip` ever calls T.Skip, and it
does not once a line has failed.  So `failed_stays_failed` applies to the documented command set. -/
theorem builtins_honour_failed (p : Cmds.P) : HonoursFailed (Cmds.config p) := by
  intro name f s neg args hl
  rw [lookup_eq line_facts] at hl
  simp only [Cmds.config] at hl
  split at hl
  · rename_i g hg
    simp at hl
    subst hl
    by_cases h3 : name = lit "skip"
    · rw [Cmds.builtin_skip p name g hg h3]
      exact skip_honours_failed s neg args
    · by_cases h1 : name = lit "cmp"
      · have := (Cmds.builtin_cmp p name g hg (Or.inl h1) true s neg args).1
        rcases this with h | h | h <;> simp [h]
      · by_cases h2 : name = lit "cmpenv"
        · have := (Cmds.builtin_cmp p name g hg (Or.inr h2) true s neg args).1
          rcases this with h | h | h <;> simp [h]
        · have := (Cmds.builtin_tame p name g hg h1 h2 h3 true s neg args).1
          rcases this with h | h | h | h <;> simp [h]
  · have := (Cmds.custom_tame p name f hl true s neg args).1
    rcases this with h | h | h | h <;> simp [h]

example : (Cmds.cmdSkip true Cmds.initSt false []).2 = .failNow ∧ (Cmds.cmdSkip false Cmds.initSt false []).2 = .skip := by
  decide

/-! ### background commands and the verdict

`exec … &` only records the command; whether it ended as its line demands (success, or failure
under `!`) is reported by the next `wait` — or by `skip`, which waits first (regenerated fact
`skipChecksBackground`: cmdSkip calls `ts.cmdWait`, not `ts.waitBackground(false)`).  Together with
`pass_iff` / `first_failure` (a line that ends `fatal` excludes pass and skip) this is the
"every executed line meets its demand" clause for background commands. -/

/-- `skip` marks the script skipped only if every outstanding background command, interrupted, ended
as its line demands. -/
theorem skip_only_if_background_ok (failed : Bool) (s : Cmds.St) (neg : Bool) (args : List Bytes)
    (h : (Cmds.cmdSkip failed s neg args).2 = .skip) :
    ∀ b ∈ s.bg, Cmds.BgAsDemanded true b := by
  have hf : Gen.TsRun.skipChecksBackground = true := rfl
  unfold Cmds.cmdSkip at h
  rw [hf] at h
  split at h
  · simp [Cmds.fatal] at h
  · split at h
    · simp [Cmds.fatal] at h
    · split at h
      · simp [Cmds.unm] at h
      · simp [Cmds.fatal] at h
      · rename_i o e hw
        exact Cmds.waitAll_some_all true s.bg [] [] (o, e) hw

/-- A background command that ended against its line (every earlier one as demanded) makes an executed
`skip` FAIL: the outcome is `fatal` (a `FAIL:` entry for this line; the verdict can no longer be
pass or skip), whatever `ts.failed` is. -/
theorem skip_reports_background (failed : Bool) (s : Cmds.St) (args : List Bytes)
    (pre post : List Cmds.Bg) (b : Cmds.Bg)
    (hargs : args.length ≤ 1) (hbg : s.bg = pre ++ b :: post)
    (hpre : ∀ x ∈ pre, Cmds.BgAsDemanded true x) (hb : Cmds.bgStatus true b = some b.neg) :
    (Cmds.cmdSkip failed s false args).2 = .fatal := by
  have hf : Gen.TsRun.skipChecksBackground = true := rfl
  have hl : ¬ args.length > 1 := by omega
  unfold Cmds.cmdSkip
  rw [hf, hbg, Cmds.waitAll_contradiction true pre post b hpre hb]
  simp [hl, Cmds.fatal]

/-- `exec vh exit:1 &`, no `wait`, then `skip`: the line fails; with `! exec … &` the script is skipped. -/
example :
    let quickFail (neg : Bool) : Cmds.Bg := ⟨[], neg, [], [], 1, false, false⟩
    (Cmds.cmdSkip false { Cmds.initSt with bg := [quickFail false] } false []).2 = .fatal ∧
    (Cmds.cmdSkip false { Cmds.initSt with bg := [quickFail true] } false []).2 = .skip := by
  decide

/-- `wait` (no name) ends `ok` only if every outstanding background command ended as its line demands;
then `ts.background` is empty and stdout / stderr are the outputs joined in order. -/
theorem wait_only_if_background_ok (failed : Bool) (s : Cmds.St) (neg : Bool)
    (h : (Cmds.cmdWait failed s neg []).2 = .ok) :
    (∀ b ∈ s.bg, Cmds.BgAsDemanded false b) ∧ (Cmds.cmdWait failed s neg []).1.bg = [] ∧
    (Cmds.cmdWait failed s neg []).1.stdout = (s.bg.map (·.out)).flatten ∧
    (Cmds.cmdWait failed s neg []).1.stderr = (s.bg.map (·.err)).flatten := by
  unfold Cmds.cmdWait at h ⊢
  simp only [List.length_nil, gt_iff_lt, Nat.not_lt_zero, if_false] at h ⊢
  split at h
  · simp [Cmds.fatal] at h
  · rename_i hneg
    simp only [hneg]
    split at h
    · simp [Cmds.unm] at h
    · simp [Cmds.fatal] at h
    · rename_i o e hw
      have ho := Cmds.waitAll_some_outputs false s.bg [] [] (o, e) hw
      simp only [List.nil_append, Prod.mk.injEq] at ho
      exact ⟨Cmds.waitAll_some_all false s.bg [] [] (o, e) hw, by simp [Cmds.okay], by simp [Cmds.okay, ho.1], by simp [Cmds.okay, ho.2]⟩

/-- … and a background command that ended against its line makes `wait` FAIL, leaving `ts.background`
and the buffers as they were. -/
theorem wait_reports_background (failed : Bool) (s : Cmds.St) (pre post : List Cmds.Bg) (b : Cmds.Bg)
    (hbg : s.bg = pre ++ b :: post)
    (hpre : ∀ x ∈ pre, Cmds.BgAsDemanded false x) (hb : Cmds.bgStatus false b = some b.neg) :
    Cmds.cmdWait failed s false [] = (s, .fatal) := by
  unfold Cmds.cmdWait
  rw [hbg, Cmds.waitAll_contradiction false pre post b hpre hb]
  simp [Cmds.fatal]

/-- `exec vh exit:1 &` then `wait`: the line fails; with `! exec … &` it is fine. -/
example :
    let quickFail (neg : Bool) : Cmds.Bg := ⟨[], neg, [], [], 1, false, false⟩
    (Cmds.cmdWait false { Cmds.initSt with bg := [quickFail false] } false []).2 = .fatal ∧
    (Cmds.cmdWait false { Cmds.initSt with bg := [quickFail true] } false []).2 = .ok := by
  decide

/-- `exec prog … &` (helper found) never fails by itself, whatever the helper will do: it appends one
entry carrying the line's `!`, clears the buffers and consumes stdin. -/
theorem exec_background_records (s : Cmds.St) (neg : Bool) (hargs : List Bytes) (name : Bytes) (r : Cmds.HRes)
    (hr : Cmds.runHelper s.stdin hargs = some r) :
    Cmds.execBg s neg (lit "vh") hargs name =
      ({ s with stdin := [], stdout := [], stderr := [],
                bg := s.bg ++ [⟨name, neg, r.out, r.err, r.status, r.blocks, false⟩] }, .ok) := by
  have hp : Cmds.progOf (lit "vh") = .helper := by decide +kernel
  simp [Cmds.execBg, hp, hr, Cmds.okay]

/-- `exec` with no program — no words at all, or only a background specifier `&` / `&name&` — is a
usage error reported as a failure of that line; in particular `exec &name&` does not reach the
slice `args[1:len(args)-1]` (regenerated fact `execRejectsLoneBgSpec`: the usage check tests
`backgroundSpecifier.MatchString(args[0])`; with `args[0] == "&"` there it panicked — repaired). -/
theorem exec_without_program_is_usage_error (p : Bool) (s : Cmds.St) (neg : Bool) (spec : Bytes)
    (hspec : Cmds.isBgSpec spec = true) :
    Cmds.cmdExec p s neg [] = Cmds.fatal s ∧ Cmds.cmdExec p s neg [spec] = Cmds.fatal s := by
  have hf : Gen.TsRun.execRejectsLoneBgSpec = true := rfl
  constructor
  · rfl
  · simp [Cmds.cmdExec, hf, hspec]

/-- … hence `exec` never ends in a Go panic: the `crash` outcome occurs only together with the
`unmodelled` flag (a program or helper action outside the modelled fragment, which the driver
reports as unsupported), never as the model's rendering of `args[1:0]`. -/
theorem exec_never_panics (p : Bool) (s : Cmds.St) (neg : Bool) (args : List Bytes) :
    (Cmds.cmdExec p s neg args).2 = .crash → (Cmds.cmdExec p s neg args).1.unmodelled = true := by
  have hf : Gen.TsRun.execRejectsLoneBgSpec = true := rfl
  cases args with
  | nil => simp [Cmds.cmdExec, Cmds.fatal]
  | cons prog rest =>
    cases rest with
    | nil =>
      simp only [Cmds.cmdExec, hf, if_true, List.isEmpty_nil, Bool.true_and, List.getLast?_nil, Option.getD_none]
      by_cases hb : Cmds.isBgSpec prog = true
      · simp [hb, Cmds.fatal]
      · simp only [hb, Bool.false_eq_true, if_false]
        split
        · simp [Cmds.unm]
        · unfold Cmds.execFg
          split <;> (try split) <;> (try split) <;> (try split) <;> simp [Cmds.unm, Cmds.fatal, Cmds.okay]
    | cons r1 rs =>
      simp only [Cmds.cmdExec, hf, if_true, List.isEmpty_cons, Bool.false_and, Bool.false_eq_true, if_false]
      split
      · simp [Cmds.unm]
      · split
        · split
          · simp [Cmds.fatal]
          · unfold Cmds.execBg
            split <;> (try split) <;> (try split) <;> simp [Cmds.unm, Cmds.fatal, Cmds.okay]
        · unfold Cmds.execFg
          split <;> (try split) <;> (try split) <;> (try split) <;> simp [Cmds.unm, Cmds.fatal, Cmds.okay]

example : Cmds.isBgSpec (lit "&x&") = true ∧ Cmds.isBgSpec (lit "&") = true := by decide +kernel

/-- a foreground `exec` of the helper: ends `ok` iff the exit status is as the line demands -/
theorem exec_foreground_status (s : Cmds.St) (neg : Bool) (hargs : List Bytes) (r : Cmds.HRes)
    (hr : Cmds.runHelper s.stdin hargs = some r) (hb : r.blocks = false) :
    ((Cmds.execFg s neg (lit "vh") hargs).2 = .ok ↔ (r.status == 0) ≠ neg) ∧
    ((Cmds.execFg s neg (lit "vh") hargs).2 = .fatal ↔ (r.status == 0) = neg) ∧
    (Cmds.execFg s neg (lit "vh") hargs).1.stdout = r.out ∧ (Cmds.execFg s neg (lit "vh") hargs).1.stderr = r.err := by
  have hp : Cmds.progOf (lit "vh") = .helper := by decide +kernel
  simp only [Cmds.execFg, hp, hr, hb]
  by_cases h : (r.status == 0) = neg <;> simp [h, Cmds.fatal, Cmds.okay]

example : Cmds.BgAsDemanded true ⟨[], true, [], [], 0, true, false⟩ ∧
    Cmds.bgStatus true (⟨[], false, [], [], 0, true, false⟩ : Cmds.Bg) = some false :=
  ⟨⟨false, by decide, by decide⟩, by decide⟩

example : Cmds.runHelper [120] [lit "out:a", lit "cat", lit "exit:3"] = some ⟨[97, 10, 120], [], 3, false⟩ := by
  decide +kernel

/-! ### guards and negation -/

/-- A `[cond]` / `[!cond]` word in front of a command: the rest of the line runs iff the condition's
value equals `want` (`want = false` exactly for a leading '!'); otherwise the line is a no-op that
ends `ok`; a condition error, an unknown condition, or a guard with nothing after it is fatal —
the latter even when the guard does not hold. -/
theorem guard_semantics (c : Config σ) (failed : Bool) (s : σ) (w : Bytes) (rest : List Bytes)
    (hw : isGuardWord w = true) :
    (rest = [] → runArgs c failed s (w :: rest) = ⟨s, .fatal, none⟩) ∧
    (rest ≠ [] → c.cond s (guardCond w).2 = none → runArgs c failed s (w :: rest) = ⟨s, .fatal, none⟩) ∧
    (rest ≠ [] → ∀ b, c.cond s (guardCond w).2 = some b → b ≠ (guardCond w).1 →
        runArgs c failed s (w :: rest) = ⟨s, .ok, none⟩) ∧
    (rest ≠ [] → c.cond s (guardCond w).2 = some (guardCond w).1 →
        runArgs c failed s (w :: rest) = runArgs c failed s rest) := by
  refine ⟨?_, ?_, ?_, ?_⟩
  · intro h; subst h; exact runArgs_guard_missing line_facts c failed s w hw
  · intro h1 h2; exact runArgs_guard_error line_facts c failed s w rest hw h1 h2
  · intro h1 b h2 h3; exact runArgs_guard_false line_facts c failed s w rest hw h1 b h2 h3
  · intro h1 h2; exact runArgs_guard_true line_facts c failed s w rest hw h1 h2

example : isGuardWord (bs "[!n]") = true ∧ guardCond (bs "[!n]") = (false, bs "n") ∧
    guardCond (bs "[ !  n ]") = (false, bs "n") ∧ guardCond (bs "[y]") = (true, bs "y") ∧
    isGuardWord (bs "[") = false ∧ isGuardWord (bs "y]") = false ∧
    (runArgs (toy false) false 5 [bs "[!n]", bs "[y]", bs "i"]).state = 6 ∧
    (runArgs (toy false) false 5 [bs "[n]", bs "f"]).out = .ok ∧
    (runArgs (toy false) false 5 [bs "[n]"]).out = .fatal ∧
    (runArgs (toy false) false 5 [bs "[q]", bs "i"]).out = .fatal := by decide

/-- The line as a whole: tokenizer error fatal, no words ok, otherwise the guards and the command. -/
theorem line_semantics (c : Config σ) (failed : Bool) (s : σ) (line : Bytes) :
    (c.parse s line = none → runLine c failed s line = ⟨s, .fatal, none⟩) ∧
    (c.parse s line = some [] → runLine c failed s line = ⟨s, .ok, none⟩) ∧
    (∀ w ws, c.parse s line = some (w :: ws) → runLine c failed s line = runArgs c failed s (w :: ws)) :=
  ⟨runLine_parse_error line_facts c failed s line, runLine_blank line_facts c failed s line,
   fun w ws h => runLine_of_parse line_facts c failed s line w ws h⟩

/-- After the guards: the command function receives `neg = true` exactly when the first word is
"!", and in both cases the words after the command name; the command is looked up in the builtin
table first and in `Params.Cmds` only when the builtin table has no entry; an unknown command and a
"!" with nothing after it are fatal. -/
theorem neg_passed (c : Config σ) (failed : Bool) (s : σ) (name : Bytes) (rest : List Bytes) :
    (∀ f, lookup c name = some f →
        runArgs c failed s ([BANG] :: name :: rest) =
          ⟨(f failed s true rest).1, (f failed s true rest).2, some (true, name, rest)⟩) ∧
    (∀ f, lookup c name = some f → name ≠ [BANG] → isGuardWord name = false →
        runArgs c failed s (name :: rest) =
          ⟨(f failed s false rest).1, (f failed s false rest).2, some (false, name, rest)⟩) ∧
    (lookup c name = none → name ≠ [BANG] → isGuardWord name = false →
        runArgs c failed s (name :: rest) = ⟨s, .fatal, none⟩) ∧
    (lookup c name = none → runArgs c failed s ([BANG] :: name :: rest) = ⟨s, .fatal, none⟩) ∧
    runArgs c failed s [[BANG]] = ⟨s, .fatal, none⟩ ∧
    lookup c name = (match c.builtin name with | some f => some f | none => c.custom name) := by
  have hb : isGuardWord [BANG] = false := by decide
  refine ⟨?_, ?_, ?_, ?_, ?_, lookup_eq line_facts c name⟩
  · intro f hf; rw [runArgs_plain c failed s _ _ hb]; exact invoke_bang line_facts c failed s name rest f hf
  · intro f hf hn hg; rw [runArgs_plain c failed s _ _ hg]; exact invoke_plain line_facts c failed s name rest hn f hf
  · intro hf hn hg; rw [runArgs_plain c failed s _ _ hg]; exact invoke_unknown line_facts c failed s name rest hn hf
  · intro hf; rw [runArgs_plain c failed s _ _ hb]; exact invoke_bang_unknown line_facts c failed s name rest hf
  · rw [runArgs_plain c failed s _ _ hb]; exact invoke_bang_alone line_facts c failed s

example : (runArgs (toy false) false 0 [bs "!", bs "n"]).state = 10 ∧ (runArgs (toy false) false 0 [bs "n"]).state = 100 ∧
    (runArgs (toy false) false 0 [bs "i"]).state = 1 ∧ (runArgs (toy false) false 0 [bs "c"]).state = 7 ∧
    (runArgs (toy false) false 0 [bs "zz"]).out = .fatal ∧ (runArgs (toy false) false 0 [bs "!"]).out = .fatal := by
  decide

/-! ### stop and skip -/

/-- `stop` after lines that all end `ok`: passed; the state is the one `stop` left, nothing after it
is called. -/
theorem stop_passes (c : Config σ) (s s' : σ) (script : Bytes) (pre : List Bytes) (l : Bytes) (post : List Bytes)
    (hsplit : splitScript script = pre ++ l :: post)
    (hpre : okFold c s pre = some s')
    (hl : (lineOut c false s' l).out = .stop) :
    (run c s script).verdict = .pass ∧
    (run c s script).state = (lineOut c false s' l).state ∧
    (run c s script).reported = none ∧
    (run c s script).calls = foldCalls c false s 0 pre ++ callsOf (pre.length + 1) (lineOut c false s' l) := by
  unfold run
  rw [hsplit, runLines_okFold loop_facts c pre (l :: post) 0 s s' hpre, runLines_cons loop_facts, hl]
  simp [endVerdict_false]

/-- `skip` (a call of T.Skip) after lines that all end `ok`: skipped, with or without ContinueOnError. -/
theorem skip_skips (c : Config σ) (s s' : σ) (script : Bytes) (pre : List Bytes) (l : Bytes) (post : List Bytes)
    (hsplit : splitScript script = pre ++ l :: post)
    (hpre : okFold c s pre = some s')
    (hl : (lineOut c false s' l).out = .skip) :
    (run c s script).verdict = .skip ∧
    (run c s script).state = (lineOut c false s' l).state ∧
    (run c s script).reported = none ∧
    (run c s script).calls = foldCalls c false s 0 pre ++ callsOf (pre.length + 1) (lineOut c false s' l) := by
  unfold run
  rw [hsplit, runLines_okFold loop_facts c pre (l :: post) 0 s s' hpre, runLines_cons loop_facts, hl]
  simp

example : splitScript (bs "i\ns\nf") = [bs "i"] ++ bs "s" :: [bs "f"] ∧ okFold (toy true) 0 [bs "i"] = some 1 ∧
    (lineOut (toy true) false 1 (bs "s")).out = .stop ∧ (lineOut (toy true) false 1 (bs "k")).out = .skip ∧
    (run (toy true) 0 (bs "i\nk\nf")).verdict = .skip := by decide

/-- The two remaining ways a command can end: a direct T.FailNow fails the run (no FAIL line of its
own), any other panic is reported as such — both at once, ContinueOnError or not. -/
theorem failnow_and_panic (c : Config σ) (s s' : σ) (script : Bytes) (pre : List Bytes) (l : Bytes) (post : List Bytes)
    (hsplit : splitScript script = pre ++ l :: post)
    (hpre : okFold c s pre = some s') :
    ((lineOut c false s' l).out = .failNow →
      (run c s script).verdict = .fail ∧ (run c s script).reported = none ∧
      (run c s script).state = (lineOut c false s' l).state) ∧
    ((lineOut c false s' l).out = .crash →
      (run c s script).verdict = .crash ∧ (run c s script).state = (lineOut c false s' l).state) := by
  unfold run
  rw [hsplit, runLines_okFold loop_facts c pre (l :: post) 0 s s' hpre, runLines_cons loop_facts]
  constructor <;> intro hl <;> simp [hl]

example : (run (toy true) 0 (bs "i
f
k
i")).verdict = .fail ∧ (run (toy true) 0 (bs "i
f
k
i")).state = 1 := by decide

/-- A failure in setup fails the run at once (whatever ContinueOnError says), as line 0, and no
line is executed. -/
theorem setup_failure (c : Config σ) (s : σ) (script : Bytes) :
    (runT c (.error s) script).verdict = .fail ∧ (runT c (.error s) script).reported = some 0 ∧
    (runT c (.error s) script).calls = [] ∧ (runT c (.error s) script).state = s := by
  have : Gen.TsRun.setupFailureFailsNow = true := rfl
  simp [runT, this]

example : (runT (toy true) (.error 3) (bs "i\n")).state = 3 := by decide

/-! ### the standalone command -/

/-- `testscript files…` exits 0 exactly when no script failed (a skipped script is not a failure;
a panic that is not one of runT's sentinels kills the process with status 2). -/
theorem cli_exit (vs : List Verdict) : cli vs = 0 ↔ ∀ v ∈ vs, v ≠ .fail ∧ v ≠ .crash := by
  unfold cli
  exact cliAux_false cli_facts vs

theorem cli_exit_status (vs : List Verdict) (h : ∀ v ∈ vs, v ≠ .crash) :
    cli vs = (if .fail ∈ vs then 1 else 0) := by
  unfold cli
  have key : ∀ (vs : List Verdict) (b : Bool), (∀ v ∈ vs, v ≠ .crash) →
      cliAux b vs = (if b = true ∨ .fail ∈ vs then 1 else 0) := by
    intro vs
    induction vs with
    | nil => intro b _; cases b <;> simp [cliAux, cli_facts.failedExit]
    | cons v vs ih =>
      intro b hv
      have hv' : ∀ v ∈ vs, v ≠ .crash := fun v hm => hv v (List.mem_cons_of_mem _ hm)
      cases v
      · simp [cliAux, ih b hv']
      · simp [cliAux, cli_facts.failSetsFailed, ih true hv']
      · simp [cliAux, cli_facts.skipNotFailure, ih b hv']
      · exact absurd rfl (hv .crash (List.mem_cons_self ..))
  simpa using key vs false h

example : cli [.pass, .skip, .pass] = 0 ∧ cli [.pass, .fail, .skip] = 1 ∧ cli [.skip] = 0 := by decide

/-! ### the builtin table -/

/-- The model's builtin table has exactly the keys of `scriptCmds` in cmd.go (regenerated). -/
theorem table_complete (p : Cmds.P) :
    (Cmds.builtinTable p).map (·.1) = Gen.TsRun.scriptCmdNames.map lit := rfl

theorem table_complete_lookup (p : Cmds.P) (name : Bytes) :
    ((Cmds.config p).builtin name).isSome ↔ name ∈ Gen.TsRun.scriptCmdNames.map lit := by
  rw [← table_complete p]
  simp only [Cmds.config]
  generalize Cmds.builtinTable p = t
  induction t with
  | nil => simp [List.lookup]
  | cons e t ih =>
    obtain ⟨k, v⟩ := e
    simp only [List.lookup, List.map_cons, List.mem_cons]
    by_cases h : name = k
    · subst h; simp
    · have : (name == k) = false := by simpa using h
      simp [this, ih, h]

example : Gen.TsRun.scriptCmdNames.length = 24 := by decide

/-! ## second layer: the clauses of the property text, one by one

`later_lines_no_effect` ("no later line has any effect"), `continue_verdict` … ("with ContinueOnError
every line still runs and the run still fails"), `builtin_demand` … ("behaves as its line demands: it
succeeds, or with a leading ! it fails in the way that command defines" — for the concrete builtins),
`wait_demand` … (background commands are charged at the `wait`), `cli_exit_closed` (the standalone
command), `call_runs_lookup` / `builtin_never_shadowed` (Params.Cmds never replaces a builtin). -/

/-! ### after the first failure -/

/-- Without ContinueOnError nothing after the first failing line has any effect: two scripts that
agree up to and including that line give the same result in every component (verdict, reported
line, final state — file system, environment, buffers, background list —, the commands called,
`ts.lineno`), whatever follows the line in either. -/
theorem later_lines_no_effect (c : Config σ) (hc : c.continueOnError = false) (s s' : σ) (script script' : Bytes)
    (pre : List Bytes) (l : Bytes) (post post' : List Bytes)
    (hsplit : splitScript script = pre ++ l :: post) (hsplit' : splitScript script' = pre ++ l :: post')
    (hpre : okFold c s pre = some s') (hl : (lineOut c false s' l).out = .fatal) :
    run c s script = run c s script' := by
  unfold run
  rw [hsplit, hsplit', runLines_okFold loop_facts c pre (l :: post) 0 s s' hpre,
    runLines_okFold loop_facts c pre (l :: post') 0 s s' hpre, runLines_cons loop_facts, runLines_cons loop_facts, hl]
  simp [hc]

example : run (toy false) 0 (bs "i\nf\ni\ni\nk") = run (toy false) 0 (bs "i\nf\ns") ∧
    (run (toy false) 0 (bs "i\nf\ni\ni\nk")).state = 1 ∧ (run (toy false) 0 (bs "i\nf\ni\ni\nk")).calls.length = 2 := by
  refine ⟨later_lines_no_effect (toy false) rfl 0 1 _ _ [bs "i"] (bs "f") [bs "i", bs "i", bs "k"] [bs "s"]
    (by decide) (by decide) (by decide) (by decide), by decide, by decide⟩

/-! ### ContinueOnError, in full -/

/-- With ContinueOnError the loop executes the lines in order until one ends otherwise than `ok` /
`fatal` (`contTrace` lists the outcomes), and
* the verdict is a function of that list: a panic wins, else a T.Skip, else the run fails iff some
  executed line was fatal (or called T.FailNow), else it passes;
* the commands called are exactly those of the executed lines, in order, and `ts.lineno` is their number;
* every line of the script is executed unless the last executed one ended in `stop`, T.Skip,
  T.FailNow or a panic; all executed lines before the last ended `ok` or `fatal`. -/
theorem continue_verdict (c : Config σ) (hc : c.continueOnError = true) (s : σ) (script : Bytes) :
    (run c s script).verdict = traceVerdict false (contTrace c false s (splitScript script)) ∧
    (run c s script).calls =
      foldCalls c false s 0 ((splitScript script).take (contTrace c false s (splitScript script)).length) ∧
    (run c s script).lineno = (contTrace c false s (splitScript script)).length ∧
    ((contTrace c false s (splitScript script)).length = (splitScript script).length ∨
      ∃ o, (contTrace c false s (splitScript script)).getLast? = some o ∧ o ≠ .ok ∧ o ≠ .fatal) ∧
    (∀ o ∈ (contTrace c false s (splitScript script)).dropLast, o = .ok ∨ o = .fatal) := by
  unfold run
  obtain ⟨h1, h2, h3⟩ := runLines_contTrace loop_facts c hc (splitScript script) 0 false s
  exact ⟨h1, h2, by simpa using h3, contTrace_full_or_ended c _ false s, contTrace_init c _ false s⟩

example : contTrace (toy true) false 0 (splitScript (bs "i\nf\ni\nf\ni")) = [.ok, .fatal, .ok, .fatal, .ok] ∧
    contTrace (toy true) false 0 (splitScript (bs "i\nf\ni\ns\ni")) = [.ok, .fatal, .ok, .stop] ∧
    (run (toy true) 0 (bs "i\nf\ni\ns\ni")).verdict = .fail ∧
    contTrace (toy true) false 0 (splitScript (bs "i\nf\nk\ni")) = [.ok, .fatal, .failNow] ∧
    contTrace (toy true) false 0 (splitScript (bs "i\nk\ni")) = [.ok, .skip] := by decide

/-- If no command calls T.Skip once `ts.failed` is set (true of every builtin: `builtins_honour_failed`),
then with ContinueOnError the run FAILS exactly when some executed line was fatal or called T.FailNow
and none panicked; it is SKIPPED exactly when a line called T.Skip and none panicked — and then no
executed line was fatal; it PASSES exactly when every executed line ended `ok` or `stop`. -/
theorem continue_fail_iff (c : Config σ) (hc : c.continueOnError = true) (hh : HonoursFailed c) (s : σ) (script : Bytes) :
    let t := contTrace c false s (splitScript script)
    ((run c s script).verdict = .fail ↔ (.fatal ∈ t ∨ .failNow ∈ t) ∧ .crash ∉ t) ∧
    ((run c s script).verdict = .skip ↔ .skip ∈ t ∧ .crash ∉ t) ∧
    (.skip ∈ t → .fatal ∉ t) ∧
    ((run c s script).verdict = .pass ↔ ∀ o ∈ t, o = .ok ∨ o = .stop) := by
  intro t
  have hv := (continue_verdict c hc s script).1
  have hsk : Outcome.fatal ∈ t → Outcome.skip ∉ t := contTrace_fatal_no_skip line_facts c hh _ false s
  rw [hv]
  show (traceVerdict false t = _ ↔ _) ∧ (traceVerdict false t = _ ↔ _) ∧ _ ∧ (traceVerdict false t = _ ↔ _)
  refine ⟨?_, ?_, fun h1 h2 => hsk h2 h1, ?_⟩
  · unfold traceVerdict
    by_cases h1 : Outcome.crash ∈ t <;> by_cases h2 : Outcome.skip ∈ t <;> by_cases h3 : Outcome.fatal ∈ t <;>
      by_cases h4 : Outcome.failNow ∈ t <;> simp_all
    -- skip and failNow cannot both occur: each is the last entry
    · have hlast := contTrace_init c (splitScript script) false s
      have : ∀ o ∈ t, o ≠ .ok → o ≠ .fatal → t.getLast? = some o := by
        intro o ho h5 h6
        rcases List.eq_nil_or_concat t with hn | ⟨t', x, hx⟩
        · rw [hn] at ho; simp at ho
        · have hd : t.dropLast = t' := by rw [hx]; simp
          rw [hx] at ho
          simp only [List.concat_eq_append, List.mem_append, List.mem_singleton] at ho
          rcases ho with ho | ho
          · have := hlast o (by show o ∈ t.dropLast; rw [hd]; exact ho)
            rcases this with h | h <;> simp_all
          · rw [hx, ho]; simp
      have a := this .skip h2 (by simp) (by simp)
      have b := this .failNow h4 (by simp) (by simp)
      rw [a] at b; simp at b
  · unfold traceVerdict
    by_cases h1 : Outcome.crash ∈ t <;> by_cases h2 : Outcome.skip ∈ t <;> by_cases h3 : Outcome.fatal ∈ t <;>
      by_cases h4 : Outcome.failNow ∈ t <;> simp_all
  · unfold traceVerdict
    constructor
    · intro h o ho
      by_cases h1 : Outcome.crash ∈ t <;> by_cases h2 : Outcome.skip ∈ t <;> by_cases h3 : Outcome.fatal ∈ t <;>
        by_cases h4 : Outcome.failNow ∈ t <;> simp_all
      cases o <;> simp_all
    · intro h
      have h1 : Outcome.crash ∉ t := fun hm => by have := h _ hm; simp at this
      have h2 : Outcome.skip ∉ t := fun hm => by have := h _ hm; simp at this
      have h3 : Outcome.fatal ∉ t := fun hm => by have := h _ hm; simp at this
      have h4 : Outcome.failNow ∉ t := fun hm => by have := h _ hm; simp at this
      simp [h1, h2, h3, h4]

example : HonoursFailed (Cmds.config ⟨true, false, false, false, true, true, [], []⟩) := builtins_honour_failed _

/-- For the documented command set (the builtin table as modelled plus the harness's `Params.Cmds`):
with ContinueOnError the run FAILS exactly when some executed line was fatal (and nothing fell outside
the modelled fragment) — T.FailNow is only ever called by `skip`, and only after such a line. -/
theorem continue_fail_iff_builtins (p : Cmds.P) (hc : p.continueOnError = true) (s : Cmds.St) (script : Bytes) :
    let t := contTrace (Cmds.config p) false s (splitScript script)
    ((run (Cmds.config p) s script).verdict = .fail ↔ .fatal ∈ t ∧ .crash ∉ t) ∧
    (.failNow ∈ t → .fatal ∈ t) := by
  intro t
  have h := (continue_fail_iff (Cmds.config p) hc (builtins_honour_failed p) s script).1
  have hfn : Outcome.failNow ∈ t → Outcome.fatal ∈ t :=
    contTrace_failNow_fatal line_facts _ (Cmds.config_failNow_only_after_failure line_facts p) _ s
  refine ⟨?_, hfn⟩
  rw [h]
  constructor
  · rintro ⟨h1 | h1, h2⟩
    · exact ⟨h1, h2⟩
    · exact ⟨hfn h1, h2⟩
  · rintro ⟨h1, h2⟩; exact ⟨Or.inl h1, h2⟩

/-- `testscript -continue` on "exists nothing / skip" (the repaired defect): line 1 fatal, `skip` calls
T.FailNow, the run fails; "exists nothing / stop / exists ." fails too and line 3 is not executed. -/
example :
    let p : Cmds.P := ⟨true, false, false, false, false, false, [], []⟩
    contTrace (Cmds.config p) false Cmds.initSt (splitScript (lit "exists nothing\nskip\n")) = [.fatal, .failNow] ∧
    (run (Cmds.config p) Cmds.initSt (lit "exists nothing\nskip\n")).verdict = .fail ∧
    contTrace (Cmds.config p) false Cmds.initSt (splitScript (lit "exists nothing\nstop\nexists .\n")) = [.fatal, .stop] ∧
    (run (Cmds.config p) Cmds.initSt (lit "exists nothing\nstop\nexists .\n")).verdict = .fail := by
  decide +kernel

/-- ContinueOnError changes nothing as long as no executed line is fatal: the two runs agree in every
component ("else pass / skip as without it"). -/
theorem continue_only_matters_after_failure (c : Config σ) (s : σ) (script : Bytes)
    (h : .fatal ∉ contTrace c false s (splitScript script)) :
    run { c with continueOnError := true } s script = run { c with continueOnError := false } s script := by
  unfold run
  rw [runLines_continue_irrelevant loop_facts c { c with continueOnError := true } rfl rfl rfl rfl _ 0 false s h,
    runLines_continue_irrelevant loop_facts c { c with continueOnError := false } rfl rfl rfl rfl _ 0 false s h]

example : Outcome.fatal ∉ contTrace (toy true) false 0 (splitScript (bs "i\n[n] f\ni\nk\nf")) ∧
    (run (toy false) 0 (bs "i\n[n] f\ni\nk\nf")).verdict = .skip := by decide

/-! ### what each builtin demands -/

/-- For every builtin of the modelled fragment (all of cmd.go's table but chmod, symlink, ttyin,
unix2dos) the function registered under its name satisfies the demand rule `Cmds.demandTable` lists
for it:
* `cd cp env kill mkdir mv rm skip stdin stop unquote wait`: no `!` — a negated use fails the line,
  state untouched, whatever the arguments (`Cmds.NoBang`); for `cd`, `env`, `stdin`, `stop`, `skip` also
  the plain use (`Cmds.CdDemand`: the directory exists; `EnvDemand`: never fails; `StdinDemand`: the file
  can be read; `StopDemand` / `SkipDemand`: at most one argument, else a usage failure);
* `exists` (`Cmds.ExistsDemand`): every file is judged on its own — `! exists a b` needs NEITHER;
* `cmp`, `cmpenv` (`Cmds.CmpDemand`): equal texts, resp. different texts under `!`; usage errors and
  unreadable files fail either way;
* `stdout`, `stderr`, `ttyout`, `grep` (`Cmds.MatchDemand`, `Cmds.GrepDemand`): a match, resp. no match
  under `!`; `-count=N` exactly N ≥ 1 matches and no `!`;
* `exec` (`Cmds.ExecDemand`): exit status 0, resp. ≠ 0 (or not found) under `!`; `exec … &` records the `!`;
* `wait` (`Cmds.WaitDemand`): every background command ended as its own line demanded. -/
theorem builtin_demand (p : Cmds.P) :
    ∀ e ∈ Cmds.demandTable p, ∀ f, (Cmds.config p).builtin e.1 = some f → e.2 f :=
  Cmds.builtin_demand_table rfl rfl rfl p

/-- the table of `builtin_demand` names every key of `scriptCmds` (regenerated) but four -/
theorem demand_table_complete (p : Cmds.P) :
    ∀ n ∈ Gen.TsRun.scriptCmdNames,
      lit n ∈ (Cmds.demandTable p).map (·.1) ∨ n ∈ ["chmod", "symlink", "ttyin", "unix2dos"] := by
  rw [Cmds.demandTable_keys]
  decide +kernel

example (p : Cmds.P) : (Cmds.config p).builtin (lit "exists") = some Cmds.cmdExists ∧
    (lit "exists", Cmds.ExistsDemand) ∈ Cmds.demandTable p :=
  ⟨Cmds.builtin_at p (lit "exists") Cmds.cmdExists (by simp [Cmds.builtinTable]), by simp [Cmds.demandTable]⟩

example :
    (Cmds.cmdCd false Cmds.initSt false [lit "nodir"]).2 = .fatal ∧ (Cmds.cmdCd false Cmds.initSt false [lit ".tmp"]).2 = .ok ∧
    (Cmds.cmdStop false Cmds.initSt false [lit "m"]).2 = .stop ∧ (Cmds.cmdStop false Cmds.initSt false [lit "m", lit "n"]).2 = .fatal ∧
    (Cmds.cmdSkip true Cmds.initSt false []).2 = .failNow ∧ (Cmds.cmdStdin false Cmds.initSt false [lit "nofile"]).2 = .fatal := by
  decide +kernel

/-- The commands without `!`, at the level of a script line: `! cmd args…` ends `fatal`, the state is
untouched, whatever the arguments, whatever `Params.Cmds` holds. -/
theorem no_bang_commands (p : Cmds.P) (name : Bytes)
    (hn : name ∈ ["cd", "cp", "env", "kill", "mkdir", "mv", "rm", "skip", "stdin", "stop", "unquote", "wait"].map lit)
    (failed : Bool) (s : Cmds.St) (rest : List Bytes) :
    ∃ f, (Cmds.config p).builtin name = some f ∧ f failed s true rest = (s, .fatal) ∧
      runArgs (Cmds.config p) failed s ([BANG] :: name :: rest) = ⟨s, .fatal, some (true, name, rest)⟩ := by
  have key : ∀ f, (Cmds.config p).builtin name = some f → Cmds.NoBang f →
      ∃ f, (Cmds.config p).builtin name = some f ∧ f failed s true rest = (s, .fatal) ∧
        runArgs (Cmds.config p) failed s ([BANG] :: name :: rest) = ⟨s, .fatal, some (true, name, rest)⟩ := by
    intro f hf hnb
    refine ⟨f, hf, hnb failed s rest, ?_⟩
    rw [(neg_passed (Cmds.config p) failed s name rest).1 f (lookup_builtin line_facts _ _ _ hf), hnb failed s rest]
  simp only [List.map_cons, List.map_nil, List.mem_cons, List.mem_nil_iff, or_false] at hn
  have tbl := builtin_demand p
  rcases hn with rfl | rfl | rfl | rfl | rfl | rfl | rfl | rfl | rfl | rfl | rfl | rfl
  · have hf := Cmds.builtin_at p (lit "cd") Cmds.cmdCd (by simp [Cmds.builtinTable])
    exact key _ hf (tbl (lit "cd", Cmds.CdDemand) (by simp [Cmds.demandTable]) _ hf).1
  · have hf := Cmds.builtin_at p (lit "cp") Cmds.cmdCp (by simp [Cmds.builtinTable])
    exact key _ hf (tbl (lit "cp", Cmds.NoBang) (by simp [Cmds.demandTable]) _ hf)
  · have hf := Cmds.builtin_at p (lit "env") Cmds.cmdEnv (by simp [Cmds.builtinTable])
    exact key _ hf (tbl (lit "env", Cmds.EnvDemand) (by simp [Cmds.demandTable]) _ hf).1
  · have hf := Cmds.builtin_at p (lit "kill") Cmds.cmdKill (by simp [Cmds.builtinTable])
    exact key _ hf (tbl (lit "kill", Cmds.NoBang) (by simp [Cmds.demandTable]) _ hf)
  · have hf := Cmds.builtin_at p (lit "mkdir") Cmds.cmdMkdir (by simp [Cmds.builtinTable])
    exact key _ hf (tbl (lit "mkdir", Cmds.NoBang) (by simp [Cmds.demandTable]) _ hf)
  · have hf := Cmds.builtin_at p (lit "mv") Cmds.cmdMv (by simp [Cmds.builtinTable])
    exact key _ hf (tbl (lit "mv", Cmds.NoBang) (by simp [Cmds.demandTable]) _ hf)
  · have hf := Cmds.builtin_at p (lit "rm") Cmds.cmdRm (by simp [Cmds.builtinTable])
    exact key _ hf (tbl (lit "rm", Cmds.NoBang) (by simp [Cmds.demandTable]) _ hf)
  · have hf := Cmds.builtin_at p (lit "skip") Cmds.cmdSkip (by simp [Cmds.builtinTable])
    exact key _ hf (tbl (lit "skip", Cmds.SkipDemand) (by simp [Cmds.demandTable]) _ hf).1
  · have hf := Cmds.builtin_at p (lit "stdin") Cmds.cmdStdin (by simp [Cmds.builtinTable])
    exact key _ hf (tbl (lit "stdin", Cmds.StdinDemand) (by simp [Cmds.demandTable]) _ hf).1
  · have hf := Cmds.builtin_at p (lit "stop") Cmds.cmdStop (by simp [Cmds.builtinTable])
    exact key _ hf (tbl (lit "stop", Cmds.StopDemand) (by simp [Cmds.demandTable]) _ hf).1
  · have hf := Cmds.builtin_at p (lit "unquote") Cmds.cmdUnquote (by simp [Cmds.builtinTable])
    exact key _ hf (tbl (lit "unquote", Cmds.NoBang) (by simp [Cmds.demandTable]) _ hf)
  · have hf := Cmds.builtin_at p (lit "wait") Cmds.cmdWait (by simp [Cmds.builtinTable])
    exact key _ hf (tbl (lit "wait", Cmds.WaitDemand) (by simp [Cmds.demandTable]) _ hf).1

example : (runArgs (Cmds.config ⟨false, false, false, false, false, false, [], []⟩) false Cmds.initSt
    [[BANG], lit "mkdir", lit "d"]).out = .fatal := by decide +kernel

/-- The commands with `!`: the function registered under each name satisfies the rule spelled out in
its `…Demand` definition (GIV.Lemmas.TsRunMore). -/
theorem negatable_commands (p : Cmds.P) :
    (∃ f, (Cmds.config p).builtin (lit "exists") = some f ∧ Cmds.ExistsDemand f) ∧
    (∃ f, (Cmds.config p).builtin (lit "cmp") = some f ∧ Cmds.CmpDemand p false f) ∧
    (∃ f, (Cmds.config p).builtin (lit "cmpenv") = some f ∧ Cmds.CmpDemand p true f) ∧
    (∃ f, (Cmds.config p).builtin (lit "stdout") = some f ∧ Cmds.MatchDemand (·.stdout) f) ∧
    (∃ f, (Cmds.config p).builtin (lit "stderr") = some f ∧ Cmds.MatchDemand (·.stderr) f) ∧
    (∃ f, (Cmds.config p).builtin (lit "ttyout") = some f ∧ Cmds.MatchDemand (fun _ => []) f) ∧
    (∃ f, (Cmds.config p).builtin (lit "grep") = some f ∧ Cmds.GrepDemand f) ∧
    (∃ f, (Cmds.config p).builtin (lit "exec") = some f ∧ Cmds.ExecDemand f) := by
  have tbl := builtin_demand p
  refine ⟨?_, ?_, ?_, ?_, ?_, ?_, ?_, ?_⟩
  · have hf := Cmds.builtin_at p (lit "exists") Cmds.cmdExists (by simp [Cmds.builtinTable])
    exact ⟨_, hf, tbl (lit "exists", Cmds.ExistsDemand) (by simp [Cmds.demandTable]) _ hf⟩
  · have hf := Cmds.builtin_at p (lit "cmp") (Cmds.cmdCmp p) (by simp [Cmds.builtinTable])
    exact ⟨_, hf, tbl (lit "cmp", Cmds.CmpDemand p false) (by simp [Cmds.demandTable]) _ hf⟩
  · have hf := Cmds.builtin_at p (lit "cmpenv") (Cmds.cmdCmpenv p) (by simp [Cmds.builtinTable])
    exact ⟨_, hf, tbl (lit "cmpenv", Cmds.CmpDemand p true) (by simp [Cmds.demandTable]) _ hf⟩
  · have hf := Cmds.builtin_at p (lit "stdout") Cmds.cmdStdout (by simp [Cmds.builtinTable])
    exact ⟨_, hf, tbl (lit "stdout", Cmds.MatchDemand (·.stdout)) (by simp [Cmds.demandTable]) _ hf⟩
  · have hf := Cmds.builtin_at p (lit "stderr") Cmds.cmdStderr (by simp [Cmds.builtinTable])
    exact ⟨_, hf, tbl (lit "stderr", Cmds.MatchDemand (·.stderr)) (by simp [Cmds.demandTable]) _ hf⟩
  · have hf := Cmds.builtin_at p (lit "ttyout") Cmds.cmdTtyout (by simp [Cmds.builtinTable])
    exact ⟨_, hf, tbl (lit "ttyout", Cmds.MatchDemand (fun _ => [])) (by simp [Cmds.demandTable]) _ hf⟩
  · have hf := Cmds.builtin_at p (lit "grep") Cmds.cmdGrep (by simp [Cmds.builtinTable])
    exact ⟨_, hf, tbl (lit "grep", Cmds.GrepDemand) (by simp [Cmds.demandTable]) _ hf⟩
  · have hf := Cmds.builtin_at p (lit "exec") Cmds.cmdExec (by simp [Cmds.builtinTable])
    exact ⟨_, hf, tbl (lit "exec", Cmds.ExecDemand) (by simp [Cmds.demandTable]) _ hf⟩

/-- `a` exists, `b` does not: `exists a b` fails, `! exists a b` fails too, `! exists b c` is fine;
`! cmp` of equal files fails; `! stdout x` on "xyx" fails, `stdout -count=2 x` is fine, negated it is a
usage failure; `! exec vh exit:3` is fine, `exec vh exit:3` fails. -/
example :
    let s : Cmds.St := { Cmds.initSt with fs := ⟨[([lit "a"], lit "t"), ([lit "a2"], lit "t")], [[lit ".tmp"]]⟩, stdout := lit "xyx" }
    let p : Cmds.P := ⟨false, false, false, false, false, false, [], []⟩
    (Cmds.cmdExists false s false [lit "a", lit "b"]).2 = .fatal ∧
    (Cmds.cmdExists false s true [lit "a", lit "b"]).2 = .fatal ∧
    (Cmds.cmdExists false s true [lit "b", lit "c"]).2 = .ok ∧
    (Cmds.cmdExists false s false [lit "a", lit "a2"]).2 = .ok ∧
    (Cmds.cmdCmp p false s true [lit "a", lit "a2"]).2 = .fatal ∧
    (Cmds.cmdCmp p false s false [lit "a", lit "a2"]).2 = .ok ∧
    (Cmds.cmdCmp p false s true [lit "a", lit "nofile"]).2 = .fatal ∧
    (Cmds.cmdStdout false s true [lit "x"]).2 = .fatal ∧
    (Cmds.cmdStdout false s true [lit "q"]).2 = .ok ∧
    (Cmds.cmdStdout false s false [lit "-count=2", lit "x"]).2 = .ok ∧
    (Cmds.cmdStdout false s true [lit "-count=2", lit "q"]).2 = .fatal ∧
    (Cmds.cmdExec false s true [lit "vh", lit "exit:3"]).2 = .ok ∧
    (Cmds.cmdExec false s false [lit "vh", lit "exit:3"]).2 = .fatal ∧
    (Cmds.cmdExec false s true [lit "nosuchprog-zz"]).2 = .ok := by decide +kernel

/-! ### background commands are charged at the `wait` -/

/-- `wait`: when every outstanding background command has ended (in a way that does not depend on
timing), the line ends `ok` exactly when EACH ended as the `exec … &` line that started it demands —
exit status 0 without `!`, a failure with it; then the outputs joined in order become stdout / stderr
and `ts.background` is empty.  A single one that ended against its line makes the `wait` line fail
(nothing assigned, `ts.background` kept).  (Converse of `wait_only_if_background_ok`.) -/
theorem wait_demand (failed : Bool) (s : Cmds.St) (hs : Cmds.Settled s.bg) :
    ((Cmds.cmdWait failed s false []).2 = .ok ↔ ∀ b ∈ s.bg, b.result ≠ some b.neg) ∧
    ((Cmds.cmdWait failed s false []).2 = .fatal ↔ ∃ b ∈ s.bg, b.result = some b.neg) ∧
    ((Cmds.cmdWait failed s false []).2 = .ok →
      Cmds.cmdWait failed s false [] =
        ({ s with stdout := (s.bg.map (·.out)).flatten, stderr := (s.bg.map (·.err)).flatten, bg := [] }, .ok)) ∧
    ((Cmds.cmdWait failed s false []).2 = .fatal → Cmds.cmdWait failed s false [] = (s, .fatal)) := by
  rw [Cmds.wait_demand failed s hs]
  by_cases h : s.bg.all Cmds.bgOk = true
  · have h' := h
    simp only [List.all_eq_true, Cmds.bgOk, bne_iff_ne] at h'
    simp only [h, if_true, true_iff, reduceCtorEq, false_iff, not_exists, not_and, forall_const, false_imp_iff, and_true]
    exact ⟨h', h'⟩
  · have h' : ∃ b ∈ s.bg, b.result = some b.neg := by
      simpa [Cmds.bgOk] using h
    simp only [h, Bool.false_eq_true, if_false, reduceCtorEq, false_iff, true_iff, false_imp_iff, forall_const, and_true]
    refine ⟨?_, h'⟩
    obtain ⟨b, hb, hr⟩ := h'
    intro hall
    exact hall b hb hr

/-- `exec vh exit:1 &`, `! exec vh exit:1 &`, `exec vh &` (status 0) and then `wait`. -/
example :
    let bg (neg : Bool) (st : Nat) : Cmds.Bg := ⟨[], neg, [], [], st, false, false⟩
    Cmds.Settled [bg true 1, bg false 0] ∧
    (Cmds.cmdWait false { Cmds.initSt with bg := [bg true 1, bg false 0] } false []).2 = .ok ∧
    (Cmds.cmdWait false { Cmds.initSt with bg := [bg true 1, bg false 1] } false []).2 = .fatal := by
  refine ⟨?_, by decide, by decide⟩
  intro b hb
  simp only [List.mem_cons, List.mem_nil_iff, or_false] at hb
  rcases hb with rfl | rfl <;> decide

/-- `wait name`: stdout / stderr become the named command's whatever its status; the line ends `ok`
exactly when that command ended as its `exec … &name&` line demanded, and only then is the entry
removed from `ts.background`; an unknown name fails the line; `! wait` is unsupported. -/
theorem wait_name_demand (failed : Bool) (s : Cmds.St) (name : Bytes) :
    (Cmds.findBg s.bg name = none → Cmds.cmdWait failed s false [name] = (s, .fatal)) ∧
    (∀ b ok, Cmds.findBg s.bg name = some b → b.result = some ok →
      Cmds.cmdWait failed s false [name] =
        if ok = b.neg then ({ s with stdout := b.out, stderr := b.err }, .fatal)
        else ({ s with stdout := b.out, stderr := b.err, bg := Cmds.removeBg s.bg name }, .ok)) ∧
    (∀ args, Cmds.cmdWait failed s true args = (s, .fatal)) :=
  ⟨(Cmds.wait_one_demand failed s name).1, (Cmds.wait_one_demand failed s name).2, fun args => Cmds.noBang_wait failed s args⟩

example :
    let b : Cmds.Bg := ⟨lit "x", true, lit "o", [], 2, false, false⟩
    Cmds.findBg [b] (lit "x") = some b ∧ b.result = some false ∧
    (Cmds.cmdWait false { Cmds.initSt with bg := [b] } false [lit "x"]).2 = .ok ∧
    (Cmds.cmdWait false { Cmds.initSt with bg := [b] } false [lit "x"]).1.bg = [] ∧
    (Cmds.cmdWait false { Cmds.initSt with bg := [b] } false [lit "x"]).1.stdout = lit "o" := by decide +kernel

/-- `kill` then `wait`: `kill` (no name) signals every background command and ends `ok`; a killed
command counts as FAILED, so the `wait` that follows ends `ok` exactly when every one of them was
started under `!` (`! exec … &`), and fails the line as soon as one was not.  (Fragment: helpers that
block until signalled and have not been signalled yet — anything else is timing-dependent.) -/
theorem kill_then_wait (failed : Bool) (s : Cmds.St) (h : ∀ b ∈ s.bg, b.blocks = true ∧ b.signalled = false) :
    Cmds.cmdKill failed s false [] = ({ s with bg := s.bg.map (fun b => { b with signalled := true }) }, .ok) ∧
    ((Cmds.cmdWait failed (Cmds.cmdKill failed s false []).1 false []).2 = .ok ↔ ∀ b ∈ s.bg, b.neg = true) ∧
    ((Cmds.cmdWait failed (Cmds.cmdKill failed s false []).1 false []).2 = .fatal ↔ ∃ b ∈ s.bg, b.neg = false) :=
  ⟨Cmds.kill_all failed s h, (Cmds.kill_then_wait failed s h).1, (Cmds.kill_then_wait failed s h).2⟩

/-- `! exec vh block &` / `kill` / `wait` is fine; `exec vh block &` / `kill` / `wait` fails at the `wait`. -/
example :
    let blk (neg : Bool) : Cmds.Bg := ⟨[], neg, [], [], 0, true, false⟩
    (Cmds.cmdWait false (Cmds.cmdKill false { Cmds.initSt with bg := [blk true] } false []).1 false []).2 = .ok ∧
    (Cmds.cmdWait false (Cmds.cmdKill false { Cmds.initSt with bg := [blk false] } false []).1 false []).2 = .fatal := by
  decide

/-- The status check is what makes a `wait` fail: `waitBackground(false)` — the form `run` uses for
the commands still in the background when the script ends or stops — never calls Fatalf, so a
background command nobody waited for is not charged to any line. -/
theorem unchecked_wait_never_fails (interrupted : Bool) (bgs : List Cmds.Bg) (o e : Bytes) :
    Cmds.waitAll interrupted false bgs o e ≠ some none :=
  Cmds.waitAll_unchecked interrupted bgs o e

example : Cmds.waitAll true false [⟨[], false, [], [], 1, false, false⟩] [] [] = some (some ([], [])) := by decide

/-! ### the standalone command, in closed form -/

/-- The exit status of `testscript files…` depends only on WHICH verdicts occur: 2 if some script
panicked, else 1 if some script failed, else 0 — skipped and passed scripts never matter. -/
theorem cli_exit_closed (vs : List Verdict) :
    cli vs = (if .crash ∈ vs then 2 else if .fail ∈ vs then 1 else 0) := by
  unfold cli
  simpa using cliAux_closed cli_facts vs false

/-- … hence it is invariant under reordering and under repeating or dropping duplicates of verdicts. -/
theorem cli_exit_set (vs ws : List Verdict) (h : ∀ v, v ∈ vs ↔ v ∈ ws) : cli vs = cli ws := by
  rw [cli_exit_closed, cli_exit_closed]
  simp only [h .crash, h .fail]

example : cli [.pass, .fail, .skip, .fail] = 1 ∧ cli [.fail, .pass, .skip] = 1 ∧ cli [.skip, .crash, .fail] = 2 ∧
    cli [] = 0 := by decide

/-! ### Params.Cmds never replaces a builtin -/

/-- A line that recorded the call `(neg, name, args)` ran exactly the function `lookup` yields for
`name` — the builtin if there is one, the `Params.Cmds` entry only otherwise — on exactly `neg` and
`args`; the line's state and outcome are that call's. -/
theorem call_runs_lookup (c : Config σ) (failed : Bool) (s : σ) (l : Bytes) (neg : Bool) (name : Bytes) (rest : List Bytes)
    (h : (lineOut c failed s l).call = some (neg, name, rest)) :
    ∃ f, lookup c name = some f ∧ (lineOut c failed s l).state = (f failed s neg rest).1 ∧
      (lineOut c failed s l).out = (f failed s neg rest).2 ∧
      (∀ g, c.builtin name = some g → f = g) := by
  obtain ⟨f, hf, h1, h2⟩ := lineOut_call line_facts c failed s l neg name rest h
  refine ⟨f, hf, h1, h2, ?_⟩
  intro g hg
  rw [lookup_builtin line_facts c name g hg] at hf
  exact (Option.some.inj hf).symm

/-- The harness registers a custom command under the builtin name `exists`; it is never reached:
whatever `Params.Cmds` is switched on, a line that calls `exists` runs `cmdExists`. -/
theorem builtin_never_shadowed (p : Cmds.P) (failed : Bool) (s : Cmds.St) (l : Bytes) (neg : Bool) (rest : List Bytes)
    (h : (lineOut (Cmds.config p) failed s l).call = some (neg, lit "exists", rest)) :
    (Cmds.customTable { p with customCmds := true }).lookup (lit "exists") = some Cmds.cmdShadow ∧
    (lineOut (Cmds.config p) failed s l).state = (Cmds.cmdExists failed s neg rest).1 ∧
    (lineOut (Cmds.config p) failed s l).out = (Cmds.cmdExists failed s neg rest).2 := by
  obtain ⟨f, _, h1, h2, h3⟩ := call_runs_lookup (Cmds.config p) failed s l neg (lit "exists") rest h
  have := h3 Cmds.cmdExists (Cmds.builtin_at p (lit "exists") Cmds.cmdExists (by simp [Cmds.builtinTable]))
  subst this
  refine ⟨?_, h1, h2⟩
  have hne : ∀ n ∈ ["probe", "failcmd", "put"], (lit "exists" == lit n) = false := by decide +kernel
  simp [Cmds.customTable, List.lookup, hne]

example : (lineOut (toy false) false 0 (bs "i")).call = some (false, bs "i", []) ∧
    (lineOut (toy false) false 0 (bs "i")).state = 1 := by decide

end GIV.C01
