/-
  GIV.GoLibFmt — run-time library of the Go→Lean translator, part "fmt": the trusted meaning of the
  verb `%d` of `fmt.Fprintf` for an `int` argument (no flags, no width): the decimal digits, most
  significant first, no leading zeros (`0` is "0"), a leading '-' for a negative number.  The digit
  loop is the one of core's `Nat.toDigits 10` (`Nat.repr`), producing bytes.  Core Lean only.
-/
import GIV.GoLib

namespace GIV.GoLib
open GIV

/-- the decimal digits of `n` in front of `acc`; the first argument bounds the number of digits. -/
def fmtNatAux : Nat → Nat → Bytes → Bytes
  | 0, _, acc => acc
  | fuel + 1, n, acc =>
    if n / 10 = 0 then (48 + n % 10).toUInt8 :: acc
    else fmtNatAux fuel (n / 10) ((48 + n % 10).toUInt8 :: acc)

/-- `%d` of a non-negative number (`n + 1` digits always suffice). -/
def fmtNat (n : Nat) : Bytes := fmtNatAux (n + 1) n []

/-- `%d` -/
def fmtInt (i : Int) : Bytes := if i < 0 then 45 :: fmtNat i.natAbs else fmtNat i.toNat

example : fmtInt 0 = [48] := by decide
example : fmtInt 1203 = [49, 50, 48, 51] := by decide
example : fmtInt (-45) = [45, 52, 53] := by decide
/-- agreement with core's `Nat.repr` on a sample (the general statement is not needed). -/
example : (fmtNat 9075).map (fun b => Char.ofNat b.toNat) = (Nat.repr 9075).toList := by decide

end GIV.GoLib
