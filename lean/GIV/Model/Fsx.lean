/-
  GIV.Model.Fsx — executable model for property C15:

  * `cleanPath`   = path/filepath.Clean for Unix paths (separator '/', no volume names), written as the
                    component-stack algorithm (split at '/', fold, join), and `cleanBytes`, the transcription
                    of Go's byte loop (lazy buffer replaced by a plain one).  GIV/Lemmas/FsxCleanBytes.lean
                    proves them equal; the correspondence run compares both with the real filepath.Clean
                    (exhaustive over a segment alphabet + random byte strings).
  * `FS`          = abstract file system: finite map (association list, first binding wins) from a
                    normalised absolute path (list of components, `[]` = "/") to directory | file+content.
                    `mkdirAll` (os.MkdirAll), `openFile` (open(2) with O_CREAT/O_EXCL/O_TRUNC), `writeData`.
  * `writeArchive`= txtar.Write (/repo/txtar/archive.go): per entry Clean, rejection test (regenerated:
                    `Gen.Fsx.writeRejects`), Join, MkdirAll(Dir), OpenFile, Write; stops at the first error;
                    whatever was created before the error stays.
  * `saveDir`     = cmd/txtar-c (filepath.Walk callback) as a fold over a tree value.
  * `extract`     = cmd/txtar-x: Parse, then Write.  txtar-x does NOT unquote; the "unquote NAME" comment
                    lines that txtar-c emits are meant for the consumer (testscript's `unquote` command).

  No symbolic links, no permissions, no Windows path rules.
-/
import GIV.Basic
import GIV.Gen.Fsx
import GIV.Model.Txtar

namespace GIV.Fsx
open GIV GIV.Txtar

/-! ### splitting and joining at '/' -/

def SEP : UInt8 := 47
def DOT : UInt8 := 46

/-- `(first component, remaining components)` of `strings.Split(s, "/")`. -/
def splitAux : Bytes → Bytes × List Bytes
  | [] => ([], [])
  | b :: rest =>
    if b = SEP then ([], (splitAux rest).1 :: (splitAux rest).2)
    else (b :: (splitAux rest).1, (splitAux rest).2)

/-- `strings.Split(s, "/")` (never empty: `""` gives `[""]`). -/
def splitSep (s : Bytes) : List Bytes := (splitAux s).1 :: (splitAux s).2

/-- `strings.Join(cs, "/")`. -/
def joinSep : List Bytes → Bytes
  | [] => []
  | [c] => c
  | c :: d :: cs => c ++ SEP :: joinSep (d :: cs)

/-! ### filepath.Clean -/

def dotB : Bytes := [DOT]
def dotdotB : Bytes := [DOT, DOT]

/-- One path element against the output stack `st` (last written component first).
Mirrors the `switch` in Clean's loop: empty and "." elements are dropped; ".." removes the last
written component when there is one that is not itself part of the leading "../.." prefix
(`out.w > dotdot`), is appended when the path is not rooted, and is dropped at the root. -/
def cleanStep (rooted : Bool) (st : List Bytes) (c : Bytes) : List Bytes :=
  if c = [] ∨ c = dotB then st
  else if c = dotdotB then
    match st with
    | [] => if rooted then [] else [dotdotB]
    | top :: rest => if rooted = false ∧ top = dotdotB then dotdotB :: st else rest
  else c :: st

def cleanComps (rooted : Bool) (st : List Bytes) (cs : List Bytes) : List Bytes :=
  cs.foldl (cleanStep rooted) st

/-- `filepath.Clean(p)` on Unix. -/
def cleanPath (p : Bytes) : Bytes :=
  if p = [] then dotB else
  if p.head? = some SEP then SEP :: joinSep (cleanComps true [] (splitSep p)).reverse
  else
    let out := (cleanComps false [] (splitSep p)).reverse
    if out = [] then dotB else joinSep out

/-! ### filepath.Clean, byte loop

The same function as Go writes it (internal/filepathlite.Clean with the lazy buffer replaced by a plain
one, kept reversed: last written byte first).  `GIV/Lemmas/FsxCleanBytes.lean` proves it equal to `cleanPath`. -/

/-- `out.w--; for out.w > dotdot && !IsPathSeparator(out.index(out.w)) { out.w-- }` -/
def backtrack (dotdot : Nat) : Bytes → Bytes
  | [] => []
  | x :: ro => if dotdot < ro.length ∧ x ≠ SEP then backtrack dotdot ro else ro

/-- `for ; r < n && !IsPathSeparator(path[r]); r++ { out.append(path[r]) }`: `(unread input, buffer)`. -/
def copyElem : Bytes → Bytes → Bytes × Bytes
  | [], ro => ([], ro)
  | b :: rest, ro => if b = SEP then (b :: rest, ro) else copyElem rest (b :: ro)

/-- the `for r < n` loop; `fuel` bounds the number of iterations (each consumes at least one byte). -/
def cleanLoop (rooted : Bool) : Nat → Bytes → Bytes → Nat → Bytes
  | 0, _, ro, _ => ro
  | _ + 1, [], ro, _ => ro
  | fuel + 1, b :: t, ro, dd =>
    if b = SEP then cleanLoop rooted fuel t ro dd                                  -- empty path element
    else if b = DOT ∧ (t = [] ∨ t.head? = some SEP) then cleanLoop rooted fuel t ro dd   -- . element
    else if b = DOT ∧ t.head? = some DOT ∧ (t.tail = [] ∨ t.tail.head? = some SEP) then   -- .. element
      if dd < ro.length then cleanLoop rooted fuel t.tail (backtrack dd ro) dd      -- can backtrack
      else if rooted = false then                                                   -- cannot backtrack, not rooted
        let ro2 := DOT :: DOT :: (if 0 < ro.length then SEP :: ro else ro)
        cleanLoop rooted fuel t.tail ro2 ro2.length
      else cleanLoop rooted fuel t.tail ro dd
    else                                                                            -- real path element
      let ro1 := if (rooted = true ∧ ro.length ≠ 1) ∨ (rooted = false ∧ ro.length ≠ 0) then SEP :: ro else ro
      let r := copyElem (b :: t) ro1
      cleanLoop rooted fuel r.1 r.2 dd

/-- `filepath.Clean(p)`, byte loop. -/
def cleanBytes (p : Bytes) : Bytes :=
  if p = [] then [DOT] else
  let ro :=
    if p.head? = some SEP then cleanLoop true (p.length + 1) p.tail [SEP] 1
    else cleanLoop false (p.length + 1) p [] 0
  if ro = [] then [DOT] else ro.reverse

/-! ### abstract file system -/

/-- normalised absolute path: its components; `[]` is the root. -/
abbrev Path := List Bytes

inductive Node where
  | dir
  | file (data : Bytes)
deriving DecidableEq, Repr

inductive Err where
  | outside   -- Write's own "outside parent directory"
  | notDir    -- ENOTDIR
  | exists    -- EEXIST
  | noEnt     -- ENOENT
  | isDir     -- EISDIR
deriving DecidableEq, Repr

/-- association list; the first binding of a path is the current one. -/
abbrev FS := List (Path × Node)

def lookupP (p : Path) : FS → Option Node
  | [] => none
  | (q, n) :: rest => if p = q then some n else lookupP p rest

/-- the root always exists and is a directory. -/
def FS.get (fs : FS) (p : Path) : Option Node := if p = [] then some .dir else lookupP p fs

def FS.set (fs : FS) (p : Path) (n : Node) : FS := (p, n) :: fs

/-- `filepath.Join(dir, fp)` for a normalised absolute `dir`: Clean(dir + "/" + fp), i.e. the
elements of `fp` applied to the stack that holds `dir`. -/
def joinPath (dir : Path) (fp : Bytes) : Path := (cleanComps true dir.reverse (splitSep fp)).reverse

/-- mkdir(2). -/
def mkdir (fs : FS) (p : Path) : Option Err × FS :=
  match fs.get p with
  | some _ => (some .exists, fs)
  | none =>
    match fs.get p.dropLast with
    | some .dir => (none, fs.set p .dir)
    | some (.file _) => (some .notDir, fs)
    | none => (some .noEnt, fs)

/-- `os.MkdirAll`; the argument is the path reversed (last component first), the recursion is
Go's: Stat the path (a directory: done; something else: ENOTDIR), otherwise MkdirAll(parent)
and then Mkdir(path). -/
def mkdirAllR (fs : FS) : List Bytes → Option Err × FS
  | [] => (none, fs)
  | c :: up =>
    match fs.get (c :: up).reverse with
    | some .dir => (none, fs)
    | some (.file _) => (some .notDir, fs)
    | none =>
      match mkdirAllR fs up with
      | (some e, fs1) => (some e, fs1)
      | (none, fs1) => mkdir fs1 (c :: up).reverse

def mkdirAll (fs : FS) (p : Path) : Option Err × FS := mkdirAllR fs p.reverse

structure OpenFlags where
  create : Bool
  excl : Bool
  trunc : Bool
  append : Bool

/-- the flags `Write` passes to os.OpenFile (regenerated from the source). -/
def writeFlags : OpenFlags :=
  ⟨Gen.Fsx.openCreate, Gen.Fsx.openExcl, Gen.Fsx.openTrunc, Gen.Fsx.openAppend⟩

/-- open(2) for writing. -/
def openFile (fl : OpenFlags) (fs : FS) (p : Path) : Option Err × FS :=
  match fs.get p with
  | some .dir => (some (if fl.create && fl.excl then .exists else .isDir), fs)
  | some (.file _) =>
    if fl.create && fl.excl then (some .exists, fs)
    else (none, if fl.trunc then fs.set p (.file []) else fs)
  | none =>
    if !fl.create then (some .noEnt, fs) else
    match fs.get p.dropLast with
    | some .dir => (none, fs.set p (.file []))
    | some (.file _) => (some .notDir, fs)
    | none => (some .noEnt, fs)

/-- one `Write` call on the just opened descriptor (offset 0, or the end with O_APPEND). -/
def writeData (fl : OpenFlags) (fs : FS) (p : Path) (data : Bytes) : FS :=
  match fs.get p with
  | some (.file old) =>
    fs.set p (.file (if fl.append then old ++ data else data ++ old.drop data.length))
  | _ => fs

/-! ### txtar.Write -/

/-- the body of Write's loop for one entry. -/
def writeOne (dir : Path) (fs : FS) (f : File) : Option Err × FS :=
  let fp := cleanPath f.name
  if Gen.Fsx.writeRejects fp then (some .outside, fs) else
  let full := joinPath dir fp
  if Gen.Fsx.mkdirAllBeforeOpen then
    match mkdirAll fs full.dropLast with
    | (some e, fs1) => (some e, fs1)
    | (none, fs1) =>
      match openFile writeFlags fs1 full with
      | (some e, fs2) => (some e, fs2)
      | (none, fs2) => (none, writeData writeFlags fs2 full f.data)
  else
    match openFile writeFlags fs full with
    | (some e, fs1) => (some e, fs1)
    | (none, fs1) =>
      match mkdirAll fs1 full.dropLast with
      | (some e, fs2) => (some e, fs2)
      | (none, fs2) => (none, writeData writeFlags fs2 full f.data)

def writeFiles (dir : Path) : FS → List File → Option Err × FS
  | fs, [] => (none, fs)
  | fs, f :: rest =>
    match writeOne dir fs f with
    | (some e, fs1) => (some e, fs1)
    | (none, fs1) => writeFiles dir fs1 rest

/-- `txtar.Write(a, dir)`: `(error, file system afterwards)`. -/
def writeArchive (a : Archive) (dir : Path) (fs : FS) : Option Err × FS := writeFiles dir fs a.files

/-! ### cmd/txtar-c -/

mutual
/-- a directory entry as `filepath.Walk` (Lstat) reports it. -/
inductive Tree where
  | file (data : Bytes)
  | dir (entries : Forest)
  | other                 -- neither regular nor directory (symbolic link, fifo, …)
/-- directory contents in Walk order (lexical by name). -/
inductive Forest where
  | nil
  | cons (name : Bytes) (t : Tree) (rest : Forest)
end

def Tree.isDir : Tree → Bool
  | .dir _ => true
  | _ => false

structure SaveOpts where
  all : Bool      -- -a
  quote : Bool    -- -quote

/-- one archived file: its path below the argument directory (components), the stored data, and
whether it went through `Quote` (then a comment line `unquote <path>` is written as well). -/
structure Item where
  rel : List Bytes
  data : Bytes
  quoted : Bool
deriving DecidableEq, Repr

/-- what the Walk callback does with one regular file. `none` = Go panic (inside NeedsQuote). -/
def saveFile (o : SaveOpts) (rel : List Bytes) (data : Bytes) : Option (List Item) :=
  if Gen.Fsx.skipsInvalidUTF8 && !utf8Valid data then some [] else
  let data := if Gen.Fsx.addsFinalNewline && !data.isEmpty && data.getLast? ≠ some NL then data ++ [NL] else data
  match needsQuote data with
  | none => none
  | some false => some [⟨rel, data, false⟩]
  | some true =>
    if !Gen.Fsx.quoteBranch then some [⟨rel, data, false⟩] else
    if !o.quote then some [] else
    match quote data with
    | .error _ => some []
    | .ok q => some [⟨rel, q, true⟩]

mutual
/-- the Walk callback on the entry at relative path `rel`, and Walk's descent into directories. -/
def saveTree (o : SaveOpts) (rel : List Bytes) : Tree → Option (List Item)
  | .file d => saveFile o rel d
  | .dir es => saveForest o rel es
  | .other => if Gen.Fsx.skipsNonRegular then some [] else none
def saveForest (o : SaveOpts) (rel : List Bytes) : Forest → Option (List Item)
  | .nil => some []
  | .cons name t rest =>
    if Gen.Fsx.dotSkip name o.all && (Gen.Fsx.dotSkipsDir || !t.isDir) then saveForest o rel rest
    else
      match saveTree o (rel ++ [name]) t with
      | none => none
      | some i1 =>
        match saveForest o rel rest with
        | none => none
        | some i2 => some (i1 ++ i2)
end

/-- `"unquote "+filename+"\n"` -/
def unquoteLine (i : Item) : Bytes := Gen.Fsx.unquotePrefix ++ joinSep i.rel ++ [NL]

def itemFile (i : Item) : File := ⟨joinSep i.rel, i.data⟩

def archiveOf (items : List Item) : Archive :=
  ⟨(items.filter (·.quoted)).flatMap unquoteLine, items.map itemFile⟩

/-- the archive txtar-c builds for the contents of its argument directory
(`filename` = path below the directory joined by '/'; comment lines and files are appended in walk order). -/
def saveDir (o : SaveOpts) (t : Forest) : Option Archive := (saveForest o [] t).map archiveOf

/-- txtar-c's standard output. -/
def saveDirBytes (o : SaveOpts) (t : Forest) : Option Bytes := (saveDir o t).map format

/-! ### cmd/txtar-x -/

/-- `txtar-x -C dir` on archive text `data`: Parse (a panic is `none`), then Write. -/
def extract (data : Bytes) (dir : Path) (fs : FS) : Option (Option Err × FS) :=
  (parse data).map fun a => writeArchive a dir fs

end GIV.Fsx
