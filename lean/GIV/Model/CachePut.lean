/-
  GIV.Model.CachePut — system-call-level model of `cache.Put` / `Get` / `GetFile` / `GetBytes`
  (/repo/cache/cache.go) for the crash / fault property C12 and the concurrency property C11.

  * OS model: names ↦ inode numbers, inodes ↦ bytes, open file descriptions (inode, offset, owner
    process).  `write` at an offset beyond the end zero-fills the hole.  No rename / hard links in
    this code, so an inode has at most one name ever: the one it was created under (`Inode.name`).
  * Programs: every task (goroutine) of every process runs a list of `Op`s; an op is a small state
    machine (`PC`) whose every transition is ONE system call.  The order of the calls and the
    deciding conditions are the regenerated facts of `GIV.Gen.CachePut` (a flipped fact selects the
    mutated behaviour, e.g. "last byte before the hash re-check", "no Truncate(0) on this error path").
  * A transition is chosen by a `Label`: which task moves, what happens to its system call
    (`Fault`: nothing / fail / short write / the process dies before / after it), and a number `n`
    that resolves the implementation-defined choices (how many bytes a reader hands over per call —
    io.Copy / io.ReadAll buffer sizes —, and whether `used` finds the mtime fresh).  Quantifying over
    all label sequences gives all schedules, all chunkings, all crash points and all fault sequences.
  * The hash function, and the byte encoding of an index entry, are parameters (`Params`).
  * The source reader of `Put` is a parameter of the op (`Src`): pass 1 may fail, the second Seek may
    fail, pass 2 may deliver other bytes, or fewer (error / early EOF — indistinguishable at the file
    operations: both end in the error path).

  Core Lean only.  The model driver (`Driver/CachePut.lean`) replays traces of the instrumented
  implementation step by step in this model.
-/
import GIV.Basic
import GIV.Gen.CachePut

namespace GIV.CachePut
open GIV

/-! ## names, files, parameters -/

inductive Name (Id Hsh : Type) where
  | data (h : Hsh)     -- `<hex h>-d`
  | index (id : Id)    -- `<hex id>-a`
  deriving DecidableEq

/-- what `get` returns (the time stamp is not used by any lookup). -/
structure Entry (Hsh : Type) where
  out : Hsh
  size : Nat
  deriving DecidableEq

structure Params (Id Hsh : Type) where
  H : Bytes → Hsh
  /-- `fmt.Sprintf("v1 %x %x %20d %20d\n", id, out, size, now)` -/
  enc : Id → Hsh → Nat → Int → Bytes
  /-- the checks of `get` on the bytes read from the index file of `id` -/
  parse : Id → Bytes → Option (Entry Hsh)

structure Inode (Id Hsh : Type) where
  name : Name Id Hsh
  data : Bytes

structure OFD where
  ino : Nat
  off : Nat
  proc : Nat

/-! ## programs -/

/-- behaviour of the `io.ReadSeeker` handed to `Put`. -/
structure Src where
  /-- first `Seek(0,0)` and the hashing pass succeed -/
  ok1 : Bool
  /-- bytes of the first pass: the offered content -/
  data1 : Bytes
  /-- the second `Seek(0,0)` succeeds -/
  seek2 : Bool
  /-- bytes available on the second pass (then EOF or an error) -/
  data2 : Bytes

inductive Op (Id : Type) where
  | put (id : Id) (src : Src)
  | get (id : Id)
  | getFile (id : Id)
  | getBytes (id : Id)

def Op.id {Id : Type} : Op Id → Id
  | .put id _ => id | .get id => id | .getFile id => id | .getBytes id => id

inductive Result (Hsh : Type) where
  | err                                  -- Put returned an error
  | putOk (out : Hsh) (size : Nat)
  | miss                                 -- lookup: not found
  | entry (e : Entry Hsh)                -- Get
  | file (e : Entry Hsh) (content : Option Bytes)  -- GetFile; `content` = bytes of the named file at return time
  | bytes (d : Bytes) (e : Entry Hsh)    -- GetBytes

/-- program counter inside the current op; `fd` = descriptor in use. -/
inductive PC (Hsh : Type) where
  -- copyFile
  | pStat
  | pCkOpen (L : Nat)
  | pCkRead (fd : Nat) (acc : Bytes) (L : Nat)
  | pCkClose (fd : Nat) (acc : Bytes) (L : Nat)
  | pReuseStat
  | pReuseChtimes
  | pOpen (trunc : Bool)
  | pWrite (fd : Nat) (rest : Bytes)
  | pCommit (fd : Nat) (checked : Bool)
  | pTrunc0 (fd : Nat)
  | pClose (fd : Nat)
  | pRemoveData (fd : Nat)
  | pChtimes (fd : Nat)
  | pDeferClose (fd : Nat) (ok : Bool)
  -- putIndexEntry
  | iOpen
  | iWrite (fd : Nat)
  | iTrunc (fd : Nat)
  | iClose (fd : Nat) (err : Bool)
  | iRemove
  | iChtimes
  -- get
  | gOpen
  | gRead (fd : Nat) (acc : Bytes)
  | gUsedStat (fd : Nat) (e : Entry Hsh)
  | gUsedChtimes (fd : Nat) (e : Entry Hsh)
  | gClose (fd : Nat) (r : Option (Entry Hsh))
  -- OutputFile (used), GetFile, GetBytes
  | oStat (e : Entry Hsh)
  | oChtimes (e : Entry Hsh)
  | fStat (e : Entry Hsh)
  | bOpen (e : Entry Hsh)
  | bRead (fd : Nat) (acc : Bytes) (e : Entry Hsh)
  | bClose (fd : Nat) (acc : Bytes) (e : Entry Hsh)

structure Task (Id Hsh : Type) where
  proc : Nat
  dead : Bool
  cur : Option (Op Id × PC Hsh)
  todo : List (Op Id)

/-- ghost history (never read by the programs). -/
inductive Ev (Id Hsh : Type) where
  | ret (tid : Nat) (op : Op Id) (r : Result Hsh)
  /-- a Put of content `c` for `id` completed the write of its index entry -/
  | indexed (tid : Nat) (id : Id) (c : Bytes)

/-- the file system: names, inodes, open file descriptions. -/
structure FS (Id Hsh : Type) where
  names : Name Id Hsh → Option Nat
  inodes : Nat → Option (Inode Id Hsh)
  nextIno : Nat
  fds : Nat → Option OFD
  nextFd : Nat

structure World (Id Hsh : Type) where
  fs : FS Id Hsh
  tasks : Nat → Option (Task Id Hsh)
  now : Int
  hist : List (Ev Id Hsh)

/-! ## the OS -/

inductive Mode where | rdonly | wronly | rdwr
  deriving DecidableEq

inductive Sys (Id Hsh : Type) where
  | stat (p : Name Id Hsh)
  | open (p : Name Id Hsh) (mode : Mode) (create trunc : Bool)
  | read (fd n : Nat)
  | write (fd : Nat) (bs : Bytes)
  | ftruncate (fd n : Nat)
  | close (fd : Nat)
  | unlink (p : Name Id Hsh)
  | chtimes (p : Name Id Hsh)

inductive Res where
  | ok
  | okFd (fd : Nat)
  | okSize (n : Nat)
  | okData (bs : Bytes)
  | okN (n : Nat)
  | eof
  | enoent
  | eclosed
  | fail                -- injected failure: no effect
  | short (k : Nat)     -- injected short write: k bytes stored, error reported
  | crashBefore         -- the process died instead of performing the call
  deriving DecidableEq

inductive Fault where
  | none | fail | short (k : Nat) | crashBefore | crashAfter
  deriving DecidableEq

structure Label where
  tid : Nat
  fault : Fault
  n : Nat

/-- `pwrite` semantics at the descriptor's offset; a hole is zero-filled. -/
def writeAt (d : Bytes) (off : Nat) (bs : Bytes) : Bytes :=
  if bs = [] then d else
  d.take off ++ List.replicate (off - d.length) 0 ++ bs ++ d.drop (off + bs.length)

def truncTo (d : Bytes) (n : Nat) : Bytes := d.take n ++ List.replicate (n - d.length) 0

variable {Id Hsh : Type} [DecidableEq Id] [DecidableEq Hsh]

def FS.file? (w : FS Id Hsh) (p : Name Id Hsh) : Option (Inode Id Hsh) :=
  (w.names p).bind w.inodes

def FS.setInode (w : FS Id Hsh) (i : Nat) (nd : Inode Id Hsh) : FS Id Hsh :=
  { w with inodes := fun j => if j = i then some nd else w.inodes j }

def FS.setFd (w : FS Id Hsh) (fd : Nat) (o : Option OFD) : FS Id Hsh :=
  { w with fds := fun j => if j = fd then o else w.fds j }

def FS.newFd (w : FS Id Hsh) (i proc : Nat) : FS Id Hsh × Res :=
  ({ w with fds := fun j => if j = w.nextFd then some ⟨i, 0, proc⟩ else w.fds j, nextFd := w.nextFd + 1 },
   .okFd w.nextFd)

/-- one system call of process `proc` without an injected fault.  `none` = the call is impossible
in this model (a descriptor of a non-existing inode, a read/write on a closed descriptor): the
programs never issue such calls. -/
def execOk (w : FS Id Hsh) (proc : Nat) : Sys Id Hsh → Option (FS Id Hsh × Res)
  | .stat p =>
    match w.names p with
    | none => some (w, .enoent)
    | some i => match w.inodes i with
      | none => none
      | some nd => some (w, .okSize nd.data.length)
  | .open p _ create trunc =>
    match w.names p with
    | some i => match w.inodes i with
      | none => none
      | some nd =>
        let w1 := if trunc then w.setInode i { nd with data := [] } else w
        some (w1.newFd i proc)
    | none =>
      if create then
        let i := w.nextIno
        let w1 : FS Id Hsh := { w with names := fun q => if q = p then some i else w.names q,
                                          inodes := fun j => if j = i then some ⟨p, []⟩ else w.inodes j,
                                          nextIno := i + 1 }
        some (w1.newFd i proc)
      else some (w, .enoent)
  | .read fd n =>
    match w.fds fd with
    | none => none
    | some o => match w.inodes o.ino with
      | none => none
      | some nd =>
        let bs := (nd.data.drop o.off).take n
        if bs = [] then some (w, .eof)
        else some (w.setFd fd (some { o with off := o.off + bs.length }), .okData bs)
  | .write fd bs =>
    match w.fds fd with
    | none => none
    | some o => match w.inodes o.ino with
      | none => none
      | some nd =>
        some ((w.setInode o.ino { nd with data := writeAt nd.data o.off bs }).setFd fd
                (some { o with off := o.off + bs.length }), .okN bs.length)
  | .ftruncate fd n =>
    match w.fds fd with
    | none => none
    | some o => match w.inodes o.ino with
      | none => none
      | some nd => some (w.setInode o.ino { nd with data := truncTo nd.data n }, .ok)
  | .close fd =>
    match w.fds fd with
    | none => some (w, .eclosed)
    | some _ => some (w.setFd fd none, .ok)
  | .unlink p =>
    match w.names p with
    | none => some (w, .enoent)
    | some _ => some ({ w with names := fun q => if q = p then none else w.names q }, .ok)
  | .chtimes p =>
    match w.names p with
    | none => some (w, .enoent)
    | some _ => some (w, .ok)

/-- a system call under a fault (`crashBefore` is handled by `step`; `crashAfter` performs the call). -/
def exec (w : FS Id Hsh) (proc : Nat) (s : Sys Id Hsh) : Fault → Option (FS Id Hsh × Res)
  | .none => execOk w proc s
  | .crashAfter => execOk w proc s
  | .crashBefore => none
  | .fail => some (w, .fail)
  | .short k =>
    match s with
    | .write fd bs =>
      match execOk w proc (.write fd (bs.take k)) with
      | some (w1, _) => some (w1, .short (bs.take k).length)
      | none => none
    | _ => none

/-- the descriptors of a dead process are closed. -/
def FS.closeProc (fs : FS Id Hsh) (proc : Nat) : FS Id Hsh :=
  { fs with fds := fun fd => match fs.fds fd with
      | some o => if o.proc = proc then none else some o
      | none => none }

/-- the process dies: none of its tasks moves again, its descriptors are closed. -/
def kill (w : World Id Hsh) (proc : Nat) : World Id Hsh :=
  { w with
    tasks := fun t => (w.tasks t).map fun tk => if tk.proc = proc then { tk with dead := true } else tk,
    fs := w.fs.closeProc proc }

/-! ## the programs of Put and of the lookups -/

inductive Next (Hsh : Type) where
  | goto (pc : PC Hsh)
  | done (r : Result Hsh)

section prog
variable (P : Params Id Hsh)

def Src.size (s : Src) : Nat := s.data1.length
/-- `size - 1`: what `io.CopyN` copies before the re-check. -/
def Src.first (s : Src) : Nat := Gen.CachePut.firstLen s.size

def putOut (s : Src) : Hsh := P.H s.data1

/-- copyFile returned nil. -/
def copyOk (s : Src) : Next Hsh :=
  if Gen.CachePut.indexAfterCopy then .goto .iOpen else .done (.putOk (putOut P s) s.size)

/-- copyFile returned an error. -/
def copyErr : Next Hsh :=
  if Gen.CachePut.copyErrSkipsIndex || !Gen.CachePut.indexAfterCopy then .done .err else .goto .iOpen

/-- putIndexEntry returned nil. -/
def indexOk (s : Src) : Next Hsh :=
  if Gen.CachePut.indexAfterCopy then .done (.putOk (putOut P s) s.size) else .goto .pStat

def startOp : Op Id → Next Hsh
  | .put _ s =>
    if !s.ok1 then .done .err
    else if Gen.CachePut.indexAfterCopy then .goto .pStat else .goto .iOpen
  | .get _ => .goto .gOpen
  | .getFile _ => .goto .gOpen
  | .getBytes _ => .goto .gOpen

/-- an error path of copyFile after the data file was opened: `f.Truncate(0)` if the source has it. -/
def errPath (fd : Nat) (trunc : Bool) : Next Hsh :=
  if trunc then .goto (.pTrunc0 fd) else .goto (.pDeferClose fd false)

/-- after `io.CopyN` delivered everything there was: read the last byte, re-check, commit. -/
def afterCopyN (s : Src) (fd : Nat) : Next Hsh :=
  if s.data2.length < s.first then errPath fd Gen.CachePut.truncOnCopyErr
  else if s.data2.length ≤ s.first then errPath fd Gen.CachePut.truncOnLastReadErr
  else if Gen.CachePut.checkBeforeLastByte then
    (if Gen.CachePut.underfoot (P.H (s.data2.take (s.first + 1))) (putOut P s)
     then errPath fd Gen.CachePut.truncOnMismatch else .goto (.pCommit fd true))
  else .goto (.pCommit fd false)

def writeOrNext (s : Src) (fd : Nat) (rest : Bytes) : Next Hsh :=
  if rest = [] then afterCopyN P s fd else .goto (.pWrite fd rest)

/-- the bytes `io.CopyN` will hand to `f.Write`, in chunks. -/
def Src.copyBytes (s : Src) : Bytes :=
  if Gen.CachePut.copyNBeforeCheck then s.data2.take s.first else []

def lastByte (s : Src) : Bytes := (s.data2.drop s.first).take 1

def afterGetClose (op : Op Id) : Option (Entry Hsh) → Next Hsh
  | none => .done .miss
  | some e => match op with
    | .get _ => .done (.entry e)
    | .put _ _ => .done (.entry e)   -- not reachable
    | .getFile _ => .goto (.oStat e)
    | .getBytes _ => .goto (.oStat e)

def afterUsed (op : Op Id) (e : Entry Hsh) : Next Hsh :=
  match op with
  | .getBytes _ => .goto (.bOpen e)
  | _ => .goto (.fStat e)

def bytesResult (acc : Bytes) (e : Entry Hsh) : Next Hsh :=
  if Gen.CachePut.getBytesReject (P.H acc) e.out then .done .miss else .done (.bytes acc e)

def chunk (n : Nat) : Nat := if n = 0 then 1 else n

/-- the system call issued at a program point (`n` = the label's number, `now` = the clock). -/
def sysOf (now : Int) (n : Nat) (op : Op Id) : PC Hsh → Sys Id Hsh
  | .pStat => match op with
    | .put _ s => .stat (.data (putOut P s))
    | _ => .stat (.index op.id)
  | .pCkOpen _ => match op with
    | .put _ s => .open (.data (putOut P s)) .rdonly false false
    | _ => .stat (.index op.id)
  | .pCkRead fd _ _ => .read fd (chunk n)
  | .pCkClose fd _ _ => .close fd
  | .pReuseStat => match op with
    | .put _ s => .stat (.data (putOut P s))
    | _ => .stat (.index op.id)
  | .pReuseChtimes => match op with
    | .put _ s => .chtimes (.data (putOut P s))
    | _ => .stat (.index op.id)
  | .pOpen trunc => match op with
    | .put _ s => .open (.data (putOut P s)) .rdwr true trunc
    | _ => .stat (.index op.id)
  | .pWrite fd rest => .write fd (rest.take (chunk n))
  | .pCommit fd _ => match op with
    | .put _ s => .write fd (lastByte s)
    | _ => .close fd
  | .pTrunc0 fd => .ftruncate fd 0
  | .pClose fd => .close fd
  | .pRemoveData _ => match op with
    | .put _ s => .unlink (.data (putOut P s))
    | _ => .stat (.index op.id)
  | .pChtimes _ => match op with
    | .put _ s => .chtimes (.data (putOut P s))
    | _ => .stat (.index op.id)
  | .pDeferClose fd _ => .close fd
  | .iOpen => .open (.index op.id) .wronly Gen.CachePut.indexOpenCreate Gen.CachePut.indexOpenTrunc
  | .iWrite fd => match op with
    | .put id s => .write fd (P.enc id (putOut P s) s.size now)
    | _ => .close fd
  | .iTrunc fd => match op with
    | .put id s => .ftruncate fd (P.enc id (putOut P s) s.size now).length
    | _ => .close fd
  | .iClose fd _ => .close fd
  | .iRemove => .unlink (.index op.id)
  | .iChtimes => .chtimes (.index op.id)
  | .gOpen => .open (.index op.id) .rdonly false false
  | .gRead fd acc => .read fd (Gen.CachePut.getBufLen - acc.length)
  | .gUsedStat _ _ => .stat (.index op.id)
  | .gUsedChtimes _ _ => .chtimes (.index op.id)
  | .gClose fd _ => .close fd
  | .oStat e => .stat (.data e.out)
  | .oChtimes e => .chtimes (.data e.out)
  | .fStat e => .stat (.data e.out)
  | .bOpen e => .open (.data e.out) .rdonly false false
  | .bRead fd _ _ => .read fd (chunk n)
  | .bClose fd _ _ => .close fd

/-- continuation after the system call returned `r`; `content` reads a file of the world after the call. -/
def next (content : Name Id Hsh → Option Bytes) (n : Nat) (op : Op Id) (pc : PC Hsh) (r : Res) : Next Hsh :=
  match op, pc with
  -- ---------------------------------------------------------------- copyFile
  | .put _ s, .pStat =>
    match r with
    | .okSize L =>
      if Gen.CachePut.reuseCheck true L s.size then .goto (.pCkOpen L)
      else .goto (.pOpen (Gen.CachePut.dataOpenTrunc true L s.size))
    | _ => .goto (.pOpen (Gen.CachePut.dataOpenTrunc false 0 s.size))
  | .put _ s, .pCkOpen L =>
    match r with
    | .okFd fd => .goto (.pCkRead fd [] L)
    | _ => .goto (.pOpen (Gen.CachePut.dataOpenTrunc true L s.size))
  | .put _ _, .pCkRead fd acc L =>
    match r with
    | .okData bs => .goto (.pCkRead fd (acc ++ bs) L)
    | _ => .goto (.pCkClose fd acc L)
  | .put _ s, .pCkClose _ acc L =>
    if Gen.CachePut.reuseHit (putOut P s) (P.H acc) then
      (if Gen.CachePut.copyReuseRefreshes then .goto .pReuseStat else copyOk P s)
    else .goto (.pOpen (Gen.CachePut.dataOpenTrunc true L s.size))
  | .put _ s, .pReuseStat => if n = 0 then copyOk P s else .goto .pReuseChtimes
  | .put _ s, .pReuseChtimes => copyOk P s
  | .put _ s, .pOpen _ =>
    match r with
    | .okFd fd =>
      if Gen.CachePut.emptyReturn s.size then .goto (.pDeferClose fd true)
      else if !s.seek2 then errPath fd Gen.CachePut.truncOnSeekErr
      else writeOrNext P s fd s.copyBytes
    | _ => copyErr
  | .put _ s, .pWrite fd rest =>
    match r with
    | .okN _ => writeOrNext P s fd (rest.drop (chunk n))
    | _ => errPath fd Gen.CachePut.truncOnCopyErr
  | .put _ s, .pCommit fd checked =>
    match r with
    | .okN _ =>
      if checked then .goto (.pClose fd)
      else if Gen.CachePut.underfoot (P.H (s.data2.take (s.first + 1))) (putOut P s)
        then errPath fd Gen.CachePut.truncOnMismatch else .goto (.pClose fd)
    | _ => errPath fd Gen.CachePut.truncOnCommitErr
  | .put _ _, .pTrunc0 fd => .goto (.pDeferClose fd false)
  | .put _ _, .pClose fd =>
    match r with
    | .ok => .goto (.pChtimes fd)
    | _ => if Gen.CachePut.removeOnCloseErr then .goto (.pRemoveData fd) else .goto (.pDeferClose fd false)
  | .put _ _, .pRemoveData fd => .goto (.pDeferClose fd false)
  | .put _ _, .pChtimes fd => .goto (.pDeferClose fd true)
  | .put _ s, .pDeferClose _ ok => if ok then copyOk P s else copyErr
  -- ---------------------------------------------------------------- putIndexEntry
  | .put _ _, .iOpen =>
    match r with
    | .okFd fd => .goto (.iWrite fd)
    | _ => .done .err
  | .put _ _, .iWrite fd =>
    match r with
    | .okN _ => if Gen.CachePut.indexTruncAfterWrite then .goto (.iTrunc fd) else .goto (.iClose fd false)
    | _ => .goto (.iClose fd true)
  | .put _ _, .iTrunc fd =>
    match r with
    | .ok => .goto (.iClose fd false)
    | _ => .goto (.iClose fd true)
  | .put _ _, .iClose _ err =>
    if err || r != .ok then (if Gen.CachePut.indexRemoveOnErr then .goto .iRemove else .done .err)
    else .goto .iChtimes
  | .put _ _, .iRemove => .done .err
  | .put _ s, .iChtimes => indexOk P s
  -- ---------------------------------------------------------------- get
  | _, .gOpen =>
    match r with
    | .okFd fd => .goto (.gRead fd [])
    | _ => .done .miss
  | _, .gRead fd acc =>
    match r with
    | .okData bs =>
      if (acc ++ bs).length ≥ Gen.CachePut.getBufLen then .goto (.gClose fd none)
      else .goto (.gRead fd (acc ++ bs))
    | .eof =>
      match P.parse op.id acc with
      | some e => .goto (.gUsedStat fd e)
      | none => .goto (.gClose fd none)
    | _ => .goto (.gClose fd none)
  | _, .gUsedStat fd e => if n = 0 then .goto (.gClose fd (some e)) else .goto (.gUsedChtimes fd e)
  | _, .gUsedChtimes fd e => .goto (.gClose fd (some e))
  | _, .gClose _ res => afterGetClose op res
  | _, .oStat e => if n = 0 then afterUsed op e else .goto (.oChtimes e)
  | _, .oChtimes e => afterUsed op e
  | _, .fStat e =>
    match r with
    | .okSize L =>
      if Gen.CachePut.getFileReject L e.size then .done .miss else .done (.file e (content (.data e.out)))
    | _ => .done .miss
  | _, .bOpen e =>
    match r with
    | .okFd fd => .goto (.bRead fd [] e)
    | _ => bytesResult P [] e
  | _, .bRead fd acc e =>
    match r with
    | .okData bs => .goto (.bRead fd (acc ++ bs) e)
    | _ => .goto (.bClose fd acc e)
  | _, .bClose _ acc e => bytesResult P acc e
  -- program points of Put under a lookup op: not reachable
  | _, _ => .done .miss

/-- take up the next op of the list; ops that finish without a system call are logged at once. -/
def startOps (tid : Nat) : List (Op Id) → List (Ev Id Hsh) → Option (Op Id × PC Hsh) × List (Op Id) × List (Ev Id Hsh)
  | [], h => (none, [], h)
  | op :: rest, h =>
    match startOp (Hsh := Hsh) op with
    | .goto pc => (some (op, pc), rest, h)
    | .done r => startOps tid rest (h ++ [.ret tid op r])

end prog

def FS.content (fs : FS Id Hsh) (p : Name Id Hsh) : Option Bytes := (fs.file? p).map (·.data)

/-- one step of ONE task against the file system: the system call at `pc` under `fault`, and the
continuation.  `none` = not enabled.  (`crashBefore` never performs a call.) -/
def tstep (P : Params Id Hsh) (now : Int) (fs : FS Id Hsh) (proc : Nat) (op : Op Id) (pc : PC Hsh)
    (fault : Fault) (n : Nat) : Option (FS Id Hsh × Res × Next Hsh) :=
  match exec fs proc (sysOf P now n op pc) fault with
  | none => none
  | some (fs1, r) => some (fs1, r, next P fs1.content n op pc r)

/-- what a step shows to an observer (the instrumented implementation logs the same). -/
structure Obs (Id Hsh : Type) where
  sys : Sys Id Hsh
  res : Res

/-- ghost record of a completed index write. -/
def ghostOf (tid : Nat) (op : Op Id) (pc : PC Hsh) (r : Res) : List (Ev Id Hsh) :=
  match op, pc, r with
  | .put id s, .iWrite _, .okN _ => [.indexed tid id s.data1]
  | _, _, _ => []

/-- one transition of the system. `none` = the label is not enabled. -/
def step (P : Params Id Hsh) (w : World Id Hsh) (l : Label) : Option (World Id Hsh × Obs Id Hsh) :=
  match w.tasks l.tid with
  | none => none
  | some tk =>
    if tk.dead then none else
    match tk.cur with
    | none => none
    | some (op, pc) =>
      let sys := sysOf P w.now l.n op pc
      if l.fault = .crashBefore then some (kill w tk.proc, ⟨sys, .crashBefore⟩) else
      match tstep P w.now w.fs tk.proc op pc l.fault l.n with
      | none => none
      | some (fs1, r, nx) =>
        let hist1 := w.hist ++ ghostOf l.tid op pc r
        -- the process dies right after the call: its effect (and the ghost record) stays, nothing returns
        if l.fault = .crashAfter then some (kill { w with fs := fs1, hist := hist1 } tk.proc, ⟨sys, r⟩) else
        let (cur', todo', hist') : Option (Op Id × PC Hsh) × List (Op Id) × List (Ev Id Hsh) :=
          match nx with
          | .goto pc' => (some (op, pc'), tk.todo, hist1)
          | .done res => startOps l.tid tk.todo (hist1 ++ [.ret l.tid op res])
        let tk' : Task Id Hsh := { tk with cur := cur', todo := todo' }
        some ({ w with fs := fs1, tasks := fun t => if t = l.tid then some tk' else w.tasks t, hist := hist' }, ⟨sys, r⟩)

/-- run a label sequence. -/
def run (P : Params Id Hsh) (w : World Id Hsh) : List Label → Option (World Id Hsh)
  | [] => some w
  | l :: ls => match step P w l with
    | none => none
    | some (w1, _) => run P w1 ls

/-- a world with the given files, no open descriptors, and the given tasks (proc, ops). -/
def mkTasks (P : Params Id Hsh) : Nat → List (Nat × List (Op Id)) → List (Ev Id Hsh) →
    (Nat → Option (Task Id Hsh)) × List (Ev Id Hsh)
  | _, [], h => (fun _ => none, h)
  | tid, (proc, ops) :: rest, h =>
    let (cur, todo, h1) := startOps tid ops h
    let (f, h2) := mkTasks P (tid + 1) rest h1
    (fun t => if t = tid then some ⟨proc, false, cur, todo⟩ else f t, h2)

def World.finished (w : World Id Hsh) (tid : Nat) : Bool :=
  match w.tasks tid with
  | none => true
  | some tk => tk.dead || tk.cur.isNone

end GIV.CachePut
