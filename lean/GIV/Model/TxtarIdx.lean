/-
  GIV.Model.TxtarIdx — the *index form* of /repo/txtar/archive.go: literal, Go-shaped
  transcriptions over `Bytes` with explicit offsets and checked slices (`none` = Go panic).

  `GIV.Model.Txtar` is line-structured (the input is cut into lines and Parse is a fold over
  them); the Go code scans byte offsets (`data[i:]`, `bytes.Index(data[i:], "\n-- ")`, `i += j+1`).
  This file transcribes the Go code statement by statement; `GIV/Lemmas/TxtarIdx*.lean` prove

      isMarkerIdx_eq, findFileMarkerIdx_eq, parseIdx_eq : parseIdx d = parse d,
      needsQuoteIdx_eq : needsQuoteIdx d = needsQuote d, unquoteIdx_eq, quoteIdx_eq, refParseIdx_eq

  for all inputs.  The model driver (`Driver/Txtar.lean`) *executes the index forms*, so the
  correspondence run ties Go ↔ index form (a near-literal transcription) and the theorems carry
  index form ↔ line form ↔ properties.

  The same regenerated facts govern both forms (`Gen.Txtar.lenGuard`, `crAtEOF`,
  `needsQuoteTestsName`, the marker literals), in the same way.
-/
import GIV.Model.Txtar

namespace GIV.Txtar
open GIV

/-! ### the `bytes` helpers used by archive.go -/

/-- Go `s[lo:hi]` on a slice whose capacity is its length: panics unless `lo ≤ hi ≤ len(s)`. -/
def slice? (s : Bytes) (lo hi : Nat) : Option Bytes :=
  if lo ≤ hi ∧ hi ≤ s.length then some ((s.take hi).drop lo) else none

/-- `bytes.HasPrefix(s, prefix)`: `len(s) >= len(prefix) && Equal(s[:len(prefix)], prefix)`.
(`take` truncates, so the length test is implied by the comparison; not computing `len(s)` keeps
`bytes.Index` below linear per position.) -/
def hasPrefix (s pre : Bytes) : Bool :=
  s.take pre.length == pre

/-- `bytes.HasSuffix(s, suffix)`: `len(s) >= len(suffix) && Equal(s[len(s)-len(suffix):], suffix)`. -/
def hasSuffix (s suf : Bytes) : Bool :=
  decide (suf.length ≤ s.length) && (s.drop (s.length - suf.length) == suf)

/-- `bytes.IndexByte(s, c)`; `none` = -1. -/
def indexByte : Bytes → UInt8 → Option Nat
  | [], _ => none
  | x :: xs, c => if x = c then some 0 else (indexByte xs c).map (· + 1)

/-- `bytes.Index(s, sep)`: index of the first occurrence of `sep` in `s`; `none` = -1. -/
def indexSub : Bytes → Bytes → Option Nat
  | [], sep => if sep.isEmpty then some 0 else none
  | x :: xs, sep => if hasPrefix (x :: xs) sep then some 0 else (indexSub xs sep).map (· + 1)

/-- `bytes.TrimSuffix(s, suffix)`. -/
def trimSuffix (s suf : Bytes) : Bytes :=
  if hasSuffix s suf then s.take (s.length - suf.length) else s

/-- `bytes.TrimPrefix(s, prefix)`. -/
def trimPrefix (s pre : Bytes) : Bytes :=
  if hasPrefix s pre then s.drop pre.length else s

def newlineMarker : Bytes := Gen.Txtar.newlineMarker

/-! ### isMarker -/

/-- `isMarker(data) (name string, after []byte)`; `after = none` is Go's `nil`.

```go
if !bytes.HasPrefix(data, marker) { return "", nil }
if i := bytes.IndexByte(data, '\n'); i >= 0 { data, after = data[:i], data[i+1:] }
data = bytes.TrimSuffix(data, []byte("\r"))           // crAtEOF: here; else inside the `if` above
if !(bytes.HasSuffix(data, markerEnd) && len(data) >= len(marker)+len(markerEnd)) { return "", nil }
                                                       // lenGuard: with / without the length test
return strings.TrimSpace(string(data[len(marker) : len(data)-len(markerEnd)])), after
```
(`len(data)-len(markerEnd)` cannot be negative there: `HasSuffix` has just succeeded.) -/
def isMarkerIdx (data : Bytes) : Option (Bytes × Option Bytes) :=
  if !hasPrefix data marker then some ([], none) else do
  let (data1, after, sawNL) ←
    match indexByte data NL with
    | some i => do
      let d ← slice? data 0 i
      let a ← slice? data (i + 1) data.length
      some (d, some a, true)
    | none => some (data, none, false)
  let data2 := if Gen.Txtar.crAtEOF || sawNL then trimSuffix data1 [CR] else data1
  if !(hasSuffix data2 markerEnd &&
      (!Gen.Txtar.lenGuard || decide (marker.length + markerEnd.length ≤ data2.length))) then
    some ([], none)
  else do
    let nm ← slice? data2 marker.length (data2.length - markerEnd.length)
    some (trimSpace nm, after)

/-! ### findFileMarker -/

/-- The `for { … }` loop of `findFileMarker`, one iteration per unit of fuel (`i` is the Go
variable; running out of fuel is `none`, and `findFileMarkerIdx_eq` shows it does not happen).

```go
for {
    if name, after = isMarker(data[i:]); name != "" { return data[:i], name, after }
    j := bytes.Index(data[i:], newlineMarker)
    if j < 0 { return fixNL(data), "", nil }
    i += j + 1 // positioned at start of new possible marker
}
``` -/
def findFileMarkerLoop (isMarker : Bytes → Option (Bytes × Option Bytes)) (data : Bytes) :
    Nat → Nat → Option (Bytes × Bytes × Option Bytes)
  | 0, _ => none
  | fuel + 1, i => do
    let d ← slice? data i data.length
    let (name, after) ← isMarker d
    if name ≠ [] then do
      let before ← slice? data 0 i
      some (before, name, after)
    else
      match indexSub d newlineMarker with
      | none => some (fixNL data, [], none)
      | some j => findFileMarkerLoop isMarker data fuel (i + (j + 1))

/-- `findFileMarker(data) (before []byte, name string, after []byte)`.  (The function text is
identical in /repo/txtar and in x/tools/txtar; only the `isMarker` it calls differs, hence the
parameter.) -/
def findFileMarkerG (isMarker : Bytes → Option (Bytes × Option Bytes)) (data : Bytes) :
    Option (Bytes × Bytes × Option Bytes) :=
  findFileMarkerLoop isMarker data (data.length + 1) 0

def findFileMarkerIdx (data : Bytes) : Option (Bytes × Bytes × Option Bytes) :=
  findFileMarkerG isMarkerIdx data

/-! ### Parse, NeedsQuote -/

/-- The `for name != "" { … }` loop of `Parse` (`data = nil` is the empty slice for the next
`findFileMarker`).

```go
for name != "" {
    f := File{name, nil}
    f.Data, name, data = findFileMarker(data)
    a.Files = append(a.Files, f)
}
``` -/
def parseLoopG (isMarker : Bytes → Option (Bytes × Option Bytes)) :
    Nat → Bytes → Bytes → List File → Option (List File)
  | 0, _, _, _ => none
  | fuel + 1, name, data, files =>
    if name = [] then some files else do
      let (fdata, name', after) ← findFileMarkerG isMarker data
      parseLoopG isMarker fuel name' (after.getD []) (files ++ [⟨name, fdata⟩])

/-- `Parse` (again the same text in both packages).

```go
a := new(Archive)
var name string
a.Comment, name, data = findFileMarker(data)
for name != "" { … }
return a
``` -/
def parseG (isMarker : Bytes → Option (Bytes × Option Bytes)) (data : Bytes) : Option Archive := do
  let (comment, name, after) ← findFileMarkerG isMarker data
  let files ← parseLoopG isMarker (data.length + 1) name (after.getD []) []
  some ⟨comment, files⟩

/-- `txtar.Parse` of /repo. -/
def parseIdx (data : Bytes) : Option Archive := parseG isMarkerIdx data

/-- `NeedsQuote`: `_, name, _ := findFileMarker(data); return name != ""` (or `after != nil`
before the repair; which one is read from the source by factgen). -/
def needsQuoteIdx (data : Bytes) : Option Bool := do
  let (_, name, after) ← findFileMarkerIdx data
  some (if Gen.Txtar.needsQuoteTestsName then decide (name ≠ []) else after.isSome)

/-! ### Quote / Unquote -/

/-- `bytes.Replace(s, old, new, -1)` for non-empty `old`: left to right, non-overlapping.
Fuel = `len(s)`. -/
def replaceAllAux (old new : Bytes) : Nat → Bytes → Bytes
  | 0, s => s
  | _, [] => []
  | fuel + 1, x :: xs =>
    if hasPrefix (x :: xs) old then new ++ replaceAllAux old new fuel ((x :: xs).drop old.length)
    else x :: replaceAllAux old new fuel xs

def replaceAll (s old new : Bytes) : Bytes := replaceAllAux old new s.length s

/-- `Quote`, with the `for _, b := range data` loop as a left fold over `(nd, prev)`.

```go
if len(data) == 0 { return nil, nil }
if data[len(data)-1] != '\n' { return nil, errors.New("data has no final newline") }
if !utf8.Valid(data) { return nil, fmt.Errorf("data contains non-UTF-8 characters") }
var nd []byte
prev := byte('\n')
for _, b := range data {
    if prev == '\n' { nd = append(nd, '>') }
    nd = append(nd, b)
    prev = b
}
return nd, nil
``` -/
def quoteIdx (data : Bytes) : Except QErr Bytes :=
  if data.length = 0 then .ok [] else
  if data[data.length - 1]? ≠ some NL then .error .noFinalNewline else
  if !utf8Valid data then .error .notUTF8 else
  let (nd, _) := data.foldl (fun (st : Array UInt8 × UInt8) b =>
    let nd := if st.2 = NL then st.1.push 62 else st.1
    (nd.push b, b)) (#[], NL)
  .ok nd.toList

/-- `Unquote`.

```go
if len(data) == 0 { return nil, nil }
if data[0] != '>' || data[len(data)-1] != '\n' { return nil, errors.New("data does not appear to be quoted") }
data = bytes.Replace(data, []byte("\n>"), []byte("\n"), -1)
data = bytes.TrimPrefix(data, []byte(">"))
return data, nil
``` -/
def unquoteIdx (data : Bytes) : Except QErr Bytes :=
  if data.length = 0 then .ok [] else
  if data[0]? ≠ some 62 ∨ data[data.length - 1]? ≠ some NL then .error .notQuoted else
  let data1 := replaceAll data [NL, 62] [NL]
  .ok (trimPrefix data1 [62])

/-! ### reference: golang.org/x/tools/txtar (same loops; isMarker without CR handling) -/

/-- x/tools `isMarker`. -/
def refIsMarkerIdx (data : Bytes) : Option (Bytes × Option Bytes) :=
  if !hasPrefix data marker then some ([], none) else do
  let (data1, after) ←
    match indexByte data NL with
    | some i => do
      let d ← slice? data 0 i
      let a ← slice? data (i + 1) data.length
      some (d, some a)
    | none => some (data, none)
  if !(hasSuffix data1 markerEnd && decide (marker.length + markerEnd.length ≤ data1.length)) then
    some ([], none)
  else do
    let nm ← slice? data1 marker.length (data1.length - markerEnd.length)
    some (trimSpace nm, after)

/-- x/tools `Parse`; `none` would be a panic or fuel exhaustion (`refParseIdx_eq`: never). -/
def refParseIdx (data : Bytes) : Option Archive := parseG refIsMarkerIdx data

end GIV.Txtar
