/-
  GIV.Model.ParCache — par.Cache (par/work.go: Cache.Do, Cache.Get) as a labelled transition system.

  One step = one event logged by the instrumented run (harness/vshim): `map.load`, `map.loadOrStore`,
  `atomic.load`, `atomic.store`, `lock`, `unlock` on the entry of a key, and the driver's events
  `start exit do-call do-return get-call get-return f-enter f-exit`.  The plain (non-atomic) write
  `e.result = …` is the separate internal step `write` (the replay inserts it after `f-exit`); the plain
  read `return e.result` is the `do-return` / `get-return` event, which carries the value read.
  Atomics are sequentially consistent (Go memory model for sync/atomic); goroutines are arbitrary many,
  each running an arbitrary finite list of `Do k` / `Get k` calls.

  The driver's f for key k returns the value `k#i` on its i-th invocation (so a second invocation would
  be visible in every value) — except for the keys the scenario marks as *nil keys* (`Cfg.nilKey`), whose f
  returns Go's untyped `nil` (`none`): `e.result` then stays nil although the computation is complete, which
  `done` alone records.  Deciding expressions / operation order come from GIV.Gen.ParCache.  Core Lean only.
-/
import GIV.Gen.ParCache
namespace GIV.ParCache
open GIV.Gen.ParCache

abbrev Key := Nat
abbrev TaskId := Nat

/-- what the driver's f returns: key and invocation number -/
structure Val where
  key : Key
  call : Nat
  deriving DecidableEq, Repr

inductive Op
  | doK (k : Key)
  | getK (k : Key)
  deriving DecidableEq, Repr

/-- the calls each goroutine makes, in order, and the keys whose f returns nil -/
structure Cfg where
  prog : TaskId → List Op
  nilKey : Key → Bool := fun _ => false

/-- what the `i`-th invocation of the driver's f for key `k` returns (`none` = Go's nil) -/
def Cfg.fval (c : Cfg) (k : Key) (i : Nat) : Option Val := if c.nilKey k then none else some ⟨k, i⟩

inductive Pc
  | init | idle | exited
  | dLoad (k : Key)            -- Do: c.m.Load(key)
  | dLos (k : Key)             -- Do: c.m.LoadOrStore(key, new(cacheEntry))
  | dLoad1 (k : Key)           -- Do: atomic.LoadUint32(&e.done), unlocked
  | dLock (k : Key)            -- Do: e.mu.Lock()
  | dLoad2 (k : Key)           -- Do: atomic.LoadUint32(&e.done), under e.mu
  | dFEnter (k : Key)          -- Do: call f
  | dInF (k : Key) (v : Option Val)   -- inside f, which will return v (none = nil)
  | dWrite (k : Key) (v : Option Val) -- Do: plain write e.result = v
  | dStore (k : Key)           -- Do: atomic.StoreUint32(&e.done, 1)
  | dUnlock (k : Key)          -- Do: e.mu.Unlock()
  | dRet (k : Key)             -- Do: plain read `return e.result`
  | gLoad (k : Key)            -- Get: c.m.Load(key)
  | gLoad1 (k : Key)           -- Get: atomic.LoadUint32(&e.done)
  | gRetNil (k : Key)          -- Get: return nil
  | gRet (k : Key)             -- Get: plain read `return e.result`
  deriving DecidableEq, Repr

inductive Event
  | start | exit
  | doCall (k : Key) | doReturn (k : Key) (v : Option Val)
  | getCall (k : Key) | getReturn (k : Key) (v : Option Val)
  | mapLoad (k : Key) (hit : Bool)
  | mapLoadOrStore (k : Key) (loaded : Bool)
  | atomicLoad (k : Key) (v : Int)
  | atomicStore (k : Key) (v : Int)
  | lock (k : Key) | unlock (k : Key)
  | fEnter (k : Key) | fExit (k : Key) (v : Option Val)
  | write (k : Key)
  deriving DecidableEq, Repr

/-- the cacheEntry of one key (only the entry stored in the map is ever used) -/
structure KState where
  alloc : Bool            -- the map has an entry for the key
  done : Int              -- e.done
  owner : Option TaskId   -- e.mu
  result : Option Val     -- e.result (nil = none)
  fcalls : Nat            -- ghost: number of invocations of f for the key
  fret : Option (Option Val)  -- ghost: what the (last) completed invocation of f returned (none = no invocation completed yet; some none = it returned nil)
  deriving Repr

structure State where
  key : Key → KState
  pc : TaskId → Pc
  rest : TaskId → List Op

def K0 : KState := { alloc := false, done := 0, owner := none, result := none, fcalls := 0, fret := none }

def init0 (c : Cfg) : State := { key := fun _ => K0, pc := fun _ => .init, rest := c.prog }

def State.setPc (s : State) (t : TaskId) (p : Pc) : State :=
  { s with pc := fun i => if i = t then p else s.pc i }

def State.setKey (s : State) (k : Key) (ks : KState) : State :=
  { s with key := fun i => if i = k then ks else s.key i }

def shapeOK : Bool := loadThenLoadOrStore && lockAroundInner && unlockAfterStore && getChecksMap

/-- after `e := entryIface.(*cacheEntry)` -/
def afterEntry (k : Key) : Pc := if outerDoneCheck then .dLoad1 k else .dLock k
/-- after `e.mu.Lock()` -/
def afterLock (k : Key) : Pc := if innerDoneCheck then .dLoad2 k else (if storeAfterResult then .dFEnter k else .dStore k)
/-- inner test says "not done" -/
def afterInner (k : Key) : Pc := if storeAfterResult then .dFEnter k else .dStore k
def afterWrite (k : Key) : Pc := if storeAfterResult then .dStore k else .dUnlock k
def afterStore (k : Key) : Pc := if storeAfterResult then .dUnlock k else .dFEnter k
/-- Get after a map hit -/
def afterHit (k : Key) : Pc := if getChecksDone then .gLoad1 k else .gRet k

def step (c : Cfg) (s : State) (t : TaskId) (e : Event) : Option State :=
  if !shapeOK then none else
  match s.pc t with
  | .exited => none
  | .init => if e = .start then some (s.setPc t .idle) else none
  | .idle =>
    match s.rest t with
    | [] => if e = .exit then some (s.setPc t .exited) else none
    | .doK k :: r =>
      if e = .doCall k then some ({ s with rest := fun i => if i = t then r else s.rest i }.setPc t (.dLoad k)) else none
    | .getK k :: r =>
      if e = .getCall k then some ({ s with rest := fun i => if i = t then r else s.rest i }.setPc t (.gLoad k)) else none
  | .dLoad k =>
    if e = .mapLoad k (s.key k).alloc then
      some (s.setPc t (if (s.key k).alloc then afterEntry k else .dLos k))
    else none
  | .dLos k =>
    if e = .mapLoadOrStore k (s.key k).alloc then
      some ((s.setKey k { s.key k with alloc := true }).setPc t (afterEntry k))
    else none
  | .dLoad1 k =>
    if e = .atomicLoad k (s.key k).done then
      some (s.setPc t (if outerNotDone (s.key k).done then .dLock k else .dRet k))
    else none
  | .dLock k =>
    if e = .lock k then
      if (s.key k).owner = none then some ((s.setKey k { s.key k with owner := some t }).setPc t (afterLock k)) else none
    else none
  | .dLoad2 k =>
    if e = .atomicLoad k (s.key k).done then
      some (s.setPc t (if innerNotDone (s.key k).done then afterInner k else .dUnlock k))
    else none
  | .dFEnter k =>
    if e = .fEnter k then
      some ((s.setKey k { s.key k with fcalls := (s.key k).fcalls + 1 }).setPc t (.dInF k (c.fval k ((s.key k).fcalls + 1))))
    else none
  | .dInF k v =>
    if e = .fExit k v then some ((s.setKey k { s.key k with fret := some v }).setPc t (.dWrite k v)) else none
  | .dWrite k v =>
    if e = .write k then some ((s.setKey k { s.key k with result := v }).setPc t (afterWrite k)) else none
  | .dStore k =>
    if e = .atomicStore k doneStoreValue then
      some ((s.setKey k { s.key k with done := doneStoreValue }).setPc t (afterStore k))
    else none
  | .dUnlock k =>
    if e = .unlock k then
      if (s.key k).owner.isSome then some ((s.setKey k { s.key k with owner := none }).setPc t (.dRet k)) else none
    else none
  | .dRet k =>
    if e = .doReturn k (s.key k).result then some (s.setPc t .idle) else none
  | .gLoad k =>
    if e = .mapLoad k (s.key k).alloc then
      some (s.setPc t (if (s.key k).alloc then afterHit k else .gRetNil k))
    else none
  | .gLoad1 k =>
    if e = .atomicLoad k (s.key k).done then
      some (s.setPc t (if getNotDone (s.key k).done then .gRetNil k else .gRet k))
    else none
  | .gRetNil k => if e = .getReturn k none then some (s.setPc t .idle) else none
  | .gRet k => if e = .getReturn k (s.key k).result then some (s.setPc t .idle) else none

inductive Reach (c : Cfg) : State → Prop
  | init : Reach c (init0 c)
  | step {s s' : State} {t : TaskId} {e : Event} : Reach c s → step c s t e = some s' → Reach c s'

/-- the task is inside a call of Get -/
def Pc.inGet : Pc → Bool
  | .gLoad _ | .gLoad1 _ | .gRetNil _ | .gRet _ => true
  | _ => false

/-! ### executable helpers for the driver -/

/-- the one event the state determines for task `t` (none for an exited task); enabledness is then
decided by `step`. -/
def nextEvent (s : State) (t : TaskId) : Option Event :=
  match s.pc t with
  | .exited => none
  | .init => some .start
  | .idle => match s.rest t with
    | [] => some .exit
    | .doK k :: _ => some (.doCall k)
    | .getK k :: _ => some (.getCall k)
  | .dLoad k => some (.mapLoad k (s.key k).alloc)
  | .dLos k => some (.mapLoadOrStore k (s.key k).alloc)
  | .dLoad1 k => some (.atomicLoad k (s.key k).done)
  | .dLock k => some (.lock k)
  | .dLoad2 k => some (.atomicLoad k (s.key k).done)
  | .dFEnter k => some (.fEnter k)
  | .dInF k v => some (.fExit k v)
  | .dWrite k _ => some (.write k)
  | .dStore k => some (.atomicStore k doneStoreValue)
  | .dUnlock k => some (.unlock k)
  | .dRet k => some (.doReturn k (s.key k).result)
  | .gLoad k => some (.mapLoad k (s.key k).alloc)
  | .gLoad1 k => some (.atomicLoad k (s.key k).done)
  | .gRetNil k => some (.getReturn k none)
  | .gRet k => some (.getReturn k (s.key k).result)

def enabledTask (c : Cfg) (s : State) (t : TaskId) : Bool :=
  match nextEvent s t with
  | some e => (step c s t e).isSome
  | none => false

/-- the internal write step of `t`, if that is what `t` does next -/
def autoWrite (c : Cfg) (s : State) (t : TaskId) : State :=
  match s.pc t with
  | .dWrite k _ =>
    match step c s t (.write k) with
    | some s' => s'
    | none => s
  | _ => s

def replay (c : Cfg) : State → Nat → List (TaskId × Event) → Except (Nat × String) State
  | s, _, [] => .ok s
  | s, i, (t, e) :: rest =>
    match step c s t e with
    | some s' => replay c (autoWrite c s' t) (i + 1) rest
    | none => .error (i, s!"task {t} at {repr (s.pc t)} cannot do {repr e}")

end GIV.ParCache
