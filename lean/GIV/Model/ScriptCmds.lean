/-
  GIV.Model.ScriptCmds — concrete command semantics for the correspondence run of C01 / C16:
  the builtin table of cmd.go over a small abstract file system (paths below $WORK, regular
  files and directories, no modes, no links), `ts.cd`, the environment, the stdout/stderr buffers,
  `ts.scriptFiles` / `ts.scriptUpdates`; a tokenizer restricted to the constructs the generators use;
  the harness's custom commands (`probe`, `failcmd`, `put`, a shadowed `exists`) and custom
  conditions (`yes`, `no`, anything else an error).

  `exec` is modelled for the harness's helper program `vh` (harness/cmd/tsrun/helper.go: a list of
  actions `out:TEXT err:TEXT cat exit:N block`) and for the program name `nosuchprog-zz` (not on
  PATH); `St.bg` is `ts.background`.  Whatever depends on timing — waiting for a helper that blocks
  and has not been signalled, the status of a helper that was signalled while it may still have
  been running, signalling a helper that may already have exited — is outside the fragment.

  Whatever is outside the modelled fragment sets `St.unmodelled` (the driver then answers
  "unsupported" and the harness counts that as a disagreement) — it is never given a made-up meaning.
  The theorems of C01 are about the skeleton (GIV.Model.Script) and hold for *every* command
  semantics; this file only has to agree with the real commands on the generated scripts, which
  the correspondence run checks.
-/
import GIV.Basic
import GIV.Model.Txtar
import GIV.Model.Script
import GIV.Model.ScriptUpdate
import GIV.Gen.TsRun
import GIV.Gen.TsRunUpdate

namespace GIV.TsRun.Cmds
open GIV GIV.TsRun GIV.TsRun.Update

/-! ### file system below $WORK -/

/-- path components below the work directory; `[]` = $WORK itself -/
abbrev Path := List Bytes

structure FS where
  files : List (Path × Bytes)
  dirs : List Path
deriving Repr

def FS.isDir (fs : FS) (p : Path) : Bool := p.isEmpty || fs.dirs.contains p
def FS.isFile (fs : FS) (p : Path) : Bool := !fs.isDir p && (fs.files.lookup p).isSome
def FS.exists (fs : FS) (p : Path) : Bool := fs.isDir p || fs.isFile p

/-- `os.ReadFile`: `none` = error (missing, or a directory). -/
def FS.read (fs : FS) (p : Path) : Option Bytes := if fs.isDir p then none else fs.files.lookup p

def parent (p : Path) : Path := p.dropLast

/-- `os.WriteFile` / `OpenFile(O_WRONLY|O_CREATE|O_TRUNC)`: the target must not be a directory and
its parent must be one. -/
def FS.write (fs : FS) (p : Path) (data : Bytes) : Option FS :=
  if fs.isDir p then none
  else if !fs.isDir (parent p) then none
  else some { fs with files := (p, data) :: fs.files.filter (fun e => e.1 ≠ p) }

def mkdirAllAux (fs : FS) (pre : Path) : List Bytes → Option FS
  | [] => some fs
  | c :: cs =>
    let q := pre ++ [c]
    if fs.isFile q then none
    else mkdirAllAux (if fs.isDir q then fs else { fs with dirs := q :: fs.dirs }) q cs

/-- `os.MkdirAll`: fails when a component is a regular file. -/
def FS.mkdirAll (fs : FS) (p : Path) : Option FS := mkdirAllAux fs [] p

def isProperPrefix (p q : Path) : Bool := p.length < q.length && p.isPrefixOf q

/-- `os.RemoveAll` of a file, a directory tree or nothing. `none` = outside the modelled fragment
($WORK itself, or a path that runs through a regular file). -/
def FS.removeAll (fs : FS) (p : Path) : Option FS :=
  if p.isEmpty then none
  else if fs.files.any (fun e => isProperPrefix e.1 p) then none
  else some { files := fs.files.filter (fun e => !(p.isPrefixOf e.1)),
              dirs := fs.dirs.filter (fun d => !(p.isPrefixOf d)) }

inductive RenameRes | ok (fs : FS) | err | unmodelled

/-- `os.Rename`. Regular files: onto a missing path or another regular file (replaced), parent must be
a directory; onto a directory is an error. Directories: only onto a missing path outside themselves
(else unmodelled). -/
def FS.rename (fs : FS) (old new : Path) : RenameRes :=
  if old.isEmpty || new.isEmpty then .unmodelled
  else if fs.isFile old then
    if old = new then .ok fs
    else if fs.isDir new then .err
    else if !fs.isDir (parent new) then .err
    else
      match fs.files.lookup old with
      | none => .err
      | some data =>
        .ok { fs with files := (new, data) :: fs.files.filter (fun e => e.1 ≠ old ∧ e.1 ≠ new) }
  else if fs.isDir old then
    if fs.exists new || old.isPrefixOf new then .unmodelled
    else if !fs.isDir (parent new) then .err
    else
      let mv (q : Path) : Path := if old.isPrefixOf q then new ++ q.drop old.length else q
      .ok { files := fs.files.map (fun e => (mv e.1, e.2)), dirs := fs.dirs.map mv }
  else .err

/-! ### state -/

abbrev Env := List (Bytes × Bytes)   -- newest binding first

def getenv (env : Env) (k : Bytes) : Bytes := (env.lookup k).getD []

/-- `Params` as far as the harness varies them, and the host facts conditions depend on. -/
structure P where
  continueOnError : Bool
  requireExplicitExec : Bool
  requireUniqueNames : Bool
  updateScripts : Bool
  customCmds : Bool
  customCond : Bool
  goos : Bytes
  goarch : Bytes
deriving Repr

/-- One entry of `ts.background` (`backgroundCmd{name, cmd, wait, neg}`), with what the helper
process behind it does: it either runs to completion by itself (`blocks = false`: it writes
`out` / `err` and exits with `status`) or blocks until a signal ends it (`blocks = true`, no output).
`signalled`: `kill`, or the interrupt of a `skip` whose wait then failed, has been sent to it. -/
structure Bg where
  name : Bytes
  neg : Bool
  out : Bytes
  err : Bytes
  status : Nat
  blocks : Bool
  signalled : Bool
deriving Repr, DecidableEq

structure St where
  fs : FS
  cd : Path
  env : Env
  stdin : Bytes
  stdout : Bytes
  stderr : Bytes
  probes : List Bytes
  /-- `ts.scriptFiles`: absolute path ↦ archive entry name -/
  scriptFiles : List (Path × Bytes)
  /-- `ts.scriptUpdates` -/
  updates : Updates
  /-- `ts.background`, oldest first -/
  bg : List Bg
  unmodelled : Bool
deriving Repr

def workStr : Bytes := lit "/W"

def initEnv : Env :=
  [(lit "exe", []), (lit "$", lit "$"), (lit ":", lit ":"), (lit "/", lit "/"), (lit "devnull", lit "/dev/null"),
   (lit "TMPDIR", lit "/W/.tmp"), (lit "HOME", lit "/no-home"), (lit "GOTRACEBACK", lit "system"),
   (lit "PATH", []), (lit "WORK", workStr)]

def initSt : St :=
  { fs := ⟨[], [[lit ".tmp"]]⟩, cd := [], env := initEnv, stdin := [], stdout := [], stderr := [],
    probes := [], scriptFiles := [], updates := [], bg := [], unmodelled := false }

def fatal (s : St) : St × Outcome := (s, .fatal)
def okay (s : St) : St × Outcome := (s, .ok)
/-- outside the modelled fragment: flag it and stop the run -/
def unm (s : St) : St × Outcome := ({ s with unmodelled := true }, .crash)

/-! ### paths: ts.MkAbs = filepath.Join(ts.cd, file) with Clean -/

def splitOn (sep : UInt8) : Bytes → List Bytes
  | [] => [[]]
  | b :: rest =>
    match splitOn sep rest with
    | [] => [[]]      -- unreachable
    | w :: ws => if b = sep then [] :: w :: ws else (b :: w) :: ws

def cleanInto (base : Path) : List Bytes → Option Path
  | [] => some base
  | c :: cs =>
    if c.isEmpty || c = lit "." then cleanInto base cs
    else if c = lit ".." then (if base.isEmpty then none else cleanInto base.dropLast cs)
    else cleanInto (base ++ [c]) cs

/-- `ts.MkAbs(file)` as a path below $WORK; `none` = leaves $WORK (unmodelled). -/
def resolve (cd : Path) (file : Bytes) : Option Path :=
  if file.head? = some 47 then
    match splitOn 47 file with
    | _ :: w :: rest => if w = lit "W" then cleanInto [] rest else none
    | _ => none
  else cleanInto cd (splitOn 47 file)

/-! ### tokenizer (restricted) -/

def isAlnum (c : UInt8) : Bool :=
  c == 95 || (48 ≤ c && c ≤ 57) || (97 ≤ c && c ≤ 122) || (65 ≤ c && c ≤ 90)
def isNameStart (c : UInt8) : Bool := c == 95 || (97 ≤ c && c ≤ 122) || (65 ≤ c && c ≤ 90)

/-- `os.Expand` on the supported forms `$name` (name starts with a letter or '_') and `${name}`
(name alphanumeric, non-empty). `none` = any other use of '$'. -/
def expandAux (env : Env) : Nat → Bytes → Option Bytes
  | 0, _ => some []
  | _ + 1, [] => some []
  | fuel + 1, 36 :: rest =>
    match rest with
    | 123 :: r2 =>
      let name := r2.takeWhile isAlnum
      if name.isEmpty || (r2.drop name.length).head? ≠ some 125 then none
      else (expandAux env fuel (r2.drop (name.length + 1))).map (getenv env name ++ ·)
    | c :: _ =>
      if !isNameStart c then none
      else
        let name := rest.takeWhile isAlnum
        (expandAux env fuel (rest.drop name.length)).map (getenv env name ++ ·)
    | [] => none
  | fuel + 1, b :: rest => (expandAux env fuel rest).map (b :: ·)

def expand (env : Env) (b : Bytes) : Option Bytes := expandAux env (b.length + 1) b

inductive Tok | ok (args : List Bytes) | fatal | unmodelled

def isSep (c : UInt8) : Bool := c == 32 || c == 9 || c == 13 || c == 35

def flush (env : Env) (args : List Bytes) (arg : Bytes) (chunk : Option Bytes) : Option (List Bytes) :=
  match chunk with
  | none => some args
  | some ch => (expand env ch.reverse).map (fun e => args ++ [arg ++ e])

/-- `ts.parse`: state = (args, arg, text of the current chunk if `start >= 0`, quoted, skip);
the chunk `line[start:i]` is kept REVERSED (newest byte first) so that a long word costs linear time;
`skip` = the `i++` after a doubled quote: the next byte (the second quote) is already in the chunk. -/
def tok (env : Env) : Bytes → List Bytes → Bytes → Option Bytes → Bool → Bool → Tok
  | [], args, arg, chunk, quoted, _ =>
    if quoted then .fatal
    else match flush env args arg chunk with
      | none => .unmodelled
      | some a => .ok a
  | _ :: rest, args, arg, chunk, quoted, true => tok env rest args arg chunk quoted false
  | c :: rest, args, arg, chunk, false, false =>
    if isSep c then
      match flush env args arg chunk with
      | none => .unmodelled
      | some a => if c == 35 then .ok a else tok env rest a [] none false false
    else if c == 39 then
      match chunk with
      | none => tok env rest args arg (some []) true false
      | some ch =>
        match expand env ch.reverse with
        | none => .unmodelled
        | some e => tok env rest args (arg ++ e) (some []) true false
    else tok env rest args arg (some (c :: chunk.getD [])) false false
  | c :: rest, args, arg, chunk, true, false =>
    if c == 39 then
      if rest.head? == some 39 then tok env rest args (arg ++ (chunk.getD []).reverse) (some [39]) true true
      else tok env rest args (arg ++ (chunk.getD []).reverse) (some []) false false
    else tok env rest args arg (some (c :: chunk.getD [])) true false

def tokenize (env : Env) (line : Bytes) : Tok := tok env line [] [] none false false

/-! ### conditions -/

def strs (l : List String) : List Bytes := l.map lit

inductive CondRes | val (b : Bool) | bad | unmodelled

def condOf (p : P) (name : Bytes) : CondRes :=
  if name = lit "short" || name = lit "net" || name = lit "link" || name = lit "symlink" then .unmodelled
  else if (strs Gen.TsRun.goosList).contains name then .val (name == p.goos)
  else if name = lit "unix" then .val ((strs Gen.TsRun.unixList).contains p.goos)
  else if (strs Gen.TsRun.goarchList).contains name then .val (name == p.goarch)
  else if (lit "exec:").isPrefixOf name then
    if (lit "exec:nosuch").isPrefixOf name then .val false else .unmodelled
  else if name = lit "gc" then .val true
  else if name = lit "gccgo" then .val false
  else if (lit "go1.").isPrefixOf name then .unmodelled
  else if p.customCond then
    if name = lit "yes" then .val true
    else if name = lit "no" then .val false
    else .bad
  else .bad

/-! ### helpers shared by commands -/

def join (sep : Bytes) : List Bytes → Bytes
  | [] => []
  | [a] => a
  | a :: rest => a ++ sep ++ join sep rest

/-- `ts.ReadFile(name)`: `stdout`, `stderr`, `ttyout` are the buffers. -/
inductive Rd | ok (b : Bytes) | err | unmodelled

def readArg (s : St) (name : Bytes) : Rd :=
  if name = lit "stdout" then .ok s.stdout
  else if name = lit "stderr" then .ok s.stderr
  else if name = lit "ttyout" then .ok []
  else match resolve s.cd name with
    | none => .unmodelled
    | some p => match s.fs.read p with
      | none => .err
      | some b => .ok b

def isPrefixAt (pat : Bytes) (t : Bytes) : Bool := pat.isPrefixOf t

/-- number of non-overlapping occurrences of the non-empty literal `pat`, leftmost first -/
def countOcc (pat : Bytes) : Nat → Bytes → Nat
  | 0, _ => 0
  | _ + 1, [] => 0
  | fuel + 1, b :: rest =>
    if pat.isPrefixOf (b :: rest) then 1 + countOcc pat fuel ((b :: rest).drop pat.length)
    else countOcc pat fuel rest

def occurrences (pat t : Bytes) : Nat := countOcc pat (t.length + 1) t

def parseNat (b : Bytes) : Option Nat :=
  if b.isEmpty || b.length > 6 || !b.all (fun c => 48 ≤ c && c ≤ 57) then none
  else some (b.foldl (fun acc c => acc * 10 + (c.toNat - 48)) 0)

/-- `scriptMatch` for literal alphanumeric patterns (where regexp semantics = substring search). -/
def scriptMatch (s : St) (neg : Bool) (args : List Bytes) (text : Bytes) (isGrep : Bool) : St × Outcome :=
  let cp := lit "-count="
  let hasCount := match args with | a :: _ => cp.isPrefixOf a | [] => false
  if hasCount && neg then fatal s else
  let cnt : Option (Option Nat) :=   -- none = unmodelled; some none = no count
    if hasCount then
      match args with
      | a :: _ => (parseNat (a.drop cp.length)).map some
      | [] => some none
    else some none
  match cnt with
  | none => unm s
  | some n =>
    if n = some 0 then fatal s else
    let args := if hasCount then args.tail else args
    if args.length ≠ (if isGrep then 2 else 1) then fatal s else
    match args with
    | [] => fatal s
    | pat :: more =>
      if pat.isEmpty || !pat.all isAlnum then unm s else
      let textR : Rd := if isGrep then (match more with | f :: _ => readArg' s f | [] => .err) else .ok text
      match textR with
      | .unmodelled => unm s
      | .err => fatal s
      | .ok text =>
        let k := occurrences pat text
        if neg then (if k > 0 then fatal s else okay s)
        else if k = 0 then fatal s
        else match n with
          | some m => if k ≠ m then fatal s else okay s
          | none => okay s
where
  /-- grep reads with `os.ReadFile(ts.MkAbs(file))`: no stdout/stderr special names -/
  readArg' (s : St) (f : Bytes) : Rd :=
    match resolve s.cd f with
    | none => .unmodelled
    | some p => match s.fs.read p with
      | none => .err
      | some b => .ok b

/-! ### the helper program and `ts.background` -/

/-- what one run of the helper does -/
structure HRes where
  out : Bytes
  err : Bytes
  status : Nat
  blocks : Bool
deriving Repr, DecidableEq

/-- The helper `vh` (harness/cmd/tsrun/helper.go) performs its arguments in order: `out:T` / `err:T`
write `T` and a newline to stdout / stderr, `cat` copies what is left of stdin to stdout, `exit:N`
(N ≤ 125) exits with status N, `block` (only as the first and last action) never returns by itself;
at the end of the list it exits with status 0.  `none` = any other use. -/
def helperRun : Bytes → List Bytes → HRes → Option HRes
  | _, [], r => some r
  | stdin, a :: rest, r =>
    if (lit "out:").isPrefixOf a then helperRun stdin rest { r with out := r.out ++ a.drop 4 ++ [NL] }
    else if (lit "err:").isPrefixOf a then helperRun stdin rest { r with err := r.err ++ a.drop 4 ++ [NL] }
    else if a = lit "cat" then helperRun [] rest { r with out := r.out ++ stdin }
    else if (lit "exit:").isPrefixOf a then
      match parseNat (a.drop 5) with
      | none => none
      | some n => if n ≤ 125 then some { r with status := n } else none
    else if a = lit "block" then
      if rest.isEmpty && r.out.isEmpty && r.err.isEmpty then some { r with blocks := true } else none
    else none

def runHelper (stdin : Bytes) (args : List Bytes) : Option HRes := helperRun stdin args ⟨[], [], 0, false⟩

/-- `buildExecCmd` on the program names the generators use -/
inductive Prog | helper | notFound | unmodelled
deriving DecidableEq

def progOf (name : Bytes) : Prog :=
  if name = lit "vh" then .helper
  else if name = lit "nosuchprog-zz" then .notFound
  else .unmodelled

/-- `backgroundSpecifier = ^&([a-zA-Z_0-9]+&)?$` -/
def isBgSpec (a : Bytes) : Bool :=
  a = [38] ||
  (a.length ≥ 3 && a.head? == some 38 && a.getLast? == some 38 && (a.tail.dropLast).all isAlnum)

/-- `strings.TrimSuffix(strings.TrimPrefix(a, "&"), "&")` of a word that matches `backgroundSpecifier` -/
def bgNameOf (a : Bytes) : Bytes := a.tail.dropLast

/-- `ts.findBackground`: never finds the empty name; the first entry of that name otherwise -/
def findBg (bgs : List Bg) (name : Bytes) : Option Bg :=
  if name.isEmpty then none else bgs.find? (fun b => b.name == name)

/-- `slices.Delete` of the entry `findBackground` returned -/
def removeBg : List Bg → Bytes → List Bg
  | [], _ => []
  | b :: rest, name => if b.name == name then rest else b :: removeBg rest name

/-- `ProcessState.Success()` once `<-bg.wait` returns; `none` = it never returns (a blocking helper nobody
signalled) or it depends on timing (a helper that exits by itself, signalled on the way). -/
def Bg.result (b : Bg) : Option Bool :=
  if b.blocks then (if b.signalled then some false else none)
  else (if b.signalled then none else some (b.status == 0))

/-- the same right after `interruptProcess`: a blocking helper dies of the signal; one that exits with a
non-zero status by itself fails either way; one that would exit 0 may or may not get there first. -/
def Bg.resultInterrupted (b : Bg) : Option Bool :=
  if b.blocks then some false
  else if b.signalled then none
  else if b.status == 0 then none
  else some false

/-- The loop of `waitBackground(checkStatus)` over `ts.background`: `none` = outside the fragment,
`some none` = it called Fatalf (nothing assigned yet), `some (some (stdout, stderr))` = the joined outputs.
`ProcessState.Success()` with `bg.neg`, or a failure without it, is the Fatalf. -/
def waitAll (interrupted check : Bool) : List Bg → Bytes → Bytes → Option (Option (Bytes × Bytes))
  | [], o, e => some (some (o, e))
  | b :: rest, o, e =>
    if check then
      match (if interrupted then b.resultInterrupted else b.result) with
      | none => none
      | some ok => if ok == b.neg then some none else waitAll interrupted check rest (o ++ b.out) (e ++ b.err)
    else if interrupted || (b.result).isSome then waitAll interrupted check rest (o ++ b.out) (e ++ b.err)
    else none

/-- `Process.Signal` on every entry (`killBackground`): defined when each is a blocking helper that has not
been signalled yet (anything else may have exited already: "os: process already finished" or not). -/
def signalAll : List Bg → Option (List Bg)
  | [] => some []
  | b :: rest =>
    if b.blocks && !b.signalled then (signalAll rest).map ({ b with signalled := true } :: ·) else none

/-- `killBackgroundOne` on the entry `findBackground` returned -/
def signalOne : List Bg → Bytes → Option (List Bg)
  | [], _ => some []
  | b :: rest, name =>
    if b.name == name then
      (if b.blocks && !b.signalled then some ({ b with signalled := true } :: rest) else none)
    else (signalOne rest name).map (b :: ·)

/-! ### builtin commands (cmd.go) -/

def cmdCd : Cmd St := fun _ s neg args =>
  if neg then fatal s else
  match args with
  | [dir] =>
    match resolve s.cd dir with
    | none => unm s
    | some p => if s.fs.isDir p then okay { s with cd := p } else fatal s
  | _ => fatal s

def doCmdCmp (p : P) (s : St) (neg : Bool) (args : List Bytes) (env : Bool) : St × Outcome :=
  match args with
  | [name1, name2] =>
    if name1 = name2 then fatal s else
    match readArg s name1 with
    | .unmodelled => unm s
    | .err => fatal s
    | .ok text1 =>
      match resolve s.cd name2 with
      | none => unm s
      | some abs2 =>
        match s.fs.read abs2 with
        | none => fatal s
        | some raw2 =>
          match (if env then expand s.env raw2 else some raw2) with
          | none => unm s
          | some text2 =>
            match doCmp ⟨p.updateScripts, env, neg, text1, text2, s.scriptFiles.lookup abs2⟩ with
            | .ok => okay s
            | .fatal => fatal s
            | .recorded n c => okay { s with updates := record s.updates n c }
  | _ => fatal s

def cmdCmp (p : P) : Cmd St := fun _ s neg args => doCmdCmp p s neg args false
def cmdCmpenv (p : P) : Cmd St := fun _ s neg args => doCmdCmp p s neg args true

def cpLoop (s : St) (dst : Path) (dstDir : Bool) : List Bytes → St × Outcome
  | [] => okay s
  | arg :: more =>
    let src : Option (Bytes × Rd) :=     -- base name, data
      if arg = lit "stdout" then some (arg, .ok s.stdout)
      else if arg = lit "stderr" then some (arg, .ok s.stderr)
      else if arg = lit "ttyout" then some (arg, .ok [])
      else match resolve s.cd arg with
        | none => none
        | some p =>
          match p.getLast? with
          | none => none
          | some base => some (base, match s.fs.read p with | none => .err | some b => .ok b)
    match src with
    | none => unm s
    | some (_, .unmodelled) => unm s
    | some (_, .err) => fatal s
    | some (base, .ok data) =>
      let targ := if dstDir then dst ++ [base] else dst
      match s.fs.write targ data with
      | none => fatal s
      | some fs' => cpLoop { s with fs := fs' } dst dstDir more

def cmdCp : Cmd St := fun _ s neg args =>
  if neg then fatal s else
  if args.length < 2 then fatal s else
  match args.getLast? with
  | none => fatal s
  | some last =>
    match resolve s.cd last with
    | none => unm s
    | some dst =>
      let dstDir := s.fs.isDir dst
      if args.length > 2 && !dstDir then fatal s
      else cpLoop s dst dstDir args.dropLast

def cmdEnv : Cmd St := fun _ s neg args =>
  if neg then fatal s else
  okay { s with env := args.foldl (fun env a =>
    if a.contains 61 then (a.takeWhile (· != 61), (a.dropWhile (· != 61)).tail) :: env else env) s.env }

def existsLoop (s : St) (neg readonly : Bool) : List Bytes → St × Outcome
  | [] => okay s
  | f :: more =>
    match resolve s.cd f with
    | none => unm s
    | some p =>
      let ex := s.fs.exists p
      if ex && neg then fatal s
      else if !ex && !neg then fatal s
      else if ex && !neg && readonly then fatal s   -- nothing in this file system is read-only
      else existsLoop s neg readonly more

def cmdExists : Cmd St := fun _ s neg args =>
  let readonly := args.head? = some (lit "-readonly")
  let args := if readonly then args.tail else args
  if args.isEmpty then fatal s else existsLoop s neg readonly args

def mkdirLoop (s : St) : List Bytes → St × Outcome
  | [] => okay s
  | a :: more =>
    match resolve s.cd a with
    | none => unm s
    | some p =>
      match s.fs.mkdirAll p with
      | none => fatal s
      | some fs' => mkdirLoop { s with fs := fs' } more

def cmdMkdir : Cmd St := fun _ s neg args =>
  if neg then fatal s else if args.isEmpty then fatal s else mkdirLoop s args

def cmdMv : Cmd St := fun _ s neg args =>
  if neg then fatal s else
  match args with
  | [a, b] =>
    match resolve s.cd a, resolve s.cd b with
    | some old, some new =>
      match s.fs.rename old new with
      | .ok fs' => okay { s with fs := fs' }
      | .err => fatal s
      | .unmodelled => unm s
    | _, _ => unm s
  | _ => fatal s

def rmLoop (s : St) : List Bytes → St × Outcome
  | [] => okay s
  | a :: more =>
    match resolve s.cd a with
    | none => unm s
    | some p =>
      match s.fs.removeAll p with
      | none => unm s
      | some fs' => rmLoop { s with fs := fs' } more

def cmdRm : Cmd St := fun _ s neg args =>
  if neg then fatal s else if args.isEmpty then fatal s else rmLoop s args

/-- `cmdSkip`: usage, `!`, then every background command is interrupted and `ts.cmdWait(false, nil)`
checks their statuses (a contradicting one is a Fatalf: the line fails, the script is not skipped;
the entries stay in `ts.background`, now signalled), then the `ts.failed` guard, then `T.Skip`. -/
def cmdSkip : Cmd St := fun failed s neg args =>
  if args.length > 1 then fatal s else
  if neg then fatal s else
  match waitAll true Gen.TsRun.skipChecksBackground s.bg [] [] with
  | none => unm s
  | some none => fatal { s with bg := s.bg.map (fun b => { b with signalled := true }) }
  | some (some (o, e)) =>
    let s := { s with stdout := o, stderr := e, bg := [] }
    if failed && Gen.TsRun.skipChecksFailed then (s, .failNow) else (s, .skip)

def cmdStop : Cmd St := fun _ s neg args =>
  if neg then fatal s else
  if args.length > 1 then fatal s else
  (s, if Gen.TsRun.stopSetsStopped then .stop else .ok)

def cmdStdin : Cmd St := fun _ s neg args =>
  if neg then fatal s else
  match args with
  | [f] =>
    match readArg s f with
    | .ok b => okay { s with stdin := b }
    | .err => fatal s
    | .unmodelled => unm s
  | _ => fatal s

def cmdStdout : Cmd St := fun _ s neg args => scriptMatch s neg args s.stdout false
def cmdStderr : Cmd St := fun _ s neg args => scriptMatch s neg args s.stderr false
def cmdTtyout : Cmd St := fun _ s neg args => scriptMatch s neg args [] false
def cmdGrep : Cmd St := fun _ s neg args => scriptMatch s neg args [] true

def unquoteLoop (s : St) : List Bytes → St × Outcome
  | [] => okay s
  | a :: more =>
    match resolve s.cd a with
    | none => unm s
    | some p =>
      match s.fs.read p with
      | none => fatal s
      | some data =>
        match Txtar.unquote data with
        | .error _ => fatal s
        | .ok d =>
          match s.fs.write p d with
          | none => fatal s
          | some fs' => unquoteLoop { s with fs := fs' } more

def cmdUnquote : Cmd St := fun _ s neg args =>
  if neg then fatal s else unquoteLoop s args

/-- `cmdWait`: `wait` = `waitBackground(true)` (statuses checked in order, the first contradicting one
is a Fatalf before anything is assigned; otherwise the joined outputs become stdout / stderr and
`ts.background` is emptied); `wait name` = `waitBackgroundOne` (stdout / stderr are assigned BEFORE the
status check; the entry is removed only when the status is as demanded). -/
def cmdWait : Cmd St := fun _ s neg args =>
  if args.length > 1 then fatal s else
  if neg then fatal s else
  match args with
  | [name] =>
    match findBg s.bg name with
    | none => fatal s      -- unknown background process
    | some b =>
      match b.result with
      | none => unm s
      | some ok =>
        let s1 := { s with stdout := b.out, stderr := b.err }
        if ok == b.neg then fatal s1 else okay { s1 with bg := removeBg s.bg name }
  | _ =>
    match waitAll false true s.bg [] [] with
    | none => unm s
    | some none => fatal s
    | some (some (o, e)) => okay { s with stdout := o, stderr := e, bg := [] }

/-- the argument parsing of `cmdKill`: `none` = Fatalf (unknown signal, usage), `some name` -/
def killArgs (args : List Bytes) : Option Bytes :=
  let known (a : Bytes) : Bool := a.tail = lit "INT" || a.tail = lit "KILL"
  match args with
  | [] => some []
  | [a] => if a.head? = some 45 then (if known a then some [] else none) else some a
  | [a, b] => if a.head? = some 45 then (if known a then some b else none) else some a
  | _ => none

def cmdKill : Cmd St := fun _ s neg args =>
  match killArgs args with
  | none => fatal s
  | some name =>
    if neg then fatal s else
    if name.isEmpty then
      match signalAll s.bg with
      | none => unm s
      | some bgs => okay { s with bg := bgs }
    else
      match findBg s.bg name with
      | none => fatal s      -- unknown background process
      | some _ =>
        match signalOne s.bg name with
        | none => unm s
        | some bgs => okay { s with bg := bgs }

/-- `cmdExec`.  Usage; a last word matching `backgroundSpecifier` starts the command in the background
(duplicate name: Fatalf; `args[1:len(args)-1]` with the specifier as the only word: a run-time panic),
stdout / stderr are cleared and a start error is judged against `!`; otherwise the command runs to
completion, its outputs become stdout / stderr and its status is judged against `!`.
`ts.stdin` is consumed once the program has been found. -/
def execBg (s : St) (neg : Bool) (prog : Bytes) (hargs : List Bytes) (name : Bytes) : St × Outcome :=
  match progOf prog with
  | .unmodelled => unm s
  | .notFound =>
    let s1 := { s with stdout := [], stderr := [] }
    if neg then okay s1 else fatal s1
  | .helper =>
    match runHelper s.stdin hargs with
    | none => unm s
    | some r =>
      okay { s with stdin := [], stdout := [], stderr := [],
                    bg := s.bg ++ [⟨name, neg, r.out, r.err, r.status, r.blocks, false⟩] }

def execFg (s : St) (neg : Bool) (prog : Bytes) (hargs : List Bytes) : St × Outcome :=
  match progOf prog with
  | .unmodelled => unm s
  | .notFound =>
    let s1 := { s with stdout := [], stderr := [] }
    if neg then okay s1 else fatal s1
  | .helper =>
    match runHelper s.stdin hargs with
    | none => unm s
    | some r =>
      if r.blocks then unm s else     -- never returns
      let s1 := { s with stdin := [], stdout := r.out, stderr := r.err }
      if (r.status == 0) == neg then fatal s1 else okay s1

def cmdExec : Cmd St := fun _ s neg args =>
  match args with
  | [] => fatal s
  | prog :: rest =>
    -- usage: no program, only a background specifier (`&`, and since the repair also `&name&`)
    if rest.isEmpty && (if Gen.TsRun.execRejectsLoneBgSpec then isBgSpec prog else prog = [38]) then fatal s
    else if !s.fs.isDir s.cd then unm s
    else if isBgSpec ((rest.getLast?).getD prog) then
      if (findBg s.bg (bgNameOf ((rest.getLast?).getD prog))).isSome then fatal s
      else if rest.isEmpty then (s, .crash)      -- args[1:0]: slice bounds out of range
      else execBg s neg prog rest.dropLast (bgNameOf ((rest.getLast?).getD prog))
    else execFg s neg prog rest

def cmdUnmodelled : Cmd St := fun _ s _ _ => unm s

/-- `scriptCmds`. -/
def builtinTable (p : P) : List (Bytes × Cmd St) :=
  [ (lit "cd", cmdCd), (lit "chmod", cmdUnmodelled), (lit "cmp", cmdCmp p), (lit "cmpenv", cmdCmpenv p),
    (lit "cp", cmdCp), (lit "env", cmdEnv), (lit "exec", cmdExec), (lit "exists", cmdExists),
    (lit "grep", cmdGrep), (lit "kill", cmdKill), (lit "mkdir", cmdMkdir), (lit "mv", cmdMv),
    (lit "rm", cmdRm), (lit "skip", cmdSkip), (lit "stderr", cmdStderr), (lit "stdin", cmdStdin),
    (lit "stdout", cmdStdout), (lit "ttyin", cmdUnmodelled), (lit "ttyout", cmdTtyout), (lit "stop", cmdStop),
    (lit "symlink", cmdUnmodelled), (lit "unix2dos", cmdUnmodelled), (lit "unquote", cmdUnquote),
    (lit "wait", cmdWait) ]

def builtinNames : List Bytes := (builtinTable ⟨false, false, false, false, false, false, [], []⟩).map (·.1)

/-! ### the harness's Params.Cmds -/

def cmdProbe : Cmd St := fun _ s neg args =>
  okay { s with probes := s.probes ++ [(if neg then [BANG] else []) ++ join [44] args] }

def cmdFailcmd : Cmd St := fun _ s _ _ => fatal s

/-- `put out|err|file:PATH nl|nonl line…`: the lines joined by '\n' (plus a final '\n' for `nl`) go to
`ts.Stdout()`, `ts.Stderr()` (either resets *both* buffers in clearBuiltinStd) or `os.WriteFile`. -/
def cmdPut : Cmd St := fun _ s neg args =>
  if neg then fatal s else
  match args with
  | target :: mode :: lines =>
    if mode ≠ lit "nl" ∧ mode ≠ lit "nonl" then fatal s else
    let content := join [NL] lines ++ (if mode = lit "nl" then [NL] else [])
    if target = lit "out" then okay { s with stdout := content, stderr := [] }
    else if target = lit "err" then okay { s with stdout := [], stderr := content }
    else if (lit "file:").isPrefixOf target then
      match resolve s.cd (target.drop 5) with
      | none => unm s
      | some p =>
        match s.fs.write p content with
        | none => fatal s
        | some fs' => okay { s with fs := fs' }
    else fatal s
  | _ => fatal s

/-- registered under the builtin name `exists`: must never be reached -/
def cmdShadow : Cmd St := fun _ s _ _ => okay { s with probes := s.probes ++ [lit "SHADOW"] }

def customTable (p : P) : List (Bytes × Cmd St) :=
  if p.customCmds then
    [(lit "probe", cmdProbe), (lit "failcmd", cmdFailcmd), (lit "put", cmdPut), (lit "exists", cmdShadow)]
  else []

/-! ### the concrete Config -/

def parseFor (s : St) (line : Bytes) : Option (List Bytes) :=
  match tokenize s.env line with
  | .ok a => some a
  | .fatal => none
  | .unmodelled => none   -- excluded beforehand by `lineSupported`

def condFor (p : P) (_ : St) (name : Bytes) : Option Bool :=
  match condOf p name with
  | .val b => some b
  | _ => none

def config (p : P) : Config St :=
  { continueOnError := p.continueOnError
    parse := parseFor
    cond := condFor p
    builtin := fun n => (builtinTable p).lookup n
    custom := fun n => (customTable p).lookup n }

/-! ### setup -/

def setupFiles (p : P) (s : St) : List Txtar.File → Except St St
  | [] => .ok s
  | f :: fs =>
    match expand s.env f.name with
    | none => .error { s with unmodelled := true }
    | some name =>
      match resolve s.cd name with
      | none => .error { s with unmodelled := true }
      | some path =>
        let s := { s with scriptFiles := (path, f.name) :: s.scriptFiles.filter (fun e => e.1 ≠ path) }
        match s.fs.mkdirAll (parent path) with
        | none => .error s
        | some fs1 =>
          let s := { s with fs := fs1 }
          if p.requireUniqueNames && s.fs.exists path then .error s
          else match s.fs.write path f.data with
            | none => .error s
            | some fs2 => setupFiles p { s with fs := fs2 } fs

/-! ### whole run of one script file -/

structure Final where
  verdict : Verdict
  reported : Option Nat
  probes : List Bytes
  fs : FS
  file : Bytes
  unmodelled : Bool

/-- a syntactic pre-check: the tokenizer fragment covers every line, and every guard word names a
modelled condition -/
def lineSupported (p : P) (s : St) (line : Bytes) : Bool :=
  if isComment line then true else
  match tokenize s.env line with
  | .unmodelled => false
  | .fatal => true
  | .ok args => args.all fun w =>
      if isGuardWord w then (match condOf p (guardCond w).2 with | .unmodelled => false | _ => true) else true

def runFile (p : P) (file : Bytes) : Option Final :=
  match Txtar.parse file with
  | none => none
  | some a =>
    let supported := (splitScript a.comment).all (lineSupported p initSt)
    let su := setupFiles p initSt a.files
    let r := runT (config p) su a.comment
    let setupFailed := match su with | .error _ => true | .ok _ => false
    let u := r.state.updates
    -- `defer ts.applyScriptUpdates()` is only registered once setup has returned
    let applies := !(setupFailed && Gen.TsRunUpdate.applyDeferredAfterSetup)
    let fin : Verdict × Bytes := if applies then finish r.verdict file a u else (r.verdict, file)
    -- a refused Quote is a Fatalf: one more `FAIL: file:line:` entry, at the current ts.lineno
    let quoteErr : Bool := applies && !u.isEmpty &&
      (match applyUpdates a u with | .error .quote => true | _ => false)
    let reported := match r.reported with
      | some n => some n
      | none => if quoteErr then some r.lineno else none
    some ⟨fin.1, reported, r.state.probes, r.state.fs, fin.2, r.state.unmodelled || !supported⟩

end GIV.TsRun.Cmds
