/-
  GIV.Model.ScriptUpdate — Params.UpdateScripts (property C16):

    cmd.go         doCmdCmp          the comparison, and the "record an update instead of failing" branch
    testscript.go  setup             ts.scriptFiles[abs path] = entry name
                   applyScriptUpdates (deferred in run() after setup): NeedsQuote / Quote per updated
                                     entry, Format, one write of the script file

  `doCmp` is stated over what the command has read (the two texts, whether the second path is a key of
  `ts.scriptFiles`); reading them from the file system is part of the concrete command model
  (GIV.Model.ScriptCmds).  The archive functions are those of GIV.Model.Txtar.
-/
import GIV.Basic
import GIV.Model.Txtar
import GIV.Model.Script
import GIV.Gen.TsRunUpdate

namespace GIV.TsRun.Update
open GIV GIV.Txtar

/-- `ts.scriptUpdates`: entry name ↦ new content. A Go map: one binding per name, the last write wins. -/
abbrev Updates := List (Bytes × Bytes)

def lookupU (u : Updates) (name : Bytes) : Option Bytes :=
  match u with
  | [] => none
  | (n, c) :: rest => if n = name then some c else lookupU rest name

/-- `ts.scriptUpdates[name] = content`. -/
def record (u : Updates) (name content : Bytes) : Updates :=
  (name, content) :: u.filter (fun e => e.1 ≠ name)

/-- What doCmdCmp has in hand after its reads succeeded. -/
structure CmpIn where
  /-- `ts.params.UpdateScripts` -/
  updateScripts : Bool
  /-- called as `cmpenv` -/
  env : Bool
  neg : Bool
  /-- `ts.ReadFile(name1)`: stdout, stderr or a file — the actual content -/
  text1 : Bytes
  /-- the second file, after `ts.expand` when `env` -/
  text2 : Bytes
  /-- `ts.scriptFiles[ts.MkAbs(name2)]`: the archive entry the second path was extracted from, if any -/
  entry : Option Bytes

inductive CmpOut
  | ok
  | fatal                                   -- "… differ" / "… do not differ"
  | recorded (name : Bytes) (content : Bytes)  -- returns normally after `ts.scriptUpdates[name] = content`
deriving DecidableEq, Repr

/-- The update test of doCmdCmp: `ts.params.UpdateScripts && !env`, then membership in scriptFiles. -/
def updateApplies (i : CmpIn) : Bool :=
  if Gen.TsRunUpdate.updateCondFlagAndNotEnv then i.updateScripts && !i.env else i.updateScripts

/-- doCmdCmp from `eq := text1 == text2` on. -/
def doCmp (i : CmpIn) : CmpOut :=
  let eq : Bool := i.text1 == i.text2
  let upd : CmpOut :=
    if updateApplies i then
      match (if Gen.TsRunUpdate.updateKeyIsAbsName2 then i.entry else none) with
      | some name => .recorded name (if Gen.TsRunUpdate.updateStoresText1 then i.text1 else i.text2)
      | none => .fatal
    else .fatal
  if Gen.TsRunUpdate.updateAfterNegAndEq then
    if i.neg then (if eq then .fatal else .ok)
    else if eq then .ok
    else upd
  else
    -- (shape lost: the update test would come first)
    match upd with
    | .recorded n c => .recorded n c
    | _ => if i.neg then (if eq then .fatal else .ok) else if eq then .ok else .fatal

inductive ApplyErr
  | quote   -- txtar.Quote refused: ts.Fatalf("cannot update script file …")
  | panic   -- a Go panic inside NeedsQuote
deriving DecidableEq, Repr

/-- The bytes stored for new content `c`: `c` itself, or `Quote(c)` when `NeedsQuote(c)`. -/
def updData (c : Bytes) : Except ApplyErr Bytes :=
  match needsQuote c with
  | none => .error .panic
  | some nq =>
    if nq && Gen.TsRunUpdate.applyQuotesWhenNeeded then
      match quote c with
      | .ok q => .ok q
      | .error _ => .error .quote
    else .ok c

def applyFile (u : Updates) (f : File) : Except ApplyErr File :=
  match lookupU u f.name with
  | none => .ok f
  | some c =>
    match updData c with
    | .ok d => .ok ⟨f.name, d⟩
    | .error e => .error e

def applyFiles (u : Updates) : List File → Except ApplyErr (List File)
  | [] => .ok []
  | f :: fs =>
    match applyFile u f with
    | .error e => .error e
    | .ok f' =>
      match applyFiles u fs with
      | .error e => .error e
      | .ok fs' => .ok (f' :: fs')

/-- The loops of applyScriptUpdates: every entry whose name has an update gets the new bytes.
(The Go loop is per update, then per entry; every update name is an entry name because it was read
out of `ts.scriptFiles`, so "update not found" cannot happen.) -/
def applyUpdates (a : Archive) (u : Updates) : Except ApplyErr Archive :=
  match applyFiles u a.files with
  | .ok fs => .ok ⟨a.comment, fs⟩
  | .error e => .error e

/-- What the deferred applyScriptUpdates makes of the run: the verdict and the bytes of the script
file afterwards (`file` = its bytes before, `a` = `txtar.Parse file`, `v` = the verdict so far). -/
def finish (v : Verdict) (file : Bytes) (a : Archive) (u : Updates) : Verdict × Bytes :=
  if u.isEmpty && Gen.TsRunUpdate.applyNoopWhenEmpty then (v, file) else
  match applyUpdates a u with
  | .ok a' => (v, if Gen.TsRunUpdate.applyWritesFormat then format a' else file)
  | .error .quote =>
    -- Fatalf: caught by the deferred catchFailNow → T.FailNow (replacing whatever was unwinding);
    -- uncaught it is a failNow panic that nobody recovers
    (if Gen.TsRunUpdate.updateFatalCaught then .fail else .crash, file)
  | .error .panic => (.crash, file)

/-- Content that a txtar entry can hold verbatim. -/
def Representable (c : Bytes) : Prop :=
  (c = [] ∨ c.getLast? = some NL) ∧ needsQuote c = some false

end GIV.TsRun.Update
