/-
  GIV.Model.TsLifeDl — executable model of testscript's deadline handling (property C17)
  (/repo/testscript/testscript.go: RunT's deadline block, exec, waitOrStop; cmd.go: cmdExec).

    §1 the grace-period arithmetic of RunT;
    §6 `waitOrStop` as a transition system with three actors (waiter, stopper goroutine, process)
       and an abstract clock;
    §7 the error attribution of `cmdExec`.

  Every constant / deciding expression comes from `GIV.Gen.TsLifeDl` (regenerated from the source
  on every run).  Structural facts that the model cannot consume as a value are collected in the
  `F…` classes; the lemmas are proved under them and `GIV/Props/C17.lean` discharges them by `rfl`.
  OS behaviour (signal delivery, process exit, wall clock) is nondeterminism of the transition
  system, never a function.  The C04 part (environment, unpacking, run skeleton, cleanup) is
  GIV/Model/TsLife.lean; the two chains share nothing but GIV.Basic.
-/
import GIV.Basic
import GIV.Gen.TsLifeDl

namespace GIV.TsLife
open GIV

/-! ## §1 grace-period arithmetic (RunT) -/

/-! Go `time.Duration` values are nanoseconds as unbounded integers (`Int`); int64 overflow needs a
deadline more than 146 years away and is not modelled. -/

/-- `gp := timeout / 20; if gp > gracePeriod { gracePeriod = gp }` starting from the default. Go's
`/` on integers truncates toward zero: `Int.tdiv`. -/
def grace (timeout : Int) : Int :=
  let gp := Int.tdiv timeout Gen.TsLifeDl.graceDivisor
  if (if Gen.TsLifeDl.graceCmpStrict then decide (gp > Gen.TsLifeDl.defaultGraceNs) else decide (gp ≥ Gen.TsLifeDl.defaultGraceNs))
  then gp else Gen.TsLifeDl.defaultGraceNs

/-- `timeout -= 2 * gracePeriod`: the argument of `context.WithTimeout`. -/
def ctxTimeout (timeout : Int) : Int := timeout - Gen.TsLifeDl.reservedGraces * grace timeout

/-- kill delay of a foreground `exec` (`waitOrStop(ts.ctxt, cmd, ts.gracePeriod)`). -/
def fgKillDelay (timeout : Int) : Int := grace timeout

/-- The plan for a run whose deadline is `timeout` away: offsets from the moment RunT is called. -/
structure Plan where
  grace : Int
  interruptAt : Int   -- the context expires: blocked foreground commands get the interrupt
  killAt : Int        -- commands that ignore it are killed
  deriving Repr, DecidableEq

def plan (timeout : Int) : Plan :=
  ⟨grace timeout, ctxTimeout timeout, ctxTimeout timeout + fgKillDelay timeout⟩

/-- When the context of a script expires, on a clock on which RunT is called at `call` and the
script's subtest function starts at `start` (≥ `call`: later when subtests run one after the other
or wait for a free slot): ONE context for the whole RunT call, created when RunT is called — or
one per script, created when the script starts (what `ctxCreatedOncePerRun = false` would mean:
the relative timeout would then count from the script's start). -/
def scriptCtxExpiry (call start timeout : Int) : Int :=
  (if Gen.TsLifeDl.ctxCreatedOncePerRun then call else start) + ctxTimeout timeout

/-- structural facts behind §1: the order of the four statements and that every script gets this
context and this grace period, which `exec` hands to waitOrStop as the kill delay. -/
class FDeadline : Prop where
  order : Gen.TsLifeDl.deadlineOrder = true
  fields : Gen.TsLifeDl.tsGetsCtxAndGrace = true
  fg : Gen.TsLifeDl.fgKillDelayIsGrace = true

/-! ## §6 waitOrStop: waiter, stopper goroutine, process, abstract clock -/

/-- how the process ended -/
inductive Fate where
  | own      -- exited by itself
  | bySig    -- because of the interrupt
  | byKill
  deriving Repr, DecidableEq

inductive Proc where
  | running (pendInt pendKill : Bool)   -- signals delivered and not (yet) acted upon
  | exited (how : Fate)
  deriving Repr, DecidableEq

/-- non-nil error values the stopper can send -/
inductive SErr where
  | ctxErr    -- ctx.Err()
  | other     -- the error of a failed Signal call
  deriving Repr, DecidableEq

inductive Waiter where
  | waiting                       -- inside cmd.Wait()
  | ready                         -- Wait returned; at `<-errc`
  | returned (v : Option SErr)    -- received v
  deriving Repr, DecidableEq

inductive Stopper where
  | sel1                                  -- select { errc <- nil | <-ctx.Done() }
  | sig                                   -- about to call cmd.Process.Signal(interrupt)
  | sendNil                               -- errc <- nil (ErrProcessDone)
  | sel2 (err : SErr) (start : Nat)       -- select { errc <- ctx.Err() | <-timer.C }, timer started at `start`
  | kill (err : SErr)                     -- about to call cmd.Process.Kill()
  | sendErr (err : SErr)                  -- errc <- err
  | done
  deriving Repr, DecidableEq

/-- scenario class: the parameters waitOrStop does not control. -/
structure Scn where
  killDelay : Int
  deadline : Option Nat   -- when the context expires on the abstract clock; none = no deadline
  mayExit : Bool          -- the process may exit by itself, at any moment
  onInt : Bool            -- the process exits, after an arbitrary delay, once the interrupt was delivered
  deriving Repr, DecidableEq

structure St where
  now : Nat
  ctxDone : Bool
  proc : Proc
  w : Waiter
  s : Stopper
  sends : Nat
  recvs : Nat
  sigAt : Option Nat      -- when cmd.Process.Signal was called
  delivered : Bool        -- … and reached a live process
  killAt : Option Nat     -- when cmd.Process.Kill was called
  deriving Repr, DecidableEq

def St.init : St := ⟨0, false, .running false false, .waiting, .sel1, 0, 0, none, false, none⟩

/-- result of `cmd.Process.Signal` -/
inductive SigRes where
  | ok | processDone | other
  deriving Repr, DecidableEq

inductive Lbl where
  | ctxFire (t : Nat)
  | exitOwn (t : Nat)
  | exitSig (t : Nat)
  | exitKill (t : Nat)
  | waitRet (t : Nat)
  | sendRecv (t : Nat)        -- rendezvous on the unbuffered errc
  | selCtx (t : Nat)          -- the first select takes `<-ctx.Done()`
  | signal (t : Nat) (r : SigRes)
  | timer (t : Nat)           -- the second select takes `<-timer.C`
  | kill (t : Nat)
  deriving Repr, DecidableEq

def Lbl.time : Lbl → Nat
  | .ctxFire t | .exitOwn t | .exitSig t | .exitKill t | .waitRet t | .sendRecv t | .selCtx t
  | .signal t _ | .timer t | .kill t => t

/-- `if killDelay > 0` -/
def killArmed (kd : Int) : Bool :=
  if Gen.TsLifeDl.wosKillGuardStrict then decide (kd > 0) else decide (kd ≥ 0)

/-- what the stopper offers on errc in its current state -/
def Stopper.offer : Stopper → Option (Option SErr)
  | .sel1 => some none
  | .sendNil => some none
  | .sel2 _ _ => some (some .ctxErr)
  | .sendErr e => some (some e)
  | _ => none

def afterSignal (c : Scn) (e : SErr) (t : Nat) : Stopper :=
  if killArmed c.killDelay then .sel2 e t else .sendErr e

def stepCore (c : Scn) (s : St) : Lbl → Option St
  | .ctxFire t =>
    match c.deadline with
    -- once waitOrStop has returned nobody in this system looks at the context any more
    | some d => if !s.ctxDone && d ≤ t && s.s != .done then some { s with ctxDone := true } else none
    | none => none
  | .exitOwn _ =>
    match s.proc with
    | .running _ _ => if c.mayExit then some { s with proc := .exited .own } else none
    | _ => none
  | .exitSig _ =>
    match s.proc with
    | .running true _ => if c.onInt then some { s with proc := .exited .bySig } else none
    | _ => none
  | .exitKill _ =>
    match s.proc with
    | .running _ true => some { s with proc := .exited .byKill }
    | _ => none
  | .waitRet _ =>
    match s.w, s.proc with
    | .waiting, .exited _ => some { s with w := .ready }
    | _, _ => none
  | .sendRecv _ =>
    match s.w, s.s.offer with
    | .ready, some v => some { s with w := .returned v, s := .done, sends := s.sends + 1, recvs := s.recvs + 1 }
    | _, _ => none
  | .selCtx _ =>
    match s.s with
    | .sel1 => if s.ctxDone then some { s with s := .sig } else none
    | _ => none
  | .signal t r =>
    match s.s with
    | .sig =>
      match s.proc, r with
      | .running _ pk, .ok => some { s with proc := .running true pk, delivered := true, sigAt := some t, s := afterSignal c .ctxErr t }
      | .running _ _, .other => some { s with sigAt := some t, s := afterSignal c .other t }
      | .running _ _, .processDone => none
      | .exited _, .ok => some { s with sigAt := some t, s := afterSignal c .ctxErr t }
      | .exited _, .processDone => some { s with sigAt := some t, s := .sendNil }
      | .exited _, .other => none
    | _ => none
  | .timer t =>
    match s.s with
    | .sel2 e st => if (st : Int) + c.killDelay ≤ (t : Int) then some { s with s := .kill e } else none
    | _ => none
  | .kill t =>
    match s.s with
    | .kill e =>
      let p := match s.proc with
        | .running pi _ => Proc.running pi true
        | p => p
      some { s with proc := p, killAt := some t, s := .sendErr e }
    | _ => none

/-- one step: time never goes back. -/
def step (c : Scn) (s : St) (l : Lbl) : Option St :=
  if s.now ≤ l.time then
    match stepCore c s l with
    | some s' => some { s' with now := l.time }
    | none => none
  else none

def runLbls (c : Scn) (s : St) : List Lbl → Option St
  | [] => some s
  | l :: rest => match step c s l with
    | none => none
    | some s' => runLbls c s' rest

/-- what waitOrStop returns -/
inductive Res where
  | interruptErr (e : SErr)
  | waitStatus (how : Fate)
  deriving Repr, DecidableEq

def St.result (s : St) : Option Res :=
  match s.w, s.proc with
  | .returned (some e), _ => some (.interruptErr e)
  | .returned none, .exited h => some (.waitStatus h)
  | _, _ => none

/-- waitOrStop has returned and its goroutine is gone. -/
def St.final (s : St) : Bool :=
  (match s.w with | .returned _ => true | _ => false) && s.s == .done && s.sends == 1 && s.recvs == 1

/-- candidate labels at time `t` (for enumeration in the driver and for examples). -/
def labelsAt (t : Nat) : List Lbl :=
  [.ctxFire t, .exitOwn t, .exitSig t, .exitKill t, .waitRet t, .sendRecv t, .selCtx t,
   .signal t .ok, .signal t .processDone, .signal t .other, .timer t, .kill t]

/-- the time at which the enumeration tries labels: late enough for the context and the timer. -/
def probeTime (c : Scn) (s : St) : Nat :=
  let a := match c.deadline with | some d => d | none => 0
  let b := match s.s with | .sel2 _ st => ((st : Int) + c.killDelay).toNat | _ => 0
  max s.now (max a b)

/-- coarse outcome of an execution, comparable with what a harness can observe from outside. -/
structure Coarse where
  ctxDone : Bool
  delivered : Bool      -- the helper saw the interrupt (or died from it)
  killed : Bool         -- Kill was called while the process was alive / the helper died by SIGKILL
  res : Res
  deriving Repr, DecidableEq

def St.coarse (s : St) : Option Coarse :=
  match s.result with
  | some r => some ⟨s.ctxDone, s.delivered, s.proc == .exited .byKill, r⟩
  | none => none

/-- all maximal executions, explored depth-first with fuel; returns the coarse outcomes of the final
states and the number of stuck non-final states. -/
def explore (c : Scn) : Nat → St → List Coarse × Nat
  | 0, _ => ([], 1)
  | fuel + 1, s =>
    let succs := (labelsAt (probeTime c s)).filterMap (step c s)
    if succs.isEmpty then
      if s.final then (match s.coarse with | some x => ([x], 0) | none => ([], 1)) else ([], 1)
    else succs.foldl (fun acc s' =>
      let r := explore c fuel s'
      (r.1.foldl (fun l x => if l.contains x then l else l ++ [x]) acc.1, acc.2 + r.2)) ([], 0)

class FWos : Prop where
  unbuffered : Gen.TsLifeDl.wosUnbuffered = true
  firstSelect : Gen.TsLifeDl.wosFirstSelect = true
  attribution : Gen.TsLifeDl.wosSignalAttribution = true
  guardStrict : Gen.TsLifeDl.wosKillGuardStrict = true
  secondSelect : Gen.TsLifeDl.wosSecondSelect = true
  finalSend : Gen.TsLifeDl.wosFinalSendErr = true
  waitThenRecv : Gen.TsLifeDl.wosWaitThenRecv = true

/-! ## §7 cmdExec: error attribution -/

inductive ExecOutcome where
  | ok
  | fatal (msg : String)
  deriving Repr, DecidableEq

/-- foreground `exec`: `err` = waitOrStop (or Start) returned a non-nil error; `ctxErrNow` =
`ts.ctxt.Err() != nil` when the check runs. -/
def cmdExecOutcome (neg err ctxErrNow : Bool) : ExecOutcome :=
  if !err then
    if neg && Gen.TsLifeDl.successNegFatal then .fatal "unexpected command success" else .ok
  else if Gen.TsLifeDl.timeoutCheckedFirst then
    if ctxErrNow then .fatal Gen.TsLifeDl.timedOutMsg
    else if !neg then .fatal "unexpected command failure" else .ok
  else
    if !neg then .fatal "unexpected command failure"
    else if ctxErrNow then .fatal Gen.TsLifeDl.timedOutMsg else .ok

/-- `err != nil` as seen by cmdExec, from the result of waitOrStop: an interrupt error, or the
process's own failure status (`ownFailed`). -/
def Res.isErr (ownFailed : Bool) : Res → Bool
  | .interruptErr _ => true
  | .waitStatus .own => ownFailed
  | .waitStatus _ => true      -- killed by a signal: *exec.ExitError

end GIV.TsLife
