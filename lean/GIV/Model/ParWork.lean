/-
  GIV.Model.ParWork — par.Work (par/work.go: Add, Do, runner) as a labelled transition system.

  One step = one event logged by the instrumented run (harness/vshim): the operations on the one
  mutex and the one condition variable (`lock unlock wait wake signal broadcast`), `rand`, and the
  driver's events (`start exit go do-call do-return f-enter f-exit panic`).  `spurious` (a spurious
  wake-up of a cond waiter) is an extra label that never occurs in a vshim trace; the safety
  theorems cover it, termination is stated without it.

  Every task carries its PROGRAM as a program counter; `step c s t e` accepts event `e` of task `t`
  only if `e` is the next operation of `t`'s program in state `s`, the operation is enabled
  (mutex free, waiter woken) and its logged result (`signal -> t3`, `broadcast -> 2`,
  `rand 3 -> 1`) is the one the state determines.  The code between two events runs atomically with
  the event that precedes it (one task runs at a time between scheduling points, and all of that
  code is under the mutex).

  Deciding expressions and the order of operations come from GIV.Gen.ParWork (regenerated from source).
  Core Lean only.
-/
import GIV.Gen.ParWork
namespace GIV.ParWork
open GIV.Gen.ParWork

abbrev Item := Nat
abbrev TaskId := Nat

/-- A scenario: `Do(n, f)` after `Add(init[0]) … Add(init[k-1])`, where `f x` calls `Add` on `children x` in order. -/
structure Cfg where
  n : Nat
  init : List Item
  children : Item → List Item

/-- Who called `Add`: the main task before `Do` (`j`-th initial item) or `f x` (its `k`-th child). -/
inductive Cont
  | main (j : Nat)
  | inF (x : Item) (k : Nat)
  deriving DecidableEq, Repr

/-- Program counters: the name says which event the task performs next. -/
inductive Pc
  | absent                 -- no such task (yet)
  | init                   -- created, `start` not logged yet
  | mainAdd (j : Nat)      -- main: `lock` of Add(init[j]), or `do-call` when j = |init|
  | panicNext              -- Do panics (n < 1)
  | spawn (i : Nat)        -- main inside Do: `go t_i`
  | lockTop                -- runner: `w.mu.Lock()` at the top of the outer loop
  | wait                   -- runner holds mu, waiting was incremented: `w.wait.Wait()` (release + enqueue)
  | wake                   -- runner is in the wait set / woken: re-acquire mu
  | bcast                  -- all done detected: `w.wait.Broadcast()`
  | unlockRet              -- all done: `w.mu.Unlock()` then return
  | returned               -- runner returned: `do-return` (main) / `exit`
  | retd                   -- main after do-return: `exit`
  | exited
  | rand                   -- runner holds mu, todo non-empty: `rand.Intn`
  | unlockRun (x : Item)   -- picked x: `w.mu.Unlock()`
  | fEnter (x : Item)      -- about to call f x
  | inF (x : Item) (k : Nat)  -- inside f x, k children added: `lock` of Add(child k) or `f-exit`
  | addSignal (c : Cont)   -- inside Add holding mu: `w.wait.Signal()`
  | addUnlock (c : Cont)   -- inside Add holding mu: `w.mu.Unlock()`
  deriving DecidableEq, Repr

inductive Event
  | start | exit | panic
  | lock | unlock | wait | wake | spurious
  | signal (res : Option TaskId)      -- `signal c0 -> t3` / `-> none`
  | broadcast (cnt : Nat)             -- `broadcast c0 -> 2`
  | rand (len k : Nat)                -- `rand 3 -> 1`
  | fEnter (x : Item) | fExit (x : Item)
  | doCall (n : Nat) | doReturn
  | go (child : TaskId)
  deriving DecidableEq, Repr

structure State where
  added : List Item       -- w.added (as a duplicate free list)
  todo : List Item        -- w.todo
  waiting : Int           -- w.waiting
  running : Int           -- w.running
  owner : Option TaskId   -- w.mu
  waiters : List TaskId   -- w.wait: not yet signalled, FIFO
  woken : List TaskId     -- w.wait: signalled, have not re-acquired mu yet
  pc : TaskId → Pc
  calls : List Item       -- ghost: items f was called on, in order

def upd (f : TaskId → Pc) (t : TaskId) (p : Pc) : TaskId → Pc := fun i => if i = t then p else f i

def State.setPc (s : State) (t : TaskId) (p : Pc) : State := { s with pc := upd s.pc t p }

def init0 : State :=
  { added := [], todo := [], waiting := 0, running := 0, owner := none, waiters := [], woken := [],
    pc := fun t => if t = 0 then .init else .absent, calls := [] }

/-- Every shape fact the program structure below relies on; if the source no longer has this
shape the model accepts nothing (and the non-vacuity examples fail). -/
def shapeOK : Bool :=
  lockAtLoopTop && unlockOnAllDone && waitAfterTest && pickIsSwapRemove && unlockBeforeF &&
  addUnderLock && addMarksAndAppends && doSetsRunningThenSpawns

/-- `w.todo[i] = w.todo[len-1]; w.todo = w.todo[:len-1]`. -/
def swapRemove (l : List Item) (k : Nat) : List Item :=
  match l.getLast? with
  | some z => (l.set k z).dropLast
  | none => []

/-- After `do-call` / `go`: the next `go`, or main becomes a runner itself. -/
def afterSpawn (c : Cfg) (i : Nat) : Pc :=
  if (i : Int) ≤ spawnCount c.n then .spawn i else .lockTop

def resume : Cont → Pc
  | .main j => .mainAdd (j + 1)
  | .inF x k => .inF x (k + 1)

/-- Header of `for len(w.todo) == 0 { w.waiting++; if w.waiting == w.running {…}; w.wait.Wait(); … }`
evaluated by `t` (holding mu) up to its next event. -/
def loopHead (s : State) (t : TaskId) : State :=
  if loopTest s.todo.length then
    let w := if incrementBeforeTest then s.waiting + 1 else s.waiting
    if allDone w s.running then
      { s with waiting := w, pc := upd s.pc t (if broadcastOnAllDone then .bcast else .unlockRet) }
    else
      { s with waiting := w, pc := upd s.pc t .wait }
  else
    { s with pc := upd s.pc t .rand }

/-- Body of `Add(x)` after `w.mu.Lock()` up to its next event. -/
def addBody (s : State) (t : TaskId) (k : Cont) (x : Item) : State :=
  if addGuard (decide (x ∈ s.added)) then
    let s1 := { s with added := x :: s.added, todo := s.todo ++ [x] }
    if signalWhenWaiting && signalTest s.waiting then s1.setPc t (.addSignal k) else s1.setPc t (.addUnlock k)
  else
    s.setPc t (.addUnlock k)

def lockStep (s : State) (t : TaskId) : Option State :=
  if s.owner = none then some { s with owner := some t } else none

def unlockStep (s : State) : Option State :=
  if s.owner.isSome then some { s with owner := none } else none

/-- The transition function. -/
def step (c : Cfg) (s : State) (t : TaskId) (e : Event) : Option State :=
  if !shapeOK then none else
  match s.pc t with
  | .absent => none
  | .exited => none
  | .init =>
    if e = .start then some (s.setPc t (if t = 0 then .mainAdd 0 else .lockTop)) else none
  | .mainAdd j =>
    match c.init[j]? with
    | some x =>
      if e = .lock then (lockStep s t).map (fun s1 => addBody s1 t (.main j) x) else none
    | none =>
      if e = .doCall c.n then
        some ({ s with running := c.n }.setPc t (if doPanics c.n then .panicNext else afterSpawn c 1))
      else none
  | .panicNext => if e = .panic then some (s.setPc t .exited) else none
  | .spawn i =>
    if e = .go i then some ((s.setPc i .init).setPc t (afterSpawn c (i + 1))) else none
  | .lockTop =>
    if e = .lock then (lockStep s t).map (fun s1 => loopHead s1 t) else none
  | .wait =>
    if e = .wait then (unlockStep s).map (fun s1 => { s1 with waiters := s1.waiters ++ [t] }.setPc t .wake) else none
  | .wake =>
    if e = .wake then
      if t ∈ s.woken then
        (lockStep s t).map (fun s1 =>
          loopHead { s1 with woken := s1.woken.erase t, waiting := if decrementAfterWait then s1.waiting - 1 else s1.waiting } t)
      else none
    else if e = .spurious then
      if t ∈ s.waiters then some { s with waiters := s.waiters.erase t, woken := t :: s.woken } else none
    else none
  | .bcast =>
    if e = .broadcast s.waiters.length then
      some ({ s with woken := s.waiters ++ s.woken, waiters := [] }.setPc t .unlockRet)
    else none
  | .unlockRet =>
    if e = .unlock then (unlockStep s).map (fun s1 => s1.setPc t .returned) else none
  | .returned =>
    if t = 0 then (if e = .doReturn then some (s.setPc t .retd) else none)
    else (if e = .exit then some (s.setPc t .exited) else none)
  | .retd => if e = .exit then some (s.setPc t .exited) else none
  | .rand =>
    match e with
    | .rand len k =>
      match s.todo[k]? with
      | some x =>
        if len = s.todo.length then some ({ s with todo := swapRemove s.todo k }.setPc t (.unlockRun x)) else none
      | none => none
    | _ => none
  | .unlockRun x =>
    if e = .unlock then (unlockStep s).map (fun s1 => s1.setPc t (.fEnter x)) else none
  | .fEnter x =>
    if e = .fEnter x then some ({ s with calls := s.calls ++ [x] }.setPc t (.inF x 0)) else none
  | .inF x k =>
    match (c.children x)[k]? with
    | some ch =>
      if e = .lock then (lockStep s t).map (fun s1 => addBody s1 t (.inF x k) ch) else none
    | none =>
      if e = .fExit x then some (s.setPc t .lockTop) else none
  | .addSignal k =>
    match s.waiters with
    | [] => if e = .signal none then some (s.setPc t (.addUnlock k)) else none
    | w :: rest =>
      if e = .signal (some w) then some ({ s with waiters := rest, woken := w :: s.woken }.setPc t (.addUnlock k)) else none
  | .addUnlock k =>
    if e = .unlock then (unlockStep s).map (fun s1 => s1.setPc t (resume k)) else none

/-- Reachable states of scenario `c`. -/
inductive Reach (c : Cfg) : State → Prop
  | init : Reach c init0
  | step {s s' : State} {t : TaskId} {e : Event} : Reach c s → step c s t e = some s' → Reach c s'

/-- Every task that ever existed has exited (tasks are 0 … n-1 once Do has spawned them). -/
def final (s : State) : Prop := ∀ t, s.pc t = .exited ∨ s.pc t = .absent

/-- inside a call of f (between `f-enter` and `f-exit`) -/
def Pc.insideF : Pc → Bool
  | .inF _ _ => true
  | .addSignal (.inF _ _) => true
  | .addUnlock (.inF _ _) => true
  | _ => false

/-! ### executable helpers for the driver -/

/-- The events task `t` could perform next, ignoring result-carrying arguments the state determines
(`rand` events are only accepted at `.rand`, so they are only listed there). -/
def candidates (c : Cfg) (s : State) (t : TaskId) : List Event :=
  [.start, .exit, .panic, .lock, .unlock, .wait, .wake, .signal none, .signal s.waiters.head?,
   .broadcast s.waiters.length, .doCall c.n, .doReturn] ++
  (match s.pc t with
   | .rand => (List.range s.todo.length).map (fun k => Event.rand s.todo.length k)
   | .fEnter x => [.fEnter x]
   | .inF x _ => [.fExit x]
   | .spawn i => [.go i]
   | _ => [])

/-- `t` has an enabled (non-spurious) step. -/
def enabledTask (c : Cfg) (s : State) (t : TaskId) : Bool :=
  (candidates c s t).any (fun e => (step c s t e).isSome)

def replay (c : Cfg) : State → Nat → List (TaskId × Event) → Except (Nat × String) State
  | s, _, [] => .ok s
  | s, i, (t, e) :: rest =>
    match step c s t e with
    | some s' => replay c s' (i + 1) rest
    | none => .error (i, s!"task {t} at {repr (s.pc t)} cannot do {repr e}")

end GIV.ParWork
