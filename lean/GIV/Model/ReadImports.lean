/-
  GIV.Model.ReadImports — executable model of /repo/imports/read.go
  (importReader: readByte, peekByte, nextByte, readKeyword, readIdent, readString,
  readImport; ReadImports).

  The reader is a byte machine over `St`.  `bufio.Reader` is "next byte or EOF" (`rest`);
  I/O errors other than EOF are not modelled.  `buf` is kept reversed.  Every Go loop is a
  function with explicit fuel (remaining length + a small constant); running out of fuel
  sets the model-only flag `stuck` (never happens: `GIV.C18.readImports_total`).  The
  `nerr > 10000` panic of peekByte sets `panicked`; the model then runs on (harmlessly:
  all loops are bounded) and the final outcome is `Outcome.panic`.
  Constants come from `GIV.Gen.Imports`.
-/
import GIV.Basic
import GIV.Gen.Imports

namespace GIV.ReadImports
open GIV
open GIV.Gen.Imports

inductive Err | syntax | nul
deriving DecidableEq, Repr

structure St where
  rest : Bytes                 -- unread input (the bufio.Reader)
  buf : Bytes                  -- r.buf, reversed
  peek : UInt8
  err : Option Err
  eof : Bool
  nerr : Nat
  imports : List Bytes         -- *imports, in order
  panicked : Bool              -- the "import reader looping" panic has fired
  stuck : Bool                 -- model artefact: some loop ran out of fuel
deriving Repr

def St.init (data : Bytes) : St :=
  { rest := data, buf := [], peek := 0, err := none, eof := false, nerr := 0, imports := [],
    panicked := false, stuck := false }

def isIdent (c : UInt8) : Bool :=
  (65 ≤ c && c ≤ 90) || (97 ≤ c && c ≤ 122) || (48 ≤ c && c ≤ 57) || c = 95 || c ≥ 128

def isSpace (c : UInt8) : Bool := spaceBytes.contains c

def syntaxError (st : St) : St :=
  if st.err.isNone then { st with err := some .syntax } else st

def setStuck (st : St) : St := { st with stuck := true }

/-- `readByte`: next byte (0 on EOF / NUL), appended to `buf`. -/
def readByte (st : St) : UInt8 × St :=
  match st.rest with
  | [] => (0, { st with eof := true })
  | c :: rest' =>
    let st1 := { st with rest := rest', buf := c :: st.buf }
    if c = 0 then (0, if st1.err.isNone then { st1 with err := some .nul } else st1) else (c, st1)

/-- `for c != '\n' && r.err == nil && !r.eof { c = r.readByte() }` -/
def lineLoop : Nat → UInt8 → St → UInt8 × St
  | 0, c, st => (c, if c ≠ 10 && st.err.isNone && !st.eof then setStuck st else st)
  | n+1, c, st =>
    if c ≠ 10 && st.err.isNone && !st.eof then
      let r := readByte st
      lineLoop n r.1 r.2
    else (c, st)

/-- `for (c != '*' || c1 != '/') && r.err == nil { if r.eof { r.syntaxError() }; c, c1 = c1, r.readByte() }` -/
def blockLoop : Nat → UInt8 → UInt8 → St → St
  | 0, c, c1, st => if (c ≠ 42 || c1 ≠ 47) && st.err.isNone then setStuck st else st
  | n+1, c, c1, st =>
    if (c ≠ 42 || c1 ≠ 47) && st.err.isNone then
      let st1 := if st.eof then syntaxError st else st
      let r := readByte st1
      blockLoop n c1 r.1 r.2
    else st

/-- the `for r.err == nil && !r.eof { … }` loop of peekByte; `c` is the current byte. -/
def skipLoop (skipSpace : Bool) : Nat → UInt8 → St → UInt8 × St
  | 0, c, st =>
    (c, if st.err.isNone && !st.eof && skipSpace && (isSpace c || c = 47) then setStuck st else st)
  | n+1, c, st =>
    if st.err.isNone && !st.eof && skipSpace then
      if isSpace c then
        let r := readByte st
        skipLoop skipSpace n r.1 r.2
      else if c = 47 then
        let r := readByte st
        let st1 :=
          if r.1 = 47 then (lineLoop (r.2.rest.length + 1) r.1 r.2).2
          else if r.1 = 42 then blockLoop (r.2.rest.length + 2) r.1 0 r.2
          else syntaxError r.2
        let r2 := readByte st1
        skipLoop skipSpace n r2.1 r2.2
      else (c, st)
    else (c, st)

/-- `peekByte(skipSpace)`. -/
def peekByte (skipSpace : Bool) (st : St) : UInt8 × St :=
  if st.err.isSome then
    (0, { st with nerr := st.nerr + 1, panicked := st.panicked || decide (st.nerr + 1 > nerrLimit) })
  else
    let r := if st.peek = 0 then readByte st else (st.peek, st)
    let r2 := skipLoop skipSpace (r.2.rest.length + 2) r.1 r.2
    (r2.1, { r2.2 with peek := r2.1 })

/-- `nextByte(skipSpace)`. -/
def nextByte (skipSpace : Bool) (st : St) : UInt8 × St :=
  let r := peekByte skipSpace st
  (r.1, { r.2 with peek := 0 })

/-- the `for i := range len(kw)` loop of readKeyword; `false` = left by `return`. -/
def kwLoop : Bytes → St → St × Bool
  | [], st => (st, true)
  | k :: ks, st =>
    let r := nextByte false st
    if r.1 ≠ k then (syntaxError r.2, false) else kwLoop ks r.2

def readKeyword (kw : Bytes) (st : St) : St :=
  let st1 := (peekByte true st).2
  let r := kwLoop kw st1
  if r.2 then
    let p := peekByte false r.1
    if isIdent p.1 then syntaxError p.2 else p.2
  else r.1

/-- `for isIdent(r.peekByte(false)) { r.peek = 0 }` -/
def identLoop : Nat → St → St
  | 0, st =>
    let p := peekByte false st
    if isIdent p.1 then setStuck p.2 else p.2
  | n+1, st =>
    let p := peekByte false st
    if isIdent p.1 then identLoop n { p.2 with peek := 0 } else p.2

def readIdent (st : St) : St :=
  let p := peekByte true st
  if !isIdent p.1 then syntaxError p.2 else identLoop (p.2.rest.length + 2) p.2

/-- `*save = append(*save, string(r.buf[start:]))` -/
def saveFrom (start : Nat) (st : St) : St :=
  { st with imports := st.imports ++ [(st.buf.take (st.buf.length - start)).reverse] }

/-- the raw-string loop of readString. -/
def rawLoop : Nat → Nat → St → St
  | 0, _, st => if st.err.isNone then setStuck st else st
  | n+1, start, st =>
    if st.err.isNone then
      let r := nextByte false st
      if r.1 = 96 then saveFrom start r.2
      else rawLoop n start (if r.2.eof then syntaxError r.2 else r.2)
    else st

/-- the interpreted-string loop of readString. -/
def strLoop : Nat → Nat → St → St
  | 0, _, st => if st.err.isNone then setStuck st else st
  | n+1, start, st =>
    if st.err.isNone then
      let r := nextByte false st
      if r.1 = 34 then saveFrom start r.2
      else
        let st1 := if r.2.eof || r.1 = 10 then syntaxError r.2 else r.2
        let st2 :=
          if r.1 = 92 then
            -- `if r.nextByte(false) == '\n' { r.syntaxError() }`: the escaped byte cannot be a newline
            let e := nextByte false st1
            if escapedNewlineIsError && e.1 = 10 then syntaxError e.2 else e.2
          else st1
        strLoop n start st2
    else st

def readString (st : St) : St :=
  let r := nextByte true st
  if r.1 = 96 then rawLoop (r.2.rest.length + 2) (r.2.buf.length - 1) r.2
  else if r.1 = 34 then strLoop (r.2.rest.length + 2) (r.2.buf.length - 1) r.2
  else syntaxError r.2

def readImport (st : St) : St :=
  let p := peekByte true st
  let st1 :=
    if p.1 = 46 then { p.2 with peek := 0 }
    else if isIdent p.1 then readIdent p.2
    else p.2
  readString st1

/-- `for r.peekByte(true) != ')' && r.err == nil { r.readImport(imports) }` -/
def groupLoop : Nat → St → St
  | 0, st =>
    let p := peekByte true st
    if p.1 ≠ 41 && p.2.err.isNone then setStuck p.2 else p.2
  | n+1, st =>
    let p := peekByte true st
    if p.1 ≠ 41 && p.2.err.isNone then groupLoop n (readImport p.2) else p.2

/-- `for r.peekByte(true) == 'i' { … }` -/
def declLoop : Nat → St → St
  | 0, st =>
    let p := peekByte true st
    if p.1 = 105 then setStuck p.2 else p.2
  | n+1, st =>
    let p := peekByte true st
    if p.1 = 105 then
      let st1 := readKeyword kwImport p.2
      let q := peekByte true st1
      let st2 :=
        if q.1 = 40 then
          let g := groupLoop (q.2.rest.length + 2) (nextByte false q.2).2
          (nextByte false g).2
        else readImport q.2
      declLoop n st2
    else p.2

/-- `for r.err == nil && !r.eof { r.readByte() }` -/
def drain : Nat → St → St
  | 0, st => if st.err.isNone && !st.eof then setStuck st else st
  | n+1, st => if st.err.isNone && !st.eof then drain n (readByte st).2 else st

inductive Outcome
  | panic
  | stuck
  | ok (imports : List Bytes) (buf : Bytes) (err : Option Err)
deriving DecidableEq, Repr

/-- input as the importReader sees it: a leading byte-order mark is discarded first. -/
def stripBOM (input : Bytes) : Bytes :=
  if bomDiscarded && bom.isPrefixOf input then input.drop bom.length else input

/-- the state when ReadImports' parsing part is done. -/
def scan (data : Bytes) : St :=
  let st1 := readKeyword kwPackage (St.init data)
  let st2 := readIdent st1
  declLoop (data.length + 2) st2

def finish (report : Bool) (st : St) : Outcome :=
  if st.panicked then .panic else
  if st.err.isNone && !st.eof then
    if dropsLastByte then
      match st.buf with
      | [] => .panic                       -- r.buf[:len(r.buf)-1] with empty buf: slice bounds panic
      | _ :: t => if st.stuck then .stuck else .ok st.imports t.reverse none
    else if st.stuck then .stuck else .ok st.imports st.buf.reverse none
  else
    let st4 :=
      if st.err = some .syntax && !report && consumesWholeOnSyntax then
        drain (st.rest.length + 1) { st with err := none }
      else st
    if st4.stuck then .stuck else .ok st4.imports st4.buf.reverse st4.err

/-- `ReadImports(f, reportSyntaxError, &imports)` with `*imports` initially empty. -/
def readImports (input : Bytes) (report : Bool) : Outcome :=
  finish report (scan (stripBOM input))

end GIV.ReadImports
